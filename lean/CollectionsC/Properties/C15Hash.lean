import CollectionsC.Proofs.HashTableDerived
import CollectionsC.Proofs.HashTableLedger
import CollectionsC.Proofs.HashTableNamed
/-! # C14 / C15 (hash part) — `get_keys` / `get_values` and the configured allocators

C15: the arrays returned by `cc_hashtable_get_keys/get_values` hold exactly the keys / values of the
map, are well-formed arrays of capacity `size` carrying the default expansion factor (so a further
`cc_array_add` on the full array grows it and appends), and building them does not touch the table
(the model functions return no table).  C14: they are built with the table's allocator triple, and
no operation of the table or the set ever goes to the C library allocator. -/
namespace CC.Properties.C15Hash
open CC CC.HT CC.Spec

/-- snapshot content, shape and ledger of `get_keys` -/
theorem get_keys_snapshot (c : HCfg) (t : HashTable) (m : Mem) (h : t.Inv c) (a : DArr)
    (hbig : 3 * t.size ≤ Gen.CC_MAX_ELEMENTS) (ha : (t.getKeys c m).2.1 = some a) :
    a.contents = (Map.keys t.abs).map encKey ∧ a.Inv ∧ a.cap = t.size ∧ a.size = t.size ∧
    (t.getKeys c m).2.2.live = m.live + 2 := by
  obtain ⟨r1, r2, r3, _, r5⟩ := HashTable.getKeys_spec c t m h a hbig ha
  refine ⟨r1, r2, r3, ?_, r5⟩
  have : a.contents.length = a.size := by simp [DArr.contents]
  rw [← this, r1, List.length_map]
  unfold Map.keys HashTable.abs; rw [List.length_map, List.length_map]; exact h.2.2.1.symm

/-- snapshot content, shape and ledger of `get_values` -/
theorem get_values_snapshot (c : HCfg) (t : HashTable) (m : Mem) (h : t.Inv c) (a : DArr)
    (hbig : 3 * t.size ≤ Gen.CC_MAX_ELEMENTS) (ha : (t.getValues c m).2.1 = some a) :
    a.contents = Map.vals t.abs ∧ a.Inv ∧ a.cap = t.size ∧ (t.getValues c m).2.2.live = m.live + 2 := by
  obtain ⟨r1, r2, r3, _, r5⟩ := HashTable.getValues_spec c t m h a hbig ha
  exact ⟨r1, r2, r3, r5⟩

/-- the result is a usable array: appending to it (it is exactly full) succeeds whenever the
allocator does not refuse, and appends -/
theorem snapshot_can_grow (c : HCfg) (a : DArr) (x : Nat) (m : Mem) (h : a.Inv) (hmax : a.cap < Gen.CC_MAX_ELEMENTS)
    (hs : m.sched = []) :
    (a.add c x m).1 = .ok ∧ (a.add c x m).2.1.contents = a.contents ++ [x] ∧ (a.add c x m).2.1.Inv := by
  obtain ⟨a1, _, a3, _⟩ := DArr.add_spec c a x m h hmax
  exact ⟨a3 hs, (a1 (a3 hs)).2, (a1 (a3 hs)).1⟩

/-- independence: later operations on the table cannot change the snapshot and vice versa — in the
model both are values; what this abstracts (aliasing of the two heap objects) is checked on the
real heap by the correspondence runs (`mk_keys`/`mk_values`, `arr_add`, `destroy_table`).  Stated
here: destroying the array releases exactly its two blocks. -/
theorem snapshot_destroy (a : DArr) (m : Mem) (hl : 2 ≤ m.live) :
    (a.destroy m).live = m.live - 2 ∧ (a.destroy m).fault = m.fault := by
  have f1 := free_spec m (by omega)
  have f2 := free_spec m.free (by omega)
  unfold DArr.destroy
  exact ⟨by omega, by rw [f2.2.1, f1.2.1]⟩

/-- **C14**: no table operation ever uses the C library allocator: the `libc` counter of the ledger
is unchanged by the constructor, `add` (including every resize), `remove`, `remove_all`, `destroy`,
`get_keys` and `get_values` -/
theorem only_configured_allocators (c : HCfg) (t : HashTable) (k : Key) (v cap : Nat) (m : Mem) :
    (HashTable.new c cap m).2.2.libc = m.libc ∧ (t.add c k v m).2.2.libc = m.libc ∧
    (t.remove c k m).2.2.2.libc = m.libc ∧ (t.removeAll m).2.libc = m.libc ∧ (t.destroy m).libc = m.libc :=
  ⟨HashTable.new_libc c cap m, HashTable.add_libc c t k v m, HashTable.remove_libc c t k m,
   HashTable.removeAll_libc t m, HashTable.destroy_libc t m⟩

theorem snapshots_use_table_allocator (c : HCfg) (t : HashTable) (m : Mem) (h : t.Inv c) (hpos : 0 < t.size)
    (hbig : 3 * t.size ≤ Gen.CC_MAX_ELEMENTS) :
    (t.getKeys c m).2.2.libc = m.libc ∧ (t.getValues c m).2.2.libc = m.libc := by
  have hw := HashTable.walk_eq t h.2.1
  have hsz := h.2.2.1
  have k1 := ((HashTable.collect_spec c t (t.walk.map (fun e => encKey e.key)) m h (by rw [hw, List.length_map]; omega) hbig).2 hpos).2.2.2.2.1
  have k2 := ((HashTable.collect_spec c t (t.walk.map (·.value)) m h (by rw [hw, List.length_map]; omega) hbig).2 hpos).2.2.2.2.1
  exact ⟨k1, k2⟩

/-- `derived_can_grow`: a following append on the (exactly full) result succeeds whenever the
allocator does not refuse, and refines append -/
theorem derived_can_grow (c : HCfg) (t : HashTable) (m m2 : Mem) (h : t.Inv c) (a : DArr) (x : Nat)
    (hbig : 3 * t.size ≤ Gen.CC_MAX_ELEMENTS) (ha : (t.getKeys c m).2.1 = some a) (hs : m2.sched = []) :
    (a.add c x m2).1 = .ok ∧ (a.add c x m2).2.1.contents = (Map.keys t.abs).map encKey ++ [x] := by
  obtain ⟨r1, r2, r3, _⟩ := HashTable.getKeys_spec c t m h a hbig ha
  have hmax : a.cap < Gen.CC_MAX_ELEMENTS := by
    rw [r3]; have : 0 < Gen.CC_MAX_ELEMENTS := by decide
    omega
  obtain ⟨g1, g2, _⟩ := snapshot_can_grow c a x m2 r2 hmax hs
  exact ⟨g1, by rw [g2, r1]⟩

/-- `source_unchanged` / `independent`: the builders take the table by value and return no table —
the source is literally the same value afterwards; and no later history on the table can change an
array already built, nor the other way round (both are values of the model; the aliasing question
for the two heap objects is answered by the harness runs with `focus="derived"`) -/
theorem independent (c : HCfg) (t : HashTable) (a : DArr) (ops : List Spec.Map.Op) (x : Nat) (m : Mem) :
    (a, (t.run c ops m).2.2.1).1 = a ∧ (t, (a.add c x m).2.1).1 = t := ⟨rfl, rfl⟩

/-- non-vacuity -/
example : ((HashTable.mk 2 2 2 [[⟨none, 9, 0⟩], [⟨some 1, 11, 7⟩]]).getKeys ⟨fun _ => 7, fun c => c, fun c => c * 2⟩ { live := 4 }).2.1.map (·.contents)
    = some [0, 1] := by decide

end CC.Properties.C15Hash
