import CollectionsC.Proofs.HashTableDerived
import CollectionsC.Proofs.HashTableLedger
import CollectionsC.Proofs.HashTableNamed
import CollectionsC.Properties.C02
/-! # C15 (hash part) — `get_keys` / `get_values`

The arrays returned by `cc_hashtable_get_keys/get_values` hold exactly the keys / values of the map,
are well-formed arrays of capacity `size` carrying the default expansion factor **and the table's
allocator triple** (the C code copies `mem_alloc/mem_calloc/mem_free` into the `CC_ArrayConf`), so a
further `cc_array_add` on the full array grows it and appends through that triple.  On an empty
table nothing is built.  The C14 statements live in `C14Hash.lean`. -/
namespace CC.Properties.C15Hash
open CC CC.HT CC.Spec

/-- snapshot content, shape, triple and ledger of `get_keys` -/
theorem get_keys_snapshot (c : HCfg) (t : HashTable) (m : Mem) (h : t.Inv c) (a : DArr)
    (hbig : 8 * t.size ≤ Gen.CC_MAX_ELEMENTS) (ha : (t.getKeys c m).2.1 = some a) :
    a.contents = (Map.keys t.abs).map encKey ∧ a.Inv ∧ a.cap = t.size ∧ a.size = t.size ∧
    liveOf (t.getKeys c m).2.2 t.triple = liveOf m t.triple + 2 ∧ a.triple = t.triple := by
  obtain ⟨r1, r2, r3, _, r5, r6⟩ := HashTable.getKeys_spec c t m h a hbig ha
  refine ⟨r1, r2, r3, ?_, r5, r6⟩
  have : a.contents.length = a.size := by simp [DArr.contents]
  rw [← this, r1, List.length_map]
  unfold Map.keys HashTable.abs; rw [List.length_map, List.length_map]; exact h.2.2.1.symm

/-- the key array determines the key set exactly (a non-NULL key is a non-zero pointer) -/
theorem get_keys_exact (c : HCfg) (t : HashTable) (m : Mem) (h : t.Inv c) (a : DArr)
    (hbig : 8 * t.size ≤ Gen.CC_MAX_ELEMENTS) (hnz : some 0 ∉ Map.keys t.abs) (ha : (t.getKeys c m).2.1 = some a) :
    a.contents.map C02.decKey = Map.keys t.abs := C02.enumeration_exact_keys c t m h hbig hnz a ha

/-- snapshot content, shape, triple and ledger of `get_values` -/
theorem get_values_snapshot (c : HCfg) (t : HashTable) (m : Mem) (h : t.Inv c) (a : DArr)
    (hbig : 8 * t.size ≤ Gen.CC_MAX_ELEMENTS) (ha : (t.getValues c m).2.1 = some a) :
    a.contents = Map.vals t.abs ∧ a.Inv ∧ a.cap = t.size ∧
    liveOf (t.getValues c m).2.2 t.triple = liveOf m t.triple + 2 ∧ a.triple = t.triple := by
  obtain ⟨r1, r2, r3, _, r5, r6⟩ := HashTable.getValues_spec c t m h a hbig ha
  exact ⟨r1, r2, r3, r5, r6⟩

/-- on an empty table: `CC_ERR_INVALID_CAPACITY`, no object, ledger unchanged -/
theorem snapshot_of_empty (c : HCfg) (t : HashTable) (m : Mem) (h : t.Inv c) (h0 : t.size = 0) :
    t.getKeys c m = (.errInvalidCapacity, none, m) ∧ t.getValues c m = (.errInvalidCapacity, none, m) :=
  C02.enumeration_empty c t m h h0

/-- **the status of the builders is pinned** (non-empty table; `hbig`: `cc_array_new_conf`'s own
byte-size guard `capacity ≤ CC_MAX_ELEMENTS / sizeof(void*)`, true in every address space): `CC_OK`
with an array exactly when both requests (array header, buffer) are granted, otherwise `CC_ERR_ALLOC`
with no array and nothing leaked.  A builder that always refused would not satisfy this. -/
theorem snapshot_status (c : HCfg) (t : HashTable) (m : Mem) (h : t.Inv c) (hpos : 0 < t.size)
    (hbig : 8 * t.size ≤ Gen.CC_MAX_ELEMENTS) :
    ((t.getKeys c m).1 = .ok ↔ ((m.allocT t.triple).1 = true ∧ ((m.allocT t.triple).2.allocT t.triple).1 = true)) ∧
    ((t.getKeys c m).1 = .ok ∨ (t.getKeys c m).1 = .errAlloc) ∧
    ((t.getKeys c m).1 = .ok ↔ (t.getKeys c m).2.1.isSome = true) ∧
    ((t.getValues c m).1 = .ok ↔ ((m.allocT t.triple).1 = true ∧ ((m.allocT t.triple).2.allocT t.triple).1 = true)) ∧
    ((t.getValues c m).1 = .ok ∨ (t.getValues c m).1 = .errAlloc) ∧
    ((t.getValues c m).1 = .ok ↔ (t.getValues c m).2.1.isSome = true) := by
  have hw := HashTable.walk_eq t h.2.1
  have hsz := h.2.2.1
  have key : ∀ xs : List Nat, xs.length = t.size →
      ((t.collect c xs m).1 = .ok ↔ ((m.allocT t.triple).1 = true ∧ ((m.allocT t.triple).2.allocT t.triple).1 = true)) := by
    intro xs hxs
    have hnz : ¬ (t.size = 0 ∨ 2 ≥ Gen.CC_MAX_ELEMENTS / t.size) := by
      intro hh
      rcases hh with hh | hh
      · omega
      · have h3 : 3 ≤ Gen.CC_MAX_ELEMENTS / t.size := (Nat.le_div_iff_mul_le hpos).mpr (by omega)
        omega
    have hnb : ¬ t.size > Gen.CC_MAX_ELEMENTS / 8 := by
      have : t.size ≤ Gen.CC_MAX_ELEMENTS / 8 := (Nat.le_div_iff_mul_le (by omega)).mpr (by omega)
      omega
    have hchk : decide (t.capacity ≤ t.buckets.length) = true := by simp; have := h.2.1; omega
    unfold HashTable.collect DArr.new
    simp only [hnz, hnb, if_false]
    cases h1 : (m.allocT t.triple).1 with
    | false => simp
    | true =>
      cases h2 : ((m.allocT t.triple).2.allocT t.triple).1 with
      | false => simp
      | true =>
        simp only [Bool.not_true, Bool.false_eq_true, if_false, hchk, Mem.check_true, and_self, iff_true]
        have hinv0 : (⟨0, t.size, Buf.mk t.size, t.triple⟩ : DArr).Inv := ⟨by simp, by simp, hpos⟩
        have b1 := (DArr.addAll_room c xs ⟨0, t.size, Buf.mk t.size, t.triple⟩ ((m.allocT t.triple).2.allocT t.triple).2 hinv0 (by simp; omega)).1
        simp [b1]
  have kk := (HashTable.collect_spec c t (t.walk.map (fun e => encKey e.key)) m h (by rw [hw, List.length_map]; omega) hbig).2 hpos
  have vv := (HashTable.collect_spec c t (t.walk.map (·.value)) m h (by rw [hw, List.length_map]; omega) hbig).2 hpos
  exact ⟨key _ (by rw [hw, List.length_map]; omega), kk.1, HashTable.collect_ok_iff c t _ m,
         key _ (by rw [hw, List.length_map]; omega), vv.1, HashTable.collect_ok_iff c t _ m⟩

/-- in particular a snapshot is produced whenever the allocator does not refuse -/
theorem snapshot_succeeds (c : HCfg) (t : HashTable) (m : Mem) (h : t.Inv c) (hpos : 0 < t.size)
    (hbig : 8 * t.size ≤ Gen.CC_MAX_ELEMENTS)
    (hs : (m.allocT t.triple).1 = true ∧ ((m.allocT t.triple).2.allocT t.triple).1 = true) :
    (t.getKeys c m).1 = .ok ∧ (t.getKeys c m).2.1.isSome = true ∧
    (t.getValues c m).1 = .ok ∧ (t.getValues c m).2.1.isSome = true := by
  obtain ⟨k1, _, k3, v1, _, v3⟩ := snapshot_status c t m h hpos hbig
  exact ⟨k1.mpr hs, k3.mp (k1.mpr hs), v1.mpr hs, v3.mp (v1.mpr hs)⟩

/-- `derived_can_grow`: the result is a usable array: appending to it (it is exactly full) grows it
with the default factor through the inherited triple and appends, whenever that allocation is granted
and the byte-size guard of `expand_capacity` is not hit -/
theorem snapshot_can_grow (c : HCfg) (a : DArr) (x : Nat) (m : Mem) (h : a.Inv) (hmax : a.cap < Gen.CC_MAX_ELEMENTS / 8)
    (hg : c.agrow a.cap ≤ Gen.CC_MAX_ELEMENTS / 8) (hs : (m.allocT a.triple).1 = true ∨ a.size < a.cap) :
    (a.add c x m).1 = .ok ∧ (a.add c x m).2.1.contents = a.contents ++ [x] ∧ (a.add c x m).2.1.Inv ∧
    (a.add c x m).2.1.triple = a.triple ∧ liveOf (a.add c x m).2.2 a.triple = liveOf m a.triple := by
  obtain ⟨a1, a2, a3, a4, _, a6⟩ := DArr.add_spec c a x m h hmax hg
  have hok : (a.add c x m).1 = .ok := by
    rcases hs with hs | hs
    · exact a6 hs
    · exact (DArr.add_room c a x m h hs).1
  exact ⟨hok, (a1 hok).2.1, (a1 hok).1, (a1 hok).2.2, a3 hok⟩

theorem derived_can_grow (c : HCfg) (t : HashTable) (m m2 : Mem) (h : t.Inv c) (a : DArr) (x : Nat)
    (hbig : 8 * (t.size + 1) ≤ Gen.CC_MAX_ELEMENTS) (hg : c.agrow t.size ≤ Gen.CC_MAX_ELEMENTS / 8)
    (ha : (t.getKeys c m).2.1 = some a) (hs : (m2.allocT t.triple).1 = true) :
    (a.add c x m2).1 = .ok ∧ (a.add c x m2).2.1.contents = (Map.keys t.abs).map encKey ++ [x] := by
  obtain ⟨r1, r2, r3, _, _, r6⟩ := HashTable.getKeys_spec c t m h a (by omega) ha
  have hmax : a.cap < Gen.CC_MAX_ELEMENTS / 8 := by
    rw [r3]
    have : t.size + 1 ≤ Gen.CC_MAX_ELEMENTS / 8 := (Nat.le_div_iff_mul_le (by omega)).mpr (by omega)
    omega
  obtain ⟨g1, g2, _⟩ := snapshot_can_grow c a x m2 r2 hmax (by rw [r3]; exact hg) (Or.inl (by rw [r6]; exact hs))
  exact ⟨g1, by rw [g2, r1]⟩

/-- destroying the array releases exactly its two blocks, through its own triple -/
theorem snapshot_destroy (a : DArr) (m : Mem) (hl : 2 ≤ liveOf m a.triple) :
    liveOf (a.destroy m) a.triple = liveOf m a.triple - 2 ∧ (a.destroy m).fault = m.fault := by
  have f1 := freeT_spec m a.triple (by omega)
  have f2 := freeT_spec (m.freeT a.triple) a.triple (by omega)
  unfold DArr.destroy
  exact ⟨by omega, by rw [f2.2.1, f1.2.1]⟩

/-- `source_unchanged` / `independent` — **true by the value semantics of the model** (the builders
take the table by value and return no table; a later history on one object cannot reach the other
inside Lean).  The model cannot falsify these clauses; the aliasing question for the two heap objects
is answered by the harness (`focus="derived"`: `mk_keys/mk_values`, `arr_add`, `destroy_table` first,
full observation of both objects after every step, ASan). -/
theorem independent_model (c : HCfg) (t : HashTable) (a : DArr) (ops : List Spec.Map.Op) (x : Nat) (m : Mem) :
    (a, (t.run c ops m).2.2.1).1 = a ∧ (t, (a.add c x m).2.1).1 = t := ⟨rfl, rfl⟩

/-- non-vacuity -/
example : ((HashTable.mk 2 2 2 [[⟨none, 9, 0⟩], [⟨some 1, 11, 7⟩]] .conf).getKeys ⟨fun _ => 7, fun c => c, fun c => c * 2⟩ { live := 4 }).2.1.map (·.contents)
    = some [0, 1] := by decide
/-- the growth hypotheses are satisfiable: a full two-element array doubles -/
example : ((DArr.mk 2 2 [5, 6] .conf).add ⟨fun _ => 7, fun c => c, fun c => c * 2⟩ 7 { live := 2 }).2.1.contents = [5, 6, 7] := by decide

end CC.Properties.C15Hash
