import CollectionsC.Proofs.DequeCross
import CollectionsC.Proofs.DequeZipSelf
/-! # C07 (deque part) — iterators traverse completely and in order; one-step mutation is safe

The C cursor `(index, last_removed)` of `CC_DequeIter`/`CC_DequeZipIter` is compared with the ideal cursor
`Spec.DequeSpec.Cur` (`pos` elements passed, `removed` flag) over the ideal list.  All statements are for
every layout satisfying `Deque.Inv` (empty, single, exactly full, wrapped), every cursor value, every
program — not only programs with ≤ 1 structural change per yield: the ideal cursor says what happens in
the other cases too (second removal rejected, …).

**Partial (finding D3).** `iter_add` and `zip_iter_add` call `cc_deque_add_at` with the cursor position;
statements about them carry the hypothesis that this position is outside `add_at`'s front-half range. -/
namespace CC.Properties.C07Deque
open CC CC.Spec CC.Deque

/-! ## complete, ordered traversal -/

/-- `n` calls of `cc_deque_iter_next`, collecting what is yielded -/
def drain (d : Deque) : Nat → Iter → Mem → List Nat × Iter × Mem
  | 0, it, m => ([], it, m)
  | n + 1, it, m =>
    match (iterNext it d m).2.1 with
    | some v => let rs := drain d n (iterNext it d m).2.2.1 (iterNext it d m).2.2.2; (v :: rs.1, rs.2.1, rs.2.2)
    | none => ([], (iterNext it d m).2.2.1, (iterNext it d m).2.2.2)

theorem drain_from (d : Deque) (hi : d.Inv) (n : Nat) (it : Iter) (m : Mem) (h : it.index + n = d.size) :
    (drain d n it m).1 = d.abs.drop it.index ∧ (drain d n it m).2.1.index = d.size ∧ (drain d n it m).2.2 = m := by
  induction n generalizing it m with
  | zero =>
    simp only [drain]
    exact ⟨by rw [List.drop_of_length_le (by simp; omega)], by omega, (by first | rfl | trivial)⟩
  | succ n ih =>
    have hlt : it.index < d.size := by omega
    have hy := iterNext_yield it d m hi hlt
    have hlen : it.index < d.abs.length := by simpa using hlt
    simp only [drain, hy, List.getElem?_eq_getElem hlen]
    obtain ⟨r1, r2, r3⟩ := ih { index := it.index + 1, lastRemoved := false } m (by simp only; omega)
    refine ⟨?_, r2, r3⟩
    rw [r1, List.drop_eq_getElem_cons hlen]

/-- **traversal_complete**: a fresh iterator followed by `size` calls of `next` yields exactly the
elements, front to back, each once — at every fill level, exactly full and wrapped rings included — and
the next call reports the end and changes nothing -/
theorem traversal_complete (d : Deque) (m : Mem) (hi : d.Inv) :
    (drain d d.size {} m).1 = d.abs ∧ (drain d d.size {} m).2.2 = m ∧
    iterNext (drain d d.size {} m).2.1 d m = (.iterEnd, none, (drain d d.size {} m).2.1, m) := by
  obtain ⟨r1, r2, r3⟩ := drain_from d hi d.size {} m (by simp)
  exact ⟨by simpa using r1, r3, iterNext_end _ d m (by omega)⟩

/-- `iter_index` after a yield is the position of the yielded element -/
theorem iter_index_is_position (it : Iter) (d : Deque) (m : Mem) (hi : d.Inv) (h : it.index < d.size) :
    iterIndex (iterNext it d m).2.2.1 = it.index ∧ (iterNext it d m).2.1 = d.abs[it.index]? := by
  rw [iterNext_yield it d m hi h]
  exact ⟨by simp [iterIndex, decIdx], rfl⟩

/-! ## iterator programs simulate the ideal cursor -/

inductive IOp where
  | next | remove | add (x : Nat) | replace (x : Nat) | index

structure IOut where
  st  : Option Stat
  val : Option Nat
  deriving DecidableEq, Repr

/-- one iterator call on the model -/
def stepI (it : Iter) (d : Deque) (m : Mem) : IOp → IOut × Iter × Deque × Mem
  | .next => let r := iterNext it d m; (⟨some r.1, r.2.1⟩, r.2.2.1, d, r.2.2.2)
  | .remove => let r := iterRemove it d m; (⟨some r.1, r.2.1⟩, r.2.2.1, r.2.2.2.1, r.2.2.2.2)
  | .add x => let r := iterAdd it d x m; (⟨some r.1, none⟩, r.2.1, r.2.2.1, r.2.2.2)
  | .replace x => let r := iterReplace it d x m; (⟨some r.1, r.2.1⟩, it, r.2.2.1, r.2.2.2)
  | .index => (⟨none, some (iterIndex it)⟩, it, d, m)

/-- the same call on the ideal cursor -/
def stepC (c : DequeSpec.Cur) (l : List Nat) : IOp → IOut × DequeSpec.Cur × List Nat
  | .next => let r := DequeSpec.curNext l c; (⟨some r.1, r.2.1⟩, r.2.2, l)
  | .remove => let r := DequeSpec.curRemove l c; (⟨some r.1, r.2.1⟩, r.2.2.2, r.2.2.1)
  | .add x => let r := DequeSpec.curAdd l c x; (⟨some r.1, none⟩, r.2.2, r.2.1)
  | .replace x => let r := DequeSpec.curReplace l c x; (⟨some r.1, r.2.1⟩, c, r.2.2)
  | .index => (⟨none, some (decIdx c.pos)⟩, c, l)

/-- finding D3's range for `iter_add` at cursor position `pos` of a deque with `size` elements -/
def inD3 (pos size : Nat) : IOp → Prop
  | .add _ => 1 ≤ pos ∧ pos + 1 ≤ size / 2
  | _ => False

/-- **one iterator call (partial on D3)**: it affects exactly the position the ideal cursor says, returns
the same status and out-value, leaves the cursors related and the invariant intact — or it is an `add`
whose growth was refused: `CC_ERR_ALLOC`, deque **and cursor** unchanged -/
theorem step_refines_partial (it : Iter) (d : Deque) (m : Mem) (op : IOp) (hi : d.Inv)
    (hD3 : ¬ inD3 it.index d.size op) :
    ((stepI it d m op).1 = (stepC it.cur d.abs op).1 ∧ (stepI it d m op).2.1.cur = (stepC it.cur d.abs op).2.1 ∧
      (stepI it d m op).2.2.1.abs = (stepC it.cur d.abs op).2.2 ∧ (stepI it d m op).2.2.1.Inv ∧
      memSame d.triple (stepI it d m op).2.2.2 m) ∨
    ((∃ x, op = .add x) ∧ (stepI it d m op).1 = ⟨some .errAlloc, none⟩ ∧ (stepI it d m op).2.1 = it ∧
      (stepI it d m op).2.2.1 = d ∧ memSame d.triple (stepI it d m op).2.2.2 m ∧
      ((m.allocT d.triple).1 = false ∨ (d.cap = Gen.MAX_POW_TWO ∧ d.size = d.cap))) := by
  cases op with
  | next =>
    obtain ⟨a1, a2, a3, a4⟩ := iterNext_spec it d m hi
    left; simp only [stepI, stepC, a1, a2]
    exact ⟨trivial, a3, trivial, hi, by rw [a4]; exact memSame_refl _ m⟩
  | remove =>
    obtain ⟨a1, a2, a3, a4, a5, a6, _⟩ := iterRemove_spec it d m hi
    left; simp only [stepI, stepC, a1, a2]
    exact ⟨trivial, a4, a3, a5, by rw [a6]; exact memSame_refl _ m⟩
  | add x =>
    rcases iterAdd_refines_partial it d x m hi hD3 with ⟨a1, a2, a3, a4, a5⟩ | ⟨a1, a2, a3, a4, a5, a6⟩
    · left; simp only [stepI, stepC, a1]; exact ⟨trivial, a3, a2, a4, a5⟩
    · right; simp only [stepI, a1]
      exact ⟨⟨x, rfl⟩, trivial, a3, a2, a4, a6.imp id (fun h => ⟨h, a5⟩)⟩
  | replace x =>
    obtain ⟨a1, a2, a3, a4, a5⟩ := iterReplace_spec it d x m hi
    left; simp only [stepI, stepC, a1, a2]
    exact ⟨trivial, trivial, a3, a4, by rw [a5]; exact memSame_refl _ m⟩
  | index =>
    left; exact ⟨rfl, rfl, rfl, hi, memSame_refl _ m⟩

def runI (it : Iter) (d : Deque) (m : Mem) : List IOp → List IOut × Iter × Deque × Mem
  | [] => ([], it, d, m)
  | op :: ops =>
    let r := stepI it d m op
    let rs := runI r.2.1 r.2.2.1 r.2.2.2 ops
    (r.1 :: rs.1, rs.2.1, rs.2.2.1, rs.2.2.2)

def runC (c : DequeSpec.Cur) (l : List Nat) : List IOp → List IOut × DequeSpec.Cur × List Nat
  | [] => ([], c, l)
  | op :: ops => let r := stepC c l op; let rs := runC r.2.1 r.2.2 ops; (r.1 :: rs.1, rs.2.1, rs.2.2)

/-- no `add` of the program happens at a cursor position in finding D3's range (along the ideal run) -/
def d3Free (c : DequeSpec.Cur) (l : List Nat) : List IOp → Prop
  | [] => True
  | op :: ops => ¬ inD3 c.pos l.length op ∧ d3Free (stepC c l op).2.1 (stepC c l op).2.2 ops

theorem stepC_length_le (c : DequeSpec.Cur) (l : List Nat) (op : IOp) : (stepC c l op).2.2.length ≤ l.length + 1 := by
  cases op with
  | next => simp [stepC]
  | remove =>
    simp only [stepC, DequeSpec.curRemove]
    split
    · simp
    split
    · simp
    split <;> simp [List.length_eraseIdx] <;> split <;> omega
  | add x => simp only [stepC, DequeSpec.curAdd]; split <;> simp [List.length_insertIdx] <;> split <;> omega
  | replace x =>
    simp only [stepC, DequeSpec.curReplace, DequeSpec.replaceAt]
    split
    · simp
    · split <;> simp
  | index => simp [stepC]

theorem stepI_triple (it : Iter) (d : Deque) (m : Mem) (op : IOp) : (stepI it d m op).2.2.1.triple = d.triple := by
  cases op with
  | next => rfl
  | remove => exact iterRemove_triple it d m
  | add x => exact iterAdd_triple it d x m
  | replace x => exact iterReplace_triple it d x m
  | index => rfl

/-- the model reported `CC_ERR_ALLOC` for this iterator call -/
def blocked (it : Iter) (d : Deque) (m : Mem) (op : IOp) : Bool := (stepI it d m op).1.st == some .errAlloc

/-- the ideal cursor, told which calls were blocked -/
def stepCB (c : DequeSpec.Cur) (l : List Nat) (ob : IOp × Bool) : IOut × DequeSpec.Cur × List Nat :=
  if ob.2 then (⟨some .errAlloc, none⟩, c, l) else stepC c l ob.1

def runCB (c : DequeSpec.Cur) (l : List Nat) : List (IOp × Bool) → List IOut × DequeSpec.Cur × List Nat
  | [] => ([], c, l)
  | ob :: obs => let r := stepCB c l ob; let rs := runCB r.2.1 r.2.2 obs; (r.1 :: rs.1, rs.2.1, rs.2.2)

def flags (it : Iter) (d : Deque) (m : Mem) : List IOp → List Bool
  | [] => []
  | op :: ops => blocked it d m op :: flags (stepI it d m op).2.1 (stepI it d m op).2.2.1 (stepI it d m op).2.2.2 ops

/-- no *executed* `add` happens at a cursor position in finding D3's range -/
def d3FreeB (c : DequeSpec.Cur) (l : List Nat) : List (IOp × Bool) → Prop
  | [] => True
  | ob :: obs => (ob.2 = false → ¬ inD3 c.pos l.length ob.1) ∧ d3FreeB (stepCB c l ob).2.1 (stepCB c l ob).2.2 obs

theorem stepC_never_errAlloc (c : DequeSpec.Cur) (l : List Nat) (op : IOp) : (stepC c l op).1.st ≠ some .errAlloc := by
  cases op with
  | next => simp only [stepC, DequeSpec.curNext]; cases l[c.pos]? <;> simp
  | remove =>
    simp only [stepC, DequeSpec.curRemove]
    split
    · simp
    split
    · simp
    cases l[c.pos - 1]? <;> simp
  | add x => simp only [stepC, DequeSpec.curAdd]; split <;> simp
  | replace x =>
    simp only [stepC, DequeSpec.curReplace, DequeSpec.replaceAt]
    split
    · simp
    · split <;> simp
  | index => simp [stepC]

/-- **program_refines, every refusal schedule (partial on D3)**: *any* program of iterator calls — any
pattern of next / remove / add / replace / index, from any cursor over any layout, under any allocator
behaviour — returns exactly what the ideal cursor returns when told which `add`s were blocked (a blocked
`add` reports `CC_ERR_ALLOC`, deque **and cursor** unchanged); cursors stay related, the content is the
ideal one, invariant and ledger are intact.  Removal, replacement and insertion act exactly on the position
of the element yielded last and the traversal continues over precisely the original elements not yet
visited (`cursor_todo_untouched`). -/
theorem program_refines_sched_partial (ops : List IOp) (it : Iter) (d : Deque) (m : Mem) (hi : d.Inv)
    (hfree : d3FreeB it.cur d.abs (ops.zip (flags it d m ops))) :
    (runI it d m ops).1 = (runCB it.cur d.abs (ops.zip (flags it d m ops))).1 ∧
    (runI it d m ops).2.1.cur = (runCB it.cur d.abs (ops.zip (flags it d m ops))).2.1 ∧
    (runI it d m ops).2.2.1.abs = (runCB it.cur d.abs (ops.zip (flags it d m ops))).2.2 ∧
    (runI it d m ops).2.2.1.Inv ∧ memSame d.triple (runI it d m ops).2.2.2 m := by
  induction ops generalizing it d m with
  | nil => exact ⟨rfl, rfl, rfl, hi, memSame_refl _ m⟩
  | cons op ops ih =>
    simp only [flags, List.zip_cons_cons, d3FreeB] at hfree
    obtain ⟨hf1, hf2⟩ := hfree
    have htr := stepI_triple it d m op
    simp only [runI, flags, List.zip_cons_cons, runCB]
    cases hb : blocked it d m op
    · rw [hb] at hf1 hf2
      simp only [stepCB, Bool.false_eq_true, if_false] at hf2 ⊢
      rw [abs_length] at hf1
      rcases step_refines_partial it d m op hi (hf1 rfl) with ⟨s1, s2, s3, s4, s5⟩ | ⟨_, s1, _⟩
      · rw [← s2, ← s3] at hf2
        obtain ⟨r1, r2, r3, r4, r5⟩ := ih (stepI it d m op).2.1 (stepI it d m op).2.2.1 (stepI it d m op).2.2.2 s4 hf2
        rw [s2, s3] at r1 r2 r3
        rw [htr] at r5
        exact ⟨by rw [s1, r1], r2, r3, r4, memSame_trans r5 s5⟩
      · exfalso
        unfold blocked at hb
        rw [s1] at hb; simp at hb
    · rw [hb] at hf2
      simp only [stepCB, if_true] at hf2 ⊢
      have hst : (stepI it d m op).1.st = some .errAlloc := by
        unfold blocked at hb; simpa using hb
      -- a blocked call is an `add` whose growth failed: everything, the cursor included, unchanged
      have hin : (stepI it d m op).1 = ⟨some .errAlloc, none⟩ ∧ (stepI it d m op).2.1 = it ∧
          (stepI it d m op).2.2.1 = d ∧ memSame d.triple (stepI it d m op).2.2.2 m := by
        cases op with
        | add x =>
          obtain ⟨_, a2, a3, _⟩ := iterAdd_safe it d x m hi
          simp only [stepI, Option.some.injEq] at hst ⊢
          obtain ⟨b1, b2⟩ := a3 (by rw [hst]; decide)
          exact ⟨by rw [hst], b2, b1, a2⟩
        | next =>
          exfalso
          have := (iterNext_spec it d m hi).1
          simp only [stepI, Option.some.injEq] at hst
          rw [hst] at this
          exact stepC_never_errAlloc it.cur d.abs .next (by simp only [stepC]; rw [← this])
        | remove =>
          exfalso
          have := (iterRemove_spec it d m hi).1
          simp only [stepI, Option.some.injEq] at hst
          rw [hst] at this
          exact stepC_never_errAlloc it.cur d.abs .remove (by simp only [stepC]; rw [← this])
        | replace x =>
          exfalso
          have := (iterReplace_spec it d x m hi).1
          simp only [stepI, Option.some.injEq] at hst
          rw [hst] at this
          exact stepC_never_errAlloc it.cur d.abs (.replace x) (by simp only [stepC]; rw [← this])
        | index => simp [stepI] at hst
      obtain ⟨b1, b2, b3, b4⟩ := hin
      have hcur : (stepI it d m op).2.1.cur = it.cur := by rw [b2]
      have habs : (stepI it d m op).2.2.1.abs = d.abs := by rw [b3]
      rw [← hcur, ← habs] at hf2
      obtain ⟨r1, r2, r3, r4, r5⟩ := ih (stepI it d m op).2.1 (stepI it d m op).2.2.1 (stepI it d m op).2.2.2
        (by rw [b3]; exact hi) hf2
      rw [hcur, habs] at r1 r2 r3
      rw [htr] at r5
      exact ⟨by rw [b1, r1], r2, r3, r4, memSame_trans r5 b4⟩

/-- **Corollary: nothing is blocked** with a never-refusing allocator below the capacity limit -/
theorem program_refines_partial (ops : List IOp) (it : Iter) (d : Deque) (m : Mem) (hi : d.Inv)
    (hn : neverRefuses d.triple m)
    (hbound : d.size + ops.length ≤ Gen.MAX_POW_TWO) (hfree : d3Free it.cur d.abs ops) :
    (runI it d m ops).1 = (runC it.cur d.abs ops).1 ∧ (runI it d m ops).2.1.cur = (runC it.cur d.abs ops).2.1 ∧
    (runI it d m ops).2.2.1.abs = (runC it.cur d.abs ops).2.2 ∧ (runI it d m ops).2.2.1.Inv ∧
    memSame d.triple (runI it d m ops).2.2.2 m := by
  induction ops generalizing it d m with
  | nil => exact ⟨rfl, rfl, rfl, hi, memSame_refl _ m⟩
  | cons op ops ih =>
    obtain ⟨hf1, hf2⟩ := hfree
    simp only [List.length_cons] at hbound
    rw [abs_length] at hf1
    have htr := stepI_triple it d m op
    rcases step_refines_partial it d m op hi hf1 with ⟨s1, s2, s3, s4, s5⟩ | ⟨_, _, _, _, _, s6⟩
    · have hlen := stepC_length_le it.cur d.abs op
      rw [← s3, abs_length, abs_length] at hlen
      rw [← s2, ← s3] at hf2
      obtain ⟨r1, r2, r3, r4, r5⟩ := ih (stepI it d m op).2.1 (stepI it d m op).2.2.1 (stepI it d m op).2.2.2
        s4 (by rw [htr]; exact memD_neverRefuses s5 hn) (by omega) hf2
      simp only [runI, runC]
      rw [s2, s3] at r1 r2 r3
      rw [htr] at r5
      exact ⟨by rw [s1, r1], r2, r3, r4, memSame_trans r5 s5⟩
    · exfalso
      rcases s6 with s6 | ⟨s6, s7⟩
      · have := (allocT_of_neverRefuses d.triple m hn).1
        rw [s6] at this; exact absurd this (by decide)
      · have := hi.2.2.2.2.2; omega

theorem drop_insertIdx_succ (l : List Nat) (i x : Nat) (h : i ≤ l.length) :
    (l.insertIdx i x).drop (i + 1) = l.drop i := by
  induction l generalizing i with
  | nil =>
    have : i = 0 := by simpa using h
    subst this; simp
  | cons a l ih =>
    cases i with
    | zero => simp
    | succ i =>
      simp only [List.insertIdx_succ_cons, List.drop_succ_cons]
      exact ih i (by simpa using h)

/-- **the traversal continues over precisely the not-yet-visited original elements**: a successful
remove / add / replace through the cursor leaves the part of the list behind the cursor (`drop pos`: what
`next` will still yield) exactly as it was, and `next` yields its head -/
theorem cursor_todo_untouched (l : List Nat) (c : DequeSpec.Cur) (x : Nat) :
    ((DequeSpec.curRemove l c).1 = .ok →
      (DequeSpec.curRemove l c).2.2.1.drop (DequeSpec.curRemove l c).2.2.2.pos = l.drop c.pos) ∧
    ((DequeSpec.curAdd l c x).1 = .ok →
      (DequeSpec.curAdd l c x).2.1.drop (DequeSpec.curAdd l c x).2.2.pos = l.drop c.pos) ∧
    ((DequeSpec.curReplace l c x).1 = .ok → (DequeSpec.curReplace l c x).2.2.drop c.pos = l.drop c.pos) ∧
    ((DequeSpec.curNext l c).1 = .ok → (DequeSpec.curNext l c).2.1 = (l.drop c.pos).head? ∧
      l.drop (DequeSpec.curNext l c).2.2.pos = (l.drop c.pos).tail) := by
  refine ⟨?_, ?_, ?_, ?_⟩
  · unfold DequeSpec.curRemove
    split
    · intro h; simp at h
    split
    · intro h; simp at h
    · rename_i h0
      cases hg : l[c.pos - 1]? with
      | none => intro h; simp at h
      | some v =>
        intro _
        simp only
        have hlt : c.pos - 1 < l.length := by
          rcases Nat.lt_or_ge (c.pos - 1) l.length with h | h
          · exact h
          · rw [List.getElem?_eq_none h] at hg; cases hg
        rw [Deque.drop_eraseIdx_self l (c.pos - 1) (by omega)]
        congr 1; omega
  · unfold DequeSpec.curAdd
    split
    · rename_i hle
      intro _
      simp only
      exact drop_insertIdx_succ l c.pos x hle
    · intro h; simp at h
  · unfold DequeSpec.curReplace
    split
    · intro h; simp at h
    · rename_i h0
      unfold DequeSpec.replaceAt
      split
      · intro _
        simp only
        rw [List.drop_set]
        rw [if_pos (by omega)]
      · intro h; simp at h
  · unfold DequeSpec.curNext
    cases hg : l[c.pos]? with
    | none => intro h; simp at h
    | some v =>
      intro _
      simp only
      have hlt : c.pos < l.length := by
        rcases Nat.lt_or_ge c.pos l.length with h | h
        · exact h
        · rw [List.getElem?_eq_none h] at hg; cases hg
      rw [List.drop_eq_getElem_cons hlt]
      rw [List.getElem?_eq_getElem hlt] at hg
      simp only [List.head?_cons, List.tail_cons]
      exact ⟨hg.symm, (by first | rfl | trivial)⟩

/-! ## zip iterator: lock-step, stops at the shorter one -/

/-- `cc_deque_zip_iter_next` at a position both deques still have: yields the pair and advances;
otherwise reports the end and changes nothing -/
theorem zip_lockstep (it : Iter) (d1 d2 : Deque) (m : Mem) (h1 : d1.Inv) (h2 : d2.Inv) :
    (it.index < d1.size ∧ it.index < d2.size →
      (zipNext it d1 d2 m).1 = .ok ∧ (zipNext it d1 d2 m).2.1 = (d1.abs.zip d2.abs)[it.index]? ∧
      (zipNext it d1 d2 m).2.2.1 = { index := it.index + 1, lastRemoved := false } ∧
      (zipNext it d1 d2 m).2.2.2 = m) ∧
    (¬ (it.index < d1.size ∧ it.index < d2.size) → zipNext it d1 d2 m = (.iterEnd, none, it, m)) := by
  obtain ⟨z1, z2, z3, z4⟩ := zipNext_spec it d1 d2 m h1 h2
  unfold DequeSpec.zipNext Iter.cur at z1 z2 z3
  simp only at z1 z2 z3
  refine ⟨fun ⟨ha, hb⟩ => ?_, fun hn => ?_⟩
  · have hl1 : it.index < d1.abs.length := by simpa using ha
    have hl2 : it.index < d2.abs.length := by simpa using hb
    rw [List.getElem?_eq_getElem hl1, List.getElem?_eq_getElem hl2] at z1 z2 z3
    simp only at z1 z2 z3
    refine ⟨z1, ?_, ?_, z4⟩
    · rw [z2, List.getElem?_eq_getElem (by simp; omega), List.getElem_zip]
    · have : (zipNext it d1 d2 m).2.2.1.cur = ({ index := it.index + 1, lastRemoved := false } : Iter).cur := z3
      cases hz : (zipNext it d1 d2 m).2.2.1
      rw [hz] at this
      simp only [Iter.cur, DequeSpec.Cur.mk.injEq] at this
      obtain ⟨e1, e2⟩ := this
      subst e1 e2; rfl
  · unfold zipNext
    by_cases ha : it.index ≥ d1.size
    · rw [if_pos ha]
    · rw [if_neg ha, if_pos (by omega)]

/-- zip mutators refine the ideal pair cursor, keep both invariants and the ledger (`zip_iter_add` partial
on D3: the cursor position must be outside `add_at`'s front-half range for both sizes; each deque grows on
its own triple) -/
theorem zip_mutators_refine_partial (it : Iter) (d1 d2 : Deque) (x y : Nat) (m : Mem) (h1 : d1.Inv) (h2 : d2.Inv) :
    ((zipRemove it d1 d2 m).1 = (DequeSpec.zipRemove d1.abs d2.abs it.cur).1 ∧
      (zipRemove it d1 d2 m).2.1 = (DequeSpec.zipRemove d1.abs d2.abs it.cur).2.1 ∧
      (zipRemove it d1 d2 m).2.2.2.1.abs = (DequeSpec.zipRemove d1.abs d2.abs it.cur).2.2.1 ∧
      (zipRemove it d1 d2 m).2.2.2.2.1.abs = (DequeSpec.zipRemove d1.abs d2.abs it.cur).2.2.2.1 ∧
      (zipRemove it d1 d2 m).2.2.1.cur = (DequeSpec.zipRemove d1.abs d2.abs it.cur).2.2.2.2 ∧
      (zipRemove it d1 d2 m).2.2.2.1.Inv ∧ (zipRemove it d1 d2 m).2.2.2.2.1.Inv ∧
      (zipRemove it d1 d2 m).2.2.2.2.2 = m) ∧
    ((zipReplace it d1 d2 x y m).1 = (DequeSpec.zipReplace d1.abs d2.abs it.cur x y).1 ∧
      (zipReplace it d1 d2 x y m).2.1 = (DequeSpec.zipReplace d1.abs d2.abs it.cur x y).2.1 ∧
      (zipReplace it d1 d2 x y m).2.2.1.abs = (DequeSpec.zipReplace d1.abs d2.abs it.cur x y).2.2.1 ∧
      (zipReplace it d1 d2 x y m).2.2.2.1.abs = (DequeSpec.zipReplace d1.abs d2.abs it.cur x y).2.2.2 ∧
      (zipReplace it d1 d2 x y m).2.2.1.Inv ∧ (zipReplace it d1 d2 x y m).2.2.2.1.Inv ∧
      (zipReplace it d1 d2 x y m).2.2.2.2 = m) ∧
    (¬ (1 ≤ it.index ∧ it.index + 1 ≤ d1.size / 2) → ¬ (1 ≤ it.index ∧ it.index + 1 ≤ d2.size / 2) →
      ((zipAdd it d1 d2 x y m).1 = (DequeSpec.zipAdd d1.abs d2.abs it.cur x y).1 ∧
        (zipAdd it d1 d2 x y m).2.2.1.abs = (DequeSpec.zipAdd d1.abs d2.abs it.cur x y).2.1 ∧
        (zipAdd it d1 d2 x y m).2.2.2.1.abs = (DequeSpec.zipAdd d1.abs d2.abs it.cur x y).2.2.1 ∧
        (zipAdd it d1 d2 x y m).2.1.cur = (DequeSpec.zipAdd d1.abs d2.abs it.cur x y).2.2.2 ∨
       (zipAdd it d1 d2 x y m).1 = .errAlloc ∧ (zipAdd it d1 d2 x y m).2.2.1.abs = d1.abs ∧
        (zipAdd it d1 d2 x y m).2.2.2.1.abs = d2.abs ∧ (zipAdd it d1 d2 x y m).2.1 = it) ∧
      (zipAdd it d1 d2 x y m).2.2.1.Inv ∧ (zipAdd it d1 d2 x y m).2.2.2.1.Inv ∧
      memSame2 d1.triple d2.triple (zipAdd it d1 d2 x y m).2.2.2.2 m) := by
  refine ⟨zipRemove_spec it d1 d2 m h1 h2, zipReplace_spec it d1 d2 x y m h1 h2, fun hd1 hd2 => ?_⟩
  rcases zipAdd_refines_partial it d1 d2 x y m h1 h2 hd1 hd2 with ⟨a1, a2, a3, a4, a5, a6, a7⟩ |
    ⟨a1, a2, a3, a4, a5, a6, a7, _⟩
  · exact ⟨Or.inl ⟨a1, a2, a3, a4⟩, a5, a6, a7⟩
  · exact ⟨Or.inr ⟨a1, a2, a3, a4⟩, a5, a6, a7⟩

/-- **zip rejections**: inserting at a position one of the deques no longer has (behind the end of the
shorter one) is rejected; so is a second removal of the same pair and any removal / replacement before the
first `next`.  A rejected zip call changes neither deque, nor the cursor, nor the ledger. -/
theorem zip_rejections (it : Iter) (d1 d2 : Deque) (x y : Nat) (m : Mem) (h1 : d1.Inv) (h2 : d2.Inv) :
    (¬ (it.index < d1.size ∧ it.index < d2.size) →
      zipAdd it d1 d2 x y m = (.errOutOfRange, it, d1, d2, m)) ∧
    (it.lastRemoved = true → zipRemove it d1 d2 m = (.errValueNotFound, none, it, d1, d2, m)) ∧
    (it.lastRemoved = false → it.index = 0 → zipRemove it d1 d2 m = (.errOutOfRange, none, it, d1, d2, m)) ∧
    (it.index = 0 → zipReplace it d1 d2 x y m = (.errOutOfRange, none, d1, d2, m)) := by
  have hb1 := size_lt_two_pow_64 d1 h1
  refine ⟨fun h => ?_, fun h => ?_, fun h h0 => ?_, fun h0 => ?_⟩
  · unfold zipAdd; rw [if_pos (by omega)]
  · unfold zipRemove; simp [h]
  · have hoor : decIdx it.index ≥ d1.size := by unfold decIdx; rw [if_pos h0]; omega
    unfold zipRemove; simp only [h, Bool.false_eq_true, if_false]; rw [if_pos (Or.inl hoor)]
  · have hoor : decIdx it.index ≥ d1.size := by unfold decIdx; rw [if_pos h0]; omega
    unfold zipReplace; rw [if_pos (Or.inl hoor)]

/-! ## zip iterator programs -/

inductive ZOp where
  | next | remove | add (x y : Nat) | replace (x y : Nat) | index

structure ZOut where
  st   : Option Stat
  pair : Option (Nat × Nat)
  idx  : Option Nat
  deriving DecidableEq, Repr

/-- one zip-iterator call on the model -/
def stepZ (it : Iter) (d1 d2 : Deque) (m : Mem) : ZOp → ZOut × Iter × Deque × Deque × Mem
  | .next => let r := zipNext it d1 d2 m; (⟨some r.1, r.2.1, none⟩, r.2.2.1, d1, d2, r.2.2.2)
  | .remove => let r := zipRemove it d1 d2 m; (⟨some r.1, r.2.1, none⟩, r.2.2.1, r.2.2.2.1, r.2.2.2.2.1, r.2.2.2.2.2)
  | .add x y => let r := zipAdd it d1 d2 x y m; (⟨some r.1, none, none⟩, r.2.1, r.2.2.1, r.2.2.2.1, r.2.2.2.2)
  | .replace x y => let r := zipReplace it d1 d2 x y m; (⟨some r.1, r.2.1, none⟩, it, r.2.2.1, r.2.2.2.1, r.2.2.2.2)
  | .index => (⟨none, none, some (iterIndex it)⟩, it, d1, d2, m)

/-- the same call on the ideal pair cursor -/
def stepZC (c : DequeSpec.Cur) (l1 l2 : List Nat) : ZOp → ZOut × DequeSpec.Cur × List Nat × List Nat
  | .next => let r := DequeSpec.zipNext l1 l2 c; (⟨some r.1, r.2.1, none⟩, r.2.2, l1, l2)
  | .remove => let r := DequeSpec.zipRemove l1 l2 c; (⟨some r.1, r.2.1, none⟩, r.2.2.2.2, r.2.2.1, r.2.2.2.1)
  | .add x y => let r := DequeSpec.zipAdd l1 l2 c x y; (⟨some r.1, none, none⟩, r.2.2.2, r.2.1, r.2.2.1)
  | .replace x y => let r := DequeSpec.zipReplace l1 l2 c x y; (⟨some r.1, r.2.1, none⟩, c, r.2.2.1, r.2.2.2)
  | .index => (⟨none, none, some (decIdx c.pos)⟩, c, l1, l2)

def blockedZ (it : Iter) (d1 d2 : Deque) (m : Mem) (op : ZOp) : Bool := (stepZ it d1 d2 m op).1.st == some .errAlloc

def stepZCB (c : DequeSpec.Cur) (l1 l2 : List Nat) (ob : ZOp × Bool) : ZOut × DequeSpec.Cur × List Nat × List Nat :=
  if ob.2 then (⟨some .errAlloc, none, none⟩, c, l1, l2) else stepZC c l1 l2 ob.1

def runZ (it : Iter) (d1 d2 : Deque) (m : Mem) : List ZOp → List ZOut × Iter × Deque × Deque × Mem
  | [] => ([], it, d1, d2, m)
  | op :: ops =>
    let r := stepZ it d1 d2 m op
    let rs := runZ r.2.1 r.2.2.1 r.2.2.2.1 r.2.2.2.2 ops
    (r.1 :: rs.1, rs.2.1, rs.2.2.1, rs.2.2.2.1, rs.2.2.2.2)

def runZCB (c : DequeSpec.Cur) (l1 l2 : List Nat) : List (ZOp × Bool) → List ZOut × DequeSpec.Cur × List Nat × List Nat
  | [] => ([], c, l1, l2)
  | ob :: obs =>
    let r := stepZCB c l1 l2 ob
    let rs := runZCB r.2.1 r.2.2.1 r.2.2.2 obs
    (r.1 :: rs.1, rs.2.1, rs.2.2.1, rs.2.2.2)

def flagsZ (it : Iter) (d1 d2 : Deque) (m : Mem) : List ZOp → List Bool
  | [] => []
  | op :: ops => blockedZ it d1 d2 m op ::
      flagsZ (stepZ it d1 d2 m op).2.1 (stepZ it d1 d2 m op).2.2.1 (stepZ it d1 d2 m op).2.2.2.1 (stepZ it d1 d2 m op).2.2.2.2 ops

def inD3Z (pos n1 n2 : Nat) : ZOp → Prop
  | .add _ _ => (1 ≤ pos ∧ pos + 1 ≤ n1 / 2) ∨ (1 ≤ pos ∧ pos + 1 ≤ n2 / 2)
  | _ => False

def d3FreeZ (c : DequeSpec.Cur) (l1 l2 : List Nat) : List (ZOp × Bool) → Prop
  | [] => True
  | ob :: obs => (ob.2 = false → ¬ inD3Z c.pos l1.length l2.length ob.1) ∧
      d3FreeZ (stepZCB c l1 l2 ob).2.1 (stepZCB c l1 l2 ob).2.2.1 (stepZCB c l1 l2 ob).2.2.2 obs

theorem stepZC_never_errAlloc (c : DequeSpec.Cur) (l1 l2 : List Nat) (op : ZOp) : (stepZC c l1 l2 op).1.st ≠ some .errAlloc := by
  cases op with
  | next => simp only [stepZC, DequeSpec.zipNext]; cases l1[c.pos]? <;> cases l2[c.pos]? <;> simp
  | remove =>
    simp only [stepZC, DequeSpec.zipRemove]
    split
    · simp
    split
    · simp
    cases l1[c.pos - 1]? <;> cases l2[c.pos - 1]? <;> simp
  | add x y => simp only [stepZC, DequeSpec.zipAdd]; split <;> simp
  | replace x y =>
    simp only [stepZC, DequeSpec.zipReplace]
    split
    · simp
    cases l1[c.pos - 1]? <;> cases l2[c.pos - 1]? <;> simp
  | index => simp [stepZC]

/-- one zip call: refines the ideal pair cursor when executed (partial on D3 for `add`), is the identity on
both contents and the cursor when blocked; invariants and ledger intact either way -/
theorem zip_step_refines_partial (it : Iter) (d1 d2 : Deque) (m : Mem) (op : ZOp) (h1 : d1.Inv) (h2 : d2.Inv)
    (hD3 : blockedZ it d1 d2 m op = false → ¬ inD3Z it.index d1.size d2.size op) :
    (stepZ it d1 d2 m op).1 = (stepZCB it.cur d1.abs d2.abs (op, blockedZ it d1 d2 m op)).1 ∧
    (stepZ it d1 d2 m op).2.1.cur = (stepZCB it.cur d1.abs d2.abs (op, blockedZ it d1 d2 m op)).2.1 ∧
    (stepZ it d1 d2 m op).2.2.1.abs = (stepZCB it.cur d1.abs d2.abs (op, blockedZ it d1 d2 m op)).2.2.1 ∧
    (stepZ it d1 d2 m op).2.2.2.1.abs = (stepZCB it.cur d1.abs d2.abs (op, blockedZ it d1 d2 m op)).2.2.2 ∧
    (stepZ it d1 d2 m op).2.2.1.Inv ∧ (stepZ it d1 d2 m op).2.2.2.1.Inv ∧
    memSame2 d1.triple d2.triple (stepZ it d1 d2 m op).2.2.2.2 m := by
  -- an operation other than `add` is never blocked: its status is the ideal cursor's
  have hnb : ∀ op', (stepZ it d1 d2 m op').1.st = (stepZC it.cur d1.abs d2.abs op').1.st → blockedZ it d1 d2 m op' = false := by
    intro op' h
    unfold blockedZ
    rw [h]
    cases hb : ((stepZC it.cur d1.abs d2.abs op').1.st == some Stat.errAlloc)
    · rfl
    · exact absurd (by simpa using hb) (stepZC_never_errAlloc it.cur d1.abs d2.abs op')
  cases op with
  | next =>
    obtain ⟨a1, a2, a3, a4⟩ := zipNext_spec it d1 d2 m h1 h2
    have hb := hnb .next (by simp only [stepZ, stepZC, a1])
    rw [hb]
    simp only [stepZ, stepZCB, stepZC, Bool.false_eq_true, if_false, a1, a2]
    exact ⟨trivial, a3, trivial, trivial, h1, h2, by rw [a4]; exact memSame2_refl _ _ m⟩
  | remove =>
    obtain ⟨a1, a2, a3, a4, a5, a6, a7, a8⟩ := zipRemove_spec it d1 d2 m h1 h2
    have hb := hnb .remove (by simp only [stepZ, stepZC, a1])
    rw [hb]
    simp only [stepZ, stepZCB, stepZC, Bool.false_eq_true, if_false, a1, a2]
    exact ⟨trivial, a5, a3, a4, a6, a7, by rw [a8]; exact memSame2_refl _ _ m⟩
  | replace x y =>
    obtain ⟨a1, a2, a3, a4, a5, a6, a7⟩ := zipReplace_spec it d1 d2 x y m h1 h2
    have hb := hnb (.replace x y) (by simp only [stepZ, stepZC, a1])
    rw [hb]
    simp only [stepZ, stepZCB, stepZC, Bool.false_eq_true, if_false, a1, a2]
    exact ⟨trivial, trivial, a3, a4, a5, a6, by rw [a7]; exact memSame2_refl _ _ m⟩
  | index =>
    have hb : blockedZ it d1 d2 m .index = false := by simp [blockedZ, stepZ]
    rw [hb]
    exact ⟨rfl, rfl, rfl, rfl, h1, h2, memSame2_refl _ _ m⟩
  | add x y =>
    obtain ⟨z1, z2, z3, z4, _⟩ := zipAdd_safe it d1 d2 x y m h1 h2
    cases hb : blockedZ it d1 d2 m (.add x y)
    · have hd := hD3 hb
      simp only [inD3Z, not_or] at hd
      rcases zipAdd_refines_partial it d1 d2 x y m h1 h2 hd.1 hd.2 with ⟨a1, a2, a3, a4, _⟩ | ⟨a1, _⟩
      · simp only [stepZ, stepZCB, stepZC, Bool.false_eq_true, if_false, a1]
        exact ⟨trivial, a4, a2, a3, z1, z2, z3⟩
      · exfalso
        unfold blockedZ at hb
        simp only [stepZ, a1] at hb
        simp at hb
    · have hst : (zipAdd it d1 d2 x y m).1 = .errAlloc := by
        unfold blockedZ at hb; simpa [stepZ] using hb
      obtain ⟨b1, b2, b3⟩ := z4 (by rw [hst]; decide)
      simp only [stepZ, stepZCB, if_true, hst]
      exact ⟨trivial, by rw [b3], b1, b2, z1, z2, z3⟩

/-- **zip program_refines, every refusal schedule (partial on D3)**: any program of zip-iterator calls over
two deques in any layouts (each on its own allocator triple) returns what the ideal pair cursor returns when
told which `add`s were blocked; lock-step traversal stops at the shorter deque, mutators act on the pair
yielded last, contents of both deques are the ideal ones, both invariants and the ledger are intact -/
theorem zip_program_refines_sched_partial (ops : List ZOp) (it : Iter) (d1 d2 : Deque) (m : Mem)
    (h1 : d1.Inv) (h2 : d2.Inv)
    (hfree : d3FreeZ it.cur d1.abs d2.abs (ops.zip (flagsZ it d1 d2 m ops))) :
    (runZ it d1 d2 m ops).1 = (runZCB it.cur d1.abs d2.abs (ops.zip (flagsZ it d1 d2 m ops))).1 ∧
    (runZ it d1 d2 m ops).2.1.cur = (runZCB it.cur d1.abs d2.abs (ops.zip (flagsZ it d1 d2 m ops))).2.1 ∧
    (runZ it d1 d2 m ops).2.2.1.abs = (runZCB it.cur d1.abs d2.abs (ops.zip (flagsZ it d1 d2 m ops))).2.2.1 ∧
    (runZ it d1 d2 m ops).2.2.2.1.abs = (runZCB it.cur d1.abs d2.abs (ops.zip (flagsZ it d1 d2 m ops))).2.2.2 ∧
    (runZ it d1 d2 m ops).2.2.1.Inv ∧ (runZ it d1 d2 m ops).2.2.2.1.Inv ∧
    memSame2 d1.triple d2.triple (runZ it d1 d2 m ops).2.2.2.2 m := by
  induction ops generalizing it d1 d2 m with
  | nil => exact ⟨rfl, rfl, rfl, rfl, h1, h2, memSame2_refl _ _ m⟩
  | cons op ops ih =>
    simp only [flagsZ, List.zip_cons_cons, d3FreeZ] at hfree
    obtain ⟨hf1, hf2⟩ := hfree
    rw [abs_length, abs_length] at hf1
    obtain ⟨s1, s2, s3, s4, s5, s6, s7⟩ := zip_step_refines_partial it d1 d2 m op h1 h2 hf1
    have htr : (stepZ it d1 d2 m op).2.2.1.triple = d1.triple ∧ (stepZ it d1 d2 m op).2.2.2.1.triple = d2.triple := by
      cases op with
      | next => exact ⟨rfl, rfl⟩
      | remove => exact zipRemove_triple it d1 d2 m
      | add x y => exact zipAdd_triple it d1 d2 x y m
      | replace x y => exact zipReplace_triple it d1 d2 x y m
      | index => exact ⟨rfl, rfl⟩
    rw [← s2, ← s3, ← s4] at hf2
    obtain ⟨r1, r2, r3, r4, r5, r6, r7⟩ := ih (stepZ it d1 d2 m op).2.1 (stepZ it d1 d2 m op).2.2.1
      (stepZ it d1 d2 m op).2.2.2.1 (stepZ it d1 d2 m op).2.2.2.2 s5 s6 hf2
    simp only [runZ, flagsZ, List.zip_cons_cons, runZCB]
    rw [s2, s3, s4] at r1 r2 r3 r4
    rw [htr.1, htr.2] at r7
    exact ⟨by rw [s1, r1], r2, r3, r4, r5, r6, memSame2_trans r7 s7⟩

/-! ## the same deque on both sides of the zip iterator -/

/-- **zip over one and the same deque** (`d1 == d2`): `next` yields each element paired with itself; `replace`
and `remove` refine the self-zip cursor (one sequence threaded through both halves: the second value stays /
the yielded element and its successor go, and on the last element the second out-value is not written);
`add` keeps invariant and ledger at every cursor position; that it is all-or-nothing on the content (repair
D13) is `C08Deque.zip_alias_add_all_or_nothing`. -/
theorem zip_same_deque (it : Iter) (d : Deque) (x y : Nat) (m : Mem) (hi : d.Inv) :
    (it.index < d.size → (zipNext it d d m).2.1 = (d.abs[it.index]?).map fun v => (v, v)) ∧
    ((zipReplaceSelf it d x y m).1 = (DequeSpec.zipReplaceSelf d.abs it.cur x y).1 ∧
      (zipReplaceSelf it d x y m).2.2.2.1.abs = (DequeSpec.zipReplaceSelf d.abs it.cur x y).2.2.2 ∧
      (zipReplaceSelf it d x y m).2.2.2.1.Inv ∧ (zipReplaceSelf it d x y m).2.2.2.2 = m) ∧
    ((zipRemoveSelf it d m).1 = (DequeSpec.zipRemoveSelf d.abs it.cur).1 ∧
      (zipRemoveSelf it d m).2.1 = (DequeSpec.zipRemoveSelf d.abs it.cur).2.1 ∧
      (zipRemoveSelf it d m).2.2.1 = (DequeSpec.zipRemoveSelf d.abs it.cur).2.2.1 ∧
      (zipRemoveSelf it d m).2.2.2.2.1.abs = (DequeSpec.zipRemoveSelf d.abs it.cur).2.2.2.1 ∧
      (zipRemoveSelf it d m).2.2.2.1.cur = (DequeSpec.zipRemoveSelf d.abs it.cur).2.2.2.2 ∧
      (zipRemoveSelf it d m).2.2.2.2.1.Inv ∧ (zipRemoveSelf it d m).2.2.2.2.2 = m) ∧
    ((zipAddSelf it d x y m).2.2.1.Inv ∧ memSame d.triple (zipAddSelf it d x y m).2.2.2 m) := by
  obtain ⟨r1, _, _, r4, r5, r6⟩ := zipReplaceSelf_spec it d x y m hi
  obtain ⟨a1, a2, _⟩ := zipAddSelf_safe it d x y m hi
  refine ⟨fun h => ?_, ⟨r1, r4, r5, r6⟩, zipRemoveSelf_spec it d m hi, ⟨a1, a2⟩⟩
  have hl : it.index < d.abs.length := by simpa using h
  rw [((zip_lockstep it d d m hi hi).1 ⟨h, h⟩).2.1, List.getElem?_eq_getElem (by simp; omega),
    List.getElem?_eq_getElem hl]
  simp

/-- **the D3 hypothesis of the `iter_add` statements cannot be dropped** (negation witness, finding D3):
four elements, the cursor directly behind the *first* yielded element (`index = 1`, so `1 ≤ index` and
`index + 1 ≤ size / 2`) — the commonest call: the model (= the C code) returns `CC_OK` but the content is not
the ideal cursor's insertion -/
theorem iter_add_front_half_wrong :
    Deque.d3Wrapped.Inv ∧ inD3 1 Deque.d3Wrapped.size (.add 9) ∧
    (stepI { index := 1 } Deque.d3Wrapped {} (.add 9)).1.st = some .ok ∧
    (stepI { index := 1 } Deque.d3Wrapped {} (.add 9)).2.2.1.abs = [1, 2, 9, 3, 4] ∧
    (stepC { pos := 1 } Deque.d3Wrapped.abs (.add 9)).2.2 = [1, 9, 2, 3, 4] :=
  ⟨by decide, ⟨by decide, by decide⟩, by decide, by decide, by decide⟩

/-- non-vacuity: a wrapped, exactly full ring is traversed completely -/
example : (drain (Deque.mk 4 4 3 3 [12, 13, 14, 11] .conf) 4 {} {}).1 = [11, 12, 13, 14] := by decide

end CC.Properties.C07Deque
