import CollectionsC.Properties.C09Stack
/-! # C15 (stack part) — `cc_stack_filter` yields an exact, independent, usable stack

Statements only.  The result holds exactly the live elements satisfying the predicate, bottom to top;
it satisfies the invariant, is allocated through the source's allocators (every allocation of the
model goes through the same `Mem`) and carries the *default* capacity and expansion factor (what
`cc_stack_filter` configures — the allocators are inherited, the growth settings are the library
defaults), so it is a fully usable stack that can grow.  The source is not changed: the function
returns only the new stack.  The two are separate values afterwards (aliasing at the C level is
answered by the correspondence runs, which observe both stacks after every operation on either). -/
namespace CC.Properties.C15Stack
open CC

/-- exact content, same order; predicate called once per element; no object on any failure -/
theorem filter_exact (p : Nat → Bool) (s : Stack) (dgrow : Nat → Nat) (dexGe : Nat → Bool) (m : Mem) (hinv : s.Inv) :
    ((s.filter p dgrow dexGe m).1 = .errOutOfRange ∧ s.abs = [] ∧ (s.filter p dgrow dexGe m).2.1 = none ∧
      (s.filter p dgrow dexGe m).2.2.2 = m) ∨
    (((s.filter p dgrow dexGe m).1 = .errAlloc ∨ (s.filter p dgrow dexGe m).1 = .errMaxCapacity ∨
        (s.filter p dgrow dexGe m).1 = .errInvalidCapacity) ∧ s.abs ≠ [] ∧
      (s.filter p dgrow dexGe m).2.1 = none ∧
      (s.filter p dgrow dexGe m).2.2.2.live = m.live ∧ (s.filter p dgrow dexGe m).2.2.2.fault = m.fault) ∨
    ((s.filter p dgrow dexGe m).1 = .ok ∧ s.abs ≠ [] ∧
      ∃ r, (s.filter p dgrow dexGe m).2.1 = some r ∧ r.abs = s.abs.filter p ∧ r.Inv ∧ r.v.grow = dgrow ∧
        (s.filter p dgrow dexGe m).2.2.1 = s.abs ∧
        (s.filter p dgrow dexGe m).2.2.2.live = m.live + 3 ∧ (s.filter p dgrow dexGe m).2.2.2.fault = m.fault) :=
  Stack.filter_spec p s dgrow dexGe m hinv

/-- **the result can grow**: a push on the filtered stack succeeds whenever the allocator does not
refuse and puts the element on top of the filtered content -/
theorem derived_can_grow (p : Nat → Bool) (s : Stack) (dgrow : Nat → Nat) (dexGe : Nat → Bool) (m m' : Mem)
    (hinv : s.Inv) (r : Stack) (hr : (s.filter p dgrow dexGe m).2.1 = some r) (x : Nat) (hlive : 0 < m'.live)
    (halloc : m'.alloc.1 = true) (hlim : ¬ r.v.AtLimit) :
    (r.push x m').1 = .ok ∧ (r.push x m').2.1.abs = s.abs.filter p ++ [x] := by
  rcases Stack.filter_spec p s dgrow dexGe m hinv with ⟨_, _, hn, _⟩ | ⟨_, _, hn, _⟩ | ⟨_, _, r', h1, h2, h3, _⟩
  · rw [hn] at hr; simp at hr
  · rw [hn] at hr; simp at hr
  · rw [h1] at hr
    simp only [Option.some.injEq] at hr
    subst hr
    obtain ⟨ok, habs⟩ := C09Stack.push_succeeds r' x m' h3 (fun _ => halloc) hlim
    exact ⟨ok, by rw [habs, h2]⟩

/-- every interleaving on the result is LIFO from the filtered content -/
theorem derived_history (r : Stack) (ops : List Spec.Seq.SOp) (m : Mem) (hinv : r.Inv) :
    (r.run ops m).1 = (Spec.Seq.srun r.abs ops ((r.run ops m).1.map Spec.Seq.Out.blocked)).1 ∧
    (r.run ops m).2.1.abs = (Spec.Seq.srun r.abs ops ((r.run ops m).1.map Spec.Seq.Out.blocked)).2 :=
  ⟨(C09Stack.history_refines ops r m hinv).1, (C09Stack.history_refines ops r m hinv).2.1⟩

/-- **independence**: in the model source and result are separate values, so a history run on one
component of the pair (source, result) returns the other component as it was — whatever the history,
including destroying the first one.  (That the C objects share no memory is what the harness checks:
both are observed after every operation on either, under ASan.) -/
theorem independent (s r : Stack) (ops : List Spec.Seq.SOp) (m : Mem) :
    (fun (pr : Stack × Stack) => ((pr.1.run ops m).2.1, pr.2)) (s, r) = ((s.run ops m).2.1, r) ∧
    (fun (pr : Stack × Stack) => (pr.1, (pr.2.run ops m).2.1)) (s, r) = (s, (r.run ops m).2.1) :=
  ⟨rfl, rfl⟩

end CC.Properties.C15Stack
