import CollectionsC.Properties.C09Stack
import CollectionsC.Proofs.StackFilter
/-! # C15 (stack part) — `cc_stack_filter` yields an exact, independent, usable stack

Statements only.  The result holds exactly the live elements satisfying the predicate, bottom to top;
it satisfies the invariant and is a fully usable stack that can grow.  **What is inherited** (checked
against `cc_stack.c`: `cc_stack_conf_init(&conf); conf.mem_alloc = stack->mem_alloc; …`): the allocator
triple — header, inner array and every growth step of the result go through the source's allocators
(`filter_inherits_allocators`).  **What is not**: capacity and expansion factor are the library
defaults (`DEFAULT_CAPACITY` 8, factor 2), not the source's — the sentence "inherits the source's
configuration" of C15 holds for the stack only as far as the allocators go; this deviation from the
property text is recorded here (the function's own documentation promises neither).  The source is not changed: the function
returns only the new stack.  The two are separate values afterwards (aliasing at the C level is
answered by the correspondence runs, which observe both stacks after every operation on either). -/
namespace CC.Properties.C15Stack
open CC

/-- exact content, same order; predicate called once per element; no object on any failure -/
theorem filter_exact (p : Nat → Bool) (s : Stack) (dgrow : Nat → Nat) (dexGe : Nat → Bool) (m : Mem) (hinv : s.Inv) :
    ((s.filter p dgrow dexGe m).1 = .errOutOfRange ∧ s.abs = [] ∧ (s.filter p dgrow dexGe m).2.1 = none ∧
      (s.filter p dgrow dexGe m).2.2.2 = m) ∨
    (((s.filter p dgrow dexGe m).1 = .errAlloc ∨ (s.filter p dgrow dexGe m).1 = .errMaxCapacity ∨
        (s.filter p dgrow dexGe m).1 = .errInvalidCapacity) ∧ s.abs ≠ [] ∧
      (s.filter p dgrow dexGe m).2.1 = none ∧
      Arr.own s.triple (s.filter p dgrow dexGe m).2.2.2 = Arr.own s.triple m ∧ (s.filter p dgrow dexGe m).2.2.2.fault = m.fault) ∨
    ((s.filter p dgrow dexGe m).1 = .ok ∧ s.abs ≠ [] ∧
      ∃ r, (s.filter p dgrow dexGe m).2.1 = some r ∧ r.abs = s.abs.filter p ∧ r.Inv ∧ r.v.grow = dgrow ∧
        (s.filter p dgrow dexGe m).2.2.1 = s.abs ∧
        Arr.own s.triple (s.filter p dgrow dexGe m).2.2.2 = Arr.own s.triple m + 3 ∧ (s.filter p dgrow dexGe m).2.2.2.fault = m.fault) :=
  Stack.filter_spec p s dgrow dexGe m hinv

/-- **the failure branch of `filter_exact` pinned down** — when each error status can occur:
* `CC_ERR_ALLOC` exactly when a refusal fired during the call (the refusal counter went up by one);
  never on a stack built by `cc_stack_new` (C library triple);
* `CC_ERR_INVALID_CAPACITY` only through the constructor's factor test on the *default* configuration
  (`dexGe`; false for the shipped default factor 2, so unreachable in the library as configured);
* `CC_ERR_MAX_CAPACITY` only if the default growth function overshoots the byte-size limit at a capacity
  below the source's size. -/
theorem filter_failure_pinned (p : Nat → Bool) (s : Stack) (dgrow : Nat → Nat) (dexGe : Nat → Bool) (m : Mem)
    (hinv : s.Inv) :
    ((s.filter p dgrow dexGe m).1 = .errAlloc ↔ (s.filter p dgrow dexGe m).2.2.2.nrefused = m.nrefused + 1) ∧
    ((s.filter p dgrow dexGe m).1 ≠ .errAlloc → (s.filter p dgrow dexGe m).2.2.2.nrefused = m.nrefused) ∧
    (s.triple = .libc → (s.filter p dgrow dexGe m).1 ≠ .errAlloc) ∧
    ((s.filter p dgrow dexGe m).1 = .errInvalidCapacity →
      dexGe (Gen.CC_MAX_ELEMENTS / Gen.ARRAY_DEFAULT_CAPACITY) = true) ∧
    ((∀ c, c < s.size → dgrow c ≤ Gen.CC_MAX_ELEMENTS / 8) → (s.filter p dgrow dexGe m).1 ≠ .errMaxCapacity) := by
  have l := Stack.filter_led p s dgrow dexGe m
  refine ⟨l.nrefused_iff.1, l.nrefused_iff.2, fun ht h => ?_, Stack.filter_invalid_only_if p s dgrow dexGe m hinv,
    Stack.filter_max_only_if p s dgrow dexGe m hinv⟩
  have := l.2.2.2 ht
  simp [h] at this

/-- **the filter succeeds whenever its allocator grants**: non-empty source, the source's triple never
refusing (C library triple, or configured allocators with an empty refusal schedule), the default
configuration valid and the default growth function within the byte-size limit below the source's size;
the result is then exact (`filter_exact`, third branch) -/
theorem filter_succeeds (p : Nat → Bool) (s : Stack) (dgrow : Nat → Nat) (dexGe : Nat → Bool) (m : Mem)
    (hinv : s.Inv) (hne : s.abs ≠ []) (hn : s.triple = .libc ∨ m.sched = [])
    (hex : dexGe (Gen.CC_MAX_ELEMENTS / Gen.ARRAY_DEFAULT_CAPACITY) = false)
    (hg : ∀ c, c < s.size → dgrow c ≤ Gen.CC_MAX_ELEMENTS / 8) :
    (s.filter p dgrow dexGe m).1 = .ok ∧
    ∃ r, (s.filter p dgrow dexGe m).2.1 = some r ∧ r.abs = s.abs.filter p ∧ r.Inv := by
  have h0 : s.size ≠ 0 := by
    intro h; apply hne
    have : s.abs.length = 0 := by simpa [Stack.size, Stack.abs] using h
    exact List.eq_nil_of_length_eq_zero this
  have ok := Stack.filter_ok p s dgrow dexGe m hinv h0 hn hex hg
  refine ⟨ok, ?_⟩
  rcases filter_exact p s dgrow dexGe m hinv with ⟨e, _⟩ | ⟨e, _⟩ | ⟨_, _, r, h1, h2, h3, _⟩
  · rw [ok] at e; simp at e
  · rw [ok] at e; simp at e
  · exact ⟨r, h1, h2, h3⟩

/-- the result carries the source's allocator triple (header and array), and the *default* growth
function — not the source's -/
theorem filter_inherits_allocators (p : Nat → Bool) (s : Stack) (dgrow : Nat → Nat) (dexGe : Nat → Bool) (m : Mem)
    (hinv : s.Inv) (r : Stack) (hr : (s.filter p dgrow dexGe m).2.1 = some r) :
    r.triple = s.triple ∧ r.v.triple = s.triple ∧ r.Coh ∧ r.v.grow = dgrow := by
  obtain ⟨t1, t2⟩ := Stack.filter_triple p s dgrow dexGe m r hr
  refine ⟨t1, t2, by unfold Stack.Coh; rw [t1, t2], ?_⟩
  rcases Stack.filter_spec p s dgrow dexGe m hinv with ⟨_, _, hn, _⟩ | ⟨_, _, hn, _⟩ | ⟨_, _, r', h1, _, _, h4, _⟩
  · rw [hn] at hr; simp at hr
  · rw [hn] at hr; simp at hr
  · rw [h1] at hr; simp only [Option.some.injEq] at hr; rw [← hr]; exact h4

/-- **destroying the filtered stack** releases exactly the three blocks the filter allocated, through the
source's triple (which the result inherits): afterwards that triple's live-block count is what it was
before the filter call, and nothing faulted -/
theorem derived_destroy (p : Nat → Bool) (s : Stack) (dgrow : Nat → Nat) (dexGe : Nat → Bool) (m : Mem)
    (hinv : s.Inv) (r : Stack) (hr : (s.filter p dgrow dexGe m).2.1 = some r) :
    r.triple = s.triple ∧
    Arr.own s.triple (r.destroy (s.filter p dgrow dexGe m).2.2.2) = Arr.own s.triple m ∧
    (r.destroy (s.filter p dgrow dexGe m).2.2.2).fault = m.fault := by
  obtain ⟨t1, _, hc, _⟩ := filter_inherits_allocators p s dgrow dexGe m hinv r hr
  rcases filter_exact p s dgrow dexGe m hinv with ⟨_, _, hn, _⟩ | ⟨_, _, hn, _⟩ | ⟨_, _, r', h1, _, _, _, _, h6, h7⟩
  · rw [hn] at hr; simp at hr
  · rw [hn] at hr; simp at hr
  · have hd := Stack.destroy_spec r (s.filter p dgrow dexGe m).2.2.2 hc (by rw [t1]; omega)
    rw [t1] at hd
    exact ⟨t1, by omega, by rw [hd.2, h7]⟩

/-- **the result can grow**: a push on the filtered stack succeeds whenever the allocator does not
refuse and puts the element on top of the filtered content -/
theorem derived_can_grow (p : Nat → Bool) (s : Stack) (dgrow : Nat → Nat) (dexGe : Nat → Bool) (m m' : Mem)
    (hinv : s.Inv) (r : Stack) (hr : (s.filter p dgrow dexGe m).2.1 = some r) (x : Nat)
    (halloc : (m'.allocT r.v.triple).1 = true) (hlim : ¬ r.v.AtLimit) :
    (r.push x m').1 = .ok ∧ (r.push x m').2.1.abs = s.abs.filter p ++ [x] := by
  rcases Stack.filter_spec p s dgrow dexGe m hinv with ⟨_, _, hn, _⟩ | ⟨_, _, hn, _⟩ | ⟨_, _, r', h1, h2, h3, _⟩
  · rw [hn] at hr; simp at hr
  · rw [hn] at hr; simp at hr
  · rw [h1] at hr
    simp only [Option.some.injEq] at hr
    subst hr
    obtain ⟨ok, habs⟩ := C09Stack.push_succeeds r' x m' h3 (fun _ => halloc) hlim
    exact ⟨ok, by rw [habs, h2]⟩

/-- every interleaving on the result is LIFO from the filtered content -/
theorem derived_history (r : Stack) (ops : List Spec.Seq.SOp) (m : Mem) (hinv : r.Inv) :
    (r.run ops m).1 = (Spec.Seq.srun r.abs ops ((r.run ops m).1.map Spec.Seq.Out.blocked)).1 ∧
    (r.run ops m).2.1.abs = (Spec.Seq.srun r.abs ops ((r.run ops m).1.map Spec.Seq.Out.blocked)).2 :=
  ⟨(C09Stack.history_refines ops r m hinv).1, (C09Stack.history_refines ops r m hinv).2.1⟩

/-- **independence** — true by the value semantics of the model (which cannot express shared memory;
the harness carries the C-level claim): in the model source and result are separate values, so a history run on one
component of the pair (source, result) returns the other component as it was — whatever the history,
including destroying the first one.  (That the C objects share no memory is what the harness checks:
both are observed after every operation on either, under ASan.) -/
theorem independent_model (s r : Stack) (ops : List Spec.Seq.SOp) (m : Mem) :
    (fun (pr : Stack × Stack) => ((pr.1.run ops m).2.1, pr.2)) (s, r) = ((s.run ops m).2.1, r) ∧
    (fun (pr : Stack × Stack) => (pr.1, (pr.2.run ops m).2.1)) (s, r) = (s, (r.run ops m).2.1) :=
  ⟨rfl, rfl⟩

/-! Non-vacuity: a source stack with factor 1.5 and capacity 4; the result has the default growth
function and can grow past its default capacity -/
example :
    let s : Stack := ⟨Arr.mk 3 4 [2, 3, 4, 0] (fun c => c * 3 / 2) .conf, .conf⟩
    let f := s.filter (fun v => v % 2 == 0) (fun c => 2 * c) (fun _ => false) { live := 3 }
    s.Inv ∧ f.1 = .ok ∧ (f.2.1.map (·.abs)) = some [2, 4] ∧ (f.2.1.map (·.v.capacity)) = some 8 ∧
    (f.2.1.map fun r => (r.run ((List.range 9).map fun i => Spec.Seq.SOp.push i) f.2.2.2).2.1.v.capacity) = some 16 := by
  decide

end CC.Properties.C15Stack
