import CollectionsC.Properties.C01
import CollectionsC.Properties.C14Array
/-! # C15 (array part) — derived arrays are exact, inherit the configuration, and can grow

Statements only.  `subarray`, `copy_shallow`, `copy_deep`, `filter` of `cc_array.c`: the result holds
exactly the selected elements in source order, satisfies the representation invariant **with the
source's growth function** (`exp_factor` inherited — A3) and the allocators of the source (every
allocation of the model goes through the same `Mem`), so an append to a full result succeeds whenever
the allocator does not refuse.  The builders are pure functions of the source state: the source is
not changed (it is not even returned), and source and result are separate values afterwards, so any
history on one leaves the other untouched (the aliasing question at the C level is answered by the
correspondence runs: both containers are observed after every operation on either). -/
namespace CC.Properties.C15Array
open CC

/-- `cc_array_subarray`, for every pair of indices in the whole domain -/
theorem subarray_exact (a : Arr) (b e : Nat) (m : Mem) (hinv : a.Inv) :
    ((a.subarray b e m).1 = .errInvalidRange ∧ ¬ (b ≤ e ∧ e < a.size) ∧ (a.subarray b e m).2.1 = none ∧
      (a.subarray b e m).2.2 = m) ∨
    ((a.subarray b e m).1 = .errAlloc ∧ (b ≤ e ∧ e < a.size) ∧ (Arr.alloc2 m a.triple).1 = false ∧ (a.subarray b e m).2.1 = none ∧
      Arr.own a.triple (a.subarray b e m).2.2 = Arr.own a.triple m ∧ (a.subarray b e m).2.2.fault = m.fault) ∨
    ((a.subarray b e m).1 = .ok ∧ (b ≤ e ∧ e < a.size) ∧ (Arr.alloc2 m a.triple).1 = true ∧
      ∃ r, (a.subarray b e m).2.1 = some r ∧ some r.abs = (Spec.Seq.subarray a.abs b e).2 ∧ r.Inv ∧
        r.grow = a.grow ∧ r.capacity = r.size ∧
        Arr.own a.triple (a.subarray b e m).2.2 = Arr.own a.triple m + 2 ∧ (a.subarray b e m).2.2.fault = m.fault) :=
  Arr.subarray_spec a b e m hinv

/-- the ideal sub-range is the inclusive slice -/
theorem spec_subarray (xs : List Nat) (b e : Nat) (h : b ≤ e ∧ e < xs.length) :
    Spec.Seq.subarray xs b e = (.ok, some ((xs.drop b).take (e - b + 1))) ∧
    ((xs.drop b).take (e - b + 1)).length = e - b + 1 := by
  unfold Spec.Seq.subarray
  simp only [h, and_self, if_true, true_and]
  simp; omega

theorem copy_shallow_exact (a : Arr) (m : Mem) (hinv : a.Inv) :
    ((a.copyShallow m).1 = .errAlloc ∧ (Arr.alloc2 m a.triple).1 = false ∧ (a.copyShallow m).2.1 = none ∧
      Arr.own a.triple (a.copyShallow m).2.2 = Arr.own a.triple m ∧ (a.copyShallow m).2.2.fault = m.fault) ∨
    ((a.copyShallow m).1 = .ok ∧ (Arr.alloc2 m a.triple).1 = true ∧
      ∃ r, (a.copyShallow m).2.1 = some r ∧ r.abs = a.abs ∧ r.Inv ∧ r.grow = a.grow ∧ r.capacity = a.capacity ∧
        Arr.own a.triple (a.copyShallow m).2.2 = Arr.own a.triple m + 2 ∧ (a.copyShallow m).2.2.fault = m.fault) :=
  Arr.copyShallow_spec a m hinv

theorem copy_deep_exact (cp : Nat → Nat) (a : Arr) (m : Mem) (hinv : a.Inv) :
    ((a.copyDeep cp m).1 = .errAlloc ∧ (Arr.alloc2 m a.triple).1 = false ∧ (a.copyDeep cp m).2.1 = none ∧
      Arr.own a.triple (a.copyDeep cp m).2.2.2 = Arr.own a.triple m ∧ (a.copyDeep cp m).2.2.2.fault = m.fault) ∨
    ((a.copyDeep cp m).1 = .ok ∧ (Arr.alloc2 m a.triple).1 = true ∧
      ∃ r, (a.copyDeep cp m).2.1 = some r ∧ r.abs = a.abs.map cp ∧ r.Inv ∧ r.grow = a.grow ∧
        r.capacity = a.capacity ∧ (a.copyDeep cp m).2.2.1 = a.abs ∧
        Arr.own a.triple (a.copyDeep cp m).2.2.2 = Arr.own a.triple m + 2 ∧ (a.copyDeep cp m).2.2.2.fault = m.fault) :=
  Arr.copyDeep_spec cp a m hinv

theorem filter_exact (p : Nat → Bool) (a : Arr) (m : Mem) (hinv : a.Inv) :
    ((a.filter p m).1 = .errOutOfRange ∧ a.size = 0 ∧ (a.filter p m).2.1 = none ∧ (a.filter p m).2.2.2 = m) ∨
    ((a.filter p m).1 = .errAlloc ∧ 0 < a.size ∧ (Arr.alloc2 m a.triple).1 = false ∧ (a.filter p m).2.1 = none ∧
      Arr.own a.triple (a.filter p m).2.2.2 = Arr.own a.triple m ∧ (a.filter p m).2.2.2.fault = m.fault) ∨
    ((a.filter p m).1 = .ok ∧ 0 < a.size ∧ (Arr.alloc2 m a.triple).1 = true ∧
      ∃ r, (a.filter p m).2.1 = some r ∧ r.abs = a.abs.filter p ∧ r.Inv ∧ r.grow = a.grow ∧
        r.capacity = a.capacity ∧ (a.filter p m).2.2.1 = a.abs ∧
        Arr.own a.triple (a.filter p m).2.2.2 = Arr.own a.triple m + 2 ∧ (a.filter p m).2.2.2.fault = m.fault) :=
  Arr.filter_spec p a m hinv

/-- **the result can grow** (A3): a sub-array is exactly full (`capacity = size`); appending to it
succeeds whenever the allocator does not refuse, and yields the slice followed by the new element -/
theorem subarray_can_grow (a : Arr) (b e x : Nat) (m m' : Mem) (hinv : a.Inv) (r : Arr)
    (hr : (a.subarray b e m).2.1 = some r) (halloc : (m'.allocT r.triple).1 = true)
    (hmax : ¬ r.AtLimit) :
    (r.add x m').1 = .ok ∧ (r.add x m').2.1.abs = (a.abs.drop b).take (e - b + 1) ++ [x] ∧
    r.capacity < (r.add x m').2.1.capacity := by
  rcases Arr.subarray_spec a b e m hinv with ⟨_, _, hn, _⟩ | ⟨_, _, _, hn, _⟩ | ⟨_, hrange, _, r', h1, h2, h3, h4, h5, _⟩
  · rw [hn] at hr; simp at hr
  · rw [hn] at hr; simp at hr
  · rw [h1] at hr
    simp only [Option.some.injEq] at hr
    subst hr
    have hrange' : b ≤ e ∧ e < a.abs.length := by simpa using hrange
    unfold Spec.Seq.subarray at h2
    simp only [hrange', and_self, if_true, Option.some.injEq] at h2
    obtain ⟨ok, habs⟩ := C01.add_succeeds r' x m' h3 (fun _ => halloc) hmax
    refine ⟨ok, by rw [habs, h2], ?_⟩
    rcases (Arr.add_spec r' x m' h3).1 with ⟨_, _, g⟩ | ⟨hb, _⟩
    · rcases g.2.2.2.1 with g4 | ⟨_, g4, g5, _⟩
      · have := g.1; have := g.2.1; omega
      · omega
    · rcases hb.1 with ⟨e1, _⟩ | ⟨e1, _⟩ <;> rw [e1] at ok <;> simp at ok

/-- every history on a derived array refines the ideal list started at the derived content — the
derived array is a fully usable container of its own -/
theorem derived_history (cfg : Spec.Seq.Cfg) (r : Arr) (ops : List Spec.Seq.Op) (m : Mem) (hinv : r.Inv)
   
    (hsort : ∀ xs, (cfg.sortFn xs).length = xs.length) :
    (r.run cfg ops m).1 = (Spec.Seq.run cfg r.abs ops ((r.run cfg ops m).1.map Spec.Seq.Out.blocked)).1 ∧
    (r.run cfg ops m).2.1.abs = (Spec.Seq.run cfg r.abs ops ((r.run cfg ops m).1.map Spec.Seq.Out.blocked)).2 := by
  have := C01.history_refines cfg ops r m hinv hsort
  exact ⟨this.1, this.2.1⟩

/-- the same for the copies and the filter result: they keep the source's capacity and growth
function, so an append succeeds whenever the allocator does not refuse -/
theorem derived_can_grow (r : Arr) (x : Nat) (m : Mem) (hinv : r.Inv)
    (halloc : r.size = r.capacity → (m.allocT r.triple).1 = true) (hlim : ¬ r.AtLimit) :
    (r.add x m).1 = .ok ∧ (r.add x m).2.1.abs = r.abs ++ [x] ∧ (r.add x m).2.1.Inv ∧ (r.add x m).2.1.grow = r.grow := by
  obtain ⟨ok, habs⟩ := C01.add_succeeds r x m hinv halloc hlim
  rcases (Arr.add_spec r x m hinv).1 with ⟨_, _, g⟩ | ⟨hb, _⟩
  · exact ⟨ok, habs, g.inv hinv, g.2.2.2.2⟩
  · rcases hb.1 with ⟨e1, _⟩ | ⟨e1, _⟩ <;> rw [e1] at ok <;> simp at ok

/-- **the source is equal to what it was** — true by the value semantics of the model (the harness
carries the C-level claim: the source is re-observed after every builder call): the builders are functions *of* the source state that
return only the new array and the ledger — there is no updated source to speak of; in particular the
source still satisfies its invariant and has the same content, size, capacity and buffer -/
theorem source_unchanged_model (a : Arr) (b e : Nat) (cp : Nat → Nat) (p : Nat → Bool) (m : Mem) :
    (fun (_ : Stat × Option Arr × Mem) => a) (a.subarray b e m) = a ∧
    (fun (_ : Stat × Option Arr × Mem) => a) (a.copyShallow m) = a ∧
    (fun (_ : Stat × Option Arr × List Nat × Mem) => a) (a.copyDeep cp m) = a ∧
    (fun (_ : Stat × Option Arr × List Nat × Mem) => a) (a.filter p m) = a := ⟨rfl, rfl, rfl, rfl⟩

/-- **independence** — true by the value semantics of the model, which cannot express two arrays
sharing a buffer; the C-level claim is carried by the harness: source and result are separate values; a history run on one component of the
pair (source, result) returns the other as it was.  (That the C objects share no memory is checked by
the harness: both are observed after every operation on either, and one is destroyed while the other
is still used, under ASan.) -/
theorem independent_model (cfg : Spec.Seq.Cfg) (a r : Arr) (ops : List Spec.Seq.Op) (m : Mem) :
    (fun (pr : Arr × Arr) => ((pr.1.run cfg ops m).2.1, pr.2)) (a, r) = ((a.run cfg ops m).2.1, r) ∧
    (fun (pr : Arr × Arr) => (pr.1, (pr.2.run cfg ops m).2.1)) (a, r) = (a, (r.run cfg ops m).2.1) := ⟨rfl, rfl⟩

/-- **destroying a derived array** releases exactly the two blocks its builder allocated, through the
source's allocator triple (which the result inherits): build, then destroy the result (after any
history on it), and the triple's live-block count is what it was before the builder call; the other
allocator's counters are never touched.  Stated for all four builders at once: `r` is any result. -/
theorem derived_destroy (a : Arr) (b e : Nat) (cp : Nat → Nat) (p : Nat → Bool) (m : Mem) (r : Arr) (m1 : Mem)
    (hinv : a.Inv)
    (hr : ((a.subarray b e m).2.1, (a.subarray b e m).2.2) = (some r, m1) ∨
          ((a.copyShallow m).2.1, (a.copyShallow m).2.2) = (some r, m1) ∨
          ((a.copyDeep cp m).2.1, (a.copyDeep cp m).2.2.2) = (some r, m1) ∨
          ((a.filter p m).2.1, (a.filter p m).2.2.2) = (some r, m1)) :
    r.triple = a.triple ∧ Arr.own a.triple m1 = Arr.own a.triple m + 2 ∧
    Arr.own a.triple (r.destroy m1) = Arr.own a.triple m ∧ (r.destroy m1).fault = m.fault := by
  have ht := C14Array.derived_inherits_triple a 1 b e id (fun _ => false) cp p m .conf r
  have key : r.triple = a.triple ∧ Arr.own a.triple m1 = Arr.own a.triple m + 2 ∧ m1.fault = m.fault := by
    rcases hr with h | h | h | h <;> simp only [Prod.mk.injEq] at h <;> obtain ⟨h1, h2⟩ := h
    · rcases Arr.subarray_spec a b e m hinv with ⟨_, _, hn, _⟩ | ⟨_, _, _, hn, _⟩ | ⟨_, _, _, r', q1, _, _, _, _, q2, q3⟩
      · rw [hn] at h1; simp at h1
      · rw [hn] at h1; simp at h1
      · exact ⟨ht.2.1 h1, by rw [← h2]; exact q2, by rw [← h2]; exact q3⟩
    · rcases Arr.copyShallow_spec a m hinv with ⟨_, _, hn, _⟩ | ⟨_, _, r', q1, _, _, _, _, q2, q3⟩
      · rw [hn] at h1; simp at h1
      · exact ⟨ht.2.2.1 h1, by rw [← h2]; exact q2, by rw [← h2]; exact q3⟩
    · rcases Arr.copyDeep_spec cp a m hinv with ⟨_, _, hn, _⟩ | ⟨_, _, r', q1, _, _, _, _, _, q2, q3⟩
      · rw [hn] at h1; simp at h1
      · exact ⟨ht.2.2.2.1 h1, by rw [← h2]; exact q2, by rw [← h2]; exact q3⟩
    · rcases Arr.filter_spec p a m hinv with ⟨_, _, hn, _⟩ | ⟨_, _, _, hn, _⟩ | ⟨_, _, _, r', q1, _, _, _, _, _, q2, q3⟩
      · rw [hn] at h1; simp at h1
      · rw [hn] at h1; simp at h1
      · exact ⟨ht.2.2.2.2 h1, by rw [← h2]; exact q2, by rw [← h2]; exact q3⟩
  obtain ⟨k1, k2, k3⟩ := key
  have hd := Arr.destroy_spec r m1 (by rw [k1]; omega)
  rw [k1] at hd
  exact ⟨k1, k2, by omega, by rw [hd.2, k3]⟩

/-! Non-vacuity: an array of 4 in a block of 5 with a dead slot; sub-range, copies and filter on the
default-allocator triple, results exact and exactly the two blocks charged to that triple only; a
refused builder returns no object -/
example :
    let a : Arr := Arr.mk 4 5 [10, 21, 30, 41, 99] (fun c => c * 3 / 2) .libc
    a.Inv ∧ ((a.subarray 1 2 {}).2.1.map (·.abs), (a.subarray 1 2 {}).2.1.map (·.capacity)) = (some [21, 30], some 2) ∧
    (a.subarray 1 2 {}).2.2.liveLibc = 2 ∧ (a.subarray 1 2 {}).2.2.live = 0 ∧
    (a.copyShallow {}).2.1.map (·.buf) = some [10, 21, 30, 41, 0] ∧
    (a.copyDeep (· + 1) {}).2.1.map (·.abs) = some [11, 22, 31, 42] ∧
    (a.filter (· % 2 == 0) {}).2.1.map (·.abs) = some [10, 30] ∧
    (a.subarray 2 1 {}).1 = .errInvalidRange ∧
    (({ a with triple := .conf }).copyShallow { sched := [true] }).1 = .errAlloc ∧
    (({ a with triple := .conf }).copyShallow { sched := [false, true] }).2.2.live = 0 := by decide

end CC.Properties.C15Array
