import CollectionsC.Properties.C12
import CollectionsC.Properties.C13
import CollectionsC.Proofs.PoolsServe
/-! # C14, pool side: a sufficiently large pool never refuses

C14 says that a container backed by a sufficiently large static or dynamic pool behaves exactly like
the same container on malloc.  The argument has two halves.

**Container side** (each container's `C14<K>.history_allocator_independent` /
`allocator_independent`): statuses, out-values and resulting states of every history depend on the
ledger only through the refusal schedule `Mem.sched` — two allocators that refuse the same calls
(in particular: none) give the same run.

**Pool side** (this file): the allocator that the container sees when it is backed by a pool — the
pool's `malloc`/`calloc` — never answers NULL as long as the pool is large enough:
`never_refuses_within_capacity` for a static pool (the request sizes sum to at most the free space),
`stream_never_refused_within_capacity` for streams that also free and reset;
`expandable_never_refuses` for an expandable dynamic pool with a growth law ≥ 1 (every request is
smaller than the page size, the pool's own page allocator does not refuse; frees and resets allowed).  Every block handed
out lies inside the region / its page and is disjoint from all others, so the container's blocks do
not alias.  Hence the refusal schedule the container sees is all-`false`, the same as on a malloc
that does not fail, and the container side gives identical behaviour.

**What remains informal**: `Mem` records *that* an allocator call happens, not *how many bytes* it
asks for, so "the container's requests are these pool requests" — the list of request sizes
(`capacity * sizeof(void*)`, `sizeof(Node)`, …) and that their sum fits — is an argument made per
container from its C source, not a theorem; and a pool never reuses a freed block unless it is the
newest one (C12), so "sufficiently large" means: at least the sum of **all** requests the history
makes, not its peak.  The harness closes the gap empirically: with `alloc=spool|dpool` on a
constructor line the real container runs on a real pool and must produce the same observations. -/
namespace CC.Properties.C14Pools
open CC CC.Spec

/-- **Static pool.** From any state satisfying the invariant, any sequence of `malloc`/`calloc`
requests whose sizes sum to at most `free_bytes()` is served without a single NULL; every request
gets its own live block; afterwards all live blocks lie inside the region and are pairwise
disjoint, and `used_bytes()` has grown by exactly the sum.  (From a fresh pool: any requests that
sum to at most the pool size `S`.) -/
theorem never_refuses_within_capacity (s : StaticPool) (m : Mem) (h : s.Inv) (hsz : s.core.size < sizeMod)
    (ops : List SPool.Op) (ha : ∀ op ∈ ops, SPool.IsAlloc op) (hfit : SPool.reqTotal ops ≤ s.core.freeBytes) :
    (∀ o ∈ (s.run ops m).1, o ≠ none) ∧ (s.run ops m).1.length = ops.length ∧
    (s.run ops m).2.1.blocks.length = s.blocks.length + ops.length ∧
    (∀ b ∈ (s.run ops m).2.1.blocks, b.1 + b.2 ≤ s.core.size) ∧
    (s.run ops m).2.1.blocks.Pairwise (fun a b => disjoint a b) ∧
    (s.run ops m).2.1.core.usedBytes = s.core.usedBytes + SPool.reqTotal ops := by
  have hok : ∀ op ∈ ops, C12.OpOk s.core.size op := by
    intro op hop
    have := ha op hop
    cases op <;> first | trivial | exact this.elim
  have hh := C12.history_refines ops s m h hsz hok
  have hwf0 := StaticPool.abs_wf s h
  have hserve := SPool.run_serves ops s.abs ha hwf0.2.1 (by rw [← StaticPool.free_abs s h]; exact hfit)
  have hwf := StaticPool.abs_wf _ hh.2.2.1
  have hl := C12.live_blocks_contained_disjoint _ hwf
  have hsize : (s.run ops m).2.1.abs.size = s.core.size := by rw [hh.2.1, SPool.run_size]; rfl
  refine ⟨?_, ?_, ?_, ?_, hl.2, ?_⟩
  · rw [hh.1]; exact hserve.1
  · rw [hh.1]; exact hserve.2.1
  · have := hserve.2.2.2; rw [← hh.2.1] at this; exact this
  · intro b hb; have := hl.1 b hb; rw [hsize] at this; exact this
  · rw [StaticPool.used_abs _ hh.2.2.1, hh.2.1, hserve.2.2.1, ← StaticPool.used_abs s h]

/-- the fresh-pool instance: any requests that sum to at most the pool size are all served -/
theorem fresh_pool_serves (size : Nat) (bytes : Buf Nat) (hb : bytes.length = size) (hsz : size < sizeMod) (m : Mem)
    (ops : List SPool.Op) (ha : ∀ op ∈ ops, SPool.IsAlloc op) (hfit : SPool.reqTotal ops ≤ size) :
    ∀ o ∈ ((StaticPool.new size bytes).run ops m).1, o ≠ none :=
  (never_refuses_within_capacity (StaticPool.new size bytes) m (StaticPool.new_inv size bytes hb) hsz ops ha
    (by simpa [StaticPool.new, SPoolCore.new, SPoolCore.freeBytes] using hfit)).1

/-- **Static pool, streams with `free` and `reset`.** Any history of malloc/calloc/free/reset (no
user writes) whose *allocation* sizes sum to at most `free_bytes()` at the start is served: every
malloc/calloc in it returns non-NULL — frees and resets in between only make room — and the
invariant holds afterwards (so all live blocks are in bounds and pairwise disjoint). -/
theorem stream_never_refused_within_capacity (s : StaticPool) (m : Mem) (h : s.Inv) (hsz : s.core.size < sizeMod)
    (ops : List SPool.Op) (hr : ∀ op ∈ ops, SPool.IsReq op) (hfit : SPool.reqTotal ops ≤ s.core.freeBytes) :
    SPool.Served ops (s.run ops m).1 ∧ (s.run ops m).2.1.Inv ∧
    (∀ b ∈ (s.run ops m).2.1.blocks, b.1 + b.2 ≤ s.core.size) ∧
    (s.run ops m).2.1.blocks.Pairwise (fun a b => disjoint a b) := by
  have hok : ∀ op ∈ ops, C12.OpOk s.core.size op := by
    intro op hop
    have := hr op hop
    cases op <;> first | trivial | exact this.elim
  have hh := C12.history_refines ops s m h hsz hok
  have hwf0 := StaticPool.abs_wf s h
  have hserve := SPool.stream_serves ops s.abs hr hwf0.2.1 (by rw [← StaticPool.free_abs s h]; exact hfit)
  have hwf := StaticPool.abs_wf _ hh.2.2.1
  have hl := C12.live_blocks_contained_disjoint _ hwf
  have hsize : (s.run ops m).2.1.abs.size = s.core.size := by rw [hh.2.1, SPool.run_size]; rfl
  refine ⟨by rw [hh.1]; exact hserve.1, hh.2.2.1, ?_, hl.2⟩
  intro b hb; have := hl.1 b hb; rw [hsize] at this; exact this

/-- **Expandable dynamic pool.** With a growth law that never shrinks a page and keeps it
addressable (`c ≤ grow c ≤ pageLimit`: expansion factor ≥ 1), a page allocator that does not refuse
(`NoRefuse`: empty schedule, or the C library), and every page at least `S0` bytes: any stream of
requests — `malloc`/`calloc`, each smaller than `S0` also with its padding, interleaved with any
`free` and `reset` — is served: every malloc/calloc returns non-NULL, from the current page or from
a new one; the invariant holds afterwards, so every live block lies inside its page and the blocks
of a page are pairwise disjoint. -/
theorem expandable_never_refuses (grow : Nat → Nat) (fresh S0 : Nat) (s : DynamicPool) (m : Mem)
    (h : s.Inv) (hz : s.Sized) (hl : s.owned ≤ m.liveT s.triple) (hfx : s.isFixed = false)
    (hS : ∀ p ∈ s.pages, S0 ≤ p.size)
    (hg : ∀ c, c ≤ pageLimit → c ≤ grow c ∧ grow c ≤ pageLimit) (hnr : DynamicPool.NoRefuse s m)
    (ops : List DPool.Op) (ha : ∀ op ∈ ops, DPool.ReqOk S0 s.isPacked s.ab op) :
    DPool.Served ops (DynamicPool.run grow fresh s ops m).1 ∧
    (DynamicPool.run grow fresh s ops m).2.2.1.Inv ∧
    (∀ p ∈ (DynamicPool.run grow fresh s ops m).2.2.1.pages,
      (∀ b ∈ p.blocks, b.off + b.span ≤ p.size) ∧ p.blocks.Pairwise fun a b => disjoint (a.off, a.span) (b.off, b.span)) := by
  have hann := DynamicPool.req_run_annot grow fresh S0 s.ab s.isPacked ops s m hnr ha
  have hh := C13.history_refines grow fresh ops s m h hz hl hann.2
  rw [hann.1] at hh
  obtain ⟨p, ps, hp, _⟩ := DynamicPool.inv_top s h
  have hserving : DPool.Serving S0 s.isPacked s.ab s.abs :=
    ⟨hfx, rfl, rfl, by show s.pages ≠ []; rw [hp]; simp, fun q hq => ⟨hS q hq, hz q hq⟩⟩
  have hserve := DPool.run_serves grow fresh S0 s.ab s.isPacked hg ops s.abs hserving ha
  have hwf := DynamicPool.abs_wf _ hh.2.2.1
  refine ⟨by rw [hh.1]; exact hserve, hh.2.2.1, ?_⟩
  intro pg hpg
  have := C13.live_blocks_contained_disjoint _ hwf pg hpg
  exact ⟨fun b hb => (this.1 b hb).2, this.2⟩

/-! Non-vacuity: the growth hypothesis is met by every factor ≥ 1 clipped at the page limit (factor 1:
`c ↦ c`; factor 2: `c ↦ min (2c) pageLimit`), and `NoRefuse` by the empty schedule -/
example : (∀ c, c ≤ pageLimit → c ≤ (fun c => c) c ∧ (fun c => c) c ≤ pageLimit) ∧
    (∀ c, c ≤ pageLimit → c ≤ (fun c => min (2 * c) pageLimit) c ∧ (fun c => min (2 * c) pageLimit) c ≤ pageLimit) := by
  refine ⟨fun c hc => ⟨Nat.le_refl _, hc⟩, fun c hc => ?_⟩
  simp only; omega

example :
    let s : DynamicPool := DynamicPool.mk .conf false true 4 1 [PPage.mk 4 [238, 238, 238, 238] []] 0 0 false
    s.Inv ∧ s.Sized ∧ DynamicPool.NoRefuse s { live := 2 } ∧
    (DynamicPool.run (fun c => c) 238 s [.malloc 3 false, .malloc 3 false, .release (some (1, 0)), .calloc 1 2 false,
        .reset, .malloc 1 false] { live := 2 }).1 =
      [some (0, 0), some (1, 0), none, some (1, 0), none, some (0, 0)] := by
  refine ⟨by decide, by decide, Or.inl rfl, by decide⟩

end CC.Properties.C14Pools
