import CollectionsC.Proofs.ArraySized8
/-! # C06 (sized array part) — memory safety and leak freedom

Statements only.  `Mem.fault` is set by a checked buffer access outside the allocated bytes
(`m.check (offset + n ≤ buf.length)` precedes every `memcpy`/`memmove`/byte access of the model), by
a division by `data_length = 0` and by a release with nothing live on that allocator.  An array
owns two blocks (header, buffer) **of its own triple**: `own m a.triple` is `m.live` for an array
built with `new_conf` and `m.liveLibc` for one built with `cc_array_sized_new` (C library allocator).
The sized array has no callback-taking destroy/remove variants, so part (c) of C06 does not apply. -/
namespace CC.Properties.C06Sized
open CC CC.Gen CC.ArraySized

/-- (a) no call of the core API faults, in any state satisfying the invariant, for every argument -/
theorem nofault (a : ArraySized) (op : Spec.SSeq.Op Elem) (m : Mem) (h : a.Inv) (hw : OpWF a.dataLen op) :
    (a.step op m).2.2.fault = m.fault := step_nofault a op m h hw

/-- (a) lifted to histories, for every refusal schedule: the fault flag after any history is the
one before it; every intermediate state satisfies the invariant (all offsets below the allocated
byte count) -/
theorem history_nofault (a : ArraySized) (ops : List (Spec.SSeq.Op Elem)) (m : Mem) (h : a.Inv)
    (hw : ∀ op ∈ ops, OpWF a.dataLen op) :
    (a.run ops m).2.2.fault = m.fault ∧ (a.run ops m).2.1.Inv :=
  ⟨(run_refines ops a m h hw).2.2.2.2.2.2.1, (run_refines ops a m h hw).2.2.1⟩

/-- iterator programs neither fault nor change the number of blocks the array owns -/
theorem iter_program_nofault (it : Iter) (a : ArraySized) (c : Spec.SSeq.Cursor Elem)
    (cmds : List (Spec.SSeq.IterCmd Elem)) (m : Mem) (h : a.Inv) (hw : ∀ cmd ∈ cmds, IterCmdWF a.dataLen cmd)
    (hrel : IterRel it a c) :
    (iterRun it a cmds m).2.2.2.fault = m.fault ∧ own (iterRun it a cmds m).2.2.2 a.triple = own m a.triple :=
  ⟨(iterRun_refines cmds it a c m h hw hrel).2.2.2.2.1, (iterRun_refines cmds it a c m h hw hrel).2.2.2.1⟩

/-- zip iterators over two arrays (possibly on different allocators): `zip_iter_add` leaves both
live-block counters and the fault flag as they were -/
theorem zip_add_balanced (it : Iter) (a1 a2 : ArraySized) (c : Spec.SSeq.ZipCursor Elem) (e1 e2 : Buf Nat) (m : Mem)
    (i1 : a1.Inv) (i2 : a2.Inv) (he1 : e1.length = a1.dataLen) (he2 : e2.length = a2.dataLen)
    (hrel : ZipRel it a1 a2 c) : Bal m (zipAdd it a1 a2 e1 e2 m).2.2.2.2 := by
  rcases zipAdd_spec it a1 a2 c e1 e2 m i1 i2 he1 he2 hrel with ⟨_, _, _, _, h5⟩ | ⟨_, _, _, _, _, h6, _⟩
  · exact h5
  · exact h6

/-- (b) ledger per step: the array owns its two blocks before and after every call (a growth or a
trim allocates the new buffer and releases the old one through the same triple) -/
theorem ledger (a : ArraySized) (op : Spec.SSeq.Op Elem) (m : Mem) (h : a.Inv) (hw : OpWF a.dataLen op) :
    own (a.step op m).2.2 a.triple = own m a.triple := step_ledger a op m h hw

/-- (b) builders, every outcome: a call that returns an object makes the session own exactly two
more blocks of the source's triple; one that returns none (refused, rejected range, empty source)
leaves the counter as it was -/
theorem builders_ledger (a : ArraySized) (b e : Nat) (p : List Nat → Bool) (m : Mem) (h : a.Inv) :
    (own (a.copy m).2.2 a.triple = own m a.triple + (if (a.copy m).2.1 = none then 0 else 2)) ∧
    (own (a.subarray b e m).2.2 a.triple = own m a.triple + (if (a.subarray b e m).2.1 = none then 0 else 2)) ∧
    (own (a.filter p m).2.2.2 a.triple = own m a.triple + (if (a.filter p m).2.2.1 = none then 0 else 2)) := by
  refine ⟨?_, ?_, ?_⟩
  · rcases copy_spec a m h with ⟨s, h1, _, _, _, _, _, _, h8, _⟩ | ⟨_, h2, h3⟩
    · rw [h8, h1]; simp
    · rw [h3.1, h2]; simp
  · by_cases hr : b ≤ e ∧ e < a.size
    · rcases subarray_spec a b e m h hr.1 hr.2 with ⟨s, h1, _, _, _, _, _, _, h8, _⟩ | ⟨_, h2, h3⟩
      · rw [h8, h1]; simp
      · rw [h3.1, h2]; simp
    · rw [subarray_inert a b e m (by omega)]; simp
  · by_cases h0 : 0 < a.size
    · rcases filter_spec a p m h h0 with ⟨s, h1, _, _, _, _, _, h7, _⟩ | ⟨_, h2, h3⟩
      · rw [h7, h1]; simp
      · rw [h3.1, h2]; simp
    · rw [filter_inert a p m (by omega)]; simp

/-- (b) whole life, on either allocator: construction, any history under any refusal schedule,
`destroy` — every block allocated has been released exactly once (the triple's live-block counter is
back to its initial value), no double free or foreign free (`fault` unchanged), and the other
allocator was never touched -/
theorem destroy_releases_all (dl cap : Nat) (grow : Nat → Nat) (exGe : Nat → Bool) (m0 m1 : Mem) (t : Triple)
    (a : ArraySized) (hnew : ArraySized.new dl cap grow exGe m0 t = (.ok, some a, m1))
    (ops : List (Spec.SSeq.Op Elem)) (hw : ∀ op ∈ ops, OpWF dl op) :
    own ((a.run ops m1).2.1.destroy (a.run ops m1).2.2) t = own m0 t ∧
    ((a.run ops m1).2.1.destroy (a.run ops m1).2.2).fault = m0.fault ∧
    Other t m0 ((a.run ops m1).2.1.destroy (a.run ops m1).2.2) :=
  ArraySized.destroy_releases_all dl cap grow exGe m0 m1 t a hnew ops hw

/-- the buffer size in bytes never wraps around `size_t` -/
theorem byte_count_fits (a : ArraySized) (h : a.Inv) : a.capacity * a.dataLen < 2 ^ 64 :=
  Nat.lt_of_le_of_lt h.2.2.2.2 (by decide)

/-! Non-vacuity: a concrete array on the configured triple, a history with a growth, a refused growth
(schedule `[false, true]`), a trim and removals: no fault, two blocks owned before and after. -/
example :
    let a : ArraySized := { dataLen := 2, size := 1, capacity := 1, grow := fun c => 2 * c, buf := [7, 0] }
    let m : Mem := { sched := [false, true], live := 2 }
    a.Inv ∧ ((a.run [.add [1, 1], .add [2, 2], .add [3, 3], .trim, .removeAt 0, .reverse] m).2.2.fault = false) ∧
    ((a.run [.add [1, 1], .add [2, 2], .add [3, 3], .trim, .removeAt 0, .reverse] m).2.2.live = 2) := by decide

end CC.Properties.C06Sized
