import CollectionsC.Proofs.ArraySized7
/-! # C06 (sized array part) — memory safety and leak freedom

Statements only.  `Mem.fault` is set by a checked buffer access outside the allocated bytes
(`m.check (offset + n ≤ buf.length)` precedes every `memcpy`/`memmove`/byte access of the model), by
a division by `data_length = 0` and by a `free` with nothing live.  `live` counts the blocks owned
through the configured triple: an array owns two (header, buffer).  The sized array has no
callback-taking destroy/remove variants, so part (c) of C06 does not apply to it. -/
namespace CC.Properties.C06Sized
open CC CC.Gen CC.ArraySized

/-- (a) no call of the core API faults, in any state satisfying the invariant, for every argument -/
theorem nofault (a : ArraySized) (op : Spec.SSeq.Op Elem) (m : Mem) (h : a.Inv) (hw : OpWF a.dataLen op) :
    (a.step op m).2.2.fault = m.fault := step_nofault a op m h hw

/-- (a) lifted to histories: the fault flag after any history is the one before it; every
intermediate state satisfies the invariant (all offsets below the allocated byte count) -/
theorem history_nofault (a : ArraySized) (ops : List (Spec.SSeq.Op Elem)) (m : Mem) (h : a.Inv)
    (hw : ∀ op ∈ ops, OpWF a.dataLen op) :
    (a.run ops m).2.2.fault = m.fault ∧ (a.run ops m).2.1.Inv :=
  ⟨(run_refines ops a m h hw).2.2.2.2.2.2.1, (run_refines ops a m h hw).2.2.1⟩

/-- iterator programs do not fault either -/
theorem iter_program_nofault (it : Iter) (a : ArraySized) (c : Spec.SSeq.Cursor Elem)
    (cmds : List (Spec.SSeq.IterCmd Elem)) (m : Mem) (h : a.Inv) (hw : ∀ cmd ∈ cmds, IterCmdWF a.dataLen cmd)
    (hrel : IterRel it a c) :
    (iterRun it a cmds m).2.2.2.fault = m.fault ∧ (iterRun it a cmds m).2.2.2.live = m.live :=
  ⟨(iterRun_refines cmds it a c m h hw hrel).2.2.2.2.1, (iterRun_refines cmds it a c m h hw hrel).2.2.2.1⟩

/-- (b) ledger per step: the array owns its two blocks before and after every call (a growth or a
trim allocates the new buffer and releases the old one) -/
theorem ledger (a : ArraySized) (op : Spec.SSeq.Op Elem) (m : Mem) (h : a.Inv) (hw : OpWF a.dataLen op) :
    (a.step op m).2.2.live = m.live := step_ledger a op m h hw

/-- (b) builders: a successful `subarray`/`copy`/`filter` makes the session own two more blocks,
a refused one none -/
theorem builders_ledger (a : ArraySized) (b e : Nat) (p : List Nat → Bool) (m : Mem) (h : a.Inv) :
    (((a.copy m).2.1 ≠ none → (a.copy m).2.2.live = m.live + 2) ∧ ((a.copy m).2.1 = none → (a.copy m).2.2.live = m.live)) ∧
    (b ≤ e → e < a.size →
      ((a.subarray b e m).2.1 ≠ none → (a.subarray b e m).2.2.live = m.live + 2) ∧
      ((a.subarray b e m).2.1 = none → (a.subarray b e m).2.2.live = m.live)) ∧
    (0 < a.size →
      ((a.filter p m).2.2.1 ≠ none → (a.filter p m).2.2.2.live = m.live + 2) ∧
      ((a.filter p m).2.2.1 = none → (a.filter p m).2.2.2.live = m.live)) := by
  refine ⟨?_, ?_, ?_⟩
  · rcases copy_spec a m h with ⟨s, h1, _, _, _, _, _, _, h8, _⟩ | ⟨_, h2, h3⟩
    · exact ⟨fun _ => h8, fun hn => by rw [h1] at hn; cases hn⟩
    · exact ⟨fun hn => absurd h2 hn, fun _ => h3.1⟩
  · intro hb he
    rcases subarray_spec a b e m h hb he with ⟨s, h1, _, _, _, _, _, _, h8, _⟩ | ⟨_, h2, h3⟩
    · exact ⟨fun _ => h8, fun hn => by rw [h1] at hn; cases hn⟩
    · exact ⟨fun hn => absurd h2 hn, fun _ => h3.1⟩
  · intro h0
    rcases filter_spec a p m h h0 with ⟨s, h1, _, _, _, _, _, h7, _⟩ | ⟨_, h2, h3⟩
    · exact ⟨fun _ => h7, fun hn => by rw [h1] at hn; cases hn⟩
    · exact ⟨fun hn => absurd h2 hn, fun _ => h3.1⟩

/-- (b) whole life: construction, any history under any refusal schedule, `destroy` — every block
allocated has been released exactly once (`live` back to its initial value), no double free or
foreign free (`fault` unchanged) -/
theorem destroy_releases_all (dl cap : Nat) (grow : Nat → Nat) (exGe : Nat → Bool) (m0 m1 : Mem) (a : ArraySized)
    (hnew : ArraySized.new dl cap grow exGe m0 = (.ok, some a, m1))
    (ops : List (Spec.SSeq.Op Elem)) (hw : ∀ op ∈ ops, OpWF dl op) :
    ((a.run ops m1).2.1.destroy (a.run ops m1).2.2).live = m0.live ∧
    ((a.run ops m1).2.1.destroy (a.run ops m1).2.2).fault = m0.fault :=
  ⟨(ArraySized.destroy_releases_all dl cap grow exGe m0 m1 a hnew ops hw).1,
   (ArraySized.destroy_releases_all dl cap grow exGe m0 m1 a hnew ops hw).2.1⟩

/-- the buffer size in bytes never wraps around `size_t` -/
theorem byte_count_fits (a : ArraySized) (h : a.Inv) : a.capacity * a.dataLen < 2 ^ 64 :=
  Nat.lt_of_le_of_lt h.2.2.2.2 (by decide)

end CC.Properties.C06Sized
