import CollectionsC.Proofs.Rbuf
/-! # C19 — CC_Rbuf is a bounded FIFO that overwrites only the oldest item

Statements only (helpers live in `Proofs/Rbuf.lean`).  The concrete model `CC.Rbuf`
(`Model/Rbuf.lean`) mirrors `src/cc_ring_buffer.c` field by field; the abstract spec
`CC.Spec.Fifo` is a list with a capacity.  Quantifiers: every capacity ≥ 1, every item value,
every finite enqueue/dequeue history, every allocator state. -/
namespace CC.Properties.C19
open CC
open CC.Spec.Fifo (Op Out)

/-- One step of the concrete model refines one step of the bounded FIFO: same status and
out-value, abstraction commutes, invariant preserved, capacity fixed, and the step neither
allocates nor faults (no out-of-bounds slot, no `% 0`). -/
theorem step_refines (r : Rbuf) (op : Op) (m : Mem) (h : r.Inv) :
    (r.step op m).1 = ((Spec.Fifo.mk r.cap r.abs).step op).1 ∧
    (r.step op m).2.1.abs = ((Spec.Fifo.mk r.cap r.abs).step op).2.items ∧
    (r.step op m).2.1.Inv ∧ (r.step op m).2.1.cap = r.cap ∧ (r.step op m).2.2 = m := by
  cases op with
  | enqueue x =>
    refine ⟨rfl, Rbuf.enqueue_abs r x m h, Rbuf.enqueue_inv r x m h, rfl, Rbuf.enqueue_nofault r x m h⟩
  | dequeue =>
    have hr := Rbuf.dequeue_refines r m h
    refine ⟨?_, hr.2.2, Rbuf.dequeue_inv r m h, ?_, Rbuf.dequeue_nofault r m h⟩
    · simp only [Rbuf.step, Spec.Fifo.step]; rw [hr.1, hr.2.1]
    · simp only [Rbuf.step, Rbuf.dequeue]; split <;> rfl

/-- **C19, all histories.** From any state satisfying the invariant, running any history on the
model yields exactly the statuses and out-values of the ideal bounded FIFO, and ends in a state
whose content is the FIFO's content. -/
theorem history_refines (ops : List Op) (r : Rbuf) (m : Mem) (h : r.Inv) :
    (r.run ops m).1 = ((Spec.Fifo.mk r.cap r.abs).run ops).1 ∧
    (r.run ops m).2.1.abs = ((Spec.Fifo.mk r.cap r.abs).run ops).2.items ∧
    (r.run ops m).2.1.Inv ∧ (r.run ops m).2.2 = m := by
  induction ops generalizing r m with
  | nil => exact ⟨rfl, rfl, h, rfl⟩
  | cons op ops ih =>
    obtain ⟨h1, h2, h3, h4, h5⟩ := step_refines r op m h
    have ih' := ih (r.step op m).2.1 (r.step op m).2.2 h3
    have hspec : (Spec.Fifo.mk (r.step op m).2.1.cap (r.step op m).2.1.abs) = ((Spec.Fifo.mk r.cap r.abs).step op).2 := by
      rw [h4, h2]
      cases op <;> simp [Spec.Fifo.step, Spec.Fifo.enqueue, Spec.Fifo.dequeue] <;> split <;> rfl
    rw [hspec] at ih'
    simp only [Rbuf.run, Spec.Fifo.run]
    refine ⟨?_, ih'.2.1, ih'.2.2.1, ?_⟩
    · rw [h1, ih'.1]
    · rw [ih'.2.2.2, h5]

/-- **C19 from the constructor.** Every history on a freshly constructed ring buffer of capacity
`cap ≥ 1` behaves like the ideal bounded FIFO of that capacity. -/
theorem new_history_refines (cap : Nat) (hc : 0 < cap) (m0 m1 : Mem) (r0 : Rbuf)
    (hnew : Rbuf.new cap m0 = (.ok, some r0, m1)) (ops : List Op) :
    (r0.run ops m1).1 = ((Spec.Fifo.empty cap).run ops).1 ∧
    (r0.run ops m1).2.1.abs = ((Spec.Fifo.empty cap).run ops).2.items ∧
    (r0.run ops m1).2.2 = m1 := by
  obtain ⟨hinv, habs, _⟩ := Rbuf.new_ok cap m0 r0 m1 hc hnew
  have hcap : r0.cap = cap := by
    unfold Rbuf.new Rbuf.newT at hnew; simp only [Mem.allocT_conf, Mem.freeT_conf] at hnew
    cases h1 : m0.alloc.1
    · simp [h1] at hnew
    · cases h2 : m0.alloc.2.alloc.1
      · simp [h1, h2] at hnew
      · simp only [h1, h2, Bool.not_true, Bool.false_eq_true, if_false, Prod.mk.injEq, Option.some.injEq, true_and] at hnew
        rw [← hnew.1]
  have := history_refines ops r0 m1 hinv
  rw [habs, hcap] at this
  exact ⟨this.1, this.2.1, this.2.2.2⟩

/-! ## The property in its own vocabulary (facts about the ideal FIFO) -/

/-- size never exceeds the capacity -/
theorem spec_size_le_cap (f : Spec.Fifo) (ops : List Op) (hc : 0 < f.cap) (h : f.items.length ≤ f.cap) :
    (f.run ops).2.items.length ≤ (f.run ops).2.cap ∧ (f.run ops).2.cap = f.cap := by
  induction ops generalizing f with
  | nil => exact ⟨h, rfl⟩
  | cons op ops ih =>
    have : (f.step op).2.items.length ≤ (f.step op).2.cap ∧ (f.step op).2.cap = f.cap := by
      cases op with
      | enqueue x =>
        simp only [Spec.Fifo.step, Spec.Fifo.enqueue]
        split
        · simp; omega
        · simp; omega
      | dequeue =>
        simp only [Spec.Fifo.step, Spec.Fifo.dequeue]
        split <;> simp_all <;> omega
    have ih' := ih (f.step op).2 (by rw [this.2]; exact hc) this.1
    simp only [Spec.Fifo.run]
    exact ⟨ih'.1, by rw [ih'.2, this.2]⟩

/-- enqueue into a full buffer discards the oldest held item, and only it -/
theorem spec_enqueue_full (f : Spec.Fifo) (x : Nat) (h : f.items.length = f.cap) :
    (f.enqueue x).items = f.items.tail ++ [x] := by
  simp [Spec.Fifo.enqueue, h]

/-- enqueue below capacity keeps everything and appends -/
theorem spec_enqueue_room (f : Spec.Fifo) (x : Nat) (h : f.items.length < f.cap) :
    (f.enqueue x).items = f.items ++ [x] := by
  simp [Spec.Fifo.enqueue, h]

/-- dequeue returns the oldest held item and removes exactly it -/
theorem spec_dequeue_oldest (f : Spec.Fifo) (x : Nat) (xs : List Nat) (h : f.items = x :: xs) :
    f.dequeue = (.ok, some x, { f with items := xs }) := by
  simp [Spec.Fifo.dequeue, h]

/-- dequeue on an empty buffer reports an error and changes nothing; in the concrete model the
whole physical state is unchanged as well -/
theorem dequeue_empty_inert (r : Rbuf) (m : Mem) (h : r.size = 0) :
    r.dequeue m = (.errOutOfRange, none, r, m) := Rbuf.dequeue_empty r m h

/-- allocation behaviour of the constructor and destructor: a refused request yields no object and
leaves the ledger balanced; a successful construction owns exactly two blocks, which `destroy`
releases (C06/C08 part for this container) -/
theorem new_destroy_ledger (cap : Nat) (m : Mem) :
    ((Rbuf.new cap m).1 = .ok ∨ (Rbuf.new cap m).1 = .errAlloc) ∧
    ((Rbuf.new cap m).1 = .errAlloc → (Rbuf.new cap m).2.1 = none ∧ (Rbuf.new cap m).2.2.live = m.live ∧ (Rbuf.new cap m).2.2.fault = m.fault) ∧
    (∀ r, (Rbuf.new cap m).2.1 = some r → (Rbuf.new cap m).2.2.live = m.live + 2 ∧
        (r.destroy (Rbuf.new cap m).2.2).live = m.live ∧ (r.destroy (Rbuf.new cap m).2.2).fault = m.fault) := by
  unfold Rbuf.new Rbuf.newT; dsimp only [Mem.allocT, Mem.freeT]
  cases h1 : m.alloc.1 <;> simp only [Bool.not_false, Bool.not_true, if_true]
  · have := Mem.alloc_fst_false m h1
    simp [this]
  · have e1 := Mem.alloc_fst_true m h1
    cases h2 : m.alloc.2.alloc.1 <;> simp only [Bool.not_false, Bool.not_true, if_true]
    · have e2 := Mem.alloc_fst_false m.alloc.2 h2
      simp [Mem.free, e1, e2]
    · have e2 := Mem.alloc_fst_true m.alloc.2 h2
      simp [Rbuf.destroy, Mem.freeT, Mem.free, e1, e2]

/-- **Size clause.** After any history the stored `size` field equals the number of items held by the
ideal FIFO and never exceeds the capacity (the `cc_rbuf_size` / `cc_rbuf_is_empty` observers return
exactly this field). -/
theorem size_is_count (ops : List Op) (r : Rbuf) (m : Mem) (h : r.Inv) :
    (r.run ops m).2.1.size = ((Spec.Fifo.mk r.cap r.abs).run ops).2.items.length ∧
    (r.run ops m).2.1.size ≤ r.cap ∧
    ((r.run ops m).2.1.isEmpty = true ↔ ((Spec.Fifo.mk r.cap r.abs).run ops).2.items = []) := by
  obtain ⟨_, habs, hinv, _⟩ := history_refines ops r m h
  have hlen := Rbuf.abs_length (r.run ops m).2.1
  have hcap := (spec_size_le_cap (Spec.Fifo.mk r.cap r.abs) ops h.1 (by
    simpa [Rbuf.abs_length] using h.2.2.1)).2
  refine ⟨by rw [← habs, hlen], ?_, ?_⟩
  · have := (spec_size_le_cap (Spec.Fifo.mk r.cap r.abs) ops h.1 (by
      simpa [Rbuf.abs_length] using h.2.2.1)).1
    rw [hcap] at this
    rw [← habs, hlen] at this
    exact this
  · rw [← habs]
    simp only [Rbuf.isEmpty, decide_eq_true_eq]
    constructor
    · intro h0
      exact List.eq_nil_of_length_eq_zero (by rw [hlen]; exact h0)
    · intro h0
      rw [← hlen, h0]; rfl


/-! ## Non-vacuity: a wrapped, exactly full buffer satisfies the invariant -/
example : (Rbuf.mk 3 3 1 1 [8, 6, 7] .conf).Inv ∧ (Rbuf.mk 3 3 1 1 [8, 6, 7] .conf).abs = [6, 7, 8] := by decide

end CC.Properties.C19
