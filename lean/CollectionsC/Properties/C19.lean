import CollectionsC.Proofs.Rbuf
namespace CC.Properties.C19
open CC

theorem enqueue_refines (r : Rbuf) (x : Nat) (m : Mem) (h : r.Inv) :
    (r.enqueue x m).1.Inv ∧ (r.enqueue x m).2 = m ∧
    (r.enqueue x m).1.abs = ((Spec.Fifo.mk r.cap r.abs).enqueue x).items :=
  ⟨Rbuf.enqueue_inv r x m h, Rbuf.enqueue_nofault r x m h, Rbuf.enqueue_abs r x m h⟩

end CC.Properties.C19
