import CollectionsC.Proofs.StackMem
/-! # C14 (stack part) — `CC_Stack` uses only its configured allocators

Statements only (helpers: `Proofs/StackMem.lean`).  The stack header, the wrapped array and the result
of `cc_stack_filter` (Q3) are all allocated and released through the configured triple: `Mem.libc` is
never changed, and the behaviour depends on the ledger only through its schedule of refusals. -/
namespace CC.Properties.C14Stack
open CC
open CC.Spec.Seq (SOp Out)

theorem libc_invariant (s : Stack) (op : SOp) (m : Mem) (hinv : s.Inv) : (s.step op m).2.2.libc = m.libc :=
  (Stack.step_led s op m hinv).1

theorem history_libc_invariant (ops : List SOp) (s : Stack) (m : Mem) (hinv : s.Inv) :
    (s.run ops m).2.2.libc = m.libc := (Stack.run_led ops s m hinv).1

/-- wrapped construction, destruction (header included — Q2) and `cc_stack_filter` (Q3) -/
theorem lifecycle_libc_invariant (s : Stack) (cap : Nat) (grow dgrow : Nat → Nat) (exGe dexGe : Nat → Bool)
    (p : Nat → Bool) (m : Mem) (hinv : s.Inv) :
    (Stack.new cap grow exGe m).2.2.libc = m.libc ∧ (s.destroy m).libc = m.libc ∧
    (s.filter p dgrow dexGe m).2.2.2.libc = m.libc :=
  ⟨(Stack.new_led cap grow exGe m).1, (Stack.destroy_led s m).1, (Stack.filter_led p s dgrow dexGe m hinv).1⟩

theorem allocator_independent (s : Stack) (op : SOp) (m1 m2 : Mem) (hinv : s.Inv) (h : m1.sched = m2.sched) :
    (s.step op m1).1 = (s.step op m2).1 ∧ (s.step op m1).2.1 = (s.step op m2).2.1 ∧
    (s.step op m1).2.2.sched = (s.step op m2).2.2.sched := by
  obtain ⟨e1, e2, e3⟩ := Stack.step_indep s op m1 m2 hinv h
  exact ⟨e1, Stack.ext_v e2, e3⟩

theorem history_allocator_independent (ops : List SOp) (s : Stack) (m1 m2 : Mem) (hinv : s.Inv)
    (h : m1.sched = m2.sched) :
    (s.run ops m1).1 = (s.run ops m2).1 ∧ (s.run ops m1).2.1 = (s.run ops m2).2.1 :=
  ⟨(Stack.run_indep ops s m1 m2 hinv h).1, (Stack.run_indep ops s m1 m2 hinv h).2.1⟩

theorem new_allocator_independent (cap : Nat) (grow : Nat → Nat) (exGe : Nat → Bool) (m1 m2 : Mem)
    (h : m1.sched = m2.sched) :
    (Stack.new cap grow exGe m1).1 = (Stack.new cap grow exGe m2).1 ∧
    (Stack.new cap grow exGe m1).2.1.map (·.v) = (Stack.new cap grow exGe m2).2.1.map (·.v) := by
  obtain ⟨e1, e2, _⟩ := Stack.new_indep cap grow exGe m1 m2 h
  exact ⟨e1, e2⟩

/-- `cc_stack_filter` builds the same result (or none) under the same schedule: the result's blocks
come from the source's triple (Q3) -/
theorem filter_allocator_independent (p : Nat → Bool) (s : Stack) (dgrow : Nat → Nat) (dexGe : Nat → Bool)
    (m1 m2 : Mem) (h : m1.sched = m2.sched) :
    (s.filter p dgrow dexGe m1).1 = (s.filter p dgrow dexGe m2).1 ∧
    (s.filter p dgrow dexGe m1).2.1 = (s.filter p dgrow dexGe m2).2.1 := by
  obtain ⟨e1, e2, _⟩ := Stack.filter_indep p s dgrow dexGe m1 m2 h
  exact ⟨e1, e2⟩

end CC.Properties.C14Stack
