import CollectionsC.Proofs.StackMem
/-! # C14 (stack part) — `CC_Stack` uses only the allocator triple it was given

Statements only (helpers: `Proofs/StackMem.lean`).  `Stack.triple` is the triple the header copied from
its configuration; `cc_stack_new_conf` hands the same configuration to `cc_array_new_conf`, so header and
array share it (`Stack.Coh`); `cc_stack_destroy`/`destroy_cb` release the header through the stack's own
`mem_free` (Q2); `cc_stack_filter` configures its result with the *source's* triple (Q3) — in the model
`Stack.new … s.triple`; had it called the default constructor the model would say `.libc` and
`derived_inherits_triple` and `lifecycle_uses_only_own_triple` (for programs containing `filter`) would be false. -/
namespace CC.Properties.C14Stack
open CC
open CC.Spec.Seq (SOp Out)

/-- a stack on the configured triple never touches the C-library counters -/
theorem conf_uses_only_conf (s : Stack) (op : SOp) (m : Mem) (hinv : s.Inv) (ht : s.v.triple = .conf) :
    (s.step op m).2.2.libc = m.libc ∧ (s.step op m).2.2.liveLibc = m.liveLibc ∧
    (s.step op m).2.2.lalloc = m.lalloc ∧ (s.step op m).2.2.lfree = m.lfree := by
  have := (Stack.step_led s op m hinv).2.1
  rw [ht] at this
  exact ⟨this.2.1, this.1, this.2.2.1, this.2.2.2⟩

/-- a stack on the C-library triple (`cc_stack_new`) never touches the configured allocator, does not
consume its schedule, and is never refused -/
theorem default_uses_only_libc (s : Stack) (op : SOp) (m : Mem) (hinv : s.Inv) (ht : s.v.triple = .libc) :
    (s.step op m).2.2.live = m.live ∧ (s.step op m).2.2.nalloc = m.nalloc ∧
    (s.step op m).2.2.nfree = m.nfree ∧ (s.step op m).2.2.sched = m.sched ∧
    (s.step op m).2.2.nrefused = m.nrefused ∧ (s.step op m).1.st ≠ some .errAlloc := by
  obtain ⟨_, l2, l3, l4⟩ := Stack.step_led s op m hinv
  rw [ht] at l2
  have hr := l4 ht
  refine ⟨l2.1, l2.2.1, l2.2.2.1, l2.2.2.2, ?_, by simpa using hr⟩
  rw [hr] at l3; simpa using l3

theorem history_uses_only_own_triple (ops : List SOp) (s : Stack) (m : Mem) (hinv : s.Inv) :
    Arr.Foreign s.v.triple m (s.run ops m).2.2 ∧ (s.run ops m).2.1.v.triple = s.v.triple ∧
    (s.run ops m).2.1.triple = s.triple :=
  ⟨(Stack.run_led ops s m hinv).2.1, (Stack.run_led ops s m hinv).2.2.2.1, (Stack.run_led ops s m hinv).2.2.2.2⟩

/-- wrapped construction (header and inner array through `t`), destruction (header through the
stack's own triple — Q2) and `cc_stack_filter` (everything through the source's triple — Q3) -/
theorem lifecycle_uses_only_own_triple (s : Stack) (cap : Nat) (grow dgrow : Nat → Nat) (exGe dexGe : Nat → Bool)
    (p : Nat → Bool) (m : Mem) (t : Triple) (hc : s.Coh) :
    Arr.Foreign t m (Stack.new cap grow exGe m t).2.2 ∧ Arr.Foreign s.triple m (s.destroy m) ∧
    Arr.Foreign s.triple m (s.filter p dgrow dexGe m).2.2.2 :=
  ⟨(Stack.new_led cap grow exGe m t).2.1, Stack.destroy_foreign s m hc, (Stack.filter_led p s dgrow dexGe m).2.1⟩

/-- **the triple is inherited**: the constructor stores the triple it was given in header and array,
and the stack built by `cc_stack_filter` carries the source's triple in both -/
theorem derived_inherits_triple (s : Stack) (cap : Nat) (grow dgrow : Nat → Nat) (exGe dexGe : Nat → Bool)
    (p : Nat → Bool) (m : Mem) (t : Triple) (r : Stack) :
    ((Stack.new cap grow exGe m t).2.1 = some r → r.triple = t ∧ r.v.triple = t) ∧
    ((s.filter p dgrow dexGe m).2.1 = some r → r.triple = s.triple ∧ r.v.triple = s.triple) :=
  ⟨Stack.new_triple cap grow exGe m t r, Stack.filter_triple p s dgrow dexGe m r⟩

theorem allocator_independent (s : Stack) (op : SOp) (m1 m2 : Mem) (hinv : s.Inv) (h : m1.sched = m2.sched) :
    (s.step op m1).1 = (s.step op m2).1 ∧ (s.step op m1).2.1 = (s.step op m2).2.1 ∧
    (s.step op m1).2.2.sched = (s.step op m2).2.2.sched := Stack.step_indep s op m1 m2 hinv h

theorem history_allocator_independent (ops : List SOp) (s : Stack) (m1 m2 : Mem) (hinv : s.Inv)
    (h : m1.sched = m2.sched) :
    (s.run ops m1).1 = (s.run ops m2).1 ∧ (s.run ops m1).2.1 = (s.run ops m2).2.1 :=
  ⟨(Stack.run_indep ops s m1 m2 hinv h).1, (Stack.run_indep ops s m1 m2 hinv h).2.1⟩

theorem new_allocator_independent (cap : Nat) (grow : Nat → Nat) (exGe : Nat → Bool) (m1 m2 : Mem) (t : Triple)
    (h : m1.sched = m2.sched) :
    (Stack.new cap grow exGe m1 t).1 = (Stack.new cap grow exGe m2 t).1 ∧
    (Stack.new cap grow exGe m1 t).2.1 = (Stack.new cap grow exGe m2 t).2.1 :=
  ⟨(Stack.new_indep cap grow exGe m1 m2 t h).1, (Stack.new_indep cap grow exGe m1 m2 t h).2.1⟩

/-- `cc_stack_filter` builds the same result (or none) under the same schedule -/
theorem filter_allocator_independent (p : Nat → Bool) (s : Stack) (dgrow : Nat → Nat) (dexGe : Nat → Bool)
    (m1 m2 : Mem) (h : m1.sched = m2.sched) :
    (s.filter p dgrow dexGe m1).1 = (s.filter p dgrow dexGe m2).1 ∧
    (s.filter p dgrow dexGe m1).2.1 = (s.filter p dgrow dexGe m2).2.1 :=
  ⟨(Stack.filter_indep p s dgrow dexGe m1 m2 h).1, (Stack.filter_indep p s dgrow dexGe m1 m2 h).2.1⟩

/-! Non-vacuity / falsifiability: filtering a stack that lives on the C library builds the result on
the C library as well — three C-library allocations, no configured one, and a schedule that would
refuse the configured allocator is not even consulted. -/
example :
    let s : Stack := ⟨Arr.mk 3 4 [2, 3, 4, 0] (fun c => 2 * c) .libc, .libc⟩
    let f := s.filter (fun v => v % 2 == 0) (fun c => 2 * c) (fun _ => false) { liveLibc := 3, sched := [true, true] }
    s.Inv ∧ s.Coh ∧ f.1 = .ok ∧ (f.2.1.map (·.abs)) = some [2, 4] ∧ (f.2.1.map (·.triple)) = some .libc ∧
    f.2.2.2.lalloc = 3 ∧ f.2.2.2.liveLibc = 6 ∧ f.2.2.2.nalloc = 0 ∧ f.2.2.2.live = 0 ∧ f.2.2.2.sched = [true, true] := by
  decide

end CC.Properties.C14Stack
