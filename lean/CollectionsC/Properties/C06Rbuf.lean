import CollectionsC.Properties.C19
/-! # C06 (ring buffer part): no fault, ledger balance -/
namespace CC.Properties.C06Rbuf
open CC
open CC.Spec.Fifo (Op Out)

/-- no operation faults (no slot index outside the allocated buffer, no `% 0`) and none allocates:
the ledger record is returned unchanged -/
theorem nofault (r : Rbuf) (op : Op) (m : Mem) (h : r.Inv) : (r.step op m).2.2 = m :=
  (C19.step_refines r op m h).2.2.2.2

theorem history_nofault (ops : List Op) (r : Rbuf) (m : Mem) (h : r.Inv) : (r.run ops m).2.2 = m :=
  (C19.history_refines ops r m h).2.2.2

theorem step_keeps_triple (r : Rbuf) (op : Op) (m : Mem) : (r.step op m).2.1.triple = r.triple := by
  cases op with
  | enqueue x => simp [Rbuf.step, Rbuf.enqueue]
  | dequeue => simp only [Rbuf.step, Rbuf.dequeue]; split <;> rfl

theorem run_keeps_triple (ops : List Op) (r : Rbuf) (m : Mem) : (r.run ops m).2.1.triple = r.triple := by
  induction ops generalizing r m with
  | nil => rfl
  | cons op ops ih => simp only [Rbuf.run]; rw [ih, step_keeps_triple]

/-- construct, run any history, destroy: every block released exactly once, nothing faults —
for every refusal schedule of the constructor -/
theorem destroy_releases_all (cap : Nat) (hc : 0 < cap) (m0 : Mem) (ops : List Op) :
    ∀ r, (Rbuf.new cap m0).2.1 = some r →
      ((r.run ops (Rbuf.new cap m0).2.2).2.1.destroy (r.run ops (Rbuf.new cap m0).2.2).2.2).live = m0.live ∧
      ((r.run ops (Rbuf.new cap m0).2.2).2.1.destroy (r.run ops (Rbuf.new cap m0).2.2).2.2).fault = m0.fault := by
  intro r hr
  have hl := (C19.new_destroy_ledger cap m0).2.2 r hr
  have hst : (Rbuf.new cap m0).1 = .ok := by
    rcases (C19.new_destroy_ledger cap m0).1 with h | h
    · exact h
    · have := ((C19.new_destroy_ledger cap m0).2.1 h).1; rw [hr] at this; cases this
  have hnew : Rbuf.new cap m0 = (.ok, some r, (Rbuf.new cap m0).2.2) := by
    rw [← hst, ← hr]
  have hinv := (Rbuf.new_ok cap m0 r _ hc hnew).1
  rw [history_nofault ops r _ hinv]
  simp only [Rbuf.destroy, run_keeps_triple]
  simpa [Rbuf.destroy] using hl.2

/-- `cc_rbuf_peek` never reads outside the buffer, for EVERY `int` index (negative, beyond the
capacity): no fault, ledger untouched -/
theorem peek_nofault (r : Rbuf) (i : Int) (m : Mem) (h : r.Inv) : (r.peek i m).2 = m := by
  obtain ⟨_, hl, _⟩ := h
  unfold Rbuf.peek
  split
  · rfl
  · rename_i hn
    have hb : decide (i.toNat < r.buf.length) = true := by
      simp only [decide_eq_true_eq]; omega
    simp [hb]

end CC.Properties.C06Rbuf
