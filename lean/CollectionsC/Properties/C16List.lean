import CollectionsC.Proofs.ListAlloc
import CollectionsC.Properties.C15List
/-! # C16 (lists) — rejected operations are inert, for every argument value

Statements and closing proofs for `cc_list.c` and `cc_slist.c`.

Range table (the documented ranges; `size` is the destination's size):

| operation | accepted | rejected with |
|---|---|---|
| `add_at`, `remove_at`, `replace_at`, `get_at` | `index < size` | `CC_ERR_OUT_OF_RANGE` |
| `cc_list_add_all_at`, `cc_list_splice_at`, **non-empty source** | `index ≤ size` | `CC_ERR_OUT_OF_RANGE` |
| `cc_slist_add_all_at`, `cc_slist_splice_at`, **non-empty source** | `index < size` | `CC_ERR_OUT_OF_RANGE` |
| the four bulk-at operations, **empty source** | every `index` (the C code returns `CC_OK` before the range check: `if (list2->size == 0) return CC_OK;`) | — nothing to insert, nothing changes: `bulk_empty_source_accepts_any_index` |
| `sublist b e` | `b ≤ e < size` | `CC_ERR_INVALID_RANGE` |
| `remove v`, `index_of v` | `v` present | `CC_ERR_VALUE_NOT_FOUND` / `CC_ERR_OUT_OF_RANGE` |
| `remove_first/last`, `get_first/last`, `remove_all` | non-empty | `CC_ERR_VALUE_NOT_FOUND` |
| `filter_mut`, `filter`, `reduce` | non-empty | `CC_ERR_OUT_OF_RANGE` |
| `cc_list_to_array`, `cc_list_sort` | non-empty | `CC_ERR_INVALID_RANGE` |
| iterator `remove`/`replace` (single and zip) | an element yielded and not removed | `CC_ERR_VALUE_NOT_FOUND` |

`CC_ERR_ALLOC` is not a rejection but a failure; its atomicity is `Properties/C08List.lean`.  Documented
contract exclusions (not rejected by the C code, outside every theorem): iterator `add` without a
current element, and `splice` between lists on different allocator triples.

The rejection theorems state the **whole result**: status, list state (nodes, `size`, `head`, `tail`,
triple) and the **whole allocator state** (`m' = m`) are returned exactly as they were — for every index in `Nat` (the models compare
indices as the C code compares `size_t` values; no wrap-around is involved in these guards).

Quantifiers: all list states satisfying the invariant (empty, single, any size), all arguments. -/
namespace CC.Properties.C16List
open CC CC.Chain CC.ListHistory
open CC.Spec
open CC.Spec.LSeq (Op Out Params)

/-! ## error_is_inert -/

/-- a history step that reports a status other than `CC_OK` and `CC_ERR_ALLOC` leaves both lists
physically unchanged and the allocator state exactly as it was, `m' = m` (doubly linked) -/
theorem dlist_error_is_inert (P : Params) (s : Chain × Chain) (op : Op) (m : Mem) (h : PairOk s m)
    (hc : SpliceOk s.1.triple s.2.triple op) (e : Stat)
    (hst : (DList.step P s op m).1.st = some e) (he : e ≠ .ok) (hea : e ≠ .errAlloc) :
    (DList.step P s op m).2.1 = s ∧ (DList.step P s op m).2.2 = m := by
  refine ⟨(C04.step_error_inert h (C04.dlist_step_refines P s op m h hc) e hst he hea).1, ?_⟩
  have hs : s = (ofList s.1.triple s.1.abs, ofList s.2.triple s.2.abs) := by rw [← h.1.eq, ← h.2.1.eq]
  rw [hs] at hst ⊢
  exact DList.step_error_mem P _ _ _ _ op m e hst he hea

/-- the same for the singly linked list -/
theorem slist_error_is_inert (P : Params) (s : Chain × Chain) (op : Op) (m : Mem) (h : PairOk s m)
    (hc : SpliceOk s.1.triple s.2.triple op) (e : Stat)
    (hst : (SList.step P s op m).1.st = some e) (he : e ≠ .ok) (hea : e ≠ .errAlloc) :
    (SList.step P s op m).2.1 = s ∧ (SList.step P s op m).2.2 = m := by
  refine ⟨(C04.step_error_inert h (C04.slist_step_refines P s op m h hc) e hst he hea).1, ?_⟩
  have hs : s = (ofList s.1.triple s.1.abs, ofList s.2.triple s.2.abs) := by rw [← h.1.eq, ← h.2.1.eq]
  rw [hs] at hst ⊢
  exact SList.step_error_mem P _ _ _ _ op m e hst he hea

/-- iterator calls that report `CC_ITER_END` or `CC_ERR_VALUE_NOT_FOUND` return list, cursor and
ledger exactly as they were — in every state, invariant or not -/
theorem iter_error_is_inert (l : Chain) (m : Mem) :
    (∀ it : DList.Iter, it.next = none → DList.iterNext l it m = (.iterEnd, none, it, m) ∧ DList.diterNext l it m = (.iterEnd, none, it, m)) ∧
    (∀ it : DList.Iter, it.last = none →
      DList.iterRemove l it m = (.errValueNotFound, none, l, it, m) ∧ DList.diterRemove l it m = (.errValueNotFound, none, l, it, m) ∧
      ∀ x, DList.iterReplace l it x m = (.errValueNotFound, none, l, m)) ∧
    (∀ it : SList.Iter, it.next = none → SList.iterNext l it m = (.iterEnd, none, it, m)) ∧
    (∀ it : SList.Iter, it.current = none →
      SList.iterRemove l it m = (.errValueNotFound, none, l, it, m) ∧ ∀ x, SList.iterReplace l it x m = (.errValueNotFound, none, l, m)) := by
  refine ⟨?_, ?_, ?_, ?_⟩
  · intro it h; simp [DList.iterNext, DList.diterNext, h]
  · intro it h; simp [DList.iterRemove, DList.diterRemove, DList.iterReplace, h]
  · intro it h; simp [SList.iterNext, h]
  · intro it h; simp [SList.iterRemove, SList.iterReplace, h]

/-- the zip iterators: `next` at the end of either list reports `CC_ITER_END`; `remove`/`replace` with
nothing yielded (or the yielded pair already removed) report `CC_ERR_VALUE_NOT_FOUND`; both lists, the
cursor and the ledger are returned exactly as they were — in every state -/
theorem zip_error_is_inert (l1 l2 : Chain) (m : Mem) :
    (∀ z : DList.ZipIter, z.next1 = none ∨ z.next2 = none → DList.zipNext l1 l2 z m = (.iterEnd, none, z, m)) ∧
    (∀ z : DList.ZipIter, z.last1 = none ∨ z.last2 = none →
      DList.zipRemove l1 l2 z m = (.errValueNotFound, none, l1, l2, z, m) ∧
      ∀ x1 x2, DList.zipReplace l1 l2 z x1 x2 m = (.errValueNotFound, none, l1, l2, m)) ∧
    (∀ z : SList.ZipIter, z.next1 = none ∨ z.next2 = none → SList.zipNext l1 l2 z m = (.iterEnd, none, z, m)) ∧
    (∀ z : SList.ZipIter, z.cur1 = none ∨ z.cur2 = none →
      SList.zipRemove l1 l2 z m = (.errValueNotFound, none, l1, l2, z, m) ∧
      ∀ x1 x2, SList.zipReplace l1 l2 z x1 x2 m = (.errValueNotFound, none, l1, l2, m)) := by
  refine ⟨?_, ?_, ?_, ?_⟩
  · intro z h; rcases h with h | h <;> simp [DList.zipNext, h]
  · intro z h; rcases h with h | h <;> simp [DList.zipRemove, DList.zipReplace, h]
  · intro z h; rcases h with h | h <;> simp [SList.zipNext, h]
  · intro z h; rcases h with h | h <;> simp [SList.zipRemove, SList.zipReplace, h]

/-- … and from related states (`ZipRel`, i.e. reachable through the API) these are exactly the
situations in which the ideal zip cursor has no current pair -/
theorem zip_nothing_yielded_rejected (t t2 : Triple) (xs ys : List Nat) (c : LSeq.Cursor) (m : Mem) (hc : c.cur = none) :
    (∀ z, DList.ZipRel xs ys c z →
      DList.zipRemove (ofList t xs) (ofList t2 ys) z m = (.errValueNotFound, none, ofList t xs, ofList t2 ys, z, m) ∧
      ∀ x1 x2, DList.zipReplace (ofList t xs) (ofList t2 ys) z x1 x2 m = (.errValueNotFound, none, ofList t xs, ofList t2 ys, m)) ∧
    (∀ z, SList.ZipRel xs ys c z →
      SList.zipRemove (ofList t xs) (ofList t2 ys) z m = (.errValueNotFound, none, ofList t xs, ofList t2 ys, z, m) ∧
      ∀ x1 x2, SList.zipReplace (ofList t xs) (ofList t2 ys) z x1 x2 m = (.errValueNotFound, none, ofList t xs, ofList t2 ys, m)) :=
  ⟨fun z h => (zip_error_is_inert _ _ m).2.1 z (Or.inl (by rw [h.lst1, hc])),
   fun z h => (zip_error_is_inert _ _ m).2.2.2 z (Or.inl (by rw [h.cur1, hc]))⟩

/-! ## out_of_range_rejected -/

/-- **indexed single-element operations of `cc_list.c`**: every index `≥ size` is rejected and
nothing at all changes (for `index = size`, `size + 1`, `2^63`, `SIZE_MAX`, … alike) -/
theorem dlist_index_rejected (l : Chain) (h : l.Inv) (x i : Nat) (m : Mem) (hi : l.abs.length ≤ i) :
    DList.addAt l x i m = (.errOutOfRange, l, m) ∧ DList.removeAt l i m = (.errOutOfRange, none, l, m) ∧
    DList.replaceAt l x i m = (.errOutOfRange, none, l, m) ∧ DList.getAt l i m = (.errOutOfRange, none, m) := by
  have hn : ¬ i < l.abs.length := by omega
  rw [h.eq, DList.addAt_ofList, DList.removeAt_ofList, DList.replaceAt_ofList, DList.getAt_ofList]
  simp [LSeq.addAt, LSeq.removeAt, LSeq.replaceAt, LSeq.getAt, hn]

/-- the same for `cc_slist.c` -/
theorem slist_index_rejected (l : Chain) (h : l.Inv) (x i : Nat) (m : Mem) (hi : l.abs.length ≤ i) :
    SList.addAt l x i m = (.errOutOfRange, l, m) ∧ SList.removeAt l i m = (.errOutOfRange, none, l, m) ∧
    SList.replaceAt l x i m = (.errOutOfRange, none, l, m) ∧ SList.getAt l i m = (.errOutOfRange, none, m) := by
  have hn : ¬ i < l.abs.length := by omega
  rw [h.eq, SList.addAt_ofList, SList.removeAt_ofList, SList.replaceAt_ofList, SList.getAt_ofList]
  simp [LSeq.addAt, LSeq.removeAt, LSeq.replaceAt, LSeq.getAt, hn]

/-- **bulk insertions of `cc_list.c`** accept one past the end and reject everything beyond: both
lists and the ledger unchanged, nothing allocated -/
theorem dlist_bulk_index_rejected (l1 l2 : Chain) (h1 : l1.Inv) (h2 : l2.Inv) (i : Nat) (m : Mem)
    (hne : l2.abs ≠ []) (hi : l1.abs.length < i) :
    DList.addAllAt l1 l2 i m = (.errOutOfRange, l1, m) ∧ DList.spliceAt l1 l2 i m = (.errOutOfRange, l1, l2, m) := by
  have hn : ¬ i ≤ l1.abs.length := by omega
  rw [h1.eq, h2.eq, DList.addAllAt_ofList, DList.spliceAt_ofList]
  simp [LSeq.addAllAt, LSeq.spliceAt, hne, hn]

/-- **bulk insertions of `cc_slist.c`** have the range `[0, size)`: `size` itself is rejected too -/
theorem slist_bulk_index_rejected (l1 l2 : Chain) (h1 : l1.Inv) (h2 : l2.Inv) (i : Nat) (m : Mem)
    (hne : l2.abs ≠ []) (hi : l1.abs.length ≤ i) :
    SList.addAllAt l1 l2 i m = (.errOutOfRange, l1, m) ∧ SList.spliceAt l1 l2 i m = (.errOutOfRange, l1, l2, m) := by
  have hn : ¬ i < l1.abs.length := by omega
  rw [h1.eq, h2.eq, SList.addAllAt_ofList, SList.spliceAt_ofList]
  simp [LSeq.addAllAt, LSeq.spliceAt, hne, hn]

/-- **bulk operations with an empty source accept every index**: `add_all_at` / `splice_at` of both
lists return `CC_OK` for *any* `index` — also far outside the destination — when the source is empty
(the C code tests `list2->size == 0` before the range); both lists and the allocator state are
returned exactly as they were.  (This is the behaviour of the C code, mirrored in the range table
above; the documentation does not mention it.) -/
theorem bulk_empty_source_accepts_any_index (l1 l2 : Chain) (h1 : l1.Inv) (h2 : l2.Inv) (i : Nat) (m : Mem) (he : l2.abs = []) :
    DList.addAllAt l1 l2 i m = (.ok, l1, m) ∧ DList.spliceAt l1 l2 i m = (.ok, l1, l2, m) ∧
    SList.addAllAt l1 l2 i m = (.ok, l1, m) ∧ SList.spliceAt l1 l2 i m = (.ok, l1, l2, m) := by
  rw [h1.eq, h2.eq, DList.addAllAt_ofList, DList.spliceAt_ofList, SList.addAllAt_ofList, SList.spliceAt_ofList]
  simp [LSeq.addAllAt, LSeq.spliceAt, he]

/-- **`sublist`**: every range with `b > e` or `e ≥ size` is rejected, nothing allocated, no object -/
theorem sublist_range_rejected (l : Chain) (h : l.Inv) (b e : Nat) (m : Mem) (hr : b > e ∨ e ≥ l.abs.length) :
    DList.sublist l b e m = (.errInvalidRange, none, m) ∧ SList.sublist l b e m = (.errInvalidRange, none, m) := by
  rw [C15List.dlist_sublist_correct l h, C15List.slist_sublist_correct l h]
  simp [hr]

/-! ## absent values, empty lists -/

/-- an absent value: `remove` reports not-found, `index_of` out-of-range, `contains` 0; nothing changes -/
theorem absent_value_rejected (cmp : Nat → Nat → Int) (l : Chain) (h : l.Inv) (x : Nat) (m : Mem) (hx : x ∉ l.abs) :
    DList.remove l x m = (.errValueNotFound, none, l, m) ∧ SList.remove l x m = (.errValueNotFound, none, l, m) ∧
    DList.contains l x m = (0, m) ∧ SList.contains l x m = (0, m) ∧ SList.indexOf l x m = (.errOutOfRange, none, m) ∧
    ((∀ y, y ∈ l.abs → cmp y x ≠ 0) → DList.indexOf cmp l x m = (.errOutOfRange, none, m)) := by
  rw [h.eq, DList.remove_ofList, SList.remove_ofList, DList.contains_ofList, SList.contains_ofList, SList.indexOf_ofList,
    DList.indexOf_ofList]
  have hc : ∀ y, y ∈ l.abs → LSeq.cmpNum y x ≠ 0 := by
    intro y hy; unfold LSeq.cmpNum
    have : y ≠ x := fun e => hx (e ▸ hy)
    by_cases h1 : y < x <;> by_cases h2 : x < y <;> simp [h1, h2] <;> omega
  have hidx : ∀ c : Nat → Nat → Int, (∀ y, y ∈ l.abs → c y x ≠ 0) → LSeq.indexOf c l.abs x = (.errOutOfRange, none) := by
    intro c hcc
    have : l.abs.findIdx? (fun y => c y x == 0) = none := by
      rw [List.findIdx?_eq_none_iff]; intro y hy; simpa using hcc y hy
    simp [LSeq.indexOf, this]
  have hcnt : LSeq.contains l.abs x = 0 := by simp only [LSeq.contains]; exact List.count_eq_zero_of_not_mem hx
  refine ⟨by simp [LSeq.remove, hx], by simp [LSeq.remove, hx], by rw [hcnt], by rw [hcnt],
    by rw [hidx _ hc], fun hcc => by rw [hidx cmp hcc]⟩

/-- an empty list: removals and accessors report their documented error, the filters and `reduce`
report out-of-range, `cc_list_to_array`/`cc_list_sort` invalid-range; nothing changes, nothing is allocated -/
theorem empty_list_rejected (p : Nat → Bool) (f : Nat → Nat → Nat) (sortFn : List Nat → List Nat) (t : Triple) (m : Mem) :
    DList.removeFirst (ofList t []) m = (.errValueNotFound, none, ofList t [], m) ∧
    DList.removeLast (ofList t []) m = (.errValueNotFound, none, ofList t [], m) ∧
    DList.removeAll (ofList t []) m = (.errValueNotFound, [], ofList t [], m) ∧
    DList.getFirst (ofList t []) m = (.errValueNotFound, none, m) ∧ DList.getLast (ofList t []) m = (.errValueNotFound, none, m) ∧
    DList.filterMut p (ofList t []) m = (.errOutOfRange, ofList t [], m) ∧ DList.filter p (ofList t []) m = (.errOutOfRange, none, m) ∧
    DList.reduce f (ofList t []) m = (.errOutOfRange, none, [], m) ∧
    DList.toArray (ofList t []) m = (.errInvalidRange, none, m) ∧ DList.sort sortFn (ofList t []) m = (.errInvalidRange, ofList t [], m) ∧
    SList.removeFirst (ofList t []) m = (.errValueNotFound, none, ofList t [], m) ∧
    SList.removeLast (ofList t []) m = (.errValueNotFound, none, ofList t [], m) ∧
    SList.removeAll (ofList t []) m = (.errValueNotFound, [], ofList t [], m) ∧
    SList.getFirst (ofList t []) m = (.errValueNotFound, none, m) ∧ SList.getLast (ofList t []) m = (.errValueNotFound, none, m) ∧
    SList.filterMut p (ofList t []) m = (.errOutOfRange, ofList t [], m) ∧ SList.filter p (ofList t []) m = (.errOutOfRange, none, m) := by
  simp [DList.removeFirst_ofList, DList.removeLast_ofList, DList.removeAll_ofList, DList.getFirst_ofList, DList.getLast_ofList,
    DList.filterMut_ofList, DList.filter_ofList, DList.reduce_ofList, DList.toArray_ofList,
    SList.removeFirst_ofList, SList.removeLast_ofList, SList.removeAll_ofList, SList.getFirst_ofList, SList.getLast_ofList,
    SList.filterMut_ofList, SList.filter_ofList, LSeq.removeFirst, LSeq.removeLast, LSeq.removeAll, LSeq.getFirst, LSeq.getLast,
    LSeq.filterMut, LSeq.filter, LSeq.reduce, LSeq.toArray, Mem.freeN, DList.sort]

/-- the unique empty state (per triple) satisfying the invariant is `ofList t []`, so the theorem above speaks
about every reachable empty list -/
theorem empty_state_unique (l : Chain) (h : l.Inv) (he : l.abs = []) : l = ofList l.triple [] := by
  have := h.eq; rw [he] at this; exact this

/-! ## Non-vacuity -/
example : DList.addAllAt (ofList .conf [1, 2]) (ofList .libc []) 99 {} = (.ok, ofList .conf [1, 2], {}) ∧
    SList.spliceAt (ofList .conf [1, 2]) (ofList .conf []) 99 {} = (.ok, ofList .conf [1, 2], ofList .conf [], {}) ∧
    DList.addAllAt (ofList .conf [1, 2]) (ofList .libc [5]) 3 {} = (.errOutOfRange, ofList .conf [1, 2], {}) := by decide

end CC.Properties.C16List
