import CollectionsC.Proofs.TST
import CollectionsC.Proofs.TSTIter
import CollectionsC.Proofs.TSTCross
/-! # C11 — CC_TSTTable is an exact string-keyed map

Statements and closing proofs (helpers: `Proofs/TST.lean`, `Proofs/TSTIter.lean`).  The concrete model
`CC.TST.Table` (`Model/TST.lean`) mirrors `src/cc_tsttable.c`: the trie nodes, `get_last_node`,
`make_mid_subtree`, `remove_eow_node`, `remove_all`, and the iterator as the C pointer automaton over
node paths.  The abstract spec `CC.Spec.StrMap` is an association list with distinct keys.

Quantifiers: every comparator satisfying `CmpLaw` (`char_cmp a b = 0 ↔ a = b`; the library default,
signed `char` subtraction, satisfies it: `cmpSigned_law`), every key set (prefixes, extensions, any
byte values), every value, every finite history, every allocator schedule.

**Known finding X5.** The empty string is not a key the trie can represent: `get_last_node` with
`key_len = 0` addresses the root node.  All refinement theorems therefore carry `k ≠ []`
(`…_partial`); `empty_key_aliases_root` is the negation witness.

**Pointer level.** `Properties/C11PTST.lean` carries these theorems down to the heap of nodes with raw
`parent / left / mid / right` links (`Model/PTST.lean`, histories in `Model/PTSTHistory.lean`):
`C11PTST.phistory_refines` (every history, key and refusal schedule: the pointer-level run returns what `Table.run`
returns and ends in the heap that abstracts to its state; every reachable heap is well-formed) and
`C11PTST.new_phistory_refines_partial` (composed with `new_history_refines_partial` below: the ideal map's results
from `new`, X5 excluded explicitly, exact ledger), `C11PTST.piter_program_refines` for iterator programs. -/
namespace CC.Properties.C11
open CC CC.TST
open CC.Spec (StrMap)
open CC.Spec.StrMap (Op Out IOp IOut Cursor Oracle)

variable {cmp : Cmp}

/-- closes goals that `simp only` may or may not have reduced to `True` already -/
local macro "triv" : tactic => `(tactic| first | rfl | trivial | simp)

/-- the spec state describes the table: same lookups (hence the same pairs up to order) -/
def Rel (t : Table) (s : StrMap) : Prop := s.WF ∧ ∀ k, s.get k = t.abs.get k

/-- outputs agree; enumerations agree up to order; the calls of an iterator session return the same
results and every key the session yielded was legal for the ideal cursor -/
def OutRel (a b : Out) : Prop :=
  a.st = b.st ∧ a.val = b.val ∧ a.enum.Perm b.enum ∧ a.iter = b.iter ∧ a.legal = b.legal

/-- pointwise `OutRel` on output lists of equal length -/
def OutsRel : List Out → List Out → Prop
  | [], [] => True
  | a :: as, b :: bs => OutRel a b ∧ OutsRel as bs
  | _, _ => False

/-- what the spec is told about a call: "refused" exactly when the implementation reported
`CC_ERR_ALLOC` (pinned down by `add_refused_iff`: exactly when an allocator request was refused), and the
keys an iterator session yielded (each validated by the cursor: `legal`) -/
def oracleOf (o : Out) : Oracle := { refused := o.st == some .errAlloc, choices := o.iter.map (·.key) }

theorem rel_abs (hc : CmpLaw cmp) (t : Table) (hg : t.Good cmp) : Rel t t.abs :=
  ⟨abs_wf hc t hg.1.2.2 hg.2, fun _ => rfl⟩

theorem rel_perm (hc : CmpLaw cmp) (t : Table) (s : StrMap) (hg : t.Good cmp) (hr : Rel t s) :
    s.items.Perm t.abs.items :=
  SpecLemmas.perm_of_get_eq s t.abs hr.1 (abs_wf hc t hg.1.2.2 hg.2) hr.2

/-! ## per-operation theorems

`Mem.liveT t.triple` is the live-block counter of the allocator triple the table was built with
(`live` for `cc_tsttable_new_conf`, `liveLibc` for `cc_tsttable_new`). -/

/-- **add refines add-or-replace, is atomic under refusal, keeps the ledger, never faults.** -/
theorem add_refines_partial (hc : CmpLaw cmp) (t : Table) (k : Key) (v : Nat) (mem : Mem)
    (hk : k ≠ []) (hg : t.Good cmp) :
    ((t.add cmp k v mem).1 = .ok ∨ (t.add cmp k v mem).1 = .errAlloc) ∧
    ((t.add cmp k v mem).1 = .ok →
        (t.add cmp k v mem).2.1.Good cmp ∧
        (∀ k', (t.add cmp k v mem).2.1.abs.get k' = (t.abs.add k v).get k') ∧
        (t.add cmp k v mem).2.2.liveT t.triple + t.root.owned =
          mem.liveT t.triple + (t.add cmp k v mem).2.1.root.owned) ∧
    (t.add cmp k v mem).2.2.fault = mem.fault := by
  have h := Table.add_spec hc t k v mem hk hg
  refine ⟨?_, h.1, h.2.2⟩
  by_cases h1 : (t.add cmp k v mem).1 = .ok
  · exact Or.inl h1
  · exact Or.inr (h.2.1 h1).1

/-- **C08 (TST part): a refused node or entry allocation leaves the whole table unchanged** — not only
its abstraction: the partial `mid` chain is freed again (`live` is back to its old value). -/
theorem add_atomic (t : Table) (k : Key) (v : Nat) (mem : Mem) (h : (t.add cmp k v mem).1 ≠ .ok) :
    (t.add cmp k v mem).1 = .errAlloc ∧ (t.add cmp k v mem).2.1 = t ∧
    (t.add cmp k v mem).2.2.liveT t.triple = mem.liveT t.triple := by
  have := Table.add_atomic_any (cmp := cmp) t k v mem h
  exact ⟨this.1, this.2.1, this.2.2.1⟩

/-- a refusal is never swallowed: `add` reports `CC_ERR_ALLOC` exactly when one of its allocator
requests was refused (and then exactly one was) -/
theorem add_refused_iff (t : Table) (k : Key) (v : Nat) (mem : Mem) :
    ((t.add cmp k v mem).1 = .ok ↔ (t.add cmp k v mem).2.2.nrefused = mem.nrefused) ∧
    ((t.add cmp k v mem).1 ≠ .ok ↔ (t.add cmp k v mem).2.2.nrefused = mem.nrefused + 1) := by
  have h := Table.add_refused (cmp := cmp) t k v mem
  by_cases hok : (t.add cmp k v mem).1 = .ok
  · have := h.1 hok
    exact ⟨⟨fun _ => this, fun _ => hok⟩, ⟨fun h' => absurd hok h', fun h' => by omega⟩⟩
  · have := h.2 hok
    exact ⟨⟨fun h' => absurd h' hok, fun h' => by omega⟩, ⟨fun _ => this, fun _ => hok⟩⟩

/-- without a refusal `add` succeeds -/
theorem add_unrefused (t : Table) (k : Key) (v : Nat) (mem : Mem) (h : mem.sched = []) :
    (t.add cmp k v mem).1 = .ok := Table.add_unrefused t k v mem h

/-- **lookup after insert** in the vocabulary of the property: for non-empty keys
`get (add t k v) k' = if k' = k then v else get t k'` -/
theorem get_add_partial (hc : CmpLaw cmp) (t : Table) (k k' : Key) (v : Nat) (mem : Mem)
    (hk : k ≠ []) (hk' : k' ≠ []) (hg : t.Good cmp) (hok : (t.add cmp k v mem).1 = .ok) :
    (t.add cmp k v mem).2.1.get cmp k' = if k' = k then (.ok, some v) else t.get cmp k' := by
  have h := (Table.add_spec hc t k v mem hk hg).1 hok
  rw [Table.get_spec hc _ k' hk' h.1, h.2.1 k', SpecLemmas.get_add]
  by_cases hkk : k' = k
  · simp [hkk]
  · simp only [hkk, if_false]; rw [Table.get_spec hc t k' hk' hg]

theorem get_refines_partial (hc : CmpLaw cmp) (t : Table) (k : Key) (hk : k ≠ []) (hg : t.Good cmp) :
    t.get cmp k = match t.abs.get k with
      | some v => (.ok, some v)
      | none => (.errKeyNotFound, none) := Table.get_spec hc t k hk hg

theorem contains_refines_partial (hc : CmpLaw cmp) (t : Table) (k : Key) (hk : k ≠ []) (hg : t.Good cmp) :
    t.containsKey cmp k = t.abs.contains k := Table.containsKey_spec hc t k hk hg

/-- **remove refines remove**: a present key is removed with its value, its entry block and every
pruned node are released (C06), nothing else changes (`get_remove_partial`). -/
theorem remove_refines_partial (hc : CmpLaw cmp) (t : Table) (k : Key) (mem : Mem) (v : Nat)
    (hk : k ≠ []) (hg : t.Good cmp) (hl : t.Owns mem) (hp : t.abs.get k = some v) :
    (t.remove cmp k mem).1 = .ok ∧ (t.remove cmp k mem).2.1 = some v ∧
    (t.remove cmp k mem).2.2.1.Good cmp ∧
    (∀ k', (t.remove cmp k mem).2.2.1.abs.get k' = (t.abs.remove k).get k') ∧
    (t.remove cmp k mem).2.2.2.liveT t.triple + t.root.owned =
      mem.liveT t.triple + (t.remove cmp k mem).2.2.1.root.owned ∧
    (t.remove cmp k mem).2.2.1.root.owned < t.root.owned ∧
    (t.remove cmp k mem).2.2.2.fault = mem.fault := by
  have h := Table.remove_spec hc t k mem hk hg hl
  rw [hp] at h
  exact h

/-- **C16 (TST part): removing or getting an absent key reports `CC_ERR_KEY_NOT_FOUND` and changes
nothing** — the whole physical state and the ledger are untouched (no ledger hypothesis is needed:
the rejected path never calls `mem_free`). -/
theorem remove_absent_inert_partial (hc : CmpLaw cmp) (t : Table) (k : Key) (mem : Mem)
    (hk : k ≠ []) (hg : t.Good cmp) (hp : t.abs.get k = none) :
    t.remove cmp k mem = (.errKeyNotFound, none, t, mem) ∧ t.get cmp k = (.errKeyNotFound, none) ∧
    t.containsKey cmp k = false := by
  refine ⟨Table.remove_absent hc t k mem hk hg hp, ?_, ?_⟩
  · rw [Table.get_spec hc t k hk hg, hp]
  · rw [Table.containsKey_spec hc t k hk hg]; simp [StrMap.contains, hp]

/-- **removing a key never affects another key** (pruning never detaches another key's path) -/
theorem get_remove_partial (hc : CmpLaw cmp) (t : Table) (k k' : Key) (mem : Mem)
    (hk : k ≠ []) (hk' : k' ≠ []) (hg : t.Good cmp) (hl : t.Owns mem)
    (hok : (t.remove cmp k mem).1 = .ok) :
    (t.remove cmp k mem).2.2.1.get cmp k' = if k' = k then (.errKeyNotFound, none) else t.get cmp k' := by
  have h := Table.remove_spec hc t k mem hk hg hl
  cases hp : t.abs.get k with
  | none => rw [hp] at h; rw [h] at hok; cases hok
  | some v =>
    rw [hp] at h
    rw [Table.get_spec hc _ k' hk' h.2.2.1, h.2.2.2.1 k', SpecLemmas.get_remove]
    by_cases hkk : k' = k
    · simp [hkk]
    · simp only [hkk, if_false]; rw [Table.get_spec hc t k' hk' hg]

/-- `remove_all` empties the table and releases every node and entry block (C06) -/
theorem removeAll_refines (t : Table) (mem : Mem) (hg : t.Good cmp) (hl : t.Owns mem) :
    (t.removeAll mem).1 = { t with size := 0, root := .nil } ∧ (t.removeAll mem).1.Good cmp ∧
    (t.removeAll mem).1.abs = StrMap.empty ∧
    (t.removeAll mem).2.liveT t.triple + t.root.owned = mem.liveT t.triple ∧
    (t.removeAll mem).2.fault = mem.fault := by
  have h := Table.removeAll_spec t mem hg.1.1 hl
  refine ⟨h.1, by rw [h.1]; exact Table.good_empty _, by rw [h.1]; rfl, ?_, h.2.2⟩
  rw [h.2.1]; unfold Table.Owns at hl; omega

/-- **size = number of distinct keys present** -/
theorem size_eq_distinct_keys (hc : CmpLaw cmp) (t : Table) (hg : t.Good cmp) :
    t.size = t.abs.keys.length ∧ t.abs.keys.Nodup := by
  refine ⟨?_, abs_wf hc t hg.1.2.2 hg.2⟩
  rw [← abs_size t hg.1.1]; simp [StrMap.size, StrMap.keys]

/-- **enumeration yields each present key exactly once**: a complete iterator pass (`foreach_key`,
`foreach_value`, `CC_TSTTABLE_FOREACH`) run by the C pointer automaton yields exactly the stored
pairs, with pairwise distinct keys, and a pair is yielded iff `get` finds it; no fault. -/
theorem enumeration_exact_partial (hc : CmpLaw cmp) (t : Table) (mem : Mem) (hg : t.Good cmp) :
    (iterAll t mem).1 = t.abs.items ∧ (iterAll t mem).2 = mem ∧
    ((iterAll t mem).1.map (·.1)).Nodup ∧
    ∀ k v, (k, v) ∈ (iterAll t mem).1 ↔ (k ≠ [] ∧ t.get cmp k = (.ok, some v)) := by
  rw [iterAll_eq]
  refine ⟨rfl, rfl, abs_wf hc t hg.1.2.2 hg.2, ?_⟩
  intro k v
  have h1 := SpecLemmas.mem_iff_get t.abs (abs_wf hc t hg.1.2.2 hg.2) k v
  simp only [Table.abs] at h1
  rw [h1]
  have h2 := abs_get hc t hg.1.2.2 hg.2 k
  simp only [Table.abs] at h2
  rw [h2]
  by_cases hk : k = []
  · simp [hk]
  · simp only [hk, if_false, ne_eq, not_false_eq_true, true_and, Table.get]
    cases t.root.lookup cmp k <;> simp

/-! ## iterator sessions (C07, TST part) -/

/-- the key that `iter_remove` would remove now (none before the first yield, after the end, and — since
the repair X7 — directly after an `iter_remove`) -/
def lastKey (t : Table) (it : Iter) : Option Key :=
  it.lastYield.bind fun p => (t.root.sub p).data?.map (·.1)

/-- simulation relation between the C iterator (pointer automaton state `it`) and the ideal cursor:
`todo` is what the implementation is still going to yield, in its order; the cursor holds the same
keys (in whatever order) -/
def IterRel (t : Table) (it : Iter) (cu : Cursor) (todo : List (Path × Entry)) : Prop :=
  IterOk t.root it todo ∧ it.curMarked t.root ∧ cu.todo.Perm (todo.map (·.2.1)) ∧ cu.last = lastKey t it

theorem entry_get (hc : CmpLaw cmp) (t : Table) (s : StrMap) (hg : t.Good cmp) (hr : Rel t s)
    (p : Path) (e : Entry) (hd : (t.root.sub p).data? = some e) : s.get e.1 = some e.2 := by
  rw [hr.2, ← SpecLemmas.mem_iff_get _ (abs_wf hc t hg.1.2.2 hg.2)]
  have := mem_entriesP_of_data t.root p e hd
  have h2 : e ∈ t.root.entriesP.map (·.2) := List.mem_map.mpr ⟨(p, e), this, rfl⟩
  rw [entriesP_map_snd] at h2
  exact h2

theorem todo_keys_nodup (hc : CmpLaw cmp) (t : Table) (hg : t.Good cmp) (pre todo : List (Path × Entry))
    (h : t.root.entriesP = pre ++ todo) : (todo.map (·.2.1)).Nodup := by
  have hw := abs_wf hc t hg.1.2.2 hg.2
  unfold StrMap.WF StrMap.keys Table.abs at hw
  rw [← entriesP_map_snd, h] at hw
  simp only [List.map_append, List.map_map] at hw
  exact (List.nodup_append.mp hw).2.1

/-- the iterator of a freshly initialised session is related to the fresh cursor of any spec state
that describes the table -/
theorem iterInit_rel (hc : CmpLaw cmp) (t : Table) (s : StrMap) (hg : t.Good cmp) (hr : Rel t s) :
    IterRel t (iterInit t) (StrMap.cursorNew s) t.root.entriesP := by
  refine ⟨Or.inl ⟨rfl, iterInit_at t⟩, iterInit_curMarked t, ?_, rfl⟩
  have := (rel_perm hc t s hg hr).map (·.1)
  simp only [StrMap.cursorNew, StrMap.keys, Table.abs, ← entriesP_map_snd, List.map_map] at this ⊢
  exact this

/-- the functional part of `iter_step_refines_partial` -/
theorem iter_step_core_partial (hc : CmpLaw cmp) (t : Table) (s : StrMap) (it : Iter) (cu : Cursor)
    (todo : List (Path × Entry)) (op : IOp) (mem : Mem) (hk : [] ∉ op.keys)
    (hg : t.Good cmp) (hl : t.Owns mem) (hr : Rel t s) (hi : IterRel t it cu todo) :
    (t.iterOp cmp it op mem).1 = (s.cursorStep cu (t.iterOp cmp it op mem).1.key op).1 ∧
    (s.cursorStep cu (t.iterOp cmp it op mem).1.key op).2.1 = true ∧
    Rel (t.iterOp cmp it op mem).2.1 (s.cursorStep cu (t.iterOp cmp it op mem).1.key op).2.2.1 ∧
    (t.iterOp cmp it op mem).2.1.Good cmp ∧
    ∃ todo', IterRel (t.iterOp cmp it op mem).2.1 (t.iterOp cmp it op mem).2.2.1
      (s.cursorStep cu (t.iterOp cmp it op mem).1.key op).2.2.2 todo' ∧
      (op = .next → todo' = todo.tail) ∧ (op ≠ .next → todo' = todo) := by
  obtain ⟨hok, hcm, hct, hcl⟩ := hi
  cases op with
  | next =>
    obtain ⟨n1, n2, n3⟩ := iterNext_ok t it mem todo hok
    obtain ⟨pre, hpre⟩ := hok.suffix hcm
    have hnd := todo_keys_nodup hc t hg pre todo hpre
    cases todo with
    | nil =>
      obtain ⟨n3, n4, n5, n6⟩ := n3
      have hcu : cu.todo = [] := List.Perm.eq_nil hct
      simp only [Table.iterOp, StrMap.cursorStep, SpecLemmas.cursorNext_end s cu _ hcu, n3, n4, Option.map_none]
      refine ⟨by triv, by triv, hr, hg, [], ⟨n5, ?_, by triv, ?_⟩, fun _ => rfl, fun h => absurd rfl h⟩
      · intro p hp; rw [n6] at hp; cases hp
      · simp [lastKey, Iter.lastYield, n2, n6]
    | cons x tl =>
      obtain ⟨n3, n4, n5, n6⟩ := n3
      have hd := hok.head_data mem
      have hget := entry_get hc t s hg hr x.1 x.2 hd
      simp only [List.map_cons] at hct hnd
      have hmem : x.2.1 ∈ cu.todo := hct.mem_iff.mpr (by simp)
      have hfil : (cu.todo.filter (· != x.2.1)).Perm (tl.map (·.2.1)) := by
        have h1 := hct.filter (· != x.2.1)
        have h2 : (x.2.1 :: tl.map (·.2.1)).filter (· != x.2.1) = tl.map (·.2.1) := by
          simp only [List.filter_cons, bne_self_eq_false, Bool.false_eq_true, if_false]
          apply List.filter_eq_self.mpr
          intro a ha
          have := (List.nodup_cons.mp hnd).1
          simp only [bne_iff_ne, ne_eq]
          intro h; subst h; exact this ha
        rwa [h2] at h1
      simp only [Table.iterOp, StrMap.cursorStep, n3, n4, Option.map_some,
        SpecLemmas.cursorNext_yield s cu x.2.1 x.2.2 hmem hget]
      refine ⟨by triv, by triv, hr, hg, tl, ⟨n5, ?_, hfil, ?_⟩, fun _ => rfl, fun h => absurd rfl h⟩
      · intro p hp; rw [n6] at hp; simp at hp; subst hp; exact ⟨x.2, hd⟩
      · simp [lastKey, Iter.lastYield, n2, n6, hd]
  | remove w =>
    by_cases hin : it.cur = none ∨ it.adv = true
    · have hl0 : cu.last = none := by
        rw [hcl]; rcases hin with h | h <;> simp [lastKey, Iter.lastYield, h]
      simp only [Table.iterOp, iterRemove_inert t it w mem hin, StrMap.cursorStep, StrMap.cursorRemove, hl0]
      exact ⟨by triv, by triv, hr, hg, todo, ⟨hok, hcm, hct, hcl⟩, (fun h => by cases h), fun _ => rfl⟩
    · have hadv : it.adv = false := by
        cases h : it.adv with
        | false => rfl
        | true => exact absurd (Or.inr h) hin
      have hat : IterAt t.root it todo := by
        rcases hok with ⟨_, h⟩ | ⟨h, _⟩
        · exact h
        · rw [hadv] at h; cases h
      cases hcur : it.cur with
      | none => exact absurd (Or.inl hcur) hin
      | some p =>
        obtain ⟨e, hd⟩ := hcm p hcur
        have hl0 : cu.last = some e.1 := by rw [hcl]; simp [lastKey, Iter.lastYield, hadv, hcur, hd]
        have hget := entry_get hc t s hg hr p e hd
        obtain ⟨r1, r2, r3, r4, r5, r6, r7, r8, r9, _⟩ :=
          Table.iterRemove_spec hc t it w mem todo p e hg hl hat hadv hcur hd
        simp only [Table.iterOp, StrMap.cursorStep, StrMap.cursorRemove, hl0, hget, r1, r2]
        refine ⟨by triv, by triv, ⟨SpecLemmas.wf_remove s e.1 hr.1, ?_⟩, r3, todo, ⟨r8, ?_, hct, ?_⟩,
          (fun h => by cases h), fun _ => rfl⟩
        · intro k; rw [r4 k, SpecLemmas.get_remove, SpecLemmas.get_remove, hr.2 k]
        · intro q hq
          rcases r8 with ⟨h, _⟩ | ⟨_, h⟩
          · rw [r9] at h; cases h
          · cases todo with
            | nil => rw [h.2.1] at hq; cases hq
            | cons x tl => rw [h.2.2.1] at hq; simp at hq; subst hq; exact ⟨x.2, h.2.1⟩
        · simp [lastKey, Iter.lastYield, r9]
  | get k =>
    have hk' : k ≠ [] := by intro h; subst h; exact hk (by simp [IOp.keys])
    simp only [Table.iterOp, StrMap.cursorStep, Table.get_spec hc t k hk' hg, ← hr.2 k]
    cases s.get k <;>
      exact ⟨by triv, by triv, hr, hg, todo, ⟨hok, hcm, hct, hcl⟩, (fun h => by cases h), fun _ => rfl⟩
  | contains k =>
    have hk' : k ≠ [] := by intro h; subst h; exact hk (by simp [IOp.keys])
    simp only [Table.iterOp, StrMap.cursorStep, Table.containsKey_spec hc t k hk' hg, StrMap.contains, ← hr.2 k]
    exact ⟨by triv, by triv, hr, hg, todo, ⟨hok, hcm, hct, hcl⟩, (fun h => by cases h), fun _ => rfl⟩
  | size =>
    have hsz : t.size = s.size := by
      rw [← abs_size t hg.1.1]; simp only [StrMap.size, (rel_perm hc t s hg hr).length_eq]
    simp only [Table.iterOp, StrMap.cursorStep, hsz]
    exact ⟨by triv, by triv, hr, hg, todo, ⟨hok, hcm, hct, hcl⟩, (fun h => by cases h), fun _ => rfl⟩

/-- **One call of an iterator session refines the ideal cursor** (non-empty keys): same status and
value, the yielded key is one the cursor had not yielded yet, `remove` deletes exactly the key yielded
last (a repeated `remove`, or one with nothing yielded, is rejected and inert), the iteration
continues over exactly the keys not yet yielded, `get/contains/size` between the calls see the current
map; the structural invariant, the **exact** ledger equation and `fault` are kept (`StructOK`). -/
theorem iter_step_refines_partial (hc : CmpLaw cmp) (t : Table) (s : StrMap) (it : Iter) (cu : Cursor)
    (todo : List (Path × Entry)) (op : IOp) (mem : Mem) (hk : [] ∉ op.keys)
    (hg : t.Good cmp) (hl : t.Owns mem) (hr : Rel t s) (hi : IterRel t it cu todo) :
    (t.iterOp cmp it op mem).1 = (s.cursorStep cu (t.iterOp cmp it op mem).1.key op).1 ∧
    (s.cursorStep cu (t.iterOp cmp it op mem).1.key op).2.1 = true ∧
    Rel (t.iterOp cmp it op mem).2.1 (s.cursorStep cu (t.iterOp cmp it op mem).1.key op).2.2.1 ∧
    (t.iterOp cmp it op mem).2.1.Good cmp ∧
    StructOK cmp t mem (t.iterOp cmp it op mem).2.1 (t.iterOp cmp it op mem).2.2.2 ∧
    ∃ todo', IterRel (t.iterOp cmp it op mem).2.1 (t.iterOp cmp it op mem).2.2.1
      (s.cursorStep cu (t.iterOp cmp it op mem).1.key op).2.2.2 todo' ∧
      (op = .next → todo' = todo.tail) ∧ (op ≠ .next → todo' = todo) := by
  have hst := (Table.iterOp_struct (cmp := cmp) t it op mem todo hg.1 hl hi.1 hi.2.1).1
  obtain ⟨h1, h2, h3, h4, h5⟩ := iter_step_core_partial hc t s it cu todo op mem hk hg hl hr hi
  exact ⟨h1, h2, h3, h4, hst, h5⟩

/-- the keys the implementation yielded, paired with the calls: the resolution of the cursor's
nondeterminism, validated by the cursor (`legal` flag) -/
def iterChoices (cmp : Cmp) (t : Table) (it : Iter) (ops : List IOp) (mem : Mem) : List (Option Key × IOp) :=
  ((t.iterRun cmp it ops mem).1.map (·.key)).zip ops

/-- **C07 (TST part), all iterator sessions.** From any related state, *every* sequence of `iter_next` /
`iter_remove` / `get` / `contains_key` / `size` calls (repeated `iter_remove`s included: they are
rejected, X7) returns exactly the statuses and values of the ideal cursor; every yielded key is one
the cursor had not yielded before (so each present key is yielded at most once, and `CC_ITER_END`
comes exactly when none is left); the final table is the ideal map; invariant, exact ledger equation
and `fault` are kept. -/
theorem iter_program_refines_partial (hc : CmpLaw cmp) (ops : List IOp) (hk : ∀ op ∈ ops, [] ∉ op.keys)
    (t : Table) (s : StrMap) (it : Iter) (cu : Cursor) (todo : List (Path × Entry)) (mem : Mem)
    (hg : t.Good cmp) (hl : t.Owns mem) (hr : Rel t s) (hi : IterRel t it cu todo) :
    (t.iterRun cmp it ops mem).1 = (s.cursorRun cu (iterChoices cmp t it ops mem)).1.map (·.1) ∧
    (∀ x ∈ (s.cursorRun cu (iterChoices cmp t it ops mem)).1, x.2 = true) ∧
    Rel (t.iterRun cmp it ops mem).2.1 (s.cursorRun cu (iterChoices cmp t it ops mem)).2.1 ∧
    (t.iterRun cmp it ops mem).2.1.Good cmp ∧
    StructOK cmp t mem (t.iterRun cmp it ops mem).2.1 (t.iterRun cmp it ops mem).2.2.2 := by
  induction ops generalizing t s it cu todo mem with
  | nil => exact ⟨rfl, by simp [iterChoices, StrMap.cursorRun], hr, hg, StructOK.refl t mem hg.1⟩
  | cons op ops ih =>
    obtain ⟨h1, h2, h3, h4, h5, todo', h8, _, _⟩ :=
      iter_step_refines_partial hc t s it cu todo op mem (hk op (List.mem_cons_self ..)) hg hl hr hi
    have ih' := ih (fun o ho => hk o (List.mem_cons_of_mem _ ho)) _ _ _ _ todo' _ h4 (h5.owns hl) h3 h8
    simp only [iterChoices, Table.iterRun, List.map_cons, List.zip_cons_cons, StrMap.cursorRun] at ih' ⊢
    refine ⟨List.cons_eq_cons.mpr ⟨h1, ih'.1⟩, ?_, ih'.2.2.1, ih'.2.2.2.1, h5.trans ih'.2.2.2.2⟩
    intro x hx
    rcases List.mem_cons.mp hx with hx | hx
    · rw [hx]; exact h2
    · exact ih'.2.1 x hx

/-- **C07 from `iter_init`**: every iterator session on a table in a good state, against any spec
state describing it. -/
theorem iter_init_program_refines_partial (hc : CmpLaw cmp) (ops : List IOp) (hk : ∀ op ∈ ops, [] ∉ op.keys)
    (t : Table) (s : StrMap) (mem : Mem) (hg : t.Good cmp) (hl : t.Owns mem) (hr : Rel t s) :
    (t.iterRun cmp (iterInit t) ops mem).1 =
      (s.cursorRun (StrMap.cursorNew s) (iterChoices cmp t (iterInit t) ops mem)).1.map (·.1) ∧
    (∀ x ∈ (s.cursorRun (StrMap.cursorNew s) (iterChoices cmp t (iterInit t) ops mem)).1, x.2 = true) ∧
    Rel (t.iterRun cmp (iterInit t) ops mem).2.1
      (s.cursorRun (StrMap.cursorNew s) (iterChoices cmp t (iterInit t) ops mem)).2.1 ∧
    (t.iterRun cmp (iterInit t) ops mem).2.1.Good cmp ∧
    StructOK cmp t mem (t.iterRun cmp (iterInit t) ops mem).2.1 (t.iterRun cmp (iterInit t) ops mem).2.2.2 :=
  iter_program_refines_partial hc ops hk t s (iterInit t) (StrMap.cursorNew s) t.root.entriesP mem
    hg hl hr (iterInit_rel hc t s hg hr)

/-- X7 (repaired): a second `iter_remove` for the same yielded entry is rejected and changes nothing;
before the repair it removed the next, not yet yielded, key -/
theorem repeated_iter_remove_rejected (t : Table) (it : Iter) (w : Bool) (mem : Mem) (h : it.adv = true) :
    iterRemove t it w mem = (.errKeyNotFound, none, t, it, mem) := iterRemove_inert t it w mem (Or.inr h)

/-! ## histories -/

/-- the functional part of `step_refines_partial` -/
theorem step_core_partial (hc : CmpLaw cmp) (t : Table) (s : StrMap) (op : Op) (mem : Mem)
    (hk : [] ∉ op.keys) (hg : t.Good cmp) (hl : t.Owns mem) (hr : Rel t s) :
    OutRel (t.step cmp op mem).1 (s.step (oracleOf (t.step cmp op mem).1) op).1 ∧
    Rel (t.step cmp op mem).2.1 (s.step (oracleOf (t.step cmp op mem).1) op).2 ∧
    (t.step cmp op mem).2.1.Good cmp := by
  have hperm := rel_perm hc t s hg hr
  cases op with
  | add k v sched =>
    have hk' : k ≠ [] := by intro h; subst h; exact hk (by simp [Op.keys])
    have h := Table.add_spec hc t k v (mem.begin sched) hk' hg
    by_cases hok : (t.add cmp k v (mem.begin sched)).1 = .ok
    · obtain ⟨h1, h2, h3⟩ := h.1 hok
      have e1 : (t.step cmp (.add k v sched) mem).1 = { st := some .ok } := by simp [Table.step, hok]
      have e2 : (oracleOf { st := some .ok }).refused = false := by decide
      rw [e1]
      simp only [Table.step, StrMap.step, e2, Bool.false_eq_true, if_false]
      refine ⟨⟨rfl, rfl, List.Perm.refl _, rfl, rfl⟩, ⟨SpecLemmas.wf_add s k v hr.1, ?_⟩, h1⟩
      intro k'; rw [h2 k', SpecLemmas.get_add, SpecLemmas.get_add, hr.2 k']
    · obtain ⟨h1, h2, h3⟩ := h.2.1 hok
      have e1 : (t.step cmp (.add k v sched) mem).1 = { st := some .errAlloc } := by simp [Table.step, h1]
      have e2 : (oracleOf { st := some .errAlloc }).refused = true := by decide
      rw [e1]
      simp only [Table.step, StrMap.step, e2, if_true, h2]
      exact ⟨⟨rfl, rfl, List.Perm.refl _, rfl, rfl⟩, hr, hg⟩
  | get k =>
    have hk' : k ≠ [] := by intro h; subst h; exact hk (by simp [Op.keys])
    simp only [Table.step, StrMap.step]
    rw [Table.get_spec hc t k hk' hg, ← hr.2 k]
    cases s.get k <;> exact ⟨⟨rfl, rfl, List.Perm.refl _, rfl, rfl⟩, hr, hg⟩
  | contains k =>
    have hk' : k ≠ [] := by intro h; subst h; exact hk (by simp [Op.keys])
    simp only [Table.step, StrMap.step]
    rw [Table.containsKey_spec hc t k hk' hg]
    simp only [StrMap.contains, ← hr.2 k]
    exact ⟨⟨rfl, rfl, List.Perm.refl _, rfl, rfl⟩, hr, hg⟩
  | remove k =>
    have hk' : k ≠ [] := by intro h; subst h; exact hk (by simp [Op.keys])
    have h := Table.remove_spec hc t k mem hk' hg hl
    simp only [Table.step, StrMap.step]
    rw [hr.2 k]
    cases hp : t.abs.get k with
    | none =>
      rw [hp] at h; rw [h]
      exact ⟨⟨rfl, rfl, List.Perm.refl _, rfl, rfl⟩, hr, hg⟩
    | some v =>
      rw [hp] at h
      obtain ⟨h1, h2, h3, h4, h5, h6, h7⟩ := h
      simp only [h1, h2]
      refine ⟨⟨rfl, rfl, List.Perm.refl _, rfl, rfl⟩, ⟨SpecLemmas.wf_remove s k hr.1, ?_⟩, h3⟩
      intro k'; rw [h4 k', SpecLemmas.get_remove, SpecLemmas.get_remove, hr.2 k']
  | removeAll =>
    have h := removeAll_refines (cmp := cmp) t mem hg hl
    simp only [Table.step, StrMap.step]
    refine ⟨⟨rfl, rfl, List.Perm.refl _, rfl, rfl⟩, ⟨by simp [StrMap.removeAll, StrMap.WF, StrMap.keys], ?_⟩, h.2.1⟩
    intro k; rw [h.2.2.1]; rfl
  | size =>
    simp only [Table.step, StrMap.step]
    refine ⟨⟨rfl, ?_, List.Perm.refl _, rfl, rfl⟩, hr, hg⟩
    rw [← abs_size t hg.1.1]
    simp only [StrMap.size, hperm.length_eq]
  | enumerate =>
    simp only [Table.step, StrMap.step, iterAll_eq]
    exact ⟨⟨rfl, rfl, hperm.symm, rfl, rfl⟩, hr, hg⟩
  | iterate prog =>
    have hk' : ∀ op ∈ prog, [] ∉ op.keys := by
      intro o ho h; exact hk (by simp only [Op.keys, List.mem_flatMap]; exact ⟨o, ho, h⟩)
    obtain ⟨i1, i2, i3, i4, _⟩ := iter_init_program_refines_partial hc prog hk' t s mem hg hl hr
    simp only [iterChoices] at i1 i2 i3
    simp only [Table.step, StrMap.step, oracleOf]
    refine ⟨⟨rfl, rfl, List.Perm.refl _, i1, ?_⟩, i3, i4⟩
    symm; simp only [List.all_eq_true]; exact fun x hx => i2 x hx

/-- One step of the concrete model refines one step of the ideal map (non-empty keys) — table calls
and whole iterator sessions alike; invariant, exact ledger, no fault (`StructOK`). -/
theorem step_refines_partial (hc : CmpLaw cmp) (t : Table) (s : StrMap) (op : Op) (mem : Mem)
    (hk : [] ∉ op.keys) (hg : t.Good cmp) (hl : t.Owns mem) (hr : Rel t s) :
    OutRel (t.step cmp op mem).1 (s.step (oracleOf (t.step cmp op mem).1) op).1 ∧
    Rel (t.step cmp op mem).2.1 (s.step (oracleOf (t.step cmp op mem).1) op).2 ∧
    (t.step cmp op mem).2.1.Good cmp ∧ StructOK cmp t mem (t.step cmp op mem).2.1 (t.step cmp op mem).2.2 := by
  obtain ⟨h1, h2, h3⟩ := step_core_partial hc t s op mem hk hg hl hr
  exact ⟨h1, h2, h3, Table.step_struct t op mem hg.1 hl⟩

/-- what the spec is told about the run of the model: per call, `oracleOf` of its output -/
def flagged (cmp : Cmp) (t : Table) (ops : List Op) (mem : Mem) : List (Oracle × Op) :=
  ((t.run cmp ops mem).1.map oracleOf).zip ops

/-- the oracle does not depend on the ledger: whether an `add` is refused is determined by the table,
the key and the call's own schedule (history-level companion of `add_refused_iff`) -/
theorem flagged_independent (t : Table) (ops : List Op) (mem mem' : Mem) :
    flagged cmp t ops mem = flagged cmp t ops mem' := by
  simp only [flagged, (Table.run_indep (cmp := cmp) t ops mem mem').1]

/-- **C11, all histories (non-empty keys).** From any state satisfying the invariant, running any
history of add / get / contains / remove / remove_all / size / enumerate / *iterator sessions*
(`iter_init` followed by any `iter_next` / `iter_remove` / query calls) on the model yields the
statuses, out-values and (up to order) enumerations of the ideal string map, ends in a state whose
content is the map's content, keeps the invariant and the exact ledger, and never faults — for every
allocator schedule.
*Excluded by the vocabulary* (documented contract of the C API, not checked by it): an iterator session is a
closed block — it starts with `iter_init`, contains no `add` / `remove` / `remove_all` of the table (those
invalidate the iterator) and the iterator is not used after the block; two iterators live at the same
time do not occur.  Keys are unbounded lists; the C code's `int last_index` limits keys to < 2^31 bytes. -/
theorem history_refines_partial (hc : CmpLaw cmp) (ops : List Op) (hk : ∀ op ∈ ops, [] ∉ op.keys)
    (t : Table) (s : StrMap) (mem : Mem) (hg : t.Good cmp) (hl : t.Owns mem) (hr : Rel t s) :
    OutsRel (t.run cmp ops mem).1 (s.run (flagged cmp t ops mem)).1 ∧
    Rel (t.run cmp ops mem).2.1 (s.run (flagged cmp t ops mem)).2 ∧
    (t.run cmp ops mem).2.1.Good cmp ∧
    StructOK cmp t mem (t.run cmp ops mem).2.1 (t.run cmp ops mem).2.2 := by
  induction ops generalizing t s mem with
  | nil => exact ⟨trivial, hr, hg, StructOK.refl t mem hg.1⟩
  | cons op ops ih =>
    obtain ⟨h1, h2, h3, h4⟩ :=
      step_refines_partial hc t s op mem (hk op (List.mem_cons_self ..)) hg hl hr
    have ih' := ih (fun o ho => hk o (List.mem_cons_of_mem _ ho)) _ _ _ h3 (h4.owns hl) h2
    simp only [flagged, Table.run, List.map_cons, List.zip_cons_cons, StrMap.run] at ih' ⊢
    exact ⟨⟨h1, ih'.1⟩, ih'.2.1, ih'.2.2.1, h4.trans ih'.2.2.2⟩

/-- a call that mentions the empty key but cannot hit the aliasing X5: a query or a `remove` of `""` while
the root node carries no entry (empty table, or a root that is only a prefix of the stored keys) -/
def x5Safe (t : Table) (op : Op) : Prop :=
  [] ∉ op.keys ∨ (t.root.data? = none ∧ (op = .get [] ∨ op = .contains [] ∨ op = .remove []))

/-- every call of the history is `x5Safe` in the state it is issued in -/
def x5SafeRun (cmp : Cmp) : Table → List Op → Mem → Prop
  | _, [], _ => True
  | t, op :: ops, mem => x5Safe t op ∧ x5SafeRun cmp (t.step cmp op mem).2.1 ops (t.step cmp op mem).2.2

instance (t : Table) (op : Op) : Decidable (x5Safe t op) := by unfold x5Safe; infer_instance

def x5SafeRun.dec (cmp : Cmp) : (t : Table) → (ops : List Op) → (mem : Mem) → Decidable (x5SafeRun cmp t ops mem)
  | _, [], _ => isTrue trivial
  | t, op :: ops, mem => by
    unfold x5SafeRun
    have := x5SafeRun.dec cmp (t.step cmp op mem).2.1 ops (t.step cmp op mem).2.2
    infer_instance
instance (cmp : Cmp) (t : Table) (ops : List Op) (mem : Mem) : Decidable (x5SafeRun cmp t ops mem) :=
  x5SafeRun.dec cmp t ops mem

theorem x5SafeRun_of_nonempty (ops : List Op) (hk : ∀ op ∈ ops, [] ∉ op.keys) (t : Table) (mem : Mem) :
    x5SafeRun cmp t ops mem := by
  induction ops generalizing t mem with
  | nil => trivial
  | cons op ops ih =>
    exact ⟨Or.inl (hk op (List.mem_cons_self ..)), ih (fun o ho => hk o (List.mem_cons_of_mem _ ho)) _ _⟩

/-- **the empty key is harmless while the root is unmarked** (sharper partial statement for X5): `get ""`,
`contains_key ""` and `remove ""` then answer "absent" exactly like the ideal map and change nothing -/
theorem step_refines_emptykey_partial (hc : CmpLaw cmp) (t : Table) (s : StrMap) (op : Op) (mem : Mem)
    (hroot : t.root.data? = none) (hop : op = .get [] ∨ op = .contains [] ∨ op = .remove [])
    (hg : t.Good cmp) (hr : Rel t s) :
    OutRel (t.step cmp op mem).1 (s.step (oracleOf (t.step cmp op mem).1) op).1 ∧
    (t.step cmp op mem).2 = (t, mem) ∧ (s.step (oracleOf (t.step cmp op mem).1) op).2 = s := by
  have hs : s.get [] = none := by rw [hr.2, abs_get hc t hg.1.2.2 hg.2]; simp
  have hl : t.root.lookup cmp [] = none := by
    cases hroot' : t.root with
    | nil => simp [Node.lookup]
    | node c d l m r => rw [hroot'] at hroot; simpa [Node.lookup, Node.data?] using hroot
  have hrem : t.remove cmp [] mem = (.errKeyNotFound, none, t, mem) := by
    simp only [Table.remove]
    cases hroot' : t.root with
    | nil => simp [Node.findPath]
    | node c d l m r =>
      rw [hroot'] at hroot
      simp only [Node.data?] at hroot; subst hroot
      simp [Node.findPath, Node.sub, Node.data?]
  rcases hop with rfl | rfl | rfl
  · simp only [Table.step, StrMap.step, Table.get, hl, hs]
    exact ⟨⟨rfl, rfl, List.Perm.refl _, rfl, rfl⟩, by triv, by triv⟩
  · simp only [Table.step, StrMap.step, Table.containsKey, Table.get, hl, StrMap.contains, hs]
    exact ⟨⟨rfl, rfl, List.Perm.refl _, rfl, rfl⟩, by triv, by triv⟩
  · simp only [Table.step, StrMap.step, hrem, hs]
    exact ⟨⟨rfl, rfl, List.Perm.refl _, rfl, rfl⟩, by triv, by triv⟩

/-- one step under the sharper exclusion `x5Safe` -/
theorem step_refines_safe_partial (hc : CmpLaw cmp) (t : Table) (s : StrMap) (op : Op) (mem : Mem)
    (hk : x5Safe t op) (hg : t.Good cmp) (hl : t.Owns mem) (hr : Rel t s) :
    OutRel (t.step cmp op mem).1 (s.step (oracleOf (t.step cmp op mem).1) op).1 ∧
    Rel (t.step cmp op mem).2.1 (s.step (oracleOf (t.step cmp op mem).1) op).2 ∧
    (t.step cmp op mem).2.1.Good cmp ∧ StructOK cmp t mem (t.step cmp op mem).2.1 (t.step cmp op mem).2.2 := by
  rcases hk with hk | ⟨hroot, hop⟩
  · exact step_refines_partial hc t s op mem hk hg hl hr
  · obtain ⟨h1, h2, h3⟩ := step_refines_emptykey_partial hc t s op mem hroot hop hg hr
    rw [h3]
    have e1 : (t.step cmp op mem).2.1 = t := by rw [h2]
    have e2 : (t.step cmp op mem).2.2 = mem := by rw [h2]
    rw [e1, e2]
    exact ⟨h1, hr, hg, StructOK.refl t mem hg.1⟩

/-- **C11, all histories, sharper exclusion**: the empty key may occur in `get` / `contains_key` / `remove`
whenever the root node carries no entry at that moment (in particular on the empty table); only the
calls that really alias the root (X5) are excluded. -/
theorem history_refines_safe_partial (hc : CmpLaw cmp) (ops : List Op)
    (t : Table) (s : StrMap) (mem : Mem) (hk : x5SafeRun cmp t ops mem)
    (hg : t.Good cmp) (hl : t.Owns mem) (hr : Rel t s) :
    OutsRel (t.run cmp ops mem).1 (s.run (flagged cmp t ops mem)).1 ∧
    Rel (t.run cmp ops mem).2.1 (s.run (flagged cmp t ops mem)).2 ∧
    (t.run cmp ops mem).2.1.Good cmp ∧
    StructOK cmp t mem (t.run cmp ops mem).2.1 (t.run cmp ops mem).2.2 := by
  induction ops generalizing t s mem with
  | nil => exact ⟨trivial, hr, hg, StructOK.refl t mem hg.1⟩
  | cons op ops ih =>
    obtain ⟨h1, h2, h3, h4⟩ := step_refines_safe_partial hc t s op mem hk.1 hg hl hr
    have ih' := ih _ _ _ hk.2 h3 (h4.owns hl) h2
    simp only [flagged, Table.run, List.map_cons, List.zip_cons_cons, StrMap.run] at ih' ⊢
    exact ⟨⟨h1, ih'.1⟩, ih'.2.1, ih'.2.2.1, h4.trans ih'.2.2.2⟩

/-- **C11 from the constructor** (either constructor: `tr = .conf` is `cc_tsttable_new_conf`,
`tr = .libc` is `cc_tsttable_new`; a refused constructor yields no table: `C08TST.new_atomic`), every
history, every allocator schedule: refinement of the ideal map started empty, the invariant, no fault,
the **exact ledger from the constructor** (the counter of the table's triple stands at its initial value
plus the header plus what the final table owns), the table stays on its triple and the other triple's
counters are untouched. -/
theorem new_history_refines_partial (hc : CmpLaw cmp) (tr : Triple) (m0 m1 : Mem) (t0 : Table)
    (hnew : Table.new tr m0 = (.ok, some t0, m1)) (ops : List Op) (hk : x5SafeRun cmp t0 ops m1) :
    OutsRel (t0.run cmp ops m1).1 (StrMap.empty.run (flagged cmp t0 ops m1)).1 ∧
    Rel (t0.run cmp ops m1).2.1 (StrMap.empty.run (flagged cmp t0 ops m1)).2 ∧
    (t0.run cmp ops m1).2.1.Good cmp ∧
    (t0.run cmp ops m1).2.2.fault = m0.fault ∧
    (t0.run cmp ops m1).2.2.liveT tr = m0.liveT tr + 1 + (t0.run cmp ops m1).2.1.root.owned ∧
    (t0.run cmp ops m1).2.1.triple = tr ∧
    SameOtherC tr m0 (t0.run cmp ops m1).2.2 := by
  have h := Table.new_spec tr m0
  have hso := Table.new_sameOther tr m0
  rw [hnew] at h hso
  obtain ⟨h1, _, h3⟩ := h
  obtain ⟨h1a, h1b⟩ := h1 rfl
  simp only [Option.some.injEq] at h1a
  subst h1a
  have hg : (Table.mk 0 .nil tr).Good cmp := Table.good_empty tr
  have := history_refines_safe_partial hc ops ⟨0, .nil, tr⟩ StrMap.empty m1 hk hg
    (by unfold Table.Owns; simp at h1b ⊢; omega) (rel_abs hc _ hg)
  obtain ⟨r1, r2, r3, r4⟩ := this.2.2.2
  have hc' := Table.run_sameOtherC (cmp := cmp) ⟨0, .nil, tr⟩ ops m1
  dsimp only at r3 r4 h1b hc'
  simp only [owned_nil] at r4
  exact ⟨this.1, this.2.1, this.2.2.1, by rw [r2, h3], by omega, r3, hso.toC.trans hc'⟩

/-- **C06 (TST part): construct … destroy is balanced**: whatever the table owns is released by
`destroy`, without fault. -/
theorem destroy_balanced (t : Table) (mem : Mem) (hg : t.Good cmp) (hl : t.Owns mem) :
    (t.destroy mem).liveT t.triple + t.root.owned + 1 = mem.liveT t.triple ∧ (t.destroy mem).fault = mem.fault := by
  have h := Table.destroy_spec t mem hg.1.1 hl
  unfold Table.Owns at hl
  exact ⟨by rw [h.1]; omega, h.2⟩

/-! ## the comparators of the harness satisfy the contract -/

theorem default_char_cmp_law : CmpLaw cmpSigned := cmpSigned_law
theorem unsigned_char_cmp_law : CmpLaw cmpUnsigned := cmpUnsigned_law
theorem reverse_char_cmp_law : CmpLaw cmpReverse := cmpReverse_law

/-- bytes ≥ 0x80 sort below the ASCII letters under the default (signed) comparison -/
theorem signed_order_high_bytes : cmpSigned 0x80 0x61 = .lt ∧ cmpSigned 0xff 0x01 = .lt ∧ cmpSigned 0x80 0xff = .lt := by
  decide

/-! ## Known finding X5: the empty key aliases the root node -/

/-- the table holding the single pair `"a" ↦ 1` -/
def x5Table : Table := ⟨1, .node 97 (some ([97], 1)) .nil .nil .nil, .conf⟩

/-- **Negation witness (X5).** On the well-formed table `{"a" ↦ 1}` the ideal map has no empty key,
yet `get ""` returns the value of `"a"`; `add "" 2` reports success without growing the table, steals
the root's entry (`"a"` now maps to 2 and the stored key is `""`); `remove ""` then removes `"a"`. -/
theorem empty_key_aliases_root :
    x5Table.Good cmpSigned ∧ x5Table.abs.get [] = none ∧
    x5Table.get cmpSigned [] = (.ok, some 1) ∧
    (x5Table.add cmpSigned [] 2 {}).1 = .ok ∧
    (x5Table.add cmpSigned [] 2 {}).2.1 = ⟨1, .node 97 (some ([], 2)) .nil .nil .nil, .conf⟩ ∧
    (x5Table.add cmpSigned [] 2 {}).2.1.get cmpSigned [97] = (.ok, some 2) ∧
    (x5Table.remove cmpSigned [] { live := 3 }).2.2.1 = ⟨0, .nil, .conf⟩ := by
  decide

/-- X5 is a *functional* defect only: with any key, the empty one included, every operation keeps the
structural invariant (`size` = number of marked nodes, no unmarked leaf, ordering), the exact ledger,
and never faults. -/
theorem structural_inv_any_key (t : Table) (op : Op) (mem : Mem) (hi : t.Inv cmp) (hl : t.Owns mem) :
    StructOK cmp t mem (t.step cmp op mem).2.1 (t.step cmp op mem).2.2 := Table.step_struct t op mem hi hl

/-! ## Non-vacuity: nested prefixes and a high byte satisfy the invariant; a history with a refused add,
a removal through the iterator and a repeated `iter_remove` runs as the ideal map says -/
def nestedTable : Table := ⟨3, .node 97 (some ([97], 1))
  (.node 128 (some ([128], 3)) .nil .nil .nil)
  (.node 98 (some ([97, 98], 2)) .nil .nil .nil) .nil, .conf⟩

example : nestedTable.Good cmpSigned ∧ nestedTable.get cmpSigned [97, 98] = (.ok, some 2) ∧
    nestedTable.get cmpSigned [128] = (.ok, some 3) ∧ nestedTable.Owns { live := 7 } := by
  refine ⟨by decide, by decide, by decide, ?_⟩
  unfold Table.Owns; decide

example :
    (nestedTable.run cmpSigned
        [.add [99] 4 [true], .add [99] 4 [], .iterate [.next, .remove true, .remove true, .next, .size],
         .get [97], .size] { live := 7 }).1 =
      [{ st := some .errAlloc }, { st := some .ok },
       { iter := [{ st := .ok, key := some [97], val := some 1 }, { st := .ok, val := some 1 },
                  { st := .errKeyNotFound }, { st := .ok, key := some [128], val := some 3 },
                  { st := .ok, val := some 3 }] },
       { st := some .errKeyNotFound }, { val := some 3 }] := by
  decide

/-- the sharper exclusion is satisfiable by histories that do use the empty key: on the empty table, and
while the root `a` is only a prefix of the stored key `ab` -/
example : x5SafeRun cmpSigned ⟨0, .nil, .conf⟩
    [.get [], .remove [], .add [97, 98] 1 [], .contains [], .get [97, 98]] { live := 1 } := by
  decide

end CC.Properties.C11
