import CollectionsC.Proofs.DynamicPool
import CollectionsC.Proofs.DynamicPoolAcct
/-! # C13 — CC_DynamicPool: disjoint in-bounds blocks, expansion, alignment, full release

Statements only (helpers in `Proofs/DynamicPool.lean`).  The concrete model `CC.DynamicPool`
(`Model/DynamicPool.lean`) has the fields of `struct cc_dynamic_pool_s` (pointers as offsets into
the newest page's payload) and the page chain as a list; pages come from the configured allocator
(`Mem.alloc` / `Mem.free`).  The abstract spec `CC.Spec.DPool` is a list of pages with their live
blocks and one roll-back slot.

Quantifiers: every initial size, fixed/expandable, packed/padded, every alignment boundary, every
growth law `grow : ℕ → ℕ` (so every expansion factor: the driver instantiates
`grow n = (size_t)((float)n * exp_factor)` — in C this cast is undefined behaviour when the float
product is negative, NaN or ≥ 2^64, and it is evaluated *before* the page-size guard; `grow` is a
total function, so for such factors the theorems describe the code under the assumption that the
cast yields *some* `size_t` value), every request size in ℕ, every boundary `ab ∈ ℕ` (for page
sizes above 2^63 the C sum `size + padding` could wrap; the model's sum is exact — unreachable
below `pageLimit` only if `ab ≤ 2^63`), every pointer given to
`free`, every history of malloc/calloc/free/reset/user writes, every allocator schedule.

Documented preconditions (`OpOk`): at a `calloc` the newest page's size is a `size_t` value
(`< 2^64`; needed so that a product overflowing `size_t` — which the library answers with NULL —
is also too large in the spec's sense), user writes stay inside the newest page.  Alignment is *relative to the page payload* (`blocks_aligned`); the absolute statement
needs an aligned payload base (`blocks_aligned_absolute`) — the allocator guarantees that only up
to 16, which is known finding M6. -/
namespace CC.Properties.C13
/-! ### Two readings fixed here (DESIGN, readings of C13)

* **"used/free accounting matches the blocks handed out."**  `cc_dynamic_pool_used_bytes` counts
  every *older* page **in full** (its whole payload, used or not) plus the offset of `free_ptr` in
  the newest page.  What is true, and proved, is therefore (`used_accounting_exact`):
  `used = Σ sizes of the older pages + offset in the newest page` exactly;
  `Σ reserved sizes of all live blocks ≤ used ≤ Σ page sizes`; and **equality**
  `used = Σ reserved sizes of the live blocks` as long as the pool has a single page (always, for a
  fixed pool; `fixed_packed_used_is_sum`: = Σ request sizes when packed).  For an expandable pool
  that has grown the clause is an *inequality*: the unused tail of an older page counts as used.
* **A request equal to the page size.**  The library refuses `size >= top_page_size`, so a request
  *equal* to the newest page's size returns NULL even on an empty page; `Spec.DPool.malloc` records
  this behaviour (it is what the refinement theorems are about).  The property text only demands NULL
  *beyond* the configured size, so the correspondence check gives **no spec opinion** (`S ?`) for a
  request `n ≥ top size` that would fit the newest page's free bytes or, for an expandable pool, the
  next page (`Driver/DynamicPool.noOpinion`); a library serving it would not be flagged at L1. -/
open CC CC.Spec
open CC.Spec.DPool (Op)
open CC.DynamicPool (OpOk RunOk)

/-- One step of the concrete model refines one step of the page/block spec (the spec's refusal flag
being the answer of the pool's allocator triple): same returned pointer, abstraction commutes,
invariant preserved (`Inv`, addressable page sizes `Sized`, the triple itself); the ledger counter of
the pool's triple moves exactly with the number of blocks the pool owns (struct + pages), the other
triple's blocks are untouched, and no checked access or `mem_free` faults. -/
theorem step_refines (grow : Nat → Nat) (fresh : Nat) (s : DynamicPool) (op : Op) (m : Mem)
    (h : s.Inv) (hz : s.Sized) (hop : OpOk s op) (hl : s.owned ≤ m.liveT s.triple) :
    (DynamicPool.step grow fresh s op m).1 = (DPool.step grow fresh s.abs (DynamicPool.annotate s op m)).1 ∧
    (DynamicPool.step grow fresh s op m).2.1.abs = (DPool.step grow fresh s.abs (DynamicPool.annotate s op m)).2 ∧
    (DynamicPool.step grow fresh s op m).2.1.Inv ∧ (DynamicPool.step grow fresh s op m).2.1.Sized ∧
    (DynamicPool.step grow fresh s op m).2.1.triple = s.triple ∧
    (DynamicPool.step grow fresh s op m).2.2.liveT s.triple + s.owned =
      m.liveT s.triple + (DynamicPool.step grow fresh s op m).2.1.owned ∧
    (DynamicPool.step grow fresh s op m).2.2.fault = m.fault ∧
    (DynamicPool.step grow fresh s op m).2.2.liveO s.triple = m.liveO s.triple := by
  have hsz := DynamicPool.step_sized grow fresh s op m h hz
  have htr := DynamicPool.step_triple grow fresh s op m
  cases op with
  | malloc n r =>
    have hr := DynamicPool.malloc_refines grow fresh s n m h
    have hg := DynamicPool.malloc_ledger grow fresh s n m
    exact ⟨hr.1, hr.2, DynamicPool.malloc_inv grow fresh s n m h, hsz, htr, hg.2.1, hg.2.2.1, hg.2.2.2⟩
  | calloc c k r =>
    have hr := DynamicPool.calloc_refines grow fresh s c k m h (DynamicPool.top_lt_sizeMod s h hz)
    have hg := DynamicPool.calloc_ledger grow fresh s c k m h
    exact ⟨hr.1, hr.2, DynamicPool.calloc_inv grow fresh s c k m h, hsz, htr, hg.2.1, hg.2.2.1, hg.2.2.2⟩
  | release p =>
    refine ⟨rfl, DynamicPool.release_refines s p h, DynamicPool.release_inv s p h, hsz, htr, ?_, rfl, rfl⟩
    simp only [DynamicPool.step, DynamicPool.release, DynamicPool.owned]
    split
    · split
      · cases s.pages <;> simp
      · rfl
    · rfl
  | reset =>
    have hg := DynamicPool.reset_ledger s m h hl
    exact ⟨rfl, DynamicPool.reset_refines s m h, DynamicPool.reset_inv s m h, hsz, htr, hg.2.1, hg.2.2.1, hg.2.2.2⟩
  | write off n v =>
    have hw := DynamicPool.write_nofault s off n v m h hop
    refine ⟨rfl, DynamicPool.write_refines s off n v m, DynamicPool.write_inv s off n v m h, hsz, htr, ?_, ?_, ?_⟩
    · show (s.write off n v m).2.liveT s.triple + s.owned = m.liveT s.triple + (s.write off n v m).1.owned
      rw [hw]; simp only [DynamicPool.write, DynamicPool.owned, DynamicPool.fillTop]
      cases s.pages <;> simp
    · show (s.write off n v m).2.fault = m.fault
      rw [hw]
    · show (s.write off n v m).2.liveO s.triple = m.liveO s.triple
      rw [hw]

/-- **C13, all histories.** From any state satisfying the invariants whose blocks are live in the
ledger of its triple, every history returns exactly the pointers of the spec run on the same history
(annotated with the refusals that occurred), ends in a state whose abstraction is the spec's final
state, the ledger moved by the change in owned blocks, and nothing faulted. -/
theorem history_refines (grow : Nat → Nat) (fresh : Nat) (ops : List Op) (s : DynamicPool) (m : Mem)
    (h : s.Inv) (hz : s.Sized) (hl : s.owned ≤ m.liveT s.triple) (hops : RunOk grow fresh s ops m) :
    (DynamicPool.run grow fresh s ops m).1 = (DPool.run grow fresh s.abs (DynamicPool.run grow fresh s ops m).2.1).1 ∧
    (DynamicPool.run grow fresh s ops m).2.2.1.abs = (DPool.run grow fresh s.abs (DynamicPool.run grow fresh s ops m).2.1).2 ∧
    (DynamicPool.run grow fresh s ops m).2.2.1.Inv ∧ (DynamicPool.run grow fresh s ops m).2.2.1.Sized ∧
    (DynamicPool.run grow fresh s ops m).2.2.1.triple = s.triple ∧
    (DynamicPool.run grow fresh s ops m).2.2.2.liveT s.triple + s.owned =
      m.liveT s.triple + (DynamicPool.run grow fresh s ops m).2.2.1.owned ∧
    (DynamicPool.run grow fresh s ops m).2.2.2.fault = m.fault ∧
    (DynamicPool.run grow fresh s ops m).2.2.2.liveO s.triple = m.liveO s.triple := by
  induction ops generalizing s m with
  | nil => exact ⟨rfl, rfl, h, hz, rfl, rfl, rfl, rfl⟩
  | cons op ops ih =>
    obtain ⟨h1, h2, h3, h3z, h3t, h4, h5, h6⟩ := step_refines grow fresh s op m h hz hops.1 hl
    have ih' := ih (DynamicPool.step grow fresh s op m).2.1 (DynamicPool.step grow fresh s op m).2.2 h3 h3z
      (by rw [h3t]; omega) hops.2
    simp only [DynamicPool.run, DPool.run]
    rw [h2, h3t] at ih'
    refine ⟨?_, ih'.2.1, ih'.2.2.1, ih'.2.2.2.1, ih'.2.2.2.2.1, by omega, ?_, ?_⟩
    · rw [h1, ih'.1]
    · rw [ih'.2.2.2.2.2.2.1, h5]
    · rw [ih'.2.2.2.2.2.2.2, h6]

/-- **Full release.** Construct a pool on either allocator triple, run any history, destroy it: the
ledger of that triple is back where it started (every page and the struct were released exactly
once — neither a leak nor a second `mem_free`, which would raise the fault flag), the other
triple's ledger never moved, whatever pages were added and dropped on the way; and
`used_bytes`/`free_bytes` always are the spec's. -/
theorem new_history_destroy (grow : Nat → Nat) (fresh size ab : Nat) (fixed packed : Bool) (t : Triple) (m0 m1 : Mem)
    (s0 : DynamicPool) (hnew : DynamicPool.new size fixed packed ab fresh t m0 = (.ok, some s0, m1))
    (ops : List Op) (hops : RunOk grow fresh s0 ops m1) :
    let r := DynamicPool.run grow fresh s0 ops m1
    let sp := DPool.run grow fresh (DPool.init size fixed packed ab (List.replicate size fresh)) r.2.1
    r.1 = sp.1 ∧ r.2.2.1.abs = sp.2 ∧ r.2.2.1.usedBytes = sp.2.used ∧ r.2.2.1.freeBytes = sp.2.free ∧
    (r.2.2.1.destroy r.2.2.2).liveT t = m0.liveT t ∧ (r.2.2.1.destroy r.2.2.2).fault = m0.fault ∧
    (r.2.2.1.destroy r.2.2.2).liveO t = m0.liveO t := by
  obtain ⟨hi, ha, htr, hlive, hfault, hother, hlim⟩ := DynamicPool.new_ok size fixed packed ab fresh t m0 m1 s0 hnew
  have hz : s0.Sized := by
    intro p hp
    have : s0.abs.pages = [{ size := size, bytes := List.replicate size fresh, blocks := [] }] := by rw [ha]; rfl
    rw [show s0.abs.pages = s0.pages from rfl] at this
    rw [this, List.mem_singleton] at hp
    rw [hp]; exact hlim
  have hh := history_refines grow fresh ops s0 m1 hi hz (by rw [htr]; omega) hops
  rw [ha, htr] at hh
  obtain ⟨h1, h2, h3, _, h3t, h4, h5, h6⟩ := hh
  have hd := DynamicPool.destroy_ledger _ (DynamicPool.run grow fresh s0 ops m1).2.2.2 h3 (by rw [h3t]; omega)
  rw [h3t] at hd
  refine ⟨h1, h2, ?_, ?_, by omega, by rw [hd.2.1, h5, hfault], by rw [hd.2.2, h6, hother]⟩
  · rw [DynamicPool.used_abs _ h3, h2]
  · rw [DynamicPool.free_abs _ h3, h2]

/-- a constructor that does not succeed yields no pool and leaves the ledger balanced: either a
refused allocation (`CC_ERR_ALLOC`, only possible on the configured triple) or a size whose page
would not be addressable (`CC_ERR_INVALID_CAPACITY`, nothing allocated at all) -/
theorem new_refused (size ab fresh : Nat) (fixed packed : Bool) (t : Triple) (m : Mem)
    (h : (DynamicPool.new size fixed packed ab fresh t m).1 ≠ .ok) :
    ((DynamicPool.new size fixed packed ab fresh t m).1 = .errAlloc ∨
     ((DynamicPool.new size fixed packed ab fresh t m).1 = .errInvalidCapacity ∧ pageLimit < size)) ∧
    (DynamicPool.new size fixed packed ab fresh t m).2.1 = none ∧
    (DynamicPool.new size fixed packed ab fresh t m).2.2.liveT t = m.liveT t ∧
    (DynamicPool.new size fixed packed ab fresh t m).2.2.fault = m.fault := by
  have := DynamicPool.new_atomic size fixed packed ab fresh t m
  rcases this.1 with h1 | h1 | ⟨h1, h2, h3, h4⟩
  · exact (h h1).elim
  · exact ⟨Or.inl h1, (this.2 h1).1, (this.2 h1).2.1, (this.2 h1).2.2.1⟩
  · exact ⟨Or.inr ⟨h1, h2⟩, h3, by rw [h4], by rw [h4]⟩

/-- **Refused page.** When the allocator refuses the page a `malloc`/`calloc` asks for, the call
returns NULL, every field of the pool is unchanged and the ledger is unchanged. -/
theorem refused_page_atomic (grow : Nat → Nat) (fresh : Nat) (s : DynamicPool) (m : Mem) :
    (∀ n, (DynamicPool.malloc grow fresh s n m).2.2.nrefused ≠ m.nrefused →
      (DynamicPool.malloc grow fresh s n m).1 = none ∧ (DynamicPool.malloc grow fresh s n m).2.1 = s ∧
      (DynamicPool.malloc grow fresh s n m).2.2.liveT s.triple = m.liveT s.triple) ∧
    (∀ c k, (DynamicPool.calloc grow fresh s c k m).2.2.nrefused ≠ m.nrefused →
      (DynamicPool.calloc grow fresh s c k m).1 = none ∧ (DynamicPool.calloc grow fresh s c k m).2.1 = s ∧
      (DynamicPool.calloc grow fresh s c k m).2.2.liveT s.triple = m.liveT s.triple) :=
  ⟨fun n h => DynamicPool.malloc_atomic grow fresh s n m h, fun c k h => DynamicPool.calloc_atomic grow fresh s c k m h⟩

/-- NULL from `malloc`/`calloc` for whatever reason (too large, fixed pool full, growth too small,
next page not addressable, refused page): every field of the pool (ghost lists included) is unchanged -/
theorem null_inert (grow : Nat → Nat) (fresh : Nat) (s : DynamicPool) (m : Mem) (h : s.Inv) :
    (∀ n, (DynamicPool.malloc grow fresh s n m).1 = none → (DynamicPool.malloc grow fresh s n m).2.1 = s) ∧
    (∀ c k, (DynamicPool.calloc grow fresh s c k m).1 = none → (DynamicPool.calloc grow fresh s c k m).2.1 = s) :=
  ⟨fun n => (DynamicPool.malloc_ledger grow fresh s n m).1, fun c k => (DynamicPool.calloc_ledger grow fresh s c k m h).1⟩

/-- a `calloc` whose product does not fit in `size_t` returns NULL, asks the allocator for nothing
and changes nothing (the overflow guard in front of the multiplication) -/
theorem calloc_overflow_null (grow : Nat → Nat) (fresh : Nat) (s : DynamicPool) (c k : Nat) (m : Mem)
    (h : 2 ^ 64 ≤ c * k) : DynamicPool.calloc grow fresh s c k m = (none, s, m) :=
  DynamicPool.calloc_overflow grow fresh s c k m h

/-- `free` of any pointer other than the newest page's `high_ptr`: every field is unchanged -/
theorem release_inert (s : DynamicPool) (p : Option (Nat × Nat)) (hp : p ≠ some (s.pages.length - 1, s.high)) :
    s.release p = s := DynamicPool.release_inert s p hp

/-- The C-visible part of every operation is computed from the C fields alone: forgetting the
ghost fields (`erase`) before or after an operation gives the same pointer, the same allocator
state and the same C fields — for `malloc`, `calloc`, `free`, `reset` and the user's writes. -/
theorem ghost_irrelevant (grow : Nat → Nat) (fresh : Nat) (s : DynamicPool) (m : Mem) :
    (∀ n, (DynamicPool.malloc grow fresh s n m).1 = (DynamicPool.malloc grow fresh s.erase n m).1 ∧
          (DynamicPool.malloc grow fresh s n m).2.1.erase = (DynamicPool.malloc grow fresh s.erase n m).2.1.erase ∧
          (DynamicPool.malloc grow fresh s n m).2.2 = (DynamicPool.malloc grow fresh s.erase n m).2.2) ∧
    (∀ c k, (DynamicPool.calloc grow fresh s c k m).1 = (DynamicPool.calloc grow fresh s.erase c k m).1 ∧
          (DynamicPool.calloc grow fresh s c k m).2.1.erase = (DynamicPool.calloc grow fresh s.erase c k m).2.1.erase ∧
          (DynamicPool.calloc grow fresh s c k m).2.2 = (DynamicPool.calloc grow fresh s.erase c k m).2.2) ∧
    (∀ p, (s.release p).erase = (s.erase.release p).erase) ∧
    ((s.reset m).1.erase = (s.erase.reset m).1.erase ∧ (s.reset m).2 = (s.erase.reset m).2) ∧
    (∀ off n v, (s.write off n v m).1.erase = (s.erase.write off n v m).1.erase ∧
          (s.write off n v m).2 = (s.erase.write off n v m).2) :=
  ⟨fun n => DynamicPool.malloc_erase grow fresh s n m, fun c k => DynamicPool.calloc_erase grow fresh s c k m,
   fun p => DynamicPool.release_erase s p, DynamicPool.reset_erase s m, fun off n v => DynamicPool.write_erase s off n v m⟩

/-- **End to end on the concrete model.** Construct a pool, run any history `ops₁`; in the state
reached, every non-NULL result `(pg, off)` of `malloc n` addresses the newest page the pool then owns,
lies with its padding inside that page's payload, and shares no byte with any other block that is
live in that page; every live block of every page lies inside its page. -/
theorem new_history_malloc_safe (grow : Nat → Nat) (fresh size ab : Nat) (fixed packed : Bool) (t : Triple) (m0 m1 : Mem)
    (s0 : DynamicPool) (hnew : DynamicPool.new size fixed packed ab fresh t m0 = (.ok, some s0, m1))
    (ops₁ : List Op) (hops : RunOk grow fresh s0 ops₁ m1) :
    let s := (DynamicPool.run grow fresh s0 ops₁ m1).2.2.1
    let m := (DynamicPool.run grow fresh s0 ops₁ m1).2.2.2
    (∀ p ∈ s.pages, ∀ b ∈ p.blocks, b.off + b.span ≤ p.size) ∧
    (∀ n a, (DynamicPool.malloc grow fresh s n m).1 = some a →
      let s' := (DynamicPool.malloc grow fresh s n m).2.1
      let span := n + padOf s.isPacked s.ab n
      a.1 = s'.pages.length - 1 ∧ a.2 + span ≤ s'.abs.top.size ∧
      ∀ b ∈ s'.abs.top.blocks.tail, disjoint (a.2, span) (b.off, b.span)) := by
  intro s m
  obtain ⟨hi, ha, htr, hlive, _, _, hlim⟩ := DynamicPool.new_ok size fixed packed ab fresh t m0 m1 s0 hnew
  have hz : s0.Sized := by
    intro p hp
    have : s0.abs.pages = [{ size := size, bytes := List.replicate size fresh, blocks := [] }] := by rw [ha]; rfl
    rw [show s0.abs.pages = s0.pages from rfl] at this
    rw [this, List.mem_singleton] at hp
    rw [hp]; exact hlim
  have hh := history_refines grow fresh ops₁ s0 m1 hi hz (by rw [htr]; omega) hops
  have hinv : s.Inv := hh.2.2.1
  have hwf := DynamicPool.abs_wf s hinv
  refine ⟨fun p hp b hb => ((Spec.DPoolFacts.live_in_page s.abs hwf p hp) b hb), ?_⟩
  intro n a hsome
  have hr := DynamicPool.malloc_refines grow fresh s n m hinv
  rw [hr.1] at hsome
  have hb := Spec.DPoolFacts.malloc_block grow fresh s.abs n _ a hwf hsome
  simp only at hb
  rw [← hr.2] at hb
  exact ⟨hb.1, hb.2.1, hb.2.2.2.1⟩

/-- **The accounting-only twin used for sessions with pages of many megabytes** (`phys=quiet` in the
correspondence check: page contents are not materialised on the Lean side) is the model itself with
the bytes and ghost lists projected away: every operation returns the same pointer, the same ledger
and the same C fields, so what the check compares there is still this model. -/
theorem acct_twin_agrees (grow : Nat → Nat) (fresh : Nat) (s : DynamicPool) (m : Mem) (h : s.Inv) :
    (∀ n, (DynamicPool.malloc grow fresh s n m).1 = (DynamicPool.Acct.malloc grow s.acct n m).1 ∧
          (DynamicPool.malloc grow fresh s n m).2.1.acct = (DynamicPool.Acct.malloc grow s.acct n m).2.1 ∧
          (DynamicPool.malloc grow fresh s n m).2.2 = (DynamicPool.Acct.malloc grow s.acct n m).2.2) ∧
    (∀ c k, (DynamicPool.calloc grow fresh s c k m).1 = (DynamicPool.Acct.calloc grow s.acct c k m).1 ∧
          (DynamicPool.calloc grow fresh s c k m).2.1.acct = (DynamicPool.Acct.calloc grow s.acct c k m).2.1 ∧
          (DynamicPool.calloc grow fresh s c k m).2.2 = (DynamicPool.Acct.calloc grow s.acct c k m).2.2) ∧
    (∀ p, (s.release p).acct = s.acct.release p) ∧
    ((s.reset m).1.acct = (s.acct.reset m).1 ∧ (s.reset m).2 = (s.acct.reset m).2) ∧
    s.destroy m = s.acct.destroy m ∧
    (∀ off n v, (s.write off n v m).1.acct = s.acct ∧ (s.write off n v m).2 = s.acct.write off n m) ∧
    (s.usedBytes = s.acct.usedBytes ∧ s.freeBytes = s.acct.freeBytes) :=
  ⟨fun n => DynamicPool.malloc_acct grow fresh s n m, fun c k => DynamicPool.calloc_acct grow fresh s c k m h,
   fun p => DynamicPool.release_acct s p, DynamicPool.reset_acct s m, DynamicPool.destroy_acct s m,
   fun off n v => DynamicPool.write_acct s off n v m h, DynamicPool.used_free_acct s⟩

/-! ## The property in its own vocabulary (facts about the page/block spec) -/

theorem spec_init_wf (size ab : Nat) (fixed packed : Bool) (bytes : List Nat) (hb : bytes.length = size) :
    (DPool.init size fixed packed ab bytes).WF := by
  refine ⟨by simp [DPool.init], ?_, fun _ => rfl⟩
  intro p hp
  simp only [DPool.init, List.mem_singleton] at hp
  subst hp
  exact ⟨trivial, Nat.zero_le _, hb, fun _ _ b hb => by cases hb⟩

/-- every live block (with its padding) lies inside the payload of its page, and the blocks of a
page are pairwise disjoint; blocks of different pages are in different allocator blocks -/
theorem live_blocks_contained_disjoint (s : DPool) (h : s.WF) :
    ∀ p ∈ s.pages, (∀ b ∈ p.blocks, b.off + b.len ≤ p.size ∧ b.off + b.span ≤ p.size) ∧
      p.blocks.Pairwise fun a b => disjoint (a.off, a.span) (b.off, b.span) := by
  intro p hp
  obtain ⟨hl, hs, _, _⟩ := h.2.1 p hp
  refine ⟨?_, playout_pairwise _ hl⟩
  intro b hb
  have := playout_bound _ hl b hb
  omega

/-- **Alignment (padded mode).** Every live block starts at a multiple of the boundary, counted from
the start of its page's payload -/
theorem blocks_aligned (s : DPool) (h : s.WF) (hp : s.packed = false) (hab : 0 < s.ab) :
    ∀ p ∈ s.pages, ∀ b ∈ p.blocks, b.off % s.ab = 0 := by
  intro p hpg b hb
  exact ((h.2.1 p hpg).2.2.2 hp hab b hb).1

/-- … hence at an absolute multiple of the boundary **if** the payload base is one (what the
allocator guarantees only for boundaries up to its own alignment: known finding M6) -/
theorem blocks_aligned_absolute (s : DPool) (h : s.WF) (hp : s.packed = false) (hab : 0 < s.ab)
    (base : Nat) (hbase : base % s.ab = 0) :
    ∀ p ∈ s.pages, ∀ b ∈ p.blocks, (base + b.off) % s.ab = 0 := by
  intro p hpg b hb
  have := blocks_aligned s h hp hab p hpg b hb
  rw [Nat.add_mod, hbase, this]; simp

/-- the reserved span of a request: the request itself in packed mode, else the request rounded up
to the boundary (a multiple of it, less than one boundary more) -/
theorem span_spec (packed : Bool) (ab n : Nat) :
    (packed = true → padOf packed ab n = 0) ∧
    (packed = false → 0 < ab → (n + padOf packed ab n) % ab = 0 ∧ padOf packed ab n < ab) :=
  ⟨fun h => by subst h; exact padOf_packed ab n, fun h hab => span_aligned packed ab n h hab⟩

/-- **What `malloc` returns** (spec level).  A non-NULL result `(pg, off)` addresses the newest
page of the new state; the block is the newest live block there, it fits in that page with its
padding, and is disjoint from every other live block of the page.  Either no page was added and
all pages but the newest are untouched and the newest only gained this block; or exactly one page
of `grow (top size)` bytes was pushed and **every older page is untouched** (content, blocks). -/
theorem malloc_block (grow : Nat → Nat) (fresh : Nat) (s : DPool) (n : Nat) (r : Bool) (a : Nat × Nat)
    (h : s.WF) (ha : (DPool.malloc grow fresh s n r).1 = some a) :
    let s' := (DPool.malloc grow fresh s n r).2
    let span := n + padOf s.packed s.ab n
    a.1 = s'.pages.length - 1 ∧ a.2 + span ≤ s'.top.size ∧
    s'.top.blocks.head? = some ⟨a.2, n, span⟩ ∧
    (∀ b ∈ s'.top.blocks.tail, disjoint (a.2, span) (b.off, b.span)) ∧
    ((∃ p ps, s.pages = p :: ps ∧ s'.pages = { p with blocks := ⟨a.2, n, span⟩ :: p.blocks } :: ps) ∨
     (s.fixed = false ∧ r = false ∧
      s'.pages = { size := grow s.top.size, bytes := List.replicate (grow s.top.size) fresh, blocks := [⟨0, n, span⟩] } :: s.pages)) :=
  Spec.DPoolFacts.malloc_block grow fresh s n r a h ha

/-- well-formedness is preserved by every operation, for every growth law and refusal -/
theorem spec_wf_step (grow : Nat → Nat) (fresh : Nat) (s : DPool) (op : Op) (h : s.WF) :
    (DPool.step grow fresh s op).2.WF :=
  Spec.DPoolFacts.spec_wf_step grow fresh s op h

theorem spec_wf_run (grow : Nat → Nat) (fresh : Nat) (ops : List Op) (s : DPool) (h : s.WF) :
    (DPool.run grow fresh s ops).2.WF := by
  induction ops generalizing s with
  | nil => exact h
  | cons op ops ih => exact ih _ (spec_wf_step grow fresh s op h)

/-- **Fixed pool.** It keeps its single page for ever, the blocks handed out never exceed the
configured size in total, and a request that does not fit the remaining space returns NULL and
changes nothing -/
theorem fixed_pool (grow : Nat → Nat) (fresh : Nat) (s : DPool) (h : s.WF) (hf : s.fixed = true) :
    s.pages.length = 1 ∧ s.topUsed ≤ s.top.size ∧
    (∀ n r, s.free < n + padOf s.packed s.ab n → DPool.malloc grow fresh s n r = (none, s)) := by
  obtain ⟨hne, hall, hfix⟩ := h
  cases hp : s.pages with
  | nil => exact (hne hp).elim
  | cons p ps =>
    have hpw := hall p (by rw [hp]; exact List.mem_cons_self ..)
    have htop : s.top = p := by simp [DPool.top, hp]
    refine ⟨by simpa [hp] using hfix hf, by rw [DPool.topUsed, htop]; exact hpw.2.1, ?_⟩
    intro n r hn
    unfold DPool.malloc
    simp only [DPool.free] at hn
    by_cases h1 : n ≥ s.top.size
    · simp [h1]
    · have : ¬ n + padOf s.packed s.ab n ≤ s.top.size - s.topUsed := by omega
      simp [h1, this, hf]

/-- **Expandable pool.** A request smaller than the newest page that no longer fits there, fits the
next page size and gets its page: one page of `grow (top size)` bytes is pushed, the block is its
first, and the older pages are exactly what they were (`h4`: the next page is addressable) -/
theorem expandable_pool_grows (grow : Nat → Nat) (fresh : Nat) (s : DPool) (n : Nat) (hf : s.fixed = false)
    (h1 : n < s.top.size) (h2 : s.free < n + padOf s.packed s.ab n)
    (h3 : n + padOf s.packed s.ab n ≤ grow s.top.size) (h4 : grow s.top.size ≤ pageLimit) :
    DPool.malloc grow fresh s n false =
      (some (s.pages.length, 0),
       { s with pages := { size := grow s.top.size, bytes := List.replicate (grow s.top.size) fresh,
                           blocks := [⟨0, n, n + padOf s.packed s.ab n⟩] } :: s.pages, undo := true }) := by
  unfold DPool.malloc
  simp only [DPool.free] at h2
  have a1 : ¬ n ≥ s.top.size := by omega
  have a2 : ¬ n + padOf s.packed s.ab n ≤ s.top.size - s.topUsed := by omega
  have a3 : ¬ n + padOf s.packed s.ab n > grow s.top.size := by omega
  have a4 : ¬ grow s.top.size > pageLimit := by omega
  simp [a1, a2, a3, a4, hf]

/-- the refusal flag matters only when a page is requested: then the call returns NULL and
changes nothing -/
theorem refused_null_unchanged (grow : Nat → Nat) (fresh : Nat) (s : DPool) (n : Nat) :
    DPool.malloc grow fresh s n true = DPool.malloc grow fresh s n false ∨
    DPool.malloc grow fresh s n true = (none, s) := by
  unfold DPool.malloc
  by_cases h1 : n ≥ s.top.size
  · left; simp [h1]
  · by_cases h2 : n + padOf s.packed s.ab n ≤ s.top.size - s.topUsed
    · left; simp [h1, h2]
    · by_cases h3 : (s.fixed || decide (n + padOf s.packed s.ab n > grow s.top.size)) = true
      · left; simp [h1, h2, h3]
      · right; simp [h1, h2, h3]

/-- **Accounting**, as the library defines it: `used` = what is reserved in the newest page plus
the full size of every older page, `free` = what is left in the newest page; together they are
the total payload of all pages -/
theorem used_plus_free (s : DPool) (h : s.WF) :
    s.used = spanLen s.top.blocks + pagesSize s.pages.tail ∧ s.free = s.top.size - spanLen s.top.blocks ∧
    s.used + s.free = pagesSize s.pages := by
  obtain ⟨hne, hall, _⟩ := h
  cases hp : s.pages with
  | nil => exact (hne hp).elim
  | cons p ps =>
    have hpw := hall p (by rw [hp]; exact List.mem_cons_self ..)
    have := hpw.2.1
    simp only [DPool.used, DPool.free, DPool.topUsed, DPool.top, hp, List.headD_cons, List.tail_cons, pagesSize]
    exact ⟨by first | rfl | trivial, by first | rfl | trivial, by omega⟩

/-- `used` against the blocks handed out: it is at least what the live blocks of all pages reserve
and at most the total payload (older pages count in full, as the library defines it); for a fixed
pool it is exactly what the live blocks reserve; and in packed mode a block reserves exactly the
requested size — so a fixed packed pool has `used` = the sum of the live request sizes, as the
static pool (C12) -/
theorem used_vs_blocks (s : DPool) (h : s.WF) :
    Spec.DPoolFacts.totalSpan s.pages ≤ s.used ∧ s.used ≤ pagesSize s.pages ∧
    (s.fixed = true → s.used = spanLen s.top.blocks) :=
  ⟨(Spec.DPoolFacts.used_bounds s h).1, (Spec.DPoolFacts.used_bounds s h).2,
   fun hf => (Spec.DPoolFacts.fixed_used_exact s h hf).2⟩

/-- **The accounting that is exactly true** (the library's definition of `used`): `used` is the sizes
of the older pages in full plus what is reserved in the newest page; the live blocks of all pages
reserve at most `used`; with a single page the two coincide -/
theorem used_accounting_exact (s : DPool) (h : s.WF) :
    s.used = pagesSize s.pages.tail + spanLen s.top.blocks ∧
    Spec.DPoolFacts.totalSpan s.pages ≤ s.used ∧
    (s.pages.length = 1 → s.used = Spec.DPoolFacts.totalSpan s.pages) := by
  refine ⟨by rw [(used_plus_free s h).1]; omega, (Spec.DPoolFacts.used_bounds s h).1, ?_⟩
  intro hl
  obtain ⟨hne, _, _⟩ := h
  cases hp : s.pages with
  | nil => exact (hne hp).elim
  | cons p ps =>
    rw [hp] at hl
    have : ps = [] := by cases ps with | nil => rfl | cons _ _ => simp at hl
    subst this
    simp [DPool.used, DPool.topUsed, DPool.top, hp, Spec.DPoolFacts.totalSpan, pagesSize]

theorem fixed_packed_used_is_sum (grow : Nat → Nat) (fresh size ab : Nat) (bytes : List Nat) (hb : bytes.length = size)
    (ops : List Op) :
    let s := (DPool.run grow fresh (DPool.init size true true ab bytes) ops).2
    s.used = (s.top.blocks.map (·.len)).sum := by
  intro s
  have hwf : s.WF := spec_wf_run grow fresh ops _ (spec_init_wf size ab true true bytes hb)
  have hpe := Spec.DPoolFacts.packedExact_run grow fresh ops _ (Spec.DPoolFacts.packedExact_init size ab true true bytes)
  have hfx : s.fixed = true := Spec.DPoolFacts.run_config grow fresh ops _ |>.1
  have hpk : s.packed = true := Spec.DPoolFacts.run_config grow fresh ops _ |>.2
  rw [(Spec.DPoolFacts.fixed_used_exact s hwf hfx).2]
  apply Spec.DPoolFacts.spanLen_eq_len
  intro b hbm
  obtain ⟨hne, _, _⟩ := hwf
  cases hp : s.pages with
  | nil => exact (hne hp).elim
  | cons p ps =>
    have htop : s.top = p := by simp [DPool.top, hp]
    rw [htop] at hbm
    exact hpe hpk p (by rw [hp]; exact List.mem_cons_self ..) b hbm

/-- **Reset.** Exactly one page is left, the oldest one, with no live block -/
theorem reset_one_page (s : DPool) (h : s.WF) :
    ∃ p, s.pages.getLast? = some p ∧ s.reset.pages = [{ p with blocks := [] }] ∧ s.reset.undo = false ∧
      s.reset.used = 0 ∧ s.reset.free = p.size := by
  cases hl : s.pages.getLast? with
  | none => exact (h.1 (List.getLast?_eq_none_iff.1 hl)).elim
  | some p =>
    refine ⟨p, rfl, ?_⟩
    simp [DPool.reset, hl, DPool.used, DPool.free, DPool.topUsed, DPool.top, spanLen, pagesSize]

/-- the oldest page keeps its size through every operation, so after any history `reset` returns
the pool to a single empty page of the initial size -/
theorem oldest_page_size (grow : Nat → Nat) (fresh : Nat) (s : DPool) (op : Op) :
    ((DPool.step grow fresh s op).2.pages.getLast?.map (·.size)) = (s.pages.getLast?.map (·.size)) :=
  Spec.DPoolFacts.oldest_page_size grow fresh s op

/-- **Reset at run level**: after any history on a pool of initial size `size`, `reset` leaves
exactly one page, of size `size`, with no live block, `used = 0` and `free = size` -/
theorem reset_after_run (grow : Nat → Nat) (fresh size ab : Nat) (fixed packed : Bool) (bytes : List Nat)
    (hb : bytes.length = size) (ops : List Op) :
    let s := (DPool.run grow fresh (DPool.init size fixed packed ab bytes) ops).2
    ∃ bytes', s.reset.pages = [{ size := size, bytes := bytes', blocks := [] }] ∧ s.reset.used = 0 ∧ s.reset.free = size := by
  intro s
  have hwf : s.WF := spec_wf_run grow fresh ops _ (spec_init_wf size ab fixed packed bytes hb)
  obtain ⟨p, hp, hpages, _, hu, hf⟩ := reset_one_page s hwf
  have hsz := Spec.DPoolFacts.oldest_page_size_run grow fresh ops (DPool.init size fixed packed ab bytes)
  have : p.size = size := by
    have : (s.pages.getLast?.map (·.size)) = some size := by rw [hsz]; rfl
    rw [hp] at this; simpa using this
  refine ⟨p.bytes, ?_, hu, by rw [hf, this]⟩
  rw [hpages, ← this]

/-- (Pointers are `(page index, offset)`: after `reset` and a new expansion a *stale* pointer into a
released page has the same model value as the new page's block at that offset, so the model treats
freeing such a dangling pointer like freeing the newest block; in C the addresses may or may not
coincide.  Passing a pointer into a released page is a caller error outside C13's quantifier; the
harness forgets such pointers on `pool_reset`.)
one roll-back slot: `free` of the newest block of the newest page removes exactly that block;
once the slot is empty no `free` changes anything; any other pointer changes nothing -/
theorem release_spec (s : DPool) (p : Option (Nat × Nat)) :
    (s.undo = false → s.release p = s) ∧
    (∀ pg ps b rest, s.pages = pg :: ps → pg.blocks = b :: rest → p ≠ some (ps.length, b.off) → s.release p = s) ∧
    (∀ pg ps b rest, s.undo = true → s.pages = pg :: ps → pg.blocks = b :: rest →
        s.release (some (ps.length, b.off)) = { s with pages := { pg with blocks := rest } :: ps, undo := false }) := by
  refine ⟨?_, ?_, ?_⟩
  · intro h; unfold DPool.release; simp [h]
  · intro pg ps b rest hp hb hne
    unfold DPool.release
    cases s.undo
    · rfl
    · cases p with
      | none => simp [hp]
      | some a =>
        have : ¬ a = (ps.length, b.off) := fun e => hne (by rw [e])
        simp [hp, hb, this]
  · intro pg ps b rest hu hp hb
    unfold DPool.release
    simp [hu, hp, hb]

/-- a non-NULL `calloc` result is the block `malloc` would return, every byte of it reads 0, no
other byte of the newest page changes, and no older page changes -/
theorem calloc_zeroed (grow : Nat → Nat) (fresh : Nat) (s : DPool) (c k : Nat) (r : Bool) (a : Nat × Nat)
    (h : s.WF) (ha : (DPool.calloc grow fresh s c k r).1 = some a) :
    (DPool.malloc grow fresh s (c * k) r).1 = some a ∧
    (∀ i, i < c * k → (DPool.calloc grow fresh s c k r).2.top.bytes.getD (a.2 + i) 0 = 0) ∧
    (∀ j, j < (DPool.malloc grow fresh s (c * k) r).2.top.size → ¬ (a.2 ≤ j ∧ j < a.2 + c * k) →
       (DPool.calloc grow fresh s c k r).2.top.bytes.getD j 0 = (DPool.malloc grow fresh s (c * k) r).2.top.bytes.getD j 0) ∧
    (DPool.calloc grow fresh s c k r).2.pages.tail = (DPool.malloc grow fresh s (c * k) r).2.pages.tail :=
  Spec.DPoolFacts.calloc_zeroed grow fresh s c k r a h ha

/-! ## Non-vacuity: a padded expandable pool with two pages; the newest block can be rolled back -/
example :
    let s := DynamicPool.mk .conf false false 9 4
      [PPage.mk 9 [2, 2, 2, 238, 3, 238, 238, 238, 238] [PBlk.mk 4 1 4, PBlk.mk 0 3 4],
       PPage.mk 6 [1, 1, 238, 238, 238, 238] [PBlk.mk 0 2 4]] 8 4 true
    s.Inv ∧ s.usedBytes = 14 ∧ s.freeBytes = 1 ∧ (s.release (some (1, 4))).free = 4 := by
  decide

/-! ## The spec-level clauses on the concrete model, after any history from the constructor -/

/-- **Transport to the C model.** Construct a pool, run any history; in the state `s` reached
(ledger `m`):
* `used_bytes()` lies between what the live blocks of all pages reserve and the total payload, and
  `used_bytes() + free_bytes()` is the total payload;
* padded mode (`ab ≥ 1`): every live block starts at a multiple of the boundary within its page;
* a fixed pool still has exactly one page, of the configured `size`;
* `reset` leaves one page of the configured `size`, nothing used (`free_ptr = low_ptr`);
* a non-NULL `calloc c k` result addresses the newest page then owned, lies inside it with its
  padding, is disjoint from every other live block of that page, is aligned in padded mode, and all
  its `c * k` bytes read zero. -/
theorem new_history_model_clauses (grow : Nat → Nat) (fresh size ab : Nat) (fixed packed : Bool) (t : Triple) (m0 m1 : Mem)
    (s0 : DynamicPool) (hnew : DynamicPool.new size fixed packed ab fresh t m0 = (.ok, some s0, m1))
    (ops : List Op) (hops : RunOk grow fresh s0 ops m1) :
    let s := (DynamicPool.run grow fresh s0 ops m1).2.2.1
    let m := (DynamicPool.run grow fresh s0 ops m1).2.2.2
    (Spec.DPoolFacts.totalSpan s.pages ≤ s.usedBytes ∧ s.usedBytes ≤ pagesSize s.pages ∧
      s.usedBytes + s.freeBytes = pagesSize s.pages) ∧
    (packed = false → 0 < ab → ∀ p ∈ s.pages, ∀ b ∈ p.blocks, b.off % ab = 0) ∧
    (fixed = true → s.pages.length = 1 ∧ s.topPageSize = size) ∧
    ((s.reset m).1.pages.length = 1 ∧ (s.reset m).1.topPageSize = size ∧ (s.reset m).1.free = 0) ∧
    (∀ c k a, (DynamicPool.calloc grow fresh s c k m).1 = some a →
      let s' := (DynamicPool.calloc grow fresh s c k m).2.1
      let span := c * k + padOf packed ab (c * k)
      a.1 = s'.pages.length - 1 ∧ a.2 + span ≤ s'.topPageSize ∧
      (∀ b ∈ s'.abs.top.blocks.tail, disjoint (a.2, span) (b.off, b.span)) ∧
      (packed = false → 0 < ab → a.2 % ab = 0) ∧
      (∀ i, i < c * k → s'.abs.top.bytes.getD (a.2 + i) 0 = 0)) := by
  intro s m
  obtain ⟨hi0, ha0, htr, hlive, _, _, hlim⟩ := DynamicPool.new_ok size fixed packed ab fresh t m0 m1 s0 hnew
  have hz0 : s0.Sized := by
    intro p hp
    have : s0.abs.pages = [{ size := size, bytes := List.replicate size fresh, blocks := [] }] := by rw [ha0]; rfl
    rw [show s0.abs.pages = s0.pages from rfl] at this
    rw [this, List.mem_singleton] at hp
    rw [hp]; exact hlim
  have hh := history_refines grow fresh ops s0 m1 hi0 hz0 (by rw [htr]; omega) hops
  rw [ha0] at hh
  have hinv : s.Inv := hh.2.2.1
  have hsized : s.Sized := hh.2.2.2.1
  have hwf := DynamicPool.abs_wf s hinv
  -- configuration of the abstraction
  have hcfg := Spec.DPoolFacts.run_config grow fresh (DynamicPool.run grow fresh s0 ops m1).2.1
    (DPool.init size fixed packed ab (List.replicate size fresh))
  have habs : s.abs = (DPool.run grow fresh (DPool.init size fixed packed ab (List.replicate size fresh))
      (DynamicPool.run grow fresh s0 ops m1).2.1).2 := hh.2.1
  have hfx : s.isFixed = fixed := by
    have : s.abs.fixed = fixed := by rw [habs, hcfg.1]; rfl
    exact this
  have hpk : s.isPacked = packed := by
    have : s.abs.packed = packed := by rw [habs, hcfg.2]; rfl
    exact this
  have hab : s.ab = ab := by
    have : s.abs.ab = ab := by rw [habs, Spec.DPoolFacts.run_ab]; rfl
    exact this
  have hlast : s.pages.getLast?.map (·.size) = some size := by
    have := Spec.DPoolFacts.oldest_page_size_run grow fresh (DynamicPool.run grow fresh s0 ops m1).2.1
      (DPool.init size fixed packed ab (List.replicate size fresh))
    rw [← habs] at this
    exact this
  obtain ⟨pg, ps, hp, ht, hf, _, _⟩ := DynamicPool.inv_top s hinv
  refine ⟨?_, ?_, ?_, ?_, ?_⟩
  · have hu := used_vs_blocks s.abs hwf
    have hs := used_plus_free s.abs hwf
    rw [DynamicPool.used_abs s hinv, DynamicPool.free_abs s hinv]
    exact ⟨hu.1, hu.2.1, hs.2.2⟩
  · intro hpk' hab' p hpm b hb
    have := blocks_aligned s.abs hwf (by rw [show s.abs.packed = s.isPacked from rfl, hpk, hpk']) (by
      rw [show s.abs.ab = s.ab from rfl, hab]; exact hab') p hpm b hb
    rw [show s.abs.ab = s.ab from rfl, hab] at this
    exact this
  · intro hfx'
    have hlen := hwf.2.2 (by rw [show s.abs.fixed = s.isFixed from rfl, hfx, hfx'])
    have hlen' : s.pages.length = 1 := hlen
    refine ⟨hlen', ?_⟩
    rw [hp] at hlen' hlast
    have : ps = [] := by cases ps with | nil => rfl | cons _ _ => simp at hlen'
    subst this
    simp only [List.getLast?_singleton, Option.map_some, Option.some.injEq] at hlast
    rw [ht, hlast]
  · have hr := DynamicPool.reset_ledger_pages s m hinv
    have hri := DynamicPool.reset_inv s m hinv
    obtain ⟨pg', ps', hp', ht', hf', _, _⟩ := DynamicPool.inv_top _ hri
    have hlen : (s.reset m).1.pages.length = 1 := by rw [hr.1]; rfl
    refine ⟨hlen, ?_, ?_⟩
    · rw [ht']
      have e := hr.1
      rw [hp'] at e
      simp only [List.cons.injEq] at e
      rw [e.1]
      have : (s.pages.getLast?.map (·.size)) = some (s.pages.getLast (by rw [hp]; simp)).size := by
        rw [List.getLast?_eq_some_getLast (by rw [hp]; simp)]; rfl
      rw [hlast] at this
      exact (Option.some.inj this).symm
    · rw [hf']
      have e := hr.1
      rw [hp'] at e
      simp only [List.cons.injEq] at e
      rw [e.1]; rfl
  · intro c k a hsome s' span
    have hr := DynamicPool.calloc_refines grow fresh s c k m hinv (DynamicPool.top_lt_sizeMod s hinv hsized)
    have hinv' := DynamicPool.calloc_inv grow fresh s c k m hinv
    have hwf' := DynamicPool.abs_wf s' hinv'
    rw [hr.1] at hsome
    have hz := calloc_zeroed grow fresh s.abs c k _ a hwf hsome
    have hb := Spec.DPoolFacts.malloc_block grow fresh s.abs (c * k) _ a hwf hz.1
    simp only at hb
    have hpages : s'.abs = (DPool.calloc grow fresh s.abs c k (!(m.allocT s.triple).1)).2 := hr.2
    -- calloc's state is malloc's with the newest page's bytes filled: same blocks, sizes, page count
    have hcm := Spec.DPoolFacts.calloc_shape grow fresh s.abs c k (!(m.allocT s.triple).1) a hsome
    obtain ⟨pg', ps', hp', ht', _, _, _⟩ := DynamicPool.inv_top s' hinv'
    have htop' : s'.abs.top = pg' := DynamicPool.abs_top s' pg' ps' hp'
    rw [show s.abs.packed = s.isPacked from rfl, show s.abs.ab = s.ab from rfl, hpk, hab] at hb
    refine ⟨?_, ?_, ?_, ?_, ?_⟩
    · have : s'.pages.length = s'.abs.pages.length := rfl
      rw [this, hpages, hcm.1]; exact hb.1
    · rw [ht', ← htop', hpages, hcm.2.1]; exact hb.2.1
    · rw [hpages, hcm.2.2]; exact hb.2.2.2.1
    · intro hpk' hab'
      have hmem : (⟨a.2, c * k, c * k + padOf packed ab (c * k)⟩ : PBlk) ∈ s'.abs.top.blocks := by
        rw [hpages, hcm.2.2]
        exact List.mem_of_mem_head? hb.2.2.1
      have hal := blocks_aligned s'.abs hwf' (by
        have : s'.abs.packed = s.isPacked := by rw [hpages]; exact (Spec.DPoolFacts.calloc_config grow fresh s.abs c k _).2.1
        rw [this, hpk, hpk']) (by
        have : s'.abs.ab = s.ab := by rw [hpages]; exact (Spec.DPoolFacts.calloc_config grow fresh s.abs c k _).2.2
        rw [this, hab]; exact hab') s'.abs.top (by
          rw [htop']; show pg' ∈ s'.pages; rw [hp']; exact List.mem_cons_self ..) _ hmem
      have hab2 : s'.abs.ab = ab := by
        have : s'.abs.ab = s.ab := by rw [hpages]; exact (Spec.DPoolFacts.calloc_config grow fresh s.abs c k _).2.2
        rw [this, hab]
      rw [hab2] at hal
      exact hal
    · intro i hi
      rw [hpages]; exact hz.2.1 i hi

/-! Non-vacuity of `RunOk`: a history with an expansion, a write into the new page, a roll-back and a
reset meets its preconditions from a freshly constructed pool -/
example :
    let s0 : DynamicPool := DynamicPool.mk .conf false true 4 1 [PPage.mk 4 [238, 238, 238, 238] []] 0 0 false
    let ops : List Op := [.malloc 3 false, .write 0 3 7, .malloc 3 false, .write 0 3 9, .release (some (1, 0)),
                          .calloc 1 2 false, .reset, .malloc 3 false]
    s0.Inv ∧ s0.Sized ∧ RunOk (fun c => 2 * c) 238 s0 ops { live := 2 } ∧
    (DynamicPool.run (fun c => 2 * c) 238 s0 ops { live := 2 }).1 =
      [some (0, 0), none, some (1, 0), none, none, some (1, 0), none, some (0, 0)] := by
  refine ⟨by decide, by decide, by decide, by decide⟩

end CC.Properties.C13
