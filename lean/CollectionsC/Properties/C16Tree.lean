import CollectionsC.Properties.C03
/-! # C16 (tree table / tree set part): rejected operations are inert

The table API has no index arguments and no capacity; its rejections are: absent key (`get`,
`remove`, `get_greater_than`, `get_lesser_than`), no successor / predecessor at the extremes, empty
table (`remove_first`, `remove_last`, `get_first_*`, `get_last_*`), second `iter_remove` of one
entry, `iter_next` at the end.  "Unchanged" is equality of the whole model state: tree with colours,
size field, iterator, ledger.  Quantifiers: every total-order comparator, every state satisfying the
invariant, every key.  No ledger hypothesis: no rejected path calls the allocator or releases anything.

Excluded by the documented contract (and therefore hypotheses below): `iter_remove` before the first
successful `iter_next` (`hpre` in `iter_error_is_inert`: the C code would unlink the sentinel).
`CC_ERR_ALLOC` is not a rejection in the sense of C16; what it leaves unchanged is `C08Tree.atomic`. -/
namespace CC.Properties.C16Tree
open CC CC.Spec CC.Spec.OrdMap
variable {cmp : Nat → Nat → Int}

/-- **error_is_inert**: a status other than `CC_OK` / `CC_ERR_ALLOC` ⇒ table and ledger unchanged -/
theorem error_is_inert (t : TreeTable) (h : t.Inv cmp) (op : Op) (m : Mem)
    (st : Stat) (hst : (t.step cmp op m).1.st = some st)
    (h1 : st ≠ .ok) (h2 : st ≠ .errAlloc) :
    (t.step cmp op m).2.1 = t ∧ (t.step cmp op m).2.2.1 = m :=
  C03.rejected_inert t h op m st hst h1 h2

/-- `CC_ERR_ALLOC` is not a rejection in the sense of C16, but it is inert on the table as well: tree,
colours and size field are unchanged and the ledger holds what it held (this is `C08Tree.atomic`) -/
theorem alloc_error_keeps_table (ho : TotalOrder cmp) (t : TreeTable) (h : t.Inv cmp) (op : Op) (m : Mem)
    (hm : TreeTable.Owns t m) (hf : (t.step cmp op m).1.st = some .errAlloc) :
    (t.step cmp op m).2.1 = t ∧
    TreeTable.liveOf (t.step cmp op m).2.2.1 t.triple = TreeTable.liveOf m t.triple ∧
    (t.step cmp op m).2.2.1.fault = m.fault := by
  have s := C03.step_refines ho t h op m hm
  have e := (s.inert .errAlloc hf (by decide)).1
  have l := s.ledger
  rw [e] at l
  exact ⟨e, by omega, s.nofault⟩

/-- iterator calls: `CC_ITER_END` and the `CC_ERR_KEY_NOT_FOUND` of a repeated `iter_remove` leave
table, iterator and ledger unchanged -/
theorem iter_error_is_inert (t : TreeTable) (it : TreeIter) (op : IterOp) (m : Mem)
    (hpre : op = .remove → it.cur ≠ .sentinel)
    (hst : (t.iterStep cmp it op m).1.st ≠ some .ok) :
    (t.iterStep cmp it op m).2.1 = t ∧ (t.iterStep cmp it op m).2.2.1 = it ∧ (t.iterStep cmp it op m).2.2.2 = m := by
  cases op with
  | next =>
    simp only [TreeTable.iterStep, TreeTable.iterNext] at hst ⊢
    cases hn : it.next with
    | none => exact ⟨trivial, rfl, trivial⟩
    | some k => rw [hn] at hst; simp at hst
  | remove =>
    simp only [TreeTable.iterStep, TreeTable.iterRemove] at hst ⊢
    cases hc : it.cur with
    | sentinel => exact absurd hc (hpre rfl)
    | null => exact ⟨rfl, rfl, rfl⟩
    | «at» k => rw [hc] at hst; simp at hst

/-- absent key ⇒ not-found, for every function that takes a key -/
theorem absent_key_rejected (ho : TotalOrder cmp) (t : TreeTable) (h : t.Inv cmp) (k : Nat) (m : Mem)
    (hk : contains t.abs k = false) :
    (t.step cmp (.get k) m).1.st = some .errKeyNotFound ∧
    (t.step cmp (.remove k) m).1.st = some .errKeyNotFound ∧
    (t.step cmp (.greaterThan k) m).1.st = some .errKeyNotFound ∧
    (t.step cmp (.lesserThan k) m).1.st = some .errKeyNotFound ∧
    (t.step cmp (.containsKey k) m).1.val = some 0 := by
  have hl : (t.lookup cmp k).1 = none := by
    rw [TreeTable.lookup_refines ho h k]
    have := contains_iff_lookup t.abs k
    rw [hk] at this
    cases hx : OrdMap.lookup t.abs k with
    | none => rfl
    | some v => rw [hx] at this; simp at this
  generalize hr : t.lookup cmp k = r at hl
  obtain ⟨o, n⟩ := r
  simp only at hl; subst hl
  refine ⟨?_, ?_, ?_, ?_, ?_⟩
  · simp [TreeTable.step, TreeTable.get, hr]
  · simp [TreeTable.step, TreeTable.remove, hr]
  · simp [TreeTable.step, TreeTable.greaterThan, hr]
  · simp [TreeTable.step, TreeTable.lesserThan, hr]
  · simp [TreeTable.step, TreeTable.containsKey, hr]

/-- … and the state is unchanged -/
theorem absent_key_unchanged (ho : TotalOrder cmp) (t : TreeTable) (h : t.Inv cmp) (k : Nat) (m : Mem)
    (hk : contains t.abs k = false) :
    (t.step cmp (.remove k) m).2.1 = t ∧ (t.step cmp (.remove k) m).2.2.1 = m :=
  error_is_inert t h (.remove k) m .errKeyNotFound
    (absent_key_rejected ho t h k m hk).2.1 (by decide) (by decide)

/-- no successor at the maximum, no predecessor at the minimum (defect T1): the successor
walk returns the sentinel there (`C03.successor_walk_is_inorder`) -/
theorem extreme_rejected (ho : TotalOrder cmp) (t : TreeTable) (h : t.Inv cmp) (k : Nat) (m : Mem) :
    ((∀ e ∈ t.abs, ¬ cmp k e.1 < 0) → (t.step cmp (.greaterThan k) m).1.st = some .errKeyNotFound) ∧
    ((∀ e ∈ t.abs, ¬ cmp e.1 k < 0) → (t.step cmp (.lesserThan k) m).1.st = some .errKeyNotFound) := by
  constructor
  · intro hx
    simp only [TreeTable.step, (TreeTable.greaterThan_spec ho h k).1, opGreaterThan, succ_none.2 hx]
    split <;> rfl
  · intro hx
    simp only [TreeTable.step, (TreeTable.lesserThan_spec ho h k).1, opLesserThan, pred_none.2 hx]
    split <;> rfl

/-- empty table ⇒ error and unchanged (defect T2: `remove_last` used to unlink the sentinel) -/
theorem empty_rejected (t : TreeTable) (m : Mem) (h0 : t.size = 0) (hr : t.root = .nil) :
    t.removeFirst m = (.errKeyNotFound, none, t, m) ∧ t.removeLast m = (.errKeyNotFound, none, t, m) ∧
    t.firstKey = (.errKeyNotFound, none) ∧ t.lastKey = (.errKeyNotFound, none) ∧
    t.firstValue = (.errValueNotFound, none) ∧ t.lastValue = (.errValueNotFound, none) := by
  simp [TreeTable.removeFirst, TreeTable.removeLast, TreeTable.firstKey, TreeTable.lastKey,
    TreeTable.firstValue, TreeTable.lastValue, h0, hr, Tree.minEntry, Tree.maxEntry]

/-- an empty table in the sense of the invariant is the sentinel alone -/
theorem empty_iff (t : TreeTable) (h : t.Inv cmp) : t.abs = [] ↔ (t.size = 0 ∧ t.root = .nil) := by
  constructor
  · intro ha
    have hs : t.size = 0 := by rw [h.size_eq, ha]; rfl
    refine ⟨hs, ?_⟩
    cases hr : t.root with
    | nil => rfl
    | node c l k v r => have := h.2.2; rw [hs, hr] at this; simp only [Tree.size] at this; omega
  · intro ⟨_, hr⟩; simp [TreeTable.abs, hr]

/-! ## tree set -/

theorem set_error_is_inert (s : TreeSet) (h : s.Inv cmp) (op : OrdSet.Op) (m : Mem)
    (st : Stat) (hst : (s.step cmp op m).1.st = some st)
    (h1 : st ≠ .ok) (h2 : st ≠ .errAlloc) :
    (s.step cmp op m).2.1 = s ∧ (s.step cmp op m).2.2.1 = m := by
  rw [TreeSet.step_eq_table] at hst ⊢
  change Option.map OrdSet.mapStat _ = _ at hst
  cases hs : (s.t.step cmp (OrdSet.toMapOp op) m).1.st with
  | none => rw [hs] at hst; simp at hst
  | some st' =>
    rw [hs] at hst
    simp only [Option.map_some, Option.some.injEq] at hst
    have k := error_is_inert s.t h.1 (OrdSet.toMapOp op) m st' hs
      (by intro e; rw [e] at hst; exact h1 hst.symm) (by intro e; rw [e] at hst; exact h2 hst.symm)
    exact ⟨by show ({ s with t := _ } : TreeSet) = s; rw [k.1], k.2⟩

/-- absent element ⇒ `CC_ERR_VALUE_NOT_FOUND` from `remove`, `get_greater_than`, `get_lesser_than` -/
theorem set_absent_rejected (ho : TotalOrder cmp) (s : TreeSet) (h : s.Inv cmp) (e : Nat) (m : Mem)
    (hk : contains s.t.abs e = false) :
    (s.step cmp (.remove e) m).1.st = some .errValueNotFound ∧
    (s.step cmp (.greaterThan e) m).1.st = some .errValueNotFound ∧
    (s.step cmp (.lesserThan e) m).1.st = some .errValueNotFound := by
  have k := absent_key_rejected ho s.t h.1 e m hk
  refine ⟨?_, ?_, ?_⟩ <;> rw [TreeSet.step_eq_table] <;> simp only [OrdSet.toMapOp]
  · rw [k.2.1]; rfl
  · rw [k.2.2.1]; rfl
  · rw [k.2.2.2.1]; rfl

/-! ## Non-vacuity: empty, single-entry and larger tables -/
open CC.Driver.TreeTableD (cmpOf) in
example :
    let t0 : TreeTable := {}
    let t1 : TreeTable := TreeTable.mk (Tree.node .black .nil 5 50 .nil) 1 .conf
    let m : Mem := { live := 3 }
    decide (t0.Inv (cmpOf 0)) = true ∧ decide (t1.Inv (cmpOf 0)) = true ∧
    t0.step (cmpOf 0) .removeLast m = ({ st := some .errKeyNotFound }, t0, m, 0) ∧
    t0.step (cmpOf 0) (.get 5) m = ({ st := some .errKeyNotFound }, t0, m, 0) ∧
    t1.step (cmpOf 0) (.remove 4) m = ({ st := some .errKeyNotFound }, t1, m, 1) ∧
    t1.step (cmpOf 0) (.greaterThan 5) m = ({ st := some .errKeyNotFound }, t1, m, 1) ∧
    t1.step (cmpOf 0) (.lesserThan 5) m = ({ st := some .errKeyNotFound }, t1, m, 1) := by decide

end CC.Properties.C16Tree
