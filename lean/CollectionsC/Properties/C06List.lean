import CollectionsC.Proofs.ListAlloc
import CollectionsC.Properties.C07List
import CollectionsC.Properties.C15List
import CollectionsC.Properties.C18List
/-! # C06 (lists) — memory safety and leak freedom of `cc_list.c` and `cc_slist.c`

Statements and closing proofs; thin corollaries of the step bundles of `Properties/C04.lean`
(`StepRefines`), of the iterator simulations (`C07List`), the builder theorem (`C15List`) and the sort
theorems (`C18List`), plus the history-level ledger lemma `ListHistory.run_ledger`.

What the model can carry: (a) no operation dereferences a `NULL`/dangling node pointer, walks past
the end of the chain or releases a block that is not live (`Mem.fault` stays what it was) — for
histories of list operations and for whole **programs** over each of the five iterators, (b) per
allocator triple (configured / C library; the two lists may sit on different ones) the live-block
count `liveT t` moves exactly with the number of blocks the lists hold through `t` — in particular
nothing is ever released through a triple that did not hand it out, as far as counting can tell —
and `new … any history … destroy` gives every block back to its own allocator, for every refusal
schedule, (c) the callback variants hand each held element to the
callback exactly once, in list order.  Use-after-free and raw `next`/`prev` link corruption cannot
be expressed in the sequence model; they are observed by ASan and the heap walker on every sampled
history (stated in the evidence as runtime checks, not proofs).

Quantifiers: all pairs of list states satisfying the invariant with their node blocks live
(`PairOk`), all operations of `Spec.LSeq.Op` with all arguments (indices over the whole `Nat`),
all histories (with `splice` only between lists on the same triple, `Compat`), all allocator states
and refusal schedules. -/
namespace CC.Properties.C06List
open CC CC.Chain CC.ListHistory
open CC.Spec
open CC.Spec.LSeq (Op Out Params)

/-! ## (a) no fault -/

theorem dlist_step_nofault (P : Params) (s : Chain × Chain) (op : Op) (m : Mem) (h : PairOk s m)
    (hc : SpliceOk s.1.triple s.2.triple op) :
    (DList.step P s op m).2.2.fault = m.fault := (C04.dlist_step_refines P s op m h hc).2.2.2.2.1

theorem slist_step_nofault (P : Params) (s : Chain × Chain) (op : Op) (m : Mem) (h : PairOk s m)
    (hc : SpliceOk s.1.triple s.2.triple op) :
    (SList.step P s op m).2.2.fault = m.fault := (C04.slist_step_refines P s op m h hc).2.2.2.2.1

/-- no operation of any history faults, under any refusal schedule -/
theorem dlist_history_nofault (P : Params) (ops : List Op) (s : Chain × Chain) (m : Mem) (h : PairOk s m) (hc : Compat s ops) :
    (DList.run P s ops m).2.2.fault = m.fault ∧ PairOk (DList.run P s ops m).2.1 (DList.run P s ops m).2.2 :=
  ⟨(C04.dlist_history_refines_skipping P ops s m h hc).2.2.2, (C04.dlist_history_refines_skipping P ops s m h hc).2.2.1⟩

theorem slist_history_nofault (P : Params) (ops : List Op) (s : Chain × Chain) (m : Mem) (h : PairOk s m) (hc : Compat s ops) :
    (SList.run P s ops m).2.2.fault = m.fault ∧ PairOk (SList.run P s ops m).2.1 (SList.run P s ops m).2.2 :=
  ⟨(C04.slist_history_refines_skipping P ops s m h hc).2.2.2, (C04.slist_history_refines_skipping P ops s m h hc).2.2.1⟩

/-- **iterator programs do not fault and keep the ledger exact** — ascending iterator of `cc_list.c`:
any program of `next/remove/replace/add/index` calls within the documented contract, under any
refusal schedule: `fault` unchanged, the other allocator untouched, `liveT` of the list's triple moved
exactly with the length, and the list is left in a state satisfying the invariant -/
theorem dlist_iter_program_safe (t : Triple) (l : Chain) (h : l.Inv) (ht : l.triple = t) (m : Mem) (ops : List IOp)
    (hlive : l.abs.length ≤ m.liveT t)
    (hl : (LSeqP.run false false (l.abs, LSeq.itNew) ops ((DList.iterRun false (l, DList.iterInit l, m) ops).1.map stFlag)).2.2 = true) :
    (DList.iterRun false (l, DList.iterInit l, m) ops).2.2.2.fault = m.fault ∧
    Mem.Frame t m (DList.iterRun false (l, DList.iterInit l, m) ops).2.2.2 ∧
    (DList.iterRun false (l, DList.iterInit l, m) ops).2.2.2.liveT t + l.abs.length =
      m.liveT t + (DList.iterRun false (l, DList.iterInit l, m) ops).2.1.abs.length ∧
    (DList.iterRun false (l, DList.iterInit l, m) ops).2.1.Inv := by
  obtain ⟨_, hs, _, hm⟩ := C07List.dlist_iter_program t l h ht m ops hlive hl
  rw [hs]
  exact ⟨hm.fault, hm.frame, by rw [ofList_abs]; exact hm.live, ofList_inv _⟩

/-- descending iterator of `cc_list.c` -/
theorem dlist_diter_program_safe (t : Triple) (l : Chain) (h : l.Inv) (ht : l.triple = t) (m : Mem) (ops : List IOp)
    (hlive : l.abs.length ≤ m.liveT t)
    (hl : (LSeqP.run false true (l.abs, LSeq.ditNew l.abs) ops ((DList.iterRun true (l, DList.diterInit l, m) ops).1.map stFlag)).2.2 = true) :
    (DList.iterRun true (l, DList.diterInit l, m) ops).2.2.2.fault = m.fault ∧
    Mem.Frame t m (DList.iterRun true (l, DList.diterInit l, m) ops).2.2.2 ∧
    (DList.iterRun true (l, DList.diterInit l, m) ops).2.2.2.liveT t + l.abs.length =
      m.liveT t + (DList.iterRun true (l, DList.diterInit l, m) ops).2.1.abs.length ∧
    (DList.iterRun true (l, DList.diterInit l, m) ops).2.1.Inv := by
  obtain ⟨_, hs, _, hm⟩ := C07List.dlist_diter_program t l h ht m ops hlive hl
  rw [hs]
  exact ⟨hm.fault, hm.frame, by rw [ofList_abs]; exact hm.live, ofList_inv _⟩

/-- iterator of `cc_slist.c` -/
theorem slist_iter_program_safe (t : Triple) (l : Chain) (h : l.Inv) (ht : l.triple = t) (m : Mem) (ops : List IOp)
    (hlive : l.abs.length ≤ m.liveT t)
    (hl : (LSeqP.run true false (l.abs, LSeq.itNew) ops ((SList.iterRun (l, SList.iterInit l, m) ops).1.map stFlag)).2.2 = true) :
    (SList.iterRun (l, SList.iterInit l, m) ops).2.2.2.fault = m.fault ∧
    Mem.Frame t m (SList.iterRun (l, SList.iterInit l, m) ops).2.2.2 ∧
    (SList.iterRun (l, SList.iterInit l, m) ops).2.2.2.liveT t + l.abs.length =
      m.liveT t + (SList.iterRun (l, SList.iterInit l, m) ops).2.1.abs.length ∧
    (SList.iterRun (l, SList.iterInit l, m) ops).2.1.Inv := by
  obtain ⟨_, hs, _, hm⟩ := C07List.slist_iter_program t l h ht m ops hlive hl
  rw [hs]
  exact ⟨hm.fault, hm.frame, by rw [ofList_abs]; exact hm.live, ofList_inv _⟩

/-- zip iterator of `cc_list.c` over two lists on any two triples (`zip_add` obtains one node from
each list's own allocator and gives the first back when the second is refused; `zip_remove` releases
each node through its own list's allocator): no fault, per-triple ledger exact, both invariants -/
theorem dlist_zip_program_safe (l1 l2 : Chain) (h1 : l1.Inv) (h2 : l2.Inv) (m : Mem) (ops : List ZOp)
    (hlive : ∀ t', ownedBy l1.triple l2.triple l1.abs l2.abs t' ≤ m.liveT t')
    (hl : (LSeqP.zrun false (l1.abs, l2.abs, LSeq.itNew) ops ((DList.zipRun (l1, l2, DList.zipInit l1 l2, m) ops).1.map zFlag)).2.2 = true) :
    (DList.zipRun (l1, l2, DList.zipInit l1 l2, m) ops).2.2.2.2.fault = m.fault ∧
    (∀ t', (DList.zipRun (l1, l2, DList.zipInit l1 l2, m) ops).2.2.2.2.liveT t' + ownedBy l1.triple l2.triple l1.abs l2.abs t' =
      m.liveT t' + ownedBy l1.triple l2.triple (DList.zipRun (l1, l2, DList.zipInit l1 l2, m) ops).2.1.abs
        (DList.zipRun (l1, l2, DList.zipInit l1 l2, m) ops).2.2.1.abs t') ∧
    (DList.zipRun (l1, l2, DList.zipInit l1 l2, m) ops).2.1.Inv ∧ (DList.zipRun (l1, l2, DList.zipInit l1 l2, m) ops).2.2.1.Inv := by
  obtain ⟨_, hs1, hs2, _, hm⟩ := C07List.dlist_zip_program l1 l2 h1 h2 m ops hlive hl
  rw [hs1, hs2]
  exact ⟨hm.fault, by simpa using hm.live, ofList_inv _, ofList_inv _⟩

/-- zip iterator of `cc_slist.c` -/
theorem slist_zip_program_safe (l1 l2 : Chain) (h1 : l1.Inv) (h2 : l2.Inv) (m : Mem) (ops : List ZOp)
    (hlive : ∀ t', ownedBy l1.triple l2.triple l1.abs l2.abs t' ≤ m.liveT t')
    (hl : (LSeqP.zrun true (l1.abs, l2.abs, LSeq.itNew) ops ((SList.zipRun (l1, l2, SList.zipInit l1 l2, m) ops).1.map zFlag)).2.2 = true) :
    (SList.zipRun (l1, l2, SList.zipInit l1 l2, m) ops).2.2.2.2.fault = m.fault ∧
    (∀ t', (SList.zipRun (l1, l2, SList.zipInit l1 l2, m) ops).2.2.2.2.liveT t' + ownedBy l1.triple l2.triple l1.abs l2.abs t' =
      m.liveT t' + ownedBy l1.triple l2.triple (SList.zipRun (l1, l2, SList.zipInit l1 l2, m) ops).2.1.abs
        (SList.zipRun (l1, l2, SList.zipInit l1 l2, m) ops).2.2.1.abs t') ∧
    (SList.zipRun (l1, l2, SList.zipInit l1 l2, m) ops).2.1.Inv ∧ (SList.zipRun (l1, l2, SList.zipInit l1 l2, m) ops).2.2.1.Inv := by
  obtain ⟨_, hs1, hs2, _, hm⟩ := C07List.slist_zip_program l1 l2 h1 h2 m ops hlive hl
  rw [hs1, hs2]
  exact ⟨hm.fault, by simpa using hm.live, ofList_inv _, ofList_inv _⟩

/-- builders, the array-based sorts and the in-place merge sort do not fault either -/
theorem derived_and_sort_nofault (add : List Nat) (l : Chain) (h : l.Inv) (m : Mem)
    {cmp : Nat → Nat → Int} {sortFn : List Nat → List Nat} (hq : C18List.SortFnSpec cmp sortFn) (hc : LSeq.CmpPreorder cmp) :
    (DList.builderResult l.triple add m).2.2.fault = m.fault ∧
    (DList.sort sortFn l m).2.2.fault = m.fault ∧ (SList.sort sortFn l m).2.2.fault = m.fault ∧
    (DList.sortInPlaceC cmp l m).2 = m :=
  ⟨(C15List.builder_result l.triple add m).1, (C18List.dlist_sort_correct hq l m h).2.2.1, (C18List.slist_sort_correct hq l m h).2.2.1,
   (C18List.sort_in_place_code_correct hc l h m).1⟩

/-! ## (b) ledger -/

/-- per step and per allocator triple: `liveT t` moves exactly with the number of node blocks the two
lists hold through `t` -/
theorem dlist_step_ledger (P : Params) (s : Chain × Chain) (op : Op) (m : Mem) (h : PairOk s m)
    (hc : SpliceOk s.1.triple s.2.triple op) (t : Triple) :
    (DList.step P s op m).2.2.liveT t + owned s t = m.liveT t + owned (DList.step P s op m).2.1 t :=
  (C04.dlist_step_refines P s op m h hc).2.2.2.2.2.2.1 t

theorem slist_step_ledger (P : Params) (s : Chain × Chain) (op : Op) (m : Mem) (h : PairOk s m)
    (hc : SpliceOk s.1.triple s.2.triple op) (t : Triple) :
    (SList.step P s op m).2.2.liveT t + owned s t = m.liveT t + owned (SList.step P s op m).2.1 t :=
  (C04.slist_step_refines P s op m h hc).2.2.2.2.2.2.1 t

/-- … and so over whole histories, under any refusal schedule -/
theorem dlist_history_ledger (P : Params) (ops : List Op) (s : Chain × Chain) (m : Mem) (h : PairOk s m) (hc : Compat s ops)
    (t : Triple) :
    (DList.run P s ops m).2.2.liveT t + owned s t = m.liveT t + owned (DList.run P s ops m).2.1 t :=
  C04.dlist_history_ledger P ops s m h hc t

theorem slist_history_ledger (P : Params) (ops : List Op) (s : Chain × Chain) (m : Mem) (h : PairOk s m) (hc : Compat s ops)
    (t : Triple) :
    (SList.run P s ops m).2.2.liveT t + owned s t = m.liveT t + owned (SList.run P s ops m).2.1 t :=
  C04.slist_history_ledger P ops s m h hc t

/-- destroying both lists of a pair whose ledger holds exactly their node blocks and headers on top
of `base` brings every allocator back to `base`, without fault -/
theorem dlist_destroy_pair (r : Chain × Chain) (hr1 : r.1.Inv) (hr2 : r.2.Inv) (m : Mem) (base : Triple → Nat)
    (hm : ∀ t, m.liveT t = base t + owned r t + ((if r.1.triple = t then 1 else 0) + (if r.2.triple = t then 1 else 0))) :
    (∀ t, (DList.destroy r.2 (DList.destroy r.1 m)).liveT t = base t) ∧ (DList.destroy r.2 (DList.destroy r.1 m)).fault = m.fault := by
  have d1 := C04.dlist_destroy_ledger r.1 hr1 m (by have := hm r.1.triple; simp only [owned, ownedBy, if_true] at this; omega)
  have k1 : ∀ t, (DList.destroy r.1 m).liveT t + (if r.1.triple = t then r.1.abs.length + 1 else 0) = m.liveT t := by
    intro t
    by_cases e : r.1.triple = t
    · subst e; simp only [if_true]; exact d1.1
    · simp only [e, if_false]; exact d1.2.2.1.liveT (fun x => e x.symm)
  have d2 := C04.dlist_destroy_ledger r.2 hr2 (DList.destroy r.1 m) (by
    have a := hm r.2.triple; have b := k1 r.2.triple
    by_cases e : r.1.triple = r.2.triple <;> simp only [owned, ownedBy, e, if_true, if_false] at a b <;> omega)
  refine ⟨fun t => ?_, by rw [d2.2.1, d1.2.1]⟩
  have a := hm t; have b := k1 t
  by_cases e2 : r.2.triple = t
  · subst e2
    have c := d2.1
    by_cases e : r.1.triple = r.2.triple <;> simp only [owned, ownedBy, e, if_true, if_false] at a b <;> omega
  · have c := d2.2.2.1.liveT (fun x => e2 x.symm)
    by_cases e : r.1.triple = t <;> simp only [owned, ownedBy, e, e2, if_true, if_false] at a b <;> omega

theorem slist_destroy_pair (r : Chain × Chain) (hr1 : r.1.Inv) (hr2 : r.2.Inv) (m : Mem) (base : Triple → Nat)
    (hm : ∀ t, m.liveT t = base t + owned r t + ((if r.1.triple = t then 1 else 0) + (if r.2.triple = t then 1 else 0))) :
    (∀ t, (SList.destroy r.2 (SList.destroy r.1 m)).liveT t = base t) ∧ (SList.destroy r.2 (SList.destroy r.1 m)).fault = m.fault := by
  have d1 := C04.slist_destroy_ledger r.1 hr1 m (by have := hm r.1.triple; simp only [owned, ownedBy, if_true] at this; omega)
  have k1 : ∀ t, (SList.destroy r.1 m).liveT t + (if r.1.triple = t then r.1.abs.length + 1 else 0) = m.liveT t := by
    intro t
    by_cases e : r.1.triple = t
    · subst e; simp only [if_true]; exact d1.1
    · simp only [e, if_false]; exact d1.2.2.1.liveT (fun x => e x.symm)
  have d2 := C04.slist_destroy_ledger r.2 hr2 (SList.destroy r.1 m) (by
    have a := hm r.2.triple; have b := k1 r.2.triple
    by_cases e : r.1.triple = r.2.triple <;> simp only [owned, ownedBy, e, if_true, if_false] at a b <;> omega)
  refine ⟨fun t => ?_, by rw [d2.2.1, d1.2.1]⟩
  have a := hm t; have b := k1 t
  by_cases e2 : r.2.triple = t
  · subst e2
    have c := d2.1
    by_cases e : r.1.triple = r.2.triple <;> simp only [owned, ownedBy, e, if_true, if_false] at a b <;> omega
  · have c := d2.2.2.1.liveT (fun x => e2 x.symm)
    by_cases e : r.1.triple = t <;> simp only [owned, ownedBy, e, e2, if_true, if_false] at a b <;> omega

/-- **`new … any history … destroy` releases everything, to the right allocator** (doubly linked): two
lists are constructed on any two triples, any history runs under any refusal schedule, both lists
are destroyed — every `liveT` (configured allocator and C library) is back at its initial value and
nothing faulted (no block released twice, never, or through the wrong allocator as far as the
per-triple counts can tell). -/
theorem dlist_destroy_releases_all (P : Params) (t1 t2 : Triple) (ops : List Op) (m0 : Mem) (l0 l1 : Chain)
    (h0 : (DList.new t1 m0).2.1 = some l0) (h1 : (DList.new t2 (DList.new t1 m0).2.2).2.1 = some l1)
    (hc : t1 = t2 ∨ ∀ op, op ∈ ops → isSplice op = false) :
    (∀ t, (DList.destroy (DList.run P (l0, l1) ops (DList.new t2 (DList.new t1 m0).2.2).2.2).2.1.2
      (DList.destroy (DList.run P (l0, l1) ops (DList.new t2 (DList.new t1 m0).2.2).2.2).2.1.1
        (DList.run P (l0, l1) ops (DList.new t2 (DList.new t1 m0).2.2).2.2).2.2)).liveT t = m0.liveT t) ∧
    (DList.destroy (DList.run P (l0, l1) ops (DList.new t2 (DList.new t1 m0).2.2).2.2).2.1.2
      (DList.destroy (DList.run P (l0, l1) ops (DList.new t2 (DList.new t1 m0).2.2).2.2).2.1.1
        (DList.run P (l0, l1) ops (DList.new t2 (DList.new t1 m0).2.2).2.2).2.2)).fault = m0.fault := by
  obtain ⟨e0, e1, hp, hf, _⟩ := C04.dlist_new_pairOk t1 t2 m0 l0 l1 h0 h1
  have hcc : Compat (l0, l1) ops := by subst e0 e1; exact hc
  have hn := dlist_history_nofault P ops (l0, l1) _ hp hcc
  have hl := fun t => dlist_history_ledger P ops (l0, l1) _ hp hcc t
  have htr : _ := run_triples (C04.dlist_step_refines P) ops (l0, l1) (DList.new t2 (DList.new t1 m0).2.2).2.2 hp hcc
  rw [← dlist_run_eq] at htr
  have hm2 : ∀ t, (DList.new t2 (DList.new t1 m0).2.2).2.2.liveT t =
      m0.liveT t + ((if t1 = t then 1 else 0) + (if t2 = t then 1 else 0)) := by
    intro t
    simp only [DList.new_eq] at h0 h1 ⊢
    by_cases a1 : (m0.allocT t1).1 = true
    · simp only [a1, if_true] at h1 ⊢
      by_cases a2 : ((m0.allocT t1).2.allocT t2).1 = true
      · simp only [a2, if_true]
        rw [(Mem.allocT_all_true _ t2 a2).2.2 t, (Mem.allocT_all_true m0 t1 a1).2.2 t]; omega
      · simp [a2] at h1
    · simp [a1] at h0
  have := dlist_destroy_pair (DList.run P (l0, l1) ops (DList.new t2 (DList.new t1 m0).2.2).2.2).2.1 hn.2.1 hn.2.2.1
    (DList.run P (l0, l1) ops (DList.new t2 (DList.new t1 m0).2.2).2.2).2.2 m0.liveT (by
      intro t
      have a := hl t; have b := hm2 t
      have o0 : owned (l0, l1) t = 0 := by
        subst e0 e1; simp only [owned, ownedBy, ofList_abs, List.length_nil]; by_cases x1 : t1 = t <;> by_cases x2 : t2 = t <;> simp [x1, x2]
      have ht1 : (l0, l1).1.triple = t1 := by subst e0; rfl
      have ht2 : (l0, l1).2.triple = t2 := by subst e1; rfl
      rw [ht1, ht2] at htr
      rcases htr with ⟨x, y⟩ | ⟨x, y⟩ <;> rw [x, y] <;> omega)
  exact ⟨this.1, by rw [this.2, hn.1, hf]⟩

/-- the same for the singly linked list -/
theorem slist_destroy_releases_all (P : Params) (t1 t2 : Triple) (ops : List Op) (m0 : Mem) (l0 l1 : Chain)
    (h0 : (SList.new t1 m0).2.1 = some l0) (h1 : (SList.new t2 (SList.new t1 m0).2.2).2.1 = some l1)
    (hc : t1 = t2 ∨ ∀ op, op ∈ ops → isSplice op = false) :
    (∀ t, (SList.destroy (SList.run P (l0, l1) ops (SList.new t2 (SList.new t1 m0).2.2).2.2).2.1.2
      (SList.destroy (SList.run P (l0, l1) ops (SList.new t2 (SList.new t1 m0).2.2).2.2).2.1.1
        (SList.run P (l0, l1) ops (SList.new t2 (SList.new t1 m0).2.2).2.2).2.2)).liveT t = m0.liveT t) ∧
    (SList.destroy (SList.run P (l0, l1) ops (SList.new t2 (SList.new t1 m0).2.2).2.2).2.1.2
      (SList.destroy (SList.run P (l0, l1) ops (SList.new t2 (SList.new t1 m0).2.2).2.2).2.1.1
        (SList.run P (l0, l1) ops (SList.new t2 (SList.new t1 m0).2.2).2.2).2.2)).fault = m0.fault := by
  obtain ⟨e0, e1, hp, hf, _⟩ := C04.slist_new_pairOk t1 t2 m0 l0 l1 h0 h1
  have hcc : Compat (l0, l1) ops := by subst e0 e1; exact hc
  have hn := slist_history_nofault P ops (l0, l1) _ hp hcc
  have hl := fun t => slist_history_ledger P ops (l0, l1) _ hp hcc t
  have htr : _ := run_triples (C04.slist_step_refines P) ops (l0, l1) (SList.new t2 (SList.new t1 m0).2.2).2.2 hp hcc
  rw [← slist_run_eq] at htr
  have hm2 : ∀ t, (SList.new t2 (SList.new t1 m0).2.2).2.2.liveT t =
      m0.liveT t + ((if t1 = t then 1 else 0) + (if t2 = t then 1 else 0)) := by
    intro t
    simp only [SList.new_eq] at h0 h1 ⊢
    by_cases a1 : (m0.allocT t1).1 = true
    · simp only [a1, if_true] at h1 ⊢
      by_cases a2 : ((m0.allocT t1).2.allocT t2).1 = true
      · simp only [a2, if_true]
        rw [(Mem.allocT_all_true _ t2 a2).2.2 t, (Mem.allocT_all_true m0 t1 a1).2.2 t]; omega
      · simp [a2] at h1
    · simp [a1] at h0
  have := slist_destroy_pair (SList.run P (l0, l1) ops (SList.new t2 (SList.new t1 m0).2.2).2.2).2.1 hn.2.1 hn.2.2.1
    (SList.run P (l0, l1) ops (SList.new t2 (SList.new t1 m0).2.2).2.2).2.2 m0.liveT (by
      intro t
      have a := hl t; have b := hm2 t
      have o0 : owned (l0, l1) t = 0 := by
        subst e0 e1; simp only [owned, ownedBy, ofList_abs, List.length_nil]; by_cases x1 : t1 = t <;> by_cases x2 : t2 = t <;> simp [x1, x2]
      have ht1 : (l0, l1).1.triple = t1 := by subst e0; rfl
      have ht2 : (l0, l1).2.triple = t2 := by subst e1; rfl
      rw [ht1, ht2] at htr
      rcases htr with ⟨x, y⟩ | ⟨x, y⟩ <;> rw [x, y] <;> omega)
  exact ⟨this.1, by rw [this.2, hn.1, hf]⟩

/-! ## (c) callbacks receive every held element exactly once, in list order -/

/-- `cc_list_destroy_cb` / `cc_slist_destroy_cb`: the callback log is the content -/
theorem destroy_cb_log (l : Chain) (h : l.Inv) (m : Mem) :
    (DList.destroyCb l m).1 = l.abs ∧ (SList.destroyCb l m).1 = l.abs := by
  rw [h.eq, DList.destroyCb_ofList, SList.destroyCb_ofList]; exact ⟨rfl, rfl⟩

/-- `cc_list_remove_all_cb` / `cc_slist_remove_all_cb`: on a non-empty list the callback log is the
content, the list is empty afterwards (on its triple) and every node went back through that triple;
on an empty list nothing is called and nothing changes -/
theorem remove_all_cb_log (l : Chain) (h : l.Inv) (m : Mem) :
    (l.abs ≠ [] → DList.removeAll l m = (.ok, l.abs, ofList l.triple [], Mem.freeN l.triple l.abs.length m) ∧
                  SList.removeAll l m = (.ok, l.abs, ofList l.triple [], Mem.freeN l.triple l.abs.length m)) ∧
    (l.abs = [] → DList.removeAll l m = (.errValueNotFound, [], l, m) ∧ SList.removeAll l m = (.errValueNotFound, [], l, m)) := by
  rw [h.eq, DList.removeAll_ofList, SList.removeAll_ofList]
  simp only [ofList_abs, ofList_triple, LSeq.removeAll]
  constructor
  · intro hne; simp [hne]
  · intro he; simp [he, Mem.freeN]

/-! ## Non-vacuity: a mixed pair — the first list on the configured allocator, the second on the C library -/
example : PairOk (ofList .conf [1, 2], ofList .libc [3]) { live := 2, liveLibc := 1 } ∧
    (DList.run ⟨LSeq.predEven, LSeq.cmpNum⟩ (ofList .conf [1, 2], ofList .libc [3]) [.addAll, .swapRoles, .addLast 9, .removeAll]
      { live := 2, liveLibc := 1 }).2.2.fault = false := by
  refine ⟨⟨ofList_inv _, ofList_inv _, fun t => by cases t <;> decide⟩, by decide⟩

end CC.Properties.C06List
