import CollectionsC.Proofs.ListAlloc
import CollectionsC.Properties.C07List
import CollectionsC.Properties.C15List
import CollectionsC.Properties.C18List
/-! # C06 (lists) — memory safety and leak freedom of `cc_list.c` and `cc_slist.c`

Statements and closing proofs; thin corollaries of the step bundles of `Properties/C04.lean`
(`StepRefines`), of the iterator simulations (`C07List`), the builder theorem (`C15List`) and the sort
theorems (`C18List`), plus the history-level ledger lemma `ListHistory.run_ledger`.

What the model can carry: (a) no operation dereferences a `NULL`/dangling node pointer, walks past
the end of the chain or releases a block that is not live (`Mem.fault` stays what it was), (b) `live`
moves exactly with the number of blocks the lists own, and `new … any history … destroy` gives every
block back, for every refusal schedule, (c) the callback variants hand each held element to the
callback exactly once, in list order.  Use-after-free and raw `next`/`prev` link corruption cannot
be expressed in the sequence model; they are observed by ASan and the heap walker on every sampled
history (stated in the evidence as runtime checks, not proofs).

Quantifiers: all pairs of list states satisfying the invariant with their node blocks live
(`PairOk`), all operations of `Spec.LSeq.Op` with all arguments (indices over the whole `Nat`),
all histories, all allocator states and refusal schedules. -/
namespace CC.Properties.C06List
open CC CC.Chain CC.ListHistory
open CC.Spec
open CC.Spec.LSeq (Op Out Params)

/-! ## (a) no fault -/

theorem dlist_step_nofault (P : Params) (s : Chain × Chain) (op : Op) (m : Mem) (h : PairOk s m) :
    (DList.step P s op m).2.2.fault = m.fault := (C04.dlist_step_refines P s op m h).2.2.2.1

theorem slist_step_nofault (P : Params) (s : Chain × Chain) (op : Op) (m : Mem) (h : PairOk s m) :
    (SList.step P s op m).2.2.fault = m.fault := (C04.slist_step_refines P s op m h).2.2.2.1

/-- no operation of any history faults, under any refusal schedule -/
theorem dlist_history_nofault (P : Params) (ops : List Op) (s : Chain × Chain) (m : Mem) (h : PairOk s m) :
    (DList.run P s ops m).2.2.fault = m.fault ∧ PairOk (DList.run P s ops m).2.1 (DList.run P s ops m).2.2 :=
  ⟨(C04.dlist_history_refines_skipping P ops s m h).2.2.2.1, (C04.dlist_history_refines_skipping P ops s m h).2.2.1⟩

theorem slist_history_nofault (P : Params) (ops : List Op) (s : Chain × Chain) (m : Mem) (h : PairOk s m) :
    (SList.run P s ops m).2.2.fault = m.fault ∧ PairOk (SList.run P s ops m).2.1 (SList.run P s ops m).2.2 :=
  ⟨(C04.slist_history_refines_skipping P ops s m h).2.2.2.1, (C04.slist_history_refines_skipping P ops s m h).2.2.1⟩

/-- iterator calls within the documented contract do not fault (doubly linked, ascending; the other
iterators: same proof from their simulation theorems in `C07List`) -/
theorem dlist_iter_nofault (xs : List Nat) (c : LSeq.Cursor) (it : DList.Iter) (m : Mem) (h : DList.ItRel xs c it)
    (hl : xs.length ≤ m.live) :
    (DList.iterNext (ofList xs) it m).2.2.2.fault = m.fault ∧
    (DList.iterRemove (ofList xs) it m).2.2.2.2.fault = m.fault ∧
    (∀ x, (DList.iterReplace (ofList xs) it x m).2.2.2.fault = m.fault) ∧
    (∀ x k, c.cur = some k → c.pos = k + 1 → (DList.iterAdd (ofList xs) it x m).2.2.2.fault = m.fault) := by
  obtain ⟨hn, hr, hp, ha, _⟩ := C07List.dlist_iter_simulation xs c it m h
  refine ⟨?_, ?_, ?_, ?_⟩
  · obtain ⟨it', e, _⟩ := hn; rw [e]
  · obtain ⟨it', e, _⟩ := hr
    rw [e]
    by_cases hs : (LSeq.itRemove xs c).1 = .ok
    · simp only [hs, if_true]
      have hpos : 0 < xs.length := by
        unfold LSeq.itRemove at hs
        cases hc : c.cur with
        | none => simp [hc] at hs
        | some k => have := h.cur k hc; have := h.le; omega
      exact (Mem.free_live m (by omega)).2.1
    · simp only [hs, if_false]
  · intro x; rw [(hp x).1]
  · intro x k hc hpos
    obtain ⟨it', e, _⟩ := ha x k hc hpos
    rw [e]
    by_cases hal : m.alloc.1 = true
    · simp only [hal, if_true]; exact (Mem.alloc_fst_true m hal).2.1
    · have hal' : m.alloc.1 = false := by simpa using hal
      simp only [hal', Bool.false_eq_true, if_false]; exact (Mem.alloc_fst_false m hal').2.1

/-- builders and the array-based sorts do not fault either -/
theorem derived_and_sort_nofault (add : List Nat) (l : Chain) (h : l.Inv) (m : Mem)
    {cmp : Nat → Nat → Int} {sortFn : List Nat → List Nat} (hq : C18List.SortFnSpec cmp sortFn) :
    (DList.builderResult add m).2.2.fault = m.fault ∧
    (DList.sort sortFn l m).2.2.fault = m.fault ∧ (SList.sort sortFn l m).2.2.fault = m.fault :=
  ⟨(C15List.builder_result add m).1, (C18List.dlist_sort_correct hq l m h).2.1, (C18List.slist_sort_correct hq l m h).2.1⟩

/-! ## (b) ledger -/

/-- per step: `live` moves exactly with the number of node blocks the two lists own -/
theorem dlist_step_ledger (P : Params) (s : Chain × Chain) (op : Op) (m : Mem) (h : PairOk s m) :
    (DList.step P s op m).2.2.live + (s.1.abs.length + s.2.abs.length) =
      m.live + ((DList.step P s op m).2.1.1.abs.length + (DList.step P s op m).2.1.2.abs.length) :=
  (C04.dlist_step_refines P s op m h).2.2.2.2.2.1

theorem slist_step_ledger (P : Params) (s : Chain × Chain) (op : Op) (m : Mem) (h : PairOk s m) :
    (SList.step P s op m).2.2.live + (s.1.abs.length + s.2.abs.length) =
      m.live + ((SList.step P s op m).2.1.1.abs.length + (SList.step P s op m).2.1.2.abs.length) :=
  (C04.slist_step_refines P s op m h).2.2.2.2.2.1

/-- … and so over whole histories, under any refusal schedule -/
theorem dlist_history_ledger (P : Params) (ops : List Op) (s : Chain × Chain) (m : Mem) (h : PairOk s m) :
    (DList.run P s ops m).2.2.live + (s.1.abs.length + s.2.abs.length) =
      m.live + ((DList.run P s ops m).2.1.1.abs.length + (DList.run P s ops m).2.1.2.abs.length) := by
  rw [dlist_run_eq]; exact run_ledger (C04.dlist_step_refines P) ops s m h

theorem slist_history_ledger (P : Params) (ops : List Op) (s : Chain × Chain) (m : Mem) (h : PairOk s m) :
    (SList.run P s ops m).2.2.live + (s.1.abs.length + s.2.abs.length) =
      m.live + ((SList.run P s ops m).2.1.1.abs.length + (SList.run P s ops m).2.1.2.abs.length) := by
  rw [slist_run_eq]; exact run_ledger (C04.slist_step_refines P) ops s m h

/-- **`new … any history … destroy` releases everything** (doubly linked): two lists are constructed,
any history runs under any refusal schedule, both lists are destroyed — `live` is back at its
initial value and nothing faulted (no block released twice or never). -/
theorem dlist_destroy_releases_all (P : Params) (ops : List Op) (m0 m1 m2 : Mem) (l0 l1 : Chain)
    (h0 : DList.new m0 = (.ok, some l0, m1)) (h1 : DList.new m1 = (.ok, some l1, m2)) :
    (DList.destroy (DList.run P (l0, l1) ops m2).2.1.2 (DList.destroy (DList.run P (l0, l1) ops m2).2.1.1 (DList.run P (l0, l1) ops m2).2.2)).live = m0.live ∧
    (DList.destroy (DList.run P (l0, l1) ops m2).2.1.2 (DList.destroy (DList.run P (l0, l1) ops m2).2.1.1 (DList.run P (l0, l1) ops m2).2.2)).fault = m0.fault := by
  rw [DList.new_eq] at h0 h1
  have a0 : m0.alloc.1 = true := by by_cases c : m0.alloc.1 = true; exact c; simp [c] at h0
  have a1 : m1.alloc.1 = true := by by_cases c : m1.alloc.1 = true; exact c; simp [c] at h1
  simp only [a0, if_true, Prod.mk.injEq, Option.some.injEq, true_and] at h0
  simp only [a1, if_true, Prod.mk.injEq, Option.some.injEq, true_and] at h1
  obtain ⟨rfl, rfl⟩ := h0
  obtain ⟨rfl, rfl⟩ := h1
  have e0 := Mem.alloc_fst_true m0 a0
  have e1 := Mem.alloc_fst_true m0.alloc.2 a1
  have hp : PairOk (ofList [], ofList []) m0.alloc.2.alloc.2 := ⟨ofList_inv _, ofList_inv _, by simp⟩
  have hl := dlist_history_ledger P ops _ _ hp
  have hn := dlist_history_nofault P ops _ _ hp
  simp only [ofList_abs, List.length_nil, Nat.add_zero] at hl
  have d1 := C04.dlist_destroy_ledger _ hn.2.1 (DList.run P (ofList [], ofList []) ops m0.alloc.2.alloc.2).2.2 (by omega)
  have d2 := C04.dlist_destroy_ledger _ hn.2.2.1
    (DList.destroy (DList.run P (ofList [], ofList []) ops m0.alloc.2.alloc.2).2.1.1 (DList.run P (ofList [], ofList []) ops m0.alloc.2.alloc.2).2.2)
    (by omega)
  exact ⟨by omega, by rw [d2.2.1, d1.2.1, hn.1, e1.2.1, e0.2.1]⟩

/-- the same for the singly linked list -/
theorem slist_destroy_releases_all (P : Params) (ops : List Op) (m0 m1 m2 : Mem) (l0 l1 : Chain)
    (h0 : SList.new m0 = (.ok, some l0, m1)) (h1 : SList.new m1 = (.ok, some l1, m2)) :
    (SList.destroy (SList.run P (l0, l1) ops m2).2.1.2 (SList.destroy (SList.run P (l0, l1) ops m2).2.1.1 (SList.run P (l0, l1) ops m2).2.2)).live = m0.live ∧
    (SList.destroy (SList.run P (l0, l1) ops m2).2.1.2 (SList.destroy (SList.run P (l0, l1) ops m2).2.1.1 (SList.run P (l0, l1) ops m2).2.2)).fault = m0.fault := by
  rw [SList.new_eq] at h0 h1
  have a0 : m0.alloc.1 = true := by by_cases c : m0.alloc.1 = true; exact c; simp [c] at h0
  have a1 : m1.alloc.1 = true := by by_cases c : m1.alloc.1 = true; exact c; simp [c] at h1
  simp only [a0, if_true, Prod.mk.injEq, Option.some.injEq, true_and] at h0
  simp only [a1, if_true, Prod.mk.injEq, Option.some.injEq, true_and] at h1
  obtain ⟨rfl, rfl⟩ := h0
  obtain ⟨rfl, rfl⟩ := h1
  have e0 := Mem.alloc_fst_true m0 a0
  have e1 := Mem.alloc_fst_true m0.alloc.2 a1
  have hp : PairOk (ofList [], ofList []) m0.alloc.2.alloc.2 := ⟨ofList_inv _, ofList_inv _, by simp⟩
  have hl := slist_history_ledger P ops _ _ hp
  have hn := slist_history_nofault P ops _ _ hp
  simp only [ofList_abs, List.length_nil, Nat.add_zero] at hl
  have d1 := C04.slist_destroy_ledger _ hn.2.1 (SList.run P (ofList [], ofList []) ops m0.alloc.2.alloc.2).2.2 (by omega)
  have d2 := C04.slist_destroy_ledger _ hn.2.2.1
    (SList.destroy (SList.run P (ofList [], ofList []) ops m0.alloc.2.alloc.2).2.1.1 (SList.run P (ofList [], ofList []) ops m0.alloc.2.alloc.2).2.2)
    (by omega)
  exact ⟨by omega, by rw [d2.2.1, d1.2.1, hn.1, e1.2.1, e0.2.1]⟩

/-! ## (c) callbacks receive every held element exactly once, in list order -/

/-- `cc_list_destroy_cb` / `cc_slist_destroy_cb`: the callback log is the content -/
theorem destroy_cb_log (l : Chain) (h : l.Inv) (m : Mem) :
    (DList.destroyCb l m).1 = l.abs ∧ (SList.destroyCb l m).1 = l.abs := by
  rw [h.eq, DList.destroyCb_ofList, SList.destroyCb_ofList]; exact ⟨rfl, rfl⟩

/-- `cc_list_remove_all_cb` / `cc_slist_remove_all_cb`: on a non-empty list the callback log is the
content and the list is empty afterwards; on an empty list nothing is called and nothing changes -/
theorem remove_all_cb_log (l : Chain) (h : l.Inv) (m : Mem) :
    (l.abs ≠ [] → DList.removeAll l m = (.ok, l.abs, ofList [], Mem.freeN l.abs.length m) ∧
                  SList.removeAll l m = (.ok, l.abs, ofList [], Mem.freeN l.abs.length m)) ∧
    (l.abs = [] → DList.removeAll l m = (.errValueNotFound, [], l, m) ∧ SList.removeAll l m = (.errValueNotFound, [], l, m)) := by
  rw [h.eq, DList.removeAll_ofList, SList.removeAll_ofList]
  simp only [ofList_abs, LSeq.removeAll]
  constructor
  · intro hne; simp [hne]
  · intro he; simp [he, Mem.freeN]

end CC.Properties.C06List
