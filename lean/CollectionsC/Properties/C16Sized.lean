import CollectionsC.Properties.C01Sized
import CollectionsC.Proofs.ArraySized9
/-! # C16 (sized array part) — rejected operations are inert, for every argument value

Statements only.  Indices range over all of `Nat`, hence over every `size_t` value (`size`,
`size + 1`, values near `SIZE_MAX`, and indices whose byte offset `index * data_length` would wrap
around `size_t`: the C code compares the *index* with `size`, and so does the model). -/
namespace CC.Properties.C16Sized
open CC CC.Gen CC.ArraySized

/-- **error_is_inert**: a call of the core API whose status is an error other than an allocation
or size-limit refusal leaves the whole physical state (buffer bytes, size, capacity) and the ledger
exactly as they were -/
theorem error_is_inert (a : ArraySized) (op : Spec.SSeq.Op Elem) (m : Mem) (h : a.Inv)
    (hw : OpWF a.dataLen op) (hrej : Rejected (a.step op m).1.st) :
    (a.step op m).2.1 = a ∧ (a.step op m).2.2 = m := step_inert a op m h hw hrej

/-- `CC_ERR_ALLOC` and `CC_ERR_MAX_CAPACITY` are inert too (they are the refusals of C08; restated
here so that *every* non-OK status of the core API is covered) -/
theorem refusal_is_inert (a : ArraySized) (op : Spec.SSeq.Op Elem) (m : Mem) (h : a.Inv) (hw : OpWF a.dataLen op)
    (hst : (a.step op m).1.st = some .errAlloc ∨ (a.step op m).1.st = some .errMaxCapacity) :
    (a.step op m).2.1 = a ∧ MemSame a.triple m (a.step op m).2.2 := by
  obtain ⟨_, _, _, _, _, h6, h7, _⟩ := step_refines a op m h hw
  refine ⟨h7 ?_, h6⟩
  unfold refusal
  rcases hst with hst | hst <;> rw [hst] <;> simp

/-- rejected iterator calls leave array and cursor unchanged: `iter_remove` (nothing yielded yet, or
the element already removed), `iter_replace` (nothing yielded yet) — unconditionally: the guards are
index comparisons, so this holds for a stale cursor (array shortened through the API) as well -/
theorem iter_error_is_inert (it : Iter) (a : ArraySized) (m : Mem) (hst : (a.iterRemove it m).1 ≠ .ok) :
    (a.iterRemove it m).2.2.2.1 = a ∧ (a.iterRemove it m).2.2.1 = it ∧ (a.iterRemove it m).2.2.2.2 = m :=
  ⟨(iterRemove_inert it a m hst).2.1, (iterRemove_inert it a m hst).1, (iterRemove_inert it a m hst).2.2⟩

theorem iter_replace_error_is_inert (it : Iter) (a : ArraySized) (e : Buf Nat) (m : Mem)
    (hst : (a.iterReplace it e m).1 ≠ .ok) : a.iterReplace it e m = (.errOutOfRange, none, a, m) :=
  iterReplace_inert it a e m hst

/-- rejected zip-iterator calls (`zip_iter_remove` with nothing yielded or already removed,
`zip_iter_replace` with nothing yielded) leave both arrays, the cursor and the ledger unchanged -/
theorem zip_error_is_inert (it : Iter) (a1 a2 : ArraySized) (e1 e2 : Buf Nat) (m : Mem) :
    ((zipRemove it a1 a2 m).1 ≠ .ok →
      (zipRemove it a1 a2 m).2.2.1 = it ∧ (zipRemove it a1 a2 m).2.2.2.1 = a1 ∧
      (zipRemove it a1 a2 m).2.2.2.2.1 = a2 ∧ (zipRemove it a1 a2 m).2.2.2.2.2 = m) ∧
    ((zipReplace it a1 a2 e1 e2 m).1 ≠ .ok → zipReplace it a1 a2 e1 e2 m = (.errOutOfRange, none, a1, a2, m)) :=
  ⟨zipRemove_inert it a1 a2 m, zipReplace_inert it a1 a2 e1 e2 m⟩

/-- **out_of_range_rejected**: positions `[0, size)` for access, replacement, removal, swapping and
sub-ranges, `[0, size]` for `add_at`; every other index is rejected (`peek` rejects `size`: A6) and
the state is returned untouched -/
theorem out_of_range_rejected (a : ArraySized) (e : Buf Nat) (i j b : Nat) (m : Mem) (h : a.Inv) :
    (a.size ≤ i → a.getAt i m = (.errOutOfRange, none, m) ∧ a.peek i m = (.errOutOfRange, none, m)) ∧
    (a.size < i → a.addAt e i m = (.errOutOfRange, a, m)) ∧
    (a.size ≤ i → a.replaceAt e i m = (.errOutOfRange, none, a, m)) ∧
    (a.size ≤ i → a.removeAt i m = (.errOutOfRange, none, a, m)) ∧
    (a.size ≤ i ∨ a.size ≤ j → a.swapAt i j m = (.errOutOfRange, a, m)) ∧
    (j < b ∨ a.size ≤ j → a.subarray b j m = (.errInvalidRange, none, m)) := by
  refine ⟨fun hi => ?_, addAt_inert a e i m, replaceAt_inert a e i m, removeAt_inert a i m,
    swapAt_inert a i j m, subarray_inert a b j m⟩
  rw [peek_spec, getAt_spec a i m h, if_neg (by omega)]
  exact ⟨rfl, rfl⟩

/-- and inside the documented range the same calls succeed -/
theorem in_range_accepted (a : ArraySized) (e : Buf Nat) (i : Nat) (m : Mem) (h : a.Inv)
    (he : e.length = a.dataLen) (hi : i < a.size) :
    (a.getAt i m).1 = .ok ∧ (a.peek i m).1 = .ok ∧ (a.replaceAt e i m).1 = .ok ∧ (a.removeAt i m).1 = .ok := by
  refine ⟨?_, ?_, ?_, (removeAt_spec a i m h hi).1⟩
  · rw [getAt_spec a i m h, if_pos hi]
  · rw [peek_spec, getAt_spec a i m h, if_pos hi]
  · rw [(replaceAt_spec a e i m h he hi).1]

/-- **absent value**: `remove`/`index_of` of a record that is not stored report not-found and change
nothing; `contains` reports 0 -/
theorem absent_value (a : ArraySized) (e : Buf Nat) (m : Mem) (h : a.Inv) (he : e.length = a.dataLen)
    (habs : e ∉ a.abs) :
    a.remove e m = (.errValueNotFound, a, m) ∧ a.indexOf e m = (.errOutOfRange, none, m) ∧
    a.contains e m = (0, m) := by
  have hidx : Spec.SSeq.indexOf a.abs e = none := by
    generalize a.abs = xs at habs
    induction xs with
    | nil => rfl
    | cons y ys ih =>
      simp only [List.mem_cons, not_or] at habs
      simp only [Spec.SSeq.indexOf]
      rw [if_neg (fun hh => habs.1 hh.symm), ih habs.2]; rfl
  refine ⟨?_, ?_, ?_⟩
  · unfold remove; rw [indexOf_spec a e m h he]; simp [Spec.SSeq.indexOfSt, hidx]
  · rw [indexOf_spec a e m h he]; simp [Spec.SSeq.indexOfSt, hidx]
  · rw [contains_spec a e m h he]
    congr 1
    simp only [Spec.SSeq.contains, List.length_eq_zero_iff, List.filter_eq_nil_iff, decide_eq_true_eq]
    intro y hy hh; exact habs (hh ▸ hy)

/-- **empty container**: `remove_last`, `get_last`, `filter_mut`, `filter` on an empty array report
an error and change nothing (`size - 1` wraps to `SIZE_MAX` and is rejected) -/
theorem empty_rejected (a : ArraySized) (p : List Nat → Bool) (m : Mem) (h : a.Inv) (h0 : a.size = 0) :
    a.removeLast m = (.errOutOfRange, none, a, m) ∧ a.getLast m = (.errValueNotFound, none, m) ∧
    a.filterMut p m = (.errOutOfRange, [], a, m) ∧ a.filter p m = (.errOutOfRange, [], none, m) := by
  refine ⟨removeLast_inert a m h h0, ?_, filterMut_inert a p m h0, filter_inert a p m h0⟩
  unfold getLast; rw [if_pos h0]

/-- **invalid capacity**: capacity 0, element size 0, a capacity too large for the expansion factor
or for `size_t` bytes: no object and not a single allocator call -/
theorem invalid_capacity (dl cap : Nat) (grow : Nat → Nat) (exGe : Nat → Bool) (m : Mem) (t : Triple)
    (hc : cap = 0 ∨ exGe (CC_MAX_ELEMENTS / cap) = true ∨ dl = 0 ∨ CC_MAX_ELEMENTS / dl < cap) :
    ArraySized.new dl cap grow exGe m t = (.errInvalidCapacity, none, m) := new_invalid dl cap grow exGe m t hc

/-! Non-vacuity: out-of-range calls on a concrete array (indices `size`, `2^63`, and an index whose
byte offset wraps around `size_t`) are rejected and leave it as it was. -/
example :
    let a : ArraySized := { dataLen := 8, size := 1, capacity := 2, grow := fun c => 2 * c,
                            buf := List.replicate 16 7 }
    a.Inv ∧ (a.removeAt 1 {}).1 = .errOutOfRange ∧ (a.peek 1 {}).1 = .errOutOfRange ∧
    (a.replaceAt (List.replicate 8 1) (2 ^ 61) {}).2.2.1.buf = a.buf ∧ (a.addAt (List.replicate 8 1) (2 ^ 63) {}).1 = .errOutOfRange := by
  decide

end CC.Properties.C16Sized
