import CollectionsC.Properties.C01
import CollectionsC.Properties.C07Array
import CollectionsC.Proofs.ArrayMem
/-! # C06 (array part) — memory safety and leak freedom of `CC_Array`

Statements only.  `Mem.fault` is the model's sticky flag for "a slot index at or beyond the allocated
slot count, a `memmove` range leaving the block, or a release with nothing owned"; every slot read and
every `memmove` of the model is preceded by its own bounds check.  An array owns two blocks (header
and buffer) of **its allocator triple** `a.triple`; `Arr.own t m` is the block counter of triple `t`
(`Mem.live` for the configured allocators, `Mem.liveLibc` for the C library).

(a) no operation sets `fault` from a state satisfying `Arr.Inv`, per call and over histories, for
every allocator schedule; (b) every call of the C01 vocabulary keeps the array's own counter
(re-allocations acquire one block and release one) and never touches the other allocator's;
builders add exactly the two blocks of the new array, `destroy` releases two;
constructor → any history → `destroy` returns the counter to its initial value; (c) the callback
variants hand every held element to the callback exactly once, in index order. -/
namespace CC.Properties.C06Array
open CC
open CC.Spec.Seq (Cfg Op Out IterOp)

/-- (a)+(b) per call: no fault, own counter balanced, other allocator untouched, invariant kept -/
theorem step_nofault_ledger (cfg : Cfg) (a : Arr) (op : Op) (m : Mem) (hinv : a.Inv)
    (hsort : ∀ xs, (cfg.sortFn xs).length = xs.length) :
    (a.step cfg op m).2.2.fault = m.fault ∧ Arr.own a.triple (a.step cfg op m).2.2 = Arr.own a.triple m ∧
    Arr.Foreign a.triple m (a.step cfg op m).2.2 ∧ (a.step cfg op m).2.1.Inv := by
  obtain ⟨_, _, _, s4, _, s6, _⟩ := C01.step_refines cfg a op m hinv hsort
  obtain ⟨l1, l2, _⟩ := Arr.step_led cfg a op m hinv
  exact ⟨s6, by simpa using l1, l2, s4⟩

/-- (a) over histories, for every schedule of refusals -/
theorem history_nofault (cfg : Cfg) (ops : List Op) (a : Arr) (m : Mem) (hinv : a.Inv)
    (hsort : ∀ xs, (cfg.sortFn xs).length = xs.length) (hf : m.fault = false) :
    (a.run cfg ops m).2.2.fault = false ∧ (a.run cfg ops m).2.1.Inv := by
  obtain ⟨_, _, h3, _, _, h6⟩ := C01.history_refines cfg ops a m hinv hsort
  exact ⟨by rw [h6]; exact hf, h3⟩

/-- (b) over histories: the array still owns exactly its two blocks, and the other allocator was
never used -/
theorem history_ledger (cfg : Cfg) (ops : List Op) (a : Arr) (m : Mem) (hinv : a.Inv)
    (hsort : ∀ xs, (cfg.sortFn xs).length = xs.length) :
    Arr.own a.triple (a.run cfg ops m).2.2 = Arr.own a.triple m ∧ Arr.Foreign a.triple m (a.run cfg ops m).2.2 :=
  ⟨(Arr.run_led cfg ops a m hinv hsort).1, (Arr.run_led cfg ops a m hinv hsort).2.1⟩

/-- **no leak**: construct (on either triple), run any history under any refusal schedule, destroy —
the triple's block counter is back where it started and nothing faulted -/
theorem destroy_releases_all (cfg : Cfg) (cap : Nat) (grow : Nat → Nat) (exGe : Nat → Bool) (m0 : Mem) (t : Triple)
    (a0 : Arr) (hnew : (Arr.new cap grow exGe m0 t).2.1 = some a0) (ops : List Op)
    (hsort : ∀ xs, (cfg.sortFn xs).length = xs.length) :
    let r := a0.run cfg ops (Arr.new cap grow exGe m0 t).2.2
    Arr.own t (r.2.1.destroy r.2.2) = Arr.own t m0 ∧ (r.2.1.destroy r.2.2).fault = m0.fault := by
  intro r
  obtain ⟨_, _, h3, h4, h5, h6⟩ := C01.new_history_refines cfg cap grow exGe m0 t a0 hnew ops hsort
  have htr : r.2.1.triple = t := by
    have := (Arr.run_led cfg ops a0 (Arr.new cap grow exGe m0 t).2.2
      (by rcases Arr.new_spec cap grow exGe m0 t with ⟨_, h, _⟩ | ⟨_, h, _⟩ | ⟨_, _, r', h1, _, hi, _⟩
          · rw [h] at hnew; simp at hnew
          · rw [h] at hnew; simp at hnew
          · rw [h1] at hnew; simp only [Option.some.injEq] at hnew; rw [← hnew]; exact hi) hsort).2.2.2
    show (a0.run cfg ops _).2.1.triple = t
    rw [this, h6]
  obtain ⟨d1, d2⟩ := Arr.destroy_spec r.2.1 r.2.2 (by rw [htr]; show 2 ≤ Arr.own t (a0.run cfg ops _).2.2; omega)
  rw [htr] at d1
  exact ⟨by rw [d1]; show Arr.own t (a0.run cfg ops _).2.2 - 2 = _; omega, by rw [d2]; exact h5⟩

/-- **the lifecycle composed**: construct (either triple), run any history, then any iterator program on
a fresh iterator (re-allocating insertions and removals included), then any further history, destroy —
under any refusal schedule the triple's block counter is back where it started and nothing faulted -/
theorem lifecycle_with_iterator (cfg : Cfg) (cap : Nat) (grow : Nat → Nat) (exGe : Nat → Bool) (m0 : Mem) (t : Triple)
    (a0 : Arr) (hnew : (Arr.new cap grow exGe m0 t).2.1 = some a0) (ops ops2 : List Op) (iops : List IterOp)
    (hsort : ∀ xs, (cfg.sortFn xs).length = xs.length) :
    let r := a0.run cfg ops (Arr.new cap grow exGe m0 t).2.2
    let i := r.2.1.iterRun {} iops r.2.2
    let r2 := i.2.1.run cfg ops2 i.2.2.2
    Arr.own t (r2.2.1.destroy r2.2.2) = Arr.own t m0 ∧ (r2.2.1.destroy r2.2.2).fault = m0.fault := by
  intro r i r2
  obtain ⟨_, _, h3, h4, h5, h6⟩ := C01.new_history_refines cfg cap grow exGe m0 t a0 hnew ops hsort
  have hi0 : a0.Inv := by
    rcases Arr.new_spec cap grow exGe m0 t with ⟨_, h, _⟩ | ⟨_, h, _⟩ | ⟨_, _, r', h1, _, hi, _⟩
    · rw [h] at hnew; simp at hnew
    · rw [h] at hnew; simp at hnew
    · rw [h1] at hnew; simp only [Option.some.injEq] at hnew; rw [← hnew]; exact hi
  have htr : r.2.1.triple = t := by
    show (a0.run cfg ops _).2.1.triple = t
    rw [(Arr.run_led cfg ops a0 _ hi0 hsort).2.2.2, h6]
  obtain ⟨_, _, p3, _, p5⟩ := C07Array.program_refines iops r.2.1 {} _ r.2.2 h3 (Arr.sim_init r.2.1)
  obtain ⟨l1, _, _, _, l5⟩ := C07Array.program_ledger iops r.2.1 {} _ r.2.2 h3 (Arr.sim_init r.2.1)
  obtain ⟨k1, _, _, _, _, k6⟩ := C01.history_ledger cfg ops2 i.2.1 i.2.2.2 p3 hsort
  obtain ⟨_, _, _, _, _, q6⟩ := C01.history_refines cfg ops2 i.2.1 i.2.2.2 p3 hsort
  have ht2 : r2.2.1.triple = t := by
    show (i.2.1.run cfg ops2 i.2.2.2).2.1.triple = t
    rw [k6]; show (r.2.1.iterRun {} iops r.2.2).2.1.triple = t
    rw [l5, htr]
  have hown : Arr.own t r2.2.2 = Arr.own t m0 + 2 := by
    show Arr.own t (i.2.1.run cfg ops2 i.2.2.2).2.2 = _
    have e1 : i.2.1.triple = t := by show (r.2.1.iterRun {} iops r.2.2).2.1.triple = t; rw [l5, htr]
    rw [e1] at k1
    rw [k1]
    show Arr.own t (r.2.1.iterRun {} iops r.2.2).2.2.2 = _
    rw [htr] at l1
    rw [l1]
    exact h4
  obtain ⟨d1, d2⟩ := Arr.destroy_spec r2.2.1 r2.2.2 (by rw [ht2]; omega)
  rw [ht2] at d1
  refine ⟨by rw [d1]; omega, ?_⟩
  rw [d2]
  show (i.2.1.run cfg ops2 i.2.2.2).2.2.fault = _
  rw [q6]
  show (r.2.1.iterRun {} iops r.2.2).2.2.2.fault = _
  rw [p5]
  exact h5

/-- a failed construction leaves nothing behind -/
theorem new_failed_leaves_nothing (cap : Nat) (grow : Nat → Nat) (exGe : Nat → Bool) (m : Mem) (t : Triple)
    (h : (Arr.new cap grow exGe m t).2.1 = none) :
    Arr.own t (Arr.new cap grow exGe m t).2.2 = Arr.own t m ∧ (Arr.new cap grow exGe m t).2.2.fault = m.fault := by
  rcases Arr.new_spec cap grow exGe m t with ⟨_, _, s3, _⟩ | ⟨_, _, _, _, s3, s4⟩ | ⟨_, _, r, h1, _⟩
  · rw [s3]; exact ⟨rfl, rfl⟩
  · exact ⟨s3, s4⟩
  · rw [h1] at h; simp at h

/-- (b) builders: the new array's two blocks — of the **source's triple** — are the only change; a
failed builder changes nothing; no builder faults -/
theorem builders_ledger (a : Arr) (b e : Nat) (cp : Nat → Nat) (p : Nat → Bool) (m : Mem) (hinv : a.Inv) :
    (Arr.own a.triple (a.subarray b e m).2.2 = Arr.own a.triple m + (if (a.subarray b e m).1 = .ok then 2 else 0) ∧
      Arr.Foreign a.triple m (a.subarray b e m).2.2) ∧
    (Arr.own a.triple (a.copyShallow m).2.2 = Arr.own a.triple m + (if (a.copyShallow m).1 = .ok then 2 else 0) ∧
      Arr.Foreign a.triple m (a.copyShallow m).2.2) ∧
    (Arr.own a.triple (a.copyDeep cp m).2.2.2 = Arr.own a.triple m + (if (a.copyDeep cp m).1 = .ok then 2 else 0) ∧
      Arr.Foreign a.triple m (a.copyDeep cp m).2.2.2) ∧
    (Arr.own a.triple (a.filter p m).2.2.2 = Arr.own a.triple m + (if (a.filter p m).1 = .ok then 2 else 0) ∧
      Arr.Foreign a.triple m (a.filter p m).2.2.2) ∧
    ((a.subarray b e m).2.2.fault = m.fault ∧ (a.copyShallow m).2.2.fault = m.fault ∧
      (a.copyDeep cp m).2.2.2.fault = m.fault ∧ (a.filter p m).2.2.2.fault = m.fault) := by
  refine ⟨⟨(Arr.subarray_led a b e m).1, (Arr.subarray_led a b e m).2.1⟩,
    ⟨(Arr.copyShallow_led a m).1, (Arr.copyShallow_led a m).2.1⟩,
    ⟨(Arr.copyDeep_led cp a m).1, (Arr.copyDeep_led cp a m).2.1⟩,
    ⟨(Arr.filter_led p a m).1, (Arr.filter_led p a m).2.1⟩, ?_, ?_, ?_, ?_⟩
  · rcases Arr.subarray_spec a b e m hinv with ⟨_, _, _, s3⟩ | ⟨_, _, _, _, _, s4⟩ | ⟨_, _, _, r, _, _, _, _, _, _, s4⟩
    · rw [s3]
    · exact s4
    · exact s4
  · rcases Arr.copyShallow_spec a m hinv with ⟨_, _, _, _, s4⟩ | ⟨_, _, r, _, _, _, _, _, _, s4⟩ <;> exact s4
  · rcases Arr.copyDeep_spec cp a m hinv with ⟨_, _, _, _, s4⟩ | ⟨_, _, r, _, _, _, _, _, _, _, s4⟩ <;> exact s4
  · rcases Arr.filter_spec p a m hinv with ⟨_, _, _, s3⟩ | ⟨_, _, _, _, _, s4⟩ | ⟨_, _, _, r, _, _, _, _, _, _, _, s4⟩
    · rw [s3]
    · exact s4
    · exact s4

/-- `cc_array_destroy` releases the two blocks through the array's own triple and nothing else -/
theorem destroy_ledger (a : Arr) (m : Mem) (hlive : 2 ≤ Arr.own a.triple m) :
    Arr.own a.triple (a.destroy m) = Arr.own a.triple m - 2 ∧ (a.destroy m).fault = m.fault ∧
    Arr.Foreign a.triple m (a.destroy m) :=
  ⟨(Arr.destroy_spec a m hlive).1, (Arr.destroy_spec a m hlive).2, Arr.destroy_foreign a m⟩

/-- (c) `cc_array_destroy_cb` hands exactly the held elements, in index order, to the callback, then
releases the two blocks -/
theorem destroy_cb_visits_each_once (a : Arr) (m : Mem) (hinv : a.Inv) (hlive : 2 ≤ Arr.own a.triple m) :
    (a.destroyCb m).1 = a.abs ∧ Arr.own a.triple (a.destroyCb m).2 = Arr.own a.triple m - 2 ∧
    (a.destroyCb m).2.fault = m.fault :=
  Arr.destroyCb_spec a m hinv hlive

/-- (c) `cc_array_remove_all_free` hands every non-NULL element to `free` (count), empties the array
and touches no block of the array itself -/
theorem remove_all_free_frees_each_once (a : Arr) (m : Mem) (hinv : a.Inv) :
    (a.removeAllFree m).1 = a.abs.countP (· != 0) ∧ (a.removeAllFree m).2.1.abs = [] ∧ (a.removeAllFree m).2.2 = m := by
  obtain ⟨r1, r2, _, _, r5⟩ := Arr.removeAllFree_spec a m hinv
  exact ⟨r1, r2, r5⟩

/-- (a)+(b) iterator programs, including insertions that re-allocate: no fault, invariant kept, and the
ledger balanced for either allocator triple (own counter where it was, the other allocator untouched:
both `live` and `liveLibc` unchanged) -/
theorem iter_program_nofault_ledger (ops : List IterOp) (a : Arr) (it : ArrIter) (c : Spec.Seq.Cursor) (m : Mem)
    (hinv : a.Inv) (hs : Arr.Sim a it c) :
    (a.iterRun it ops m).2.2.2.fault = m.fault ∧ (a.iterRun it ops m).2.2.2.live = m.live ∧
    (a.iterRun it ops m).2.1.Inv ∧ (a.iterRun it ops m).2.2.2.liveLibc = m.liveLibc ∧
    Arr.own a.triple (a.iterRun it ops m).2.2.2 = Arr.own a.triple m ∧
    Arr.Foreign a.triple m (a.iterRun it ops m).2.2.2 := by
  obtain ⟨_, _, h3, h4, h5⟩ := C07Array.program_refines ops a it c m hinv hs
  obtain ⟨l1, l2, _, b2, _⟩ := C07Array.program_ledger ops a it c m hinv hs
  exact ⟨h5, h4, h3, b2, l1, l2⟩

/-- (a)+(b) zip iterator mutators on two arrays of any allocator triples (equal or mixed): `zip_iter_add`
keeps both live-block counts (each growth step goes through its own array's triple), the others do not
touch the ledger at all -/
theorem zip_nofault_ledger (a1 a2 : Arr) (it : ArrIter) (z : Spec.Seq.ZipCursor) (x y : Nat) (m : Mem)
    (h1 : a1.Inv) (h2 : a2.Inv) (hs : Arr.ZSim a1 a2 it z) :
    ((Arr.zipAdd a1 a2 it x y m).2.2.2.2.live = m.live ∧ (Arr.zipAdd a1 a2 it x y m).2.2.2.2.fault = m.fault ∧
      (Arr.zipAdd a1 a2 it x y m).2.2.2.2.liveLibc = m.liveLibc) ∧
    (Arr.zipRemove a1 a2 it m).2.2.2.2.2 = m ∧ (Arr.zipReplace a1 a2 it x y m).2.2.2.2 = m ∧
    (Arr.zipNext a1 a2 it m).2.2.2 = m := by
  obtain ⟨_, sl, sf⟩ := Arr.zipAdd_sim a1 a2 it z x y m h1 h2 hs
  exact ⟨⟨sl, sf, (Arr.zipAdd_balanced a1 a2 it x y m h1 h2).2⟩, (Arr.zipRemove_sim a1 a2 it z m h1 h2 hs).2.2.2.2.2.2.2.1,
    (Arr.zipReplace_sim a1 a2 it z x y m h1 h2 hs).2.2.2.2.2.2.2.1, (Arr.zipNext_sim a1 a2 it z m h1 h2 hs).2.2.2⟩

/-- whole zip programs: `C07Array.zip_program_ledger` (both counters, fault) -/
theorem zip_program_nofault_ledger (ops : List Spec.Seq.ZipOp) (a1 a2 : Arr) (it : ArrIter) (z : Spec.Seq.ZipCursor)
    (m : Mem) (h1 : a1.Inv) (h2 : a2.Inv) (hs : Arr.ZSim a1 a2 it z) :
    (Arr.zipRun a1 a2 it ops m).2.2.2.2.live = m.live ∧ (Arr.zipRun a1 a2 it ops m).2.2.2.2.liveLibc = m.liveLibc ∧
    (Arr.zipRun a1 a2 it ops m).2.2.2.2.fault = m.fault :=
  C07Array.zip_program_ledger ops a1 a2 it z m h1 h2 hs

/-! Non-vacuity: a default-constructed array (C-library triple) grows, is filtered and destroyed:
only the C-library counter moves and it returns to zero. -/
example :
    let r := Arr.new 1 (fun c => 2 * c) (fun _ => false) {} .libc
    let cfg : Cfg := ⟨fun v => v % 2 == 0, fun x y => (x : Int) - y, fun x y => x + y, id⟩
    (r.2.1.map fun a =>
      let h := a.run cfg [.add 1, .add 2, .add 3, .filterMut, .trimCapacity] r.2.2
      (h.2.1.abs, h.2.2.liveLibc, h.2.2.live, h.2.2.fault, (h.2.1.destroy h.2.2).liveLibc, (h.2.1.destroy h.2.2).fault)) =
    some ([2], 2, 0, false, 0, false) := by
  decide

end CC.Properties.C06Array
