import CollectionsC.Proofs.Rbuf
import CollectionsC.Generated.FuncsRbuf
/-! # C19 — translation validation of the ring-buffer model

`Generated/FuncsRbuf.lean` is re-translated from the current text of `src/cc_ring_buffer.c` on every
build (`tools/gen_funcs.py`): `struct ring_buffer` and `struct ring_buffer_conf` as records with all
their fields (the allocator triple as `Option Triple`), and **every function of the file** —
`cc_rbuf_conf_init`, `cc_rbuf_conf_new`, `cc_rbuf_new`, `cc_rbuf_destroy`, `cc_rbuf_enqueue`,
`cc_rbuf_dequeue`, `cc_rbuf_peek`, `cc_rbuf_is_empty`, `cc_rbuf_size` — statement by statement, `size_t`
arithmetic with wrap-around, allocator calls as `Mem.allocT`/`Mem.freeT`, and with a **`fault` result
that is true whenever the C execution would have had undefined behaviour** (array index outside the
block, `% 0`, call through a NULL function pointer, dereference of a possibly-NULL object).

This file proves, for each translated function: on **every state that satisfies `Rbuf.Inv`** (for the
constructors: every configuration and every ledger, refusals included) the translated function is
**fault-free** and returns what the hand-written model function of `Model/Rbuf.lean` returns — same
status (numeric code), same out-value, same resulting state (`ofRbuf` maps a model state to the generated
record field by field, the three function pointers being the state's triple; `toRbuf` back), same ledger —
and the model's ledger reports no fault either.  So an edit of the C text changes the generated definition
and breaks the theorem about that function at build time; an edit that removes a guard and thereby lets an
out-of-range access happen breaks `fault = false` even where the returned values would coincide.

Block identity: the generated records carry ghost ids of the allocator blocks they live in (`id_` for the struct,
`buf_id` for the slot array); an allocation takes the next id from the supply `nid`, `mem_free(x)` consumes the
id of `x`, and touching or releasing a block whose id was already consumed in the same call is a `fault`.  The
hand-written model counts blocks only, so the agreement for the constructor and the destructor reads: same
ledger counts, no fault, and the ids released / owned are exactly the object's two blocks.

Documented preconditions: `r.cap < 2 ^ 64` — the capacity is a `size_t` value (the model computes in
`Nat`, the translated text wraps at `2^64`; they agree because every intermediate value is at most the
capacity); `GenF.cc_rbuf_peek_range i` — the index is an `int` (generated from the declared type). -/
namespace CC.Properties.C19Gen
open CC

/-- model state ↦ generated record (`capacity` is `cap` in the model; the struct's three allocator
pointers all denote the state's triple) -/
def ofRbuf (r : Rbuf) (sid : Nat := 0) (bid : Nat := 0) : GenF.ring_buffer :=
  { size := r.size, capacity := r.cap, head := r.head, tail := r.tail, buf := r.buf,
    mem_alloc := some r.triple, mem_calloc := some r.triple, mem_free := some r.triple, id_ := sid, buf_id := bid }

/-- generated record ↦ model state -/
def toRbuf (g : GenF.ring_buffer) : Rbuf :=
  { size := g.size, cap := g.capacity, head := g.head, tail := g.tail, buf := g.buf,
    triple := g.mem_free.getD .conf }

theorem toRbuf_ofRbuf (r : Rbuf) : toRbuf (ofRbuf r) = r := rfl

/-- the configuration record `cc_rbuf_conf_new` is given: capacity and the caller's triple -/
def confOf (t : Triple) (cap : Nat) : GenF.ring_buffer_conf :=
  { capacity := cap, mem_alloc := some t, mem_calloc := some t, mem_free := some t }

/-- the numeric status codes the translated text returns (re-checked against `Generated/Constants.lean`) -/
theorem codes : Stat.ok.code = 0 ∧ Stat.errAlloc.code = 1 ∧ Stat.errOutOfRange.code = 8 := by decide

/-- `cc_rbuf_enqueue`: fault-free, same state, ledger untouched -/
theorem rbuf_enqueue_agrees (r : Rbuf) (x : Nat) (m : Mem) (h : r.Inv) (hc : r.cap < 2 ^ 64) :
    GenF.cc_rbuf_enqueue (ofRbuf r) x = (ofRbuf (r.enqueue x m).1, false) ∧
    toRbuf (GenF.cc_rbuf_enqueue (ofRbuf r) x).1 = (r.enqueue x m).1 ∧
    (r.enqueue x m).2 = m := by
  have hm := Rbuf.enqueue_nofault r x m h
  obtain ⟨h1, h2, h3, h4, h5⟩ := h
  have hh : r.head < r.cap := by rw [h5]; exact Nat.mod_lt _ h1
  have h0 : r.cap ≠ 0 := by omega
  have e1 : GenF.wadd r.tail 1 = r.tail + 1 := by unfold GenF.wadd; omega
  have e2 : GenF.wadd r.head 1 = r.head + 1 := by unfold GenF.wadd; omega
  have e3 : r.size < r.cap → GenF.wadd r.size 1 = r.size + 1 := by intro _; unfold GenF.wadd; omega
  have key : GenF.cc_rbuf_enqueue (ofRbuf r) x = (ofRbuf (r.enqueue x m).1, false) := by
    unfold GenF.cc_rbuf_enqueue Rbuf.enqueue ofRbuf
    by_cases c1 : r.size = r.cap <;> by_cases c2 : r.size < r.cap <;>
      simp [c1, c2, e1, e2, e3, hh, h0, h2]
  rw [key]
  exact ⟨rfl, toRbuf_ofRbuf _, hm⟩

/-- `cc_rbuf_dequeue`: fault-free; status code, out-value, state; ledger untouched -/
theorem rbuf_dequeue_agrees (r : Rbuf) (m : Mem) (h : r.Inv) (hc : r.cap < 2 ^ 64) :
    GenF.cc_rbuf_dequeue (ofRbuf r) =
      ((r.dequeue m).1.code, (r.dequeue m).2.1, ofRbuf (r.dequeue m).2.2.1, false) ∧
    toRbuf (GenF.cc_rbuf_dequeue (ofRbuf r)).2.2.1 = (r.dequeue m).2.2.1 ∧
    (r.dequeue m).2.2.2 = m := by
  have hm := Rbuf.dequeue_nofault r m h
  obtain ⟨h1, h2, h3, h4, h5⟩ := h
  have h0 : r.cap ≠ 0 := by omega
  have e1 : GenF.wadd r.tail 1 = r.tail + 1 := by unfold GenF.wadd; omega
  have key : GenF.cc_rbuf_dequeue (ofRbuf r) =
      ((r.dequeue m).1.code, (r.dequeue m).2.1, ofRbuf (r.dequeue m).2.2.1, false) := by
    unfold GenF.cc_rbuf_dequeue Rbuf.dequeue ofRbuf
    by_cases c : r.size = 0
    · simp [c, GenF.cc_rbuf_is_empty, codes]
    · have e2 : GenF.wsub r.size 1 = r.size - 1 := by unfold GenF.wsub; simp; omega
      simp [c, e1, e2, h4, h0, h2, GenF.cc_rbuf_is_empty, codes]
  rw [key]
  exact ⟨rfl, toRbuf_ofRbuf _, hm⟩

/-- `cc_rbuf_peek(rbuf, int index)`: fault-free for every `int` -/
theorem rbuf_peek_agrees (r : Rbuf) (i : Int) (m : Mem) (h : r.Inv) (hi : GenF.cc_rbuf_peek_range i) :
    GenF.cc_rbuf_peek (ofRbuf r) i = ((r.peek i m).1, false) ∧ (r.peek i m).2 = m := by
  obtain ⟨h1, h2, h3, h4, h5⟩ := h
  unfold GenF.cc_rbuf_peek_range at hi
  unfold GenF.cc_rbuf_peek Rbuf.peek ofRbuf GenF.castSizeT
  by_cases c : i < 0
  · simp [c]
  · have e : (i % 18446744073709551616).toNat = i.toNat := by
      have : i % 18446744073709551616 = i := Int.emod_eq_of_lt (by omega) (by omega)
      rw [this]
    have c' : 0 ≤ i := by omega
    by_cases c2 : r.cap ≤ i.toNat
    · simp [c, e, c2]
    · have : i.toNat < r.buf.length := by omega
      simp [c, c', e, c2, this]

/-- `cc_rbuf_is_empty` (every state) -/
theorem rbuf_is_empty_agrees (r : Rbuf) : GenF.cc_rbuf_is_empty (ofRbuf r) = r.isEmpty := rfl

/-- `cc_rbuf_size` (every state): the model has no function for it, the harness reads the field -/
theorem rbuf_size_agrees (r : Rbuf) : GenF.cc_rbuf_size (ofRbuf r) = r.size := rfl

/-- `cc_rbuf_conf_new`, for every triple, capacity, ledger and id supply (refusal of the first or the second
allocation included): status code, the constructed object (its two blocks carry the ids `nid` and `nid + 1`),
the ledger, the id supply, the blocks released on the way (the struct, when the second allocation is refused);
fault-free -/
theorem rbuf_conf_new_agrees (t : Triple) (cap : Nat) (m : Mem) (nid : Nat) :
    GenF.cc_rbuf_conf_new (confOf t cap) m nid =
      ((Rbuf.newT t cap m).1.code, (Rbuf.newT t cap m).2.1.map (fun r => ofRbuf r nid (nid + 1)),
       (Rbuf.newT t cap m).2.2,
       (if (m.allocT t).1 then (if ((m.allocT t).2.allocT t).1 then nid + 2 else nid + 1) else nid),
       (if (m.allocT t).1 && !((m.allocT t).2.allocT t).1 then [nid] else []), false) := by
  unfold GenF.cc_rbuf_conf_new Rbuf.newT confOf
  by_cases a1 : (m.allocT t).1 = true
  · by_cases a2 : ((m.allocT t).2.allocT t).1 = true
    · simp [a1, a2, ofRbuf, codes, GenF.isDead]
    · simp [a1, a2, codes, GenF.isDead, GenF.ring_buffer.zero]
  · simp [a1, codes, GenF.isDead]

/-- `cc_rbuf_conf_init`: whatever the record contained, it now holds the default capacity of the header
and the C library's triple -/
theorem rbuf_conf_init_agrees (u : GenF.ring_buffer_conf) :
    GenF.cc_rbuf_conf_init u = confOf .libc Gen.DEFAULT_CC_RBUF_CAPACITY := by
  unfold GenF.cc_rbuf_conf_init confOf
  simp <;> decide

/-- `cc_rbuf_new`: whatever the uninitialised local configuration contained, it is `cc_rbuf_conf_new` with
the header's default capacity on the C library's triple (whose allocations are never refused) -/
theorem rbuf_new_agrees (u : GenF.ring_buffer_conf) (m : Mem) (nid : Nat) :
    GenF.cc_rbuf_new u m nid =
      ((Rbuf.newT .libc Gen.DEFAULT_CC_RBUF_CAPACITY m).1.code,
       (Rbuf.newT .libc Gen.DEFAULT_CC_RBUF_CAPACITY m).2.1.map (fun r => ofRbuf r nid (nid + 1)),
       (Rbuf.newT .libc Gen.DEFAULT_CC_RBUF_CAPACITY m).2.2, nid + 2, [], false) := by
  unfold GenF.cc_rbuf_new
  simp only [rbuf_conf_init_agrees, rbuf_conf_new_agrees]
  simp [Mem.allocT]

/-- `cc_rbuf_destroy`: both blocks go back through the buffer's own release pointer, first the slot array, then
the struct; exactly the object's two blocks are released; fault-free (the two ids are different) -/
theorem rbuf_destroy_agrees (r : Rbuf) (m : Mem) (sid bid : Nat) (hd : sid ≠ bid) :
    GenF.cc_rbuf_destroy (ofRbuf r sid bid) m = (r.destroy m, [sid, bid], false) := by
  unfold GenF.cc_rbuf_destroy Rbuf.destroy ofRbuf
  simp [GenF.isDead, hd]

/-- the hypotheses are satisfiable by a non-trivial state: a full buffer of capacity 3 whose head has
wrapped; the translated `enqueue` overwrites the oldest item, advances both cursors and does not fault; on a
state that violates the invariant (a block shorter than the capacity) the same text *does* fault -/
example :
    let r : Rbuf := { size := 3, cap := 3, head := 1, tail := 1, buf := [7, 8, 9] }
    r.Inv ∧ r.cap < 2 ^ 64 ∧
    (GenF.cc_rbuf_enqueue (ofRbuf r) 5).1.buf = [7, 5, 9] ∧ (GenF.cc_rbuf_enqueue (ofRbuf r) 5).1.tail = 2 ∧
    (GenF.cc_rbuf_enqueue (ofRbuf r) 5).2 = false ∧
    (GenF.cc_rbuf_dequeue (ofRbuf r)).1 = 0 ∧ (GenF.cc_rbuf_dequeue (ofRbuf r)).2.1 = some 8 ∧
    (GenF.cc_rbuf_peek (ofRbuf { r with buf := [7] }) 2).2 = true := by decide

end CC.Properties.C19Gen
