import CollectionsC.Proofs.Rbuf
import CollectionsC.Generated.Funcs
/-! # C19 — translation validation of the ring-buffer model

`Generated/Funcs.lean` is re-translated from the current text of `src/cc_ring_buffer.c` on every
build (`tools/gen_funcs.py`): `struct ring_buffer` as the record `GenF.ring_buffer` (data fields
only) and `cc_rbuf_enqueue`, `cc_rbuf_dequeue`, `cc_rbuf_peek`, `cc_rbuf_is_empty`, `cc_rbuf_size`
as functions on that record, statement by statement, `size_t` arithmetic with wrap-around.

This file proves that each translated function agrees with the hand-written model function of
`Model/Rbuf.lean` on **every state that satisfies `Rbuf.Inv`**, every item, every ledger: same status
(numeric code), same out-value, same resulting state (`ofRbuf` maps a model state to the generated
record field by field, `toRbuf` back; the allocator triple is not a data field and is carried along),
and the model's ledger is returned unchanged (its checked accesses never fault under `Inv`).  So an
edit of the C text changes the generated definition and breaks the theorem about that function at
build time.

Documented precondition: `r.cap < 2 ^ 64` — the capacity is a `size_t` value.  The model computes in
`Nat`; the translated text wraps at `2^64`; they agree because every intermediate value is at most the
capacity.  `peek` takes an `int`: `-2^31 ≤ i < 2^31`. -/
namespace CC.Properties.C19Gen
open CC

/-- model state ↦ generated record (`capacity` is `cap` in the model) -/
def ofRbuf (r : Rbuf) : GenF.ring_buffer :=
  { size := r.size, capacity := r.cap, head := r.head, tail := r.tail, buf := r.buf }

/-- generated record ↦ model state; the allocator triple is not a data field -/
def toRbuf (t : Triple) (g : GenF.ring_buffer) : Rbuf :=
  { size := g.size, cap := g.capacity, head := g.head, tail := g.tail, buf := g.buf, triple := t }

theorem toRbuf_ofRbuf (r : Rbuf) : toRbuf r.triple (ofRbuf r) = r := rfl

/-- `cc_rbuf_enqueue` -/
theorem rbuf_enqueue_agrees (r : Rbuf) (x : Nat) (m : Mem) (h : r.Inv) (hc : r.cap < 2 ^ 64) :
    GenF.cc_rbuf_enqueue (ofRbuf r) x = ofRbuf (r.enqueue x m).1 ∧
    toRbuf r.triple (GenF.cc_rbuf_enqueue (ofRbuf r) x) = (r.enqueue x m).1 ∧
    (r.enqueue x m).2 = m := by
  obtain ⟨h1, h2, h3, h4, h5⟩ := h
  have e1 : GenF.wadd r.tail 1 = r.tail + 1 := by unfold GenF.wadd; omega
  have e2 : GenF.wadd r.head 1 = r.head + 1 := by
    have : r.head < r.cap := by rw [h5]; exact Nat.mod_lt _ h1
    unfold GenF.wadd; omega
  have e3 : r.size < r.cap → GenF.wadd r.size 1 = r.size + 1 := by intro _; unfold GenF.wadd; omega
  refine ⟨?_, ?_, Rbuf.enqueue_nofault r x m ⟨h1, h2, h3, h4, h5⟩⟩
  all_goals
    unfold GenF.cc_rbuf_enqueue Rbuf.enqueue ofRbuf
    by_cases c1 : r.size = r.cap <;> by_cases c2 : r.size < r.cap <;> simp [c1, c2, toRbuf, e1, e2, e3]

/-- `cc_rbuf_dequeue`: status code, out-value, state -/
theorem rbuf_dequeue_agrees (r : Rbuf) (m : Mem) (h : r.Inv) (hc : r.cap < 2 ^ 64) :
    (GenF.cc_rbuf_dequeue (ofRbuf r)).1 = (r.dequeue m).1.code ∧
    (GenF.cc_rbuf_dequeue (ofRbuf r)).2.1 = (r.dequeue m).2.1 ∧
    (GenF.cc_rbuf_dequeue (ofRbuf r)).2.2 = ofRbuf (r.dequeue m).2.2.1 ∧
    toRbuf r.triple (GenF.cc_rbuf_dequeue (ofRbuf r)).2.2 = (r.dequeue m).2.2.1 ∧
    (r.dequeue m).2.2.2 = m := by
  have hm := Rbuf.dequeue_nofault r m h
  obtain ⟨h1, h2, h3, h4, h5⟩ := h
  have e1 : GenF.wadd r.tail 1 = r.tail + 1 := by unfold GenF.wadd; omega
  refine ⟨?_, ?_, ?_, ?_, hm⟩
  all_goals
    unfold GenF.cc_rbuf_dequeue Rbuf.dequeue ofRbuf
    by_cases c : r.size = 0
    · simp [c, toRbuf, GenF.cc_rbuf_is_empty] <;> first | decide | (cases r; simp_all)
    · have e2 : GenF.wsub r.size 1 = r.size - 1 := by unfold GenF.wsub; simp; omega
      simp [c, e1, e2, toRbuf, GenF.cc_rbuf_is_empty] <;> decide

/-- `cc_rbuf_peek(rbuf, int index)` -/
theorem rbuf_peek_agrees (r : Rbuf) (i : Int) (m : Mem) (h : r.Inv) (hi : -2 ^ 31 ≤ i ∧ i < 2 ^ 31) :
    GenF.cc_rbuf_peek (ofRbuf r) i = (r.peek i m).1 ∧ (r.peek i m).2 = m := by
  obtain ⟨h1, h2, h3, h4, h5⟩ := h
  unfold GenF.cc_rbuf_peek Rbuf.peek ofRbuf GenF.castSizeT
  by_cases c : i < 0
  · simp [c]
  · have e : (i % 18446744073709551616).toNat = i.toNat := by
      have : i % 18446744073709551616 = i := Int.emod_eq_of_lt (by omega) (by omega)
      rw [this]
    by_cases c2 : r.cap ≤ i.toNat
    · simp [c, e, c2]
    · have : i.toNat < r.buf.length := by omega
      simp [c, e, c2, this]

/-- `cc_rbuf_is_empty` (every state) -/
theorem rbuf_is_empty_agrees (r : Rbuf) : GenF.cc_rbuf_is_empty (ofRbuf r) = r.isEmpty := rfl

/-- `cc_rbuf_size` (every state): the model has no function for it, the harness reads the field -/
theorem rbuf_size_agrees (r : Rbuf) : GenF.cc_rbuf_size (ofRbuf r) = r.size := rfl

/-- the hypotheses are satisfiable by a non-trivial state: a full buffer of capacity 3 whose head has
wrapped; the translated `enqueue` overwrites the oldest item and advances both cursors -/
example :
    let r : Rbuf := { size := 3, cap := 3, head := 1, tail := 1, buf := [7, 8, 9] }
    r.Inv ∧ r.cap < 2 ^ 64 ∧
    (GenF.cc_rbuf_enqueue (ofRbuf r) 5).buf = [7, 5, 9] ∧ (GenF.cc_rbuf_enqueue (ofRbuf r) 5).tail = 2 ∧
    (GenF.cc_rbuf_dequeue (ofRbuf r)).1 = 0 ∧ (GenF.cc_rbuf_dequeue (ofRbuf r)).2.1 = some 8 := by decide

end CC.Properties.C19Gen
