import CollectionsC.Properties.C03
import CollectionsC.Proofs.TreeTableMem
/-! # C08 (tree table / tree set part): a failed allocation is atomic

Allocating calls: the constructors (2 resp. 3 requests) and `add` of an absent key (1 request).
`Mem.nrefused` counts the refusals that fired in the current call.  Quantifiers: every state
satisfying the invariant, every call, **every** allocator schedule.  Iterator cursors are separate
values that no table call takes as an argument, so they are trivially unchanged. -/
namespace CC.Properties.C08Tree
open CC CC.Spec CC.Spec.OrdMap
variable {cmp : Nat → Nat → Int}

/-- **refused_iff**: a call reports `CC_ERR_ALLOC` exactly when a refusal fired during it -/
theorem refused_iff (t : TreeTable) (op : Op) (m : Mem) :
    (t.step cmp op m).1.st = some .errAlloc ↔ (t.step cmp op m).2.2.1.nrefused = m.nrefused + 1 := by
  rcases TreeTable.step_nrefused (cmp := cmp) t op m with ⟨a, b⟩ | ⟨a, b⟩
  · exact ⟨fun _ => b, fun _ => a⟩
  · exact ⟨fun x => absurd x a, fun x => by omega⟩

/-- a call that does not report `CC_ERR_ALLOC` saw no refusal -/
theorem not_refused (t : TreeTable) (op : Op) (m : Mem) (h : (t.step cmp op m).1.st ≠ some .errAlloc) :
    (t.step cmp op m).2.2.1.nrefused = m.nrefused := by
  rcases TreeTable.step_nrefused (cmp := cmp) t op m with ⟨a, _⟩ | ⟨_, b⟩
  · exact absurd a h
  · exact b

/-- `add` fails exactly when the key is new and the allocator refuses the node -/
theorem add_refused_iff (ho : TotalOrder cmp) (t : TreeTable) (h : t.Inv cmp) (k v : Nat) (m : Mem) :
    (t.add cmp k v m).1 = .errAlloc ↔ (contains t.abs k = false ∧ m.alloc.1 = false) := by
  have a := (TreeTable.add_spec ho h k v m).1
  rw [a]
  cases contains t.abs k <;> cases m.alloc.1 <;> simp

/-- **atomic**: after `CC_ERR_ALLOC` the table is physically what it was (tree, colours, size), the
ledger holds exactly the blocks it held, nothing faulted -/
theorem atomic (ho : TotalOrder cmp) (t : TreeTable) (h : t.Inv cmp) (op : Op) (m : Mem)
    (hm : t.size + 2 ≤ m.live) (hf : (t.step cmp op m).1.st = some .errAlloc) :
    (t.step cmp op m).2.1 = t ∧ (t.step cmp op m).2.2.1.live = m.live ∧
    (t.step cmp op m).2.2.1.fault = m.fault := by
  have s := C03.step_refines ho t h op m hm
  have e := (s.inert .errAlloc hf (by decide)).1
  have l := s.ledger
  rw [e] at l
  exact ⟨e, by omega, s.nofault⟩

theorem add_atomic (ho : TotalOrder cmp) (t : TreeTable) (h : t.Inv cmp) (k v : Nat) (m : Mem)
    (hk : contains t.abs k = false) (hr : m.alloc.1 = false) :
    (t.add cmp k v m).1 = .errAlloc ∧ (t.add cmp k v m).2.1 = t ∧ (t.add cmp k v m).2.2.1.live = m.live ∧
    (t.add cmp k v m).2.2.1.fault = m.fault := C03.add_atomic ho t h k v m hk hr

/-- the constructor: `CC_ERR_ALLOC` iff one of its two requests is refused; then no object, and the
block obtained before the refusal has been released -/
theorem new_refused_iff (m : Mem) :
    (TreeTable.new m).1 = .errAlloc ↔ (m.alloc.1 = false ∨ m.alloc.2.alloc.1 = false) :=
  TreeTable.new_refused_iff m
theorem new_atomic (m : Mem) (h : (TreeTable.new m).1 = .errAlloc) :
    (TreeTable.new m).2.1 = none ∧ (TreeTable.new m).2.2.live = m.live ∧ (TreeTable.new m).2.2.fault = m.fault :=
  (C03.new_inv (cmp := fun _ _ => 0) m).2.2 h
/-- an allocator that does not refuse: the constructor succeeds -/
theorem new_succeeds (m : Mem) (h : m.sched = []) : (TreeTable.new m).1 = .ok := by
  have a1 := Mem.alloc_nil m h
  have a2 := Mem.alloc_nil m.alloc.2 a1.2
  unfold TreeTable.new; dsimp only
  simp [a1.1, a2.1]

/-- **continue**: a history with a refused call in the middle ends in the same table (physically) and
produces the same outputs for the calls after it as the history without that call -/
theorem continue_ (ho : TotalOrder cmp) (ops₁ ops₂ : List (Op × List Bool)) (op : Op) (sched : List Bool)
    (t : TreeTable) (h : t.Inv cmp) (m : Mem) (hm : t.size + 2 ≤ m.live)
    (hf : ((t.run cmp ops₁ m).2.2.1.step cmp op ((t.run cmp ops₁ m).2.2.2.begin sched)).1.st = some .errAlloc) :
    (t.run cmp (ops₁ ++ (op, sched) :: ops₂) m).2.2.1 = (t.run cmp (ops₁ ++ ops₂) m).2.2.1 ∧
    ∃ o outs₂, (t.run cmp (ops₁ ++ (op, sched) :: ops₂) m).1 = (t.run cmp ops₁ m).1 ++ o :: outs₂ ∧
      o.st = some .errAlloc ∧ (t.run cmp (ops₁ ++ ops₂) m).1 = (t.run cmp ops₁ m).1 ++ outs₂ := by
  obtain ⟨_, _, c, _, e, _⟩ := C03.history_refines ho ops₁ t h m hm
  have hm1 : (t.run cmp ops₁ m).2.2.1.size + 2 ≤ ((t.run cmp ops₁ m).2.2.2.begin sched).live := by
    show _ ≤ (t.run cmp ops₁ m).2.2.2.live; omega
  have a := (atomic ho _ c op _ hm1 hf).1
  rw [TreeTable.run_append, TreeTable.run_append]
  simp only [TreeTable.run]
  rw [a]
  have k := TreeTable.run_congr (cmp := cmp) ops₂ (t.run cmp ops₁ m).2.2.1
    ((t.run cmp ops₁ m).2.2.1.step cmp op ((t.run cmp ops₁ m).2.2.2.begin sched)).2.2.1 (t.run cmp ops₁ m).2.2.2
  rw [k.2.2]
  exact ⟨rfl, _, _, rfl, hf, by rw [k.1]⟩

/-- the same on the ideal map -/
theorem spec_continue (m : OrdMap) (ops₁ ops₂ : List (Op × Bool)) (op : Op)
    (hf : (OrdMap.step cmp (OrdMap.run cmp m ops₁).2 op true).1.st = some .errAlloc) :
    (OrdMap.run cmp m (ops₁ ++ [(op, true)] ++ ops₂)).2 = (OrdMap.run cmp m (ops₁ ++ ops₂)).2 :=
  C03.C08_continue m ops₁ ops₂ op hf

/-! ## tree set -/

theorem set_refused_iff (s : TreeSet) (op : OrdSet.Op) (m : Mem) :
    (s.step cmp op m).1.st = some .errAlloc ↔ (s.step cmp op m).2.2.1.nrefused = m.nrefused + 1 := by
  rw [TreeSet.step_eq_table]
  rw [← refused_iff (cmp := cmp) s.t (OrdSet.toMapOp op) m]
  show Option.map OrdSet.mapStat _ = _ ↔ _
  cases hs : (s.t.step cmp (OrdSet.toMapOp op) m).1.st with
  | none => simp
  | some st => cases st <;> simp [OrdSet.mapStat]

theorem set_atomic (ho : TotalOrder cmp) (s : TreeSet) (h : s.Inv cmp) (op : OrdSet.Op) (m : Mem)
    (hm : s.t.size + 2 ≤ m.live) (hf : (s.step cmp op m).1.st = some .errAlloc) :
    (s.step cmp op m).2.1 = s ∧ (s.step cmp op m).2.2.1.live = m.live ∧
    (s.step cmp op m).2.2.1.fault = m.fault := by
  have hf' : (s.t.step cmp (OrdSet.toMapOp op) m).1.st = some .errAlloc := by
    rw [TreeSet.step_eq_table] at hf
    change Option.map OrdSet.mapStat _ = _ at hf
    cases hs : (s.t.step cmp (OrdSet.toMapOp op) m).1.st with
    | none => rw [hs] at hf; simp at hf
    | some st => rw [hs] at hf; cases st <;> simp_all [OrdSet.mapStat]
  have a := atomic ho s.t h.1 (OrdSet.toMapOp op) m hm hf'
  rw [TreeSet.step_eq_table]
  exact ⟨by show TreeSet.mk _ = s; rw [a.1], a.2.1, a.2.2⟩

/-- the set constructor: three requests; a refusal of the inner table's requests is propagated and the
set header is released -/
theorem set_new_refused_iff (m : Mem) :
    (TreeSet.new m).1 = .errAlloc ↔
      (m.alloc.1 = false ∨ m.alloc.2.alloc.1 = false ∨ m.alloc.2.alloc.2.alloc.1 = false) := by
  unfold TreeSet.new TreeTable.new; dsimp only
  cases h1 : m.alloc.1 <;> cases h2 : m.alloc.2.alloc.1 <;> cases h3 : m.alloc.2.alloc.2.alloc.1 <;> simp
theorem set_new_atomic (m : Mem) (h : (TreeSet.new m).1 = .errAlloc) :
    (TreeSet.new m).2.1 = none ∧ (TreeSet.new m).2.2.live = m.live ∧ (TreeSet.new m).2.2.fault = m.fault :=
  (C03.set_new_inv (cmp := fun _ _ => 0) m).2.2 h

end CC.Properties.C08Tree
