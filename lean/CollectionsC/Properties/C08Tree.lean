import CollectionsC.Properties.C03
/-! # C08 (tree table / tree set part): a failed allocation is atomic

Allocating calls: the constructors (2 resp. 3 requests) and `add` of an absent key (1 request), all on
the container's own allocator triple.  `Mem.nrefused` counts the refusals that fired in the current
call (only the configured allocator can be made to refuse).  Quantifiers: every state satisfying the
invariant, every call, **every** allocator schedule.  Iterator cursors are separate values that no
table call takes as an argument, so they are trivially unchanged. -/
namespace CC.Properties.C08Tree
open CC CC.Spec CC.Spec.OrdMap
variable {cmp : Nat → Nat → Int}

/-- **refused_iff**: a call reports `CC_ERR_ALLOC` exactly when a refusal fired during it -/
theorem refused_iff (t : TreeTable) (op : Op) (m : Mem) :
    (t.step cmp op m).1.st = some .errAlloc ↔ (t.step cmp op m).2.2.1.nrefused = m.nrefused + 1 := by
  rcases TreeTable.step_nrefused (cmp := cmp) t op m with ⟨a, b⟩ | ⟨a, b⟩
  · exact ⟨fun _ => b, fun _ => a⟩
  · exact ⟨fun x => absurd x a, fun x => by omega⟩

/-- a call that does not report `CC_ERR_ALLOC` saw no refusal -/
theorem not_refused (t : TreeTable) (op : Op) (m : Mem) (h : (t.step cmp op m).1.st ≠ some .errAlloc) :
    (t.step cmp op m).2.2.1.nrefused = m.nrefused := by
  rcases TreeTable.step_nrefused (cmp := cmp) t op m with ⟨a, _⟩ | ⟨_, b⟩
  · exact absurd a h
  · exact b

/-- `add` fails exactly when the key is new and the allocator refuses the node -/
theorem add_refused_iff (ho : TotalOrder cmp) (t : TreeTable) (h : t.Inv cmp) (k v : Nat) (m : Mem) :
    (t.add cmp k v m).1 = .errAlloc ↔ (contains t.abs k = false ∧ (m.allocT t.triple).1 = false) := by
  have a := (TreeTable.add_spec ho h k v m).1
  rw [a]
  cases contains t.abs k <;> cases (m.allocT t.triple).1 <;> simp

/-- a table on the C library's triple never reports `CC_ERR_ALLOC` -/
theorem libc_never_refused (ho : TotalOrder cmp) (t : TreeTable) (h : t.Inv cmp) (k v : Nat) (m : Mem)
    (ht : t.triple = .libc) : (t.add cmp k v m).1 = .ok := by
  have a := (TreeTable.add_spec ho h k v m).1
  rw [a, ht]; simp [Mem.allocT]

/-- **atomic**: after `CC_ERR_ALLOC` the table is physically what it was (tree, colours, size), the
ledger holds exactly the blocks it held, nothing faulted -/
theorem atomic (ho : TotalOrder cmp) (t : TreeTable) (h : t.Inv cmp) (op : Op) (m : Mem)
    (hm : TreeTable.Owns t m) (hf : (t.step cmp op m).1.st = some .errAlloc) :
    (t.step cmp op m).2.1 = t ∧
    TreeTable.liveOf (t.step cmp op m).2.2.1 t.triple = TreeTable.liveOf m t.triple ∧
    (t.step cmp op m).2.2.1.fault = m.fault := by
  have s := C03.step_refines ho t h op m hm
  have e := (s.inert .errAlloc hf (by decide)).1
  have l := s.ledger
  rw [e] at l
  exact ⟨e, by omega, s.nofault⟩

theorem add_atomic (ho : TotalOrder cmp) (t : TreeTable) (h : t.Inv cmp) (k v : Nat) (m : Mem)
    (hk : contains t.abs k = false) (hr : (m.allocT t.triple).1 = false) :
    (t.add cmp k v m).1 = .errAlloc ∧ (t.add cmp k v m).2.1 = t ∧
    TreeTable.liveOf (t.add cmp k v m).2.2.1 t.triple = TreeTable.liveOf m t.triple ∧
    (t.add cmp k v m).2.2.1.fault = m.fault := C03.add_atomic ho t h k v m hk hr

/-- the constructor: `CC_ERR_ALLOC` iff one of its two requests is refused; then no object, and the
block obtained before the refusal has been released -/
theorem new_refused_iff (m : Mem) :
    (TreeTable.new m).1 = .errAlloc ↔ (m.alloc.1 = false ∨ m.alloc.2.alloc.1 = false) :=
  TreeTable.new_refused_iff m
theorem new_atomic (tr : Triple) (m : Mem) (h : (TreeTable.newT tr m).1 = .errAlloc) :
    (TreeTable.newT tr m).2.1 = none ∧ TreeTable.liveOf (TreeTable.newT tr m).2.2 tr = TreeTable.liveOf m tr ∧
    (TreeTable.newT tr m).2.2.fault = m.fault :=
  (C03.new_inv (cmp := fun _ _ => 0) tr m).2.2 h
/-- an allocator that does not refuse: the constructor succeeds -/
theorem new_succeeds (m : Mem) (h : m.sched = []) : (TreeTable.new m).1 = .ok := by
  have a1 := Mem.alloc_nil m h
  have a2 := Mem.alloc_nil m.alloc.2 a1.2
  unfold TreeTable.new TreeTable.newT; dsimp only
  simp [a1.1, a2.1]
/-- the default constructor cannot be made to fail by the schedule -/
theorem new_default_succeeds (m : Mem) : (TreeTable.newT .libc m).1 = .ok := (TreeTable.newT_libc m).2

/-- **continue**: a history with a refused call in the middle ends in the same table (physically) and
produces the same outputs for the calls after it as the history without that call — for every
schedule of the other calls -/
theorem continue_ (ho : TotalOrder cmp) (ops₁ ops₂ : List (Op × List Bool)) (op : Op) (sched : List Bool)
    (t : TreeTable) (h : t.Inv cmp) (m : Mem) (hm : TreeTable.Owns t m)
    (hf : ((t.run cmp ops₁ m).2.2.1.step cmp op ((t.run cmp ops₁ m).2.2.2.begin sched)).1.st = some .errAlloc) :
    (t.run cmp (ops₁ ++ (op, sched) :: ops₂) m).2.2.1 = (t.run cmp (ops₁ ++ ops₂) m).2.2.1 ∧
    ∃ o outs₂, (t.run cmp (ops₁ ++ (op, sched) :: ops₂) m).1 = (t.run cmp ops₁ m).1 ++ o :: outs₂ ∧
      o.st = some .errAlloc ∧ (t.run cmp (ops₁ ++ ops₂) m).1 = (t.run cmp ops₁ m).1 ++ outs₂ := by
  obtain ⟨_, _, c, _, _, g, _⟩ := C03.history_refines ho ops₁ t h m hm
  have hm1 : TreeTable.Owns (t.run cmp ops₁ m).2.2.1 ((t.run cmp ops₁ m).2.2.2.begin sched) := by
    unfold TreeTable.Owns at g ⊢; rw [TreeTable.liveOf_begin]; exact g
  have a := (atomic ho _ c op _ hm1 hf).1
  rw [TreeTable.run_append, TreeTable.run_append]
  simp only [TreeTable.run]
  rw [a]
  have k := TreeTable.run_congr (cmp := cmp) ops₂ (t.run cmp ops₁ m).2.2.1
    ((t.run cmp ops₁ m).2.2.1.step cmp op ((t.run cmp ops₁ m).2.2.2.begin sched)).2.2.1 (t.run cmp ops₁ m).2.2.2
  rw [k.2.2]
  exact ⟨rfl, _, _, rfl, hf, by rw [k.1]⟩

/-- the same on the ideal map -/
theorem spec_continue (m : OrdMap) (ops₁ ops₂ : List (Op × Bool)) (op : Op)
    (hf : (OrdMap.step cmp (OrdMap.run cmp m ops₁).2 op true).1.st = some .errAlloc) :
    (OrdMap.run cmp m (ops₁ ++ [(op, true)] ++ ops₂)).2 = (OrdMap.run cmp m (ops₁ ++ ops₂)).2 :=
  C03.C08_continue m ops₁ ops₂ op hf

/-! ## tree set -/

theorem set_refused_iff (s : TreeSet) (op : OrdSet.Op) (m : Mem) :
    (s.step cmp op m).1.st = some .errAlloc ↔ (s.step cmp op m).2.2.1.nrefused = m.nrefused + 1 := by
  rw [TreeSet.step_eq_table]
  rw [← refused_iff (cmp := cmp) s.t (OrdSet.toMapOp op) m]
  show Option.map OrdSet.mapStat _ = _ ↔ _
  cases hs : (s.t.step cmp (OrdSet.toMapOp op) m).1.st with
  | none => simp
  | some st => cases st <;> simp [OrdSet.mapStat]

theorem set_atomic (ho : TotalOrder cmp) (s : TreeSet) (h : s.Inv cmp) (op : OrdSet.Op) (m : Mem)
    (hm : TreeTable.Owns s.t m) (hf : (s.step cmp op m).1.st = some .errAlloc) :
    (s.step cmp op m).2.1 = s ∧
    TreeTable.liveOf (s.step cmp op m).2.2.1 s.triple = TreeTable.liveOf m s.triple ∧
    (s.step cmp op m).2.2.1.fault = m.fault := by
  have hf' : (s.t.step cmp (OrdSet.toMapOp op) m).1.st = some .errAlloc := by
    rw [TreeSet.step_eq_table] at hf
    change Option.map OrdSet.mapStat _ = _ at hf
    cases hs : (s.t.step cmp (OrdSet.toMapOp op) m).1.st with
    | none => rw [hs] at hf; simp at hf
    | some st => rw [hs] at hf; cases st <;> simp_all [OrdSet.mapStat]
  have a := atomic ho s.t h.1 (OrdSet.toMapOp op) m hm hf'
  rw [h.2.2] at a
  rw [TreeSet.step_eq_table]
  exact ⟨by show ({ s with t := _ } : TreeSet) = s; rw [a.1], a.2.1, a.2.2⟩

/-- the set constructor: three requests; a refusal of the inner table's requests is propagated and the
set header is released -/
theorem set_new_refused_iff (m : Mem) :
    (TreeSet.new m).1 = .errAlloc ↔
      (m.alloc.1 = false ∨ m.alloc.2.alloc.1 = false ∨ m.alloc.2.alloc.2.alloc.1 = false) :=
  TreeSet.new_refused_iff m
theorem set_new_atomic (tr : Triple) (m : Mem) (h : (TreeSet.newT tr m).1 = .errAlloc) :
    (TreeSet.newT tr m).2.1 = none ∧ TreeTable.liveOf (TreeSet.newT tr m).2.2 tr = TreeTable.liveOf m tr ∧
    (TreeSet.newT tr m).2.2.fault = m.fault :=
  (C03.set_new_inv (cmp := fun _ _ => 0) tr m).2.2 h

/-! ## Non-vacuity -/
open CC.Driver.TreeTableD (cmpOf) in
/-- a refused `add` on a three-entry table: `CC_ERR_ALLOC`, table physically unchanged, ledger unchanged,
one refusal recorded; the same call on a replaceable key does not allocate and succeeds -/
example :
    let t : TreeTable := TreeTable.mk
      (Tree.node .black (Tree.node .red .nil 1 10 .nil) 2 20 (Tree.node .red .nil 3 30 .nil)) 3 .conf
    let m : Mem := { live := 5, sched := [true] }
    decide (t.Inv (cmpOf 0)) = true ∧ (t.step (cmpOf 0) (.add 4 40) m).1.st = some .errAlloc ∧
    (t.step (cmpOf 0) (.add 4 40) m).2.1 = t ∧ (t.step (cmpOf 0) (.add 4 40) m).2.2.1.live = 5 ∧
    (t.step (cmpOf 0) (.add 4 40) m).2.2.1.nrefused = 1 ∧
    (t.step (cmpOf 0) (.add 3 31) m).1.st = some .ok := by decide

end CC.Properties.C08Tree
