import CollectionsC.Properties.C13
/-! # C14 (dynamic pool part): pages come only from the allocator triple the pool was configured with

`cc_dynamic_pool_new_conf` copies `mem_alloc/mem_calloc/mem_free` from the configuration (model:
`triple = .conf`), `cc_dynamic_pool_new` uses the C library (`triple = .libc`).  Every page and the
pool struct are obtained from and released to that triple — no precondition is needed: the
statements hold for every state, every history and every schedule. -/
namespace CC.Properties.C14DynamicPool
open CC CC.Spec
open CC.Spec.DPool (Op)

/-- every step and every history touches only the ledger counters of the pool's own triple -/
theorem history_uses_own_triple (grow : Nat → Nat) (fresh : Nat) (ops : List Op) (s : DynamicPool) (m : Mem) :
    Mem.otherSame m (DynamicPool.run grow fresh s ops m).2.2.2 s.triple :=
  DynamicPool.run_other grow fresh ops s m

/-- **conf uses only conf**: a pool built by `cc_dynamic_pool_new_conf` never causes a C-library
allocation or release, whatever it is asked to do -/
theorem conf_uses_only_conf (grow : Nat → Nat) (fresh : Nat) (ops : List Op) (s : DynamicPool) (m : Mem)
    (ht : s.triple = .conf) :
    (DynamicPool.run grow fresh s ops m).2.2.2.libc = m.libc ∧ (DynamicPool.run grow fresh s ops m).2.2.2.liveLibc = m.liveLibc ∧
    (DynamicPool.run grow fresh s ops m).2.2.2.lalloc = m.lalloc ∧ (DynamicPool.run grow fresh s ops m).2.2.2.lfree = m.lfree := by
  have := history_uses_own_triple grow fresh ops s m
  rw [ht] at this; exact this

/-- **default uses only libc**: a pool built by `cc_dynamic_pool_new` never touches the configured
allocator (live count, event counters, refusal counter, schedule) -/
theorem default_uses_only_libc (grow : Nat → Nat) (fresh : Nat) (ops : List Op) (s : DynamicPool) (m : Mem)
    (ht : s.triple = .libc) :
    (DynamicPool.run grow fresh s ops m).2.2.2.live = m.live ∧ (DynamicPool.run grow fresh s ops m).2.2.2.nalloc = m.nalloc ∧
    (DynamicPool.run grow fresh s ops m).2.2.2.nfree = m.nfree ∧ (DynamicPool.run grow fresh s ops m).2.2.2.nrefused = m.nrefused ∧
    (DynamicPool.run grow fresh s ops m).2.2.2.sched = m.sched := by
  have := history_uses_own_triple grow fresh ops s m
  rw [ht] at this; exact this

/-- constructor and destructor use the triple they are given / the pool carries; the constructed
pool carries exactly the triple of its configuration, and no operation ever changes it -/
theorem new_destroy_use_own_triple (size ab fresh : Nat) (fixed packed : Bool) (t : Triple) (s : DynamicPool) (m : Mem) :
    Mem.otherSame m (DynamicPool.new size fixed packed ab fresh t m).2.2 t ∧
    (∀ s', (DynamicPool.new size fixed packed ab fresh t m).2.1 = some s' → s'.triple = t) ∧
    Mem.otherSame m (s.destroy m) s.triple ∧
    (∀ grow op, (DynamicPool.step grow fresh s op m).2.1.triple = s.triple) := by
  refine ⟨DynamicPool.new_other size fixed packed ab fresh t m, ?_, DynamicPool.destroy_other s m,
    fun grow op => DynamicPool.step_triple grow fresh s op m⟩
  intro s' hs'
  unfold DynamicPool.new at hs'; dsimp only at hs'
  split at hs'
  · cases hs'
  · split at hs'
    · cases hs'
    · split at hs'
      · cases hs'
      · simp only [Option.some.injEq] at hs'; rw [← hs']

/-! Non-vacuity: a page request of a `.libc` pool shows up in the C-library counters, one of a
`.conf` pool in the configured allocator's -/
example :
    let s (t : Triple) : DynamicPool := DynamicPool.mk t false true 4 1 [PPage.mk 4 [1, 1, 1, 238] [PBlk.mk 0 3 3]] 3 0 true
    (DynamicPool.malloc (fun c => 2 * c) 238 (s .libc) 3 {}).2.2.libc = 1 ∧
    (DynamicPool.malloc (fun c => 2 * c) 238 (s .libc) 3 {}).2.2.nalloc = 0 ∧
    (DynamicPool.malloc (fun c => 2 * c) 238 (s .conf) 3 {}).2.2.libc = 0 ∧
    (DynamicPool.malloc (fun c => 2 * c) 238 (s .conf) 3 {}).2.2.nalloc = 1 := by decide

end CC.Properties.C14DynamicPool
