import CollectionsC.Proofs.PTreeWF
import CollectionsC.Proofs.PTreeInsertLoop
import CollectionsC.Proofs.PTreeAdd
import CollectionsC.Proofs.PTreeInsertFuel
import CollectionsC.Proofs.PTreeRemove
import CollectionsC.Proofs.PTreeWfB
import CollectionsC.Proofs.PTreeDeleteStepR
import CollectionsC.Proofs.PTreeRemoveWF
import CollectionsC.Proofs.PTreeStep
import CollectionsC.Proofs.PTreeSetStep
/-! # C03 / C17 — the pointer level of `cc_treetable.c`

`Model/PTree.lean` is the tree as the C code sees it: a heap of nodes `{ key, value, color, left, right,
parent }` addressed by ids, the shared sentinel (id 0, a real node whose `parent` is scratch space), `root`,
`size`; `rotate_left`, `rotate_right`, `transplant`, `tree_min`, `tree_max`, `get_successor_node`,
`get_predecessor_node`, `rebalance_after_insert`, `cc_treetable_add`, `remove_node`,
`rebalance_after_delete`, `remove / remove_first / remove_last / remove_all` and the iterator (two node
ids) are pointer surgery, assignment by assignment in the order of the C text.

`Represents st t` (`t` an id-annotated tree): `root`, all child pointers, **all parent pointers**, keys,
values, colours, pairwise distinct nodes, the sentinel black with zero key/value/`left`/`right` (its
`parent` is *not* pinned: it is scratch space), `size`, allocation serial.  `toTree st` is then `t` without
the ids — the inductive tree of `Model/TreeTable.lean`.  `WF st := ∃ t, Represents st t`.

**Proved here** (for every heap, every tree, every position):
* primitives: `rotate_left` / `rotate_right` (well-formedness kept, `toTree` commutes with the rotation of the
  inductive tree, sentinel not written), `transplant(u, v)` (incl. `v` = sentinel: its `parent` becomes the
  scratch value read later), `tree_min`, `tree_max`, successor / predecessor by parent-pointer climb = the
  path-based walks of the inductive model (hence, by `C03.successor_walk_is_inorder`, the in-order
  neighbours), the iterator's saved successor *node*.
* **`cc_treetable_add` end to end** (`add_wf`): from `Represents st t`, search order and red-black rules (`BST`,
  `RB` of `t.erase`, comparator a total order), `add` with a granted allocation yields a heap that
  `Represents` some `t'` with in-order content `OrdMap.insert`, `RB` (rules, black root) and `BST` again.
  Standalone pieces: the descent loop (`add_descent`), existing key = one write to the value field, nothing
  else changes (`add_existing_key`), linking the fresh red leaf with sentinel children and its parent
  pointer (`link_leaf`), first key (`add_first_key`), the loop invariant "the only red-red violation is at
  `z`'s parent" (`Tree.Infra`; established by the link: `link_establishes_invariant`, kept by every
  iteration: `fixup_keeps_invariant`), the six pointer-level case steps = the inductive fix-up at the
  grandparent (`fixup_case*`), and the loop with the final `root->color = BLACK` **restoring `RB`**
  (`rebalance_after_insert_rb`; this is what distinguishes the real loop from a no-op and shows that the
  fuel `size + 2` is enough: a loop that stopped early would leave the violation; `fixup_fuel_adequate`: more
  fuel changes nothing).
  `rebalance_after_insert_wf` is the weaker, assumption-free preservation statement.
* **well-formedness is an invariant of `add`** without any assumption on comparator, order or balance
  (`add_represents`, `adds_wf`: every state reached from `new` by granted or refused `add`s is `WF`).
* **refusal** (`add_refused_unchanged`): absent key + refused node allocation ⇒ `add` returns the state itself.
* **`remove_node`, the splice** (everything before `rebalance_after_delete`), in the three structural cases
  (`remove_no_left_child`, `remove_no_right_child`, `remove_two_children_successor_is_child`,
  `remove_two_children_successor_deeper` — the successor *node* is re-linked: both `transplant`s, the adopted
  subtrees, colour): the heap holds (`Holds` = `Represents` minus the `size`/serial bookkeeping that
  `remove_node` settles at its end) the tree with the node spliced out, all parent pointers included;
  `x->parent` is the right node **also when `x` is the sentinel**; the colour handed to the fix-up; exactly
  the nodes ≠ `z` remain (`remove_splice`: an iterator's saved `next` stays a tree node); in-order content
  = `OrdMap.erase`.  When a red node leaves (no fix-up) `remove_node` is proved end to end
  (`remove_node_no_fixup`: `Represents`, nodes, content, `size`, freed `z`).
* **`rebalance_after_delete`**: the loop body is the composition of its C-text pieces
  (`delete_iteration_left/right`); each of the four cases on both sides is a single-step lemma on `At`
  (`delete_fixup_case1..4_left/right`, with the `_skip` lemmas for the tests that fail), keeping
  `x->parent` for a sentinel `x`; **the loop as a whole** (`rebalance_after_delete_loop`, invariant
  `Tree.Short`: one black node missing below `x`) and with the final `x->color = BLACK`
  (`rebalance_after_delete_rb`): well-formed, same nodes, same content, `RB`; it ignores `size`.
* **`remove_node` end to end** in all structural cases, with or without the fix-up (`remove_node_wf`), hence
  **`cc_treetable_remove`** (lookup loop + `remove_node`; absent key: unchanged), **`remove_first`**,
  **`remove_last`** (`remove_wf`, `remove_first_wf`, `remove_last_wf`) and the iterator's remove
  (`iter_remove_wf`: the saved `next` stays a node of the tree).
* **`reachable_states_good`**: every state reached from `new` by `add` (granted or refused) / `remove` /
  `remove_first` / `remove_last`, for any total-order comparator, is `Represents` of a red-black search tree.
* **the refinement theorem** `pstep_refines` / `phistory_refines_ordmap`: `PTree.step` — every public call with its
  status, out-value and callback log — returns on a represented red-black search tree exactly what the ordered-map
  specification `Spec.OrdMap.step` returns on the tree's in-order content, under every refusal schedule, and keeps
  the invariant: **C03's main statement holds for the pointer-level model**, not only for the inductive tree.
* `remove_all_wf` (`tree_destroy`: exactly the tree's nodes leave the heap, the sentinel stays),
  `iterator_enumerates` (whole-walk theorem), `descent_comparisons` (C17's comparator bound for the pointer-level
  descent).
* `set_phistory_refines` (the `cc_treeset` wrapper behaves like an ideal ordered set), `pstep_ledger` /
  `phistory_ledger` (node ledger: exactly the allocated / removed node; `size` = number of nodes = number of keys),
  `reachable_height_bound` (C17's height bound in every reachable pointer-level state).
* `wfB_sound`: the Bool check the driver evaluates after every call (flag `inv`) implies `WF`.

**Not proved, compared by the harness only**:
* fuel independence of the delete loop (its theorem holds for every fuel ≥ the depth of `x`, which covers the
  `size + 2` of the code); `cc_treetable_destroy`'s last two frees (sentinel, header) and the constructor's three
  allocations are not in `PT` (the allocation ledger is part of the inductive model's state, `C06Tree`/`C08Tree`);
  the iterator's `iter_remove` status codes; liveness of the tree nodes as heap entries is checked at run time
  (`wfB`), the theorems track node *ids* (a freed node is proved absent from the heap, a tree node is not proved present).
* `T'` of `rebalance_after_insert_rb` is not identified with `Tree.ins` of the inductive model (only: same
  nodes, same in-order content, `RB`); C17's height/comparison bounds stay with `Proofs/TreeTableRB*` on the
  inductive model and the runtime check `toTree pt = inductive tree`.
* The model totalises `Heap.get`: a dead id reads as a zero node, there is no fault flag.  `wfB` checks at
  run time that every tree node and the sentinel are live heap entries.
The driver runs the pointer-level model alongside the inductive one on every history, checks after every
call `toTree` = the inductive tree, `size`, and `wfB` (flag `inv`), and prints the tree from the pointer-level
heap with node ids and parent ids (`#id^parent`), which the correspondence check compares with the ids and
`parent` fields of the C heap (L3).  The sentinel's `parent` is *not* printed on either side; it is covered
only through its effect on the next `rebalance_after_delete` (and by the splice theorems above). -/
namespace CC.Properties.C03PTree
open CC CC.PTree
open CC.Tree (Path Dir)
open Spec Spec.OrdMap

/-- the constructor's heap is well-formed and represents the empty tree -/
theorem new_wf : Represents PTree.new .nil ∧ toTree PTree.new = .nil :=
  ⟨new_represents, new_represents.toTree⟩

/-- a represented heap reads back as the inductive tree -/
theorem toTree_of_represents (st : PT) (t : ITree) (h : Represents st t) : toTree st = t.erase := h.toTree

/-- **`rotate_left(table, x)`**: for the node `x` at position `q` with right child `y`, the resulting heap
is well-formed — it represents the rotated id-annotated tree, parent pointers included — and `toTree`
commutes with `Tree.rotL` at `q` -/
theorem rotate_left_commutes (st : PT) (t : ITree) (h : Represents st t) (q : Path) {x cx a kx vx y cy b ky vy c}
    (hs : t.subtree q = .node x cx a kx vx (.node y cy b ky vy c)) :
    Represents (rotateLeft st x) (t.replace q (.node y cy (.node x cx a kx vx b) ky vy c)) ∧
    toTree (rotateLeft st x) = Tree.replaceAt (toTree st) q (Tree.rotL (Tree.subtree (toTree st) q)) :=
  rotateLeft_represents h q hs

/-- **`rotate_right(table, x)`** -/
theorem rotate_right_commutes (st : PT) (t : ITree) (h : Represents st t) (q : Path) {x cx a kx vx y cy b ky vy c}
    (hs : t.subtree q = .node x cx (.node y cy a ky vy b) kx vx c) :
    Represents (rotateRight st x) (t.replace q (.node y cy a ky vy (.node x cx b kx vx c))) ∧
    toTree (rotateRight st x) = Tree.replaceAt (toTree st) q (Tree.rotR (Tree.subtree (toTree st) q)) :=
  rotateRight_represents h q hs

/-- rotations neither write the sentinel nor change `size` -/
theorem rotations_keep_sentinel (st : PT) (t : ITree) (h : Represents st t) (q : Path) {x cx a kx vx y cy b ky vy c}
    (hs : t.subtree q = .node x cx a kx vx (.node y cy b ky vy c)) :
    (rotateLeft st x).heap.get 0 = st.heap.get 0 ∧ (rotateLeft st x).size = st.size :=
  let r := rotateLeft_rep h.rep h.root h.nodup q hs
  ⟨r.2.2.1, r.2.2.2.1⟩
theorem rotate_right_keeps_sentinel (st : PT) (t : ITree) (h : Represents st t) (q : Path)
    {x cx a kx vx y cy b ky vy c} (hs : t.subtree q = .node x cx (.node y cy a ky vy b) kx vx c) :
    (rotateRight st x).heap.get 0 = st.heap.get 0 ∧ (rotateRight st x).size = st.size :=
  let r := rotateRight_rep h.rep h.root h.nodup q hs
  ⟨r.2.2.1, r.2.2.2.1⟩

/-- **`transplant(table, u, v)`** with `v` the root of a part `s'` of `u`'s subtree (or the sentinel): the
heap represents the tree with `s'` in the place of `u`'s subtree; `root` follows; the sentinel's `parent`
becomes `u`'s parent exactly when `v` is the sentinel; `u` itself is untouched (it is freed later) -/
theorem transplant_commutes (st : PT) (t : ITree) (h : Represents st t) (q : Path) {u cu l ku vu r}
    (hs : t.subtree q = .node u cu l ku vu r) (s' : ITree) (p' : Nat) (hs' : Rep st.heap s' p')
    (hnd' : s'.ids.Nodup) (hin : ∀ i ∈ s'.ids, i ∈ l.ids ∨ i ∈ r.ids) :
    Rep (transplant st u s'.rid).heap (t.replace q s') 0 ∧
    (transplant st u s'.rid).root = (t.replace q s').rid ∧
    toTreeF (transplant st u s'.rid).heap ((t.replace q s').height + 1) (transplant st u s'.rid).root =
      Tree.replaceAt (toTree st) q s'.erase ∧
    (transplant st u s'.rid).heap.get 0 =
      (if s'.rid = 0 then { st.heap.get 0 with parent := parentAt t 0 q } else st.heap.get 0) ∧
    (transplant st u s'.rid).heap.get u = st.heap.get u ∧
    (t.replace q s').ids.Nodup ∧ (∀ i ∈ (t.replace q s').ids, i ∈ t.ids) := by
  obtain ⟨a, b, c, d, _, _⟩ := transplant_rep h.rep h.root h.nodup q hs s' p' hs' hnd' hin
  have hnn := ITree.ids_replace_nodup t q s' h.nodup hnd' (by
    intro i hi; rw [hs]; rcases hin i hi with e | e <;> simp [e])
  refine ⟨a, b, ?_, c, d, hnn.1, hnn.2⟩
  rw [b, toTreeF_rep a _ (Nat.lt_succ_self _), ITree.erase_replace, h.toTree]

/-- **`get_successor_node` / `get_predecessor_node`** with their parent-pointer climb arrive at the nodes the
path-based walks name (`0` = the sentinel) -/
theorem successor_predecessor_agree (st : PT) (t : ITree) (h : Represents st t) (q : Path) {x c a k v b}
    (hs : t.subtree q = .node x c a k v b) :
    successor st.heap (st.size + 1) x =
      (match Tree.succPath (toTree st) q with | some s => (t.subtree s).rid | none => 0) ∧
    predecessor st.heap (st.size + 1) x =
      (match Tree.predPath (toTree st) q with | some s => (t.subtree s).rid | none => 0) :=
  walks_agree h q hs

/-- **`tree_min(root)` / `tree_max(root)`** -/
theorem tree_min_max_agree (st : PT) (t : ITree) (h : Represents st t) :
    treeMin st.heap (st.size + 1) st.root = (t.subtree (Tree.treeMinPath (toTree st))).rid ∧
    treeMax st.heap (st.size + 1) st.root = (t.subtree (Tree.treeMaxPath (toTree st))).rid :=
  min_max_agree h

/-- the iterator of the pointer-level model saves the successor *node* (its id): after `iter_next` on a
well-formed table `next` is the node at the in-order successor position of the node handed out -/
theorem iter_next_saves_successor_node (st : PT) (t : ITree) (h : Represents st t) (it : PIter) (q : Path)
    {x c a k v b} (hs : t.subtree q = .node x c a k v b) (hn : it.next = x) :
    (iterNext st it).cur = some x ∧
    (iterNext st it).next = (match Tree.succPath (toTree st) q with | some s => (t.subtree s).rid | none => 0) := by
  have hx0 : x ≠ 0 := by have := h.rep.sub q; rw [hs] at this; exact this.1
  unfold iterNext
  simp only [hn, S, hx0, if_false]
  exact ⟨trivial, (walks_agree h q hs).1⟩

/-! ## `rebalance_after_insert` -/

/-- **case 1** (red uncle): three recolourings, `z` moves to the grandparent `gi`; the heap represents the
tree with `Tree.fixInsLeft` applied at the grandparent position `g` (and `toTree` says so) -/
theorem fixup_case1_left (st : PT) (T : ITree) (g : Path) (gi : Nat) (cg : Colour) (p : Nat) (pl : ITree)
    (pk pv : Nat) (pr : ITree) (kg vg yi : Nat) (yl : ITree) (yk yv : Nat) (yr : ITree)
    (h : At st T g (.node gi cg (.node p .red pl pk pv pr) kg vg (.node yi .red yl yk yv yr)))
    (d2 : Dir) (z : Nat) (zl : ITree) (zk zv : Nat) (zr : ITree)
    (hz : (ITree.node p .red pl pk pv pr).subtree [d2] = .node z .red zl zk zv zr) (f : Nat) :
    ∃ st', rebalInsertLoop (f + 1) st z = rebalInsertLoop f st' gi ∧
      At st' T g (ITree.fixInsLeft (.node gi cg (.node p .red pl pk pv pr) kg vg (.node yi .red yl yk yv yr))) ∧
      toTree st' = Tree.replaceAt T.erase g
        (Tree.fixInsLeft (ITree.node gi cg (.node p .red pl pk pv pr) kg vg (.node yi .red yl yk yv yr)).erase) := by
  obtain ⟨st', e, hA⟩ := insert_step_L_case1 h d2 hz
  have hc : pl.col = .red ∨ pr.col = .red := by
    cases d2 with
    | L => left; simp only [ITree.subtree_L, ITree.subtree_root] at hz; rw [hz]; rfl
    | R => right; simp only [ITree.subtree_R, ITree.subtree_root] at hz; rw [hz]; rfl
  rw [← ITree.fixInsLeft_case1 _ _ _ _ _ _ _ _ _ _ _ _ _ _ hc] at hA
  exact ⟨st', e f, hA, by rw [hA.toTree, ITree.erase_fixInsLeft]⟩

/-- **case 3** (black uncle, `z` an outer child): recolour, rotate right at the grandparent -/
theorem fixup_case3_left (st : PT) (T : ITree) (g : Path) (gi : Nat) (cg : Colour) (p z : Nat) (zl : ITree)
    (zk zv : Nat) (zr : ITree) (pk pv : Nat) (pr : ITree) (kg vg : Nat) (Y : ITree)
    (h : At st T g (.node gi cg (.node p .red (.node z .red zl zk zv zr) pk pv pr) kg vg Y))
    (hY : Y.col = .black) (f : Nat) :
    ∃ st', rebalInsertLoop (f + 1) st z = rebalInsertLoop f st' z ∧
      At st' T g (ITree.fixInsLeft (.node gi cg (.node p .red (.node z .red zl zk zv zr) pk pv pr) kg vg Y)) ∧
      toTree st' = Tree.replaceAt T.erase g
        (Tree.fixInsLeft (ITree.node gi cg (.node p .red (.node z .red zl zk zv zr) pk pv pr) kg vg Y).erase) := by
  obtain ⟨st', e, hA⟩ := insert_step_L_case3 h hY
  rw [← ITree.fixInsLeft_case3 _ _ _ _ _ _ _ _ _ _ _ _ _ _ hY] at hA
  exact ⟨st', e f, hA, by rw [hA.toTree, ITree.erase_fixInsLeft]⟩

/-- **case 2 then 3** (black uncle, `z` an inner child, its sibling black): rotate left at the parent, recolour,
rotate right at the grandparent -/
theorem fixup_case2_left (st : PT) (T : ITree) (g : Path) (gi : Nat) (cg : Colour) (p z : Nat) (zl : ITree)
    (zk zv : Nat) (zr : ITree) (pk pv : Nat) (pl : ITree) (kg vg : Nat) (Y : ITree)
    (h : At st T g (.node gi cg (.node p .red pl pk pv (.node z .red zl zk zv zr)) kg vg Y))
    (hY : Y.col = .black) (hs : pl.col = .black) (f : Nat) :
    ∃ st', rebalInsertLoop (f + 1) st z = rebalInsertLoop f st' p ∧
      At st' T g (ITree.fixInsLeft (.node gi cg (.node p .red pl pk pv (.node z .red zl zk zv zr)) kg vg Y)) ∧
      toTree st' = Tree.replaceAt T.erase g
        (Tree.fixInsLeft (ITree.node gi cg (.node p .red pl pk pv (.node z .red zl zk zv zr)) kg vg Y).erase) := by
  obtain ⟨st', e, hA⟩ := insert_step_L_case2 h hY
  rw [← ITree.fixInsLeft_case2 _ _ _ _ _ _ _ _ _ _ _ _ _ _ hY hs] at hA
  exact ⟨st', e f, hA, by rw [hA.toTree, ITree.erase_fixInsLeft]⟩

/-- the mirror images (parent on the right of the grandparent) -/
theorem fixup_case1_right (st : PT) (T : ITree) (g : Path) (gi : Nat) (cg : Colour) (p : Nat) (pl : ITree)
    (pk pv : Nat) (pr : ITree) (kg vg yi : Nat) (yl : ITree) (yk yv : Nat) (yr : ITree)
    (h : At st T g (.node gi cg (.node yi .red yl yk yv yr) kg vg (.node p .red pl pk pv pr)))
    (d2 : Dir) (z : Nat) (zl : ITree) (zk zv : Nat) (zr : ITree)
    (hz : (ITree.node p .red pl pk pv pr).subtree [d2] = .node z .red zl zk zv zr) (f : Nat) :
    ∃ st', rebalInsertLoop (f + 1) st z = rebalInsertLoop f st' gi ∧
      At st' T g (ITree.fixInsRight (.node gi cg (.node yi .red yl yk yv yr) kg vg (.node p .red pl pk pv pr))) ∧
      toTree st' = Tree.replaceAt T.erase g
        (Tree.fixInsRight (ITree.node gi cg (.node yi .red yl yk yv yr) kg vg (.node p .red pl pk pv pr)).erase) := by
  obtain ⟨st', e, hA⟩ := insert_step_R_case1 h d2 hz
  have hc : pl.col = .red ∨ pr.col = .red := by
    cases d2 with
    | L => left; simp only [ITree.subtree_L, ITree.subtree_root] at hz; rw [hz]; rfl
    | R => right; simp only [ITree.subtree_R, ITree.subtree_root] at hz; rw [hz]; rfl
  rw [← ITree.fixInsRight_case1 _ _ _ _ _ _ _ _ _ _ _ _ _ _ hc] at hA
  exact ⟨st', e f, hA, by rw [hA.toTree, ITree.erase_fixInsRight]⟩
theorem fixup_case3_right (st : PT) (T : ITree) (g : Path) (gi : Nat) (cg : Colour) (p z : Nat) (zl : ITree)
    (zk zv : Nat) (zr : ITree) (pk pv : Nat) (pl : ITree) (kg vg : Nat) (Y : ITree)
    (h : At st T g (.node gi cg Y kg vg (.node p .red pl pk pv (.node z .red zl zk zv zr))))
    (hY : Y.col = .black) (f : Nat) :
    ∃ st', rebalInsertLoop (f + 1) st z = rebalInsertLoop f st' z ∧
      At st' T g (ITree.fixInsRight (.node gi cg Y kg vg (.node p .red pl pk pv (.node z .red zl zk zv zr)))) ∧
      toTree st' = Tree.replaceAt T.erase g
        (Tree.fixInsRight (ITree.node gi cg Y kg vg (.node p .red pl pk pv (.node z .red zl zk zv zr))).erase) := by
  obtain ⟨st', e, hA⟩ := insert_step_R_case3 h hY
  rw [← ITree.fixInsRight_case3 _ _ _ _ _ _ _ _ _ _ _ _ _ _ hY] at hA
  exact ⟨st', e f, hA, by rw [hA.toTree, ITree.erase_fixInsRight]⟩
theorem fixup_case2_right (st : PT) (T : ITree) (g : Path) (gi : Nat) (cg : Colour) (p z : Nat) (zl : ITree)
    (zk zv : Nat) (zr : ITree) (pk pv : Nat) (pr : ITree) (kg vg : Nat) (Y : ITree)
    (h : At st T g (.node gi cg Y kg vg (.node p .red (.node z .red zl zk zv zr) pk pv pr)))
    (hY : Y.col = .black) (hs : pr.col = .black) (f : Nat) :
    ∃ st', rebalInsertLoop (f + 1) st z = rebalInsertLoop f st' p ∧
      At st' T g (ITree.fixInsRight (.node gi cg Y kg vg (.node p .red (.node z .red zl zk zv zr) pk pv pr))) ∧
      toTree st' = Tree.replaceAt T.erase g
        (Tree.fixInsRight (ITree.node gi cg Y kg vg (.node p .red (.node z .red zl zk zv zr) pk pv pr)).erase) := by
  obtain ⟨st', e, hA⟩ := insert_step_R_case2 h hY
  rw [← ITree.fixInsRight_case2 _ _ _ _ _ _ _ _ _ _ _ _ _ _ hY hs] at hA
  exact ⟨st', e f, hA, by rw [hA.toTree, ITree.erase_fixInsRight]⟩

/-- the id-annotated fix-ups are the inductive model's -/
theorem fixups_erase (G : ITree) :
    (ITree.fixInsLeft G).erase = Tree.fixInsLeft G.erase ∧ (ITree.fixInsRight G).erase = Tree.fixInsRight G.erase :=
  ⟨ITree.erase_fixInsLeft G, ITree.erase_fixInsRight G⟩

/-- **`rebalance_after_insert(table, z)` preserves well-formedness**: started at a red node `z` (at position
`q`) of a well-formed table whose root is black or is `z`, the loop with the final root blackening ends in
a well-formed heap — child pointers, parent pointers, `root`, sentinel, `size` consistent — with the same
nodes, the same in-order content and a black root -/
theorem rebalance_after_insert_wf (st : PT) (T : ITree) (q : Path) (z : Nat) (zl : ITree) (zk zv : Nat) (zr : ITree)
    (h : Represents st T) (hz : T.subtree q = .node z .red zl zk zv zr) (hroot : q = [] ∨ T.col = .black) :
    ∃ T', Represents (rebalanceAfterInsert st z) T' ∧ (toTree (rebalanceAfterInsert st z)).toList = (toTree st).toList ∧
      T'.ids.Perm T.ids ∧ T'.col = .black := by
  obtain ⟨T', a, b, c, d⟩ := rebalanceAfterInsert_wf st T q z zl zk zv zr h hz hroot
    (h.fuel_ok q (by rw [hz]; simp))
  exact ⟨T', a, by rw [a.toTree, h.toTree, b], c, d⟩

/-! ## `cc_treetable_add` end to end -/

/-- **the descent loop** of `cc_treetable_add` (fuel `size + 1`, started at the root with `y` = sentinel)
follows the comparator down the represented tree: it stops at the node whose key compares equal — returned
as `x` — or falls off at an empty position and returns the node above it (the sentinel for the empty tree) -/
theorem add_descent (cmp : Nat → Nat → Int) (st : PT) (T : ITree) (h : Represents st T) (k : Nat) :
    addDescent cmp st.heap k (st.size + 1) S st.root =
      match T.subtree (Tree.leafPath cmp k T.erase) with
      | .node x _ _ _ _ _ => (x, x)
      | .nil => (parentAt T 0 (Tree.leafPath cmp k T.erase), 0) :=
  add_descent_eq cmp h k

/-- **existing key**: `add` performs the single write `x->value = val` at the node found — every other
field of every node, `root`, `size`, the allocation serial are unchanged (the result is `st` with that one
heap write), whatever the allocator would answer; the heap represents the tree with the value replaced,
whose content is the ordered-map insert, and rules and order are kept -/
theorem add_existing_key (cmp : Nat → Nat → Int) (hto : TotalOrder cmp) (st : PT) (T : ITree)
    (h : Represents st T) (hb : Tree.BST cmp T.erase) (hrb : Tree.RB T.erase) (k v : Nat) (ok : Bool)
    {x c a k0 v0 b} (hs : T.subtree (Tree.leafPath cmp k T.erase) = .node x c a k0 v0 b) :
    add cmp st k v ok = { st with heap := setValue st.heap x v } ∧
    k0 = k ∧
    Represents (add cmp st k v ok) (T.replace (Tree.leafPath cmp k T.erase) (.node x c a k v b)) ∧
    (toTree (add cmp st k v ok)).toList = OrdMap.insert cmp (toTree st).toList k v ∧
    Tree.RB (toTree (add cmp st k v ok)) ∧ Tree.BST cmp (toTree (add cmp st k v ok)) := by
  obtain ⟨r1, r2, r3, r4, r5, r6⟩ := add_existing_wf cmp hto h hb hrb k v ok hs
  exact ⟨r1, r2, r3, by rw [r3.toTree, h.toTree]; exact r4, by rw [r3.toTree]; exact r5,
    by rw [r3.toTree]; exact r6⟩

/-- **linking the fresh leaf** (new key, non-empty tree, before the fix-up): the heap after
`new_node->… = …; if (cmp(key, y->key) < 0) y->left = new_node; else y->right = new_node; size++`
represents the tree with a red leaf at the position found by the descent — the leaf's `left`/`right` are
the sentinel, its `parent` is the node above, that node's child pointer on the side chosen by the comparator
is the leaf, and nothing else changed (all of that is what `Represents` of the new tree says) -/
theorem link_leaf (cmp : Nat → Nat → Int) (st : PT) (T : ITree) (h : Represents st T) (k v : Nat)
    (hne : T ≠ .nil) (hn : T.subtree (Tree.leafPath cmp k T.erase) = .nil) :
    Represents (linkLeaf cmp st k v (parentAt T 0 (Tree.leafPath cmp k T.erase)))
      (T.replace (Tree.leafPath cmp k T.erase) (.node st.fresh .red .nil k v .nil)) ∧
    (T.replace (Tree.leafPath cmp k T.erase) (.node st.fresh .red .nil k v .nil)).subtree
      (Tree.leafPath cmp k T.erase) = .node st.fresh .red .nil k v .nil ∧
    add cmp st k v true =
      rebalanceAfterInsert (linkLeaf cmp st k v (parentAt T 0 (Tree.leafPath cmp k T.erase))) st.fresh := by
  refine ⟨linkLeaf_represents cmp h k v hne hn, ITree.subtree_replace_valid T _ _ ?_, add_link cmp h k v hne hn⟩
  rcases ITree.leafPath_parent cmp k T with e | ⟨q0, d, y, c, a, ky, vy, b, e, hs, hd⟩
  · exact Or.inl e
  · right; rw [e]; simp [hs]

/-- **first key**: the fresh node becomes the black root with sentinel children and sentinel parent -/
theorem add_first_key (cmp : Nat → Nat → Int) (st : PT) (h : Represents st .nil) (k v : Nat) :
    Represents (add cmp st k v true) (.node st.fresh .black .nil k v .nil) :=
  add_empty cmp h k v

/-- **the fix-up loop restores the red-black rules** (pointer level): started at a red node `z` at position
`q` of a represented tree that satisfies the rules everywhere except at the node above `z`
(`Tree.Infra … q.dropLast`: that node may be red too), `rebalance_after_insert` ends in a heap representing
a tree with the same nodes and in-order content that satisfies `RB` (rules and black root) -/
theorem rebalance_after_insert_rb (st : PT) (T : ITree) (q : Path) (z : Nat) (zl : ITree) (zk zv : Nat) (zr : ITree)
    (h : Represents st T) (hz : T.subtree q = .node z .red zl zk zv zr) (hroot : q = [] ∨ T.col = .black)
    (hI : Tree.Infra T.erase q.dropLast) :
    ∃ T', Represents (rebalanceAfterInsert st z) T' ∧ T'.erase.toList = T.erase.toList ∧ T'.ids.Perm T.ids ∧
      Tree.RB T'.erase :=
  rebalanceAfterInsert_rb st T q z zl zk zv zr h hz hroot hI (h.fuel_ok q (by rw [hz]; simp))

/-- **the fuel `size + 2` of `rebalance_after_insert` is adequate**: with any additional fuel the loop returns the
same state — it ended because `z`'s parent is not red (or `z` is the root), not because it ran out of steps -/
theorem fixup_fuel_adequate (st : PT) (T : ITree) (q : Path) (z : Nat) (zl : ITree) (zk zv : Nat) (zr : ITree)
    (h : Represents st T) (hz : T.subtree q = .node z .red zl zk zv zr) (hroot : q = [] ∨ T.col = .black) (k : Nat) :
    rebalInsertLoop (st.size + 2 + k) st z = rebalInsertLoop (st.size + 2) st z :=
  rebalInsertLoop_fuel (st.size + 2) st T q z zl zk zv zr h hz hroot (h.fuel_ok q (by rw [hz]; simp)) k

/-- the loop invariant is established by the link: the tree with the red leaf satisfies the rules except
at the leaf's parent; black height and root colour are those of the old tree -/
theorem link_establishes_invariant (cmp : Nat → Nat → Int) (k v : Nat) (t : Tree) (hrb : Tree.RBok t)
    (hne : t ≠ .nil) (hn : Tree.subtree t (Tree.leafPath cmp k t) = .nil) :
    Tree.Infra (Tree.replaceAt t (Tree.leafPath cmp k t) (.node .red .nil k v .nil)) (Tree.leafPath cmp k t).dropLast ∧
    Tree.bh (Tree.replaceAt t (Tree.leafPath cmp k t) (.node .red .nil k v .nil)) = Tree.bh t :=
  ⟨(Tree.Infra_link k v t hrb hne hn).1, (Tree.Infra_link k v t hrb hne hn).2.1⟩

/-- one iteration keeps the loop invariant: the fix-up at the grandparent position `g` moves the only
possible red-red violation to the position above `g` (or removes it) and keeps the black height -/
theorem fixup_keeps_invariant (g : Path) (d1 : Dir) (t : Tree) (h : Tree.Infra t (g ++ [d1]))
    (hp : (Tree.subtree t (g ++ [d1])).col = .red) :
    Tree.Infra (Tree.replaceAt t g (Tree.fixAt d1 (Tree.subtree t g))) g.dropLast ∧
    Tree.bh (Tree.replaceAt t g (Tree.fixAt d1 (Tree.subtree t g))) = Tree.bh t :=
  ⟨(Tree.fix_step g d1 h hp).1, (Tree.fix_step g d1 h hp).2.1⟩

/-- **new key, allocation granted**: the result represents a tree made of the old nodes and the fresh one,
its in-order content is the ordered-map insert, the red-black rules hold with a black root, keys in order -/
theorem add_new_key (cmp : Nat → Nat → Int) (hto : TotalOrder cmp) (st : PT) (T : ITree)
    (h : Represents st T) (hb : Tree.BST cmp T.erase) (hrb : Tree.RB T.erase) (k v : Nat)
    (hn : T.subtree (Tree.leafPath cmp k T.erase) = .nil) :
    ∃ T', Represents (add cmp st k v true) T' ∧ T'.ids.Perm (st.fresh :: T.ids) ∧
      T'.erase.toList = OrdMap.insert cmp T.erase.toList k v ∧ Tree.RB T'.erase ∧ Tree.BST cmp T'.erase :=
  add_new_wf cmp hto h hb hrb k v hn

/-- **`cc_treetable_add` end to end** (allocation granted): from a heap that represents a red-black search
tree, `add` yields a heap that represents one — child and parent pointers, `root`, sentinel, `size`
consistent — whose in-order content is `OrdMap.insert` of the old content -/
theorem add_wf (cmp : Nat → Nat → Int) (hto : TotalOrder cmp) (st : PT) (T : ITree)
    (h : Represents st T) (hb : Tree.BST cmp T.erase) (hrb : Tree.RB T.erase) (k v : Nat) :
    ∃ T', Represents (add cmp st k v true) T' ∧
      (toTree (add cmp st k v true)).toList = OrdMap.insert cmp (toTree st).toList k v ∧
      Tree.RB (toTree (add cmp st k v true)) ∧ Tree.BST cmp (toTree (add cmp st k v true)) := by
  obtain ⟨T', r1, r2, r3, r4⟩ := PTree.add_wf cmp hto h hb hrb k v
  exact ⟨T', r1, by rw [r1.toTree, h.toTree]; exact r2, by rw [r1.toTree]; exact r3, by rw [r1.toTree]; exact r4⟩

/-- **refusal (C08 at the pointer level)**: for an absent key whose node allocation is refused, `add`
returns the state itself — heap, `root`, `size`, allocation serial, hence the represented tree, unchanged -/
theorem add_refused_unchanged (cmp : Nat → Nat → Int) (st : PT) (T : ITree) (h : Represents st T) (k v : Nat)
    (hn : T.subtree (Tree.leafPath cmp k T.erase) = .nil) :
    add cmp st k v false = st ∧ Represents (add cmp st k v false) T := by
  rw [add_refused cmp h k v hn]; exact ⟨rfl, h⟩

/-- **well-formedness is an invariant of `cc_treetable_add`** — no assumption on the comparator, on order or
on balance, any allocator answer: from a heap that represents a tree with a black (or no) root, `add`
yields such a heap again -/
theorem add_represents (cmp : Nat → Nat → Int) (st : PT) (T : ITree) (h : Represents st T)
    (hroot : T.col = .black) (k v : Nat) (ok : Bool) :
    ∃ T', Represents (add cmp st k v ok) T' ∧ T'.col = .black :=
  PTree.add_represents cmp h hroot k v ok

/-- every state reached from the constructor by `add`s (granted or refused, any comparator) is well-formed -/
theorem adds_wf (cmp : Nat → Nat → Int) (ops : List (Nat × Nat × Bool)) :
    WF (ops.foldl (fun st o => add cmp st o.1 o.2.1 o.2.2) PTree.new) :=
  PTree.adds_wf cmp ops

/-- **the driver's runtime check is sound**: `wfB st = true` (flag `inv` of every M line) implies that the
heap represents the id-annotated tree read off it — every parent pointer, the sentinel's fields, distinct
nodes, `size`, allocation serial -/
theorem wfB_sound (st : PT) (hw : wfB st = true) : WF st :=
  ⟨_, PTree.wfB_sound st hw⟩

/-! ## `remove_node`: the splice (everything before `rebalance_after_delete`)

`removeSplice st z` is `remove_node` up to the fix-up; `remove_node_decomposes` is the remaining glue.
`Holds` is `Represents` without the `size`/allocation-serial bookkeeping (`size--` and `mem_free(z)` come
last in the C function; `z`'s record is still in the heap, untouched, outside the tree). -/

/-- `remove_node` = splice, then `rebalance_after_delete(x)` if the colour that left is black, then
`mem_free(z); size--` -/
theorem remove_node_decomposes (st : PT) (z : Nat) :
    removeNode st z =
      (let r := removeSplice st z
       let st' := if r.2.2 = .black then rebalanceAfterDelete r.1 r.2.1 else r.1
       { st' with heap := st'.heap.del z, size := st'.size - 1 }) :=
  removeNode_eq st z

/-- **no left child** (`z->left == sentinel`): `transplant(z, z->right)`.  The heap holds the tree with
`z`'s right subtree (possibly empty) in `z`'s place — all child and parent pointers; `x = z->right`, **also
when it is the sentinel**, has the node above `z` as `parent`; the colour handed to the fix-up is `z`'s;
the nodes are the old ones without `z`; the in-order content is the old one with `z`'s key erased -/
theorem remove_no_left_child (cmp : Nat → Nat → Int) (hto : TotalOrder cmp) (st : PT) (T : ITree)
    (h : Represents st T) (hb : Tree.BST cmp T.erase) (q : Path) {z cz zk zv zr}
    (hs : T.subtree q = .node z cz .nil zk zv zr) :
    removeSplice st z = (transplant st z zr.rid, zr.rid, cz) ∧
    Holds (transplant st z zr.rid) (T.replace q zr) ∧
    ((transplant st z zr.rid).heap.get zr.rid).parent = parentAt T 0 q ∧
    (transplant st z zr.rid).heap.get z = st.heap.get z ∧
    (z :: (T.replace q zr).ids).Perm T.ids ∧
    (T.replace q zr).erase.toList = OrdMap.erase T.erase.toList zk := by
  obtain ⟨a, b, c, d, e, f, _⟩ := splice_one_child cmp hto h.holds hb q hs zr (Or.inl ⟨rfl, rfl⟩)
  exact ⟨a, b, c, d, e, f⟩

/-- **no right child** (a left child, `z->right == sentinel`): `transplant(z, z->left)`, mirror image -/
theorem remove_no_right_child (cmp : Nat → Nat → Int) (hto : TotalOrder cmp) (st : PT) (T : ITree)
    (h : Represents st T) (hb : Tree.BST cmp T.erase) (q : Path) {z cz zl zk zv}
    (hs : T.subtree q = .node z cz zl zk zv .nil) (hzl : zl ≠ .nil) :
    removeSplice st z = (transplant st z zl.rid, zl.rid, cz) ∧
    Holds (transplant st z zl.rid) (T.replace q zl) ∧
    ((transplant st z zl.rid).heap.get zl.rid).parent = parentAt T 0 q ∧
    (transplant st z zl.rid).heap.get z = st.heap.get z ∧
    (z :: (T.replace q zl).ids).Perm T.ids ∧
    (T.replace q zl).erase.toList = OrdMap.erase T.erase.toList zk := by
  obtain ⟨a, b, c, d, e, f, _⟩ := splice_one_child cmp hto h.holds hb q hs zl (Or.inr ⟨hzl, rfl, rfl⟩)
  exact ⟨a, b, c, d, e, f⟩

/-- **two children, the successor is `z`'s right child** (`y->parent == z`): the successor *node* `y` is
re-linked into `z`'s place with `z`'s colour and left subtree; `x = y->right` — also the sentinel — gets
`parent = y` (the line `x->parent = y`); the colour handed to the fix-up is `y`'s old one -/
theorem remove_two_children_successor_is_child (cmp : Nat → Nat → Int) (hto : TotalOrder cmp) (st : PT) (T : ITree)
    (h : Represents st T) (hb : Tree.BST cmp T.erase) (q : Path) {z cz zl zk zv y cy yk yv yr}
    (hs : T.subtree q = .node z cz zl zk zv (.node y cy .nil yk yv yr)) (hzl : zl ≠ .nil) :
    (removeSplice st z).2 = (yr.rid, cy) ∧
    Holds (removeSplice st z).1 (T.replace q (.node y cz zl yk yv yr)) ∧
    ((removeSplice st z).1.heap.get yr.rid).parent = y ∧
    (removeSplice st z).1.heap.get z = st.heap.get z ∧
    (z :: (T.replace q (.node y cz zl yk yv yr)).ids).Perm T.ids ∧
    (T.replace q (.node y cz zl yk yv yr)).erase.toList = OrdMap.erase T.erase.toList zk := by
  obtain ⟨a, b, c, d, e, f, _⟩ := splice_succ_child cmp hto h.holds hb q hs hzl
  exact ⟨a, b, c, d, e, f⟩

/-- **two children, the successor lies deeper** (`y->parent != z`; `mp` = the `tree_min` path in the left
subtree `rl` of `z`'s right child `rz`): `transplant(y, y->right)`, `y` adopts `rz`, `transplant(z, y)`,
`y` adopts `z`'s left subtree and colour; `x = y->right` — also the sentinel — has `y`'s former parent as
`parent` -/
theorem remove_two_children_successor_deeper (cmp : Nat → Nat → Int) (hto : TotalOrder cmp) (st : PT) (T : ITree)
    (h : Represents st T) (hb : Tree.BST cmp T.erase) (q : Path) {z cz zl zk zv rz crz rl rk rv rr}
    (hs : T.subtree q = .node z cz zl zk zv (.node rz crz rl rk rv rr)) (hzl : zl ≠ .nil)
    {y cy yk yv yr} (hy : rl.subtree (Tree.treeMinPath rl.erase) = .node y cy .nil yk yv yr) :
    (removeSplice st z).2 = (yr.rid, cy) ∧
    Holds (removeSplice st z).1
      (T.replace q (.node y cz zl yk yv (.node rz crz (rl.replace (Tree.treeMinPath rl.erase) yr) rk rv rr))) ∧
    ((removeSplice st z).1.heap.get yr.rid).parent = parentAt rl rz (Tree.treeMinPath rl.erase) ∧
    (removeSplice st z).1.heap.get z = st.heap.get z ∧
    (z :: (T.replace q (.node y cz zl yk yv (.node rz crz (rl.replace (Tree.treeMinPath rl.erase) yr) rk rv rr))).ids).Perm
      T.ids ∧
    (T.replace q (.node y cz zl yk yv (.node rz crz (rl.replace (Tree.treeMinPath rl.erase) yr) rk rv rr))).erase.toList =
      OrdMap.erase T.erase.toList zk := by
  have hfuel : (ITree.node rz crz rl rk rv rr).height ≤ st.size + 2 := by
    have h1 := ITree.height_subtree_le T (q ++ [.R])
    rw [ITree.subtree_append, hs] at h1
    simp only [ITree.subtree_R, ITree.subtree_root] at h1
    have h2 := ITree.height_le_ids T
    rw [h.size]; omega
  obtain ⟨a, b, c, d, e, f, _⟩ := splice_succ_deep cmp hto h.holds hb q hs hzl _ rfl hy hfuel
  exact ⟨a, b, c, d, e, f⟩

/-- **the splice, all cases together**: for every node `z` of a represented search tree the state before
the fix-up holds a tree made of exactly the other nodes (every node id ≠ `z` stays in the tree — in the
two-children case the successor *node* is re-linked, so an iterator's saved `next` stays a tree node) whose
in-order content is the old one without `z`'s key; `z`'s record is untouched; `size` and the allocation
serial are not yet changed -/
theorem remove_splice (cmp : Nat → Nat → Int) (hto : TotalOrder cmp) (st : PT) (T : ITree)
    (h : Represents st T) (hb : Tree.BST cmp T.erase) (q : Path) {z cz zl zk zv zr}
    (hs : T.subtree q = .node z cz zl zk zv zr) :
    ∃ T', Holds (removeSplice st z).1 T' ∧ (z :: T'.ids).Perm T.ids ∧ (∀ i ∈ T.ids, i ≠ z → i ∈ T'.ids) ∧
      T'.erase.toList = OrdMap.erase T.erase.toList zk ∧
      (removeSplice st z).1.heap.get z = st.heap.get z ∧
      (removeSplice st z).1.size = st.size ∧ (removeSplice st z).1.fresh = st.fresh := by
  obtain ⟨T', a, b, c, d, e, f⟩ := removeSplice_holds cmp hto h hb q hs
  refine ⟨T', a, b, ?_, c, d, e, f⟩
  intro i hi hne
  have := b.symm.subset hi
  simp only [List.mem_cons] at this
  exact this.resolve_left hne

/-- **`remove_node` end to end when a red node leaves the tree** (then `rebalance_after_delete` is not
called): the result is well-formed, represents a tree of exactly the old nodes but `z`, content = erase -/
theorem remove_node_no_fixup (cmp : Nat → Nat → Int) (hto : TotalOrder cmp) (st : PT) (T : ITree)
    (h : Represents st T) (hb : Tree.BST cmp T.erase) (q : Path) {z cz zl zk zv zr}
    (hs : T.subtree q = .node z cz zl zk zv zr) (hred : (removeSplice st z).2.2 = .red) :
    ∃ T', Represents (removeNode st z) T' ∧ (z :: T'.ids).Perm T.ids ∧
      (toTree (removeNode st z)).toList = OrdMap.erase (toTree st).toList zk := by
  obtain ⟨T', a, b, c⟩ := removeNode_no_fixup cmp hto h hb q hs hred
  exact ⟨T', a, b, by rw [a.toTree, h.toTree]; exact c⟩

/-! ## `rebalance_after_delete`: one iteration, piece by piece

`delCase1L/R`, `delCase3L/R`, `delCase4L/R` (Proofs/PTreeDeleteStep*.lean) are the pieces of the loop body of
the C text; `delete_iteration_left/right` say that an iteration *is* their composition (with the case-2
test in between).  Each case lemma turns a heap that represents `T` with the subtree `G` at the parent's
position `g` (`At st T g G`) into one that represents `T` with the recoloured / rotated subtree, and keeps
`x->parent` — `x` may be the sentinel, whose `parent` field is the scratch value written by `transplant`
(hypothesis `hxp`); no lemma needs a colour assumption beyond the one the C test reads. -/

/-- one iteration of the loop for a black non-root `x` that is a left child -/
theorem delete_iteration_left (f : Nat) (st : PT) (x : Nat) (h1 : x ≠ st.root) (h2 : (st.heap.get x).color = .black)
    (h3 : x = (st.heap.get (st.heap.get x).parent).left) :
    rebalDeleteLoop (f + 1) st x =
      (let r1 := delCase1L st x
       if (r1.1.heap.get (r1.1.heap.get r1.2).left).color = .black ∧
          (r1.1.heap.get (r1.1.heap.get r1.2).right).color = .black then
         rebalDeleteLoop f { r1.1 with heap := setColor r1.1.heap r1.2 .red }
           ((setColor r1.1.heap r1.2 .red).get x).parent
       else
         let r3 := delCase3L r1.1 x r1.2
         let st4 := delCase4L r3.1 x r3.2
         (st4, st4.root)) :=
  PTree.rebalDeleteLoop_left f st x h1 h2 h3

/-- **case 1** (`w` red), `x` a left child: `w` black, parent red, rotate left at the parent; the new sibling
is `w`'s former left child, `x->parent` is unchanged -/
theorem delete_fixup_case1_left {st : PT} {T : ITree} {g : Path} {xp : Nat} {cp : Colour} {X : ITree} {kp vp w : Nat}
    {wl : ITree} {kw vw : Nat} {wr : ITree}
    (h : At st T g (.node xp cp X kp vp (.node w .red wl kw vw wr)))
    {x : Nat} (hx : x = X.rid) (hxp : (st.heap.get x).parent = xp) :
    ∃ st', delCase1L st x = (st', wl.rid) ∧
      At st' T g (.node w .black (.node xp .red X kp vp wl) kw vw wr) ∧
      (st'.heap.get x).parent = xp :=
  PTree.delete_step_L_case1 h hx hxp

/-- `w` black: case 1 does nothing -/
theorem delete_fixup_case1_skip_left {st : PT} {T : ITree} {g : Path} {xp : Nat} {cp : Colour} {X : ITree} {kp vp w : Nat}
    {wl : ITree} {kw vw : Nat} {wr : ITree}
    (h : At st T g (.node xp cp X kp vp (.node w .black wl kw vw wr)))
    {x : Nat} (hxp : (st.heap.get x).parent = xp) : delCase1L st x = (st, w) :=
  PTree.delete_step_L_case1_skip h hxp

/-- **case 2** (`w` black with two black children), `x` a left child: the test of the C code succeeds, `w`
becomes red, the loop continues at the parent -/
theorem delete_fixup_case2_left {st : PT} {T : ITree} {g : Path} {xp : Nat} {cp : Colour} {X : ITree} {kp vp w : Nat}
    {cw : Colour} {wl : ITree} {kw vw : Nat} {wr : ITree}
    (h : At st T g (.node xp cp X kp vp (.node w cw wl kw vw wr))) (hwl : wl.col = .black) (hwr : wr.col = .black)
    {x : Nat} (hxp : (st.heap.get x).parent = xp) :
    ((st.heap.get (st.heap.get w).left).color = .black ∧ (st.heap.get (st.heap.get w).right).color = .black) ∧
    At { st with heap := setColor st.heap w .red } T g (.node xp cp X kp vp (.node w .red wl kw vw wr)) ∧
    ((setColor st.heap w .red).get x).parent = xp :=
  PTree.delete_step_L_case2 h hwl hwr hxp

/-- **case 3** (`w` black, its far child black, its near child `l` a node — red in a red-black tree), `x` a left
child: `l` black, `w` red, rotate right at `w`; the new sibling is `l`, `x->parent` is unchanged -/
theorem delete_fixup_case3_left {st : PT} {T : ITree} {g : Path} {xp : Nat} {cp : Colour} {X : ITree} {kp vp w : Nat}
    {cw : Colour} {l : Nat} {cl : Colour} {la : ITree} {kl vl : Nat} {lb : ITree} {kw vw : Nat} {wr : ITree}
    (h : At st T g (.node xp cp X kp vp (.node w cw (.node l cl la kl vl lb) kw vw wr))) (hwr : wr.col = .black)
    {x : Nat} (hx : x = X.rid) (hxp : (st.heap.get x).parent = xp) :
    ∃ st', delCase3L st x w = (st', l) ∧
      At st' T g (.node xp cp X kp vp (.node l .black la kl vl (.node w .red lb kw vw wr))) ∧
      (st'.heap.get x).parent = xp :=
  PTree.delete_step_L_case3 h hwr hx hxp

/-- `w`'s far child red: case 3 does nothing -/
theorem delete_fixup_case3_skip_left {st : PT} {T : ITree} {g : Path} {xp : Nat} {cp : Colour} {X : ITree} {kp vp w : Nat}
    {cw : Colour} {wl : ITree} {kw vw : Nat} {wr : ITree}
    (h : At st T g (.node xp cp X kp vp (.node w cw wl kw vw wr))) (hwr : wr.col = .red) (x : Nat) :
    delCase3L st x w = (st, w) :=
  PTree.delete_step_L_case3_skip h hwr x

/-- **case 4** (`w`'s far child `r` a node — red in a red-black tree), `x` a left child: `w` takes the parent's
colour, parent and `r` black, rotate left at the parent (then `x = root` ends the loop) -/
theorem delete_fixup_case4_left {st : PT} {T : ITree} {g : Path} {xp : Nat} {cp : Colour} {X : ITree} {kp vp w : Nat}
    {cw : Colour} {wl : ITree} {kw vw r : Nat} {cr : Colour} {ra : ITree} {kr vr : Nat} {rb : ITree}
    (h : At st T g (.node xp cp X kp vp (.node w cw wl kw vw (.node r cr ra kr vr rb))))
    {x : Nat} (hxp : (st.heap.get x).parent = xp) :
    ∃ st', delCase4L st x w = st' ∧
      At st' T g (.node w cp (.node xp .black X kp vp wl) kw vw (.node r .black ra kr vr rb)) :=
  PTree.delete_step_L_case4 h hxp

/-- one iteration of the loop for a black non-root `x` that is not a left child -/
theorem delete_iteration_right (f : Nat) (st : PT) (x : Nat) (h1 : x ≠ st.root) (h2 : (st.heap.get x).color = .black)
    (h3 : x ≠ (st.heap.get (st.heap.get x).parent).left) :
    rebalDeleteLoop (f + 1) st x =
      (let r1 := delCase1R st x
       if (r1.1.heap.get (r1.1.heap.get r1.2).right).color = .black ∧
          (r1.1.heap.get (r1.1.heap.get r1.2).left).color = .black then
         rebalDeleteLoop f { r1.1 with heap := setColor r1.1.heap r1.2 .red }
           ((setColor r1.1.heap r1.2 .red).get x).parent
       else
         let r3 := delCase3R r1.1 x r1.2
         let st4 := delCase4R r3.1 x r3.2
         (st4, st4.root)) :=
  PTree.rebalDeleteLoop_right f st x h1 h2 h3

/-- **case 1** (`w` red), `x` a right child: `w` black, parent red, rotate right at the parent; the new sibling
is `w`'s former right child, `x->parent` is unchanged -/
theorem delete_fixup_case1_right {st : PT} {T : ITree} {g : Path} {xp : Nat} {cp : Colour} {X : ITree} {kp vp w : Nat}
    {wl : ITree} {kw vw : Nat} {wr : ITree}
    (h : At st T g (.node xp cp (.node w .red wr kw vw wl) kp vp X))
    {x : Nat} (hx : x = X.rid) (hxp : (st.heap.get x).parent = xp) :
    ∃ st', delCase1R st x = (st', wl.rid) ∧
      At st' T g (.node w .black wr kw vw (.node xp .red wl kp vp X)) ∧
      (st'.heap.get x).parent = xp :=
  PTree.delete_step_R_case1 h hx hxp

/-- `w` black: case 1 does nothing -/
theorem delete_fixup_case1_skip_right {st : PT} {T : ITree} {g : Path} {xp : Nat} {cp : Colour} {X : ITree} {kp vp w : Nat}
    {wl : ITree} {kw vw : Nat} {wr : ITree}
    (h : At st T g (.node xp cp (.node w .black wr kw vw wl) kp vp X))
    {x : Nat} (hxp : (st.heap.get x).parent = xp) : delCase1R st x = (st, w) :=
  PTree.delete_step_R_case1_skip h hxp

/-- **case 2** (`w` black with two black children), `x` a right child: the test of the C code succeeds, `w`
becomes red, the loop continues at the parent -/
theorem delete_fixup_case2_right {st : PT} {T : ITree} {g : Path} {xp : Nat} {cp : Colour} {X : ITree} {kp vp w : Nat}
    {cw : Colour} {wl : ITree} {kw vw : Nat} {wr : ITree}
    (h : At st T g (.node xp cp (.node w cw wr kw vw wl) kp vp X)) (hwl : wl.col = .black) (hwr : wr.col = .black)
    {x : Nat} (hxp : (st.heap.get x).parent = xp) :
    ((st.heap.get (st.heap.get w).right).color = .black ∧ (st.heap.get (st.heap.get w).left).color = .black) ∧
    At { st with heap := setColor st.heap w .red } T g (.node xp cp (.node w .red wr kw vw wl) kp vp X) ∧
    ((setColor st.heap w .red).get x).parent = xp :=
  PTree.delete_step_R_case2 h hwl hwr hxp

/-- **case 3** (`w` black, its far child black, its near child `l` a node — red in a red-black tree), `x` a right
child: `l` black, `w` red, rotate left at `w`; the new sibling is `l`, `x->parent` is unchanged -/
theorem delete_fixup_case3_right {st : PT} {T : ITree} {g : Path} {xp : Nat} {cp : Colour} {X : ITree} {kp vp w : Nat}
    {cw : Colour} {l : Nat} {cl : Colour} {la : ITree} {kl vl : Nat} {lb : ITree} {kw vw : Nat} {wr : ITree}
    (h : At st T g (.node xp cp (.node w cw wr kw vw (.node l cl lb kl vl la)) kp vp X)) (hwr : wr.col = .black)
    {x : Nat} (hx : x = X.rid) (hxp : (st.heap.get x).parent = xp) :
    ∃ st', delCase3R st x w = (st', l) ∧
      At st' T g (.node xp cp (.node l .black (.node w .red wr kw vw lb) kl vl la) kp vp X) ∧
      (st'.heap.get x).parent = xp :=
  PTree.delete_step_R_case3 h hwr hx hxp

/-- `w`'s far child red: case 3 does nothing -/
theorem delete_fixup_case3_skip_right {st : PT} {T : ITree} {g : Path} {xp : Nat} {cp : Colour} {X : ITree} {kp vp w : Nat}
    {cw : Colour} {wl : ITree} {kw vw : Nat} {wr : ITree}
    (h : At st T g (.node xp cp (.node w cw wr kw vw wl) kp vp X)) (hwr : wr.col = .red) (x : Nat) :
    delCase3R st x w = (st, w) :=
  PTree.delete_step_R_case3_skip h hwr x

/-- **case 4** (`w`'s far child `r` a node — red in a red-black tree), `x` a right child: `w` takes the parent's
colour, parent and `r` black, rotate right at the parent (then `x = root` ends the loop) -/
theorem delete_fixup_case4_right {st : PT} {T : ITree} {g : Path} {xp : Nat} {cp : Colour} {X : ITree} {kp vp w : Nat}
    {cw : Colour} {wl : ITree} {kw vw r : Nat} {cr : Colour} {ra : ITree} {kr vr : Nat} {rb : ITree}
    (h : At st T g (.node xp cp (.node w cw (.node r cr rb kr vr ra) kw vw wl) kp vp X))
    {x : Nat} (hxp : (st.heap.get x).parent = xp) :
    ∃ st', delCase4R st x w = st' ∧
      At st' T g (.node w cp (.node r .black rb kr vr ra) kw vw (.node xp .black wl kp vp X)) :=
  PTree.delete_step_R_case4 h hxp

/-! ## `rebalance_after_delete` as a whole, `remove_node` and the removal calls end to end

`Tree.Short t q n` (Proofs/TreeTableShort.lean) is the loop invariant on the inductive tree: the rules hold
everywhere except that the subtree at `q` — the node `x` of the C loop, possibly the sentinel — is one black node
short.  `DelPre st T q n x` bundles it with `Represents st T`, `x` = the node at `q`, `x->parent` = the node above
(a separate hypothesis because for the sentinel it is the scratch value written by `transplant`) and "the root is
black unless `x` is the root"; `DelPost T r` says: well-formed heap, same nodes, same in-order content, and
blackening the returned node makes the rules hold. -/

/-- **the loop of `rebalance_after_delete`**, any fuel that covers the depth of `x` -/
theorem rebalance_after_delete_loop (f : Nat) (st : PT) (T : ITree) (q : Path) (n x : Nat)
    (pre : DelPre st T q n x) (hf : q.length ≤ f) : DelPost T (rebalDeleteLoop f st x) :=
  rebalDeleteLoop_post f st T q n x pre hf

/-- **`rebalance_after_delete`** (loop and final `x->color = BLACK`): well-formed, same nodes, same in-order content,
red-black rules with a black root -/
theorem rebalance_after_delete_rb (st : PT) (T : ITree) (q : Path) (n x : Nat) (pre : DelPre st T q n x)
    (F : Nat) (hF : q.length ≤ F) :
    ∃ T', Represents { (rebalDeleteLoop F st x).1 with
              heap := setColor (rebalDeleteLoop F st x).1.heap (rebalDeleteLoop F st x).2 .black } T' ∧
      T'.erase.toList = T.erase.toList ∧ T'.ids.Perm T.ids ∧ Tree.RB T'.erase :=
  rebalanceAfterDelete_post pre F hF

/-- the loop neither reads nor writes `size` (`remove_node` decrements it afterwards) -/
theorem delete_loop_ignores_size (f : Nat) (st : PT) (x n : Nat) :
    rebalDeleteLoop f { st with size := n } x =
      ({ (rebalDeleteLoop f st x).1 with size := n }, (rebalDeleteLoop f st x).2) :=
  rebalDeleteLoop_size f st x n

/-- the splice establishes the loop's precondition when a black node left, and leaves a red-black tree when a red
one left (all four structural cases; `qx` is the position of `x`) -/
theorem splice_establishes_invariant (cmp : Nat → Nat → Int) (hto : TotalOrder cmp) (st : PT) (T : ITree)
    (h : Represents st T) (hb : Tree.BST cmp T.erase) (hrb : Tree.RB T.erase) (q : Path) {z cz zl zk zv zr}
    (hs : T.subtree q = .node z cz zl zk zv zr) :
    ∃ T' qx, SpliceOut st T z zk cmp T' qx :=
  removeSplice_out cmp hto h hb hrb q hs

/-- **`remove_node` end to end**, every structural case, with or without the fix-up -/
theorem remove_node_wf (cmp : Nat → Nat → Int) (hto : TotalOrder cmp) (st : PT) (T : ITree)
    (h : Represents st T) (hb : Tree.BST cmp T.erase) (hrb : Tree.RB T.erase) (q : Path) {z cz zl zk zv zr}
    (hs : T.subtree q = .node z cz zl zk zv zr) :
    ∃ T', Represents (removeNode st z) T' ∧ (z :: T'.ids).Perm T.ids ∧
      (toTree (removeNode st z)).toList = OrdMap.erase (toTree st).toList zk ∧ Tree.RB (toTree (removeNode st z)) := by
  obtain ⟨T', a, b, c, d⟩ := removeNode_wf cmp hto h hb hrb q hs
  exact ⟨T', a, b, by rw [a.toTree, h.toTree]; exact c, by rw [a.toTree]; exact d⟩

/-- **`cc_treetable_remove` end to end**: the lookup loop finds the node with the key (absent: the state is
returned unchanged), `remove_node` does the rest -/
theorem remove_wf (cmp : Nat → Nat → Int) (hto : TotalOrder cmp) (st : PT) (T : ITree)
    (h : Represents st T) (hb : Tree.BST cmp T.erase) (hrb : Tree.RB T.erase) (k : Nat) :
    (T.subtree (Tree.leafPath cmp k T.erase) = .nil → remove cmp st k = st) ∧
    (∀ {z cz zl zk zv zr}, T.subtree (Tree.leafPath cmp k T.erase) = .node z cz zl zk zv zr →
      zk = k ∧ ∃ T', Represents (remove cmp st k) T' ∧ (z :: T'.ids).Perm T.ids ∧
        T'.erase.toList = OrdMap.erase T.erase.toList k ∧ Tree.RB T'.erase ∧ Tree.BST cmp T'.erase) :=
  PTree.remove_wf cmp hto h hb hrb k

/-- **`cc_treetable_remove_first` / `remove_last`** on a non-empty table -/
theorem remove_first_wf (cmp : Nat → Nat → Int) (hto : TotalOrder cmp) (st : PT) (T : ITree)
    (h : Represents st T) (hb : Tree.BST cmp T.erase) (hrb : Tree.RB T.erase) (hne : T ≠ .nil) :
    ∃ z cz zk zv zr, T.subtree (Tree.treeMinPath T.erase) = .node z cz .nil zk zv zr ∧
      ∃ T', Represents (removeFirst st) T' ∧ (z :: T'.ids).Perm T.ids ∧
        T'.erase.toList = OrdMap.erase T.erase.toList zk ∧ Tree.RB T'.erase :=
  removeFirst_wf cmp hto h hb hrb hne
theorem remove_last_wf (cmp : Nat → Nat → Int) (hto : TotalOrder cmp) (st : PT) (T : ITree)
    (h : Represents st T) (hb : Tree.BST cmp T.erase) (hrb : Tree.RB T.erase) (hne : T ≠ .nil) :
    ∃ z cz zl zk zv, T.subtree (Tree.treeMaxPath T.erase) = .node z cz zl zk zv .nil ∧
      ∃ T', Represents (removeLast st) T' ∧ (z :: T'.ids).Perm T.ids ∧
        T'.erase.toList = OrdMap.erase T.erase.toList zk ∧ Tree.RB T'.erase :=
  removeLast_wf cmp hto h hb hrb hne

/-- **`cc_treetable_iter_remove`**: the node handed out last is removed by `remove_node`; the saved `next` node — any
other node of the tree — is still a node of the resulting tree (the successor *node* is re-linked, not copied) -/
theorem iter_remove_wf (cmp : Nat → Nat → Int) (hto : TotalOrder cmp) (st : PT) (T : ITree)
    (h : Represents st T) (hb : Tree.BST cmp T.erase) (hrb : Tree.RB T.erase) (it : PIter) (q : Path)
    {z cz zl zk zv zr} (hs : T.subtree q = .node z cz zl zk zv zr) (hcur : it.cur = some z) :
    ∃ T', Represents (iterRemove st it).1 T' ∧ (z :: T'.ids).Perm T.ids ∧
      T'.erase.toList = OrdMap.erase T.erase.toList zk ∧ Tree.RB T'.erase ∧
      (it.next ∈ T.ids → it.next ≠ z → (iterRemove st it).2.next ∈ T'.ids) := by
  have hz0 : z ≠ 0 := (h.get_at q hs).2
  obtain ⟨T', a, b, c, d⟩ := removeNode_wf cmp hto h hb hrb q hs
  unfold iterRemove
  simp only [hcur, S, hz0, if_false]
  refine ⟨T', a, b, c, d, fun hm hne => ?_⟩
  have := b.symm.subset hm
  simp only [List.mem_cons] at this
  exact this.resolve_left hne

/-- **every reachable state is good**: from the constructor, any sequence of `add` (granted or refused), `remove`,
`remove_first`, `remove_last` — for any total-order comparator — leaves a heap that represents a red-black search
tree (`Good`: `Represents`, `BST`, `RB`) -/
theorem reachable_states_good (cmp : Nat → Nat → Int) (hto : TotalOrder cmp) (ops : List POp) :
    Good cmp (ops.foldl (POp.run cmp) PTree.new) :=
  Good.run cmp hto ops

/-! ## The refinement theorem: C03 for the pointer-level model

`PTree.step cmp st op ok` (Model/PTree.lean) is one public call on the pointer-level state with the status code, the
out-value and the callback log as the C function produces them — `add`, `get`, `contains_key`, `contains_value`,
`remove`, `remove_first/last`, `remove_all`, `get_first/last_key/value`, `get_greater_than/lesser_than`,
`foreach_key/value`, `size` — computed from the heap by the loops of the C text; `ok` is the allocator's answer to the
one request `add` may make.  `PTree.run` is a history with a refusal schedule. -/

/-- **one call at the pointer level refines the ordered-map specification** (`Spec.OrdMap.step`, the specification
C03's statements are about): same status, out-value, callback log — under refusal `!ok` too — and the new heap
represents a red-black search tree whose in-order content is the specification's new map -/
theorem pstep_refines (cmp : Nat → Nat → Int) (hto : TotalOrder cmp) (st : PT) (T : ITree) (h : Represents st T)
    (hb : Tree.BST cmp T.erase) (hrb : Tree.RB T.erase) (op : OrdMap.Op) (ok : Bool) :
    (PTree.step cmp st op ok).1 = (OrdMap.step cmp T.erase.toList op (!ok)).1 ∧
    ∃ T', Represents (PTree.step cmp st op ok).2 T' ∧
      T'.erase.toList = (OrdMap.step cmp T.erase.toList op (!ok)).2 ∧ Tree.BST cmp T'.erase ∧ Tree.RB T'.erase :=
  PTree.pstep_refines cmp hto h hb hrb op ok

/-- **C03 for the pointer-level model**: every history from the constructor, under every refusal schedule, returns
call by call what the ordered map returns, and ends in a well-formed heap holding the map's content -/
theorem phistory_refines_ordmap (cmp : Nat → Nat → Int) (hto : TotalOrder cmp) (ops : List (OrdMap.Op × Bool)) :
    (PTree.run cmp PTree.new ops).1 = (OrdMap.run cmp [] ops).1 ∧
    ∃ T', Represents (PTree.run cmp PTree.new ops).2 T' ∧ T'.erase.toList = (OrdMap.run cmp [] ops).2 ∧
      Tree.BST cmp T'.erase ∧ Tree.RB T'.erase :=
  phistory_refines_new cmp hto ops

/-- the same from any represented state -/
theorem phistory_refines_from (cmp : Nat → Nat → Int) (hto : TotalOrder cmp) (ops : List (OrdMap.Op × Bool))
    (st : PT) (T : ITree) (h : Represents st T) (hb : Tree.BST cmp T.erase) (hrb : Tree.RB T.erase) :
    (PTree.run cmp st ops).1 = (OrdMap.run cmp T.erase.toList ops).1 ∧
    ∃ T', Represents (PTree.run cmp st ops).2 T' ∧ T'.erase.toList = (OrdMap.run cmp T.erase.toList ops).2 ∧
      Tree.BST cmp T'.erase ∧ Tree.RB T'.erase :=
  phistory_refines cmp hto ops h hb hrb

/-- **`tree_destroy` / `cc_treetable_remove_all`**: exactly the nodes of the tree leave the heap (each id once: the
ids are pairwise distinct), the sentinel and every other entry are untouched; the result is the empty table.
(`cc_treetable_destroy` then frees the sentinel and the header: one more `del`, not modelled in `PT`.) -/
theorem remove_all_wf (st : PT) (T : ITree) (h : Represents st T) :
    Represents (removeAll st) .nil ∧
    (∀ i ∈ T.ids, (removeAll st).heap.m.contains i = false) ∧
    (∀ j, j ∉ T.ids → (removeAll st).heap.m.contains j = st.heap.m.contains j ∧
      (removeAll st).heap.get j = st.heap.get j) :=
  removeAll_represents h

/-- **whole-walk theorem**: `iter_init`, then `iter_next` until `CC_ITER_END`, hands out the entries in order, every
key once (`iterWalk`: the list of entries handed out); the same walk drives `foreach_key/value`, `contains_value` -/
theorem iterator_enumerates (st : PT) (T : ITree) (h : Represents st T) :
    iterWalk st (st.size + 1) (iterInit st) = (toTree st).toList ∧ inorder st = (toTree st).toList := by
  rw [h.toTree]; exact ⟨iterWalk_rep h, inorder_rep h⟩

/-- **C17 at the pointer level**: on a heap that represents a red-black tree of `n = size` keys — every reachable
state, by `reachable_states_good` — the descent of `get_tree_node_by_key` / `cc_treetable_add` compares at most
`2·⌊log₂(n+1)⌋` times (`descentCount`: one comparator call per node visited, = the inductive model's count); `add`
calls the comparator once more to choose the side of the new leaf: at most `2·⌊log₂(n+1)⌋ + 2` per public call -/
theorem descent_comparisons (cmp : Nat → Nat → Int) (st : PT) (T : ITree) (h : Represents st T)
    (hrb : Tree.RB T.erase) (k : Nat) :
    descentCount cmp st.heap k (st.size + 1) st.root ≤ 2 * Nat.log2 (st.size + 1) ∧
    descentCount cmp st.heap k (st.size + 1) st.root + 1 ≤ 2 * Nat.log2 (st.size + 1) + 2 :=
  PTree.descent_comparisons cmp h hrb k
theorem descent_count_is_model_count (cmp : Nat → Nat → Int) (st : PT) (T : ITree) (h : Represents st T) (k : Nat) :
    descentCount cmp st.heap k (st.size + 1) st.root = (Tree.find cmp k (toTree st)).2 := by
  have hf : T.height ≤ st.size + 1 := by have := ITree.height_le_ids T; rw [h.size]; omega
  rw [h.toTree, h.root]; exact descentCount_rep cmp k h.rep _ hf

/-! ## The set wrapper, the ledger of nodes, the height bound — on the pointer-level model -/

/-- **`cc_treeset` at the pointer level behaves like an ideal ordered set**: any history of add / remove / contains /
first / last / greater_than / lesser_than / foreach / size / remove_all (`setRun`: the wrapped table call with the
dummy value, `KEY_NOT_FOUND` reported as `VALUE_NOT_FOUND`), under every refusal schedule, returns call by call what
the C API hands back for the ideal set's answers (`OrdSet.apiOuts`; as recorded in C03.lean, `cc_treeset_remove`
stores the table's value — the dummy — in `*out`, not the element: an observation outside C03's wording), and ends
in a well-formed heap whose keys are the ideal set's elements -/
theorem set_phistory_refines (cmp : Nat → Nat → Int) (hto : TotalOrder cmp) (ops : List (OrdSet.Op × Bool)) :
    (setRun cmp PTree.new ops).1 = OrdSet.apiOuts (ops.map (·.1)) (OrdSet.run cmp [] ops).1 ∧
    ∃ T', Represents (setRun cmp PTree.new ops).2 T' ∧ T'.erase.toList = (OrdSet.run cmp [] ops).2 ∧
      Tree.BST cmp T'.erase ∧ Tree.RB T'.erase ∧ AllDummy T'.erase.toList :=
  set_phistory_refines_new cmp hto ops

/-- **the ledger, one call** (C06 for the tree at the pointer level): the nodes of the represented tree change by
exactly what the call allocates or frees — nothing; the one node with the fresh allocation serial (`add` of an
absent key, granted); exactly the removed node, which has left the heap; or all of them (`remove_all`) — and `size`
is the number of nodes -/
theorem pstep_ledger (cmp : Nat → Nat → Int) (hto : TotalOrder cmp) (st : PT) (T : ITree) (h : Represents st T)
    (hb : Tree.BST cmp T.erase) (hrb : Tree.RB T.erase) (op : OrdMap.Op) (ok : Bool) :
    ∃ T', Represents (PTree.step cmp st op ok).2 T' ∧ (PTree.step cmp st op ok).2.size = T'.ids.length ∧
      (T'.ids.Perm T.ids ∨
       T'.ids.Perm (st.fresh :: T.ids) ∨
       (∃ z, (z :: T'.ids).Perm T.ids ∧ (PTree.step cmp st op ok).2.heap.m.contains z = false) ∨
       (T' = .nil ∧ ∀ i ∈ T.ids, (PTree.step cmp st op ok).2.heap.m.contains i = false)) :=
  PTree.pstep_ledger cmp hto h hb hrb op ok

/-- **the ledger along histories**: at every point of every history from the constructor, under every refusal
schedule, `size` = number of nodes of the represented tree = number of keys of the ideal map; all node ids are
positive and below the allocation serial (the sentinel, id 0, is never freed by these calls; the header and the
constructor's / `destroy`'s blocks are in the inductive model's ledger, `C06Tree`) -/
theorem phistory_ledger (cmp : Nat → Nat → Int) (hto : TotalOrder cmp) (ops : List (OrdMap.Op × Bool)) :
    ∃ T', Represents (PTree.run cmp PTree.new ops).2 T' ∧
      (PTree.run cmp PTree.new ops).2.size = T'.ids.length ∧
      (PTree.run cmp PTree.new ops).2.size = (OrdMap.run cmp [] ops).2.length ∧
      (∀ i ∈ T'.ids, 0 < i ∧ i < (PTree.run cmp PTree.new ops).2.fresh) :=
  PTree.phistory_ledger cmp hto ops

/-- **C17 on `PT`: every reachable pointer-level state is balanced** — height at most `2·⌊log₂(size+1)⌋` after any
history, under every refusal schedule -/
theorem reachable_height_bound (cmp : Nat → Nat → Int) (hto : TotalOrder cmp) (ops : List (OrdMap.Op × Bool)) :
    (toTree (PTree.run cmp PTree.new ops).2).height ≤ 2 * Nat.log2 ((PTree.run cmp PTree.new ops).2.size + 1) :=
  PTree.reachable_height_bound cmp hto ops

/-! ## Non-vacuity of the hypotheses -/

/-- the numeric comparator -/
def numCmp (a b : Nat) : Int := (a : Int) - b
theorem numCmp_total : TotalOrder numCmp := by
  refine ⟨fun a b => ?_, fun a b => ?_, fun a b c => ?_⟩ <;> unfold numCmp <;> omega

/-- a one-node table (built by `add` itself) satisfies the hypothesis bundle of `add_new_key` /
`link_leaf` / `add_refused_unchanged` for the absent key 7 and of `add_existing_key` for the key 5 -/
example :
    Represents (add numCmp PTree.new 5 50 true) (.node 1 .black .nil 5 50 .nil) ∧
    Tree.BST numCmp (ITree.node 1 .black .nil 5 50 .nil).erase ∧ Tree.RB (ITree.node 1 .black .nil 5 50 .nil).erase ∧
    ITree.node 1 .black .nil 5 50 .nil ≠ .nil ∧
    (ITree.node 1 .black .nil 5 50 .nil).subtree (Tree.leafPath numCmp 7 (ITree.node 1 .black .nil 5 50 .nil).erase) = .nil ∧
    (ITree.node 1 .black .nil 5 50 .nil).subtree (Tree.leafPath numCmp 5 (ITree.node 1 .black .nil 5 50 .nil).erase) =
      .node 1 .black .nil 5 50 .nil :=
  ⟨add_first_key numCmp _ new_represents 5 50, by decide, by decide, by simp, by decide, by decide⟩

/-- three ascending insertions (the third runs the loop through a recolouring-and-rotation case): the
theorems chain, the final heap is well-formed with the expected content -/
example : ∃ T, Represents (add numCmp (add numCmp (add numCmp PTree.new 5 50 true) 7 70 true) 9 90 true) T ∧
    T.erase.toList = [(5, 50), (7, 70), (9, 90)] ∧ Tree.RB T.erase ∧ Tree.BST numCmp T.erase := by
  have h1 := add_first_key numCmp _ new_represents 5 50
  obtain ⟨T2, h2, l2, rb2, b2⟩ := PTree.add_wf numCmp numCmp_total h1 (by decide) (by decide) 7 70
  obtain ⟨T3, h3, l3, rb3, b3⟩ := PTree.add_wf numCmp numCmp_total h2 b2 rb2 9 90
  refine ⟨T3, h3, ?_, rb3, b3⟩
  rw [l3, l2]; decide
/-- a concrete five-node heap (ids 1–5, sentinel 0) -/
def ex5heap : Heap :=
  let h : Heap := {}
  let h := h.set 0 { color := .black }
  let h := h.set 1 { key := 20, color := .red, parent := 2 }
  let h := h.set 2 { key := 30, color := .black, left := 1, parent := 4 }
  let h := h.set 3 { key := 60, color := .red, parent := 5 }
  let h := h.set 4 { key := 50, color := .black, left := 2, right := 5 }
  h.set 5 { key := 80, color := .black, left := 3, parent := 4 }
def ex5 : PT := { heap := ex5heap, root := 4, size := 5, fresh := 6 }
def T5 : ITree :=
  .node 4 .black (.node 2 .black (.node 1 .red .nil 20 0 .nil) 30 0 .nil) 50 0
    (.node 5 .black (.node 3 .red .nil 60 0 .nil) 80 0 .nil)

theorem ex5_represents : Represents ex5 T5 := by
  refine ⟨rfl, ?_, by decide, ?_, ?_, rfl, by decide, by decide⟩
  · simp [Rep, ex5, ex5heap, T5, Heap.get_set]
  · simp [ex5, ex5heap, Heap.get_set]
  · simp [ex5, ex5heap, Heap.get_set]

/-- the hypothesis bundles of `remove_no_left_child` (node 1), `remove_no_right_child` (node 2) and
`remove_two_children_successor_deeper` (node 4: its successor 3 is not its child) are satisfiable -/
example :
    Represents ex5 T5 ∧ Tree.BST numCmp T5.erase ∧ Tree.RB T5.erase ∧
    T5.subtree [.L, .L] = .node 1 .red .nil 20 0 .nil ∧
    T5.subtree [.L] = .node 2 .black (.node 1 .red .nil 20 0 .nil) 30 0 .nil ∧
    T5.subtree [] = .node 4 .black (.node 2 .black (.node 1 .red .nil 20 0 .nil) 30 0 .nil) 50 0
      (.node 5 .black (.node 3 .red .nil 60 0 .nil) 80 0 .nil) ∧
    (ITree.node 3 .red .nil 60 0 .nil).subtree (Tree.treeMinPath (ITree.node 3 .red .nil 60 0 .nil).erase) =
      .node 3 .red .nil 60 0 .nil :=
  ⟨ex5_represents, by decide, by decide, rfl, rfl, rfl, rfl⟩

/-- a three-node heap: the root has two children and its successor is its right child -/
def ex3heap : Heap :=
  let h : Heap := {}
  let h := h.set 0 { color := .black }
  let h := h.set 1 { key := 30, color := .red, parent := 2 }
  let h := h.set 2 { key := 50, color := .black, left := 1, right := 3 }
  h.set 3 { key := 70, color := .red, parent := 2 }
def ex3 : PT := { heap := ex3heap, root := 2, size := 3, fresh := 4 }
def T3 : ITree := .node 2 .black (.node 1 .red .nil 30 0 .nil) 50 0 (.node 3 .red .nil 70 0 .nil)
theorem ex3_represents : Represents ex3 T3 := by
  refine ⟨rfl, ?_, by decide, ?_, ?_, rfl, by decide, by decide⟩
  · simp [Rep, ex3, ex3heap, T3, Heap.get_set]
  · simp [ex3, ex3heap, Heap.get_set]
  · simp [ex3, ex3heap, Heap.get_set]
/-- the hypothesis bundle of `remove_two_children_successor_is_child` is satisfiable -/
example : Represents ex3 T3 ∧ Tree.BST numCmp T3.erase ∧
    T3.subtree [] = .node 2 .black (.node 1 .red .nil 30 0 .nil) 50 0 (.node 3 .red .nil 70 0 .nil) ∧
    ITree.node 1 .red .nil 30 0 .nil ≠ .nil :=
  ⟨ex3_represents, by decide, rfl, by simp⟩

/-- removing the red leaf 1 of the five-node heap goes through `remove_node_no_fixup` (its hypothesis
`colour that leaves = red` holds) -/
example : (removeSplice ex5 1).2.2 = .red := by
  have := (remove_no_left_child numCmp numCmp_total ex5 T5 ex5_represents (by decide) [.L, .L]
    (z := 1) (cz := .red) (zk := 20) (zv := 0) (zr := .nil) rfl).1
  rw [this]
/-- the concrete heaps are well-formed -/
example : WF ex5 ∧ WF ex3 := ⟨⟨_, ex5_represents⟩, ⟨_, ex3_represents⟩⟩

/-- the hypothesis bundles of the delete fix-up lemmas are satisfiable: in the five-node heap node 2 (a left
child of 4) has the black sibling 5 whose near child 3 is red and far child empty (`delete_fixup_case3_left`;
mirrored, node 5 has the sibling 2 whose far child 1 is red: `delete_fixup_case4_right`); in the three-node
heap node 1 has the red sibling 3 (`delete_fixup_case1_left`) with two empty, hence black, children
(`delete_fixup_case2_left`) -/
example :
    At ex5 T5 [] (.node 4 .black (.node 2 .black (.node 1 .red .nil 20 0 .nil) 30 0 .nil) 50 0
      (.node 5 .black (.node 3 .red .nil 60 0 .nil) 80 0 .nil)) ∧
    (ex5.heap.get 2).parent = 4 ∧ (ex5.heap.get 5).parent = 4 ∧
    At ex3 T3 [] (.node 2 .black (.node 1 .red .nil 30 0 .nil) 50 0 (.node 3 .red .nil 70 0 .nil)) ∧
    (ex3.heap.get 1).parent = 2 :=
  ⟨At.of_represents ex5_represents [] (by simp [T5]), by simp [ex5, ex5heap, Heap.get_set],
   by simp [ex5, ex5heap, Heap.get_set], At.of_represents ex3_represents [] (by simp [T3]),
   by simp [ex3, ex3heap, Heap.get_set]⟩

/-- the hypothesis bundle of `remove_node_wf` / `splice_establishes_invariant` is satisfiable (the five-node heap,
removing the black root 4 whose successor 3 is not its child; removing the black node 2 hands a deficit to the
fix-up), and the theorems chain along a history with removals that run the fix-up loop -/
example : (∃ T', Represents (removeNode ex5 4) T' ∧ (4 :: T'.ids).Perm T5.ids) ∧
    (∃ T' qx, SpliceOut ex5 T5 2 30 numCmp T' qx) ∧
    Good numCmp ([POp.add 1 0 true, .add 2 0 true, .add 3 0 true, .add 4 0 true, .add 5 0 true, .add 6 0 true,
      .add 7 0 false, .add 7 0 true, .remove 1, .remove 4, .removeFirst, .removeLast, .remove 9].foldl
      (POp.run numCmp) PTree.new) := by
  refine ⟨?_, ?_, reachable_states_good numCmp numCmp_total _⟩
  · obtain ⟨T', a, b, _⟩ := remove_node_wf numCmp numCmp_total ex5 T5 ex5_represents (by decide) (by decide) []
      (z := 4) rfl
    exact ⟨T', a, b⟩
  · exact splice_establishes_invariant numCmp numCmp_total ex5 T5 ex5_represents (by decide) (by decide) [.L]
      (z := 2) rfl

/-- the refinement theorem on a concrete history with a refused allocation, replacements, removals of present and
absent keys, neighbour queries and a final `remove_all`: the pointer-level results are the specification's -/
example :
    (PTree.run numCmp PTree.new [(.add 5 50, false), (.add 3 30, false), (.add 8 80, true), (.add 8 81, false),
      (.add 5 51, true), (.get 5, false), (.greaterThan 5, false), (.lesserThan 3, false), (.remove 4, false),
      (.remove 5, false), (.removeFirst, false), (.foreachKey, false), (.size, false), (.removeAll, false),
      (.firstKey, false)]).1 =
    (OrdMap.run numCmp [] [(.add 5 50, false), (.add 3 30, false), (.add 8 80, true), (.add 8 81, false),
      (.add 5 51, true), (.get 5, false), (.greaterThan 5, false), (.lesserThan 3, false), (.remove 4, false),
      (.remove 5, false), (.removeFirst, false), (.foreachKey, false), (.size, false), (.removeAll, false),
      (.firstKey, false)]).1 :=
  (phistory_refines_ordmap numCmp numCmp_total _).1
/-- … and the specification's results there are the expected ones (so the statement is not about empty outputs) -/
example :
    ((OrdMap.run numCmp [] [(.add 5 50, false), (.add 8 80, true), (.add 8 81, false), (.get 8, false),
      (.greaterThan 5, false), (.size, false)]).1.map (fun o => (o.st, o.val))) =
    [(some .ok, none), (some .errAlloc, none), (some .ok, none), (some .ok, some 81), (some .ok, some 8),
     (none, some 2)] := by decide
/-- the five-node heap satisfies the hypotheses of `pstep_refines`, `remove_all_wf`, `iterator_enumerates` and
`descent_comparisons`; its iterator walk is the expected list -/
example : iterWalk ex5 (ex5.size + 1) (iterInit ex5) = [(20, 0), (30, 0), (50, 0), (60, 0), (80, 0)] := by
  rw [(iterator_enumerates ex5 T5 ex5_represents).1, ex5_represents.toTree]; decide

/-- the set wrapper on a concrete history (re-adding a member, removing a member and a non-member, a refused add):
the pointer-level results are those of the ideal set as the API hands them back, e.g. `remove 5` → status OK with the
dummy 1 in `*out`, `remove 9` → `CC_ERR_VALUE_NOT_FOUND` -/
example :
    ((setRun numCmp PTree.new [(.add 5, false), (.add 3, false), (.add 5, false), (.add 7, true), (.remove 5, false),
      (.remove 9, false), (.contains 3, false), (.first, false), (.size, false)]).1.map (fun o => (o.st, o.val))) =
    [(some .ok, none), (some .ok, none), (some .ok, none), (some .errAlloc, none), (some .ok, some 1),
     (some .errValueNotFound, none), (none, some 1), (some .ok, some 3), (none, some 1)] := by
  rw [(set_phistory_refines numCmp numCmp_total _).1]; decide

end CC.Properties.C03PTree
