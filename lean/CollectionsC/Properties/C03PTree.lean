import CollectionsC.Proofs.PTreeWF
import CollectionsC.Proofs.PTreeInsertLoop
/-! # C03 / C17 — the pointer level of `cc_treetable.c`

`Model/PTree.lean` is the tree as the C code sees it: a heap of nodes `{ key, value, color, left, right,
parent }` addressed by ids, the shared sentinel (id 0, a real node whose `parent` is scratch space), `root`,
`size`; `rotate_left`, `rotate_right`, `transplant`, `tree_min`, `tree_max`, `get_successor_node`,
`get_predecessor_node`, `rebalance_after_insert`, `cc_treetable_add`, `remove_node`,
`rebalance_after_delete`, `remove / remove_first / remove_last / remove_all` and the iterator (two node
ids) are pointer surgery, assignment by assignment in the order of the C text.

**Proved here** (for every heap, every tree, every position; no assumption on keys or colours):
* the representation predicate `Represents st t` (`t` an id-annotated tree): `root`, all child pointers,
  **all parent pointers**, keys, values, colours, pairwise distinct nodes, black sentinel, `size`;
  `toTree st` is then `t` without the ids — the inductive tree of `Model/TreeTable.lean`;
* `rotate_left` / `rotate_right` at any node with the required child: well-formedness is preserved
  (the re-parenting lines, the parent's child pointer or `table->root`, the untouched sentinel) and
  `toTree` commutes with the rotation of the inductive tree at that position;
* `transplant(u, v)`: the heap represents the tree with `v`'s subtree in `u`'s place, `v->parent` is `u`'s
  parent also when `v` is the sentinel (the scratch value `rebalance_after_delete` will read);
* `tree_min`, `tree_max`, `get_successor_node`, `get_predecessor_node` on the heap (parent-pointer climb)
  arrive at the node the path-based walks of the inductive model name — hence, by
  `C03.successor_walk_is_inorder`, at the in-order neighbours.

* `rebalance_after_insert`: every iteration of the `while` loop, in each of its six cases (uncle red;
  uncle black with `z` an outer / an inner child; both sides), turns a heap that represents `T` into one
  that represents `T` with **the inductive fix-up `Tree.fixInsLeft` / `fixInsRight` applied at the
  grandparent** (`fixup_case*`), and the loop as a whole — with the final `root->color = BLACK` — keeps
  `Represents`, the node set and the in-order content (`rebalance_after_insert_wf`).

**Not proved, compared by the harness only**:
* `cc_treetable_add` end to end.  What remains: (a) the descent + linking of the new red node (heap
  `addDescent`, `fresh`) represents the tree with a red leaf at the descent position; (b) the purely
  inductive fact that running the case steps bottom-up along the path (stopping at the first black
  parent) equals the structurally recursive `Tree.ins` with its fix-up at every ancestor — true under
  the red-black invariant because the fix-up is the identity where no red node has a red child; the
  premises the case lemmas take (`z` red, its sibling black, uncle colour) are what that invariant gives.
* `remove_node` with `rebalance_after_delete` against `Tree.del` (and `Represents` through them).
These functions *are* in the pointer-level model and executable: the Lean driver runs it alongside the
inductive model on every history, checks `toTree` = the inductive tree after every call (flag `inv`), and
prints the tree from the pointer-level heap with node ids and parent ids (`#id^parent`), which the
correspondence check compares with the ids and `parent` fields of the C heap (L3) — for insertions,
deletions (all CLRS cases, the two-child re-linking of the successor *node*, the sentinel's parent) and
iterator removal alike. -/
namespace CC.Properties.C03PTree
open CC CC.PTree
open CC.Tree (Path Dir)

/-- the constructor's heap is well-formed and represents the empty tree -/
theorem new_wf : Represents PTree.new .nil ∧ toTree PTree.new = .nil :=
  ⟨new_represents, new_represents.toTree⟩

/-- a represented heap reads back as the inductive tree -/
theorem toTree_of_represents (st : PT) (t : ITree) (h : Represents st t) : toTree st = t.erase := h.toTree

/-- **`rotate_left(table, x)`**: for the node `x` at position `q` with right child `y`, the resulting heap
is well-formed — it represents the rotated id-annotated tree, parent pointers included — and `toTree`
commutes with `Tree.rotL` at `q` -/
theorem rotate_left_commutes (st : PT) (t : ITree) (h : Represents st t) (q : Path) {x cx a kx vx y cy b ky vy c}
    (hs : t.subtree q = .node x cx a kx vx (.node y cy b ky vy c)) :
    Represents (rotateLeft st x) (t.replace q (.node y cy (.node x cx a kx vx b) ky vy c)) ∧
    toTree (rotateLeft st x) = Tree.replaceAt (toTree st) q (Tree.rotL (Tree.subtree (toTree st) q)) :=
  rotateLeft_represents h q hs

/-- **`rotate_right(table, x)`** -/
theorem rotate_right_commutes (st : PT) (t : ITree) (h : Represents st t) (q : Path) {x cx a kx vx y cy b ky vy c}
    (hs : t.subtree q = .node x cx (.node y cy a ky vy b) kx vx c) :
    Represents (rotateRight st x) (t.replace q (.node y cy a ky vy (.node x cx b kx vx c))) ∧
    toTree (rotateRight st x) = Tree.replaceAt (toTree st) q (Tree.rotR (Tree.subtree (toTree st) q)) :=
  rotateRight_represents h q hs

/-- rotations neither write the sentinel nor change `size` -/
theorem rotations_keep_sentinel (st : PT) (t : ITree) (h : Represents st t) (q : Path) {x cx a kx vx y cy b ky vy c}
    (hs : t.subtree q = .node x cx a kx vx (.node y cy b ky vy c)) :
    (rotateLeft st x).heap.get 0 = st.heap.get 0 ∧ (rotateLeft st x).size = st.size :=
  let r := rotateLeft_rep h.rep h.root h.nodup q hs
  ⟨r.2.2.1, r.2.2.2.1⟩

/-- **`transplant(table, u, v)`** with `v` the root of a part `s'` of `u`'s subtree (or the sentinel): the
heap represents the tree with `s'` in the place of `u`'s subtree; `root` follows; the sentinel's `parent`
becomes `u`'s parent exactly when `v` is the sentinel; `u` itself is untouched (it is freed later) -/
theorem transplant_commutes (st : PT) (t : ITree) (h : Represents st t) (q : Path) {u cu l ku vu r}
    (hs : t.subtree q = .node u cu l ku vu r) (s' : ITree) (p' : Nat) (hs' : Rep st.heap s' p')
    (hnd' : s'.ids.Nodup) (hin : ∀ i ∈ s'.ids, i ∈ l.ids ∨ i ∈ r.ids) :
    Rep (transplant st u s'.rid).heap (t.replace q s') 0 ∧
    (transplant st u s'.rid).root = (t.replace q s').rid ∧
    toTreeF (transplant st u s'.rid).heap ((t.replace q s').height + 1) (transplant st u s'.rid).root =
      Tree.replaceAt (toTree st) q s'.erase ∧
    (transplant st u s'.rid).heap.get 0 =
      (if s'.rid = 0 then { st.heap.get 0 with parent := parentAt t 0 q } else st.heap.get 0) ∧
    (transplant st u s'.rid).heap.get u = st.heap.get u := by
  obtain ⟨a, b, c, d, _, _⟩ := transplant_rep h.rep h.root h.nodup q hs s' p' hs' hnd' hin
  refine ⟨a, b, ?_, c, d⟩
  rw [b, toTreeF_rep a _ (Nat.lt_succ_self _), ITree.erase_replace, h.toTree]

/-- **`get_successor_node` / `get_predecessor_node`** with their parent-pointer climb arrive at the nodes the
path-based walks name (`0` = the sentinel) -/
theorem successor_predecessor_agree (st : PT) (t : ITree) (h : Represents st t) (q : Path) {x c a k v b}
    (hs : t.subtree q = .node x c a k v b) :
    successor st.heap (st.size + 1) x =
      (match Tree.succPath (toTree st) q with | some s => (t.subtree s).rid | none => 0) ∧
    predecessor st.heap (st.size + 1) x =
      (match Tree.predPath (toTree st) q with | some s => (t.subtree s).rid | none => 0) :=
  walks_agree h q hs

/-- **`tree_min(root)` / `tree_max(root)`** -/
theorem tree_min_max_agree (st : PT) (t : ITree) (h : Represents st t) :
    treeMin st.heap (st.size + 1) st.root = (t.subtree (Tree.treeMinPath (toTree st))).rid ∧
    treeMax st.heap (st.size + 1) st.root = (t.subtree (Tree.treeMaxPath (toTree st))).rid :=
  min_max_agree h

/-- the iterator of the pointer-level model saves the successor *node* (its id): after `iter_next` on a
well-formed table `next` is the node at the in-order successor position of the node handed out -/
theorem iter_next_saves_successor_node (st : PT) (t : ITree) (h : Represents st t) (it : PIter) (q : Path)
    {x c a k v b} (hs : t.subtree q = .node x c a k v b) (hn : it.next = x) :
    (iterNext st it).cur = some x ∧
    (iterNext st it).next = (match Tree.succPath (toTree st) q with | some s => (t.subtree s).rid | none => 0) := by
  have hx0 : x ≠ 0 := by have := h.rep.sub q; rw [hs] at this; exact this.1
  unfold iterNext
  simp only [hn, S, hx0, if_false]
  exact ⟨trivial, (walks_agree h q hs).1⟩

/-! ## `rebalance_after_insert` -/

/-- **case 1** (red uncle): three recolourings, `z` moves to the grandparent `gi`; the heap represents the
tree with `Tree.fixInsLeft` applied at the grandparent position `g` (and `toTree` says so) -/
theorem fixup_case1_left (st : PT) (T : ITree) (g : Path) (gi : Nat) (cg : Colour) (p : Nat) (pl : ITree)
    (pk pv : Nat) (pr : ITree) (kg vg yi : Nat) (yl : ITree) (yk yv : Nat) (yr : ITree)
    (h : At st T g (.node gi cg (.node p .red pl pk pv pr) kg vg (.node yi .red yl yk yv yr)))
    (d2 : Dir) (z : Nat) (zl : ITree) (zk zv : Nat) (zr : ITree)
    (hz : (ITree.node p .red pl pk pv pr).subtree [d2] = .node z .red zl zk zv zr) (f : Nat) :
    ∃ st', rebalInsertLoop (f + 1) st z = rebalInsertLoop f st' gi ∧
      At st' T g (ITree.fixInsLeft (.node gi cg (.node p .red pl pk pv pr) kg vg (.node yi .red yl yk yv yr))) ∧
      toTree st' = Tree.replaceAt T.erase g
        (Tree.fixInsLeft (ITree.node gi cg (.node p .red pl pk pv pr) kg vg (.node yi .red yl yk yv yr)).erase) := by
  obtain ⟨st', e, hA⟩ := insert_step_L_case1 h d2 hz f
  have hc : pl.col = .red ∨ pr.col = .red := by
    cases d2 with
    | L => left; simp only [ITree.subtree_L, ITree.subtree_root] at hz; rw [hz]; rfl
    | R => right; simp only [ITree.subtree_R, ITree.subtree_root] at hz; rw [hz]; rfl
  rw [← ITree.fixInsLeft_case1 _ _ _ _ _ _ _ _ _ _ _ _ _ _ hc] at hA
  exact ⟨st', e, hA, by rw [hA.toTree, ITree.erase_fixInsLeft]⟩

/-- **case 3** (black uncle, `z` an outer child): recolour, rotate right at the grandparent -/
theorem fixup_case3_left (st : PT) (T : ITree) (g : Path) (gi : Nat) (cg : Colour) (p z : Nat) (zl : ITree)
    (zk zv : Nat) (zr : ITree) (pk pv : Nat) (pr : ITree) (kg vg : Nat) (Y : ITree)
    (h : At st T g (.node gi cg (.node p .red (.node z .red zl zk zv zr) pk pv pr) kg vg Y))
    (hY : Y.col = .black) (f : Nat) :
    ∃ st', rebalInsertLoop (f + 1) st z = rebalInsertLoop f st' z ∧
      At st' T g (ITree.fixInsLeft (.node gi cg (.node p .red (.node z .red zl zk zv zr) pk pv pr) kg vg Y)) ∧
      toTree st' = Tree.replaceAt T.erase g
        (Tree.fixInsLeft (ITree.node gi cg (.node p .red (.node z .red zl zk zv zr) pk pv pr) kg vg Y).erase) := by
  obtain ⟨st', e, hA⟩ := insert_step_L_case3 h hY f
  rw [← ITree.fixInsLeft_case3 _ _ _ _ _ _ _ _ _ _ _ _ _ _ hY] at hA
  exact ⟨st', e, hA, by rw [hA.toTree, ITree.erase_fixInsLeft]⟩

/-- **case 2 then 3** (black uncle, `z` an inner child, its sibling black): rotate left at the parent, recolour,
rotate right at the grandparent -/
theorem fixup_case2_left (st : PT) (T : ITree) (g : Path) (gi : Nat) (cg : Colour) (p z : Nat) (zl : ITree)
    (zk zv : Nat) (zr : ITree) (pk pv : Nat) (pl : ITree) (kg vg : Nat) (Y : ITree)
    (h : At st T g (.node gi cg (.node p .red pl pk pv (.node z .red zl zk zv zr)) kg vg Y))
    (hY : Y.col = .black) (hs : pl.col = .black) (f : Nat) :
    ∃ st', rebalInsertLoop (f + 1) st z = rebalInsertLoop f st' p ∧
      At st' T g (ITree.fixInsLeft (.node gi cg (.node p .red pl pk pv (.node z .red zl zk zv zr)) kg vg Y)) ∧
      toTree st' = Tree.replaceAt T.erase g
        (Tree.fixInsLeft (ITree.node gi cg (.node p .red pl pk pv (.node z .red zl zk zv zr)) kg vg Y).erase) := by
  obtain ⟨st', e, hA⟩ := insert_step_L_case2 h hY f
  rw [← ITree.fixInsLeft_case2 _ _ _ _ _ _ _ _ _ _ _ _ _ _ hY hs] at hA
  exact ⟨st', e, hA, by rw [hA.toTree, ITree.erase_fixInsLeft]⟩

/-- the mirror images (parent on the right of the grandparent) -/
theorem fixup_case1_right (st : PT) (T : ITree) (g : Path) (gi : Nat) (cg : Colour) (p : Nat) (pl : ITree)
    (pk pv : Nat) (pr : ITree) (kg vg yi : Nat) (yl : ITree) (yk yv : Nat) (yr : ITree)
    (h : At st T g (.node gi cg (.node yi .red yl yk yv yr) kg vg (.node p .red pl pk pv pr)))
    (d2 : Dir) (z : Nat) (zl : ITree) (zk zv : Nat) (zr : ITree)
    (hz : (ITree.node p .red pl pk pv pr).subtree [d2] = .node z .red zl zk zv zr) (f : Nat) :
    ∃ st', rebalInsertLoop (f + 1) st z = rebalInsertLoop f st' gi ∧
      At st' T g (ITree.fixInsRight (.node gi cg (.node yi .red yl yk yv yr) kg vg (.node p .red pl pk pv pr))) := by
  obtain ⟨st', e, hA⟩ := insert_step_R_case1 h d2 hz f
  have hc : pl.col = .red ∨ pr.col = .red := by
    cases d2 with
    | L => left; simp only [ITree.subtree_L, ITree.subtree_root] at hz; rw [hz]; rfl
    | R => right; simp only [ITree.subtree_R, ITree.subtree_root] at hz; rw [hz]; rfl
  rw [← ITree.fixInsRight_case1 _ _ _ _ _ _ _ _ _ _ _ _ _ _ hc] at hA
  exact ⟨st', e, hA⟩
theorem fixup_case3_right (st : PT) (T : ITree) (g : Path) (gi : Nat) (cg : Colour) (p z : Nat) (zl : ITree)
    (zk zv : Nat) (zr : ITree) (pk pv : Nat) (pl : ITree) (kg vg : Nat) (Y : ITree)
    (h : At st T g (.node gi cg Y kg vg (.node p .red pl pk pv (.node z .red zl zk zv zr))))
    (hY : Y.col = .black) (f : Nat) :
    ∃ st', rebalInsertLoop (f + 1) st z = rebalInsertLoop f st' z ∧
      At st' T g (ITree.fixInsRight (.node gi cg Y kg vg (.node p .red pl pk pv (.node z .red zl zk zv zr)))) := by
  obtain ⟨st', e, hA⟩ := insert_step_R_case3 h hY f
  rw [← ITree.fixInsRight_case3 _ _ _ _ _ _ _ _ _ _ _ _ _ _ hY] at hA
  exact ⟨st', e, hA⟩
theorem fixup_case2_right (st : PT) (T : ITree) (g : Path) (gi : Nat) (cg : Colour) (p z : Nat) (zl : ITree)
    (zk zv : Nat) (zr : ITree) (pk pv : Nat) (pr : ITree) (kg vg : Nat) (Y : ITree)
    (h : At st T g (.node gi cg Y kg vg (.node p .red (.node z .red zl zk zv zr) pk pv pr)))
    (hY : Y.col = .black) (hs : pr.col = .black) (f : Nat) :
    ∃ st', rebalInsertLoop (f + 1) st z = rebalInsertLoop f st' p ∧
      At st' T g (ITree.fixInsRight (.node gi cg Y kg vg (.node p .red (.node z .red zl zk zv zr) pk pv pr))) := by
  obtain ⟨st', e, hA⟩ := insert_step_R_case2 h hY f
  rw [← ITree.fixInsRight_case2 _ _ _ _ _ _ _ _ _ _ _ _ _ _ hY hs] at hA
  exact ⟨st', e, hA⟩

/-- the id-annotated fix-ups are the inductive model's -/
theorem fixups_erase (G : ITree) :
    (ITree.fixInsLeft G).erase = Tree.fixInsLeft G.erase ∧ (ITree.fixInsRight G).erase = Tree.fixInsRight G.erase :=
  ⟨ITree.erase_fixInsLeft G, ITree.erase_fixInsRight G⟩

/-- **`rebalance_after_insert(table, z)` preserves well-formedness**: started at a red node `z` (at position
`q`) of a well-formed table whose root is black or is `z`, the loop with the final root blackening ends in
a well-formed heap — child pointers, parent pointers, `root`, sentinel, `size` consistent — with the same
nodes, the same in-order content and a black root -/
theorem rebalance_after_insert_wf (st : PT) (T : ITree) (q : Path) (z : Nat) (zl : ITree) (zk zv : Nat) (zr : ITree)
    (h : Represents st T) (hz : T.subtree q = .node z .red zl zk zv zr) (hroot : q = [] ∨ T.col = .black)
    (hf : q.length ≤ st.size + 2) :
    ∃ T', Represents (rebalanceAfterInsert st z) T' ∧ (toTree (rebalanceAfterInsert st z)).toList = (toTree st).toList ∧
      T'.ids.Perm T.ids ∧ T'.col = .black := by
  obtain ⟨T', a, b, c, d⟩ := rebalanceAfterInsert_wf st T q z zl zk zv zr h hz hroot hf
  exact ⟨T', a, by rw [a.toTree, h.toTree, b], c, d⟩

end CC.Properties.C03PTree
