import CollectionsC.Proofs.PQueue
import CollectionsC.Generated.FuncsPQueue
/-! # C10 — translation validation of the priority-queue model

`Generated/FuncsPQueue.lean` is re-translated from the current text of `src/cc_pqueue.c` on every build
(`tools/gen_funcs.py`): `struct cc_pqueue_s` and `struct cc_pqueue_conf_s` as records with all their fields
(the allocator triple as `Option Triple`, the comparator as `Option (Nat → Nat → Int)`, `exp_factor` as
`Float32`), the macros `CC_PARENT/CC_LEFT/CC_RIGHT`, `DEFAULT_CAPACITY`, `DEFAULT_EXPANSION_FACTOR`
expanded textually as the preprocessor does, and `cc_pqueue_conf_init`, `cc_pqueue_new_conf`,
`cc_pqueue_new`, `cc_pqueue_destroy`, `cc_pqueue_push` (with the static `expand_capacity` and the sift-up
`while` loop as a fuel-bounded recursive definition), `cc_pqueue_top`, `cc_pqueue_pop` (with the recursive
static `cc_pqueue_heapify`, fuel-bounded) statement by statement, with a `fault` result that is true when
the C execution would have had undefined behaviour (array index outside the block, call through a NULL
pointer, …) **or the fuel ran out**.

This file proves, for each translated function: on every state that satisfies the model's invariant
`PQueue.Inv'` (for the constructors: every configuration and ledger), with enough fuel (`q.size`
iterations suffice), the translated function is **fault-free** and returns what the hand-written model
function of `Model/PQueue.lean` returns — same status code, same out-value, same resulting state
(`ofPQ` maps a model state to the generated record), same ledger.  The model's parameters are instantiated
with what the C text computes: `grow c = (size_t)((float) c * exp_factor)` and `exGe q = (ex >= (float) q)`
as `Float32` expressions (`growOf`, `exGeOf`; no property of floating point is used), `cmp` is the function
the struct's comparator pointer denotes.  `cc_pqueue_destroy_cb` (calls a user callback per element) is not
translated. -/
namespace CC.Properties.C10Gen
open CC

/-- `(size_t)((float) c * exp_factor)` -/
def growOf (f : Float32) (c : Nat) : Nat := (Float32.toUInt64 (Float32.ofNat c * f)).toNat
/-- the factor `cc_pqueue_new_conf` stores: factors `<= 1` are replaced by the default -/
def effF (f : Float32) : Float32 := if f ≤ Float32.ofNat 1 then Float32.ofNat 2 else f
/-- `ex >= (float) q` -/
def exGeOf (f : Float32) (q : Nat) : Bool := decide (f ≥ Float32.ofNat q)

/-- model state ↦ generated record: the three allocator pointers denote the state's triple, the comparator
pointer denotes `cmp`, the stored factor is `f` -/
def ofPQ (cmp : Nat → Nat → Int) (f : Float32) (q : PQueue) (sid : Nat := 0) (bid : Nat := 0) : GenF.cc_pqueue_s :=
  { size := q.size, capacity := q.capacity, exp_factor := f, buffer := q.buf,
    mem_alloc := some q.triple, mem_calloc := some q.triple, mem_free := some q.triple, cmp := some cmp,
    id_ := sid, buffer_id := bid }

/-- generated record ↦ model state -/
def toPQ (g : GenF.cc_pqueue_s) : PQueue :=
  { triple := g.mem_free.getD .conf, size := g.size, capacity := g.capacity, buf := g.buffer }

theorem toPQ_ofPQ (cmp : Nat → Nat → Int) (f : Float32) (q : PQueue) (s b : Nat) : toPQ (ofPQ cmp f q s b) = q := rfl

/-- the configuration record handed to `cc_pqueue_new_conf` -/
def confOf (cmp : Nat → Nat → Int) (f : Float32) (t : Triple) (cap : Nat) : GenF.cc_pqueue_conf_s :=
  { capacity := cap, exp_factor := f, cmp := some cmp, mem_alloc := some t, mem_calloc := some t, mem_free := some t }

/-- the numeric status codes the translated text returns (re-checked against `Generated/Constants.lean`) -/
theorem codes : Stat.ok.code = 0 ∧ Stat.errAlloc.code = 1 ∧ Stat.errInvalidCapacity.code = 2 ∧
    Stat.errMaxCapacity.code = 4 ∧ Stat.errOutOfRange.code = 8 := by decide

/-- the expanded `CC_PARENT(i)` is the generated `ccParent` -/
theorem parent_eq (i : Nat) : (if decide (i > 0) = true then GenF.wsub i 1 / 2 else 0) = Gen.ccParent i := by
  unfold Gen.ccParent GenF.wsub
  by_cases h : i > 0
  · have : 1 ≤ i := h
    simp [h, this]
  · simp [h]

theorem wmul8 (n : Nat) (h : n ≤ Gen.CC_MAX_ELEMENTS / PQueue.ptrSize) : GenF.wmul n 8 / 8 = n := by
  unfold GenF.wmul
  simp only [Gen.CC_MAX_ELEMENTS, PQueue.ptrSize] at h
  rw [Nat.mod_eq_of_lt (by omega)]
  omega

theorem wmul8_mod (n : Nat) : GenF.wmul n 8 % 8 = 0 := by
  unfold GenF.wmul
  rw [Nat.mod_mod_of_dvd _ (by decide : 8 ∣ 2 ^ 64), Nat.mul_mod_left]

/-- `cc_pqueue_top`: fault-free, status code and out-value; the ledger is untouched -/
theorem pq_top_agrees (cmp : Nat → Nat → Int) (f : Float32) (q : PQueue) (m : Mem) (h : q.Inv cmp) :
    GenF.cc_pqueue_top (ofPQ cmp f q) = ((q.top m).1.code, (q.top m).2.1, false) ∧ (q.top m).2.2 = m := by
  obtain ⟨h1, h2, h3, _⟩ := h
  have hb : 0 < q.buf.length := by omega
  unfold GenF.cc_pqueue_top PQueue.top ofPQ
  by_cases c : q.size = 0 <;> simp [c, hb, codes]

/-- `cc_pqueue_destroy`: both blocks go back through the queue's own release pointer, first the buffer, then the
struct; exactly the object's two blocks are released; fault-free -/
theorem pq_destroy_agrees (cmp : Nat → Nat → Int) (f : Float32) (q : PQueue) (m : Mem) (sid bid : Nat) (hd : sid ≠ bid) :
    GenF.cc_pqueue_destroy (ofPQ cmp f q sid bid) m = (q.destroy m, [sid, bid], false) := by
  unfold GenF.cc_pqueue_destroy PQueue.destroy ofPQ
  simp [GenF.isDead, hd]

/-- `cc_pqueue_new_conf`, for every comparator, factor, triple, capacity and ledger (rejected capacities and
refused allocations included): status code, the constructed object, the ledger; fault-free -/
theorem pq_new_conf_agrees (cmp : Nat → Nat → Int) (f : Float32) (t : Triple) (cap : Nat) (m : Mem) (nid : Nat) :
    GenF.cc_pqueue_new_conf (confOf cmp f t cap) m nid =
      ((PQueue.new cap (exGeOf (effF f)) t m).1.code,
       (PQueue.new cap (exGeOf (effF f)) t m).2.1.map (fun q => ofPQ cmp (effF f) q nid (nid + 1)),
       (PQueue.new cap (exGeOf (effF f)) t m).2.2,
       (if cap = 0 ∨ exGeOf (effF f) (Gen.CC_MAX_ELEMENTS / cap) = true ∨ cap > Gen.CC_MAX_ELEMENTS / PQueue.ptrSize then nid
        else if (m.allocT t).1 then (if ((m.allocT t).2.allocT t).1 then nid + 2 else nid + 1) else nid),
       (if ¬ (cap = 0 ∨ exGeOf (effF f) (Gen.CC_MAX_ELEMENTS / cap) = true ∨ cap > Gen.CC_MAX_ELEMENTS / PQueue.ptrSize) ∧
           (m.allocT t).1 = true ∧ ((m.allocT t).2.allocT t).1 = false then [nid] else []), false) := by
  unfold GenF.cc_pqueue_new_conf PQueue.new confOf
  have hex : (if decide (f ≤ Float32.ofNat 1) = true then Float32.ofNat 2 else f) = effF f := by
    unfold effF; by_cases c : f ≤ Float32.ofNat 1 <;> simp [c]
  simp only [hex]
  by_cases c0 : cap = 0
  · simp [c0, codes]
  by_cases c1 : exGeOf (effF f) (Gen.CC_MAX_ELEMENTS / cap) = true
  · have c1' : effF f ≥ Float32.ofNat (18446744073709551614 / cap) := by
      simpa [exGeOf, Gen.CC_MAX_ELEMENTS] using c1
    simp [c0, c1, c1', codes]
  have c1' : ¬ effF f ≥ Float32.ofNat (18446744073709551614 / cap) := by
    simpa [exGeOf, Gen.CC_MAX_ELEMENTS] using c1
  by_cases c2 : cap > Gen.CC_MAX_ELEMENTS / PQueue.ptrSize
  · have c2' : cap > 18446744073709551614 / 8 := by simpa [Gen.CC_MAX_ELEMENTS, PQueue.ptrSize] using c2
    simp [c0, c1, c1', c2, c2', codes]
  have c2' : ¬ cap > 18446744073709551614 / 8 := by simpa [Gen.CC_MAX_ELEMENTS, PQueue.ptrSize] using c2
  have hw : GenF.wmul cap 8 / 8 = cap := wmul8 cap (by omega)
  by_cases a1 : (m.allocT t).1 = true
  · by_cases a2 : ((m.allocT t).2.allocT t).1 = true
    · simp [c0, c1, c1', c2, c2', a1, a2, hw, ofPQ, codes, GenF.cc_pqueue_s.zero]
    · simp [c0, c1, c1', c2, c2', a1, a2, codes, GenF.cc_pqueue_s.zero]
  · simp [c0, c1, c1', c2, c2', a1, codes]

theorem parent_eq0 (i : Nat) : (if 0 < i then GenF.wsub i 1 / 2 else 0) = Gen.ccParent i := by
  have := parent_eq i
  simpa using this

theorem parent_le (j : Nat) : Gen.ccParent j ≤ j := by
  unfold Gen.ccParent; split <;> omega

theorem loop_step_pos (cmp : Nat → Nat → Int) (dead : List Nat) (n : Nat) (g : GenF.cc_pqueue_s) (i : Nat)
    (hc : g.cmp = some cmp) (hb : i < g.buffer.length) (h0 : i ≠ 0)
    (hl1 : GenF.isDead dead g.id_ = false) (hl2 : GenF.isDead dead g.buffer_id = false)
    (hgt : cmp (Buf.get g.buffer i) (Buf.get g.buffer (Gen.ccParent i)) > 0) :
    GenF.cc_pqueue_push_loop1 dead (n + 1) g i (Buf.get g.buffer i) (Buf.get g.buffer (Gen.ccParent i)) false =
      GenF.cc_pqueue_push_loop1 dead n { g with buffer := PQueue.swap g.buffer i (Gen.ccParent i) } (Gen.ccParent i)
        (Buf.get (PQueue.swap g.buffer i (Gen.ccParent i)) (Gen.ccParent i))
        (Buf.get (PQueue.swap g.buffer i (Gen.ccParent i)) (Gen.ccParent (Gen.ccParent i))) false := by
  have hp : Gen.ccParent i < i := ccParent_lt i h0
  have hpb : Gen.ccParent i < g.buffer.length := by omega
  have hpp : Gen.ccParent (Gen.ccParent i) < g.buffer.length := by
    have := parent_le (Gen.ccParent i)
    omega
  simp only [GenF.cc_pqueue_push_loop1]
  simp [hc, h0, hgt, parent_eq0, hb, hpb, hpp, hl1, hl2, PQueue.swap]

theorem loop_step_neg (cmp : Nat → Nat → Int) (dead : List Nat) (n : Nat) (g : GenF.cc_pqueue_s) (i c p : Nat)
    (hc : g.cmp = some cmp) (hl1 : GenF.isDead dead g.id_ = false) (h : ¬ (i ≠ 0 ∧ cmp c p > 0)) :
    GenF.cc_pqueue_push_loop1 dead (n + 1) g i c p false = (g, i, c, p, false) := by
  simp only [GenF.cc_pqueue_push_loop1]
  by_cases h0 : i = 0
  · simp [h0, hc]
  · have : ¬ cmp c p > 0 := fun x => h ⟨h0, x⟩
    simp [h0, hc, hl1, this]

/-- the sift-up `while` loop of `cc_pqueue_push`, run with more fuel than the start index on a queue whose two
blocks are live, is the model's `siftUp`: same buffer, no fault, ledger untouched -/
theorem loop_siftUp (cmp : Nat → Nat → Int) (dead : List Nat) : ∀ (fuel : Nat) (g : GenF.cc_pqueue_s) (i : Nat) (m : Mem),
    i < fuel → i < g.buffer.length → g.cmp = some cmp →
    GenF.isDead dead g.id_ = false → GenF.isDead dead g.buffer_id = false →
    (GenF.cc_pqueue_push_loop1 dead fuel g i (Buf.get g.buffer i) (Buf.get g.buffer (Gen.ccParent i)) false).1 =
        { g with buffer := (PQueue.siftUp cmp g.buffer i m).1 } ∧
    (GenF.cc_pqueue_push_loop1 dead fuel g i (Buf.get g.buffer i) (Buf.get g.buffer (Gen.ccParent i)) false).2.2.2.2 = false ∧
    (PQueue.siftUp cmp g.buffer i m).2 = m := by
  intro fuel
  induction fuel with
  | zero => intro g i m h; omega
  | succ n ih =>
    intro g i m hi hb hc hl1 hl2
    rw [PQueue.siftUp]
    by_cases cnd : i ≠ 0 ∧ cmp (Buf.get g.buffer i) (Buf.get g.buffer (Gen.ccParent i)) > 0
    · have hp : Gen.ccParent i < i := ccParent_lt i cnd.1
      rw [dif_pos cnd, loop_step_pos cmp dead n g i hc hb cnd.1 hl1 hl2 cnd.2]
      simp only [hb, decide_true, Mem.check_true]
      have hl : (PQueue.swap g.buffer i (Gen.ccParent i)).length = g.buffer.length := by simp [PQueue.swap]
      have := ih { g with buffer := PQueue.swap g.buffer i (Gen.ccParent i) } (Gen.ccParent i) m (by omega)
        (by simp only [hl]; omega) hc hl1 hl2
      simpa using this
    · rw [dif_neg cnd, loop_step_neg cmp dead n g i _ _ hc hl1 cnd]
      simp

theorem newcap_eq (f : Float32) (q : PQueue) (h5 : q.capacity ≤ Gen.CC_MAX_ELEMENTS / PQueue.ptrSize) :
    (if (Float32.ofNat q.capacity * f).toUInt64.toNat ≤ q.capacity then
        (if q.capacity < 18446744073709551614 / 2 then GenF.wadd q.capacity 1 else 18446744073709551614)
      else (Float32.ofNat q.capacity * f).toUInt64.toNat) = PQueue.newCapacity (growOf f) q := by
  unfold PQueue.newCapacity growOf GenF.wadd
  simp only [Gen.CC_MAX_ELEMENTS, PQueue.ptrSize] at *
  have : (q.capacity + 1) % 2 ^ 64 = q.capacity + 1 := Nat.mod_eq_of_lt (by omega)
  simp only [this]
  first | rfl | (split <;> rfl) | (split <;> split <;> rfl)

/-- the static `expand_capacity`: on success the buffer is a fresh block (id `nid`) and the old one (id `bid`) has
been released — after the copy —, otherwise nothing changes; fault-free -/
theorem expand_agrees (cmp : Nat → Nat → Int) (f : Float32) (q : PQueue) (m : Mem) (sid bid nid : Nat)
    (h : PQueue.Inv' cmp q) (hs : sid ≠ bid) :
    GenF.cc_pqueue_s__expand_capacity (ofPQ cmp f q sid bid) m nid =
      ((PQueue.expandCapacity (growOf f) q m).1.code,
       ofPQ cmp f (PQueue.expandCapacity (growOf f) q m).2.1 sid
         (if (PQueue.expandCapacity (growOf f) q m).1 = .ok then nid else bid),
       (PQueue.expandCapacity (growOf f) q m).2.2,
       (if (PQueue.expandCapacity (growOf f) q m).1 = .ok then nid + 1 else nid),
       (if (PQueue.expandCapacity (growOf f) q m).1 = .ok then [bid] else []), false) := by
  obtain ⟨⟨h1, h2, h3, _⟩, h5⟩ := h
  have hgt := PQueue.newCapacity_gt (growOf f) q h5
  have hn := newcap_eq f q h5
  unfold GenF.cc_pqueue_s__expand_capacity PQueue.expandCapacity ofPQ
  simp only [decide_eq_true_eq]
  simp only [hn]
  generalize PQueue.newCapacity (growOf f) q = nc at *
  by_cases c0 : q.capacity = Gen.CC_MAX_ELEMENTS
  · exfalso
    simp only [Gen.CC_MAX_ELEMENTS, PQueue.ptrSize] at c0 h5
    omega
  have c0' : ¬ q.capacity = 18446744073709551614 := by simpa [Gen.CC_MAX_ELEMENTS] using c0
  by_cases c1 : nc > Gen.CC_MAX_ELEMENTS / PQueue.ptrSize
  · have c1' : nc > 18446744073709551614 / 8 := by simpa [Gen.CC_MAX_ELEMENTS, PQueue.ptrSize] using c1
    simp [c0, c0', c1, c1', codes]
  have c1' : ¬ nc > 18446744073709551614 / 8 := by simpa [Gen.CC_MAX_ELEMENTS, PQueue.ptrSize] using c1
  have w1 : GenF.wmul nc 8 / 8 = nc := wmul8 nc (by omega)
  have w2 : GenF.wmul q.size 8 / 8 = q.size := wmul8 q.size (by omega)
  have w3 : GenF.wmul q.size 8 % 8 = 0 := wmul8_mod q.size
  have s1 : q.size ≤ q.buf.length := by omega
  have s2 : q.size ≤ nc := by omega
  by_cases a : (m.allocT q.triple).1 = true
  · simp [c0, c0', c1, c1', a, w1, w2, w3, s1, s2, codes, GenF.isDead, hs]
  · simp [c0, c0', c1, c1', a, codes]

theorem expand_len (cmp : Nat → Nat → Int) (grow : Nat → Nat) (q : PQueue) (m : Mem) (h : PQueue.Inv' cmp q)
    (hok : (PQueue.expandCapacity grow q m).1 = .ok) :
    q.capacity < (PQueue.expandCapacity grow q m).2.1.buf.length ∧
    (PQueue.expandCapacity grow q m).2.1.capacity = (PQueue.expandCapacity grow q m).2.1.buf.length := by
  have hgt := PQueue.newCapacity_gt grow q h.2
  revert hok
  unfold PQueue.expandCapacity
  simp only []
  repeat' split
  all_goals simp
  exact hgt

/-- the part of `cc_pqueue_push` behind the capacity test (`cc_pqueue_push_k1`: store at `size`, sift up), on any
state whose block has room for one more element, for every set of released blocks that does not contain the
queue's two blocks -/
theorem tail_agrees (cmp : Nat → Nat → Int) (f : Float32) (q : PQueue) (x : Nat) (m : Mem) (fuel nid sid bid : Nat)
    (dead : List Nat) (hs : q.size < q.buf.length) (hf : q.size < fuel) (h64 : q.size + 1 < 2 ^ 64)
    (hl1 : GenF.isDead dead sid = false) (hl2 : GenF.isDead dead bid = false) :
    GenF.cc_pqueue_push_k1 (ofPQ cmp f q sid bid) x m nid dead fuel false q.size =
      ((PQueue.storeSift cmp q x m).1.code, ofPQ cmp f (PQueue.storeSift cmp q x m).2.1 sid bid,
       (PQueue.storeSift cmp q x m).2.2, nid, dead, false) := by
  have hw : GenF.wadd q.size 1 = q.size + 1 := by unfold GenF.wadd; exact Nat.mod_eq_of_lt h64
  have hpl : Gen.ccParent q.size < q.buf.length := by have := parent_le q.size; omega
  let g : GenF.cc_pqueue_s := { ofPQ cmp f q sid bid with buffer := Buf.put q.buf q.size x, size := q.size + 1 }
  have L := loop_siftUp cmp dead fuel g q.size m hf (by simp [g]; exact hs) rfl hl1 hl2
  unfold GenF.cc_pqueue_push_k1 PQueue.storeSift
  by_cases c : q.size = 0
  · have hs0 : 0 < q.buf.length := by omega
    simp [c, ofPQ, hs0, hl1, hl2, codes, GenF.wadd]
  · simp only [g, ofPQ] at L
    simp only [ofPQ, c, decide_false, if_false, hs, decide_true, Mem.check_true, hw, hl1, hl2, gt_iff_lt,
      decide_eq_true_eq, parent_eq0, Buf.length_put, hpl, Bool.not_false, Bool.not_true, Bool.and_self,
      Bool.or_false, Bool.false_eq_true]
    rw [L.1, L.2.1, L.2.2]
    simp [codes]

/-- `cc_pqueue_push` (growth included): fault-free with `q.size < fuel`; status code, state, ledger, and the block
ids: when the buffer grew, the new buffer block carries the id `nid` and the old one (`bid`) was released -/
theorem pq_push_agrees (cmp : Nat → Nat → Int) (f : Float32) (q : PQueue) (x : Nat) (m : Mem) (fuel sid bid nid : Nat)
    (h : PQueue.Inv' cmp q) (hf : q.size < fuel) (hsb : sid ≠ bid) (hbn : bid ≠ nid) :
    GenF.cc_pqueue_push (ofPQ cmp f q sid bid) x m nid fuel =
      ((PQueue.push cmp (growOf f) q x m).1.code,
       ofPQ cmp f (PQueue.push cmp (growOf f) q x m).2.1 sid
         (if q.size ≥ q.capacity ∧ (PQueue.expandCapacity (growOf f) q m).1 = .ok then nid else bid),
       (PQueue.push cmp (growOf f) q x m).2.2,
       (if q.size ≥ q.capacity ∧ (PQueue.expandCapacity (growOf f) q m).1 = .ok then nid + 1 else nid),
       (if q.size ≥ q.capacity ∧ (PQueue.expandCapacity (growOf f) q m).1 = .ok then [bid] else []), false) := by
  have hI := h
  obtain ⟨⟨h1, h2, h3, _⟩, h5⟩ := h
  have h64 : q.size + 1 < 2 ^ 64 := by simp only [Gen.CC_MAX_ELEMENTS, PQueue.ptrSize] at h5; omega
  rw [PQueue.push_eq]
  unfold GenF.cc_pqueue_push
  by_cases hfull : q.size ≥ q.capacity
  · have hd : decide ((ofPQ cmp f q sid bid).size ≥ (ofPQ cmp f q sid bid).capacity) = true := by
      change decide (q.size ≥ q.capacity) = true
      simpa using hfull
    dsimp only
    rw [hd]
    simp only [hfull, if_true, true_and]
    rw [expand_agrees cmp f q m sid bid nid hI hsb]
    dsimp only
    by_cases hok : (PQueue.expandCapacity (growOf f) q m).1 = .ok
    · obtain ⟨hl, hcl⟩ := expand_len cmp (growOf f) q m hI hok
      have hsz := PQueue.expand_size (growOf f) q m
      simp only [hok, if_true, codes, ne_eq, not_true_eq_false, decide_false, if_false, Bool.false_eq_true,
        bne_self_eq_false, Bool.false_or, List.append_nil]
      have T := tail_agrees cmp f (PQueue.expandCapacity (growOf f) q m).2.1 x (PQueue.expandCapacity (growOf f) q m).2.2
        fuel (nid + 1) sid nid [bid] (by omega) (by omega) (by omega)
        (by simp [GenF.isDead, hsb]) (by simp [GenF.isDead]; exact fun e => hbn e.symm)
      rw [hsz] at T
      exact T
    · have hne : (PQueue.expandCapacity (growOf f) q m).1.code ≠ 0 := by
        intro hc; apply hok; revert hc
        cases (PQueue.expandCapacity (growOf f) q m).1 <;> simp [Stat.code, Gen.CC_OK, Gen.CC_ERR_ALLOC,
          Gen.CC_ERR_INVALID_CAPACITY, Gen.CC_ERR_INVALID_RANGE, Gen.CC_ERR_MAX_CAPACITY, Gen.CC_ERR_KEY_NOT_FOUND,
          Gen.CC_ERR_VALUE_NOT_FOUND, Gen.CC_ERR_OUT_OF_RANGE, Gen.CC_ITER_END]
      simp [hok, hne]
  · have hd : decide ((ofPQ cmp f q sid bid).size ≥ (ofPQ cmp f q sid bid).capacity) = false := by
      change decide (q.size ≥ q.capacity) = false
      simpa using hfull
    dsimp only
    rw [hd]
    simp only [hfull, if_false, false_and, Bool.false_eq_true]
    have T := tail_agrees cmp f q x m fuel nid sid bid [] (by omega) hf h64 (by simp [GenF.isDead]) (by simp [GenF.isDead])
    exact T

theorem heapify_step (cmp : Nat → Nat → Int) (fuel : Nat) (g : GenF.cc_pqueue_s) (index : Nat)
    (hc : g.cmp = some cmp) (hsz : ¬ g.size ≤ 1) (hi : index < g.size) (hl : g.size ≤ g.buffer.length)
    (h64 : 2 * g.size + 2 < 2 ^ 64) :
    GenF.cc_pqueue_s__cc_pqueue_heapify g index (fuel + 1) =
      if PQueue.pick cmp g.buffer g.size index ≠ index then
        GenF.cc_pqueue_s__cc_pqueue_heapify
          { g with buffer := PQueue.swap g.buffer index (PQueue.pick cmp g.buffer g.size index) }
          (PQueue.pick cmp g.buffer g.size index) fuel
      else (g, false) := by
  have hL : GenF.wadd (GenF.wmul 2 index) 1 = Gen.ccLeft index := by
    unfold GenF.wadd GenF.wmul Gen.ccLeft
    rw [Nat.mod_eq_of_lt (by omega), Nat.mod_eq_of_lt (by omega)]
  have hR : GenF.wadd (GenF.wmul 2 index) 2 = Gen.ccRight index := by
    unfold GenF.wadd GenF.wmul Gen.ccRight
    rw [Nat.mod_eq_of_lt (by omega), Nat.mod_eq_of_lt (by omega)]
  have hib : index < g.buffer.length := by omega
  simp only [GenF.cc_pqueue_s__cc_pqueue_heapify]
  unfold PQueue.pick
  simp only [hL, hR]
  have key : ∀ j, j < g.size → j < g.buffer.length := fun j hj => by omega
  by_cases c1 : Gen.ccLeft index < g.size ∧ cmp (Buf.get g.buffer index) (Buf.get g.buffer (Gen.ccLeft index)) < 0
  · have hlb := key _ c1.1
    by_cases c2 : Gen.ccRight index < g.size ∧ cmp (Buf.get g.buffer (Gen.ccLeft index)) (Buf.get g.buffer (Gen.ccRight index)) < 0
    · have hrb := key _ c2.1
      simp [hsz, hc, c1, c2, hib, hlb, hrb, PQueue.swap]
    · by_cases c3 : Gen.ccRight index < g.size
      · have hrb := key _ c3
        have c4 : ¬ cmp (Buf.get g.buffer (Gen.ccLeft index)) (Buf.get g.buffer (Gen.ccRight index)) < 0 := fun x => c2 ⟨c3, x⟩
        simp [hsz, hc, c1, c3, c4, hib, hlb, hrb, PQueue.swap]
      · simp [hsz, hc, c1, c3, hib, hlb, PQueue.swap]
  · by_cases c2 : Gen.ccRight index < g.size ∧ cmp (Buf.get g.buffer index) (Buf.get g.buffer (Gen.ccRight index)) < 0
    · have hrb := key _ c2.1
      by_cases c5 : Gen.ccLeft index < g.size
      · have hlb := key _ c5
        have c6 : ¬ cmp (Buf.get g.buffer index) (Buf.get g.buffer (Gen.ccLeft index)) < 0 := fun x => c1 ⟨c5, x⟩
        simp [hsz, hc, c5, c6, c2, hib, hlb, hrb, PQueue.swap]
      · simp [hsz, hc, c5, c2, hib, hrb, PQueue.swap]
    · by_cases c5 : Gen.ccLeft index < g.size
      · have hlb := key _ c5
        have c6 : ¬ cmp (Buf.get g.buffer index) (Buf.get g.buffer (Gen.ccLeft index)) < 0 := fun x => c1 ⟨c5, x⟩
        by_cases c3 : Gen.ccRight index < g.size
        · have hrb := key _ c3
          have c4 : ¬ cmp (Buf.get g.buffer index) (Buf.get g.buffer (Gen.ccRight index)) < 0 := fun x => c2 ⟨c3, x⟩
          simp [hsz, hc, c5, c6, c3, c4, hib, hlb, hrb]
        · simp [hsz, hc, c5, c6, c3, hib, hlb]
      · by_cases c3 : Gen.ccRight index < g.size
        · have hrb := key _ c3
          have c4 : ¬ cmp (Buf.get g.buffer index) (Buf.get g.buffer (Gen.ccRight index)) < 0 := fun x => c2 ⟨c3, x⟩
          simp [hsz, hc, c5, c3, c4, hib, hrb]
        · simp [hsz, hc, c5, c3, hib]

/-- the recursive `cc_pqueue_heapify`, run with more fuel than `size - index`, is the model's `heapify`:
same buffer, no fault, ledger untouched -/
theorem heapify_agrees (cmp : Nat → Nat → Int) : ∀ (fuel : Nat) (g : GenF.cc_pqueue_s) (index : Nat) (m : Mem),
    g.cmp = some cmp → g.size ≤ g.buffer.length → (index < g.size ∨ g.size ≤ 1) → g.size - index < fuel →
    2 * g.size + 2 < 2 ^ 64 →
    GenF.cc_pqueue_s__cc_pqueue_heapify g index fuel =
      ({ g with buffer := (PQueue.heapify cmp g.buffer g.size index m).1 }, false) ∧
    (PQueue.heapify cmp g.buffer g.size index m).2 = m := by
  intro fuel
  induction fuel with
  | zero => intro g index m _ _ _ h; omega
  | succ n ih =>
    intro g index m hc hl hi hf h64
    rw [PQueue.heapify]
    by_cases hsz : g.size ≤ 1
    · simp [GenF.cc_pqueue_s__cc_pqueue_heapify, hsz]
    · have hi' : index < g.size := by omega
      rw [heapify_step cmp n g index hc hsz hi' hl h64]
      have hib : index < g.buffer.length := by omega
      have hpc := PQueue.pick_cases cmp g.buffer g.size index
      have hchk : (decide (index < List.length g.buffer) &&
          (!decide (Gen.ccLeft index < g.size) || decide (Gen.ccLeft index < List.length g.buffer)) &&
          (!decide (Gen.ccRight index < g.size) || decide (Gen.ccRight index < List.length g.buffer))) = true := by
        simp only [Bool.and_eq_true, Bool.or_eq_true, Bool.not_eq_true', decide_eq_true_eq, decide_eq_false_iff_not]
        refine ⟨⟨hib, ?_⟩, ?_⟩ <;> omega
      simp only [hsz, if_false, hchk, Mem.check_true]
      by_cases hb : PQueue.pick cmp g.buffer g.size index ≠ index
      · have hbig : PQueue.pick cmp g.buffer g.size index < g.size ∧ index < PQueue.pick cmp g.buffer g.size index := by
          unfold Gen.ccLeft Gen.ccRight at hpc
          rcases hpc with h | ⟨h, h'⟩ | ⟨h, h'⟩
          · exact absurd h hb
          · omega
          · omega
        have := ih { g with buffer := PQueue.swap g.buffer index (PQueue.pick cmp g.buffer g.size index) }
          (PQueue.pick cmp g.buffer g.size index) m hc (by simp [PQueue.swap]; exact hl) (Or.inl hbig.1)
          (by simp only []; omega) h64
        dsimp only at this
        rw [if_pos hb, dif_pos hb]
        exact this
      · rw [if_neg hb, dif_neg hb]; exact ⟨rfl, rfl⟩

/-- `cc_pqueue_pop` (with `out` NULL or not): fault-free with `q.size ≤ fuel`; status code, out-value, state;
the ledger is untouched -/
theorem pq_pop_agrees (cmp : Nat → Nat → Int) (f : Float32) (q : PQueue) (wantOut : Bool) (m : Mem) (fuel : Nat)
    (h : PQueue.Inv' cmp q) (hf : q.size ≤ fuel) :
    GenF.cc_pqueue_pop (ofPQ cmp f q) wantOut fuel =
      ((PQueue.popOut cmp q wantOut m).1.code, (PQueue.popOut cmp q wantOut m).2.1,
       ofPQ cmp f (PQueue.popOut cmp q wantOut m).2.2.1, false) ∧
    (PQueue.popOut cmp q wantOut m).2.2.2 = m := by
  obtain ⟨⟨h1, h2, h3, _⟩, h5⟩ := h
  simp only [Gen.CC_MAX_ELEMENTS, PQueue.ptrSize] at h5
  unfold GenF.cc_pqueue_pop PQueue.popOut
  by_cases c : q.size = 0
  · simp [c, ofPQ, codes]
  · have hws : GenF.wsub q.size 1 = q.size - 1 := by unfold GenF.wsub; simp; omega
    have hb0 : 0 < q.buf.length := by omega
    have hb1 : q.size - 1 < q.buf.length := by omega
    have H := heapify_agrees cmp fuel
      { ofPQ cmp f q with buffer := PQueue.swap q.buf 0 (q.size - 1), size := q.size - 1 } 0 m rfl
      (by simp [PQueue.swap]; omega) (by simp only []; omega) (by simp only []; omega) (by simp only []; omega)
    dsimp only [ofPQ, PQueue.swap] at H ⊢
    simp only [hws]
    rw [H.1]
    simp only [PQueue.swap, H.2, hb1, decide_true, Mem.check_true]
    cases wantOut <;> simp [c, hb0, hb1, codes]

/-- `cc_pqueue_conf_init`: whatever the record contained, it now holds the file's default capacity and factor,
the given comparator and the C library's triple -/
theorem pq_conf_init_agrees (cmp : Nat → Nat → Int) (u : GenF.cc_pqueue_conf_s) :
    GenF.cc_pqueue_conf_init u (some cmp) = confOf cmp (Float32.ofNat 2) .libc Gen.PQUEUE_DEFAULT_CAPACITY := by
  unfold GenF.cc_pqueue_conf_init confOf
  simp [Gen.PQUEUE_DEFAULT_CAPACITY]

/-- `cc_pqueue_new`: whatever the uninitialised locals contained, it is `cc_pqueue_new_conf` with the file's
defaults on the C library's triple (whose allocations are never refused) -/
theorem pq_new_agrees (cmp : Nat → Nat → Int) (u : GenF.cc_pqueue_conf_s) (m : Mem) (nid : Nat) :
    GenF.cc_pqueue_new (some cmp) u m nid =
      ((PQueue.new Gen.PQUEUE_DEFAULT_CAPACITY (exGeOf (effF (Float32.ofNat 2))) .libc m).1.code,
       (PQueue.new Gen.PQUEUE_DEFAULT_CAPACITY (exGeOf (effF (Float32.ofNat 2))) .libc m).2.1.map
         (fun q => ofPQ cmp (effF (Float32.ofNat 2)) q nid (nid + 1)),
       (PQueue.new Gen.PQUEUE_DEFAULT_CAPACITY (exGeOf (effF (Float32.ofNat 2))) .libc m).2.2,
       (if exGeOf (effF (Float32.ofNat 2)) (Gen.CC_MAX_ELEMENTS / Gen.PQUEUE_DEFAULT_CAPACITY) = true then nid else nid + 2),
       [], false) := by
  unfold GenF.cc_pqueue_new
  simp only [pq_conf_init_agrees, pq_new_conf_agrees]
  simp [Mem.allocT, Gen.PQUEUE_DEFAULT_CAPACITY, Gen.CC_MAX_ELEMENTS, PQueue.ptrSize]
  rfl

/-- the hypotheses are satisfiable by a non-trivial state, and the statements are not vacuous: a heap of three
elements under the numeric order; the translated `pop` with fuel 3 returns the maximum, restores the heap and
does not fault; with fuel 0 it reports a fault; releasing the same block twice is a fault -/
example :
    let cmp : Nat → Nat → Int := fun a b => (a : Int) - b
    let q : PQueue := { size := 3, capacity := 4, buf := [9, 5, 7, 0] }
    q.Inv cmp ∧ q.capacity ≤ Gen.CC_MAX_ELEMENTS / PQueue.ptrSize ∧
    (GenF.cc_pqueue_pop (ofPQ cmp 2 q) true 3).1 = 0 ∧ (GenF.cc_pqueue_pop (ofPQ cmp 2 q) true 3).2.1 = some 9 ∧
    (GenF.cc_pqueue_pop (ofPQ cmp 2 q) true 3).2.2.1.buffer = [7, 5, 9, 0] ∧
    (GenF.cc_pqueue_pop (ofPQ cmp 2 q) true 3).2.2.2 = false ∧
    (GenF.cc_pqueue_pop (ofPQ cmp 2 q) true 0).2.2.2 = true ∧
    (GenF.cc_pqueue_push (ofPQ cmp 2 q 1 2) 8 {} 3 4).2.1.buffer = [9, 8, 7, 5] ∧
    (GenF.cc_pqueue_destroy (ofPQ cmp 2 q 1 2) {}).2.2 = false ∧
    (GenF.cc_pqueue_destroy (ofPQ cmp 2 q 1 1) {}).2.2 = true := by decide

end CC.Properties.C10Gen
