import CollectionsC.Properties.C06Queue
import CollectionsC.Proofs.DequeIndep
/-! # C14 (queue part) — the adapter and its wrapped deque use only the triple they were given

`cc_queue_new_conf` copies the three function pointers into the queue header and passes the same
configuration on to `cc_deque_new_conf` (so `Queue.Inv` says: header and inner deque carry the same triple);
`destroy`/`destroy_cb` release the queue header through the queue's own `mem_free` (Q2).  `cc_queue_new`
does the same with the C library triple.  Triple-aware ledger: see `C14Deque`. -/
namespace CC.Properties.C14Queue
open CC CC.Properties.C09Queue

/-- **derived_inherits_triple / wrapped inner container**: a constructed queue and its inner deque carry
the triple the constructor was given, its three blocks are obtained through it and nothing through the
other one; no operation changes it -/
theorem wrapped_inherits_triple (confCap : Nat) (t : Triple) (m : Mem) :
    (∀ q, (Queue.new confCap t m).2.1 = some q → q.triple = t ∧ q.d.triple = t) ∧
    Deque.otherSideSame t (Queue.new confCap t m).2.2 m ∧
    (∀ q m' op, (stepQ q m' op).2.1.triple = q.triple) := by
  refine ⟨?_, ?_, fun q m' op => step_triple q m' op⟩
  · intro q hq
    rcases Queue.new_spec confCap t m with ⟨_, q', e, n3, _, _, n6, _⟩ | ⟨_, e, _⟩
    · rw [e] at hq; cases hq; exact ⟨n6, n3.2.trans n6⟩
    · rw [e] at hq; cases hq
  · rcases Queue.new_spec confCap t m with ⟨_, _, _, _, _, _, _, n7⟩ | ⟨_, _, n3⟩
    · exact n7.2.2.2
    · exact n3.2.2.2

/-- **conf_uses_only_conf**: a queue on the configured triple never causes a C-library event -/
theorem conf_uses_only_conf (q : Queue) (m : Mem) (op : Op) (hi : q.Inv) (ht : q.triple = .conf) :
    (stepQ q m op).2.2.libc = m.libc ∧ (stepQ q m op).2.2.lalloc = m.lalloc ∧
    (stepQ q m op).2.2.lfree = m.lfree ∧ (stepQ q m op).2.2.liveLibc = m.liveLibc := by
  have h := (C06Queue.step_safe q m op hi).2.1.2.2.2
  rw [ht] at h; exact h

/-- **default_uses_only_libc**: a queue on the C library triple never touches the configured allocator and
is never blocked below the capacity limit -/
theorem default_uses_only_libc (q : Queue) (f : Spec.QueueSpec.Fifo) (m : Mem) (op : Op) (h : Sim q f)
    (ht : q.triple = .libc) :
    ((stepQ q m op).2.2.live = m.live ∧ (stepQ q m op).2.2.nalloc = m.nalloc ∧
      (stepQ q m op).2.2.nfree = m.nfree ∧ (stepQ q m op).2.2.nrefused = m.nrefused ∧
      (stepQ q m op).2.2.sched = m.sched) ∧
    (q.d.cap ≠ Gen.MAX_POW_TWO → blocked q m op = false) := by
  have h1 := (C06Queue.step_safe q m op h.1).2.1.2.2.2
  rw [ht] at h1
  refine ⟨h1, fun hc => ?_⟩
  cases hb : blocked q m op
  · rfl
  · exfalso
    obtain ⟨_, _, h2⟩ := (blocked_iff q f m op h).mp hb
    rcases h2 with h2 | h2
    · exact hc h2
    · rw [ht] at h2; simp [Mem.allocT] at h2

/-- both for whole histories, and through construction and destruction: everything a conf queue does
happens on the configured side, everything a default queue does on the C-library side -/
theorem history_uses_only_own_triple (ops : List Op) (q : Queue) (m : Mem) (hi : q.Inv) :
    Deque.otherSideSame q.triple (runQ q m ops).2.2 m :=
  (C06Queue.history_nofault ops q m hi).2.1.2.2.2

theorem destroy_uses_only_own_triple (q : Queue) (m : Mem) (hi : q.Inv) (hlive : 3 ≤ Deque.liveOf q.triple m) :
    Deque.otherSideSame q.triple (q.destroy m) m ∧ Deque.otherSideSame q.triple (q.destroyCb m).2 m :=
  ⟨(Queue.destroy_ledger q m hi hlive).2.2.2, (C06Queue.callbacks_visit_each_once q m hi hlive).2.2.2.2.2.2⟩

/-- **allocator_independent**: same refusal schedule ⇒ same status, out-value, physical state, and again
equal schedules -/
theorem step_allocator_independent (q : Queue) (m m' : Mem) (op : Op) (h : m.sched = m'.sched) :
    (stepQ q m op).1 = (stepQ q m' op).1 ∧ (stepQ q m op).2.1 = (stepQ q m' op).2.1 ∧
    (stepQ q m op).2.2.sched = (stepQ q m' op).2.2.sched := by
  cases op with
  | enqueue x =>
    obtain ⟨a, b, c⟩ := Deque.addFirst_indep q.d x m m' h
    simp only [stepQ, Queue.enqueue, a, b]; exact ⟨trivial, trivial, c⟩
  | poll =>
    obtain ⟨a, b, c, e⟩ := Deque.removeLast_indep q.d m m' h
    simp only [stepQ, Queue.poll, a, b, c]; exact ⟨trivial, trivial, e⟩
  | peek =>
    obtain ⟨_, _, ⟨a, b, c⟩, _⟩ := Deque.getters_indep q.d 0 0 (fun _ _ => true) m m' h
    simp only [stepQ, Queue.peek, a, b]; exact ⟨trivial, trivial, c⟩
  | size => exact ⟨rfl, rfl, h⟩

theorem history_allocator_independent (ops : List Op) (q : Queue) (m m' : Mem) (h : m.sched = m'.sched) :
    (runQ q m ops).1 = (runQ q m' ops).1 ∧ (runQ q m ops).2.1 = (runQ q m' ops).2.1 := by
  induction ops generalizing q m m' with
  | nil => exact ⟨rfl, rfl⟩
  | cons op ops ih =>
    obtain ⟨s1, s2, s3⟩ := step_allocator_independent q m m' op h
    simp only [runQ]
    rw [s1, s2]
    obtain ⟨r1, r2⟩ := ih (stepQ q m' op).2.1 _ _ s3
    exact ⟨by rw [r1], r2⟩

/-- the wrapped constructor likewise -/
theorem new_allocator_independent (confCap : Nat) (t : Triple) (m m' : Mem) (h : m.sched = m'.sched) :
    (Queue.new confCap t m).1 = (Queue.new confCap t m').1 ∧ (Queue.new confCap t m).2.1 = (Queue.new confCap t m').2.1 := by
  obtain ⟨a1, a2⟩ := Deque.allocT_congr t h
  obtain ⟨n1, n2, _⟩ := Deque.new_indep confCap t (m.allocT t).2 (m'.allocT t).2 a2
  unfold Queue.new
  dsimp only
  rw [a1, n1, n2]
  split
  · exact ⟨rfl, rfl⟩
  · split <;> exact ⟨rfl, rfl⟩

/-- non-vacuity / falsifiability: a default-constructed queue records its three allocations on the
C-library side only -/
example : (Queue.new 2 .libc {}).2.2.liveLibc = 3 ∧ (Queue.new 2 .libc {}).2.2.live = 0 ∧
    (Queue.new 2 .conf {}).2.2.live = 3 ∧ (Queue.new 2 .conf {}).2.2.libc = 0 := by decide

end CC.Properties.C14Queue
