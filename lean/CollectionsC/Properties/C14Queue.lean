import CollectionsC.Properties.C06Queue
import CollectionsC.Proofs.DequeIndep
/-! # C14 (queue part) — the adapter and its wrapped deque use only the configured triple

`cc_queue_new_conf` passes its configuration on to `cc_deque_new_conf`, and `destroy`/`destroy_cb` release
the queue header through the queue's own `mem_free` (Q2): all three blocks come from and return to the
configured triple. -/
namespace CC.Properties.C14Queue
open CC CC.Properties.C09Queue

/-- **libc_invariant**: constructor (wrapped inner constructor included), destructors -/
theorem new_destroy_libc_invariant (q : Queue) (confCap : Nat) (m : Mem) :
    (Queue.new confCap m).2.2.libc = m.libc ∧ (q.destroy m).libc = m.libc ∧ (q.destroyCb m).2.libc = m.libc := by
  refine ⟨?_, ?_, ?_⟩
  · unfold Queue.new
    dsimp only
    split
    · exact Deque.alloc_libc m
    · split
      · rw [Deque.free_libc, Deque.new_libc, Deque.alloc_libc]
      · rw [Deque.new_libc, Deque.alloc_libc]
  · unfold Queue.destroy; rw [Deque.free_libc, Deque.destroy_libc]
  · unfold Queue.destroyCb
    simp only [Deque.foreach]
    rw [Deque.free_libc, Deque.destroy_libc, Mem.check_libc]

/-- **libc_invariant**, one step and histories -/
theorem step_libc_invariant (q : Queue) (m : Mem) (op : Op) (hi : q.Inv) : (stepQ q m op).2.2.libc = m.libc :=
  (C06Queue.step_safe q m op hi).2.2.2.1

theorem history_libc_invariant (ops : List Op) (q : Queue) (m : Mem) (hi : q.Inv) :
    (runQ q m ops).2.2.libc = m.libc := by
  induction ops generalizing q m with
  | nil => rfl
  | cons op ops ih =>
    obtain ⟨s1, s2⟩ := C06Queue.step_safe q m op hi
    simp only [runQ]
    rw [ih _ _ s1, s2.2.2.1]

/-- **allocator_independent**: same refusal schedule ⇒ same status, out-value, physical state, and again
equal schedules -/
theorem step_allocator_independent (q : Queue) (m m' : Mem) (op : Op) (h : m.sched = m'.sched) :
    (stepQ q m op).1 = (stepQ q m' op).1 ∧ (stepQ q m op).2.1 = (stepQ q m' op).2.1 ∧
    (stepQ q m op).2.2.sched = (stepQ q m' op).2.2.sched := by
  cases op with
  | enqueue x =>
    obtain ⟨a, b, c⟩ := Deque.addFirst_indep q.d x m m' h
    simp only [stepQ, Queue.enqueue, a, b]; exact ⟨trivial, trivial, c⟩
  | poll =>
    obtain ⟨a, b, c, e⟩ := Deque.removeLast_indep q.d m m' h
    simp only [stepQ, Queue.poll, a, b, c]; exact ⟨trivial, trivial, e⟩
  | peek =>
    obtain ⟨_, _, ⟨a, b, c⟩, _⟩ := Deque.getters_indep q.d 0 0 (fun _ _ => true) m m' h
    simp only [stepQ, Queue.peek, a, b]; exact ⟨trivial, trivial, c⟩
  | size => exact ⟨rfl, rfl, h⟩

theorem history_allocator_independent (ops : List Op) (q : Queue) (m m' : Mem) (h : m.sched = m'.sched) :
    (runQ q m ops).1 = (runQ q m' ops).1 ∧ (runQ q m ops).2.1 = (runQ q m' ops).2.1 := by
  induction ops generalizing q m m' with
  | nil => exact ⟨rfl, rfl⟩
  | cons op ops ih =>
    obtain ⟨s1, s2, s3⟩ := step_allocator_independent q m m' op h
    simp only [runQ]
    rw [s1, s2]
    obtain ⟨r1, r2⟩ := ih (stepQ q m' op).2.1 _ _ s3
    exact ⟨by rw [r1], r2⟩

/-- the wrapped constructor likewise -/
theorem new_allocator_independent (confCap : Nat) (m m' : Mem) (h : m.sched = m'.sched) :
    (Queue.new confCap m).1 = (Queue.new confCap m').1 ∧ (Queue.new confCap m).2.1 = (Queue.new confCap m').2.1 := by
  obtain ⟨a1, a2⟩ := Deque.alloc_congr h
  obtain ⟨n1, n2, _⟩ := Deque.new_indep confCap m.alloc.2 m'.alloc.2 a2
  unfold Queue.new
  dsimp only
  rw [a1, n1, n2]
  split
  · exact ⟨rfl, rfl⟩
  · split <;> exact ⟨rfl, rfl⟩

end CC.Properties.C14Queue
