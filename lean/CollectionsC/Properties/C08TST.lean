import CollectionsC.Properties.C11
import CollectionsC.Proofs.TSTCross
/-! # C08 (TST table part): a refused allocation is atomic

Allocating calls: the constructor (header) and `add` (`mem_calloc` per new node in `make_mid_subtree`,
`mem_alloc` for the entry).  All statements hold for every state, every key (the empty one included)
and every refusal schedule.  Only the configured triple can refuse (`Mem.allocT .libc` always
succeeds), so for a table built by `cc_tsttable_new` `add` never fails (`add_libc_never_refused`). -/
namespace CC.Properties.C08TST
open CC CC.TST
open CC.Spec.StrMap (Op Out)

variable {cmp : Cmp}

/-- **refused_iff**: `add` reports `CC_ERR_ALLOC` exactly when one of its allocator requests was refused
(exactly one: it stops at the first refusal); otherwise `CC_OK` — never another status -/
theorem add_refused_iff (t : Table) (k : Key) (v : Nat) (mem : Mem) :
    ((t.add cmp k v mem).1 = .errAlloc ↔ (t.add cmp k v mem).2.2.nrefused = mem.nrefused + 1) ∧
    ((t.add cmp k v mem).1 = .ok ↔ (t.add cmp k v mem).2.2.nrefused = mem.nrefused) ∧
    ((t.add cmp k v mem).1 = .ok ∨ (t.add cmp k v mem).1 = .errAlloc) := by
  have h := C11.add_refused_iff (cmp := cmp) t k v mem
  have hs := Table.add_status (cmp := cmp) t k v mem
  refine ⟨⟨fun he => h.2.mp (by rw [he]; simp), fun hn => ?_⟩, h.1, hs⟩
  rcases hs with h1 | h1
  · exact absurd h1 (h.2.mpr hn)
  · exact h1

/-- **atomic**: after a refusal the table is *identical* (tree, size — hence `abs` and every iterator
position), the partial node chain was released (live-block counter unchanged), nothing faulted -/
theorem add_atomic (t : Table) (k : Key) (v : Nat) (mem : Mem) (h : (t.add cmp k v mem).1 = .errAlloc) :
    (t.add cmp k v mem).2.1 = t ∧ (t.add cmp k v mem).2.1.abs = t.abs ∧
    (t.add cmp k v mem).2.2.liveT t.triple = mem.liveT t.triple ∧ (t.add cmp k v mem).2.2.fault = mem.fault := by
  have := Table.add_atomic_any (cmp := cmp) t k v mem (by rw [h]; simp)
  exact ⟨this.2.1, by rw [this.2.1], this.2.2.1, this.2.2.2⟩

/-- an allocator that does not refuse makes `add` succeed -/
theorem add_succeeds (t : Table) (k : Key) (v : Nat) (mem : Mem) (h : mem.sched = []) :
    (t.add cmp k v mem).1 = .ok := Table.add_unrefused t k v mem h

/-- on the C library's allocator nothing is ever refused -/
theorem add_libc_never_refused (t : Table) (k : Key) (v : Nat) (mem : Mem) (h : t.triple = .libc) :
    (t.add cmp k v mem).1 = .ok := Table.add_libc_ok t k v mem h

/-- the constructor: refused ⇒ no object, nothing allocated -/
theorem new_atomic (tr : Triple) (mem : Mem) (h : (Table.new tr mem).1 ≠ .ok) :
    (Table.new tr mem).1 = .errAlloc ∧ (Table.new tr mem).2.1 = none ∧
    (Table.new tr mem).2.2.liveT tr = mem.liveT tr :=
  (Table.new_spec tr mem).2.1 h

theorem new_refused_iff (tr : Triple) (mem : Mem) :
    (Table.new tr mem).1 = .errAlloc ↔ (mem.allocT tr).1 = false := by
  unfold Table.new; simp only []
  cases (mem.allocT tr).1 <;> simp

/-- no other operation calls the allocator: their status is never `CC_ERR_ALLOC` -/
theorem only_add_allocates (t : Table) (op : Op) (mem : Mem) (h : (t.step cmp op mem).1.st = some .errAlloc) :
    ∃ k v sched, op = .add k v sched := by
  cases op with
  | add k v sched => exact ⟨k, v, sched, rfl⟩
  | get k => simp only [Table.step, Table.get] at h; split at h <;> simp at h
  | contains k => simp [Table.step] at h
  | remove k =>
    simp only [Table.step, Table.remove] at h
    split at h
    · simp at h
    · split at h <;> simp at h
  | removeAll => simp [Table.step] at h
  | size => simp [Table.step] at h
  | enumerate => simp [Table.step] at h
  | iterate prog => simp [Table.step] at h

/-- **continue**: a refused `add` in the middle of a history is as if it had not been issued — the
outputs of the other operations and the final table are those of the history without it (for every
schedule of the other operations) -/
theorem continue_after_refusal (t : Table) (ops₁ ops₂ : List Op) (k : Key) (v : Nat) (sched : List Bool) (mem : Mem)
    (h : ((t.run cmp ops₁ mem).2.1.step cmp (.add k v sched) (t.run cmp ops₁ mem).2.2).1.st = some .errAlloc) :
    (t.run cmp (ops₁ ++ [.add k v sched] ++ ops₂) mem).1 =
      (t.run cmp ops₁ mem).1 ++ [{ st := some .errAlloc }] ++
        ((t.run cmp ops₁ mem).2.1.run cmp ops₂ (t.run cmp ops₁ mem).2.2).1 ∧
    (t.run cmp (ops₁ ++ [.add k v sched] ++ ops₂) mem).2.1 = (t.run cmp (ops₁ ++ ops₂) mem).2.1 ∧
    (t.run cmp (ops₁ ++ ops₂) mem).1 =
      (t.run cmp ops₁ mem).1 ++ ((t.run cmp ops₁ mem).2.1.run cmp ops₂ (t.run cmp ops₁ mem).2.2).1 := by
  have hst : ((t.run cmp ops₁ mem).2.1.add cmp k v ((t.run cmp ops₁ mem).2.2.begin sched)).1 = .errAlloc := by
    simpa [Table.step] using h
  have hat := add_atomic (cmp := cmp) _ k v _ hst
  have e1 : (t.run cmp ops₁ mem).2.1.step cmp (.add k v sched) (t.run cmp ops₁ mem).2.2 =
      ({ st := some .errAlloc }, (t.run cmp ops₁ mem).2.1,
        ((t.run cmp ops₁ mem).2.1.add cmp k v ((t.run cmp ops₁ mem).2.2.begin sched)).2.2) := by
    simp only [Table.step, hst, hat.1]
  have hind := Table.run_indep (cmp := cmp) (t.run cmp ops₁ mem).2.1 ops₂
    ((t.run cmp ops₁ mem).2.1.add cmp k v ((t.run cmp ops₁ mem).2.2.begin sched)).2.2 (t.run cmp ops₁ mem).2.2
  rw [List.append_assoc, Table.run_append (cmp := cmp) t ops₁ ([Op.add k v sched] ++ ops₂) mem,
    Table.run_append (cmp := cmp) t ops₁ ops₂ mem]
  simp only [List.singleton_append, Table.run, e1]
  refine ⟨?_, hind.2, trivial⟩
  rw [hind.1]; simp

/-! non-vacuity: every request of `add "abc"` into the nested-prefix table refused in turn -/
example :
    (C11.nestedTable.add cmpSigned [97, 98, 99] 9 { sched := [true], live := 7 }).1 = .errAlloc ∧
    (C11.nestedTable.add cmpSigned [97, 98, 99] 9 { sched := [false, true], live := 7 }) =
      (.errAlloc, C11.nestedTable, { sched := [], live := 7, nalloc := 1, nfree := 1, nrefused := 1 }) ∧
    (C11.nestedTable.add cmpSigned [97, 98, 99] 9 { sched := [false, false], live := 7 }).1 = .ok := by
  decide

end CC.Properties.C08TST
