import CollectionsC.Proofs.TreeTableSpec
import CollectionsC.Proofs.TreeTableSession
import CollectionsC.Driver.TreeTable
/-! # C03 — CC_TreeTable / CC_TreeSet are exact ordered maps / sets

Statements and closing proofs only (helpers: `Proofs/TreeTable*.lean`).  The concrete model
`CC.TreeTable` (`Model/TreeTable.lean`) is the red-black tree of `src/cc_treetable.c`, node for node;
the abstract spec `CC.Spec.OrdMap` is the list of entries in strictly ascending key order.
Quantifiers: **every** comparator that is a total order (`Spec.TotalOrder`), every key and value,
every finite history, every allocator schedule, both allocator triples (`new_conf` / `new`), every
state satisfying the invariant (BST order, red-black rules, size field = number of nodes).

Preconditions that appear as hypotheses:
* `TotalOrder cmp` — the property is about total-order comparators.  The contract is read on key
  *identities* (the numbers the model uses for key pointers): `cmp a b = 0 ↔ a = b` (antisymmetry),
  `cmp a b < 0 ↔ 0 < cmp b a`, transitivity; magnitudes are arbitrary (the harness comparators include
  one that returns ±(2^31−1)).  Comparators that identify distinct key pointers (`strcmp` on string
  keys) are a weak order on pointers and outside these theorems; with them goes the one observable the
  model cannot distinguish, "add of an equivalent key keeps the old key pointer and replaces the value"
  (the C code assigns `x->value` only; under `eq_zero` old and new key are the same number);
* `t.Inv cmp` — established by the constructor (`new_inv`) and preserved by every call;
* `TreeTable.Owns t m` — ledger consistency: the ledger of the table's allocator triple holds at least
  the blocks the table owns (nodes, sentinel, header); established by the constructor, preserved by
  every call (`StepOK.owns`), every history and every iterator program.

**Model boundary.**  The model is the algebraic tree the pointer structure spans.  A node is addressed
by its path from the root (its `parent` is the path without the last step); `tree_min`, `tree_max`,
`get_successor_node`, `get_predecessor_node` and the enumeration loop of `foreach_*` / `contains_value`
are modelled as the C loops on such positions (`Tree.treeMinPath`, `Tree.succPath`, `Tree.predPath`,
`Tree.walk`) and **proved** to compute the in-order neighbours (section "The pointer walks").  What stays
outside THIS file's model: that the C `parent` fields really hold the parent (re-parenting in `rotate_*`,
`transplant`, the sentinel's scratch `parent`).  That part is the subject of the pointer-level model
`Model/PTree.lean` and `Properties/C03PTree.lean` — a heap of nodes with real `parent/left/right/color` fields — where
the main statement of this file is **proved again for the pointer code**: `C03PTree.pstep_refines` /
`phistory_refines_ordmap` (every public call of `PTree.step`, with status, out-value and callback log, under every
refusal schedule, returns what `Spec.OrdMap.step` returns and keeps the heap a represented red-black search tree —
`add` with its fix-up loop, `remove_node` with both `transplant`s and `rebalance_after_delete`, the lookups, the
neighbour walks by parent-pointer climbing, the in-order walk, `remove_all`); what is proved only at THIS level:
the allocation ledger (`Owns`, both allocator triples, `destroy`), iterator sessions with their statuses, the set
wrapper.  The driver runs both models and compares the pointer-level heap with the C heap at L3,
node ids and parent ids included); the harness additionally walks the parent pointers on the real heap
and prints the iterator's node positions computed by climbing them.  Node identity in this file: an iterator
refers to a node by its key (the C code never moves a key between nodes), so *which block* is freed by
`remove_node` is the harness's (ASan) to judge.
`cc_treeset_remove` / `cc_treeset_iter_remove` store the table's value (the dummy) in `*out`; the
model keeps that (`Spec.OrdSet.apiOut`), it is an observation outside the wording of C03. -/
namespace CC.Properties.C03
open CC CC.Spec CC.Spec.OrdMap

variable {cmp : Nat → Nat → Int}

/-- **One call.**  Same status / out-value / callback sequence as the ideal ordered map, the
abstraction commutes, the invariant and ledger consistency are preserved, a rejected call leaves the
table (and, unless an allocation was refused, the ledger) untouched, no fault, balanced ledger,
comparator budget. -/
theorem step_refines (ho : TotalOrder cmp) (t : TreeTable) (h : t.Inv cmp) (op : Op) (m : Mem)
    (hm : TreeTable.Owns t m) : TreeTable.StepOK cmp t op m :=
  TreeTable.step_ok ho h op m hm

/-- what the ideal map is told about the allocator: the request of this call is refused iff the
schedule of the call starts with a refusal (table on the configured triple) -/
def refusedOf (sched : List Bool) : Bool := sched.head? == some true

theorem refusedOfT_conf (sched : List Bool) : TreeTable.refusedOfT .conf sched = refusedOf sched := rfl
/-- the C library allocator is never refused -/
theorem refusedOfT_libc (sched : List Bool) : TreeTable.refusedOfT .libc sched = false := rfl

/-- **All histories.**  From any state satisfying the invariant, any history of table calls, each
under any allocator schedule, returns exactly what the ideal ordered map returns and ends in a state
whose in-order content is the ideal map's; invariant, fault-freedom, the ledger balance and ledger
consistency hold at the end, and every call stayed within `2·⌊log₂(n+1)⌋ + 2` comparator calls
(`n` keys before the call). -/
theorem history_refines (ho : TotalOrder cmp) (ops : List (Op × List Bool)) (t : TreeTable)
    (h : t.Inv cmp) (m : Mem) (hm : TreeTable.Owns t m) :
    (t.run cmp ops m).1 = (OrdMap.run cmp t.abs (ops.map fun p => (p.1, TreeTable.refusedOfT t.triple p.2))).1 ∧
    (t.run cmp ops m).2.2.1.abs = (OrdMap.run cmp t.abs (ops.map fun p => (p.1, TreeTable.refusedOfT t.triple p.2))).2 ∧
    (t.run cmp ops m).2.2.1.Inv cmp ∧
    (t.run cmp ops m).2.2.2.fault = m.fault ∧
    TreeTable.liveOf (t.run cmp ops m).2.2.2 t.triple + t.size =
      TreeTable.liveOf m t.triple + (t.run cmp ops m).2.2.1.size ∧
    TreeTable.Owns (t.run cmp ops m).2.2.1 (t.run cmp ops m).2.2.2 ∧
    ∀ p ∈ (t.run cmp ops m).2.1, p.2 ≤ 2 * Nat.log2 (p.1 + 1) + 2 := by
  obtain ⟨a, b, c, d, e, _, g, i⟩ := TreeTable.run_ok ho ops h m hm
  exact ⟨a, b, c, d, e, g, i⟩

/-- the constructor (on the caller's triple `new_conf`, or on the C library's `new`) establishes the
invariant, the empty content and ledger consistency; a refused request yields no object and an
unchanged ledger -/
theorem new_inv (tr : Triple) (m0 : Mem) :
    (∀ t m1, TreeTable.newT tr m0 = (.ok, some t, m1) →
        t.Inv cmp ∧ t.abs = [] ∧ t.triple = tr ∧ TreeTable.liveOf m1 tr = TreeTable.liveOf m0 tr + 2 ∧
        m1.fault = m0.fault ∧ TreeTable.Owns t m1) ∧
    ((TreeTable.newT tr m0).1 = .ok ∨ (TreeTable.newT tr m0).1 = .errAlloc) ∧
    ((TreeTable.newT tr m0).1 = .errAlloc → (TreeTable.newT tr m0).2.1 = none ∧
        TreeTable.liveOf (TreeTable.newT tr m0).2.2 tr = TreeTable.liveOf m0 tr ∧
        (TreeTable.newT tr m0).2.2.fault = m0.fault) :=
  TreeTable.newT_spec tr m0

/-- **C03 from the constructor.**  Every history on a freshly constructed table behaves like the
ideal ordered map that starts empty. -/
theorem new_history_refines (ho : TotalOrder cmp) (tr : Triple) (m0 m1 : Mem) (t0 : TreeTable)
    (hnew : TreeTable.newT tr m0 = (.ok, some t0, m1)) (ops : List (Op × List Bool)) :
    (t0.run cmp ops m1).1 = (OrdMap.run cmp [] (ops.map fun p => (p.1, TreeTable.refusedOfT tr p.2))).1 ∧
    (t0.run cmp ops m1).2.2.1.abs = (OrdMap.run cmp [] (ops.map fun p => (p.1, TreeTable.refusedOfT tr p.2))).2 ∧
    (t0.run cmp ops m1).2.2.1.Inv cmp ∧ (t0.run cmp ops m1).2.2.2.fault = m1.fault := by
  obtain ⟨hi, ha, ht, _, _, ho'⟩ := (new_inv (cmp := cmp) tr m0).1 t0 m1 hnew
  have := history_refines ho ops t0 hi m1 ho'
  rw [ha, ht] at this
  exact ⟨this.1, this.2.1, this.2.2.1, this.2.2.2.1⟩

/-- `destroy` releases exactly the blocks the table owns (every node, the sentinel, the header), on the
table's own triple: together with `new_inv` and the ledger clause of `history_refines`, a session
`new; …; destroy` ends with the ledger it started with (C06 tree part) -/
theorem destroy_ledger (t : TreeTable) (h : t.Inv cmp) (m : Mem) (hm : TreeTable.Owns t m) :
    TreeTable.liveOf (t.destroy m) t.triple + t.size + 2 = TreeTable.liveOf m t.triple ∧
    (t.destroy m).fault = m.fault :=
  TreeTable.destroy_spec h m hm

/-! ## Iterator (`iter_init`, `iter_next`, `iter_remove`) -/

/-- **Iterator programs.**  A fresh iterator driven by any program of `next` / `remove`
calls yields the statuses, keys and values of the ideal cursor, removes exactly the entries the cursor
removes, and keeps the invariant.  The fault flag stays clear when `remove` is only called after a
successful `next` (`IterValid`) — for other programs the C code is outside its documented contract and
the output clauses describe the model only. -/
theorem iter_refines (ho : TotalOrder cmp) (t : TreeTable) (h : t.Inv cmp) (prog : List IterOp) (m : Mem)
    (hm : TreeTable.Owns t m) :
    (t.iterRun cmp t.iterInit prog m).1 = ((Cursor.init t.abs).run t.abs prog).1 ∧
    (t.iterRun cmp t.iterInit prog m).2.1.abs = ((Cursor.init t.abs).run t.abs prog).2.2 ∧
    (t.iterRun cmp t.iterInit prog m).2.1.Inv cmp ∧
    (TreeTable.IterValid cmp t t.iterInit prog m → (t.iterRun cmp t.iterInit prog m).2.2.2.fault = m.fault) ∧
    TreeTable.liveOf (t.iterRun cmp t.iterInit prog m).2.2.2 t.triple + t.size =
      TreeTable.liveOf m t.triple + (t.iterRun cmp t.iterInit prog m).2.1.size ∧
    TreeTable.Owns (t.iterRun cmp t.iterInit prog m).2.1 (t.iterRun cmp t.iterInit prog m).2.2.2 := by
  have := TreeTable.iterRun_sim ho prog h (TreeTable.iterInit_rel t) m hm
  exact ⟨this.1, this.2.1, this.2.2.1, this.2.2.2.2.1, this.2.2.2.2.2.1,
    TreeTable.iterRun_owns ho prog h (TreeTable.iterInit_rel t) m hm⟩

/-- **Sessions**: any interleaving of histories of table calls
with iterator sessions — "removals by key, of the first entry, of the last entry, all, or through an
iterator" in one history — returns what the ideal map and the ideal cursor return and ends in the ideal
content, with invariant, ledger balance, ledger consistency and the comparator budget of every table call;
no fault when every iterator session respects the precondition of `iter_remove`. -/
theorem session_refines (ho : TotalOrder cmp) (segs : List Segment) (t : TreeTable) (h : t.Inv cmp)
    (m : Mem) (hm : TreeTable.Owns t m) :
    (t.runSession cmp segs m).1 = (OrdMap.runSession cmp (TreeTable.refusedOfT t.triple) t.abs segs).1 ∧
    (t.runSession cmp segs m).2.1.abs = (OrdMap.runSession cmp (TreeTable.refusedOfT t.triple) t.abs segs).2 ∧
    (t.runSession cmp segs m).2.1.Inv cmp ∧
    (TreeTable.SessionValid cmp t segs m → (t.runSession cmp segs m).2.2.fault = m.fault) ∧
    TreeTable.liveOf (t.runSession cmp segs m).2.2 t.triple + t.size =
      TreeTable.liveOf m t.triple + (t.runSession cmp segs m).2.1.size ∧
    TreeTable.Owns (t.runSession cmp segs m).2.1 (t.runSession cmp segs m).2.2 ∧
    ∀ p ∈ t.sessionCounts cmp segs m, p.2 ≤ 2 * Nat.log2 (p.1 + 1) + 2 := by
  obtain ⟨a, b, c, d, e, _, g⟩ := TreeTable.session_ok ho segs h m hm
  exact ⟨a, b, c, d, e, g, TreeTable.session_counts_ok ho segs h m hm⟩

/-- the ideal cursor enumerates the map: `n+1` calls of `next` on a map of `n` entries yield every
entry once, in ascending key order, and then `CC_ITER_END` -/
theorem cursor_enumerates (ho : TotalOrder cmp) (m : OrdMap) (hs : Sorted cmp m) :
    ((Cursor.init m).run m (List.replicate (m.length + 1) .next)).1 =
      m.map (fun e => { st := some .ok, val := some e.1, log := [e.2] }) ++ [{ st := some .iterEnd }] := by
  suffices H : ∀ (pre s : OrdMap) (last : Option Nat), m = pre ++ s →
      (Cursor.run { last := last, todo := keys s } m (List.replicate (s.length + 1) .next)).1 =
        s.map (fun e => { st := some .ok, val := some e.1, log := [e.2] }) ++ [{ st := some .iterEnd }] from
    H [] m none rfl
  intro pre s
  induction s generalizing pre with
  | nil => intro last _; rfl
  | cons e rest ih =>
    intro last hm
    have hl : lookup m e.1 = some e.2 := by
      rw [hm]; rw [hm] at hs
      exact lookup_eq ho (xs := pre) (ys := rest) (a := e.1) (av := e.2) hs
    have := ih (pre ++ [e]) (some e.1) (by rw [hm]; simp)
    simp only [List.length_cons, List.replicate_succ, Cursor.run, Cursor.step, Cursor.next, keys,
      List.map_cons, hl, Option.getD_some, Option.map_some, List.cons_append, List.cons.injEq, true_and]
    exact this

/-- whatever an ideal iteration removes in between, every entry it hands out is an entry of the map it
started on, with its real value (the default value in `Cursor.next` / `valueAt` is never used) -/
theorem cursor_yields_original_entries (ho : TotalOrder cmp) (m : OrdMap) (hs : Sorted cmp m) (prog : List IterOp) :
    ∀ p ∈ prog.zip ((Cursor.init m).run m prog).1, p.1 = .next → ∀ k, p.2.val = some k →
      ∃ v, (k, v) ∈ m ∧ p.2.log = [v] :=
  cursor_run_yields (cursorOk_init ho hs) prog

/-! ## The ideal ordered map in the words of the property -/

/-- the entries stay in strictly ascending key order through every history, hence enumeration
(`foreach`, iterator) is strictly ascending and yields every key once -/
theorem spec_sorted (ho : TotalOrder cmp) (m : OrdMap) (hs : Sorted cmp m) (op : Op) (r : Bool) :
    Sorted cmp (step cmp m op r).2 ∧
    (keys (step cmp m op r).2).Pairwise (fun a b => cmp a b < 0) ∧ (keys (step cmp m op r).2).Nodup :=
  ⟨step_sorted ho hs op r, keys_ascending (step_sorted ho hs op r), TreeTable.keys_nodup ho (step_sorted ho hs op r)⟩

theorem spec_get_after_add (ho : TotalOrder cmp) (m : OrdMap) (hs : Sorted cmp m) (k v k' : Nat) :
    lookup (insert cmp m k v) k' = if k' = k then some v else lookup m k' := lookup_insert ho hs k v k'
theorem spec_get_after_remove (m : OrdMap) (k k' : Nat) :
    lookup (erase m k) k' = if k' = k then none else lookup m k' := lookup_erase m k k'
theorem spec_first_is_min (m : OrdMap) (hs : Sorted cmp m) (e : Nat × Nat) (he : first m = some e) :
    e ∈ m ∧ ∀ e' ∈ m, e' = e ∨ cmp e.1 e'.1 < 0 := first_min hs he
theorem spec_last_is_max (m : OrdMap) (hs : Sorted cmp m) (e : Nat × Nat) (he : last m = some e) :
    e ∈ m ∧ ∀ e' ∈ m, e' = e ∨ cmp e'.1 e.1 < 0 := last_max hs he
/-- `get_greater_than`: `CC_OK` with the least key strictly above a present key, not-found when there
is none (in particular at the maximum) and for an absent key -/
theorem spec_greater_than (m : OrdMap) (hs : Sorted cmp m) (k : Nat) :
    (∀ k', opGreaterThan cmp m k = (.ok, some k') →
        contains m k = true ∧ ∃ e ∈ m, e.1 = k' ∧ cmp k k' < 0 ∧ ∀ e' ∈ m, cmp k e'.1 < 0 → e' = e ∨ cmp k' e'.1 < 0) ∧
    ((opGreaterThan cmp m k).1 ≠ .ok → contains m k = false ∨ ∀ e ∈ m, ¬ cmp k e.1 < 0) := by
  unfold opGreaterThan
  cases hc : contains m k
  · simp
  · simp only [if_true]
    cases hsu : succ cmp m k with
    | none =>
      have hn := succ_none.1 hsu
      simp only [reduceCtorEq, false_implies, implies_true, ne_eq, not_false_eq_true, true_implies, true_and,
        Prod.mk.injEq, false_and]
      exact Or.inr hn
    | some e =>
      have := succ_least hs hsu
      simp only [Prod.mk.injEq, Option.some.injEq, true_and, ne_eq, not_true_eq_false, false_implies, and_true]
      intro k' hk; subst hk
      exact ⟨e, this.1, rfl, this.2.1, this.2.2⟩
/-- `get_lesser_than`, mirror image -/
theorem spec_lesser_than (m : OrdMap) (hs : Sorted cmp m) (k : Nat) :
    (∀ k', opLesserThan cmp m k = (.ok, some k') →
        contains m k = true ∧ ∃ e ∈ m, e.1 = k' ∧ cmp k' k < 0 ∧ ∀ e' ∈ m, cmp e'.1 k < 0 → e' = e ∨ cmp e'.1 k' < 0) ∧
    ((opLesserThan cmp m k).1 ≠ .ok → contains m k = false ∨ ∀ e ∈ m, ¬ cmp e.1 k < 0) := by
  unfold opLesserThan
  cases hc : contains m k
  · simp
  · simp only [if_true]
    cases hsu : pred cmp m k with
    | none =>
      have hn := pred_none.1 hsu
      simp only [reduceCtorEq, false_implies, implies_true, ne_eq, not_false_eq_true, true_implies, true_and,
        Prod.mk.injEq, false_and]
      exact Or.inr hn
    | some e =>
      have := pred_greatest hs hsu
      simp only [Prod.mk.injEq, Option.some.injEq, true_and, ne_eq, not_true_eq_false, false_implies, and_true]
      intro k' hk; subst hk
      exact ⟨e, this.1, rfl, this.2.1, this.2.2⟩
/-- removing from an empty table reports not-found (first, last, by key) -/
theorem spec_remove_empty (k : Nat) :
    (opRemoveFirst []).1 = .errKeyNotFound ∧ (opRemoveLast []).1 = .errKeyNotFound ∧
    (opRemove [] k).1 = .errKeyNotFound := ⟨rfl, rfl, rfl⟩

/-! ## The wording of the property, on the tables that histories reach

Every state a history (or session) reaches satisfies `Inv` and `Owns` (`history_refines`,
`session_refines`), so the statements below — for an arbitrary state with `Inv` and `Owns` — speak about
the table "after any history"; `after_history_greater_than` spells the composition out once. -/

/-- `get_first_key` / `get_last_key` return the least / greatest stored key -/
theorem first_last_are_extremes (ho : TotalOrder cmp) (t : TreeTable) (h : t.Inv cmp) (m : Mem)
    (hm : TreeTable.Owns t m) (k : Nat) :
    ((t.step cmp .firstKey m).1 = { st := some .ok, val := some k } →
        k ∈ keys t.abs ∧ ∀ k' ∈ keys t.abs, k' = k ∨ cmp k k' < 0) ∧
    ((t.step cmp .lastKey m).1 = { st := some .ok, val := some k } →
        k ∈ keys t.abs ∧ ∀ k' ∈ keys t.abs, k' = k ∨ cmp k' k < 0) := by
  constructor
  · intro hs
    rw [(step_refines ho t h .firstKey m hm).out] at hs
    simp only [OrdMap.step, opFirstKey] at hs
    cases hf : first t.abs with
    | none => rw [hf] at hs; simp at hs
    | some e =>
      rw [hf] at hs
      simp only [Out.mk.injEq, Option.some.injEq, true_and, and_true] at hs
      obtain ⟨h1, h2⟩ := first_min h.sorted hf
      subst hs
      refine ⟨List.mem_map.2 ⟨e, h1, rfl⟩, fun k' hk' => ?_⟩
      obtain ⟨e', he', rfl⟩ := List.mem_map.1 hk'
      rcases h2 e' he' with rfl | hlt
      · exact Or.inl rfl
      · exact Or.inr hlt
  · intro hs
    rw [(step_refines ho t h .lastKey m hm).out] at hs
    simp only [OrdMap.step, opLastKey] at hs
    cases hf : last t.abs with
    | none => rw [hf] at hs; simp at hs
    | some e =>
      rw [hf] at hs
      simp only [Out.mk.injEq, Option.some.injEq, true_and, and_true] at hs
      obtain ⟨h1, h2⟩ := last_max h.sorted hf
      subst hs
      refine ⟨List.mem_map.2 ⟨e, h1, rfl⟩, fun k' hk' => ?_⟩
      obtain ⟨e', he', rfl⟩ := List.mem_map.1 hk'
      rcases h2 e' he' with rfl | hlt
      · exact Or.inl rfl
      · exact Or.inr hlt

/-- `get_greater_than k` answers `CC_OK k'` exactly for the least stored key `k'` strictly above a stored
key `k`; otherwise (no key above, or `k` not stored) it reports not-found.  Mirror for `get_lesser_than`. -/
theorem greater_lesser_are_neighbours (ho : TotalOrder cmp) (t : TreeTable) (h : t.Inv cmp) (m : Mem)
    (hm : TreeTable.Owns t m) (k : Nat) :
    (∀ k', (t.step cmp (.greaterThan k) m).1 = { st := some .ok, val := some k' } →
        contains t.abs k = true ∧ ∃ e ∈ t.abs, e.1 = k' ∧ cmp k k' < 0 ∧
          ∀ e' ∈ t.abs, cmp k e'.1 < 0 → e' = e ∨ cmp k' e'.1 < 0) ∧
    ((t.step cmp (.greaterThan k) m).1.st ≠ some .ok → contains t.abs k = false ∨ ∀ e ∈ t.abs, ¬ cmp k e.1 < 0) ∧
    (∀ k', (t.step cmp (.lesserThan k) m).1 = { st := some .ok, val := some k' } →
        contains t.abs k = true ∧ ∃ e ∈ t.abs, e.1 = k' ∧ cmp k' k < 0 ∧
          ∀ e' ∈ t.abs, cmp e'.1 k < 0 → e' = e ∨ cmp e'.1 k' < 0) ∧
    ((t.step cmp (.lesserThan k) m).1.st ≠ some .ok → contains t.abs k = false ∨ ∀ e ∈ t.abs, ¬ cmp e.1 k < 0) := by
  have g := spec_greater_than (cmp := cmp) t.abs h.sorted k
  have l := spec_lesser_than (cmp := cmp) t.abs h.sorted k
  rw [(step_refines ho t h (.greaterThan k) m hm).out, (step_refines ho t h (.lesserThan k) m hm).out]
  simp only [OrdMap.step]
  refine ⟨fun k' hk => g.1 k' ?_, fun hn => g.2 (fun x => hn (by rw [x])), fun k' hk => l.1 k' ?_,
    fun hn => l.2 (fun x => hn (by rw [x]))⟩
  · simp only [Out.mk.injEq, Option.some.injEq, and_true] at hk
    exact Prod.ext hk.1 hk.2
  · simp only [Out.mk.injEq, Option.some.injEq, and_true] at hk
    exact Prod.ext hk.1 hk.2

/-- `foreach_key` hands out the stored keys, every key once, in strictly ascending comparator order -/
theorem foreach_is_ascending (ho : TotalOrder cmp) (t : TreeTable) (h : t.Inv cmp) (m : Mem) :
    (t.step cmp .foreachKey m).1.log = keys t.abs ∧
    (keys t.abs).Pairwise (fun a b => cmp a b < 0) ∧ (keys t.abs).Nodup :=
  ⟨TreeTable.foreachKey_spec t, keys_ascending h.sorted, TreeTable.keys_nodup ho h.sorted⟩

/-- the composition spelled out: **after any history**, `get_greater_than k` returns the least stored key
above `k` -/
theorem after_history_greater_than (ho : TotalOrder cmp) (ops : List (Op × List Bool)) (t : TreeTable)
    (h : t.Inv cmp) (m : Mem) (hm : TreeTable.Owns t m) (k k' : Nat) (sched : List Bool)
    (hs : ((t.run cmp ops m).2.2.1.step cmp (.greaterThan k) ((t.run cmp ops m).2.2.2.begin sched)).1 =
      { st := some .ok, val := some k' }) :
    let f := (OrdMap.run cmp t.abs (ops.map fun p => (p.1, TreeTable.refusedOfT t.triple p.2))).2
    contains f k = true ∧ ∃ e ∈ f, e.1 = k' ∧ cmp k k' < 0 ∧ ∀ e' ∈ f, cmp k e'.1 < 0 → e' = e ∨ cmp k' e'.1 < 0 := by
  obtain ⟨_, b, c, _, _, g, _⟩ := history_refines ho ops t h m hm
  have hm' : TreeTable.Owns (t.run cmp ops m).2.2.1 ((t.run cmp ops m).2.2.2.begin sched) := by
    unfold TreeTable.Owns at g ⊢; rw [TreeTable.liveOf_begin]; exact g
  have := (greater_lesser_are_neighbours ho _ c _ hm' k).1 k' hs
  rw [b] at this
  exact this

/-! ## The pointer walks -/

/-- **`get_successor_node` is the in-order successor, `get_predecessor_node` the in-order predecessor**,
for every tree (no order assumption): from the node at position `p` the walk — right child's leftmost
descendant, else climb while coming from the right — arrives at the node whose entry comes next in the
in-order list, and returns the sentinel exactly when nothing follows; mirrored for the predecessor -/
theorem successor_walk_is_inorder (t : Tree) (p : Tree.Path) {c a k v b} (h : Tree.subtree t p = .node c a k v b) :
    t.toList = Tree.ctxBefore t p ++ (k, v) :: Tree.ctxAfter t p ∧
    Tree.succEntryAt t p = (Tree.ctxAfter t p).head? ∧ Tree.predEntryAt t p = (Tree.ctxBefore t p).getLast? :=
  ⟨Tree.toList_split t p h, Tree.succEntryAt_eq t p h, Tree.predEntryAt_eq t p h⟩

/-- `get_greater_than` / `get_lesser_than` — descent to the node of a present key, then the pointer
walk — return the least entry above / the greatest entry below that key -/
theorem greater_lesser_walk (ho : TotalOrder cmp) (t : TreeTable) (h : t.Inv cmp) (k : Nat)
    (hk : contains t.abs k = true) :
    Tree.succOfKey cmp t.root k = succ cmp t.abs k ∧ Tree.predOfKey cmp t.root k = pred cmp t.abs k := by
  have hf : (Tree.findPath cmp k t.root).isSome := by
    have h1 := Tree.find_eq_findPath (cmp := cmp) k t.root
    rw [Tree.find_refines ho k t.root h.1] at h1
    have h2 := contains_iff_lookup t.abs k
    rw [hk] at h2
    cases hp : Tree.findPath cmp k t.root with
    | some p => rfl
    | none => rw [hp] at h1; simp only [Option.bind_none, Option.map_none] at h1; unfold TreeTable.abs at h2; rw [h1] at h2; simp at h2
  have := Tree.succOfKey_eq ho h.1 k hf
  exact ⟨this.1.trans (Tree.nextAfter_eq_succ ho h.1 hk), this.2.trans (Tree.prevBefore_eq_pred ho h.1 hk)⟩

/-- the enumeration loop `n = tree_min(root); while (n != sentinel) { visit(n); n = get_successor_node(n); }`
of `foreach_key`, `foreach_value`, `contains_value` visits exactly the in-order list, for every tree -/
theorem enumeration_walk (t : Tree) : Tree.walk t = t.toList := Tree.walk_eq_toList t

/-- the successor walk calls no comparator and looks at no more nodes than the tree is high -/
theorem successor_walk_cost (t : Tree) (p : Tree.Path) : Tree.succVisits t p ≤ t.height :=
  Tree.succVisits_le_height t p

/-! ## C08 / C16, tree part -/

/-- a refused node allocation is atomic: status `CC_ERR_ALLOC`, the table is physically unchanged,
and the ledger holds exactly the blocks it held before -/
theorem add_atomic (ho : TotalOrder cmp) (t : TreeTable) (h : t.Inv cmp) (k v : Nat) (m : Mem)
    (hk : contains t.abs k = false) (hr : (m.allocT t.triple).1 = false) :
    (t.add cmp k v m).1 = .errAlloc ∧ (t.add cmp k v m).2.1 = t ∧
    TreeTable.liveOf (t.add cmp k v m).2.2.1 t.triple = TreeTable.liveOf m t.triple ∧
    (t.add cmp k v m).2.2.1.fault = m.fault := by
  obtain ⟨a, _, _, d, e, f, _⟩ := TreeTable.add_spec ho h k v m
  have hx : (!contains t.abs k && !(m.allocT t.triple).1) = true := by rw [hk, hr]; rfl
  rw [hx] at a
  have := d hx
  rw [this] at f
  exact ⟨a, this, by omega, e⟩

/-- C08 `continue`: on the ideal map a refused call is as if it had not been made -/
theorem C08_continue (m : OrdMap) (ops₁ ops₂ : List (Op × Bool)) (op : Op)
    (hf : (step cmp (run cmp m ops₁).2 op true).1.st = some .errAlloc) :
    (run cmp m (ops₁ ++ [(op, true)] ++ ops₂)).2 = (run cmp m (ops₁ ++ ops₂)).2 := by
  rw [List.append_assoc, run_append, run_append m ops₁ ops₂]
  show (run cmp (step cmp (run cmp m ops₁).2 op true).2 ops₂).2 = _
  rw [step_refused_inert _ op true hf]

/-- C16: every call that reports an error other than `CC_ERR_ALLOC` leaves the whole state —
tree, size field, ledger — unchanged (no ledger hypothesis: no rejected path calls the allocator) -/
theorem rejected_inert (t : TreeTable) (h : t.Inv cmp) (op : Op) (m : Mem)
    (st : Stat) (hst : (t.step cmp op m).1.st = some st)
    (h1 : st ≠ .ok) (h2 : st ≠ .errAlloc) :
    (t.step cmp op m).2.1 = t ∧ (t.step cmp op m).2.2.1 = m :=
  TreeTable.step_inert h op m st hst h1 h2

/-! ## CC_TreeSet -/

/-- **One call of the set API**: status, out-value and callback sequence of the ideal ordered set as the
API hands them back (`apiOut`), the abstraction commutes, the invariant (the table's, "all values are
the dummy", "the table uses the set's triple") is preserved, no fault, balanced ledger, comparator
budget. -/
theorem set_step_refines (ho : TotalOrder cmp) (s : TreeSet) (h : s.Inv cmp) (op : OrdSet.Op) (m : Mem)
    (hm : TreeTable.Owns s.t m) : TreeSet.StepOK cmp s op m :=
  TreeSet.step_ok ho h op m hm

/-- **All histories of set calls**: statuses, out-values (`contains`, `size`, `first`, `last`,
`greater_than`, `lesser_than` results) and callback sequences are those of the ideal ordered set, the
final content is the ideal set's, invariant / fault-freedom / ledger balance / comparator budget as
for the table. -/
theorem set_history_refines (ho : TotalOrder cmp) (ops : List (OrdSet.Op × List Bool)) (s : TreeSet)
    (h : s.Inv cmp) (m : Mem) (hm : TreeTable.Owns s.t m) :
    (s.run cmp ops m).1 = TreeSet.apiOuts (ops.map (·.1))
      (OrdSet.run cmp s.t.abs (ops.map fun p => (p.1, TreeTable.refusedOfT s.triple p.2))).1 ∧
    (s.run cmp ops m).2.2.1.t.abs = (OrdSet.run cmp s.t.abs (ops.map fun p => (p.1, TreeTable.refusedOfT s.triple p.2))).2 ∧
    (s.run cmp ops m).2.2.1.Inv cmp ∧
    (s.run cmp ops m).2.2.2.fault = m.fault ∧
    TreeTable.liveOf (s.run cmp ops m).2.2.2 s.triple + s.t.size =
      TreeTable.liveOf m s.triple + (s.run cmp ops m).2.2.1.t.size ∧
    TreeTable.Owns (s.run cmp ops m).2.2.1.t (s.run cmp ops m).2.2.2 ∧
    ∀ p ∈ (s.run cmp ops m).2.1, p.2 ≤ 2 * Nat.log2 (p.1 + 1) + 2 := by
  obtain ⟨a, b, c, d, e, _, g, i⟩ := TreeSet.run_ok ho ops h m hm
  exact ⟨a, b, c, d, e, g, i⟩

/-- **Iterator programs on a set** return the statuses and elements of the ideal cursor and end in a
state with the full *set* invariant, balanced ledger and ledger consistency — so set calls can follow -/
theorem set_iter_refines (ho : TotalOrder cmp) (s : TreeSet) (h : s.Inv cmp) (prog : List IterOp) (m : Mem)
    (hm : TreeTable.Owns s.t m) :
    (s.iterRun cmp s.iterInit prog m).1 =
      ((Cursor.init s.t.abs).run s.t.abs prog).1.map (fun o => { st := o.st, val := o.val }) ∧
    (s.iterRun cmp s.iterInit prog m).2.1.t.abs = ((Cursor.init s.t.abs).run s.t.abs prog).2.2 ∧
    (s.iterRun cmp s.iterInit prog m).2.1.Inv cmp ∧
    (TreeTable.IterValid cmp s.t s.iterInit prog m → (s.iterRun cmp s.iterInit prog m).2.2.2.fault = m.fault) ∧
    TreeTable.liveOf (s.iterRun cmp s.iterInit prog m).2.2.2 s.triple + s.t.size =
      TreeTable.liveOf m s.triple + (s.iterRun cmp s.iterInit prog m).2.1.t.size ∧
    TreeTable.Owns (s.iterRun cmp s.iterInit prog m).2.1.t (s.iterRun cmp s.iterInit prog m).2.2.2 := by
  obtain ⟨a, b, c, d, e, _, g⟩ := TreeSet.iterRun_ok ho prog h m hm
  exact ⟨a, b, c, d, e, g⟩

/-- **Sessions of a set**: set calls interleaved with iterator sessions (removal through the iterator
included) return what the ideal ordered set and cursor return (as the API hands it back) and end in the
ideal content with the set invariant, balanced ledger, ledger consistency; no fault inside the contract -/
theorem set_session_refines (ho : TotalOrder cmp) (segs : List OrdSet.Segment) (s : TreeSet) (h : s.Inv cmp)
    (m : Mem) (hm : TreeTable.Owns s.t m) :
    (s.runSession cmp segs m).1 = (OrdSet.runSession cmp (TreeTable.refusedOfT s.triple) s.t.abs segs).1 ∧
    (s.runSession cmp segs m).2.1.t.abs = (OrdSet.runSession cmp (TreeTable.refusedOfT s.triple) s.t.abs segs).2 ∧
    (s.runSession cmp segs m).2.1.Inv cmp ∧
    (TreeSet.SessionValid cmp s segs m → (s.runSession cmp segs m).2.2.fault = m.fault) ∧
    TreeTable.liveOf (s.runSession cmp segs m).2.2 s.triple + s.t.size =
      TreeTable.liveOf m s.triple + (s.runSession cmp segs m).2.1.t.size ∧
    TreeTable.Owns (s.runSession cmp segs m).2.1.t (s.runSession cmp segs m).2.2 := by
  obtain ⟨a, b, c, d, e, _, g⟩ := TreeSet.session_ok ho segs h m hm
  exact ⟨a, b, c, d, e, g⟩

/-- **C03 for sets from the constructor**: every session on a freshly constructed set (either triple)
behaves like the ideal ordered set that starts empty -/
theorem set_new_session_refines (ho : TotalOrder cmp) (tr : Triple) (m0 m1 : Mem) (s0 : TreeSet)
    (hnew : TreeSet.newT tr m0 = (.ok, some s0, m1)) (segs : List OrdSet.Segment) :
    (s0.runSession cmp segs m1).1 = (OrdSet.runSession cmp (TreeTable.refusedOfT tr) [] segs).1 ∧
    (s0.runSession cmp segs m1).2.1.t.abs = (OrdSet.runSession cmp (TreeTable.refusedOfT tr) [] segs).2 ∧
    (s0.runSession cmp segs m1).2.1.Inv cmp ∧
    (TreeSet.SessionValid cmp s0 segs m1 → (s0.runSession cmp segs m1).2.2.fault = m1.fault) := by
  obtain ⟨hi, ha, ht, _, _, how⟩ := (TreeSet.newT_spec (cmp := cmp) tr m0).1 s0 m1 hnew
  have := set_session_refines ho segs s0 hi m1 (TreeSet.owns_table hi how)
  rw [ha, ht] at this
  exact ⟨this.1, this.2.1, this.2.2.1, this.2.2.2.1⟩

/-- `apiOut` changes nothing but the out-value of a successful `remove` -/
theorem apiOut_spec (op : OrdSet.Op) (o : Out) :
    (OrdSet.apiOut op o).st = o.st ∧ (OrdSet.apiOut op o).log = o.log ∧
    (OrdSet.isRemove op = false → OrdSet.apiOut op o = o) := by
  unfold OrdSet.apiOut; cases OrdSet.isRemove op <;> simp

/-- the set constructor: three blocks (set header, table header, sentinel) on one triple, all
released again when any of the requests is refused -/
theorem set_new_inv (tr : Triple) (m0 : Mem) :
    (∀ s m1, TreeSet.newT tr m0 = (.ok, some s, m1) →
        s.Inv cmp ∧ s.t.abs = [] ∧ s.triple = tr ∧ TreeTable.liveOf m1 tr = TreeTable.liveOf m0 tr + 3 ∧
        m1.fault = m0.fault ∧ TreeSet.Owns s m1) ∧
    ((TreeSet.newT tr m0).1 = .ok ∨ (TreeSet.newT tr m0).1 = .errAlloc) ∧
    ((TreeSet.newT tr m0).1 = .errAlloc → (TreeSet.newT tr m0).2.1 = none ∧
        TreeTable.liveOf (TreeSet.newT tr m0).2.2 tr = TreeTable.liveOf m0 tr ∧
        (TreeSet.newT tr m0).2.2.fault = m0.fault) :=
  TreeSet.newT_spec tr m0

/-! ## The comparators of the harness are total orders -/
open CC.Driver.TreeTableD (cmpOf) in
theorem cmpOf_total (w : Nat) : TotalOrder (cmpOf w) := by
  refine ⟨fun a b => ?_, fun a b => ?_, fun a b c => ?_⟩ <;> unfold cmpOf <;>
    (split <;> (repeat' split) <;> omega)

/-! ## Non-vacuity -/
open CC.Driver.TreeTableD (cmpOf) in
/-- a three-level tree with red and black nodes satisfies the invariant under the non-numeric order -/
example :
    (TreeTable.mk (Tree.node .black (Tree.node .black .nil 200 1 (Tree.node .red .nil 101 2 .nil)) 3 3
        (Tree.node .black (Tree.node .red .nil 104 4 .nil) 5 5 .nil)) 5 .conf).Inv (cmpOf 2) ∧
    (TreeTable.mk (Tree.node .black (Tree.node .black .nil 200 1 (Tree.node .red .nil 101 2 .nil)) 3 3
        (Tree.node .black (Tree.node .red .nil 104 4 .nil) 5 5 .nil)) 5 .conf).abs =
      [(200, 1), (101, 2), (3, 3), (104, 4), (5, 5)] := by decide

open CC.Driver.TreeTableD (cmpOf) in
/-- a history from the constructor, with a refused and a repeated `add`, a removal and lookups: the
hypotheses of `new_history_refines` are satisfiable and the run is what one expects -/
example :
    (match TreeTable.newT .conf {} with
     | (.ok, some t, m) =>
       let r := t.run (cmpOf 1) [(.add 2 20, []), (.add 1 10, [true]), (.add 1 10, []), (.add 3 30, []),
         (.remove 2, []), (.get 2, []), (.firstKey, []), (.greaterThan 3, []), (.removeLast, [])] m
       (r.1.map (fun o => (o.st, o.val)), r.2.2.1.abs, r.2.2.2.live, decide (r.2.2.1.Inv (cmpOf 1)))
     | _ => ([], [], 0, false)) =
    ([(some .ok, none), (some .errAlloc, none), (some .ok, none), (some .ok, none), (some .ok, some 20),
      (some .errKeyNotFound, none), (some .ok, some 3), (some .ok, some 1), (some .ok, some 10)],
     [(3, 30)], 3, true) := by decide

end CC.Properties.C03
