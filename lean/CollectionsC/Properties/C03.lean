import CollectionsC.Proofs.TreeTableSpec
import CollectionsC.Proofs.TreeSet
import CollectionsC.Driver.TreeTable
/-! # C03 — CC_TreeTable / CC_TreeSet are exact ordered maps / sets

Statements and closing proofs only (helpers: `Proofs/TreeTable*.lean`).  The concrete model
`CC.TreeTable` (`Model/TreeTable.lean`) is the red-black tree of `src/cc_treetable.c`, node for node;
the abstract spec `CC.Spec.OrdMap` is the list of entries in strictly ascending key order.
Quantifiers: **every** comparator that is a total order (`Spec.TotalOrder`), every key and value,
every finite history, every allocator schedule, every state satisfying the invariant (BST order,
red-black rules, size field = number of nodes).

Preconditions that appear as hypotheses:
* `TotalOrder cmp` — the property is about total-order comparators;
* `t.Inv cmp` — established by the constructor (`new_inv`) and preserved by every call;
* `t.size + 2 ≤ m.live` — the ledger holds at least the blocks the table owns (nodes, sentinel,
  header); established by the constructor, preserved by every call. -/
namespace CC.Properties.C03
open CC CC.Spec CC.Spec.OrdMap

variable {cmp : Nat → Nat → Int}

/-- **One call.**  Same status / out-value / callback sequence as the ideal ordered map, the
abstraction commutes, the invariant is preserved, a rejected call leaves the table (and, unless an
allocation was refused, the ledger) untouched, no fault, balanced ledger, comparator budget. -/
theorem step_refines (ho : TotalOrder cmp) (t : TreeTable) (h : t.Inv cmp) (op : Op) (m : Mem)
    (hm : t.size + 2 ≤ m.live) : TreeTable.StepOK cmp t op m :=
  TreeTable.step_ok ho h op m hm

/-- what the ideal map is told about the allocator: the request of this call is refused iff the
schedule of the call starts with a refusal -/
def refusedOf (sched : List Bool) : Bool := sched.head? == some true

theorem begin_alloc (m : Mem) (sched : List Bool) : (!(m.begin sched).alloc.1) = refusedOf sched := by
  unfold Mem.begin Mem.alloc refusedOf
  rcases sched with _ | ⟨_ | _, rest⟩ <;> rfl

/-- **All histories.**  From any state satisfying the invariant, any history of table calls, each
under any allocator schedule, returns exactly what the ideal ordered map returns and ends in a state
whose in-order content is the ideal map's; invariant, fault-freedom and the ledger balance hold at the
end, and every call stayed within `2·⌊log₂(n+1)⌋ + 2` comparator calls (`n` keys before the call). -/
theorem history_refines (ho : TotalOrder cmp) (ops : List (Op × List Bool)) (t : TreeTable)
    (h : t.Inv cmp) (m : Mem) (hm : t.size + 2 ≤ m.live) :
    (t.run cmp ops m).1 = (OrdMap.run cmp t.abs (ops.map fun p => (p.1, refusedOf p.2))).1 ∧
    (t.run cmp ops m).2.2.1.abs = (OrdMap.run cmp t.abs (ops.map fun p => (p.1, refusedOf p.2))).2 ∧
    (t.run cmp ops m).2.2.1.Inv cmp ∧
    (t.run cmp ops m).2.2.2.fault = m.fault ∧
    (t.run cmp ops m).2.2.2.live + t.size = m.live + (t.run cmp ops m).2.2.1.size ∧
    ∀ p ∈ (t.run cmp ops m).2.1, p.2 ≤ 2 * Nat.log2 (p.1 + 1) + 2 := by
  induction ops generalizing t m with
  | nil => exact ⟨rfl, rfl, h, rfl, rfl, fun _ hp => by simp [TreeTable.run] at hp⟩
  | cons x ops ih =>
    obtain ⟨op, sched⟩ := x
    have hm' : t.size + 2 ≤ (m.begin sched).live := hm
    have s := step_refines ho t h op (m.begin sched) hm'
    have hl := s.ledger
    have ih' := ih (t.step cmp op (m.begin sched)).2.1 s.inv (t.step cmp op (m.begin sched)).2.2.1
      (by have : (m.begin sched).live = m.live := rfl; omega)
    obtain ⟨a, b, c, d, e, f⟩ := ih'
    rw [s.abs, begin_alloc] at a b
    simp only [TreeTable.run, OrdMap.run, List.map_cons]
    refine ⟨by rw [a, s.out, begin_alloc], b, c, by rw [d, s.nofault]; rfl, ?_, ?_⟩
    · have : (m.begin sched).live = m.live := rfl
      omega
    · intro p hp
      rcases List.mem_cons.1 hp with rfl | hp
      · exact s.cmps
      · exact f p hp

/-- the constructor establishes the invariant, the empty content and the ledger precondition; a
refused request yields no object and an unchanged ledger -/
theorem new_inv (m0 : Mem) :
    (∀ t m1, TreeTable.new m0 = (.ok, some t, m1) →
        t.Inv cmp ∧ t.abs = [] ∧ m1.live = m0.live + 2 ∧ m1.fault = m0.fault) ∧
    ((TreeTable.new m0).1 = .ok ∨ (TreeTable.new m0).1 = .errAlloc) ∧
    ((TreeTable.new m0).1 = .errAlloc → (TreeTable.new m0).2.1 = none ∧
        (TreeTable.new m0).2.2.live = m0.live ∧ (TreeTable.new m0).2.2.fault = m0.fault) := by
  unfold TreeTable.new; dsimp only
  cases h1 : m0.alloc.1 <;> simp only [Bool.not_false, Bool.not_true, if_true]
  · have := Mem.alloc_fst_false m0 h1
    simp [this]
  · have e1 := Mem.alloc_fst_true m0 h1
    cases h2 : m0.alloc.2.alloc.1 <;> simp only [Bool.not_false, Bool.not_true, if_true]
    · have e2 := Mem.alloc_fst_false m0.alloc.2 h2
      simp [Mem.free, e1, e2]
    · have e2 := Mem.alloc_fst_true m0.alloc.2 h2
      simp only [Bool.false_eq_true, if_false, Prod.mk.injEq, Option.some.injEq, true_and, and_imp,
        reduceCtorEq, or_false, false_implies, and_true]
      intro t m1 ht hm; subst ht; subst hm
      exact ⟨⟨List.Pairwise.nil, ⟨trivial, rfl⟩, rfl⟩, rfl, by omega, by rw [e2.2.1, e1.2.1]⟩

/-- **C03 from the constructor.**  Every history on a freshly constructed table behaves like the
ideal ordered map that starts empty. -/
theorem new_history_refines (ho : TotalOrder cmp) (m0 m1 : Mem) (t0 : TreeTable)
    (hnew : TreeTable.new m0 = (.ok, some t0, m1)) (ops : List (Op × List Bool)) :
    (t0.run cmp ops m1).1 = (OrdMap.run cmp [] (ops.map fun p => (p.1, refusedOf p.2))).1 ∧
    (t0.run cmp ops m1).2.2.1.abs = (OrdMap.run cmp [] (ops.map fun p => (p.1, refusedOf p.2))).2 ∧
    (t0.run cmp ops m1).2.2.1.Inv cmp ∧ (t0.run cmp ops m1).2.2.2.fault = m1.fault := by
  obtain ⟨hi, ha, hl, _⟩ := (new_inv (cmp := cmp) m0).1 t0 m1 hnew
  have hs : t0.size = 0 := by rw [hi.size_eq, ha]; rfl
  have := history_refines ho ops t0 hi m1 (by omega)
  rw [ha] at this
  exact ⟨this.1, this.2.1, this.2.2.1, this.2.2.2.1⟩

/-- `destroy` releases exactly the blocks the table owns (every node, the sentinel, the header):
together with `new_inv` and the ledger clause of `history_refines`, a session
`new; …; destroy` ends with the ledger it started with (C06 tree part) -/
theorem destroy_ledger (t : TreeTable) (h : t.Inv cmp) (m : Mem) (hm : t.size + 2 ≤ m.live) :
    (t.destroy m).live + t.size + 2 = m.live ∧ (t.destroy m).fault = m.fault := by
  have a := TreeTable.freeN_spec t.root.size m (by rw [← h.2.2]; omega)
  have b := TreeTable.free_spec (TreeTable.freeN m t.root.size) (by rw [a.1, ← h.2.2]; omega)
  have c := TreeTable.free_spec (TreeTable.freeN m t.root.size).free (by rw [b.1, a.1, ← h.2.2]; omega)
  unfold TreeTable.destroy
  rw [c.1, c.2, b.1, b.2, a.1, a.2, ← h.2.2]
  exact ⟨by omega, rfl⟩

/-! ## Iterator (`iter_init`, `iter_next`, `iter_remove`) -/

/-- **Iterator programs.**  A fresh iterator driven by any program of `next` / `remove` calls yields
the statuses, keys and values of the ideal cursor, removes exactly the entries the cursor removes,
and keeps the invariant (C07 tree part: the pre-computed successor survives the deletion).  The
fault flag stays clear when `remove` is only called after a successful `next` (`IterValid`). -/
theorem iter_refines (ho : TotalOrder cmp) (t : TreeTable) (h : t.Inv cmp) (prog : List IterOp) (m : Mem)
    (hm : t.size + 2 ≤ m.live) :
    (t.iterRun cmp t.iterInit prog m).1 = ((Cursor.init t.abs).run t.abs prog).1 ∧
    (t.iterRun cmp t.iterInit prog m).2.1.abs = ((Cursor.init t.abs).run t.abs prog).2.2 ∧
    (t.iterRun cmp t.iterInit prog m).2.1.Inv cmp ∧
    (TreeTable.IterValid cmp t t.iterInit prog m → (t.iterRun cmp t.iterInit prog m).2.2.2.fault = m.fault) ∧
    (t.iterRun cmp t.iterInit prog m).2.2.2.live + t.size = m.live + (t.iterRun cmp t.iterInit prog m).2.1.size := by
  have := TreeTable.iterRun_sim ho prog h (TreeTable.iterInit_rel t) m hm
  exact ⟨this.1, this.2.1, this.2.2.1, this.2.2.2.2.1, this.2.2.2.2.2⟩

/-- the ideal cursor enumerates the map: `n+1` calls of `next` on a map of `n` entries yield every
entry once, in ascending key order, and then `CC_ITER_END` -/
theorem cursor_enumerates (ho : TotalOrder cmp) (m : OrdMap) (hs : Sorted cmp m) :
    ((Cursor.init m).run m (List.replicate (m.length + 1) .next)).1 =
      m.map (fun e => { st := some .ok, val := some e.1, log := [e.2] }) ++ [{ st := some .iterEnd }] := by
  suffices H : ∀ (pre s : OrdMap) (last : Option Nat), m = pre ++ s →
      (Cursor.run { last := last, todo := keys s } m (List.replicate (s.length + 1) .next)).1 =
        s.map (fun e => { st := some .ok, val := some e.1, log := [e.2] }) ++ [{ st := some .iterEnd }] from
    H [] m none rfl
  intro pre s
  induction s generalizing pre with
  | nil => intro last _; rfl
  | cons e rest ih =>
    intro last hm
    have hl : lookup m e.1 = some e.2 := by
      rw [hm]; rw [hm] at hs
      exact lookup_eq ho (xs := pre) (ys := rest) (a := e.1) (av := e.2) hs
    have := ih (pre ++ [e]) (some e.1) (by rw [hm]; simp)
    simp only [List.length_cons, List.replicate_succ, Cursor.run, Cursor.step, Cursor.next, keys,
      List.map_cons, hl, Option.getD_some, Option.map_some, List.cons_append, List.cons.injEq, true_and]
    exact this

/-! ## The ideal ordered map in the words of the property -/

/-- the entries stay in strictly ascending key order through every history, hence enumeration
(`foreach`, iterator) is strictly ascending and yields every key once -/
theorem spec_sorted (ho : TotalOrder cmp) (m : OrdMap) (hs : Sorted cmp m) (op : Op) (r : Bool) :
    Sorted cmp (step cmp m op r).2 ∧
    (keys (step cmp m op r).2).Pairwise (fun a b => cmp a b < 0) ∧ (keys (step cmp m op r).2).Nodup :=
  ⟨step_sorted ho hs op r, keys_ascending (step_sorted ho hs op r), TreeTable.keys_nodup ho (step_sorted ho hs op r)⟩

theorem spec_get_after_add (ho : TotalOrder cmp) (m : OrdMap) (hs : Sorted cmp m) (k v k' : Nat) :
    lookup (insert cmp m k v) k' = if k' = k then some v else lookup m k' := lookup_insert ho hs k v k'
theorem spec_get_after_remove (m : OrdMap) (k k' : Nat) :
    lookup (erase m k) k' = if k' = k then none else lookup m k' := lookup_erase m k k'
theorem spec_first_is_min (m : OrdMap) (hs : Sorted cmp m) (e : Nat × Nat) (he : first m = some e) :
    e ∈ m ∧ ∀ e' ∈ m, e' = e ∨ cmp e.1 e'.1 < 0 := first_min hs he
theorem spec_last_is_max (m : OrdMap) (hs : Sorted cmp m) (e : Nat × Nat) (he : last m = some e) :
    e ∈ m ∧ ∀ e' ∈ m, e' = e ∨ cmp e'.1 e.1 < 0 := last_max hs he
/-- `get_greater_than`: `CC_OK` with the least key strictly above a present key, not-found when there
is none (in particular at the maximum) and for an absent key -/
theorem spec_greater_than (m : OrdMap) (hs : Sorted cmp m) (k : Nat) :
    (∀ k', opGreaterThan cmp m k = (.ok, some k') →
        contains m k = true ∧ ∃ e ∈ m, e.1 = k' ∧ cmp k k' < 0 ∧ ∀ e' ∈ m, cmp k e'.1 < 0 → e' = e ∨ cmp k' e'.1 < 0) ∧
    ((opGreaterThan cmp m k).1 ≠ .ok → contains m k = false ∨ ∀ e ∈ m, ¬ cmp k e.1 < 0) := by
  unfold opGreaterThan
  cases hc : contains m k
  · simp
  · simp only [if_true]
    cases hsu : succ cmp m k with
    | none =>
      have hn := succ_none.1 hsu
      simp only [reduceCtorEq, false_implies, implies_true, ne_eq, not_false_eq_true, true_implies, true_and,
        Prod.mk.injEq, false_and]
      exact Or.inr hn
    | some e =>
      have := succ_least hs hsu
      simp only [Prod.mk.injEq, Option.some.injEq, true_and, ne_eq, not_true_eq_false, false_implies, and_true]
      intro k' hk; subst hk
      exact ⟨e, this.1, rfl, this.2.1, this.2.2⟩
/-- `get_lesser_than`, mirror image -/
theorem spec_lesser_than (m : OrdMap) (hs : Sorted cmp m) (k : Nat) :
    (∀ k', opLesserThan cmp m k = (.ok, some k') →
        contains m k = true ∧ ∃ e ∈ m, e.1 = k' ∧ cmp k' k < 0 ∧ ∀ e' ∈ m, cmp e'.1 k < 0 → e' = e ∨ cmp e'.1 k' < 0) ∧
    ((opLesserThan cmp m k).1 ≠ .ok → contains m k = false ∨ ∀ e ∈ m, ¬ cmp e.1 k < 0) := by
  unfold opLesserThan
  cases hc : contains m k
  · simp
  · simp only [if_true]
    cases hsu : pred cmp m k with
    | none =>
      have hn := pred_none.1 hsu
      simp only [reduceCtorEq, false_implies, implies_true, ne_eq, not_false_eq_true, true_implies, true_and,
        Prod.mk.injEq, false_and]
      exact Or.inr hn
    | some e =>
      have := pred_greatest hs hsu
      simp only [Prod.mk.injEq, Option.some.injEq, true_and, ne_eq, not_true_eq_false, false_implies, and_true]
      intro k' hk; subst hk
      exact ⟨e, this.1, rfl, this.2.1, this.2.2⟩
/-- removing from an empty table reports not-found (first, last, by key) -/
theorem spec_remove_empty (k : Nat) :
    (opRemoveFirst []).1 = .errKeyNotFound ∧ (opRemoveLast []).1 = .errKeyNotFound ∧
    (opRemove [] k).1 = .errKeyNotFound := ⟨rfl, rfl, rfl⟩

/-! ## C08 / C16, tree part -/

/-- a refused node allocation is atomic: status `CC_ERR_ALLOC`, the table is physically unchanged,
and the ledger holds exactly the blocks it held before -/
theorem add_atomic (ho : TotalOrder cmp) (t : TreeTable) (h : t.Inv cmp) (k v : Nat) (m : Mem)
    (hk : contains t.abs k = false) (hr : m.alloc.1 = false) :
    (t.add cmp k v m).1 = .errAlloc ∧ (t.add cmp k v m).2.1 = t ∧ (t.add cmp k v m).2.2.1.live = m.live ∧
    (t.add cmp k v m).2.2.1.fault = m.fault := by
  obtain ⟨a, _, _, d, e, f, _⟩ := TreeTable.add_spec ho h k v m
  have hx : (!contains t.abs k && !m.alloc.1) = true := by rw [hk, hr]; rfl
  rw [hx] at a
  have := d hx
  rw [this] at f
  exact ⟨a, this, by omega, e⟩

/-- C08 `continue`: on the ideal map a refused call is as if it had not been made -/
theorem C08_continue (m : OrdMap) (ops₁ ops₂ : List (Op × Bool)) (op : Op)
    (hf : (step cmp (run cmp m ops₁).2 op true).1.st = some .errAlloc) :
    (run cmp m (ops₁ ++ [(op, true)] ++ ops₂)).2 = (run cmp m (ops₁ ++ ops₂)).2 := by
  rw [List.append_assoc, run_append, run_append m ops₁ ops₂]
  show (run cmp (step cmp (run cmp m ops₁).2 op true).2 ops₂).2 = _
  rw [step_refused_inert _ op true hf]

/-- C16: every call that reports an error other than `CC_ERR_ALLOC` leaves the whole state —
tree, size field, ledger — unchanged -/
theorem rejected_inert (ho : TotalOrder cmp) (t : TreeTable) (h : t.Inv cmp) (op : Op) (m : Mem)
    (hm : t.size + 2 ≤ m.live) (st : Stat) (hst : (t.step cmp op m).1.st = some st)
    (h1 : st ≠ .ok) (h2 : st ≠ .errAlloc) :
    (t.step cmp op m).2.1 = t ∧ (t.step cmp op m).2.2.1 = m :=
  let s := step_refines ho t h op m hm
  ⟨(s.inert st hst h1).1, (s.inert st hst h1).2 h2⟩

/-! ## CC_TreeSet -/

/-- **One call of the set API**: status, callback sequence and out-value of the ideal ordered set
(the out-value of `cc_treeset_remove` is the dummy the table stores, see `TreeSet.StepOK.val`), the
abstraction commutes, the invariant (the table's, and "all values are the dummy") is preserved, no
fault, balanced ledger, comparator budget. -/
theorem set_step_refines (ho : TotalOrder cmp) (s : TreeSet) (h : s.Inv cmp) (op : OrdSet.Op) (m : Mem)
    (hm : s.t.size + 2 ≤ m.live) : TreeSet.StepOK cmp s op m :=
  TreeSet.step_ok ho h op m hm

/-- **All histories of set calls**: statuses and callback sequences are those of the ideal ordered
set, the final content is the ideal set's, invariant / fault-freedom / ledger balance / comparator
budget as for the table. -/
theorem set_history_refines (ho : TotalOrder cmp) (ops : List (OrdSet.Op × List Bool)) (s : TreeSet)
    (h : s.Inv cmp) (m : Mem) (hm : s.t.size + 2 ≤ m.live) :
    (s.run cmp ops m).1.map (fun o => (o.st, o.log)) =
      (OrdSet.run cmp s.t.abs (ops.map fun p => (p.1, refusedOf p.2))).1.map (fun o => (o.st, o.log)) ∧
    (s.run cmp ops m).2.2.1.t.abs = (OrdSet.run cmp s.t.abs (ops.map fun p => (p.1, refusedOf p.2))).2 ∧
    (s.run cmp ops m).2.2.1.Inv cmp ∧
    (s.run cmp ops m).2.2.2.fault = m.fault ∧
    (s.run cmp ops m).2.2.2.live + s.t.size = m.live + (s.run cmp ops m).2.2.1.t.size ∧
    ∀ p ∈ (s.run cmp ops m).2.1, p.2 ≤ 2 * Nat.log2 (p.1 + 1) + 2 := by
  induction ops generalizing s m with
  | nil => exact ⟨rfl, rfl, h, rfl, rfl, fun _ hp => by simp [TreeSet.run] at hp⟩
  | cons x ops ih =>
    obtain ⟨op, sched⟩ := x
    have hm' : s.t.size + 2 ≤ (m.begin sched).live := hm
    have k := set_step_refines ho s h op (m.begin sched) hm'
    have hl := k.ledger
    have hlive : (m.begin sched).live = m.live := rfl
    have ih' := ih (s.step cmp op (m.begin sched)).2.1 k.inv (s.step cmp op (m.begin sched)).2.2.1 (by omega)
    obtain ⟨a, b, c, d, e, f⟩ := ih'
    rw [k.abs, begin_alloc] at a b
    simp only [TreeSet.run, OrdSet.run, List.map_cons]
    refine ⟨?_, b, c, by rw [d, k.nofault]; rfl, by omega, ?_⟩
    · rw [a, k.st, k.log, begin_alloc]
    · intro p hp
      rcases List.mem_cons.1 hp with rfl | hp
      · exact k.cmps
      · exact f p hp

/-- the set constructor: three blocks (set header, table header, sentinel), all released again when
any of the requests is refused -/
theorem set_new_inv (m0 : Mem) :
    (∀ s m1, TreeSet.new m0 = (.ok, some s, m1) →
        s.Inv cmp ∧ s.t.abs = [] ∧ m1.live = m0.live + 3 ∧ m1.fault = m0.fault) ∧
    ((TreeSet.new m0).1 = .ok ∨ (TreeSet.new m0).1 = .errAlloc) ∧
    ((TreeSet.new m0).1 = .errAlloc → (TreeSet.new m0).2.1 = none ∧
        (TreeSet.new m0).2.2.live = m0.live ∧ (TreeSet.new m0).2.2.fault = m0.fault) := by
  unfold TreeSet.new TreeTable.new; dsimp only
  cases h1 : m0.alloc.1 <;> simp only [Bool.not_false, Bool.not_true, if_true]
  · have := Mem.alloc_fst_false m0 h1
    simp [this]
  · have e1 := Mem.alloc_fst_true m0 h1
    cases h2 : m0.alloc.2.alloc.1 <;> simp only [Bool.not_false, Bool.not_true, if_true]
    · have e2 := Mem.alloc_fst_false m0.alloc.2 h2
      simp [Mem.free, e1, e2]
    · have e2 := Mem.alloc_fst_true m0.alloc.2 h2
      cases h3 : m0.alloc.2.alloc.2.alloc.1 <;> simp only [Bool.not_false, Bool.not_true, if_true]
      · have e3 := Mem.alloc_fst_false m0.alloc.2.alloc.2 h3
        simp [Mem.free, e1, e2, e3]
      · have e3 := Mem.alloc_fst_true m0.alloc.2.alloc.2 h3
        simp only [Bool.false_eq_true, if_false, Prod.mk.injEq, Option.some.injEq, true_and, and_imp,
          reduceCtorEq, or_false, false_implies, and_true]
        intro s m1 hs hm; subst hs; subst hm
        exact ⟨⟨⟨List.Pairwise.nil, ⟨trivial, rfl⟩, rfl⟩, fun e he => by simp at he⟩, rfl, by omega,
          by rw [e3.2.1, e2.2.1, e1.2.1]⟩

/-! ## The comparators of the harness are total orders -/
open CC.Driver.TreeTableD (cmpOf) in
theorem cmpOf_total (w : Nat) : TotalOrder (cmpOf w) := by
  refine ⟨fun a b => ?_, fun a b => ?_, fun a b c => ?_⟩ <;> unfold cmpOf <;>
    (split <;> (repeat' split) <;> omega)

/-! ## Non-vacuity -/
open CC.Driver.TreeTableD (cmpOf) in
/-- a three-level tree with red and black nodes satisfies the invariant under the non-numeric order -/
example :
    (TreeTable.mk (Tree.node .black (Tree.node .black .nil 200 1 (Tree.node .red .nil 101 2 .nil)) 3 3
        (Tree.node .black (Tree.node .red .nil 104 4 .nil) 5 5 .nil)) 5).Inv (cmpOf 2) ∧
    (TreeTable.mk (Tree.node .black (Tree.node .black .nil 200 1 (Tree.node .red .nil 101 2 .nil)) 3 3
        (Tree.node .black (Tree.node .red .nil 104 4 .nil) 5 5 .nil)) 5).abs =
      [(200, 1), (101, 2), (3, 3), (104, 4), (5, 5)] := by decide

end CC.Properties.C03
