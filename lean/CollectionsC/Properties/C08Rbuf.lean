import CollectionsC.Properties.C19
/-! # C08 (ring buffer part): the only allocating call is the constructor -/
namespace CC.Properties.C08Rbuf
open CC

/-- a refused allocation in the constructor: status `CC_ERR_ALLOC`, no object, nothing leaked -/
theorem new_atomic (cap : Nat) (m : Mem) (h : (Rbuf.new cap m).1 = .errAlloc) :
    (Rbuf.new cap m).2.1 = none ∧ (Rbuf.new cap m).2.2.live = m.live ∧ (Rbuf.new cap m).2.2.fault = m.fault :=
  (C19.new_destroy_ledger cap m).2.1 h

/-- the constructor fails exactly when one of its (at most two) allocator calls is refused -/
theorem new_refused_iff (cap : Nat) (m : Mem) :
    (Rbuf.new cap m).1 = .errAlloc ↔ (m.alloc.1 = false ∨ m.alloc.2.alloc.1 = false) := by
  unfold Rbuf.new Rbuf.newT; dsimp only [Mem.allocT, Mem.freeT]
  cases h1 : m.alloc.1 <;> cases h2 : m.alloc.2.alloc.1 <;> simp

/-- with an allocator that does not refuse the constructor succeeds -/
theorem new_succeeds (cap : Nat) (m : Mem) (h : m.sched = []) : (Rbuf.new cap m).1 = .ok := by
  have a1 := Mem.alloc_nil m h
  have a2 := Mem.alloc_nil m.alloc.2 a1.2
  unfold Rbuf.new Rbuf.newT; dsimp only [Mem.allocT, Mem.freeT]
  simp [a1.1, a2.1]

/-- enqueue/dequeue never call the allocator: the schedule is never consumed -/
theorem ops_do_not_allocate (r : Rbuf) (op : Spec.Fifo.Op) (m : Mem) (h : r.Inv) :
    (r.step op m).2.2.sched = m.sched ∧ (r.step op m).2.2.nrefused = m.nrefused := by
  rw [(C19.step_refines r op m h).2.2.2.2]; exact ⟨rfl, rfl⟩

end CC.Properties.C08Rbuf
