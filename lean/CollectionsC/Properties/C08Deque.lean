import CollectionsC.Properties.C16Deque
import CollectionsC.Properties.C07Deque
/-! # C08 (deque part) — a refused allocation is atomic

"A refusal fired" is `m.alloc.1 = false` for the allocator call the operation makes (`refusal_fired_iff`
ties it to the ledger's refusal counter); builders make two calls.  Besides a refusal the deque has one
more, documented, cause for `CC_ERR_ALLOC`: a full deque at the capacity limit `MAX_POW_TWO` (the C code
maps `CC_ERR_MAX_CAPACITY` of `expand_capacity` to `CC_ERR_ALLOC`); the `iff` statements name both.
Everything is for every layout satisfying `Deque.Inv`, every index (finding D3's range of `add_at`
included: atomicity does not depend on where the element would have gone) and every schedule. -/
namespace CC.Properties.C08Deque
open CC CC.Properties.C05

/-- the allocator reports a refusal exactly when the ledger's refusal counter moves -/
theorem refusal_fired_iff (m : Mem) : m.alloc.1 = false ↔ m.alloc.2.nrefused = m.nrefused + 1 := by
  unfold Mem.alloc
  cases m.sched with
  | nil => simp
  | cons b r => cases b <;> simp

theorem expand_fails_iff (d : Deque) (m : Mem) :
    (d.expandCapacity m).1 ≠ .ok ↔ (d.cap = Gen.MAX_POW_TWO ∨ m.alloc.1 = false) := by
  by_cases hc : d.cap = Gen.MAX_POW_TWO
  · rw [Deque.expandCapacity_max d m hc]; simp [hc]
  · cases ha : m.alloc.1
    · rw [Deque.expandCapacity_refused d m hc ha]; simp
    · rw [Deque.expandCapacity_grow d m hc ha]; simp [hc]

/-- **refused_iff**: each allocating operation reports `CC_ERR_ALLOC` exactly when it has to grow (the
deque is full; `trim`: the capacity has to change) and the allocator refuses — or the capacity limit is
reached; otherwise its status is `CC_OK` (or `CC_ERR_OUT_OF_RANGE` for an index outside `[0, size)`) -/
theorem refused_iff (d : Deque) (m : Mem) (x i : Nat) (hi : d.Inv) :
    ((d.addLast x m).1 = .errAlloc ↔ d.size = d.cap ∧ (d.cap = Gen.MAX_POW_TWO ∨ m.alloc.1 = false)) ∧
    ((d.addFirst x m).1 = .errAlloc ↔ d.size = d.cap ∧ (d.cap = Gen.MAX_POW_TWO ∨ m.alloc.1 = false)) ∧
    ((d.addAt x i m).1 = .errAlloc ↔
      i < d.size ∧ d.size = d.cap ∧ (d.cap = Gen.MAX_POW_TWO ∨ m.alloc.1 = false)) ∧
    ((d.trimCapacity m).1 = .errAlloc ↔
      d.cap ≠ d.size ∧ Deque.upperPow2 d.size ≠ d.cap ∧ m.alloc.1 = false) := by
  refine ⟨?_, ?_, ?_, ?_⟩
  · constructor
    · intro h
      rcases Deque.addLast_spec d x m hi with ⟨a1, _⟩ | ⟨_, _, _, a4, a5⟩
      · rw [a1] at h; exact absurd h (by decide)
      · exact ⟨a4, a5.symm⟩
    · rintro ⟨h1, h2⟩
      rcases Deque.addLast_spec d x m hi with ⟨_, _, _, _, _, a6⟩ | ⟨a1, _⟩
      · obtain ⟨b1, b2⟩ := a6 h1
        rcases h2 with h2 | h2
        · exact absurd h2 b2
        · rw [h2] at b1; exact absurd b1 (by decide)
      · exact a1
  · constructor
    · intro h
      rcases Deque.addFirst_spec d x m hi with ⟨a1, _⟩ | ⟨_, _, _, a4, a5⟩
      · rw [a1] at h; exact absurd h (by decide)
      · exact ⟨a4, a5.symm⟩
    · rintro ⟨h1, h2⟩
      rcases Deque.addFirst_spec d x m hi with ⟨_, _, _, _, _, a6⟩ | ⟨a1, _⟩
      · obtain ⟨b1, b2⟩ := a6 h1
        rcases h2 with h2 | h2
        · exact absurd h2 b2
        · rw [h2] at b1; exact absurd b1 (by decide)
      · exact a1
  · obtain ⟨_, _, a3, a4⟩ := Deque.addAt_inv d x i m hi
    constructor
    · intro h
      have hne : (d.addAt x i m).1 ≠ .ok := by rw [h]; decide
      rcases (a4 hne).2 with ⟨e, _⟩ | ⟨_, h1, h2⟩
      · rw [e] at h; exact absurd h (by decide)
      · refine ⟨h1, h2, ?_⟩
        -- the growth step must have failed, otherwise `add_at` would have succeeded
        have hexp : (d.expandCapacity m).1 ≠ .ok := by
          intro hok
          obtain ⟨e1, _, e3, e4, _⟩ := Deque.expandCapacity_ok d m hi hok
          have hcore := (Deque.addAtCore_inv (d.expandCapacity m).2.1 x i (d.expandCapacity m).2.2 e1
            (by rw [e3]; exact h1) (by rw [e3, e4]; have := Deque.Inv.cap_pos hi; omega)).1
          have : (d.addAt x i m).1 = .ok := by
            unfold Deque.addAt
            rw [if_neg (by omega), if_pos h2.symm]
            have hb : ((d.expandCapacity m).1 != Stat.ok) = false := by simp [hok]
            simp only [hb, Bool.false_eq_true, if_false]
            exact hcore
          exact hne this
        exact (expand_fails_iff d m).mp hexp
    · rintro ⟨h1, h2, h3⟩
      have hexp := (expand_fails_iff d m).mpr h3
      unfold Deque.addAt
      rw [if_neg (by omega), if_pos h2.symm]
      have hb : ((d.expandCapacity m).1 != Stat.ok) = true := by simp [hexp]
      simp only [hb, if_true]
  · constructor
    · intro h
      rcases Deque.trimCapacity_spec d m hi with ⟨a1, _⟩ | ⟨_, _, _, a4, a5⟩
      · rw [a1] at h; exact absurd h (by decide)
      · exact ⟨fun hf => a5 (Deque.upperPow2_of_full d hi hf), a5, a4⟩
    · rintro ⟨h1, h2, h3⟩
      simp [Deque.trimCapacity, h1, h2, h3]

/-- **atomic**: whenever one of the allocating operations reports an error, the deque is *physically*
unchanged, the ledger is balanced (nothing leaked, nothing freed twice) and nothing faulted — every
layout, every index -/
theorem atomic (d : Deque) (m : Mem) (x i : Nat) (hi : d.Inv) :
    ((d.addFirst x m).1 ≠ .ok → (d.addFirst x m).2.1 = d ∧ Deque.memSame (d.addFirst x m).2.2 m) ∧
    ((d.addLast x m).1 ≠ .ok → (d.addLast x m).2.1 = d ∧ Deque.memSame (d.addLast x m).2.2 m) ∧
    ((d.addAt x i m).1 ≠ .ok → (d.addAt x i m).2.1 = d ∧ Deque.memSame (d.addAt x i m).2.2 m) ∧
    ((d.trimCapacity m).1 ≠ .ok → (d.trimCapacity m).2.1 = d ∧ Deque.memSame (d.trimCapacity m).2.2 m) :=
  refused_atomic d m x i hi

/-- iterator insertion: deque **and cursor** unchanged; zip insertion: both *contents* and the cursor
unchanged (the first deque may already have been given a larger buffer when growing the second is
refused — D11 — which is not observable) -/
theorem iterators_atomic (it : Deque.Iter) (d d2 : Deque) (x y : Nat) (m : Mem) (hi : d.Inv) (h2 : d2.Inv) :
    ((Deque.iterAdd it d x m).1 ≠ .ok → (Deque.iterAdd it d x m).2.2.1 = d ∧ (Deque.iterAdd it d x m).2.1 = it ∧
      Deque.memSame (Deque.iterAdd it d x m).2.2.2 m) ∧
    ((Deque.zipAdd it d d2 x y m).1 ≠ .ok → (Deque.zipAdd it d d2 x y m).2.2.1.abs = d.abs ∧
      (Deque.zipAdd it d d2 x y m).2.2.2.1.abs = d2.abs ∧ (Deque.zipAdd it d d2 x y m).2.1 = it ∧
      (Deque.zipAdd it d d2 x y m).2.2.1.Inv ∧ (Deque.zipAdd it d d2 x y m).2.2.2.1.Inv ∧
      Deque.memSame (Deque.zipAdd it d d2 x y m).2.2.2.2 m) := by
  obtain ⟨_, a2, a3, _⟩ := Deque.iterAdd_safe it d x m hi
  obtain ⟨z1, z2, z3, z4, _⟩ := Deque.zipAdd_safe it d d2 x y m hi h2
  exact ⟨fun h => ⟨(a3 h).1, (a3 h).2, a2⟩, fun h => ⟨(z4 h).1, (z4 h).2.1, (z4 h).2.2, z1, z2, z3⟩⟩

/-- constructor and builders (`copy_shallow`, `copy_deep`, `filter`): `CC_ERR_ALLOC` exactly when one of
their two allocator calls is refused; then no object is produced, the source is untouched (it is not an
output), the header allocated first has been released again (balanced ledger) and nothing faulted -/
theorem builders_atomic (d : Deque) (confCap : Nat) (cp : Option (Nat → Nat)) (p : Nat → Bool) (m : Mem)
    (hi : d.Inv) :
    (((Deque.new confCap m).1 = .errAlloc ↔ (m.alloc.1 = false ∨ m.alloc.2.alloc.1 = false)) ∧
      ((Deque.new confCap m).1 ≠ .ok → (Deque.new confCap m).2.1 = none ∧ Deque.memSame (Deque.new confCap m).2.2 m)) ∧
    (((d.copy cp m).1 = .errAlloc ↔ (m.alloc.1 = false ∨ m.alloc.2.alloc.1 = false)) ∧
      ((d.copy cp m).1 ≠ .ok → (d.copy cp m).2.1 = none ∧ Deque.memSame (d.copy cp m).2.2 m)) ∧
    ((d.size ≠ 0 → ((d.filter p m).1 = .errAlloc ↔ (m.alloc.1 = false ∨ m.alloc.2.alloc.1 = false))) ∧
      ((d.filter p m).1 ≠ .ok → (d.filter p m).2.1 = none ∧ Deque.memSame (d.filter p m).2.2 m)) := by
  refine ⟨⟨?_, ?_⟩, ⟨?_, ?_⟩, ⟨?_, ?_⟩⟩
  · rcases Deque.new_spec confCap m with ⟨n1, _, _, _, _, _, _, _, n8, n9⟩ | ⟨n1, _, _, n4⟩
    · constructor
      · intro h; rw [n1] at h; exact absurd h (by decide)
      · rintro (h | h)
        · rw [h] at n8; exact absurd n8 (by decide)
        · rw [h] at n9; exact absurd n9 (by decide)
    · exact ⟨fun _ => n4, fun _ => n1⟩
  · intro h
    rcases Deque.new_spec confCap m with ⟨n1, _⟩ | ⟨_, n2, n3, _⟩
    · exact absurd n1 h
    · exact ⟨n2, n3⟩
  · rcases Deque.copy_spec d cp m hi with ⟨n1, _⟩ | ⟨n1, _, _, n4⟩
    · obtain ⟨_, k2, k3⟩ := Deque.copy_mem_ok d cp m hi n1
      constructor
      · intro h; rw [n1] at h; exact absurd h (by decide)
      · rintro (h | h)
        · rw [h] at k2; exact absurd k2 (by decide)
        · rw [h] at k3; exact absurd k3 (by decide)
    · exact ⟨fun _ => n4, fun _ => n1⟩
  · intro h
    rcases Deque.copy_spec d cp m hi with ⟨n1, _⟩ | ⟨_, n2, n3, _⟩
    · exact absurd n1 h
    · exact ⟨n2, n3⟩
  · intro h0
    rcases Deque.filter_spec d p m hi with ⟨e, _⟩ | ⟨_, n1, _⟩ | ⟨_, n1, _, _, n4⟩
    · exact absurd e h0
    · obtain ⟨_, k2, k3⟩ := Deque.filter_mem_ok d p m hi n1
      constructor
      · intro h; rw [n1] at h; exact absurd h (by decide)
      · rintro (h | h)
        · rw [h] at k2; exact absurd k2 (by decide)
        · rw [h] at k3; exact absurd k3 (by decide)
    · exact ⟨fun _ => n4, fun _ => n1⟩
  · intro h
    rcases Deque.filter_spec d p m hi with ⟨_, e, _⟩ | ⟨_, n1, _⟩ | ⟨_, _, n2, n3, _⟩
    · rw [e]; exact ⟨rfl, Deque.memSame_refl m⟩
    · exact absurd n1 h
    · exact ⟨n2, n3⟩

/-- **continue**: a refused call in the middle of a history leaves the deque physically as it was, so —
once the allocator succeeds again — the rest of the history produces exactly the outputs and contents of
the ideal list continued from the content *before* the failed call, i.e. it behaves as if the failed call
had never happened (`ops₁` is summarised by the arbitrary `Inv` state `d` it leads to) -/
theorem continue_after_refusal (d : Deque) (m : Mem) (op : Op) (ops : List Op) (hi : d.Inv)
    (href : (stepM d m op).1.st = some .errAlloc) (hs : (stepM d m op).2.2.sched = [])
    (hbound : d.size + ops.length ≤ Gen.MAX_POW_TWO) (hfree : d3Free d.abs ops) :
    (stepM d m op).2.1 = d ∧
    (runM d m (op :: ops)).1 = (stepM d m op).1 :: (runS d.abs ops).1 ∧
    (runM d m (op :: ops)).2.1.abs = (runS d.abs ops).2 ∧ (runM d m (op :: ops)).2.1.Inv := by
  have hsame := C16Deque.error_is_inert d m op hi .errAlloc href (by decide)
  obtain ⟨r1, r2, r3, _⟩ := history_refines ops (stepM d m op).2.1 (stepM d m op).2.2
    (by rw [hsame]; exact hi) hs (by rw [hsame]; exact hbound) (by rw [hsame]; exact hfree)
  have habs : (stepM d m op).2.1.abs = d.abs := by rw [hsame]
  rw [habs] at r1 r2
  simp only [runM]
  exact ⟨hsame, by rw [r1], r2, r3⟩

/-- the same without the failed call, for comparison: identical outputs and content -/
theorem without_the_refused_call (d : Deque) (m' : Mem) (ops : List Op) (hi : d.Inv) (hs : m'.sched = [])
    (hbound : d.size + ops.length ≤ Gen.MAX_POW_TWO) (hfree : d3Free d.abs ops) :
    (runM d m' ops).1 = (runS d.abs ops).1 ∧ (runM d m' ops).2.1.abs = (runS d.abs ops).2 := by
  obtain ⟨r1, r2, _, _⟩ := history_refines ops d m' hi hs hbound hfree
  exact ⟨r1, r2⟩

end CC.Properties.C08Deque
