import CollectionsC.Properties.C14Deque
import CollectionsC.Properties.C07Deque
import CollectionsC.Proofs.DequeZipSelf
/-! # C08 (deque part) — a refused allocation is atomic

"A refusal fired" is `(m.allocT d.triple).1 = false` for the allocator call the operation makes through the
deque's triple (`refusal_fired_iff` ties it to the ledger's refusal counter; only the configured triple can
refuse); builders make two calls.  Besides a refusal the deque has one more, documented, cause for
`CC_ERR_ALLOC`: a full deque at the capacity limit `MAX_POW_TWO` (the C code maps `CC_ERR_MAX_CAPACITY` of
`expand_capacity` to `CC_ERR_ALLOC`); the `iff` statements name both.  Everything is for every layout
satisfying `Deque.Inv`, every index (finding D3's range of `add_at` included: atomicity does not depend on
where the element would have gone) and **every** refusal schedule, any number of failures. -/
namespace CC.Properties.C08Deque
open CC CC.Properties.C05

/-- the allocator reports a refusal exactly when the call went to the configured triple and the ledger's
refusal counter moves -/
theorem refusal_fired_iff (t : Triple) (m : Mem) :
    (m.allocT t).1 = false ↔ t = .conf ∧ (m.allocT t).2.nrefused = m.nrefused + 1 := by
  cases t
  · simp only [Mem.allocT_conf, true_and]
    unfold Mem.alloc
    cases m.sched with
    | nil => simp
    | cons b r => cases b <;> simp
  · simp [Mem.allocT]

/-- **refused_iff**: each allocating operation reports `CC_ERR_ALLOC` exactly when it has to grow (the
deque is full; `trim`: the capacity has to change) and the allocator refuses — or the capacity limit is
reached; otherwise its status is `CC_OK` (or `CC_ERR_OUT_OF_RANGE` for an index outside `[0, size)`) -/
theorem refused_iff (d : Deque) (m : Mem) (x i : Nat) (hi : d.Inv) :
    ((d.addLast x m).1 = .errAlloc ↔ d.size = d.cap ∧ (d.cap = Gen.MAX_POW_TWO ∨ (m.allocT d.triple).1 = false)) ∧
    ((d.addFirst x m).1 = .errAlloc ↔ d.size = d.cap ∧ (d.cap = Gen.MAX_POW_TWO ∨ (m.allocT d.triple).1 = false)) ∧
    ((d.addAt x i m).1 = .errAlloc ↔
      i < d.size ∧ d.size = d.cap ∧ (d.cap = Gen.MAX_POW_TWO ∨ (m.allocT d.triple).1 = false)) ∧
    ((d.trimCapacity m).1 = .errAlloc ↔
      d.cap ≠ d.size ∧ Deque.upperPow2 d.size ≠ d.cap ∧ (m.allocT d.triple).1 = false) :=
  Deque.errAlloc_iff d m x i hi

/-- the same at the level of histories: which calls of a history are blocked (`C05.flags`) is determined
call by call by `refused_iff` -/
theorem history_blocked_iff (d : Deque) (m : Mem) (op : Op) (hi : d.Inv) :
    blocked d m op = true ↔ needsAlloc d op ∧ (refusalFires d m op ∨ limitHit d op) :=
  blocked_iff d m op hi

/-- **atomic**: whenever one of the allocating operations reports an error, the deque is *physically*
unchanged, both ledger balances are as they were (nothing leaked, nothing freed twice), nothing faulted and
the other triple was not touched — every layout, every index -/
theorem atomic (d : Deque) (m : Mem) (x i : Nat) (hi : d.Inv) :
    ((d.addFirst x m).1 ≠ .ok → (d.addFirst x m).2.1 = d ∧ Deque.memSame d.triple (d.addFirst x m).2.2 m) ∧
    ((d.addLast x m).1 ≠ .ok → (d.addLast x m).2.1 = d ∧ Deque.memSame d.triple (d.addLast x m).2.2 m) ∧
    ((d.addAt x i m).1 ≠ .ok → (d.addAt x i m).2.1 = d ∧ Deque.memSame d.triple (d.addAt x i m).2.2 m) ∧
    ((d.trimCapacity m).1 ≠ .ok → (d.trimCapacity m).2.1 = d ∧ Deque.memSame d.triple (d.trimCapacity m).2.2 m) :=
  refused_atomic d m x i hi

/-- iterator insertion: deque **and cursor** unchanged; zip insertion: both *contents* and the cursor
unchanged (the first deque may already have been given a larger buffer when growing the second is
refused — D11 — which is not observable) -/
theorem iterators_atomic (it : Deque.Iter) (d d2 : Deque) (x y : Nat) (m : Mem) (hi : d.Inv) (h2 : d2.Inv) :
    ((Deque.iterAdd it d x m).1 ≠ .ok → (Deque.iterAdd it d x m).2.2.1 = d ∧ (Deque.iterAdd it d x m).2.1 = it ∧
      Deque.memSame d.triple (Deque.iterAdd it d x m).2.2.2 m) ∧
    ((Deque.zipAdd it d d2 x y m).1 ≠ .ok → (Deque.zipAdd it d d2 x y m).2.2.1.abs = d.abs ∧
      (Deque.zipAdd it d d2 x y m).2.2.2.1.abs = d2.abs ∧ (Deque.zipAdd it d d2 x y m).2.1 = it ∧
      (Deque.zipAdd it d d2 x y m).2.2.1.Inv ∧ (Deque.zipAdd it d d2 x y m).2.2.2.1.Inv ∧
      Deque.memSame2 d.triple d2.triple (Deque.zipAdd it d d2 x y m).2.2.2.2 m) := by
  obtain ⟨_, a2, a3, _⟩ := Deque.iterAdd_safe it d x m hi
  obtain ⟨z1, z2, z3, z4, _⟩ := Deque.zipAdd_safe it d d2 x y m hi h2
  exact ⟨fun h => ⟨(a3 h).1, (a3 h).2, a2⟩, fun h => ⟨(z4 h).1, (z4 h).2.1, (z4 h).2.2, z1, z2, z3⟩⟩

/-- constructor and builders (`copy_shallow`, `copy_deep`, `filter`): `CC_ERR_ALLOC` exactly when one of
their two allocator calls is refused; then no object is produced, the source is untouched (it is not an
output), the header allocated first has been released again (balanced ledger) and nothing faulted -/
theorem builders_atomic (d : Deque) (confCap : Nat) (t : Triple) (cp : Option (Nat → Nat)) (p : Nat → Bool) (m : Mem)
    (hi : d.Inv) :
    (((Deque.new confCap t m).1 = .errAlloc ↔ ((m.allocT t).1 = false ∨ ((m.allocT t).2.allocT t).1 = false)) ∧
      ((Deque.new confCap t m).1 ≠ .ok → (Deque.new confCap t m).2.1 = none ∧ Deque.memSame t (Deque.new confCap t m).2.2 m)) ∧
    (((d.copy cp m).1 = .errAlloc ↔
        ((m.allocT d.triple).1 = false ∨ ((m.allocT d.triple).2.allocT d.triple).1 = false)) ∧
      ((d.copy cp m).1 ≠ .ok → (d.copy cp m).2.1 = none ∧ Deque.memSame d.triple (d.copy cp m).2.2 m)) ∧
    ((d.size ≠ 0 → ((d.filter p m).1 = .errAlloc ↔
        ((m.allocT d.triple).1 = false ∨ ((m.allocT d.triple).2.allocT d.triple).1 = false))) ∧
      ((d.filter p m).1 ≠ .ok → (d.filter p m).2.1 = none ∧ Deque.memSame d.triple (d.filter p m).2.2 m)) := by
  refine ⟨⟨?_, ?_⟩, ⟨?_, ?_⟩, ⟨?_, ?_⟩⟩
  · rcases Deque.new_spec confCap t m with ⟨n1, _, _, _, _, _, _, _, n8, n9⟩ | ⟨n1, _, _, n4⟩
    · constructor
      · intro h; rw [n1] at h; exact absurd h (by decide)
      · rintro (h | h)
        · rw [h] at n8; exact absurd n8 (by decide)
        · rw [h] at n9; exact absurd n9 (by decide)
    · exact ⟨fun _ => n4, fun _ => n1⟩
  · intro h
    rcases Deque.new_spec confCap t m with ⟨n1, _⟩ | ⟨_, n2, n3, _⟩
    · exact absurd n1 h
    · exact ⟨n2, n3⟩
  · rcases Deque.copy_spec d cp m hi with ⟨n1, _⟩ | ⟨n1, _, _, n4⟩
    · obtain ⟨k2, k3⟩ := Deque.copy_alloc_ok d cp m n1
      constructor
      · intro h; rw [n1] at h; exact absurd h (by decide)
      · rintro (h | h)
        · rw [h] at k2; exact absurd k2 (by decide)
        · rw [h] at k3; exact absurd k3 (by decide)
    · exact ⟨fun _ => n4, fun _ => n1⟩
  · intro h
    rcases Deque.copy_spec d cp m hi with ⟨n1, _⟩ | ⟨_, n2, n3, _⟩
    · exact absurd n1 h
    · exact ⟨n2, n3⟩
  · intro h0
    rcases Deque.filter_spec d p m hi with ⟨e, _⟩ | ⟨_, n1, _⟩ | ⟨_, n1, _, _, n4⟩
    · exact absurd e h0
    · obtain ⟨k2, k3⟩ := Deque.filter_alloc_ok d p m hi n1
      constructor
      · intro h; rw [n1] at h; exact absurd h (by decide)
      · rintro (h | h)
        · rw [h] at k2; exact absurd k2 (by decide)
        · rw [h] at k3; exact absurd k3 (by decide)
    · exact ⟨fun _ => n4, fun _ => n1⟩
  · intro h
    rcases Deque.filter_spec d p m hi with ⟨_, e, _⟩ | ⟨_, n1, _⟩ | ⟨_, _, n2, n3, _⟩
    · rw [e]; exact ⟨rfl, Deque.memSame_refl _ m⟩
    · exact absurd n1 h
    · exact ⟨n2, n3⟩

/-- **continue, every remaining schedule**: a blocked call in the middle of a history leaves the deque
physically as it was; the rest of the history — under *whatever* refusal schedule remains, further
failures included — produces exactly the outputs and the final physical state it would have produced had
the blocked call never been made, on any ledger `m'` with that same remaining schedule (`ops₁` is
summarised by the arbitrary `Inv` state `d` it leads to).  No D3 exclusion: this is a statement about the
code's behaviour, not about the ideal list. -/
theorem continue_after_refusal (d : Deque) (m m' : Mem) (op : Op) (ops : List Op) (hi : d.Inv)
    (href : blocked d m op = true) (hs : (stepM d m op).2.2.sched = m'.sched) :
    (stepM d m op).2.1 = d ∧
    (runM d m (op :: ops)).1 = (stepM d m op).1 :: (runM d m' ops).1 ∧
    (runM d m (op :: ops)).2.1 = (runM d m' ops).2.1 := by
  obtain ⟨_, b2, _⟩ := blocked_inert d m op hi href
  obtain ⟨r1, r2⟩ := C14Deque.history_allocator_independent ops d (stepM d m op).2.2 m' hs
  simp only [runM]
  rw [b2]
  exact ⟨rfl, by rw [r1], r2⟩

/-- … and against the ideal list, for histories outside finding D3: the run after the blocked call refines
the ideal list continued from the content *before* the failed call, whatever else is refused later -/
theorem continue_refines_partial (d : Deque) (m : Mem) (op : Op) (ops : List Op) (hi : d.Inv)
    (href : blocked d m op = true)
    (hfree : d3FreeB d.abs (ops.zip (flags d (stepM d m op).2.2 ops))) :
    (runM d m (op :: ops)).1 = ⟨some .errAlloc, none, []⟩ :: (runB d.abs (ops.zip (flags d (stepM d m op).2.2 ops))).1 ∧
    (runM d m (op :: ops)).2.1.abs = (runB d.abs (ops.zip (flags d (stepM d m op).2.2 ops))).2 ∧
    (runM d m (op :: ops)).2.1.Inv := by
  obtain ⟨b1, b2, _⟩ := blocked_inert d m op hi href
  obtain ⟨r1, r2, r3, _⟩ := history_refines_sched_partial ops d (stepM d m op).2.2 hi hfree
  simp only [runM]
  rw [b2, b1]
  exact ⟨by rw [r1], r2, r3⟩

/-- **the same deque as both sides of a zip iterator: all or nothing (repair D13; partial on finding D3).**
`zip_iter_add` now checks the status of both `add_at` calls and takes the first element out again when the
second fails.  With `d1 == d2` the second insertion may have to grow by itself; whatever is refused — the
pre-test growth or that second growth — the call reports the error, the **content and the cursor are exactly
as before** (only the capacity may have grown), invariant and ledger are intact; otherwise both elements are
in place and the cursor has stepped on.  Hypotheses: both `add_at` calls are outside D3's front-half range. -/
theorem zip_alias_add_all_or_nothing (it : Deque.Iter) (d : Deque) (x y : Nat) (m : Mem) (hi : d.Inv)
    (hD3a : ¬ (1 ≤ it.index ∧ it.index + 1 ≤ d.size / 2))
    (hD3b : ¬ (1 ≤ it.index ∧ it.index + 1 ≤ (d.size + 1) / 2)) :
    (Deque.zipAddSelf it d x y m).2.2.1.Inv ∧ Deque.memSame d.triple (Deque.zipAddSelf it d x y m).2.2.2 m ∧
    (((Deque.zipAddSelf it d x y m).1 = .ok ∧ it.index < d.size ∧
        (Deque.zipAddSelf it d x y m).2.2.1.abs = (d.abs.insertIdx it.index x).insertIdx it.index y ∧
        (Deque.zipAddSelf it d x y m).2.1 = { it with index := it.index + 1 }) ∨
     ((Deque.zipAddSelf it d x y m).1 ≠ .ok ∧ (Deque.zipAddSelf it d x y m).2.2.1.abs = d.abs ∧
        (Deque.zipAddSelf it d x y m).2.1 = it ∧
        ((Deque.zipAddSelf it d x y m).1 = .errOutOfRange ↔ d.size ≤ it.index))) :=
  Deque.zipAddSelf_refines_partial it d x y m hi hD3a hD3b

/-- regression witness (`corpus/deque/regress_D13_zip_alias_add_refused.ops`): one free slot, the growth the
second insertion needs is refused ⇒ `CC_ERR_ALLOC`, content unchanged; without refusal both are inserted -/
theorem zip_alias_add_refusal_is_atomic :
    (Deque.zipAddSelf { index := 2 } (Deque.mk 3 4 0 3 [11, 12, 13, 0] .conf) 7 8 { sched := [true], live := 2 }).1 = .errAlloc ∧
    (Deque.zipAddSelf { index := 2 } (Deque.mk 3 4 0 3 [11, 12, 13, 0] .conf) 7 8 { sched := [true], live := 2 }).2.2.1.abs
      = [11, 12, 13] ∧
    (Deque.zipAddSelf { index := 2 } (Deque.mk 3 4 0 3 [11, 12, 13, 0] .conf) 7 8 { live := 2 }).2.2.1.abs
      = [11, 12, 8, 7, 13] :=
  Deque.zipAddSelf_refusal_is_atomic

/-- non-vacuity: an exactly full, wrapped deque; the first growth is refused (blocked, unchanged), the
second succeeds -/
example : blocked (Deque.mk 2 2 1 1 [12, 11] .conf) { sched := [true], live := 2 } (.addLast 5) = true ∧
    (runM (Deque.mk 2 2 1 1 [12, 11] .conf) { sched := [true], live := 2 } [.addLast 5, .addLast 6]).2.1.abs
      = [11, 12, 6] := by decide

end CC.Properties.C08Deque
