import CollectionsC.Properties.C01Sized
import CollectionsC.Proofs.ArraySized9
/-! # C20 (sized array part) — growth is geometric and the capacity invariants always hold

Statements only.  `Inv` is preserved by every call (`C01Sized.C01_sized`), so its conjuncts hold in
every reachable state. -/
namespace CC.Properties.C20Sized
open CC CC.Gen CC.ArraySized

/-- **size_le_capacity**, capacity ≥ 1, the buffer block holds at least `capacity` records, and its
size in bytes fits `size_t` -/
theorem size_le_capacity (a : ArraySized) (h : a.Inv) :
    a.size ≤ a.capacity ∧ 1 ≤ a.capacity ∧ a.capacity * a.dataLen ≤ a.buf.length ∧
    a.capacity * a.dataLen ≤ CC_MAX_ELEMENTS := ⟨h.2.2.1, h.2.1, h.2.2.2.1, h.2.2.2.2⟩

/-- … in every state reachable by a history -/
theorem history_capacity_invariants (a : ArraySized) (ops : List (Spec.SSeq.Op Elem)) (m : Mem) (h : a.Inv)
    (hw : ∀ op ∈ ops, OpWF a.dataLen op) :
    (a.run ops m).2.1.size ≤ (a.run ops m).2.1.capacity ∧ 1 ≤ (a.run ops m).2.1.capacity :=
  ⟨(run_refines ops a m h hw).2.2.1.2.2.1, (run_refines ops a m h hw).2.2.1.2.1⟩

/-- **growth_strict**: every successful growth step strictly increases the capacity (A7: also when
the float product made no progress) and keeps the content; an unsuccessful one changes nothing -/
theorem growth_strict (a : ArraySized) (m : Mem) (h : a.Inv) :
    ((a.expandCapacity m).1 = .ok → a.capacity < (a.expandCapacity m).2.1.capacity ∧
      (a.expandCapacity m).2.1.abs = a.abs) ∧
    ((a.expandCapacity m).1 ≠ .ok → (a.expandCapacity m).2.1 = a) := by
  rcases expandCapacity_spec a m h with ⟨h1, _, h3, _, _, _, h7, _⟩ | ⟨h1, h2, _⟩ | ⟨h1, h2, _⟩
  · exact ⟨fun _ => ⟨h7, h3⟩, fun hh => absurd h1 hh⟩
  · exact ⟨(fun hh => by rw [h1] at hh; cases hh), fun _ => h2⟩
  · exact ⟨(fun hh => by rw [h1] at hh; cases hh), fun _ => h2⟩

/-- `add` never shrinks the capacity -/
theorem add_capacity_monotone (a : ArraySized) (e : Buf Nat) (m : Mem) (h : a.Inv) (he : e.length = a.dataLen) :
    a.capacity ≤ (a.add e m).2.1.capacity := by
  rcases add_spec a e m h he with ⟨_, _, _, _, _, h6, _⟩ | ⟨_, h2, _⟩
  · exact h6
  · rw [h2]; exact Nat.le_refl _

/-- **trim_minimum**: a successful `trim_capacity` makes the capacity `max size 1` (A1: never 0),
never below the element count, content unchanged; a refused one changes nothing -/
theorem trim_minimum (a : ArraySized) (m : Mem) (h : a.Inv) :
    ((a.trimCapacity m).1 = .ok → (a.trimCapacity m).2.1.capacity = max a.size 1 ∧
      (a.trimCapacity m).2.1.size ≤ (a.trimCapacity m).2.1.capacity ∧ (a.trimCapacity m).2.1.abs = a.abs) ∧
    ((a.trimCapacity m).1 ≠ .ok → (a.trimCapacity m).2.1 = a) := by
  rcases trimCapacity_spec a m h with ⟨h1, h2, h3, h4, _⟩ | ⟨h1, h2, _⟩
  · exact ⟨fun _ => ⟨h4, h2.2.2.1, h3⟩, fun hh => absurd h1 hh⟩
  · exact ⟨(fun hh => by rw [h1] at hh; cases hh), fun _ => h2⟩

/-- **appends_realloc_log**: if the growth function at least doubles **every capacity below the final
size** (`1 ≤ c < size + n → 2c ≤ grow c`), appending any `n` records to an array holding `size` records —
under any refusal schedule — performs at most `log2 (size + n) + 1` successful allocator calls (counted
on the array's own triple), whatever the initial capacity ≥ 1.  The hypothesis speaks of the capacities
that occur only: no `size_t`-valued function doubles *every* `c`, and the shipped
`(size_t)((float) c * 2.0f)` doubles exactly as long as `c` is representable as `float` (`c ≤ 2^24`; see
the header of `C20Array.lean`) — for larger arrays use `appends_realloc_geometric` with `k = 2`. -/
theorem appends_realloc_log (a : ArraySized) (xs : List (Buf Nat)) (m : Mem) (h : a.Inv)
    (hx : ∀ x ∈ xs, x.length = a.dataLen) (hd : ∀ c, 1 ≤ c → c < a.size + xs.length → 2 * c ≤ a.grow c)
    (hl : a.size + xs.length ≤ CC_MAX_ELEMENTS / 2) :
    cnt (a.addAll xs m).2 a.triple - cnt m a.triple ≤ Nat.log2 (a.size + xs.length) + 1 :=
  addAll_realloc_log_below a xs m h hx hd hl

/-- the capacity process behind it: `k ≥ 1` re-allocations during `n` appends force
`2^(k-1) * capacity ≤ size + n - 1` (the potential of `CC.Growth.appends_spec`) -/
theorem appends_doubling (a : ArraySized) (xs : List (Buf Nat)) (m : Mem) (h : a.Inv)
    (hx : ∀ x ∈ xs, x.length = a.dataLen) (hd : ∀ c, 1 ≤ c → c < a.size + xs.length → 2 * c ≤ a.grow c)
    (hl : a.size + xs.length ≤ CC_MAX_ELEMENTS / 2) :
    (a.addAll xs m).1.Inv ∧
    (1 ≤ cnt (a.addAll xs m).2 a.triple - cnt m a.triple →
      2 ^ (cnt (a.addAll xs m).2 a.triple - cnt m a.triple - 1) * a.capacity ≤ a.size + xs.length - 1) :=
  ⟨(addAll_doubling_below xs a m h hx hd hl).1, (addAll_doubling_below xs a m h hx hd hl).2.2⟩

/-- **appends_realloc_geometric**: every expansion factor `≥ 1 + 1/k` — a growth function that
multiplies every capacity below the final size by at least that much (`c + c / k ≤ grow c`; `k = 2`
for the factor 1.5, `k = 4` for 1.25, `k = 10` for 1.1 *as real factors*; the shipped `float` product
loses up to `c / 2^24` above `c = 2^24`, so for huge arrays take the next `k`: the hypothesis is about
the function, the reading for a given float factor is an assumption), falling back to `capacity + 1` where the
product makes no progress — costs at most `2k · (log2 (size + n) + 2)` successful allocator calls on
`n` appends, for every refusal schedule and either allocator triple (below 2^63 records) -/
theorem appends_realloc_geometric (k : Nat) (hk : 1 ≤ k) (a : ArraySized) (xs : List (Buf Nat)) (m : Mem)
    (h : a.Inv) (hx : ∀ x ∈ xs, x.length = a.dataLen) (hl : a.size + xs.length ≤ CC_MAX_ELEMENTS / 2)
    (hd : ∀ c, c < a.size + xs.length → c + c / k ≤ a.grow c) :
    cnt (a.addAll xs m).2 a.triple - cnt m a.triple ≤ 2 * k * (Nat.log2 (a.size + xs.length) + 2) :=
  addAll_realloc_geometric k hk a xs m h hx hl hd

/-- the successive capacities are the iterates of `capStep grow` (the product, or `capacity + 1`),
one per successful allocation, each step taken at a capacity below `size + n` — for **every** growth
function and refusal schedule -/
theorem appends_capacity_chain (a : ArraySized) (xs : List (Buf Nat)) (m : Mem) (h : a.Inv)
    (hx : ∀ x ∈ xs, x.length = a.dataLen) (hl : a.size + xs.length ≤ CC_MAX_ELEMENTS / 2) :
    ∃ r, cnt (a.addAll xs m).2 a.triple = cnt m a.triple + r ∧
      (a.addAll xs m).1.capacity = capIter (capStep a.grow) r a.capacity ∧
      (∀ j, j < r → capIter (capStep a.grow) j a.capacity < a.size + xs.length) ∧
      (a.addAll xs m).1.size ≤ (a.addAll xs m).1.capacity := by
  obtain ⟨r, h1, h2, h3, h4⟩ := addAll_chain xs a m h hx hl
  exact ⟨r, h1, h2, h3, h4.2.2.1⟩

/-- no byte-count wrap: a growth whose buffer would exceed `CC_MAX_ELEMENTS` bytes is refused with
`CC_ERR_MAX_CAPACITY` before anything is allocated (A10) -/
theorem growth_no_byte_wrap (a : ArraySized) (m : Mem) (h : a.Inv) :
    a.capacity * a.dataLen < 2 ^ 64 ∧
    (CC_MAX_ELEMENTS / a.dataLen < a.nextCapacity → (a.expandCapacity m).1 = .errMaxCapacity) ∧
    ((a.expandCapacity m).1 = .errMaxCapacity → (a.expandCapacity m).2 = (a, m)) :=
  C01Sized.C20_sized_no_byte_wrap a m h

/-! Non-vacuity: the default factor 2 satisfies the doubling hypothesis, on a concrete state, and 5
appends from capacity 1 perform 3 allocations (`log2 (1 + 5) + 1 = 3`). -/
example : ∀ c, 1 ≤ c → c < 1000 → 2 * c ≤ (fun c => min (2 * c) (2 ^ 63)) c := by intro c _ h2; simp only; omega
example :
    let a : ArraySized := { dataLen := 1, size := 1, capacity := 1, grow := fun c => 2 * c, buf := [7] }
    a.Inv ∧ (a.addAll [[1], [2], [3], [4], [5]] { live := 2 }).2.nalloc = 3 ∧
    (a.addAll [[1], [2], [3], [4], [5]] { live := 2 }).1.capacity = 8 := by decide

/-! Non-vacuity of the geometric hypothesis: the factor 1.5 as `fun c => c + c / 2` (`k = 2`), also in
its C shape `c * 3 / 2`; the factor 1.1 (`k = 10`); the whole bundle on a concrete state, where five
appends from capacity 1 re-allocate four times (1 → 2 → 3 → 4 → 6; the first step is the `+ 1`
fallback, `1 + 1/2 = 1`), within the bound `2·2·(log2 6 + 2) = 16`. -/
example : ∀ c, c + c / 2 ≤ (fun c => c + c / 2) c := fun _ => Nat.le_refl _
example : ∀ c, c + c / 2 ≤ (fun c => c * 3 / 2) c := by intro c; simp only; omega
example : ∀ c, c + c / 10 ≤ (fun c => c * 11 / 10) c := by intro c; simp only; omega
example :
    let a : ArraySized := { dataLen := 1, size := 1, capacity := 1, grow := fun c => c + c / 2, buf := [7] }
    a.Inv ∧ a.size + 5 ≤ CC_MAX_ELEMENTS / 2 ∧ (∀ c, c < a.size + 5 → c + c / 2 ≤ a.grow c) ∧
    (a.addAll [[1], [2], [3], [4], [5]] { live := 2 }).2.nalloc = 4 ∧
    (a.addAll [[1], [2], [3], [4], [5]] { live := 2 }).1.capacity = 6 := by
  refine ⟨by decide, by decide, fun c _ => Nat.le_refl _, by decide, by decide⟩

end CC.Properties.C20Sized
