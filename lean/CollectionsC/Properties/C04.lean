import CollectionsC.Proofs.ListHistory
import CollectionsC.Proofs.ListAlloc
import CollectionsC.Proofs.ListContent
import CollectionsC.Proofs.ListTraverse
/-! # C04 — CC_List and CC_SList behave as ideal sequences, including bulk operations

Statements and closing proofs (helpers: `Proofs/Chain.lean`, `Proofs/DList*.lean`, `Proofs/SList*.lean`).

The concrete models `CC.DList` (`Model/LinkedList.lean`, mirrors `src/cc_list.c`) and `CC.SList`
(`Model/SList.lean`, mirrors `src/cc_slist.c`) work on the state `Chain`: the node sequence, the
`size`/`head`/`tail` bookkeeping the C code updates by hand and the allocator triple stored in the
header (pointers are node positions; the raw `next`/`prev` links are abstracted — their consistency
is checked on the real heap by the harness walkers, see the remark at `mirror_model`).
The abstract spec `CC.Spec.LSeq` is a pair of plain `List Nat` (destination, source) with the
statuses the API documents.

Quantifiers: every pair of states satisfying the invariant (all sizes including empty and single),
every element value (0 = NULL, duplicates), every index in `Nat`, every predicate and comparator,
every finite history over the 25 operations of `Spec.LSeq.Op` (insertions first/last/at,
add_all/add_all_at, splice/splice_at, removals by value/index/first/last/all, replace, reverse,
filter_mut, get_first/last/at, index_of, contains, contains_value, size, to_array, foreach, and the
exchange of the two lists' roles), every allocator state, every refusal schedule and every
assignment of the two allocator triples (configured / C library) to the two lists.

Documented preconditions:
* the node blocks of both lists are live in the ledger of their triple (`PairOk`, which construction
  through the API establishes);
* the pair models two **distinct** list objects (`add_all(l, l)` / `splice(l, l)` are outside the model);
* `splice`/`splice_at` move the nodes themselves, so a history uses them only between lists on the
  same allocator triple (`Compat`; across triples the destination later releases foreign blocks —
  recorded as a known finding, witness `corpus/list/defect_splice_two_triples.ops`).  `Compat` restricts only the
  **ledger** statements: statuses, out-values, contents and the invariant are proved for every history, splices across
  triples included, from any ledger (`dlist_history_content`, `slist_history_content`; no `PairOk`, no `Compat`). -/
namespace CC.Properties.C04
open CC CC.Chain
open CC.Spec
open CC.Spec.LSeq (Op Out Params)

/-! `PairOk s m` (`Proofs/ListHistory.lean`): both lists satisfy the representation invariant and, per
allocator triple `t`, the node blocks held through `t` are live: `owned s t ≤ m.liveT t`.

`StepRefines dbl P s op m r` — what one step `r` guarantees relative to the ideal step:
* `PairOk` is preserved; the lists keep their triples (`swapRoles` exchanges them);
* **atomicity**: status `CC_ERR_ALLOC` ⇒ nothing else is reported, both lists are *physically*
  unchanged and every `liveT` is what it was;
* **refinement**: otherwise status, out-value, out-sequence and both contents are those of
  `Spec.LSeq.step`;
* no checked access faults; the allocator of the *other* kind is not touched (`Mem.Frame`);
* **ledger balance**: per triple, `liveT` moves exactly with the number of nodes held through it;
* an allocator that never refuses never produces `CC_ERR_ALLOC`;
* `CC_ERR_ALLOC` is reported **iff** the allocator refused a request during the step. -/
open CC.ListHistory

/-- **One step of `cc_list.c` refines one step of the ideal pair of lists**, for every state
satisfying the invariant, every operation, every argument and every allocator state. -/
theorem dlist_step_refines (P : Params) (s : Chain × Chain) (op : Op) (m : Mem) (h : PairOk s m)
    (hc : SpliceOk s.1.triple s.2.triple op) : StepRefines true P s op m (DList.step P s op m) := by
  have hs : s = (ofList s.1.triple s.1.abs, ofList s.2.triple s.2.abs) := by rw [← h.1.eq, ← h.2.1.eq]
  obtain ⟨a', b', t1', t2', ok⟩ := DList.step_ok P s.1.triple s.2.triple s.1.abs s.2.abs m h.2.2 op hc
  rw [← hs] at ok
  exact stepRefines_of_stepOk h ok

/-- **One step of `cc_slist.c` refines one step of the ideal pair of lists.** -/
theorem slist_step_refines (P : Params) (s : Chain × Chain) (op : Op) (m : Mem) (h : PairOk s m)
    (hc : SpliceOk s.1.triple s.2.triple op) : StepRefines false P s op m (SList.step P s op m) := by
  have hs : s = (ofList s.1.triple s.1.abs, ofList s.2.triple s.2.abs) := by rw [← h.1.eq, ← h.2.1.eq]
  obtain ⟨a', b', t1', t2', ok⟩ := SList.step_ok P s.1.triple s.2.triple s.1.abs s.2.abs m h.2.2 op hc
  rw [← hs] at ok
  exact stepRefines_of_stepOk h ok

/-- **C04, all histories, any refusal schedule (doubly linked).** From any pair of states satisfying the
invariant, every history yields the outputs and final contents of the ideal lists on which exactly
the refused operations (status `CC_ERR_ALLOC`) did not happen; the invariant holds at the end and no
access faulted. -/
theorem dlist_history_refines_skipping (P : Params) (ops : List Op) (s : Chain × Chain) (m : Mem) (h : PairOk s m)
    (hc : Compat s ops) :
    (DList.run P s ops m).1 = (LSeq.runSkipping true P (s.1.abs, s.2.abs) ops ((DList.run P s ops m).1.map (·.st))).1 ∧
    ((DList.run P s ops m).2.1.1.abs, (DList.run P s ops m).2.1.2.abs) =
      (LSeq.runSkipping true P (s.1.abs, s.2.abs) ops ((DList.run P s ops m).1.map (·.st))).2 ∧
    PairOk (DList.run P s ops m).2.1 (DList.run P s ops m).2.2 ∧
    (DList.run P s ops m).2.2.fault = m.fault := by
  rw [dlist_run_eq]
  exact run_skipping (dlist_step_refines P) ops s m h hc

/-- **C04, all histories (doubly linked), allocator never refuses**: every status, out-value,
out-sequence and both final contents equal those of the ideal lists. -/
theorem dlist_history_refines (P : Params) (ops : List Op) (s : Chain × Chain) (m : Mem) (h : PairOk s m)
    (hc : Compat s ops) (hs : m.sched = []) :
    (DList.run P s ops m).1 = (LSeq.run true P (s.1.abs, s.2.abs) ops).1 ∧
    ((DList.run P s ops m).2.1.1.abs, (DList.run P s ops m).2.1.2.abs) = (LSeq.run true P (s.1.abs, s.2.abs) ops).2 ∧
    PairOk (DList.run P s ops m).2.1 (DList.run P s ops m).2.2 ∧
    (DList.run P s ops m).2.2.fault = m.fault ∧ (DList.run P s ops m).2.2.sched = [] := by
  rw [dlist_run_eq]
  exact run_exact (dlist_step_refines P) ops s m h hc hs

/-- **C04, all histories, any refusal schedule (singly linked).** -/
theorem slist_history_refines_skipping (P : Params) (ops : List Op) (s : Chain × Chain) (m : Mem) (h : PairOk s m)
    (hc : Compat s ops) :
    (SList.run P s ops m).1 = (LSeq.runSkipping false P (s.1.abs, s.2.abs) ops ((SList.run P s ops m).1.map (·.st))).1 ∧
    ((SList.run P s ops m).2.1.1.abs, (SList.run P s ops m).2.1.2.abs) =
      (LSeq.runSkipping false P (s.1.abs, s.2.abs) ops ((SList.run P s ops m).1.map (·.st))).2 ∧
    PairOk (SList.run P s ops m).2.1 (SList.run P s ops m).2.2 ∧
    (SList.run P s ops m).2.2.fault = m.fault := by
  rw [slist_run_eq]
  exact run_skipping (slist_step_refines P) ops s m h hc

/-- **C04, all histories (singly linked), allocator never refuses.** -/
theorem slist_history_refines (P : Params) (ops : List Op) (s : Chain × Chain) (m : Mem) (h : PairOk s m)
    (hc : Compat s ops) (hs : m.sched = []) :
    (SList.run P s ops m).1 = (LSeq.run false P (s.1.abs, s.2.abs) ops).1 ∧
    ((SList.run P s ops m).2.1.1.abs, (SList.run P s ops m).2.1.2.abs) = (LSeq.run false P (s.1.abs, s.2.abs) ops).2 ∧
    PairOk (SList.run P s ops m).2.1 (SList.run P s ops m).2.2 ∧
    (SList.run P s ops m).2.2.fault = m.fault ∧ (SList.run P s ops m).2.2.sched = [] := by
  rw [slist_run_eq]
  exact run_exact (slist_step_refines P) ops s m h hc hs

/-- **content part of one step, unconditionally**: for states satisfying the invariant — whatever the ledger holds and
whatever triples the two lists are on, `splice`/`splice_at` across triples included — the step keeps the invariant, a
refused step changes nothing, and otherwise status, out-value, out-sequence and both contents are those of the ideal step -/
theorem dlist_step_content (P : Params) (s : Chain × Chain) (op : Op) (m : Mem) (h1 : s.1.Inv) (h2 : s.2.Inv) :
    StepContent true P s op (DList.step P s op m) :=
  stepContent_of_refines (dlist_step_refines P)
    (fun s op m1 m2 i1 i2 hs => by
      have e : s = (ofList s.1.triple s.1.abs, ofList s.2.triple s.2.abs) := by rw [← i1.eq, ← i2.eq]
      rw [e]
      exact ⟨(DList.step_indep P _ _ _ _ op m1 m2 hs).1, (DList.step_indep P _ _ _ _ op m1 m2 hs).2.1⟩)
    (dlist_splice_content P) s op m h1 h2

theorem slist_step_content (P : Params) (s : Chain × Chain) (op : Op) (m : Mem) (h1 : s.1.Inv) (h2 : s.2.Inv) :
    StepContent false P s op (SList.step P s op m) :=
  stepContent_of_refines (slist_step_refines P)
    (fun s op m1 m2 i1 i2 hs => by
      have e : s = (ofList s.1.triple s.1.abs, ofList s.2.triple s.2.abs) := by rw [← i1.eq, ← i2.eq]
      rw [e]
      exact ⟨(SList.step_indep P _ _ _ _ op m1 m2 hs).1, (SList.step_indep P _ _ _ _ op m1 m2 hs).2.1⟩)
    (slist_splice_content P) s op m h1 h2

/-- **C04, all histories, content part without `Compat` and without ledger hypothesis**: every history — including
`splice`/`splice_at` between lists on different allocator triples — from any pair of states satisfying the invariant and
any ledger yields the outputs and final contents of the ideal lists on which exactly the refused operations did not
happen, and both lists satisfy the invariant at the end.  (Only the ledger/fault conjuncts of
`dlist_history_refines_skipping` need `PairOk` and `Compat`.) -/
theorem dlist_history_content (P : Params) (ops : List Op) (s : Chain × Chain) (m : Mem) (h1 : s.1.Inv) (h2 : s.2.Inv) :
    (DList.run P s ops m).1 = (LSeq.runSkipping true P (s.1.abs, s.2.abs) ops ((DList.run P s ops m).1.map (·.st))).1 ∧
    ((DList.run P s ops m).2.1.1.abs, (DList.run P s ops m).2.1.2.abs) =
      (LSeq.runSkipping true P (s.1.abs, s.2.abs) ops ((DList.run P s ops m).1.map (·.st))).2 ∧
    (DList.run P s ops m).2.1.1.Inv ∧ (DList.run P s ops m).2.1.2.Inv := by
  rw [dlist_run_eq]
  exact run_content (dlist_step_content P) ops s m h1 h2

theorem slist_history_content (P : Params) (ops : List Op) (s : Chain × Chain) (m : Mem) (h1 : s.1.Inv) (h2 : s.2.Inv) :
    (SList.run P s ops m).1 = (LSeq.runSkipping false P (s.1.abs, s.2.abs) ops ((SList.run P s ops m).1.map (·.st))).1 ∧
    ((SList.run P s ops m).2.1.1.abs, (SList.run P s ops m).2.1.2.abs) =
      (LSeq.runSkipping false P (s.1.abs, s.2.abs) ops ((SList.run P s ops m).1.map (·.st))).2 ∧
    (SList.run P s ops m).2.1.1.Inv ∧ (SList.run P s ops m).2.1.2.Inv := by
  rw [slist_run_eq]
  exact run_content (slist_step_content P) ops s m h1 h2

/-- per allocator triple the ledger moves, over a whole history, exactly with the node blocks held
through that triple (both lists, any refusal schedule) -/
theorem dlist_history_ledger (P : Params) (ops : List Op) (s : Chain × Chain) (m : Mem) (h : PairOk s m)
    (hc : Compat s ops) (t : Triple) :
    (DList.run P s ops m).2.2.liveT t + owned s t = m.liveT t + owned (DList.run P s ops m).2.1 t := by
  rw [dlist_run_eq]
  exact run_ledger (dlist_step_refines P) ops s m h hc t
theorem slist_history_ledger (P : Params) (ops : List Op) (s : Chain × Chain) (m : Mem) (h : PairOk s m)
    (hc : Compat s ops) (t : Triple) :
    (SList.run P s ops m).2.2.liveT t + owned s t = m.liveT t + owned (SList.run P s ops m).2.1 t := by
  rw [slist_run_eq]
  exact run_ledger (slist_step_refines P) ops s m h hc t

/-! ### from the constructors -/

/-- two freshly constructed lists (triples `t1`, `t2`) form a pair satisfying the hypotheses -/
theorem dlist_new_pairOk (t1 t2 : Triple) (m0 : Mem) (l0 l1 : Chain)
    (h0 : (DList.new t1 m0).2.1 = some l0) (h1 : (DList.new t2 (DList.new t1 m0).2.2).2.1 = some l1) :
    l0 = ofList t1 [] ∧ l1 = ofList t2 [] ∧ PairOk (l0, l1) (DList.new t2 (DList.new t1 m0).2.2).2.2 ∧
    (DList.new t2 (DList.new t1 m0).2.2).2.2.fault = m0.fault ∧
    (m0.sched = [] → (DList.new t2 (DList.new t1 m0).2.2).2.2.sched = []) := by
  simp only [DList.new_eq] at h0 h1 ⊢
  by_cases a1 : (m0.allocT t1).1 = true
  · simp only [a1, if_true] at h0 h1 ⊢
    by_cases a2 : ((m0.allocT t1).2.allocT t2).1 = true
    · simp only [a2, if_true, Option.some.injEq] at h0 h1 ⊢
      subst h0 h1
      have e1 := Mem.eff_alloc_true t1 m0 a1
      have e2 := Mem.eff_alloc_true t2 _ a2
      exact ⟨rfl, rfl, ⟨ofList_inv _, ofList_inv _, by intro t; simp only [owned, ownedBy, ofList_abs, ofList_triple, List.length_nil]; by_cases x1 : t1 = t <;> by_cases x2 : t2 = t <;> simp [x1, x2]⟩,
        by rw [e2.fault, e1.fault], fun hs => e2.sched (e1.sched hs)⟩
    · simp [a2] at h1
  · simp [a1] at h0

theorem slist_new_pairOk (t1 t2 : Triple) (m0 : Mem) (l0 l1 : Chain)
    (h0 : (SList.new t1 m0).2.1 = some l0) (h1 : (SList.new t2 (SList.new t1 m0).2.2).2.1 = some l1) :
    l0 = ofList t1 [] ∧ l1 = ofList t2 [] ∧ PairOk (l0, l1) (SList.new t2 (SList.new t1 m0).2.2).2.2 ∧
    (SList.new t2 (SList.new t1 m0).2.2).2.2.fault = m0.fault ∧
    (m0.sched = [] → (SList.new t2 (SList.new t1 m0).2.2).2.2.sched = []) := by
  simp only [SList.new_eq] at h0 h1 ⊢
  by_cases a1 : (m0.allocT t1).1 = true
  · simp only [a1, if_true] at h0 h1 ⊢
    by_cases a2 : ((m0.allocT t1).2.allocT t2).1 = true
    · simp only [a2, if_true, Option.some.injEq] at h0 h1 ⊢
      subst h0 h1
      have e1 := Mem.eff_alloc_true t1 m0 a1
      have e2 := Mem.eff_alloc_true t2 _ a2
      exact ⟨rfl, rfl, ⟨ofList_inv _, ofList_inv _, by intro t; simp only [owned, ownedBy, ofList_abs, ofList_triple, List.length_nil]; by_cases x1 : t1 = t <;> by_cases x2 : t2 = t <;> simp [x1, x2]⟩,
        by rw [e2.fault, e1.fault], fun hs => e2.sched (e1.sched hs)⟩
    · simp [a2] at h1
  · simp [a1] at h0

/-- **C04 from the constructors, any refusal schedule.** Two lists built by `cc_list_new` /
`cc_list_new_conf` (any assignment of triples) are empty and satisfy the invariant; every history on
them behaves like the history on two empty ideal lists on which the refused operations did not
happen, keeps the invariant and the ledger bound, and raises no fault. -/
theorem dlist_new_history_refines_skipping (P : Params) (t1 t2 : Triple) (ops : List Op) (m0 : Mem) (l0 l1 : Chain)
    (h0 : (DList.new t1 m0).2.1 = some l0) (h1 : (DList.new t2 (DList.new t1 m0).2.2).2.1 = some l1)
    (hc : t1 = t2 ∨ ∀ op, op ∈ ops → isSplice op = false) :
    (DList.run P (l0, l1) ops (DList.new t2 (DList.new t1 m0).2.2).2.2).1 =
      (LSeq.runSkipping true P ([], []) ops ((DList.run P (l0, l1) ops (DList.new t2 (DList.new t1 m0).2.2).2.2).1.map (·.st))).1 ∧
    ((DList.run P (l0, l1) ops (DList.new t2 (DList.new t1 m0).2.2).2.2).2.1.1.abs,
     (DList.run P (l0, l1) ops (DList.new t2 (DList.new t1 m0).2.2).2.2).2.1.2.abs) =
      (LSeq.runSkipping true P ([], []) ops ((DList.run P (l0, l1) ops (DList.new t2 (DList.new t1 m0).2.2).2.2).1.map (·.st))).2 ∧
    PairOk (DList.run P (l0, l1) ops (DList.new t2 (DList.new t1 m0).2.2).2.2).2.1
      (DList.run P (l0, l1) ops (DList.new t2 (DList.new t1 m0).2.2).2.2).2.2 ∧
    (DList.run P (l0, l1) ops (DList.new t2 (DList.new t1 m0).2.2).2.2).2.2.fault = m0.fault := by
  obtain ⟨e0, e1, hp, hf, _⟩ := dlist_new_pairOk t1 t2 m0 l0 l1 h0 h1
  have hcc : Compat (l0, l1) ops := by subst e0 e1; exact hc
  have := dlist_history_refines_skipping P ops (l0, l1) _ hp hcc
  have ea : ((l0, l1).1.abs, (l0, l1).2.abs) = (([] : List Nat), ([] : List Nat)) := by subst e0 e1; rfl
  rw [ea] at this
  exact ⟨this.1, this.2.1, this.2.2.1, by rw [this.2.2.2, hf]⟩

/-- … and with an allocator that never refuses both constructors succeed and the history is exactly
the ideal one -/
theorem dlist_new_history_refines (P : Params) (t1 t2 : Triple) (ops : List Op) (m0 : Mem) (hs : m0.sched = [])
    (hc : t1 = t2 ∨ ∀ op, op ∈ ops → isSplice op = false) :
    ∃ l0 l1 m2, (DList.new t1 m0).2.1 = some l0 ∧ (DList.new t2 (DList.new t1 m0).2.2).2.1 = some l1 ∧
      m2 = (DList.new t2 (DList.new t1 m0).2.2).2.2 ∧
      (DList.run P (l0, l1) ops m2).1 = (LSeq.run true P ([], []) ops).1 ∧
      ((DList.run P (l0, l1) ops m2).2.1.1.abs, (DList.run P (l0, l1) ops m2).2.1.2.abs) = (LSeq.run true P ([], []) ops).2 ∧
      PairOk (DList.run P (l0, l1) ops m2).2.1 (DList.run P (l0, l1) ops m2).2.2 ∧
      (DList.run P (l0, l1) ops m2).2.2.fault = m0.fault := by
  have a1 := Mem.allocT_nil m0 t1 hs
  have a2 := Mem.allocT_nil (m0.allocT t1).2 t2 a1.2
  have h0 : (DList.new t1 m0).2.1 = some (ofList t1 []) := by simp [DList.new_eq, a1.1]
  have h1 : (DList.new t2 (DList.new t1 m0).2.2).2.1 = some (ofList t2 []) := by simp [DList.new_eq, a1.1, a2.1]
  obtain ⟨_, _, hp, hf, hsch⟩ := dlist_new_pairOk t1 t2 m0 _ _ h0 h1
  have := dlist_history_refines P ops (ofList t1 [], ofList t2 []) _ hp hc (hsch hs)
  exact ⟨_, _, _, h0, h1, rfl, this.1, this.2.1, this.2.2.1, by rw [this.2.2.2.1, hf]⟩

/-- the same for `cc_slist_new` / `cc_slist_new_conf` -/
theorem slist_new_history_refines_skipping (P : Params) (t1 t2 : Triple) (ops : List Op) (m0 : Mem) (l0 l1 : Chain)
    (h0 : (SList.new t1 m0).2.1 = some l0) (h1 : (SList.new t2 (SList.new t1 m0).2.2).2.1 = some l1)
    (hc : t1 = t2 ∨ ∀ op, op ∈ ops → isSplice op = false) :
    (SList.run P (l0, l1) ops (SList.new t2 (SList.new t1 m0).2.2).2.2).1 =
      (LSeq.runSkipping false P ([], []) ops ((SList.run P (l0, l1) ops (SList.new t2 (SList.new t1 m0).2.2).2.2).1.map (·.st))).1 ∧
    ((SList.run P (l0, l1) ops (SList.new t2 (SList.new t1 m0).2.2).2.2).2.1.1.abs,
     (SList.run P (l0, l1) ops (SList.new t2 (SList.new t1 m0).2.2).2.2).2.1.2.abs) =
      (LSeq.runSkipping false P ([], []) ops ((SList.run P (l0, l1) ops (SList.new t2 (SList.new t1 m0).2.2).2.2).1.map (·.st))).2 ∧
    PairOk (SList.run P (l0, l1) ops (SList.new t2 (SList.new t1 m0).2.2).2.2).2.1
      (SList.run P (l0, l1) ops (SList.new t2 (SList.new t1 m0).2.2).2.2).2.2 ∧
    (SList.run P (l0, l1) ops (SList.new t2 (SList.new t1 m0).2.2).2.2).2.2.fault = m0.fault := by
  obtain ⟨e0, e1, hp, hf, _⟩ := slist_new_pairOk t1 t2 m0 l0 l1 h0 h1
  have hcc : Compat (l0, l1) ops := by subst e0 e1; exact hc
  have := slist_history_refines_skipping P ops (l0, l1) _ hp hcc
  have ea : ((l0, l1).1.abs, (l0, l1).2.abs) = (([] : List Nat), ([] : List Nat)) := by subst e0 e1; rfl
  rw [ea] at this
  exact ⟨this.1, this.2.1, this.2.2.1, by rw [this.2.2.2, hf]⟩

theorem slist_new_history_refines (P : Params) (t1 t2 : Triple) (ops : List Op) (m0 : Mem) (hs : m0.sched = [])
    (hc : t1 = t2 ∨ ∀ op, op ∈ ops → isSplice op = false) :
    ∃ l0 l1 m2, (SList.new t1 m0).2.1 = some l0 ∧ (SList.new t2 (SList.new t1 m0).2.2).2.1 = some l1 ∧
      m2 = (SList.new t2 (SList.new t1 m0).2.2).2.2 ∧
      (SList.run P (l0, l1) ops m2).1 = (LSeq.run false P ([], []) ops).1 ∧
      ((SList.run P (l0, l1) ops m2).2.1.1.abs, (SList.run P (l0, l1) ops m2).2.1.2.abs) = (LSeq.run false P ([], []) ops).2 ∧
      PairOk (SList.run P (l0, l1) ops m2).2.1 (SList.run P (l0, l1) ops m2).2.2 ∧
      (SList.run P (l0, l1) ops m2).2.2.fault = m0.fault := by
  have a1 := Mem.allocT_nil m0 t1 hs
  have a2 := Mem.allocT_nil (m0.allocT t1).2 t2 a1.2
  have h0 : (SList.new t1 m0).2.1 = some (ofList t1 []) := by simp [SList.new_eq, a1.1]
  have h1 : (SList.new t2 (SList.new t1 m0).2.2).2.1 = some (ofList t2 []) := by simp [SList.new_eq, a1.1, a2.1]
  obtain ⟨_, _, hp, hf, hsch⟩ := slist_new_pairOk t1 t2 m0 _ _ h0 h1
  have := slist_history_refines P ops (ofList t1 [], ofList t2 []) _ hp hc (hsch hs)
  exact ⟨_, _, _, h0, h1, rfl, this.1, this.2.1, this.2.2.1, by rw [this.2.2.2.1, hf]⟩

/-! ## What the invariant says about the observable content -/

/-- **Backward traversal is the mirror of the forward one — at the level of the model** (doubly
linked list): `backward` (from the stored `tail` towards the front) is the reverse of `forward` (from
the stored `head`); both are the content, and `size` is its length.  The content of this statement is
that the hand-maintained `head`/`tail`/`size` stay right.  The raw `prev`/`next` links are *not* state
of the model (`_model` in the name): that the `prev` links mirror the `next` links on the heap is
checked by the harness walker on every run, not proved here. -/
theorem mirror_model (l : Chain) (h : l.Inv) :
    l.backward = l.forward.reverse ∧ l.forward = l.abs ∧ l.size = l.abs.length := by
  rw [h.eq]; simp

/-- after every history both traversals of both lists are mirrors (model level, see `mirror_model`) -/
theorem dlist_history_mirror_model (P : Params) (ops : List Op) (s : Chain × Chain) (m : Mem) (h : PairOk s m)
    (hc : Compat s ops) :
    (DList.run P s ops m).2.1.1.backward = (DList.run P s ops m).2.1.1.forward.reverse ∧
    (DList.run P s ops m).2.1.2.backward = (DList.run P s ops m).2.1.2.forward.reverse := by
  have := (dlist_history_refines_skipping P ops s m h hc).2.2.1
  exact ⟨(mirror_model _ this.1).1, (mirror_model _ this.2.1).1⟩

/-- **the mirror clause in terms of the C observers**: on a list satisfying the invariant, `size`
calls of `cc_list_diter_next` from a fresh descending iterator yield, element by element, the reverse
of what `size` calls of `cc_list_iter_next` from a fresh ascending iterator yield; both are all `CC_OK`
and the next call of either reports `CC_ITER_END` -/
theorem traversals_mirror (l : Chain) (h : l.Inv) (m : Mem) :
    (DList.diterNexts l l.size (DList.diterInit l) m).1 = (DList.iterNexts l l.size (DList.iterInit l) m).1.reverse ∧
    (DList.iterNexts l l.size (DList.iterInit l) m).1 = l.abs.map (fun v => (Stat.ok, some v)) ∧
    (DList.iterNext l (DList.iterNexts l l.size (DList.iterInit l) m).2.1 m).1 = .iterEnd ∧
    (DList.diterNext l (DList.diterNexts l l.size (DList.diterInit l) m).2.1 m).1 = .iterEnd := by
  rw [h.eq]
  generalize l.abs = xs
  generalize l.triple = t
  have a := DList.iterNexts_refines (t := t) xs xs.length LSeq.itNew _ m (DList.iterInit_rel (t := t) xs)
  have b := DList.diterNexts_refines (t := t) xs xs.length (LSeq.ditNew xs) _ m (DList.diterInit_rel (t := t) xs)
  have sa := LSeqT.nexts_spec xs xs.length LSeq.itNew (by simp [LSeq.itNew])
  have sb := LSeqT.dnexts_spec xs xs.length (LSeq.ditNew xs) (by simp [LSeq.ditNew]) (by simp [LSeq.ditNew])
  obtain ⟨ia, ea, ra⟩ := DList.iterNext_ofList (t := t) xs _ _ m a.2.1
  obtain ⟨ib, eb, rb⟩ := DList.diterNext_ofList (t := t) xs _ _ m b.2.1
  simp only [ofList_size]
  refine ⟨?_, ?_, ?_, ?_⟩
  · rw [a.1, b.1, sa.1, sb.1]; simp only [LSeq.itNew, LSeq.ditNew, List.drop_zero, List.take_length, ← List.map_reverse]
    rw [List.take_of_length_le (by simp)]
  · rw [a.1, sa.1]; simp [LSeq.itNew]
  · rw [ea]; exact (LSeqT.next_end_iff xs _ a.2.1.le).2 (by rw [sa.2]; simp [LSeq.itNew])
  · rw [eb]; exact (LSeqT.dnext_end_iff xs _ b.2.1.le).2 (by rw [sb.2]; simp [LSeq.ditNew])

/-- … hence after **every history** (any refusal schedule) the backward traversal of either list by the
descending iterator is the exact mirror of its forward traversal by the ascending iterator -/
theorem dlist_history_traversals_mirror (P : Params) (ops : List Op) (s : Chain × Chain) (m : Mem) (h : PairOk s m)
    (hc : Compat s ops) (m' : Mem) :
    (DList.diterNexts (DList.run P s ops m).2.1.1 (DList.run P s ops m).2.1.1.size (DList.diterInit (DList.run P s ops m).2.1.1) m').1 =
      (DList.iterNexts (DList.run P s ops m).2.1.1 (DList.run P s ops m).2.1.1.size (DList.iterInit (DList.run P s ops m).2.1.1) m').1.reverse ∧
    (DList.diterNexts (DList.run P s ops m).2.1.2 (DList.run P s ops m).2.1.2.size (DList.diterInit (DList.run P s ops m).2.1.2) m').1 =
      (DList.iterNexts (DList.run P s ops m).2.1.2 (DList.run P s ops m).2.1.2.size (DList.iterInit (DList.run P s ops m).2.1.2) m').1.reverse := by
  have := (dlist_history_refines_skipping P ops s m h hc).2.2.1
  exact ⟨(traversals_mirror _ this.1 m').1, (traversals_mirror _ this.2.1 m').1⟩

/-! ## The property in its own vocabulary (facts about the ideal lists) -/

/-- `add_all` / `add_all_at` leave the source untouched -/
theorem spec_add_all_source_untouched (dbl : Bool) (P : Params) (s : List Nat × List Nat) (i : Nat) :
    (LSeq.step dbl P s .addAll).2.2 = s.2 ∧ (LSeq.step dbl P s (.addAllAt i)).2.2 = s.2 := by
  refine ⟨rfl, ?_⟩
  simp only [LSeq.step, LSeq.addAllAt]
  by_cases h1 : s.2 = []
  · simp [h1]
  · by_cases h2 : (if dbl then i ≤ s.1.length else i < s.1.length) <;> simp [h1, h2]

/-- a successful `splice` / `splice_at` empties the source and moves exactly its elements, in
order, to the requested position -/
theorem spec_splice_moves (dbl : Bool) (P : Params) (a b : List Nat) (i : Nat)
    (hi : if dbl then i ≤ a.length else i < a.length) :
    LSeq.step dbl P (a, b) .splice = ({ st := some .ok }, (a ++ b, [])) ∧
    LSeq.step dbl P (a, b) (.spliceAt i) = ({ st := some .ok }, (a.take i ++ b ++ a.drop i, [])) := by
  refine ⟨rfl, ?_⟩
  simp only [LSeq.step, LSeq.spliceAt]
  by_cases hb : b = []
  · subst hb; simp
  · simp [hb, hi]

/-- `add_all_at` copies the source's elements, in order, to the requested position -/
theorem spec_add_all_at (dbl : Bool) (P : Params) (a b : List Nat) (i : Nat)
    (hi : if dbl then i ≤ a.length else i < a.length) :
    LSeq.step dbl P (a, b) (.addAllAt i) = ({ st := some .ok }, (a.take i ++ b ++ a.drop i, b)) := by
  simp only [LSeq.step, LSeq.addAllAt]
  by_cases hb : b = []
  · subst hb; simp
  · simp [hb, hi]

/-- C16 for the lists: an operation of a history that reports an error status leaves both ideal
lists unchanged -/
theorem spec_error_inert (dbl : Bool) (P : Params) (s : List Nat × List Nat) (op : Op) (e : Stat)
    (h : (LSeq.step dbl P s op).1.st = some e) (he : e ≠ .ok) : (LSeq.step dbl P s op).2 = s := by
  cases op with
  | addFirst x => simp [LSeq.step] at h; exact absurd h.symm he
  | addLast x => simp [LSeq.step] at h; exact absurd h.symm he
  | addAt x i =>
    simp only [LSeq.step, LSeq.addAt] at h ⊢
    by_cases hi : i < s.1.length <;> simp [hi] at h ⊢
    all_goals (first | (exact absurd h.symm he) | (cases s; simp_all))
  | addAll => simp [LSeq.step, LSeq.addAll] at h; exact absurd h.symm he
  | addAllAt i =>
    simp only [LSeq.step, LSeq.addAllAt] at h ⊢
    by_cases h1 : s.2 = []
    · simp [h1] at h ⊢; exact absurd h.symm he
    · by_cases h2 : (if dbl then i ≤ s.1.length else i < s.1.length) <;> simp [h1, h2] at h ⊢
      all_goals (first | (exact absurd h.symm he) | (cases s; simp_all))
  | splice => simp [LSeq.step, LSeq.splice] at h; exact absurd h.symm he
  | spliceAt i =>
    simp only [LSeq.step, LSeq.spliceAt] at h ⊢
    by_cases h1 : s.2 = []
    · simp [h1] at h ⊢; exact absurd h.symm he
    · by_cases h2 : (if dbl then i ≤ s.1.length else i < s.1.length) <;> simp [h1, h2] at h ⊢
      all_goals (first | (exact absurd h.symm he) | (cases s; simp_all))
  | remove x =>
    simp only [LSeq.step, LSeq.remove] at h ⊢
    by_cases hx : x ∈ s.1 <;> simp [hx] at h ⊢
    all_goals (first | (exact absurd h.symm he) | (cases s; simp_all))
  | removeAt i =>
    simp only [LSeq.step, LSeq.removeAt] at h ⊢
    by_cases hi : i < s.1.length <;> simp [hi] at h ⊢
    all_goals (first | (exact absurd h.symm he) | (cases s; simp_all))
  | removeFirst =>
    simp only [LSeq.step] at h ⊢
    cases hs : s.1 with
    | nil => simp [LSeq.removeFirst, hs]; rw [← hs]
    | cons y ys => simp [LSeq.removeFirst, hs] at h; exact absurd h.symm he
  | removeLast =>
    simp only [LSeq.step, LSeq.removeLast] at h ⊢
    by_cases hx : s.1 = [] <;> simp [hx] at h ⊢
    all_goals (first | (exact absurd h.symm he) | (cases s; simp_all))
  | removeAll =>
    simp only [LSeq.step, LSeq.removeAll] at h ⊢
    by_cases hx : s.1 = [] <;> simp [hx] at h ⊢
    all_goals (first | (exact absurd h.symm he) | (cases s; simp_all))
  | replaceAt x i =>
    simp only [LSeq.step, LSeq.replaceAt] at h ⊢
    by_cases hi : i < s.1.length <;> simp [hi] at h ⊢
    all_goals (first | (exact absurd h.symm he) | (cases s; simp_all))
  | reverse => simp [LSeq.step] at h
  | filterMut =>
    simp only [LSeq.step, LSeq.filterMut] at h ⊢
    by_cases hx : s.1 = [] <;> simp [hx] at h ⊢
    all_goals (first | (exact absurd h.symm he) | (cases s; simp_all))
  | swapRoles => simp [LSeq.step] at h
  | _ => rfl

/-- C16, documented ranges: an index outside `[0, size)` (outside `[0, size]` for the doubly linked
list's `add_all_at`/`splice_at` with a non-empty source) is rejected with `CC_ERR_OUT_OF_RANGE`, for
every index value -/
theorem spec_index_rejected (dbl : Bool) (P : Params) (a b : List Nat) (x i : Nat) (hi : a.length ≤ i) :
    (LSeq.step dbl P (a, b) (.addAt x i)).1.st = some .errOutOfRange ∧
    (LSeq.step dbl P (a, b) (.removeAt i)).1.st = some .errOutOfRange ∧
    (LSeq.step dbl P (a, b) (.replaceAt x i)).1.st = some .errOutOfRange ∧
    (LSeq.step dbl P (a, b) (.getAt i)).1.st = some .errOutOfRange ∧
    (b ≠ [] → (a.length < i ∨ dbl = false) →
      (LSeq.step dbl P (a, b) (.addAllAt i)).1.st = some .errOutOfRange ∧
      (LSeq.step dbl P (a, b) (.spliceAt i)).1.st = some .errOutOfRange) := by
  have h : ¬ i < a.length := by omega
  refine ⟨by simp [LSeq.step, LSeq.addAt, h], by simp [LSeq.step, LSeq.removeAt, h],
    by simp [LSeq.step, LSeq.replaceAt, h], by simp [LSeq.step, LSeq.getAt, h], ?_⟩
  intro hb hr
  have hc : ¬ (if dbl = true then i ≤ a.length else i < a.length) := by
    rcases hr with hr | hr
    · cases dbl <;> simp <;> omega
    · subst hr; simpa using hi
  simp [LSeq.step, LSeq.addAllAt, LSeq.spliceAt, hb, hc]

/-- **C16 on the concrete models**: a step that reports an error status other than `CC_ERR_ALLOC`
leaves both lists physically unchanged (nodes, `size`, `head`, `tail`, triple) and the ledger balanced
(`Properties/C16List.lean` sharpens the last part to "the whole allocator state is unchanged") -/
theorem step_error_inert {dbl : Bool} {P : Params} {s : Chain × Chain} {op : Op} {m : Mem}
    {r : Out × (Chain × Chain) × Mem} (h : PairOk s m) (hr : StepRefines dbl P s op m r) (e : Stat)
    (hst : r.1.st = some e) (he : e ≠ .ok) (hea : e ≠ .errAlloc) : r.2.1 = s ∧ ∀ t, r.2.2.liveT t = m.liveT t := by
  obtain ⟨h1, htr, _, h3, _, _, h6, _, _⟩ := hr
  have hne : r.1.st ≠ some .errAlloc := by rw [hst]; intro c; exact hea (Option.some.inj c)
  have e3 := h3 hne
  have hsp : (LSeq.step dbl P (s.1.abs, s.2.abs) op).1.st = some e := by rw [← e3]; exact hst
  have hin := spec_error_inert dbl P (s.1.abs, s.2.abs) op e hsp he
  rw [← e3] at hin
  have ha : r.2.1.1.abs = s.1.abs := congrArg Prod.fst hin
  have hb : r.2.1.2.abs = s.2.abs := congrArg Prod.snd hin
  have hsw : op ≠ .swapRoles := by intro c; subst c; simp [LSeq.step] at hsp
  obtain ⟨t1, t2⟩ := htr.2.1 hsw
  refine ⟨?_, fun t => ?_⟩
  · apply Prod.ext
    · rw [h1.1.eq, h.1.eq, ha, t1]
    · rw [h1.2.1.eq, h.2.1.eq, hb, t2]
  · have := h6 t; simp only [owned, ha, hb, t1, t2] at this; omega

/-! ## Destruction (C06 part for the lists) -/

/-- `cc_list_destroy` / `cc_list_destroy_cb` from any state satisfying the invariant release every
node block and the header exactly once **through the list's own allocator triple** (no fault: nothing
is released twice, nothing through a foreign allocator), and the callback variant hands every held
element to the callback exactly once, in list order -/
theorem dlist_destroy_ledger (l : Chain) (h : l.Inv) (m : Mem) (hl : l.abs.length + 1 ≤ m.liveT l.triple) :
    (DList.destroy l m).liveT l.triple + (l.abs.length + 1) = m.liveT l.triple ∧ (DList.destroy l m).fault = m.fault ∧
    Mem.Frame l.triple m (DList.destroy l m) ∧
    DList.destroyCb l m = (l.abs, DList.destroy l m) := by
  rw [h.eq, DList.destroy_ofList, DList.destroyCb_ofList]
  simp only [ofList_abs, ofList_triple]
  have := Mem.freeN_live l.triple (l.abs.length + 1) m hl
  exact ⟨by omega, this.2.1, this.2.2, trivial⟩

/-- the same for `cc_slist_destroy` / `cc_slist_destroy_cb` -/
theorem slist_destroy_ledger (l : Chain) (h : l.Inv) (m : Mem) (hl : l.abs.length + 1 ≤ m.liveT l.triple) :
    (SList.destroy l m).liveT l.triple + (l.abs.length + 1) = m.liveT l.triple ∧ (SList.destroy l m).fault = m.fault ∧
    Mem.Frame l.triple m (SList.destroy l m) ∧
    SList.destroyCb l m = (l.abs, SList.destroy l m) := by
  rw [h.eq, SList.destroy_ofList, SList.destroyCb_ofList]
  simp only [ofList_abs, ofList_triple]
  have := Mem.freeN_live l.triple (l.abs.length + 1) m hl
  exact ⟨by omega, this.2.1, this.2.2, trivial⟩

/-! ## Non-vacuity: two non-trivial states on **different** allocator triples satisfy the hypotheses, and a
history with a bulk insertion in the middle and a rejected index (same-triple variant: also a splice)
runs as the ideal lists say -/
example : PairOk (ofList .conf [3, 1, 4], ofList .libc [1, 5]) { live := 4, liveLibc := 3 } := by
  refine ⟨ofList_inv _, ofList_inv _, ?_⟩; intro t; cases t <;> decide

example : Compat (ofList .conf [3, 1, 4], ofList .libc [1, 5]) [.addAllAt 1, .removeAt 9, .swapRoles, .reverse, .filterMut] := by
  right; intro op h; simp at h; rcases h with h | h | h | h | h <;> subst h <;> rfl

example :
    ((DList.run ⟨fun v => v % 2 == 0, LSeq.cmpNum⟩ (ofList .conf [3, 1, 4], ofList .conf [1, 5])
        [.addAllAt 1, .removeAt 9, .swapRoles, .splice, .reverse, .filterMut] { live := 7 }).2.1.1.abs,
     (DList.run ⟨fun v => v % 2 == 0, LSeq.cmpNum⟩ (ofList .conf [3, 1, 4], ofList .conf [1, 5])
        [.addAllAt 1, .removeAt 9, .swapRoles, .splice, .reverse, .filterMut] { live := 7 }).2.1.2.abs) = ([4], []) := by
  decide

/-- a mixed pair: `add_all_at` into the configured list from the C-library list takes the three new
node blocks from the configured allocator only -/
example :
    ((DList.run ⟨fun v => v % 2 == 0, LSeq.cmpNum⟩ (ofList .conf [3, 1, 4], ofList .libc [1, 5])
        [.addAllAt 1] { live := 4, liveLibc := 3 }).2.2.live,
     (DList.run ⟨fun v => v % 2 == 0, LSeq.cmpNum⟩ (ofList .conf [3, 1, 4], ofList .libc [1, 5])
        [.addAllAt 1] { live := 4, liveLibc := 3 }).2.2.liveLibc) = (6, 3) := by
  decide

/-- a splice **across triples** (outside `Compat`): contents and outputs are still those of the ideal lists
(`dlist_history_content`); what goes wrong is the ledger — the C-library list releases a block of the configured allocator -/
example :
    ((DList.run ⟨fun v => v % 2 == 0, LSeq.cmpNum⟩ (ofList .libc [1], ofList .conf [7, 8])
        [.spliceAt 0, .removeFirst, .addLast 9] { live := 2, liveLibc := 1 }).2.1.1.abs,
     (DList.run ⟨fun v => v % 2 == 0, LSeq.cmpNum⟩ (ofList .libc [1], ofList .conf [7, 8])
        [.spliceAt 0, .removeFirst, .addLast 9] { live := 2, liveLibc := 1 }).1.map (·.val),
     (DList.run ⟨fun v => v % 2 == 0, LSeq.cmpNum⟩ (ofList .libc [1], ofList .conf [7, 8])
        [.spliceAt 0, .removeFirst, .addLast 9] { live := 2, liveLibc := 1 }).2.2.live) = ([8, 1, 9], [none, some 7, none], 2) := by
  decide

end CC.Properties.C04
