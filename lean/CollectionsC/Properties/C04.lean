import CollectionsC.Proofs.ListHistory
/-! # C04 — CC_List and CC_SList behave as ideal sequences, including bulk operations

Statements and closing proofs (helpers: `Proofs/Chain.lean`, `Proofs/DList*.lean`, `Proofs/SList*.lean`).

The concrete models `CC.DList` (`Model/LinkedList.lean`, mirrors `src/cc_list.c`) and `CC.SList`
(`Model/SList.lean`, mirrors `src/cc_slist.c`) work on the state `Chain`: the node sequence plus the
`size`/`head`/`tail` bookkeeping the C code updates by hand (pointers are node positions, `next`/`prev`
links are abstracted — their consistency is checked on the real heap by the harness walkers).
The abstract spec `CC.Spec.LSeq` is a pair of plain `List Nat` (destination, source) with the
statuses the API documents.

Quantifiers: every pair of states satisfying the invariant (all sizes including empty and single),
every element value (0 = NULL, duplicates), every index in `Nat`, every predicate and comparator,
every finite history over the 25 operations of `Spec.LSeq.Op` (insertions first/last/at,
add_all/add_all_at, splice/splice_at, removals by value/index/first/last/all, replace, reverse,
filter_mut, get_first/last/at, index_of, contains, contains_value, size, to_array, foreach, and the
exchange of the two lists' roles), every allocator state and every refusal schedule.
Documented precondition: the node blocks of both lists are live in the ledger
(`nodes ≤ m.live`, which construction through the API establishes). -/
namespace CC.Properties.C04
open CC CC.Chain
open CC.Spec
open CC.Spec.LSeq (Op Out Params)

/-! `PairOk s m` (`Proofs/ListHistory.lean`): both lists satisfy the representation invariant and their
node blocks are live, `s.1.Inv ∧ s.2.Inv ∧ nodes ≤ m.live`.

`StepRefines dbl P s op m r` — what one step `r` guarantees relative to the ideal step:
* `PairOk` is preserved;
* **atomicity**: status `CC_ERR_ALLOC` ⇒ nothing else is reported, both lists are *physically*
  unchanged and `live` is what it was;
* **refinement**: otherwise status, out-value, out-sequence and both contents are those of
  `Spec.LSeq.step`;
* no checked access faults, the C library allocator is not used;
* **ledger balance**: `live` moves exactly with the number of nodes;
* an allocator that never refuses never produces `CC_ERR_ALLOC`. -/
open CC.ListHistory

theorem stepRefines_of_stepOk {dbl : Bool} {P : Params} {s : Chain × Chain} {op : Op} {m : Mem}
    {r : Out × (Chain × Chain) × Mem} {a' b' : List Nat} (h : PairOk s m)
    (hs : s = (ofList s.1.abs, ofList s.2.abs))
    (ok : StepOk dbl P s.1.abs s.2.abs op m r a' b') : StepRefines dbl P s op m r := by
  have hst := ok.state
  have e1 : r.2.1.1.abs = a' := by rw [hst]; rfl
  have e2 : r.2.1.2.abs = b' := by rw [hst]; rfl
  refine ⟨⟨?_, ?_, ?_⟩, ?_, ?_, ok.fault, ok.libc, by rw [e1, e2]; exact ok.ledger, ok.nosched⟩
  · rw [hst]; exact ofList_inv _
  · rw [hst]; exact ofList_inv _
  · rw [e1, e2]; have := ok.ledger; have := h.2.2; omega
  · intro he
    obtain ⟨ha, hb, ho⟩ := ok.atomic he
    refine ⟨ho, ?_, ?_⟩
    · rw [hst, ha, hb]; exact hs.symm
    · have := ok.ledger; rw [ha, hb] at this; omega
  · intro he; rw [e1, e2]; exact ok.refines he

/-- **One step of `cc_list.c` refines one step of the ideal pair of lists**, for every state
satisfying the invariant, every operation, every argument and every allocator state. -/
theorem dlist_step_refines (P : Params) (s : Chain × Chain) (op : Op) (m : Mem) (h : PairOk s m) :
    StepRefines true P s op m (DList.step P s op m) := by
  have hs : s = (ofList s.1.abs, ofList s.2.abs) := by
    rw [← h.1.eq, ← h.2.1.eq]
  obtain ⟨a', b', ok⟩ := DList.step_ok P s.1.abs s.2.abs m h.2.2 op
  rw [← hs] at ok
  exact stepRefines_of_stepOk h hs ok

/-- **One step of `cc_slist.c` refines one step of the ideal pair of lists.** -/
theorem slist_step_refines (P : Params) (s : Chain × Chain) (op : Op) (m : Mem) (h : PairOk s m) :
    StepRefines false P s op m (SList.step P s op m) := by
  have hs : s = (ofList s.1.abs, ofList s.2.abs) := by
    rw [← h.1.eq, ← h.2.1.eq]
  obtain ⟨a', b', ok⟩ := SList.step_ok P s.1.abs s.2.abs m h.2.2 op
  rw [← hs] at ok
  exact stepRefines_of_stepOk h hs ok

/-- **C04, all histories, any refusal schedule (doubly linked).** From any pair of states satisfying the
invariant, every history yields the outputs and final contents of the ideal lists on which exactly
the refused operations (status `CC_ERR_ALLOC`) did not happen; the invariant holds at the end, no
access faulted, the C library allocator was not used. -/
theorem dlist_history_refines_skipping (P : Params) (ops : List Op) (s : Chain × Chain) (m : Mem) (h : PairOk s m) :
    (DList.run P s ops m).1 = (LSeq.runSkipping true P (s.1.abs, s.2.abs) ops ((DList.run P s ops m).1.map (·.st))).1 ∧
    ((DList.run P s ops m).2.1.1.abs, (DList.run P s ops m).2.1.2.abs) =
      (LSeq.runSkipping true P (s.1.abs, s.2.abs) ops ((DList.run P s ops m).1.map (·.st))).2 ∧
    PairOk (DList.run P s ops m).2.1 (DList.run P s ops m).2.2 ∧
    (DList.run P s ops m).2.2.fault = m.fault ∧ (DList.run P s ops m).2.2.libc = m.libc := by
  rw [dlist_run_eq]
  exact run_skipping (dlist_step_refines P) ops s m h

/-- **C04, all histories (doubly linked), allocator never refuses**: every status, out-value,
out-sequence and both final contents equal those of the ideal lists. -/
theorem dlist_history_refines (P : Params) (ops : List Op) (s : Chain × Chain) (m : Mem) (h : PairOk s m)
    (hs : m.sched = []) :
    (DList.run P s ops m).1 = (LSeq.run true P (s.1.abs, s.2.abs) ops).1 ∧
    ((DList.run P s ops m).2.1.1.abs, (DList.run P s ops m).2.1.2.abs) = (LSeq.run true P (s.1.abs, s.2.abs) ops).2 ∧
    PairOk (DList.run P s ops m).2.1 (DList.run P s ops m).2.2 ∧
    (DList.run P s ops m).2.2.fault = m.fault ∧ (DList.run P s ops m).2.2.libc = m.libc ∧
    (DList.run P s ops m).2.2.sched = [] := by
  rw [dlist_run_eq]
  exact run_exact (dlist_step_refines P) ops s m h hs

/-- **C04, all histories, any refusal schedule (singly linked).** -/
theorem slist_history_refines_skipping (P : Params) (ops : List Op) (s : Chain × Chain) (m : Mem) (h : PairOk s m) :
    (SList.run P s ops m).1 = (LSeq.runSkipping false P (s.1.abs, s.2.abs) ops ((SList.run P s ops m).1.map (·.st))).1 ∧
    ((SList.run P s ops m).2.1.1.abs, (SList.run P s ops m).2.1.2.abs) =
      (LSeq.runSkipping false P (s.1.abs, s.2.abs) ops ((SList.run P s ops m).1.map (·.st))).2 ∧
    PairOk (SList.run P s ops m).2.1 (SList.run P s ops m).2.2 ∧
    (SList.run P s ops m).2.2.fault = m.fault ∧ (SList.run P s ops m).2.2.libc = m.libc := by
  rw [slist_run_eq]
  exact run_skipping (slist_step_refines P) ops s m h

/-- **C04, all histories (singly linked), allocator never refuses.** -/
theorem slist_history_refines (P : Params) (ops : List Op) (s : Chain × Chain) (m : Mem) (h : PairOk s m)
    (hs : m.sched = []) :
    (SList.run P s ops m).1 = (LSeq.run false P (s.1.abs, s.2.abs) ops).1 ∧
    ((SList.run P s ops m).2.1.1.abs, (SList.run P s ops m).2.1.2.abs) = (LSeq.run false P (s.1.abs, s.2.abs) ops).2 ∧
    PairOk (SList.run P s ops m).2.1 (SList.run P s ops m).2.2 ∧
    (SList.run P s ops m).2.2.fault = m.fault ∧ (SList.run P s ops m).2.2.libc = m.libc ∧
    (SList.run P s ops m).2.2.sched = [] := by
  rw [slist_run_eq]
  exact run_exact (slist_step_refines P) ops s m h hs

/-- **C04 from the constructors.** Two lists built by `cc_list_new_conf` are empty, satisfy the
invariant, own one header block each; hence every history on them behaves like a history on two
empty ideal lists. -/
theorem dlist_new_history_refines (P : Params) (ops : List Op) (m0 : Mem) (hs : m0.sched = []) :
    ∃ l0 l1 m2, (DList.new m0).2.1 = some l0 ∧ (DList.new (DList.new m0).2.2).2.1 = some l1 ∧
      m2 = (DList.new (DList.new m0).2.2).2.2 ∧ m2.live = m0.live + 2 ∧
      (DList.run P (l0, l1) ops m2).1 = (LSeq.run true P ([], []) ops).1 ∧
      ((DList.run P (l0, l1) ops m2).2.1.1.abs, (DList.run P (l0, l1) ops m2).2.1.2.abs) = (LSeq.run true P ([], []) ops).2 := by
  have a1 := Mem.alloc_nil m0 hs
  have a2 := Mem.alloc_nil m0.alloc.2 a1.2
  have e1 := Mem.alloc_fst_true m0 a1.1
  have e2 := Mem.alloc_fst_true m0.alloc.2 a2.1
  refine ⟨ofList [], ofList [], m0.alloc.2.alloc.2, ?_, ?_, ?_, by omega, ?_⟩
  · simp [DList.new_eq, a1.1]
  · simp [DList.new_eq, a1.1, a2.1]
  · simp [DList.new_eq, a1.1, a2.1]
  · have := dlist_history_refines P ops (ofList [], ofList []) m0.alloc.2.alloc.2
      ⟨ofList_inv _, ofList_inv _, by simp⟩ a2.2
    exact ⟨this.1, this.2.1⟩

/-- the same for `cc_slist_new_conf` -/
theorem slist_new_history_refines (P : Params) (ops : List Op) (m0 : Mem) (hs : m0.sched = []) :
    ∃ l0 l1 m2, (SList.new m0).2.1 = some l0 ∧ (SList.new (SList.new m0).2.2).2.1 = some l1 ∧
      m2 = (SList.new (SList.new m0).2.2).2.2 ∧ m2.live = m0.live + 2 ∧
      (SList.run P (l0, l1) ops m2).1 = (LSeq.run false P ([], []) ops).1 ∧
      ((SList.run P (l0, l1) ops m2).2.1.1.abs, (SList.run P (l0, l1) ops m2).2.1.2.abs) = (LSeq.run false P ([], []) ops).2 := by
  have a1 := Mem.alloc_nil m0 hs
  have a2 := Mem.alloc_nil m0.alloc.2 a1.2
  have e1 := Mem.alloc_fst_true m0 a1.1
  have e2 := Mem.alloc_fst_true m0.alloc.2 a2.1
  refine ⟨ofList [], ofList [], m0.alloc.2.alloc.2, ?_, ?_, ?_, by omega, ?_⟩
  · simp [SList.new_eq, a1.1]
  · simp [SList.new_eq, a1.1, a2.1]
  · simp [SList.new_eq, a1.1, a2.1]
  · have := slist_history_refines P ops (ofList [], ofList []) m0.alloc.2.alloc.2
      ⟨ofList_inv _, ofList_inv _, by simp⟩ a2.2
    exact ⟨this.1, this.2.1⟩

/-! ## What the invariant says about the observable content -/

/-- **Backward traversal is the exact mirror of the forward one** (doubly linked list): walking
`prev` from the stored `tail` yields the reverse of walking `next` from the stored `head`; both are
the content, and `size` is its length.  The content of this statement is that the hand-maintained
`head`/`tail`/`size` stay right; that the `prev` links mirror the `next` links on the heap is checked
by the harness walker on every run. -/
theorem mirror (l : Chain) (h : l.Inv) :
    l.backward = l.forward.reverse ∧ l.forward = l.abs ∧ l.size = l.abs.length := by
  rw [h.eq]; simp

/-- after every history both traversals of both lists are mirrors (corollary of the history theorem) -/
theorem dlist_history_mirror (P : Params) (ops : List Op) (s : Chain × Chain) (m : Mem) (h : PairOk s m) :
    (DList.run P s ops m).2.1.1.backward = (DList.run P s ops m).2.1.1.forward.reverse ∧
    (DList.run P s ops m).2.1.2.backward = (DList.run P s ops m).2.1.2.forward.reverse := by
  have := (dlist_history_refines_skipping P ops s m h).2.2.1
  exact ⟨(mirror _ this.1).1, (mirror _ this.2.1).1⟩

/-! ## The property in its own vocabulary (facts about the ideal lists) -/

/-- `add_all` / `add_all_at` leave the source untouched -/
theorem spec_add_all_source_untouched (dbl : Bool) (P : Params) (s : List Nat × List Nat) (i : Nat) :
    (LSeq.step dbl P s .addAll).2.2 = s.2 ∧ (LSeq.step dbl P s (.addAllAt i)).2.2 = s.2 := by
  refine ⟨rfl, ?_⟩
  simp only [LSeq.step, LSeq.addAllAt]
  by_cases h1 : s.2 = []
  · simp [h1]
  · by_cases h2 : (if dbl then i ≤ s.1.length else i < s.1.length) <;> simp [h1, h2]

/-- a successful `splice` / `splice_at` empties the source and moves exactly its elements, in
order, to the requested position -/
theorem spec_splice_moves (dbl : Bool) (P : Params) (a b : List Nat) (i : Nat)
    (hi : if dbl then i ≤ a.length else i < a.length) :
    LSeq.step dbl P (a, b) .splice = ({ st := some .ok }, (a ++ b, [])) ∧
    LSeq.step dbl P (a, b) (.spliceAt i) = ({ st := some .ok }, (a.take i ++ b ++ a.drop i, [])) := by
  refine ⟨rfl, ?_⟩
  simp only [LSeq.step, LSeq.spliceAt]
  by_cases hb : b = []
  · subst hb; simp
  · simp [hb, hi]

/-- `add_all_at` copies the source's elements, in order, to the requested position -/
theorem spec_add_all_at (dbl : Bool) (P : Params) (a b : List Nat) (i : Nat)
    (hi : if dbl then i ≤ a.length else i < a.length) :
    LSeq.step dbl P (a, b) (.addAllAt i) = ({ st := some .ok }, (a.take i ++ b ++ a.drop i, b)) := by
  simp only [LSeq.step, LSeq.addAllAt]
  by_cases hb : b = []
  · subst hb; simp
  · simp [hb, hi]

/-- C16 for the lists: an operation of a history that reports an error status leaves both ideal
lists unchanged -/
theorem spec_error_inert (dbl : Bool) (P : Params) (s : List Nat × List Nat) (op : Op) (e : Stat)
    (h : (LSeq.step dbl P s op).1.st = some e) (he : e ≠ .ok) : (LSeq.step dbl P s op).2 = s := by
  cases op with
  | addFirst x => simp [LSeq.step] at h; exact absurd h.symm he
  | addLast x => simp [LSeq.step] at h; exact absurd h.symm he
  | addAt x i =>
    simp only [LSeq.step, LSeq.addAt] at h ⊢
    by_cases hi : i < s.1.length <;> simp [hi] at h ⊢
    all_goals (first | (exact absurd h.symm he) | (cases s; simp_all))
  | addAll => simp [LSeq.step, LSeq.addAll] at h; exact absurd h.symm he
  | addAllAt i =>
    simp only [LSeq.step, LSeq.addAllAt] at h ⊢
    by_cases h1 : s.2 = []
    · simp [h1] at h ⊢; exact absurd h.symm he
    · by_cases h2 : (if dbl then i ≤ s.1.length else i < s.1.length) <;> simp [h1, h2] at h ⊢
      all_goals (first | (exact absurd h.symm he) | (cases s; simp_all))
  | splice => simp [LSeq.step, LSeq.splice] at h; exact absurd h.symm he
  | spliceAt i =>
    simp only [LSeq.step, LSeq.spliceAt] at h ⊢
    by_cases h1 : s.2 = []
    · simp [h1] at h ⊢; exact absurd h.symm he
    · by_cases h2 : (if dbl then i ≤ s.1.length else i < s.1.length) <;> simp [h1, h2] at h ⊢
      all_goals (first | (exact absurd h.symm he) | (cases s; simp_all))
  | remove x =>
    simp only [LSeq.step, LSeq.remove] at h ⊢
    by_cases hx : x ∈ s.1 <;> simp [hx] at h ⊢
    all_goals (first | (exact absurd h.symm he) | (cases s; simp_all))
  | removeAt i =>
    simp only [LSeq.step, LSeq.removeAt] at h ⊢
    by_cases hi : i < s.1.length <;> simp [hi] at h ⊢
    all_goals (first | (exact absurd h.symm he) | (cases s; simp_all))
  | removeFirst =>
    simp only [LSeq.step] at h ⊢
    cases hs : s.1 with
    | nil => simp [LSeq.removeFirst, hs]; rw [← hs]
    | cons y ys => simp [LSeq.removeFirst, hs] at h; exact absurd h.symm he
  | removeLast =>
    simp only [LSeq.step, LSeq.removeLast] at h ⊢
    by_cases hx : s.1 = [] <;> simp [hx] at h ⊢
    all_goals (first | (exact absurd h.symm he) | (cases s; simp_all))
  | removeAll =>
    simp only [LSeq.step, LSeq.removeAll] at h ⊢
    by_cases hx : s.1 = [] <;> simp [hx] at h ⊢
    all_goals (first | (exact absurd h.symm he) | (cases s; simp_all))
  | replaceAt x i =>
    simp only [LSeq.step, LSeq.replaceAt] at h ⊢
    by_cases hi : i < s.1.length <;> simp [hi] at h ⊢
    all_goals (first | (exact absurd h.symm he) | (cases s; simp_all))
  | reverse => simp [LSeq.step] at h
  | filterMut =>
    simp only [LSeq.step, LSeq.filterMut] at h ⊢
    by_cases hx : s.1 = [] <;> simp [hx] at h ⊢
    all_goals (first | (exact absurd h.symm he) | (cases s; simp_all))
  | swapRoles => simp [LSeq.step] at h
  | _ => rfl

/-- C16, documented ranges: an index outside `[0, size)` (outside `[0, size]` for the doubly linked
list's `add_all_at`/`splice_at` with a non-empty source) is rejected with `CC_ERR_OUT_OF_RANGE`, for
every index value -/
theorem spec_index_rejected (dbl : Bool) (P : Params) (a b : List Nat) (x i : Nat) (hi : a.length ≤ i) :
    (LSeq.step dbl P (a, b) (.addAt x i)).1.st = some .errOutOfRange ∧
    (LSeq.step dbl P (a, b) (.removeAt i)).1.st = some .errOutOfRange ∧
    (LSeq.step dbl P (a, b) (.replaceAt x i)).1.st = some .errOutOfRange ∧
    (LSeq.step dbl P (a, b) (.getAt i)).1.st = some .errOutOfRange ∧
    (b ≠ [] → (a.length < i ∨ dbl = false) →
      (LSeq.step dbl P (a, b) (.addAllAt i)).1.st = some .errOutOfRange ∧
      (LSeq.step dbl P (a, b) (.spliceAt i)).1.st = some .errOutOfRange) := by
  have h : ¬ i < a.length := by omega
  refine ⟨by simp [LSeq.step, LSeq.addAt, h], by simp [LSeq.step, LSeq.removeAt, h],
    by simp [LSeq.step, LSeq.replaceAt, h], by simp [LSeq.step, LSeq.getAt, h], ?_⟩
  intro hb hr
  have hc : ¬ (if dbl = true then i ≤ a.length else i < a.length) := by
    rcases hr with hr | hr
    · cases dbl <;> simp <;> omega
    · subst hr; simpa using hi
  simp [LSeq.step, LSeq.addAllAt, LSeq.spliceAt, hb, hc]

/-- **C16 on the concrete models**: a step that reports an error status other than `CC_ERR_ALLOC`
leaves both lists physically unchanged (nodes, `size`, `head`, `tail`) and the ledger balanced -/
theorem step_error_inert {dbl : Bool} {P : Params} {s : Chain × Chain} {op : Op} {m : Mem}
    {r : Out × (Chain × Chain) × Mem} (h : PairOk s m) (hr : StepRefines dbl P s op m r) (e : Stat)
    (hst : r.1.st = some e) (he : e ≠ .ok) (hea : e ≠ .errAlloc) : r.2.1 = s ∧ r.2.2.live = m.live := by
  obtain ⟨h1, _, h3, _, _, h6, _⟩ := hr
  have hne : r.1.st ≠ some .errAlloc := by rw [hst]; intro c; exact hea (Option.some.inj c)
  have e3 := h3 hne
  have hsp : (LSeq.step dbl P (s.1.abs, s.2.abs) op).1.st = some e := by rw [← e3]; exact hst
  have hin := spec_error_inert dbl P (s.1.abs, s.2.abs) op e hsp he
  rw [← e3] at hin
  have ha : r.2.1.1.abs = s.1.abs := congrArg Prod.fst hin
  have hb : r.2.1.2.abs = s.2.abs := congrArg Prod.snd hin
  refine ⟨?_, by rw [ha, hb] at h6; omega⟩
  apply Prod.ext
  · rw [h1.1.eq, h.1.eq, ha]
  · rw [h1.2.1.eq, h.2.1.eq, hb]

/-! ## Destruction (C06 part for the lists) -/

/-- `cc_list_destroy` / `cc_list_destroy_cb` from any state satisfying the invariant release every
node block and the header exactly once (no fault: nothing is released twice), and the callback
variant hands every held element to the callback exactly once, in list order -/
theorem dlist_destroy_ledger (l : Chain) (h : l.Inv) (m : Mem) (hl : l.abs.length + 1 ≤ m.live) :
    (DList.destroy l m).live + (l.abs.length + 1) = m.live ∧ (DList.destroy l m).fault = m.fault ∧
    DList.destroyCb l m = (l.abs, DList.destroy l m) := by
  rw [h.eq, DList.destroy_ofList, DList.destroyCb_ofList]
  have := Mem.freeN_live (l.abs.length + 1) m hl
  simp only [ofList_abs]
  exact ⟨by omega, this.2.1, trivial⟩

/-- the same for `cc_slist_destroy` / `cc_slist_destroy_cb` -/
theorem slist_destroy_ledger (l : Chain) (h : l.Inv) (m : Mem) (hl : l.abs.length + 1 ≤ m.live) :
    (SList.destroy l m).live + (l.abs.length + 1) = m.live ∧ (SList.destroy l m).fault = m.fault ∧
    SList.destroyCb l m = (l.abs, SList.destroy l m) := by
  rw [h.eq, SList.destroy_ofList, SList.destroyCb_ofList]
  have := Mem.freeN_live (l.abs.length + 1) m hl
  simp only [ofList_abs]
  exact ⟨by omega, this.2.1, trivial⟩

/-! ## Non-vacuity: two non-trivial states satisfy the hypotheses, and a history with a bulk insertion
in the middle, a refusal-free splice and a rejected index runs as the ideal lists say -/
example : PairOk (ofList [3, 1, 4], ofList [1, 5]) { live := 7 } := by
  refine ⟨ofList_inv _, ofList_inv _, ?_⟩; decide

example :
    ((DList.run ⟨fun v => v % 2 == 0, LSeq.cmpNum⟩ (ofList [3, 1, 4], ofList [1, 5])
        [.addAllAt 1, .removeAt 9, .swapRoles, .splice, .reverse, .filterMut] { live := 7 }).2.1.1.abs,
     (DList.run ⟨fun v => v % 2 == 0, LSeq.cmpNum⟩ (ofList [3, 1, 4], ofList [1, 5])
        [.addAllAt 1, .removeAt 9, .swapRoles, .splice, .reverse, .filterMut] { live := 7 }).2.1.2.abs) = ([4], []) := by
  decide

end CC.Properties.C04
