import CollectionsC.Proofs.ArraySized9
/-! # C01 (sized half) — `CC_ArraySized` is an ideal sequence of byte records

Statements only; the proofs live in `Proofs/SizedChunks.lean` (byte offsets → whole elements) and
`Proofs/ArraySized*.lean`.  The concrete model `CC.ArraySized` (`Model/ArraySized.lean`) mirrors
`src/sized/cc_array_sized.c` statement by statement on a **flat byte buffer**: every offset is
`data_length * i (+ j)` exactly as the macros `INDEX`/`BUF_ADDR` expand, every copy is a
`memcpy`/`memmove` of `n * data_length` bytes.  The abstraction `abs` reads the first `size`
records back as byte vectors; the ideal sequence is `Spec.SSeq` over byte vectors (equality =
bytewise equality).

Quantifiers: every element size `data_length ≥ 1`, every capacity ≥ 1, **every** growth function
`grow` (the float product `(size_t)(capacity * exp_factor)`, no assumption at all: the guard of
`expand_capacity` bounds whatever it returns), every state satisfying the invariant, every index in `Nat`, every element value, every
finite history, every allocator schedule.

Float growth (audit C01 gap 5): the C expression `(size_t)(capacity * exp_factor)` is undefined
behaviour when the `float` product is ≥ 2^64 (possible only for factors far above 8 after growth;
the constructor guard covers the first growth).  The model takes `grow` as an arbitrary function, so
every theorem holds for whatever value such a conversion yields; that the compiled code yields *a*
value there (rather than trapping) is an assumption outside the model.

Documented preconditions (`OpWF`): an element argument is a buffer of `data_length` bytes; the
function given to `map` rewrites an element in place; the `qsort` used by `sort` rearranges its
input.  Also covered here: the sized parts of C07 (iterators, zip), C08 (refusals are atomic), C15
(derived arrays), C16 (rejected calls are inert), C18 (sort), C20 (capacity invariants). -/
namespace CC.Properties.C01Sized
open CC CC.Gen CC.ArraySized

/-! ## C01: one call, all histories -/

/-- One call of the core API on the byte-level model refines one step of the ideal sequence: same
status, out-value, out-number and callback log; the abstraction commutes; the invariant, the
element size and the growth rule are kept; the ledger is balanced and nothing faults.  The only
input the ideal sequence needs from the environment is `refusal` (the allocator said no, or the
capacity limit was reached): then the array is physically unchanged. -/
theorem step_refines (a : ArraySized) (op : Spec.SSeq.Op Elem) (m : Mem) (h : a.Inv)
    (hw : OpWF a.dataLen op) :
    (a.step op m).1 = (Spec.SSeq.step a.abs op (a.refusal op m)).1 ∧
    (a.step op m).2.1.abs = (Spec.SSeq.step a.abs op (a.refusal op m)).2 ∧
    (a.step op m).2.1.Inv ∧ (a.step op m).2.1.cfg = a.cfg ∧ (a.step op m).2.1.dataLen = a.dataLen ∧
    MemSame a.triple m (a.step op m).2.2 ∧
    (a.refusal op m ≠ none → (a.step op m).2.1 = a) ∧
    (a.refusal op m = some .errAlloc → (m.allocT a.triple).1 = false) ∧
    (a.refusal op m = some .errMaxCapacity → a.AtLimit ∧ a.size = a.capacity) :=
  ArraySized.step_refines a op m h hw

/-- **C01, sized arrays, all histories.**  From any state satisfying the invariant, every finite
history of well-formed calls yields on the byte-level model exactly the statuses, out-values and
callback logs of the ideal sequence (given the same refusals), ends in a state whose content is
the ideal content, keeps the invariant, leaks nothing and never faults. -/
theorem C01_sized (a : ArraySized) (ops : List (Spec.SSeq.Op Elem)) (m : Mem) (h : a.Inv)
    (hw : ∀ op ∈ ops, OpWF a.dataLen op) :
    (a.run ops m).1 = (Spec.SSeq.run a.abs ops (a.refusals ops m)).1 ∧
    (a.run ops m).2.1.abs = (Spec.SSeq.run a.abs ops (a.refusals ops m)).2 ∧
    (a.run ops m).2.1.Inv ∧ MemSame a.triple m (a.run ops m).2.2 := by
  obtain ⟨h1, h2, h3, _, _, h6⟩ := run_refines ops a m h hw
  exact ⟨h1, h2, h3, h6⟩

/-- **C01 from the constructor**: every element size and capacity the constructor accepts (it
rejects element size 0, capacity 0 and capacities whose buffer would not fit `size_t`), every
growth function (expansion factors ≤ 1 have already been replaced by the default when `grow` is
built). -/
theorem C01_sized_new (dl cap : Nat) (grow : Nat → Nat) (exGe : Nat → Bool) (m0 m1 : Mem) (t : Triple) (a : ArraySized)
    (hnew : ArraySized.new dl cap grow exGe m0 t = (.ok, some a, m1))
    (ops : List (Spec.SSeq.Op Elem)) (hw : ∀ op ∈ ops, OpWF dl op) :
    (a.run ops m1).1 = (Spec.SSeq.run [] ops (a.refusals ops m1)).1 ∧
    (a.run ops m1).2.1.abs = (Spec.SSeq.run [] ops (a.refusals ops m1)).2 ∧
    (a.run ops m1).2.1.Inv ∧ MemSame a.triple m1 (a.run ops m1).2.2 := by
  obtain ⟨hinv, habs, hd, _⟩ := new_ok dl cap grow exGe m0 m1 t a hnew
  have := C01_sized a ops m1 hinv (by rw [hd]; exact hw)
  rw [habs] at this
  exact this

/-- An appending call succeeds whenever there is a free slot — whatever the allocator would answer —
and on a full array whenever its allocator grants the request and the size limit is not reached. -/
theorem add_succeeds (a : ArraySized) (e : Buf Nat) (m : Mem) (h : a.Inv) (he : e.length = a.dataLen)
    (hc : a.size < a.capacity ∨ ((m.allocT a.triple).1 = true ∧ ¬ a.AtLimit)) :
    (a.add e m).1 = .ok ∧ (a.add e m).2.1.abs = a.abs ++ [e] := ArraySized.add_succeeds a e m h he hc

theorem addAt_succeeds (a : ArraySized) (e : Buf Nat) (i : Nat) (m : Mem) (h : a.Inv) (he : e.length = a.dataLen)
    (hi : i ≤ a.size) (hc : a.size < a.capacity ∨ ((m.allocT a.triple).1 = true ∧ ¬ a.AtLimit)) :
    (a.addAt e i m).1 = .ok ∧ (a.addAt e i m).2.1.abs = a.abs.insertIdx i e :=
  ArraySized.addAt_succeeds a e i m h he hi hc

/-- a dischargeable form of "not at the size limit": below half the element limit, with the next
capacity (growth function's value, resp. `capacity + 1`) still within `CC_MAX_ELEMENTS` bytes.
(An accepted array *can* stand at the limit from the start: `new esize=8 cap=1 exp=2^61` answers
`CC_ERR_MAX_CAPACITY` to the second `add`; corpus `expand_byte_count_limit.ops`.) -/
theorem not_atLimit (a : ArraySized) (hc : a.capacity < CC_MAX_ELEMENTS / 2)
    (hg : a.grow a.capacity ≤ CC_MAX_ELEMENTS / a.dataLen) (h1 : a.capacity + 1 ≤ CC_MAX_ELEMENTS / a.dataLen) :
    ¬ a.AtLimit := ArraySized.not_atLimit a hc hg h1

/-- **history_unblocked**: on an allocator that grants every request (`Grants`: empty schedule, *or*
an array on the C library allocator, which is never refused) a history during which the array never
stands at its size limit is refused nowhere: the ideal sequence runs without any refusal input -/
theorem history_unblocked (a : ArraySized) (ops : List (Spec.SSeq.Op Elem)) (m : Mem) (h : a.Inv)
    (hw : ∀ op ∈ ops, OpWF a.dataLen op) (hg : Grants a.triple m)
    (hl : ∀ k, k ≤ ops.length → ¬ (a.run (ops.take k) m).2.1.AtLimit) :
    a.refusals ops m = List.replicate ops.length none ∧
    (a.run ops m).1 = (Spec.SSeq.run a.abs ops (List.replicate ops.length none)).1 := by
  have hr := run_unrefused ops a m h hw hg hl
  exact ⟨hr, by rw [← hr]; exact (C01_sized a ops m h hw).1⟩

/-- **the refusal oracle is pinned, for every schedule**: the `k`-th call of a history is reported
refused only if, in the state reached by the first `k` calls, the array's own allocator refuses the
request (`CC_ERR_ALLOC`) or the array is full and stands at its size limit (`CC_ERR_MAX_CAPACITY`);
so `C01_sized` cannot be satisfied by a model that refuses at will -/
theorem history_refusals_pinned (a : ArraySized) (ops : List (Spec.SSeq.Op Elem)) (m : Mem) (h : a.Inv)
    (hw : ∀ op ∈ ops, OpWF a.dataLen op) (k : Nat) (op : Spec.SSeq.Op Elem) (hk : ops[k]? = some op) :
    ((a.refusals ops m)[k]? = some (some .errAlloc) →
      (((a.run (ops.take k) m).2.2).allocT (a.run (ops.take k) m).2.1.triple).1 = false) ∧
    ((a.refusals ops m)[k]? = some (some .errMaxCapacity) →
      (a.run (ops.take k) m).2.1.AtLimit ∧ (a.run (ops.take k) m).2.1.size = (a.run (ops.take k) m).2.1.capacity) ∧
    ((a.refusals ops m)[k]? = some none ∨ (a.refusals ops m)[k]? = some (some .errAlloc) ∨
      (a.refusals ops m)[k]? = some (some .errMaxCapacity)) :=
  run_refusals_pinned ops a m h hw k op hk

/-- **Private copy** (`_model`: nothing is missing from the proof, but the clause is true by the value
semantics of the model — a model state holds bytes, not a pointer to the caller's buffer, so it
cannot express aliasing; the harness carries that part: it overwrites and frees the caller's buffer
after every `add`/`add_at`/`replace_at`/`iter_add`/`iter_replace` and re-observes under ASan).
What the theorem does say: the record stored by each of the five inserting/replacing calls is exactly
the `data_length` bytes the caller's buffer held at the time of the call, at the position asked
for, and all other records are the ones stored before. -/
theorem C01_private_copy_model (a : ArraySized) (e : Buf Nat) (i : Nat) (m : Mem) (h : a.Inv)
    (he : e.length = a.dataLen) :
    ((a.add e m).1 = .ok → (a.add e m).2.1.abs = a.abs ++ [e]) ∧
    ((a.addAt e i m).1 = .ok → i ≤ a.size → (a.addAt e i m).2.1.abs = a.abs.insertIdx i e) ∧
    (i < a.size → (a.replaceAt e i m).2.2.1.abs = a.abs.set i e) := by
  refine ⟨fun hok => ?_, fun hok hi => ?_, fun hi => (replaceAt_spec a e i m h he hi).2.2⟩
  · rcases add_spec a e m h he with ⟨_, _, h3, _⟩ | ⟨h1, _⟩
    · exact h3
    · rcases h1 with h1 | h1 <;> rw [h1] at hok <;> cases hok
  · rcases addAt_spec a e i m h he hi with ⟨_, _, h3, _⟩ | ⟨h1, _⟩
    · exact h3
    · rcases h1 with h1 | h1 <;> rw [h1] at hok <;> cases hok

/-- private copy through the iterator (`_model`, see above): `iter_add`/`iter_replace` store the bytes
handed in next to / in place of the element yielded last -/
theorem C01_private_copy_iter_model (it : Iter) (a : ArraySized) (c : Spec.SSeq.Cursor Elem) (e : Buf Nat)
    (m : Mem) (h : a.Inv) (he : e.length = a.dataLen) (hrel : IterRel it a c) :
    ((a.iterAdd it e m).1 = .ok → (a.iterAdd it e m).2.2.1.abs = c.done ++ e :: c.todo) ∧
    ((a.iterReplace it e m).1 = .ok → (a.iterReplace it e m).2.2.1.abs = c.done.dropLast ++ e :: c.todo) := by
  constructor
  · intro hok
    rcases iterAdd_refines it a c e m h he hrel with ⟨_, a2, _⟩ | ⟨a1, _⟩
    · rw [a2.1]; simp [Spec.SSeq.Cursor.add, Spec.SSeq.Cursor.content]
    · rcases a1 with a1 | a1 <;> rw [a1] at hok <;> cases hok
  · intro hok
    obtain ⟨p1, _, p3, _⟩ := iterReplace_refines it a c e m h he hrel
    rw [p3.1]
    rw [p1] at hok
    unfold Spec.SSeq.Cursor.replace at hok ⊢
    split
    · rename_i hd; rw [if_pos hd] at hok; cases hok
    · simp [Spec.SSeq.Cursor.content]

/-- **Growing or trimming capacity never changes contents.** -/
theorem C01_growth_keeps_content (a : ArraySized) (m : Mem) (h : a.Inv) :
    (a.expandCapacity m).2.1.abs = a.abs ∧ (a.trimCapacity m).2.1.abs = a.abs := by
  constructor
  · rcases expandCapacity_spec a m h with ⟨_, _, h3, _⟩ | ⟨_, h2, _⟩ | ⟨_, h2, _⟩
    · exact h3
    · rw [h2]
    · rw [h2]
  · rcases trimCapacity_spec a m h with ⟨_, _, h3, _⟩ | ⟨_, h2, _⟩
    · exact h3
    · rw [h2]

/-! ## The property in its own vocabulary (facts about the ideal sequence) -/

/-- appending puts the element last and keeps everything before it -/
theorem spec_add (xs : List Elem) (x : Elem) :
    (Spec.SSeq.add xs x).length = xs.length + 1 ∧ (Spec.SSeq.add xs x).getLast? = some x ∧
    ∀ k, k < xs.length → (Spec.SSeq.add xs x)[k]? = xs[k]? := by
  refine ⟨by simp [Spec.SSeq.add], by simp [Spec.SSeq.add], ?_⟩
  intro k hk
  simp [Spec.SSeq.add, List.getElem?_append_left hk]

/-- an indexed insert at `i ≤ size` puts the element at `i`, keeps the elements before `i` and
shifts the others up by one; any other index is rejected -/
theorem spec_addAt (xs : List Elem) (x : Elem) (i : Nat) :
    (i ≤ xs.length → (Spec.SSeq.addAt xs x i).1 = .ok ∧ (Spec.SSeq.addAt xs x i).2[i]? = some x ∧
      (∀ k, k < i → (Spec.SSeq.addAt xs x i).2[k]? = xs[k]?) ∧
      (∀ k, i < k → (Spec.SSeq.addAt xs x i).2[k]? = xs[k - 1]?)) ∧
    (xs.length < i → Spec.SSeq.addAt xs x i = (.errOutOfRange, xs)) := by
  constructor
  · intro hi
    simp only [Spec.SSeq.addAt, hi, if_true, List.getElem?_insertIdx]
    refine ⟨trivial, by simp, ?_, ?_⟩
    · intro k hk; rw [if_pos hk]
    · intro k hk; rw [if_neg (by omega), if_neg (by omega)]
  · intro hi
    simp [Spec.SSeq.addAt, show ¬ i ≤ xs.length by omega]

/-- removal by value removes the first element equal to `x` (bytewise), and only it -/
theorem spec_remove (xs : List Elem) (x : Elem) (k : Nat) (hk : Spec.SSeq.indexOf xs x = some k) :
    Spec.SSeq.remove xs x = (.ok, xs.eraseIdx k) ∧ xs[k]? = some x ∧ ∀ j, j < k → xs[j]? ≠ some x := by
  refine ⟨by simp [Spec.SSeq.remove, hk], ?_, ?_⟩
  · induction xs generalizing k with
    | nil => simp [Spec.SSeq.indexOf] at hk
    | cons y ys ih =>
      simp only [Spec.SSeq.indexOf] at hk
      split at hk
      · rename_i he; simp at hk; subst hk; simp [he]
      · cases hh : Spec.SSeq.indexOf ys x with
        | none => simp [hh] at hk
        | some j => simp [hh] at hk; subst hk; simpa using ih j hh
  · induction xs generalizing k with
    | nil => simp [Spec.SSeq.indexOf] at hk
    | cons y ys ih =>
      simp only [Spec.SSeq.indexOf] at hk
      split at hk
      · simp at hk; subst hk; intro j hj; omega
      · rename_i hne
        cases hh : Spec.SSeq.indexOf ys x with
        | none => simp [hh] at hk
        | some i =>
          simp [hh] at hk; subst hk
          intro j hj
          cases j with
          | zero => simpa using hne
          | succ j => simpa using ih i hh j (by omega)

/-- the occurrence count of `contains` -/
theorem spec_contains (xs : List Elem) (x : Elem) : Spec.SSeq.contains xs x = xs.count x := by
  induction xs with
  | nil => rfl
  | cons y ys ih =>
    unfold Spec.SSeq.contains at ih ⊢
    by_cases h : y = x
    · subst h; simp [ih]
    · simp [h, ih]

/-! ## C16 (sized part): rejected calls are inert, for every index -/

/-- A call of the core API that reports an error other than an allocation/limit refusal leaves the
whole physical state — buffer bytes, size, capacity — and the ledger exactly as they were; this
holds for every index in `Nat`, hence for every `size_t` value. -/
theorem C16_sized_inert (a : ArraySized) (op : Spec.SSeq.Op Elem) (m : Mem) (h : a.Inv)
    (hw : OpWF a.dataLen op) (hrej : Rejected (a.step op m).1.st) :
    (a.step op m).2.1 = a ∧ (a.step op m).2.2 = m :=
  step_inert a op m h hw hrej

/-- `peek` and `get_at` accept exactly the positions `[0, size)`; in particular `index == size`
is rejected (defect A6) -/
theorem C16_sized_peek (a : ArraySized) (i : Nat) (m : Mem) (h : a.Inv) :
    a.peek i m = (if i < a.size then (.ok, a.abs[i]?, m) else (.errOutOfRange, none, m)) := by
  rw [peek_spec, getAt_spec a i m h]

/-- every other out-of-range argument, function by function, returns the state untouched -/
theorem C16_sized_inert_calls (a : ArraySized) (e : Buf Nat) (i j b : Nat) (m : Mem) (p : List Nat → Bool) :
    (a.size < i → a.addAt e i m = (.errOutOfRange, a, m)) ∧
    (a.size ≤ i → a.replaceAt e i m = (.errOutOfRange, none, a, m)) ∧
    (a.size ≤ i → a.removeAt i m = (.errOutOfRange, none, a, m)) ∧
    (a.size ≤ i ∨ a.size ≤ j → a.swapAt i j m = (.errOutOfRange, a, m)) ∧
    (j < b ∨ a.size ≤ j → a.subarray b j m = (.errInvalidRange, none, m)) ∧
    (a.size = 0 → a.filterMut p m = (.errOutOfRange, [], a, m)) ∧
    (a.size = 0 → a.filter p m = (.errOutOfRange, [], none, m)) :=
  ⟨addAt_inert a e i m, replaceAt_inert a e i m, removeAt_inert a i m, swapAt_inert a i j m,
   subarray_inert a b j m, filterMut_inert a p m, filter_inert a p m⟩

/-! ## C08 (sized part): a refused allocation is atomic -/

/-- `add`/`add_at`/`trim_capacity` under a refusal: status `CC_ERR_ALLOC`, the array physically
unchanged, no block gained or lost, no fault (this is `step_refines` read for `refusal ≠ none`);
constructors and builders under a refusal produce no object and a balanced ledger. -/
theorem C08_sized_atomic (a : ArraySized) (m : Mem) (h : a.Inv) :
    (∀ e : Buf Nat, e.length = a.dataLen → (a.add e m).1 = .errAlloc → (a.add e m).2.1 = a ∧ MemSame a.triple m (a.add e m).2.2) ∧
    ((a.trimCapacity m).1 = .errAlloc → (a.trimCapacity m).2.1 = a ∧ MemSame a.triple m (a.trimCapacity m).2.2) ∧
    ((a.copy m).1 = .errAlloc → (a.copy m).2.1 = none ∧ MemSame a.triple m (a.copy m).2.2) := by
  refine ⟨?_, ?_, ?_⟩
  · intro e he hst
    rcases add_spec a e m h he with ⟨h1, _⟩ | ⟨_, h2, h3, _⟩
    · rw [h1] at hst; cases hst
    · exact ⟨h2, h3⟩
  · intro hst
    rcases trimCapacity_spec a m h with ⟨h1, _⟩ | ⟨_, h2, h3, _⟩
    · rw [h1] at hst; cases hst
    · exact ⟨h2, h3⟩
  · intro hst
    rcases copy_spec a m h with ⟨s, h1, _⟩ | ⟨_, h2, h3⟩
    · rw [h1] at hst; cases hst
    · exact ⟨h2, h3⟩

/-- constructor (on either allocator triple): capacity 0, element size 0 and a capacity whose buffer
size in bytes would exceed `CC_MAX_ELEMENTS` are rejected before anything is allocated (repair A9);
a refusal (only the configured allocator can refuse) yields no object and a balanced ledger;
success owns exactly two blocks of its triple, which `destroy` releases through the same triple,
and the byte count `capacity * data_length` handed to `mem_alloc` is below 2^64 -/
theorem C08_sized_new_destroy (dl cap : Nat) (grow : Nat → Nat) (exGe : Nat → Bool) (m : Mem) (t : Triple) :
    (cap = 0 ∨ dl = 0 ∨ CC_MAX_ELEMENTS / dl < cap →
      ArraySized.new dl cap grow exGe m t = (.errInvalidCapacity, none, m)) ∧
    ((ArraySized.new dl cap grow exGe m t).1 = .errAlloc →
      (ArraySized.new dl cap grow exGe m t).2.1 = none ∧ MemSame t m (ArraySized.new dl cap grow exGe m t).2.2 ∧
      t = .conf) ∧
    (∀ a m', ArraySized.new dl cap grow exGe m t = (.ok, some a, m') →
      0 < a.dataLen ∧ a.capacity * a.dataLen < 2 ^ 64 ∧ a.triple = t ∧
      own m' t = own m t + 2 ∧ own (a.destroy m') t = own m t ∧ (a.destroy m').fault = m.fault) := by
  refine ⟨?_, new_refused dl cap grow exGe m t, ?_⟩
  · intro hc
    apply new_invalid
    rcases hc with hc | hc | hc
    · exact Or.inl hc
    · exact Or.inr (Or.inr (Or.inl hc))
    · exact Or.inr (Or.inr (Or.inr hc))
  · intro a m' hnew
    obtain ⟨hinv, _, _, _, _, hl, hf, _, hw, _, ht⟩ := new_ok dl cap grow exGe m m' t a hnew
    have := destroy_ledger a m' (by rw [ht]; omega)
    rw [ht] at this
    exact ⟨hinv.1, hw, ht, hl, by rw [this.1, hl]; omega, by rw [this.2.1, hf]⟩

/-! ## C20 (sized part): capacity invariants -/

/-- `size ≤ capacity` in every reachable state (it is part of `Inv`, which `C01_sized` preserves);
a successful growth strictly increases the capacity; `trim_capacity` makes it `max size 1` -/
theorem C20_sized_capacity (a : ArraySized) (m : Mem) (h : a.Inv) :
    a.size ≤ a.capacity ∧ 1 ≤ a.capacity ∧
    ((a.expandCapacity m).1 = .ok → a.capacity < (a.expandCapacity m).2.1.capacity) ∧
    ((a.trimCapacity m).1 = .ok → (a.trimCapacity m).2.1.capacity = max a.size 1) := by
  refine ⟨h.2.2.1, h.2.1, ?_, ?_⟩
  · intro hst
    rcases expandCapacity_spec a m h with ⟨_, _, _, _, _, _, h7, _⟩ | ⟨h1, _⟩ | ⟨h1, _⟩
    · exact h7
    · rw [h1] at hst; cases hst
    · rw [h1] at hst; cases hst
  · intro hst
    rcases trimCapacity_spec a m h with ⟨_, _, _, h4, _⟩ | ⟨h1, _⟩
    · exact h4
    · rw [h1] at hst; cases hst

/-- the buffer size in bytes never wraps around `size_t` (repairs A9/A10): in every state
satisfying the invariant `capacity * data_length < 2^64`; a growth whose byte count would exceed
`CC_MAX_ELEMENTS` is refused with `CC_ERR_MAX_CAPACITY` before anything is allocated, leaving the
array and the ledger untouched -/
theorem C20_sized_no_byte_wrap (a : ArraySized) (m : Mem) (h : a.Inv) :
    a.capacity * a.dataLen < 2 ^ 64 ∧
    (CC_MAX_ELEMENTS / a.dataLen < a.nextCapacity → (a.expandCapacity m).1 = .errMaxCapacity) ∧
    ((a.expandCapacity m).1 = .errMaxCapacity → (a.expandCapacity m).2 = (a, m)) := by
  have hM : CC_MAX_ELEMENTS < 2 ^ 64 := by decide
  refine ⟨Nat.lt_of_le_of_lt h.2.2.2.2 hM, ?_, ?_⟩
  · intro hlim
    rcases expandCapacity_spec a m h with ⟨_, h2, _, _, h5, _, _⟩ | ⟨h1, _, _, _⟩ | ⟨h1, _⟩
    · unfold expandCapacity
      by_cases hc : a.capacity = CC_MAX_ELEMENTS
      · rw [if_pos hc]
      · rw [if_neg hc]; dsimp only; rw [if_pos hlim]
    · unfold expandCapacity
      by_cases hc : a.capacity = CC_MAX_ELEMENTS
      · rw [if_pos hc]
      · rw [if_neg hc]; dsimp only; rw [if_pos hlim]
    · exact h1
  · intro hst
    rcases expandCapacity_spec a m h with ⟨h1, _⟩ | ⟨h1, _⟩ | ⟨_, h2, h3, _⟩
    · rw [h1] at hst; cases hst
    · rw [h1] at hst; cases hst
    · exact Prod.ext h2 h3

/-! ## C18 (sized part): sort -/

/-- With the `qsort` contract (`sortFn` returns a rearrangement of its input in which no record
compares greater than its successor), `sort` leaves exactly the same multiset of records,
ordered; the invariant and the configuration are kept. -/
theorem C18_sized_sort (a : ArraySized) (sortFn : List Elem → List Elem) (gt : Elem → Elem → Prop)
    (h : a.Inv) (hperm : ∀ l, (sortFn l).Perm l) (hsorted : ∀ l, (sortFn l).Pairwise (fun x y => ¬ gt x y)) :
    (a.sort sortFn {}).1.abs.Perm a.abs ∧ (a.sort sortFn {}).1.abs.Pairwise (fun x y => ¬ gt x y) ∧
    (a.sort sortFn {}).1.Inv ∧ (a.sort sortFn {}).1.size = a.size := by
  obtain ⟨s1, s2, _, _, _, s6, _⟩ := sort_spec a sortFn {} h (hperm a.abs)
  rw [s2]
  exact ⟨hperm a.abs, hsorted a.abs, s1, s6⟩

/-! ## C15 (sized part): derived arrays -/

/-- `subarray`, `copy`, `filter` build exactly the selected records in source order; the result
satisfies the invariant and inherits element size and growth rule (so `C01_sized` applies to it
and it can grow); the source is a value that the call does not return changed. -/
theorem C15_sized_derived (a : ArraySized) (b e : Nat) (p : List Nat → Bool) (m : Mem) (h : a.Inv) :
    (b ≤ e → e < a.size → ∀ s, (a.subarray b e m).2.1 = some s →
      s.Inv ∧ s.abs = (a.abs.drop b).take (e - b + 1) ∧ s.dataLen = a.dataLen ∧ s.cfg = a.cfg) ∧
    (∀ s, (a.copy m).2.1 = some s → s.Inv ∧ s.abs = a.abs ∧ s.dataLen = a.dataLen ∧ s.cfg = a.cfg ∧
      s.capacity = a.capacity) ∧
    (0 < a.size → ∀ s, (a.filter p m).2.2.1 = some s →
      s.Inv ∧ s.abs = a.abs.filter p ∧ s.dataLen = a.dataLen ∧ s.cfg = a.cfg ∧ (a.filter p m).2.1 = a.abs) := by
  refine ⟨?_, ?_, ?_⟩
  · intro hb he s hs
    rcases subarray_spec a b e m h hb he with ⟨s', h1, h2, h3, h4, h5, _⟩ | ⟨_, h2, _⟩
    · rw [h1] at hs; cases hs; exact ⟨h2, h3, h4, h5⟩
    · rw [h2] at hs; cases hs
  · intro s hs
    rcases copy_spec a m h with ⟨s', h1, h2, h3, h4, h5, h6, _⟩ | ⟨_, h2, _⟩
    · rw [h1] at hs; cases hs; exact ⟨h2, h3, h4, h5, h6⟩
    · rw [h2] at hs; cases hs
  · intro h0 s hs
    rcases filter_spec a p m h h0 with ⟨s', h1, h2, h3, h4, h5, _⟩ | ⟨_, h2, _⟩
    · rw [h1] at hs ⊢; cases hs; exact ⟨h2, h3, h4, h5, rfl⟩
    · rw [h2] at hs; cases hs

/-- a derived array can grow: appending to the (exactly full) result of `subarray` succeeds
whenever the allocator grants the request (defect A3) -/
theorem C15_sized_subarray_grows (a s : ArraySized) (b e : Nat) (x : Buf Nat) (m m' : Mem) (h : a.Inv) (hb : b ≤ e) (he : e < a.size) (hs : (a.subarray b e m).2.1 = some s)
    (hx : x.length = a.dataLen) (hal : (m'.allocT s.triple).1 = true) (hc : ¬ s.AtLimit) :
    (s.add x m').1 = .ok ∧ (s.add x m').2.1.abs = (a.abs.drop b).take (e - b + 1) ++ [x] := by
  obtain ⟨i1, i2, i3, i4⟩ := (C15_sized_derived a b e (fun _ => true) m h).1 hb he s hs
  have := add_ok_of_alloc s x m' i1 (by rw [i3]; exact hx) hal hc
  rw [i2] at this
  exact this

/-! ## C07 (sized part): iterators -/

/-- A fresh iterator represents the ideal cursor at the start; `next`, `remove`, `replace` and
`index` refine the ideal cursor and keep the representation; `add` does so or is refused without
moving the cursor (defect A5).  `IterRel it a c`: the array's content is `c.done ++ c.todo`, the
iterator's index is `|c.done|`, its `last_removed` flag is `c.removed`. -/
theorem C07_sized_iter (it : Iter) (a : ArraySized) (c : Spec.SSeq.Cursor Elem) (e : Buf Nat) (m : Mem)
    (h : a.Inv) (he : e.length = a.dataLen) (hrel : IterRel it a c) :
    IterRel {} a (Spec.SSeq.Cursor.start a.abs) ∧
    ((a.iterNext it m).1 = c.next.1 ∧ (a.iterNext it m).2.1 = c.next.2.1 ∧
      IterRel (a.iterNext it m).2.2.1 a c.next.2.2) ∧
    ((a.iterRemove it m).1 = c.remove.1 ∧ (a.iterRemove it m).2.1 = c.remove.2.1 ∧
      IterRel (a.iterRemove it m).2.2.1 (a.iterRemove it m).2.2.2.1 c.remove.2.2 ∧
      (a.iterRemove it m).2.2.2.1.Inv) ∧
    ((a.iterReplace it e m).1 = (c.replace e).1 ∧ (a.iterReplace it e m).2.1 = (c.replace e).2.1 ∧
      IterRel it (a.iterReplace it e m).2.2.1 (c.replace e).2.2 ∧ (a.iterReplace it e m).2.2.1.Inv) ∧
    (((a.iterAdd it e m).1 = .ok ∧ IterRel (a.iterAdd it e m).2.1 (a.iterAdd it e m).2.2.1 (c.add e) ∧
        (a.iterAdd it e m).2.2.1.Inv) ∨
      ((a.iterAdd it e m).1 ≠ .ok ∧ (a.iterAdd it e m).2.1 = it ∧ (a.iterAdd it e m).2.2.1 = a)) ∧
    iterIndex it = c.index := by
  obtain ⟨n1, n2, n3, _⟩ := iterNext_refines it a c m h hrel
  obtain ⟨r1, r2, r3, r4, _⟩ := iterRemove_refines it a c m h hrel
  obtain ⟨p1, p2, p3, p4, _⟩ := iterReplace_refines it a c e m h he hrel
  refine ⟨iterInit_rel a, ⟨n1, n2, n3⟩, ⟨r1, r2, r3, r4⟩, ⟨p1, p2, p3, p4⟩, ?_, iterIndex_refines it a c hrel⟩
  rcases iterAdd_refines it a c e m h he hrel with ⟨a1, a2, a3, _⟩ | ⟨a1, a2, a3, _⟩
  · exact Or.inl ⟨a1, a2, a3⟩
  · exact Or.inr ⟨by rcases a1 with a1 | a1 <;> rw [a1] <;> simp, a2, a3⟩

/-- complete traversal: the FOREACH macro (a fresh iterator driven to `CC_ITER_END`) hands out
every element exactly once, in index order, whatever the fill level -/
theorem C07_sized_traversal (a : ArraySized) (m : Mem) (h : a.Inv) : a.foreach m = (a.abs, m) :=
  foreach_spec a m h

/-- zip iterators advance two arrays in lock step and stop at the shorter one; `remove`/`replace`
act on the pair yielded last -/
theorem C07_sized_zip (it : Iter) (a1 a2 : ArraySized) (c : Spec.SSeq.ZipCursor Elem) (e1 e2 : Buf Nat) (m : Mem)
    (i1 : a1.Inv) (i2 : a2.Inv) (he1 : e1.length = a1.dataLen) (he2 : e2.length = a2.dataLen)
    (hrel : ZipRel it a1 a2 c) :
    ZipRel {} a1 a2 (Spec.SSeq.ZipCursor.start a1.abs a2.abs) ∧
    ((zipNext it a1 a2 m).1 = c.next.1 ∧ (zipNext it a1 a2 m).2.1 = c.next.2.1 ∧
      ZipRel (zipNext it a1 a2 m).2.2.1 a1 a2 c.next.2.2) ∧
    ((zipRemove it a1 a2 m).1 = c.remove.1 ∧ (zipRemove it a1 a2 m).2.1 = c.remove.2.1 ∧
      ZipRel (zipRemove it a1 a2 m).2.2.1 (zipRemove it a1 a2 m).2.2.2.1 (zipRemove it a1 a2 m).2.2.2.2.1 c.remove.2.2) ∧
    ((zipReplace it a1 a2 e1 e2 m).1 = (c.replace e1 e2).1 ∧ (zipReplace it a1 a2 e1 e2 m).2.1 = (c.replace e1 e2).2.1 ∧
      ZipRel it (zipReplace it a1 a2 e1 e2 m).2.2.1 (zipReplace it a1 a2 e1 e2 m).2.2.2.1 (c.replace e1 e2).2.2) ∧
    iterIndex it = c.index := by
  obtain ⟨n1, n2, n3, _⟩ := zipNext_refines it a1 a2 c m i1 i2 hrel
  obtain ⟨r1, r2, r3, _⟩ := zipRemove_refines it a1 a2 c m i1 i2 hrel
  obtain ⟨p1, p2, p3, _⟩ := zipReplace_refines it a1 a2 c e1 e2 m i1 i2 he1 he2 hrel
  exact ⟨zipInit_rel a1 a2, ⟨n1, n2, n3⟩, ⟨r1, r2, r3⟩, ⟨p1, p2, p3⟩, zipIndex_refines it a1 a2 c hrel⟩

/-- `zip_iter_add`: both elements are inserted after the pair yielded last and the cursor steps
over them; or a growth was refused: status `CC_ERR_ALLOC`, both contents unchanged, ledger
balanced, and the cursor is exactly where it was and still represents the ideal cursor (repair A8;
the history that used to diverge is `corpus/array_sized/zip_iter_add_refused.ops`). -/
theorem C07_sized_zip_add (it : Iter) (a1 a2 : ArraySized) (c : Spec.SSeq.ZipCursor Elem) (e1 e2 : Buf Nat)
    (m : Mem) (i1 : a1.Inv) (i2 : a2.Inv)
    (he1 : e1.length = a1.dataLen) (he2 : e2.length = a2.dataLen) (hrel : ZipRel it a1 a2 c) :
    ((zipAdd it a1 a2 e1 e2 m).1 = .ok ∧
      ZipRel (zipAdd it a1 a2 e1 e2 m).2.1 (zipAdd it a1 a2 e1 e2 m).2.2.1 (zipAdd it a1 a2 e1 e2 m).2.2.2.1 (c.add e1 e2) ∧
      Bal m (zipAdd it a1 a2 e1 e2 m).2.2.2.2) ∨
    ((zipAdd it a1 a2 e1 e2 m).1 = .errAlloc ∧
      (zipAdd it a1 a2 e1 e2 m).2.2.1.abs = a1.abs ∧ (zipAdd it a1 a2 e1 e2 m).2.2.2.1.abs = a2.abs ∧
      Bal m (zipAdd it a1 a2 e1 e2 m).2.2.2.2 ∧ (zipAdd it a1 a2 e1 e2 m).2.1 = it ∧
      ZipRel (zipAdd it a1 a2 e1 e2 m).2.1 (zipAdd it a1 a2 e1 e2 m).2.2.1 (zipAdd it a1 a2 e1 e2 m).2.2.2.1 c) := by
  rcases zipAdd_spec it a1 a2 c e1 e2 m i1 i2 he1 he2 hrel with ⟨h1, h2, _, _, h5⟩ | ⟨h1, h2, h3, _, _, h6, h7, h8⟩
  · exact Or.inl ⟨h1, h2, h5⟩
  · exact Or.inr ⟨h1, h2, h3, h6, h7, h8⟩

/-! ## Non-vacuity -/

/-- a concrete state: 3-byte records, two stored records `[70000, 5]` in a buffer of three slots
(the third one dead), satisfying the invariant; its abstraction is the two byte vectors -/
example :
    let a : ArraySized := { dataLen := 3, size := 2, capacity := 3, grow := fun c => c * 2,
                            buf := [112, 17, 1, 5, 0, 0, 205, 205, 205] }
    a.Inv ∧ a.abs = [[112, 17, 1], [5, 0, 0]] := by decide

/-- the hypotheses of `C01_sized` are satisfiable by that state with a non-trivial history -/
example :
    let a : ArraySized := { dataLen := 3, size := 2, capacity := 3, grow := fun c => c * 2,
                            buf := [112, 17, 1, 5, 0, 0, 205, 205, 205] }
    ((a.run [.add [9, 9, 9], .addAt [1, 2, 3] 0, .remove [5, 0, 0], .reverse] {}).2.1.abs =
      [[9, 9, 9], [112, 17, 1], [1, 2, 3]]) := by decide

end CC.Properties.C01Sized
