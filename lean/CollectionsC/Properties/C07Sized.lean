import CollectionsC.Properties.C01Sized
import CollectionsC.Proofs.ArraySized9
/-! # C07 (sized array part) — iterators traverse completely and in order; one-step mutation is safe

Statements only.  The model iterator is the C struct (`index`, `last_removed`); the ideal cursor
`Spec.SSeq.Cursor` splits the sequence into the elements before the cursor (the last of them is
the element yielded last, unless it was removed) and the elements not yet visited.  `IterRel it a c`
says that `(it, a)` represents `c`. -/
namespace CC.Properties.C07Sized
open CC CC.Gen CC.ArraySized

/-- **traversal_complete**: from a fresh iterator the `k+1`-th `next` yields element `k`, for every
`k < size`, and every later call reports `CC_ITER_END` — at every fill level (empty, single, exactly
full) -/
theorem traversal_complete (a : ArraySized) (k : Nat) (lr : Bool) (m : Mem) (h : a.Inv) :
    a.iterNext { index := k, lastRemoved := lr } m =
      (if k < a.size then (.ok, a.abs[k]?, { index := k + 1, lastRemoved := false }, m)
       else (.iterEnd, none, { index := k, lastRemoved := lr }, m)) := iterNext_at a k lr m h

/-- the FOREACH macro (fresh iterator driven to the end) hands out exactly the content, in order -/
theorem foreach_complete (a : ArraySized) (m : Mem) (h : a.Inv) : a.foreach m = (a.abs, m) :=
  foreach_spec a m h

/-- on the ideal side: driving a fresh cursor `n = |xs|` times yields `xs` in order, then END -/
theorem spec_traversal (xs : List Elem) :
    ((Spec.SSeq.Cursor.start xs).run (List.replicate xs.length .next) []).1.map (·.val) = xs.map some ∧
    (((Spec.SSeq.Cursor.start xs).run (List.replicate xs.length .next) []).2.next).1 = .iterEnd := by
  have gen : ∀ (t d : List Elem), (({ done := d, todo := t, removed := false } : Spec.SSeq.Cursor Elem).run
        (List.replicate t.length .next) []).1.map (·.val) = t.map some ∧
      ((({ done := d, todo := t, removed := false } : Spec.SSeq.Cursor Elem).run
        (List.replicate t.length .next) []).2.next).1 = .iterEnd := by
    intro t
    induction t with
    | nil => intro d; exact ⟨rfl, rfl⟩
    | cons x t ih =>
      intro d
      have := ih (d ++ [x])
      simp only [List.length_cons, List.replicate_succ, Spec.SSeq.Cursor.run, Spec.SSeq.Cursor.step,
        Spec.SSeq.Cursor.next, List.tail_nil, List.map_cons]
      exact ⟨by rw [this.1], this.2⟩
  exact gen xs []

/-- **program_refines**: any program of iterator calls simulates the ideal cursor — `remove`,
`replace` and `add` directly after a yield act on exactly that position, and the traversal continues
over precisely the original elements not yet visited (`c.todo` is only ever consumed by `next`) -/
theorem program_refines (it : Iter) (a : ArraySized) (c : Spec.SSeq.Cursor Elem)
    (cmds : List (Spec.SSeq.IterCmd Elem)) (m : Mem) (h : a.Inv)
    (hw : ∀ cmd ∈ cmds, IterCmdWF a.dataLen cmd) (hrel : IterRel it a c) :
    (iterRun it a cmds m).1 = (c.run cmds (iterRefusals it a cmds m)).1 ∧
    IterRel (iterRun it a cmds m).2.1 (iterRun it a cmds m).2.2.1 (c.run cmds (iterRefusals it a cmds m)).2 ∧
    (iterRun it a cmds m).2.2.1.Inv ∧ MemSame a.triple m (iterRun it a cmds m).2.2.2 :=
  iterRun_refines cmds it a c m h hw hrel

/-- **traversal as a run**: `size` calls of `next` on a fresh iterator yield exactly the content, in
order, each with `CC_OK`; the array is untouched -/
theorem traversal_run (a : ArraySized) (m : Mem) (h : a.Inv) :
    (iterRun {} a (List.replicate a.abs.length .next) m).1.map (·.val) = a.abs.map some ∧
    (iterRun {} a (List.replicate a.abs.length .next) m).2.2.1.abs = a.abs := by
  have hw : ∀ cmd ∈ List.replicate a.abs.length (Spec.SSeq.IterCmd.next : Spec.SSeq.IterCmd Elem),
      IterCmdWF a.dataLen cmd := by
    intro cmd hc; rw [(List.mem_replicate.1 hc).2]; trivial
  obtain ⟨r1, r2, _⟩ := iterRun_refines _ {} a (Spec.SSeq.Cursor.start a.abs) m h hw (iterInit_rel a)
  have gen : ∀ (t d : List Elem) (rs : List (Option Stat)),
      (({ done := d, todo := t, removed := false } : Spec.SSeq.Cursor Elem).run (List.replicate t.length .next) rs).1.map (·.val)
        = t.map some ∧
      (({ done := d, todo := t, removed := false } : Spec.SSeq.Cursor Elem).run (List.replicate t.length .next) rs).2.content
        = d ++ t := by
    intro t
    induction t with
    | nil => intro d rs; exact ⟨rfl, by simp [Spec.SSeq.Cursor.run, Spec.SSeq.Cursor.content]⟩
    | cons x t ih =>
      intro d rs
      have := ih (d ++ [x]) rs.tail
      simp only [List.length_cons, List.replicate_succ, Spec.SSeq.Cursor.run, Spec.SSeq.Cursor.step,
        Spec.SSeq.Cursor.next, List.map_cons]
      exact ⟨by rw [this.1], by rw [this.2]; simp⟩
  have g := gen a.abs [] (iterRefusals {} a (List.replicate a.abs.length .next) m)
  refine ⟨by rw [r1]; exact g.1, ?_⟩
  rw [r2.1]; exact g.2

/-- a program starts from the ideal cursor at the beginning of the content -/
theorem fresh_iterator (a : ArraySized) : IterRel {} a (Spec.SSeq.Cursor.start a.abs) := iterInit_rel a

/-- mutations through the ideal cursor never touch the unvisited part -/
theorem spec_mutations_keep_todo (c : Spec.SSeq.Cursor Elem) (x : Elem) :
    c.remove.2.2.todo = c.todo ∧ (c.add x).todo = c.todo ∧ (c.replace x).2.2.todo = c.todo := by
  refine ⟨?_, rfl, ?_⟩
  · unfold Spec.SSeq.Cursor.remove; split
    · rfl
    · split <;> rfl
  · unfold Spec.SSeq.Cursor.replace; split <;> rfl

/-- **iter_index**: the reported index is the position of the element yielded last -/
theorem iter_index (it : Iter) (a : ArraySized) (c : Spec.SSeq.Cursor Elem) (hrel : IterRel it a c) :
    iterIndex it = Spec.SSeq.wdec c.done.length := iterIndex_refines it a c hrel

/-- **zip**: lock step over two arrays, stops at the shorter one; `remove`/`replace`/`add` act on
the pair yielded last; a refused `add` leaves both contents and the cursor unchanged (A8) -/
theorem zip_refines (it : Iter) (a1 a2 : ArraySized) (c : Spec.SSeq.ZipCursor Elem) (e1 e2 : Buf Nat) (m : Mem)
    (i1 : a1.Inv) (i2 : a2.Inv) (he1 : e1.length = a1.dataLen) (he2 : e2.length = a2.dataLen)
    (hrel : ZipRel it a1 a2 c) :
    ((zipNext it a1 a2 m).1 = c.next.1 ∧ (zipNext it a1 a2 m).2.1 = c.next.2.1 ∧
      ZipRel (zipNext it a1 a2 m).2.2.1 a1 a2 c.next.2.2) ∧
    ((zipRemove it a1 a2 m).1 = c.remove.1 ∧ (zipRemove it a1 a2 m).2.1 = c.remove.2.1 ∧
      ZipRel (zipRemove it a1 a2 m).2.2.1 (zipRemove it a1 a2 m).2.2.2.1 (zipRemove it a1 a2 m).2.2.2.2.1 c.remove.2.2) ∧
    ((zipReplace it a1 a2 e1 e2 m).1 = (c.replace e1 e2).1 ∧ (zipReplace it a1 a2 e1 e2 m).2.1 = (c.replace e1 e2).2.1 ∧
      ZipRel it (zipReplace it a1 a2 e1 e2 m).2.2.1 (zipReplace it a1 a2 e1 e2 m).2.2.2.1 (c.replace e1 e2).2.2) ∧
    (((zipAdd it a1 a2 e1 e2 m).1 = .ok ∧
        ZipRel (zipAdd it a1 a2 e1 e2 m).2.1 (zipAdd it a1 a2 e1 e2 m).2.2.1 (zipAdd it a1 a2 e1 e2 m).2.2.2.1 (c.add e1 e2)) ∨
      ((zipAdd it a1 a2 e1 e2 m).1 = .errAlloc ∧ (zipAdd it a1 a2 e1 e2 m).2.1 = it ∧
        ZipRel (zipAdd it a1 a2 e1 e2 m).2.1 (zipAdd it a1 a2 e1 e2 m).2.2.1 (zipAdd it a1 a2 e1 e2 m).2.2.2.1 c)) ∧
    iterIndex it = c.index := by
  obtain ⟨_, n, r, p, x⟩ := C01Sized.C07_sized_zip it a1 a2 c e1 e2 m i1 i2 he1 he2 hrel
  refine ⟨n, r, p, ?_, x⟩
  rcases C01Sized.C07_sized_zip_add it a1 a2 c e1 e2 m i1 i2 he1 he2 hrel with ⟨h1, h2, _⟩ | ⟨h1, _, _, _, h5, h6⟩
  · exact Or.inl ⟨h1, h2⟩
  · exact Or.inr ⟨h1, h5, h6⟩

/-- every zip call keeps both arrays' invariants and both live-block counters (the two arrays may sit
on different allocators) -/
theorem zip_keeps_inv_and_ledger (it : Iter) (a1 a2 : ArraySized) (c : Spec.SSeq.ZipCursor Elem)
    (cmd : Spec.SSeq.ZipCmd Elem) (m : Mem) (i1 : a1.Inv) (i2 : a2.Inv)
    (hw : ZipCmdWF a1.dataLen a2.dataLen cmd) (hrel : ZipRel it a1 a2 c) :
    (zipStep it a1 a2 cmd m).2.2.1.Inv ∧ (zipStep it a1 a2 cmd m).2.2.2.1.Inv ∧ Bal m (zipStep it a1 a2 cmd m).2.2.2.2 :=
  (zipStep_refines it a1 a2 c cmd m i1 i2 hw hrel).2.2

/-- **zip programs**: any program of `next`/`remove`/`add`/`replace`/`index` calls on a zip iterator
over two arrays yields the statuses, pairs and indices of the same program on the lock-step cursor
(given the same refusals of `add`), ends representing the cursor's final state, keeps both invariants
and both live-block counters -/
theorem zip_program_refines (it : Iter) (a1 a2 : ArraySized) (c : Spec.SSeq.ZipCursor Elem)
    (cmds : List (Spec.SSeq.ZipCmd Elem)) (m : Mem) (i1 : a1.Inv) (i2 : a2.Inv)
    (hw : ∀ cmd ∈ cmds, ZipCmdWF a1.dataLen a2.dataLen cmd) (hrel : ZipRel it a1 a2 c) :
    (zipRun it a1 a2 cmds m).1 = (c.run cmds (zipRefusals it a1 a2 cmds m)).1 ∧
    ZipRel (zipRun it a1 a2 cmds m).2.1 (zipRun it a1 a2 cmds m).2.2.1 (zipRun it a1 a2 cmds m).2.2.2.1
      (c.run cmds (zipRefusals it a1 a2 cmds m)).2 ∧
    (zipRun it a1 a2 cmds m).2.2.1.Inv ∧ (zipRun it a1 a2 cmds m).2.2.2.1.Inv ∧
    Bal m (zipRun it a1 a2 cmds m).2.2.2.2 := zipRun_refines cmds it a1 a2 c m i1 i2 hw hrel

/-- when may `iter_add` be refused (the `iterRefusals` of `program_refines`): only on a full array
whose own allocator refuses the request (`CC_ERR_ALLOC`) or which stands at its size limit
(`CC_ERR_MAX_CAPACITY`) -/
theorem iter_add_refused_only (it : Iter) (a : ArraySized) (c : Spec.SSeq.Cursor Elem) (e : Buf Nat) (m : Mem)
    (h : a.Inv) (he : e.length = a.dataLen) (hrel : IterRel it a c) (hst : (a.iterAdd it e m).1 ≠ .ok) :
    a.size = a.capacity ∧ (((a.iterAdd it e m).1 = .errAlloc ∧ (m.allocT a.triple).1 = false) ∨
      ((a.iterAdd it e m).1 = .errMaxCapacity ∧ a.AtLimit)) := iterAdd_refused_only it a c e m h he hrel hst

/-- zip iterator with the **same array on both sides** (`ar1 == ar2`, not excluded by the API):
`zip_iter_add` inserts both elements at the cursor — the second in front of the first — and steps over
them, or (allocation refused / size limit, also inside the second `add_at`: repair A11) changes
nothing observable: content and cursor as before -/
theorem zip_same_array_add (it : Iter) (a : ArraySized) (e1 e2 : Buf Nat) (m : Mem) (h : a.Inv)
    (he1 : e1.length = a.dataLen) (he2 : e2.length = a.dataLen) (hi : it.index ≤ a.size) :
    ((zipAddSame it a e1 e2 m).1 = .ok ∧
      (zipAddSame it a e1 e2 m).2.2.1.abs = (a.abs.insertIdx it.index e1).insertIdx it.index e2 ∧
      (zipAddSame it a e1 e2 m).2.1 = { it with index := it.index + 1 } ∧ (zipAddSame it a e1 e2 m).2.2.1.Inv) ∨
    ((zipAddSame it a e1 e2 m).1 ≠ .ok ∧ (zipAddSame it a e1 e2 m).2.2.1.abs = a.abs ∧
      (zipAddSame it a e1 e2 m).2.1 = it ∧ (zipAddSame it a e1 e2 m).2.2.1.Inv) := by
  rcases zipAddSame_spec it a e1 e2 m h he1 he2 hi with ⟨h1, h2, h3, h4, _⟩ | ⟨h1, h2, h3, h4, _⟩
  · exact Or.inl ⟨h1, h2, h3, h4⟩
  · exact Or.inr ⟨by rcases h1 with h1 | h1 <;> rw [h1] <;> simp, h2, h3, h4⟩

/-- the lock-step cursor stops at the shorter sequence -/
theorem spec_zip_stops_at_shorter (c : Spec.SSeq.ZipCursor Elem) (h : c.todo1 = [] ∨ c.todo2 = []) :
    c.next = (.iterEnd, none, c) := by
  unfold Spec.SSeq.ZipCursor.next
  rcases h with h | h
  · rw [h]
  · rw [h]; cases c.todo1 <;> rfl

/-! Non-vacuity: a program `next, remove, next, add, next, index` on a concrete 3-record array. -/
example :
    let a : ArraySized := { dataLen := 1, size := 3, capacity := 3, grow := fun c => 2 * c, buf := [1, 2, 3] }
    a.Inv ∧ IterRel {} a (Spec.SSeq.Cursor.start a.abs) ∧
    (iterRun {} a [.next, .remove, .next, .add [9], .next, .index] { live := 2 }).2.2.1.abs = [[2], [9], [3]] :=
  ⟨by decide, iterInit_rel _, by decide⟩

end CC.Properties.C07Sized
