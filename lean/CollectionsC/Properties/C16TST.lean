import CollectionsC.Properties.C11
import CollectionsC.Proofs.TSTCross
/-! # C16 (TST table part): rejected operations are inert

The table has no index arguments; the rejected calls are `get` / `remove` of an absent key and
`iter_remove` with nothing yielded or repeated for the same yielded element (`CC_ERR_KEY_NOT_FOUND`).
`CC_ERR_ALLOC` (only `add` and the constructors) is covered by `C08TST.add_atomic` / `new_atomic`,
restated here as `alloc_error_is_inert`; the ledger record itself changes there (the schedule is
consumed, the refusal counted) but owns the same blocks. -/
namespace CC.Properties.C16TST
open CC CC.TST
open CC.Spec.StrMap (Op Out IOp)

variable {cmp : Cmp}

/-- **error_is_inert**: a status other than `CC_OK` / `CC_ERR_ALLOC` leaves the whole physical state and
the whole ledger record unchanged (`m' = m`) — for every state and every key, no ledger hypothesis -/
theorem error_is_inert (t : Table) (op : Op) (mem : Mem) (st : Stat)
    (h : (t.step cmp op mem).1.st = some st) (h1 : st ≠ .ok) (h2 : st ≠ .errAlloc) :
    (t.step cmp op mem).2.1 = t ∧ (t.step cmp op mem).2.2 = mem := by
  cases op with
  | add k v sched =>
    simp only [Table.step, Option.some.injEq] at h
    rcases Table.add_status (cmp := cmp) t k v (mem.begin sched) with hs | hs
    · rw [hs] at h; exact absurd h.symm h1
    · rw [hs] at h; exact absurd h.symm h2
  | get k => exact ⟨rfl, rfl⟩
  | contains k => exact ⟨rfl, rfl⟩
  | remove k =>
    simp only [Table.step, Table.remove] at h ⊢
    cases hf : t.root.findPath cmp k with
    | none => exact ⟨rfl, rfl⟩
    | some p =>
      simp only [hf] at h ⊢
      cases hd : (t.root.sub p).data? with
      | none => exact ⟨rfl, rfl⟩
      | some e => simp only [hd, Option.some.injEq] at h; exact absurd h.symm h1
  | removeAll => simp [Table.step] at h
  | size => exact ⟨rfl, rfl⟩
  | enumerate => simp [Table.step] at h
  | iterate prog => simp [Table.step] at h

/-- the `CC_ERR_ALLOC` case (C08): same table, same owned blocks, no fault -/
theorem alloc_error_is_inert (t : Table) (k : Key) (v : Nat) (mem : Mem) (h : (t.add cmp k v mem).1 = .errAlloc) :
    (t.add cmp k v mem).2.1 = t ∧ (t.add cmp k v mem).2.2.liveT t.triple = mem.liveT t.triple ∧
    (t.add cmp k v mem).2.2.fault = mem.fault := by
  have := Table.add_atomic_any (cmp := cmp) t k v mem (by rw [h]; simp)
  exact ⟨this.2.1, this.2.2.1, this.2.2.2⟩

/-- the same for the iterator: `iter_remove` that reports an error changes neither table nor iterator nor
ledger; `iter_next` never reports an error status (only `CC_OK` / `CC_ITER_END` on a valid iterator) -/
theorem iter_error_is_inert (t : Table) (it : Iter) (w : Bool) (mem : Mem) (h : (iterRemove t it w mem).1 ≠ .ok) :
    iterRemove t it w mem = (.errKeyNotFound, none, t, it, mem) := by
  cases hc : it.cur with
  | none => exact iterRemove_inert t it w mem (Or.inl hc)
  | some p =>
    cases ha : it.adv with
    | true => exact iterRemove_inert t it w mem (Or.inr ha)
    | false => simp [iterRemove, hc, ha] at h

/-- **absent key ⇒ not found + unchanged** (`get`, `contains_key`, `remove`), no ledger hypothesis -/
theorem absent_key_rejected_partial (hc : CmpLaw cmp) (t : Table) (k : Key) (mem : Mem)
    (hk : k ≠ []) (hg : t.Good cmp) (hp : t.abs.get k = none) :
    t.remove cmp k mem = (.errKeyNotFound, none, t, mem) ∧ t.get cmp k = (.errKeyNotFound, none) ∧
    t.containsKey cmp k = false := C11.remove_absent_inert_partial hc t k mem hk hg hp

/-- conversely a present key is never rejected -/
theorem present_key_accepted_partial (hc : CmpLaw cmp) (t : Table) (k : Key) (mem : Mem) (v : Nat)
    (hk : k ≠ []) (hg : t.Good cmp) (hl : t.Owns mem) (hp : t.abs.get k = some v) :
    (t.remove cmp k mem).1 = .ok ∧ t.get cmp k = (.ok, some v) := by
  refine ⟨(C11.remove_refines_partial hc t k mem v hk hg hl hp).1, ?_⟩
  rw [C11.get_refines_partial hc t k hk hg, hp]

/-- **empty container ⇒ error + unchanged**: every key is absent from the empty table, the empty key too -/
theorem empty_table_rejects (tr : Triple) (k : Key) (mem : Mem) :
    (Table.mk 0 .nil tr).remove cmp k mem = (.errKeyNotFound, none, ⟨0, .nil, tr⟩, mem) ∧
    (Table.mk 0 .nil tr).get cmp k = (.errKeyNotFound, none) := by
  simp [Table.remove, Table.get, Node.findPath, Node.lookup]

/-- `iter_remove` before the first `iter_next`, after `CC_ITER_END`, or repeated (X7): not found, inert -/
theorem iter_remove_without_yield_rejected (t : Table) (it : Iter) (w : Bool) (mem : Mem)
    (h : it.cur = none ∨ it.adv = true) :
    iterRemove t it w mem = (.errKeyNotFound, none, t, it, mem) := iterRemove_inert t it w mem h

/-- `get`, `contains_key`, `size`, enumeration never change the table, whatever they return -/
theorem queries_are_pure (t : Table) (k : Key) (mem : Mem) :
    (t.step cmp (.get k) mem).2 = (t, mem) ∧ (t.step cmp (.contains k) mem).2 = (t, mem) ∧
    (t.step cmp .size mem).2 = (t, mem) ∧ (t.step cmp .enumerate mem).2 = (t, mem) := by
  refine ⟨rfl, rfl, rfl, ?_⟩
  simp [Table.step, iterAll_eq]

/-! non-vacuity: an absent near-miss key (a proper prefix's extension) on the nested-prefix table -/
example : C11.nestedTable.Good cmpSigned ∧ C11.nestedTable.abs.get [97, 99] = none ∧
    C11.nestedTable.remove cmpSigned [97, 99] {} = (.errKeyNotFound, none, C11.nestedTable, {}) := by
  decide

end CC.Properties.C16TST
