import CollectionsC.Properties.C02
import CollectionsC.Proofs.HashSetLedger
/-! # C08 (hash part) — a refused allocation is atomic

`cc_hashtable_add` may complete one or more resizes and only then be refused the entry block (or
be refused a later bucket array): the *map* (`abs`) and `size` are unchanged, the status is
`CC_ERR_ALLOC`, the ledger is still consistent with the table (`live` unchanged: the old bucket
array was released when the new one was installed), the invariant holds — but the capacity may
have grown.  Atomicity is therefore stated on `abs` + ledger + invariant, for every allocator
schedule, every hash function and every key. -/
namespace CC.Properties.C08Hash
open CC CC.HT CC.Spec
open CC.Spec.Map (Op Out)

/-- a failed insertion: documented status, same map, same size, balanced ledger, invariant, no fault -/
theorem add_atomic (c : HCfg) (t : HashTable) (k : Key) (v : Nat) (m : Mem) (h : t.Inv c)
    (hfail : (t.add c k v m).1 ≠ .ok) :
    ((t.add c k v m).1 = .errAlloc ∨ (t.add c k v m).1 = .errMaxCapacity) ∧
    (t.add c k v m).2.1.abs.Perm t.abs ∧ (t.add c k v m).2.1.size = t.size ∧
    liveOf (t.add c k v m).2.2 t.triple = liveOf m t.triple ∧ (t.add c k v m).2.1.Inv c ∧ (t.add c k v m).2.2.fault = m.fault := by
  obtain ⟨a1, _, a3, a4, _⟩ := HashTable.add_spec c t k v m h
  obtain ⟨b1, b2, b3, b4⟩ := a3 hfail
  exact ⟨b1, b2, b3, b4, a1, a4⟩

/-- the allocator is the only source of `CC_ERR_ALLOC`, and without refusals an insertion can only
fail at the maximal capacity `2^31` -/
theorem add_fails_only_when_refused (c : HCfg) (t : HashTable) (k : Key) (v : Nat) (m : Mem) (h : t.Inv c)
    (hs : m.sched = []) :
    (t.add c k v m).1 = .ok ∨
    ((t.add c k v m).1 = .errMaxCapacity ∧ (t.add c k v m).2.1.capacity = Gen.MAX_POW_TWO) :=
  HashTable.add_ok_of_no_refusal c t k v m h hs

/-- **the table stays fully usable**: after a failed insertion every further history produces the
statuses and out-values of the ideal map *as it was before the failed call* -/
theorem continue_after_failed_add (c : HCfg) (t : HashTable) (k : Key) (v : Nat) (m : Mem) (ops : List Op)
    (h : t.Inv c) (hl : t.size + 2 ≤ liveOf m t.triple) (hfail : (t.add c k v m).1 ≠ .ok) :
    let t' := (t.add c k v m).2.1
    let m' := (t.add c k v m).2.2
    (t'.run c ops m').1 = (Map.run t.abs ops (t'.run c ops m').2.1).1 ∧
    (t'.run c ops m').2.2.1.abs.Perm (Map.run t.abs ops (t'.run c ops m').2.1).2 := by
  intro t' m'
  obtain ⟨_, b2, b3, b4, b5, _⟩ := add_atomic c t k v m h hfail
  have hT : (t.add c k v m).2.1.triple = t.triple := (HashTable.add_spec c t k v m h).2.2.2.2.2.2
  have hl' : t'.size + 2 ≤ liveOf m' t'.triple := by
    show (t.add c k v m).2.1.size + 2 ≤ liveOf (t.add c k v m).2.2 (t.add c k v m).2.1.triple
    rw [hT]; omega
  obtain ⟨r1, r2, _⟩ := C02.history_refines c ops t' m' t.abs b5 hl' b2
  exact ⟨r1, r2⟩

/-- **refused_iff**: a call reports `CC_ERR_ALLOC` exactly when a refusal fired during it (for every
operation of the API and every schedule; no invariant needed) -/
theorem refused_iff (c : HCfg) (t : HashTable) (op : Op) (m : Mem) :
    (t.step c op m).1.st = some .errAlloc ↔ (t.step c op m).2.2.nrefused = m.nrefused + 1 := by
  rcases HashTable.step_nrefused c t op m with ⟨a, b⟩ | ⟨a, b⟩
  · exact ⟨fun _ => b, fun _ => a⟩
  · exact ⟨fun x => absurd x a, fun x => by omega⟩

/-- **refused_iff at history level**: the number of `CC_ERR_ALLOC` entries in the failure list of a
history is exactly the number of refusals that fired during it — the ideal map's oracle
(`HashTable.failedOf`) says "refused" precisely when the allocator refused (the only other failure,
`CC_ERR_MAX_CAPACITY`, is pinned by `C02.history_statuses_closed`) -/
theorem history_refused_count (c : HCfg) (ops : List Op) (t : HashTable) (m : Mem) :
    (t.run c ops m).2.2.2.nrefused = m.nrefused + ((t.run c ops m).2.1.filter (· == some .errAlloc)).length := by
  induction ops generalizing t m with
  | nil => rfl
  | cons op ops ih =>
    simp only [HashTable.run]
    rw [ih]
    have hf : (HashTable.failedOf op (t.step c op m).1 == some Stat.errAlloc) = ((t.step c op m).1.st == some Stat.errAlloc) := by
      cases op with
      | add k v =>
        simp only [HashTable.step, HashTable.failedOf]
        cases (t.add c k v m).1 <;> rfl
      | get k =>
        have := (HashTable.step_nrefused c t (.get k) m)
        simp only [HashTable.failedOf]
        rcases this with ⟨a, b⟩ | ⟨a, _⟩
        · simp only [HashTable.step, HashTable.get] at a; split at a <;> simp at a
        · simp [a]
      | containsKey k => simp [HashTable.failedOf, HashTable.step]
      | remove k =>
        have := (HashTable.step_nrefused c t (.remove k) m)
        simp only [HashTable.failedOf]
        rcases this with ⟨a, b⟩ | ⟨a, _⟩
        · simp only [HashTable.step, HashTable.remove] at a; split at a <;> simp at a
        · simp [a]
      | removeAll => simp [HashTable.failedOf, HashTable.step]
    rcases HashTable.step_nrefused c t op m with ⟨a, b⟩ | ⟨a, b⟩
    · rw [b, List.filter_cons, hf, a]; simp; omega
    · rw [b, List.filter_cons, hf]
      have : ((t.step c op m).1.st == some Stat.errAlloc) = false := by simpa using a
      rw [this]; simp

/-- **every failure is pinned, for every schedule** (the oracle `failedOf` that the ideal map takes
from the run): an insertion reports `CC_OK`, or `CC_ERR_ALLOC` exactly with a fired refusal, or
`CC_ERR_MAX_CAPACITY` — and then the table has the maximal capacity `2^31` and no refusal fired -/
theorem add_failure_pinned (c : HCfg) (t : HashTable) (k : Key) (v : Nat) (m : Mem) (h : t.Inv c) :
    (t.add c k v m).1 = .ok ∨
    ((t.add c k v m).1 = .errAlloc ∧ (t.add c k v m).2.2.nrefused = m.nrefused + 1) ∨
    ((t.add c k v m).1 = .errMaxCapacity ∧ (t.add c k v m).2.1.capacity = Gen.MAX_POW_TWO ∧
       (t.add c k v m).2.2.nrefused = m.nrefused) := by
  by_cases hok : (t.add c k v m).1 = .ok
  · exact Or.inl hok
  · rcases ((HashTable.add_spec c t k v m h).2.2.1 hok).1 with h1 | h1
    · right; left
      rcases HashTable.add_nrefused c t k v m with ⟨_, b⟩ | ⟨a, _⟩
      · exact ⟨h1, b⟩
      · exact absurd h1 a
    · right; right
      rcases HashTable.add_nrefused c t k v m with ⟨a, _⟩ | ⟨_, b⟩
      · rw [h1] at a; cases a
      · exact ⟨h1, HashTable.add_maxcap c t k v m h h1, b⟩

/-- … at history level: every entry of the failure list is `none`, `CC_ERR_ALLOC` (counted by
`history_refused_count`) or `CC_ERR_MAX_CAPACITY`, the latter only in a history that ends at capacity `2^31` -/
theorem history_failures_pinned (c : HCfg) (ops : List Op) (t : HashTable) (m : Mem) (h : t.Inv c)
    (hl : t.size + 2 ≤ liveOf m t.triple) :
    ∀ f ∈ (t.run c ops m).2.1, f = none ∨ f = some .errAlloc ∨
      (f = some .errMaxCapacity ∧ (t.run c ops m).2.2.1.capacity = Gen.MAX_POW_TWO) :=
  (HashTable.run_failures_pinned c ops t m h hl).1

/-- a call that does not report `CC_ERR_ALLOC` saw no refusal -/
theorem not_refused (c : HCfg) (t : HashTable) (op : Op) (m : Mem) (h : (t.step c op m).1.st ≠ some .errAlloc) :
    (t.step c op m).2.2.nrefused = m.nrefused := by
  rcases HashTable.step_nrefused c t op m with ⟨a, _⟩ | ⟨_, b⟩
  · exact absurd a h
  · exact b

/-- **atomic**, per step of the API: after a failed call the map, the size and the ledger are what
they were, the invariant holds, nothing faulted (only `add` can fail; a failed `add` may have grown
the bucket array, which is why atomicity is on `abs` and not on the physical state) -/
theorem atomic (c : HCfg) (t : HashTable) (op : Op) (m : Mem) (h : t.Inv c) (hl : t.size + 2 ≤ liveOf m t.triple)
    (hf : (t.step c op m).1.st = some .errAlloc) :
    (t.step c op m).2.1.abs.Perm t.abs ∧ (t.step c op m).2.1.size = t.size ∧
    liveOf (t.step c op m).2.2 t.triple = liveOf m t.triple ∧ (t.step c op m).2.1.Inv c ∧ (t.step c op m).2.2.fault = m.fault := by
  cases op with
  | add k v =>
    simp only [HashTable.step] at hf ⊢
    have hne : (t.add c k v m).1 ≠ .ok := by
      intro hok; rw [hok] at hf; simp at hf
    obtain ⟨_, b2, b3, b4, b5, b6⟩ := add_atomic c t k v m h hne
    exact ⟨b2, b3, b4, b5, b6⟩
  | get k => rcases HashTable.step_nrefused c t (.get k) m with ⟨_, b⟩ | ⟨a, _⟩
             · have := (HashTable.get_refines c t k m h).2.1
               simp only [HashTable.step] at hf; rw [this] at hf; split at hf <;> simp at hf
             · exact absurd hf a
  | containsKey k => simp [HashTable.step] at hf
  | remove k =>
    have := (HashTable.remove_spec c t k m h (fun _ => by omega)).2.2.2.1
    simp only [HashTable.step] at hf; rw [this] at hf; split at hf <;> simp at hf
  | removeAll => simp [HashTable.step] at hf

/-- the constructor reports `CC_ERR_ALLOC` exactly when one of its two requests was refused -/
theorem new_refused_iff (c : HCfg) (cap : Nat) (tr : Triple) (m : Mem) :
    (HashTable.new c cap tr m).1 = .errAlloc ↔ ((m.allocT tr).1 = false ∨ ((m.allocT tr).2.allocT tr).1 = false) := by
  unfold HashTable.new; simp only
  cases h1 : (m.allocT tr).1 <;> cases h2 : ((m.allocT tr).2.allocT tr).1 <;> simp

/-- **continue**: after a failed insertion, any further history produces the same outputs and ends in
the same map as the same history run on the table as it was before the failed call (from any
ledger), provided the same later insertions are refused in both runs — the failed call might as
well never have happened -/
theorem continue_ (c : HCfg) (t : HashTable) (k : Key) (v : Nat) (m mA : Mem) (ops : List Op)
    (h : t.Inv c) (hl : t.size + 2 ≤ liveOf m t.triple) (hlA : t.size + 2 ≤ liveOf mA t.triple) (hfail : (t.add c k v m).1 ≠ .ok)
    (hsame : ((t.add c k v m).2.1.run c ops (t.add c k v m).2.2).2.1 = (t.run c ops mA).2.1) :
    ((t.add c k v m).2.1.run c ops (t.add c k v m).2.2).1 = (t.run c ops mA).1 ∧
    ((t.add c k v m).2.1.run c ops (t.add c k v m).2.2).2.2.1.abs.Perm (t.run c ops mA).2.2.1.abs := by
  obtain ⟨r1, r2⟩ := continue_after_failed_add c t k v m ops h hl hfail
  obtain ⟨q1, q2, _⟩ := C02.history_refines c ops t mA t.abs h hlA (List.Perm.refl _)
  rw [hsame] at r1 r2
  exact ⟨by rw [r1, q1], r2.trans q2.symm⟩

/-- **continue, without an oracle**: once the schedule is exhausted (the allocator "has memory
again") and as long as neither run reaches the maximal capacity `2^31`, the continuation after the
failed insertion and the same history on the untouched table produce identical outputs and the same
map — from any two ledgers that do not refuse -/
theorem continue_no_refusal (c : HCfg) (t : HashTable) (k : Key) (v : Nat) (m mA : Mem) (ops : List Op)
    (h : t.Inv c) (hl : t.size + 2 ≤ liveOf m t.triple) (hlA : t.size + 2 ≤ liveOf mA t.triple)
    (hfail : (t.add c k v m).1 ≠ .ok)
    (hs : (t.add c k v m).2.2.sched = []) (hsA : mA.sched = [])
    (hcap : ((t.add c k v m).2.1.run c ops (t.add c k v m).2.2).2.2.1.capacity ≠ Gen.MAX_POW_TWO)
    (hcapA : (t.run c ops mA).2.2.1.capacity ≠ Gen.MAX_POW_TWO) :
    ((t.add c k v m).2.1.run c ops (t.add c k v m).2.2).1 = (t.run c ops mA).1 ∧
    ((t.add c k v m).2.1.run c ops (t.add c k v m).2.2).2.2.1.abs.Perm (t.run c ops mA).2.2.1.abs := by
  obtain ⟨_, _, b3, b4, b5, _⟩ := add_atomic c t k v m h hfail
  have hT : (t.add c k v m).2.1.triple = t.triple := (HashTable.add_spec c t k v m h).2.2.2.2.2.2
  have f1 := (C02.history_statuses_closed c ops _ _ b5 (by rw [hT]; omega) hs hcap).1
  have f2 := (C02.history_statuses_closed c ops t mA h hlA hsA hcapA).1
  exact continue_ c t k v m mA ops h hl hlA hfail (by rw [f1, f2])

/-- why `continue_` compares the failure lists and not "the same remaining schedule": after a failed
insertion the table may already be resized, so the continuation performs *fewer* allocations than the
same history on the untouched table and later refusals hit different calls.  Witness: capacity 1,
threshold `cap/2`; the first `add` resizes and is refused the entry (schedule `[false, true]`); with
the remaining schedule `[false, true]` the continuation inserts key 2 successfully, the untouched
table is refused. -/
example :
    let c : HCfg := ⟨fun k => k, fun cap => cap / 2, fun cap => cap * 2⟩
    let t : HashTable := HashTable.mk 1 0 0 [[]] .conf
    let r := t.add c (some 1) 1 { live := 2, sched := [false, true, false, true] }
    r.1 = .errAlloc ∧ r.2.2.sched = [false, true] ∧
    (r.2.1.add c (some 2) 2 r.2.2).1 = .ok ∧
    (t.add c (some 2) 2 { live := 2, sched := [false, true] }).1 = .errAlloc := by decide

/-- the same on the ideal map: a refused insertion in the middle of a history changes neither the
final map nor any other output -/
theorem spec_continue (sp : Map) (ops₁ ops₂ : List Op) (k : Key) (v : Nat) (st : Stat)
    (fs₁ fs₂ : List (Option Stat)) (hlen : fs₁.length = ops₁.length) :
    (Map.run sp (ops₁ ++ Op.add k v :: ops₂) (fs₁ ++ some st :: fs₂)).2 = (Map.run sp (ops₁ ++ ops₂) (fs₁ ++ fs₂)).2 ∧
    ∃ o₁ o₂, (Map.run sp (ops₁ ++ Op.add k v :: ops₂) (fs₁ ++ some st :: fs₂)).1 = o₁ ++ ⟨some st, none⟩ :: o₂ ∧
      (Map.run sp (ops₁ ++ ops₂) (fs₁ ++ fs₂)).1 = o₁ ++ o₂ := by
  induction ops₁ generalizing sp fs₁ with
  | nil =>
    cases fs₁ with
    | nil => exact ⟨rfl, [], _, rfl, rfl⟩
    | cons _ _ => simp at hlen
  | cons op ops₁ ih =>
    cases fs₁ with
    | nil => simp at hlen
    | cons f fs₁ =>
      simp only [List.length_cons, Nat.add_right_cancel_iff] at hlen
      obtain ⟨i1, o₁, o₂, i2, i3⟩ := ih (Map.step sp op f).2 fs₁ hlen
      simp only [List.cons_append, Map.run, List.headD_cons, List.tail_cons]
      exact ⟨i1, (Map.step sp op f).1 :: o₁, o₂, by rw [i2]; rfl, by rw [i3]; rfl⟩

/-- a refused constructor yields no object and leaves the ledger as it was -/
theorem new_atomic (c : HCfg) (cap : Nat) (tr : Triple) (m : Mem) (hfail : (HashTable.new c cap tr m).1 ≠ .ok) :
    (HashTable.new c cap tr m).1 = .errAlloc ∧ (HashTable.new c cap tr m).2.1 = none ∧
    liveOf (HashTable.new c cap tr m).2.2 tr = liveOf m tr ∧ (HashTable.new c cap tr m).2.2.fault = m.fault := by
  obtain ⟨n1, n2, _, n4, _⟩ := HashTable.new_spec c cap tr m
  obtain ⟨q1, q2⟩ := n2 hfail
  rcases n1 with h | h
  · exact absurd h hfail
  · exact ⟨h, q1, q2, n4⟩

/-- refused `get_keys`/`get_values`: no array, nothing leaked, no fault (the table itself is not
touched by these functions at all) -/
theorem enumeration_atomic (c : HCfg) (t : HashTable) (m : Mem) (h : t.Inv c) (hpos : 0 < t.size)
    (hbig : 8 * t.size ≤ Gen.CC_MAX_ELEMENTS) :
    ((t.getKeys c m).1 ≠ .ok → (t.getKeys c m).1 = .errAlloc ∧ (t.getKeys c m).2.1 = none ∧
        liveOf (t.getKeys c m).2.2 t.triple = liveOf m t.triple) ∧
    ((t.getValues c m).1 ≠ .ok → (t.getValues c m).1 = .errAlloc ∧ (t.getValues c m).2.1 = none ∧
        liveOf (t.getValues c m).2.2 t.triple = liveOf m t.triple) ∧
    (t.getKeys c m).2.2.fault = m.fault ∧ (t.getValues c m).2.2.fault = m.fault := by
  have hw := HashTable.walk_eq t h.2.1
  have hsz := h.2.2.1
  obtain ⟨s1, s2, _, s4, _⟩ := (HashTable.collect_spec c t (t.walk.map (fun e => encKey e.key)) m h (by rw [hw, List.length_map]; omega) hbig).2 hpos
  obtain ⟨v1, v2, _, v4, _⟩ := (HashTable.collect_spec c t (t.walk.map (·.value)) m h (by rw [hw, List.length_map]; omega) hbig).2 hpos
  refine ⟨?_, ?_, s4, v4⟩
  · intro hne
    rcases s1 with h1 | h1
    · exact absurd h1 hne
    · exact ⟨h1, s2 hne⟩
  · intro hne
    rcases v1 with h1 | h1
    · exact absurd h1 hne
    · exact ⟨h1, v2 hne⟩

/-- hash set: the wrapped constructor propagates the inner failure and frees the outer header;
a failed `cc_hashset_add` leaves the set unchanged; nothing faults -/
theorem set_atomic (c : HCfg) (cap : Nat) (tr : Triple) (s : HashSet) (e : Key) (m : Mem) (h : s.Inv c) :
    ((HashSet.new c cap tr m).1 ≠ .ok → (HashSet.new c cap tr m).2.1 = none ∧
        liveOf (HashSet.new c cap tr m).2.2 tr = liveOf m tr) ∧
    (HashSet.new c cap tr m).2.2.fault = m.fault ∧
    ((s.add c e m).1 ≠ .ok → ((s.add c e m).1 = .errAlloc ∨ (s.add c e m).1 = .errMaxCapacity) ∧
        (s.add c e m).2.1.abs.Perm s.abs ∧ (s.add c e m).2.1.size = s.size ∧
        liveOf (s.add c e m).2.2 s.triple = liveOf m s.triple ∧ (s.add c e m).2.1.Inv c) ∧
    (s.add c e m).2.2.fault = m.fault := by
  obtain ⟨_, n2, _, n4⟩ := HashSet.new_spec c cap tr m
  obtain ⟨a1, _, a3, a4, _⟩ := HashSet.add_spec c s e m h
  exact ⟨n2, n4, fun hne => ⟨(a3 hne).1, (a3 hne).2.1, (a3 hne).2.2.1, (a3 hne).2.2.2, a1⟩, a4⟩

/-- **continue for the set**: after a failed `cc_hashset_add` every further history produces the
statuses of the ideal set as it was before the failed call -/
theorem set_continue_after_failed_add (c : HCfg) (s : HashSet) (e : Key) (m : Mem) (ops : List Set.Op)
    (h : s.Inv c) (hl : s.size + 3 ≤ liveOf m s.triple) (hfail : (s.add c e m).1 ≠ .ok) :
    ((s.add c e m).2.1.run c ops (s.add c e m).2.2).1 = (Set.run s.abs ops ((s.add c e m).2.1.run c ops (s.add c e m).2.2).2.1).1 ∧
    ((s.add c e m).2.1.run c ops (s.add c e m).2.2).2.2.1.abs.Perm (Set.run s.abs ops ((s.add c e m).2.1.run c ops (s.add c e m).2.2).2.1).2 := by
  obtain ⟨a1, _, a3, _, a5⟩ := HashSet.add_spec c s e m h
  obtain ⟨_, b2, b3, b4⟩ := a3 hfail
  obtain ⟨r1, r2, _⟩ := C02.set_history_refines c ops (s.add c e m).2.1 (s.add c e m).2.2 s.abs a1 (by rw [a5]; omega) b2
  exact ⟨r1, r2⟩

/-- hash set: `CC_ERR_ALLOC` exactly when a refusal fired -/
theorem set_refused_iff (c : HCfg) (s : HashSet) (op : Set.Op) (m : Mem) :
    (s.step c op m).1.st = some .errAlloc ↔ (s.step c op m).2.2.nrefused = m.nrefused + 1 := by
  rcases HashSet.step_nrefused c s op m with ⟨a, b⟩ | ⟨a, b⟩
  · exact ⟨fun _ => b, fun _ => a⟩
  · exact ⟨fun x => absurd x a, fun x => by omega⟩

/-- non-vacuity: capacity 1, threshold 0 at capacities 1 and 2 — the insertion resizes twice and is
then refused the entry (third allocation): status `CC_ERR_ALLOC`, empty map, capacity 4, ledger unchanged -/
example : ((HashTable.mk 1 0 0 [[]] .conf).add ⟨fun k => k, fun cap => cap / 4, fun cap => cap * 2⟩ (some 5) 50
      { live := 2, sched := [false, false, true] }).1 = .errAlloc := by decide
example : ((HashTable.mk 1 0 0 [[]] .conf).add ⟨fun k => k, fun cap => cap / 4, fun cap => cap * 2⟩ (some 5) 50
      { live := 2, sched := [false, false, true] }).2.1 = HashTable.mk 4 0 1 [[], [], [], []] .conf := by decide
example : ((HashTable.mk 1 0 0 [[]] .conf).add ⟨fun k => k, fun cap => cap / 4, fun cap => cap * 2⟩ (some 5) 50
      { live := 2, sched := [false, false, true] }).2.2.live = 2 := by decide

end CC.Properties.C08Hash
