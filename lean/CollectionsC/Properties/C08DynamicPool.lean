import CollectionsC.Properties.C13
/-! # C08 (dynamic pool part): a refused page allocation is atomic -/
namespace CC.Properties.C08DynamicPool
open CC CC.Spec
open CC.Spec.DPool (Op)

/-- a refusal fires in `malloc` **iff** the request needs a new page that the pool may add (smaller
than the newest page, does not fit there, pool expandable, fits the next page size) and the
allocator refuses it -/
theorem malloc_refused_iff (grow : Nat → Nat) (fresh : Nat) (s : DynamicPool) (n : Nat) (m : Mem) :
    (DynamicPool.malloc grow fresh s n m).2.2.nrefused ≠ m.nrefused ↔
      (n < s.topPageSize ∧ ¬ n + padOf s.isPacked s.ab n ≤ s.topPageSize - s.free ∧ s.isFixed = false ∧
        n + padOf s.isPacked s.ab n ≤ grow s.topPageSize ∧ m.alloc.1 = false) :=
  DynamicPool.malloc_refused_iff grow fresh s n m

/-- **atomic**: when the page is refused, `malloc`/`calloc` return NULL, every field of the pool
(pages, bump pointers, configuration, live blocks) is unchanged and the ledger is unchanged -/
theorem refused_page_atomic (grow : Nat → Nat) (fresh : Nat) (s : DynamicPool) (m : Mem) :
    (∀ n, (DynamicPool.malloc grow fresh s n m).2.2.nrefused ≠ m.nrefused →
      (DynamicPool.malloc grow fresh s n m).1 = none ∧ (DynamicPool.malloc grow fresh s n m).2.1 = s ∧
      (DynamicPool.malloc grow fresh s n m).2.2.live = m.live) ∧
    (∀ c k, (DynamicPool.calloc grow fresh s c k m).2.2.nrefused ≠ m.nrefused →
      (DynamicPool.calloc grow fresh s c k m).1 = none ∧ (DynamicPool.calloc grow fresh s c k m).2.1 = s ∧
      (DynamicPool.calloc grow fresh s c k m).2.2.live = m.live) :=
  C13.refused_page_atomic grow fresh s m

/-- **continue**: a history that starts with a refused `malloc` continues, on the pool, exactly as
the history without it run from the ledger the refusal left behind -/
theorem refused_malloc_skipped (grow : Nat → Nat) (fresh : Nat) (s : DynamicPool) (n : Nat) (r : Bool)
    (ops : List Op) (m : Mem) (h : (DynamicPool.malloc grow fresh s n m).2.2.nrefused ≠ m.nrefused) :
    (DynamicPool.run grow fresh s (.malloc n r :: ops) m).1 =
      none :: (DynamicPool.run grow fresh s ops (DynamicPool.malloc grow fresh s n m).2.2).1 ∧
    (DynamicPool.run grow fresh s (.malloc n r :: ops) m).2.2.1 =
      (DynamicPool.run grow fresh s ops (DynamicPool.malloc grow fresh s n m).2.2).2.2.1 := by
  obtain ⟨e1, e2, _⟩ := (refused_page_atomic grow fresh s m).1 n h
  simp only [DynamicPool.run, DynamicPool.step, e1, e2]
  exact ⟨trivial, trivial⟩

/-- with an allocator that does not refuse, no `malloc` is refused -/
theorem no_refusal (grow : Nat → Nat) (fresh : Nat) (s : DynamicPool) (n : Nat) (m : Mem) (hs : m.sched = []) :
    (DynamicPool.malloc grow fresh s n m).2.2.nrefused = m.nrefused := by
  apply Decidable.byContradiction
  intro h
  have := ((malloc_refused_iff grow fresh s n m).1 h).2.2.2.2
  rw [(Mem.alloc_nil m hs).1] at this; cases this

/-- the constructor: `CC_ERR_ALLOC` iff one of its two allocator calls is refused; then there is no
pool and nothing leaked -/
theorem new_refused_iff (size ab fresh : Nat) (fixed packed : Bool) (m : Mem) :
    (DynamicPool.new size fixed packed ab fresh m).1 = .errAlloc ↔ (m.alloc.1 = false ∨ m.alloc.2.alloc.1 = false) := by
  unfold DynamicPool.new; dsimp only
  cases m.alloc.1 <;> cases m.alloc.2.alloc.1 <;> simp

theorem new_atomic (size ab fresh : Nat) (fixed packed : Bool) (m : Mem)
    (h : (DynamicPool.new size fixed packed ab fresh m).1 = .errAlloc) :
    (DynamicPool.new size fixed packed ab fresh m).2.1 = none ∧
    (DynamicPool.new size fixed packed ab fresh m).2.2.live = m.live :=
  (C13.new_refused size ab fresh fixed packed m (by rw [h]; simp)).2

end CC.Properties.C08DynamicPool
