import CollectionsC.Properties.C13
/-! # C08 (dynamic pool part): a refused page allocation is atomic -/
namespace CC.Properties.C08DynamicPool
open CC CC.Spec
open CC.Spec.DPool (Op)

/-- a refusal fires in `malloc` **iff** the request needs a new page that the pool may add (smaller
than the newest page, does not fit there, pool expandable, fits the next page size, which is
addressable) and the pool's allocator triple refuses it -/
theorem malloc_refused_iff (grow : Nat → Nat) (fresh : Nat) (s : DynamicPool) (n : Nat) (m : Mem) :
    (DynamicPool.malloc grow fresh s n m).2.2.nrefused ≠ m.nrefused ↔
      (n < s.topPageSize ∧ ¬ n + padOf s.isPacked s.ab n ≤ s.topPageSize - s.free ∧ s.isFixed = false ∧
        n + padOf s.isPacked s.ab n ≤ grow s.topPageSize ∧ grow s.topPageSize ≤ pageLimit ∧
        (m.allocT s.triple).1 = false) :=
  DynamicPool.malloc_refused_iff grow fresh s n m

/-- **atomic**: when the page is refused, `malloc`/`calloc` return NULL, every field of the pool
(pages, bump pointers, configuration, live blocks) is unchanged and the ledger is unchanged -/
theorem refused_page_atomic (grow : Nat → Nat) (fresh : Nat) (s : DynamicPool) (m : Mem) :
    (∀ n, (DynamicPool.malloc grow fresh s n m).2.2.nrefused ≠ m.nrefused →
      (DynamicPool.malloc grow fresh s n m).1 = none ∧ (DynamicPool.malloc grow fresh s n m).2.1 = s ∧
      (DynamicPool.malloc grow fresh s n m).2.2.liveT s.triple = m.liveT s.triple) ∧
    (∀ c k, (DynamicPool.calloc grow fresh s c k m).2.2.nrefused ≠ m.nrefused →
      (DynamicPool.calloc grow fresh s c k m).1 = none ∧ (DynamicPool.calloc grow fresh s c k m).2.1 = s ∧
      (DynamicPool.calloc grow fresh s c k m).2.2.liveT s.triple = m.liveT s.triple) :=
  C13.refused_page_atomic grow fresh s m

/-- a refused page leaves the fault flag alone too, and the other triple's blocks -/
theorem refused_page_no_fault (grow : Nat → Nat) (fresh : Nat) (s : DynamicPool) (m : Mem) (h : s.Inv) :
    (∀ n, (DynamicPool.malloc grow fresh s n m).2.2.fault = m.fault ∧
          (DynamicPool.malloc grow fresh s n m).2.2.liveO s.triple = m.liveO s.triple) ∧
    (∀ c k, (DynamicPool.calloc grow fresh s c k m).2.2.fault = m.fault ∧
          (DynamicPool.calloc grow fresh s c k m).2.2.liveO s.triple = m.liveO s.triple) :=
  ⟨fun n => (DynamicPool.malloc_ledger grow fresh s n m).2.2, fun c k => (DynamicPool.calloc_ledger grow fresh s c k m h).2.2⟩

/-- the first step of a history, unfolded -/
theorem refused_malloc_skipped (grow : Nat → Nat) (fresh : Nat) (s : DynamicPool) (n : Nat) (r : Bool)
    (ops : List Op) (m : Mem) (h : (DynamicPool.malloc grow fresh s n m).2.2.nrefused ≠ m.nrefused) :
    (DynamicPool.run grow fresh s (.malloc n r :: ops) m).1 =
      none :: (DynamicPool.run grow fresh s ops (DynamicPool.malloc grow fresh s n m).2.2).1 ∧
    (DynamicPool.run grow fresh s (.malloc n r :: ops) m).2.2.1 =
      (DynamicPool.run grow fresh s ops (DynamicPool.malloc grow fresh s n m).2.2).2.2.1 := by
  obtain ⟨e1, e2, _⟩ := (refused_page_atomic grow fresh s m).1 n h
  simp only [DynamicPool.run, DynamicPool.step, e1, e2]
  exact ⟨trivial, trivial⟩

/-- **continue after a refused page**, for every schedule and a second ledger: if the `malloc`
(resp. `calloc`) that starts a history is refused its page, the rest of the history returns the same
pointers and ends in the same pool as the history *without* that call run on any ledger `m'` whose
schedule is the one the refusal left behind — once the page allocator succeeds again the pool
continues as if the refused request had never been made -/
theorem continue_after_refusal (grow : Nat → Nat) (fresh : Nat) (s : DynamicPool) (n : Nat) (r : Bool)
    (ops : List Op) (m m' : Mem) (h : (DynamicPool.malloc grow fresh s n m).2.2.nrefused ≠ m.nrefused)
    (hs : m'.sched = (DynamicPool.malloc grow fresh s n m).2.2.sched) :
    (DynamicPool.run grow fresh s (.malloc n r :: ops) m).1 = none :: (DynamicPool.run grow fresh s ops m').1 ∧
    (DynamicPool.run grow fresh s (.malloc n r :: ops) m).2.2.1 = (DynamicPool.run grow fresh s ops m').2.2.1 := by
  have h1 := refused_malloc_skipped grow fresh s n r ops m h
  have h2 := DynamicPool.run_indep grow fresh ops s (DynamicPool.malloc grow fresh s n m).2.2 m' hs.symm
  rw [h1.1, h1.2, h2.1, h2.2.2]
  exact ⟨rfl, rfl⟩

theorem continue_after_refused_calloc (grow : Nat → Nat) (fresh : Nat) (s : DynamicPool) (c k : Nat) (r : Bool)
    (ops : List Op) (m m' : Mem) (h : (DynamicPool.calloc grow fresh s c k m).2.2.nrefused ≠ m.nrefused)
    (hs : m'.sched = (DynamicPool.calloc grow fresh s c k m).2.2.sched) :
    (DynamicPool.run grow fresh s (.calloc c k r :: ops) m).1 = none :: (DynamicPool.run grow fresh s ops m').1 ∧
    (DynamicPool.run grow fresh s (.calloc c k r :: ops) m).2.2.1 = (DynamicPool.run grow fresh s ops m').2.2.1 := by
  obtain ⟨e1, e2, _⟩ := (refused_page_atomic grow fresh s m).2 c k h
  have h2 := DynamicPool.run_indep grow fresh ops s (DynamicPool.calloc grow fresh s c k m).2.2 m' hs.symm
  simp only [DynamicPool.run, DynamicPool.step, e1, e2]
  rw [h2.1, h2.2.2]
  exact ⟨rfl, rfl⟩

/-- results of every history depend on the ledger only through the refusal schedule -/
theorem history_allocator_independent (grow : Nat → Nat) (fresh : Nat) (ops : List Op) (s : DynamicPool) (m m' : Mem)
    (hs : m.sched = m'.sched) :
    (DynamicPool.run grow fresh s ops m).1 = (DynamicPool.run grow fresh s ops m').1 ∧
    (DynamicPool.run grow fresh s ops m).2.2.1 = (DynamicPool.run grow fresh s ops m').2.2.1 :=
  ⟨(DynamicPool.run_indep grow fresh ops s m m' hs).1, (DynamicPool.run_indep grow fresh ops s m m' hs).2.2⟩

/-- with an allocator that does not refuse, no `malloc` is refused -/
theorem no_refusal (grow : Nat → Nat) (fresh : Nat) (s : DynamicPool) (n : Nat) (m : Mem) (hs : m.sched = []) :
    (DynamicPool.malloc grow fresh s n m).2.2.nrefused = m.nrefused := by
  apply Decidable.byContradiction
  intro h
  have := ((malloc_refused_iff grow fresh s n m).1 h).2.2.2.2.2
  rw [(Mem.allocT_nil m s.triple hs).1] at this; cases this

/-- a pool on the C library (`cc_dynamic_pool_new`) is never refused a page -/
theorem libc_never_refused (grow : Nat → Nat) (fresh : Nat) (s : DynamicPool) (n : Nat) (m : Mem) (ht : s.triple = .libc) :
    (DynamicPool.malloc grow fresh s n m).2.2.nrefused = m.nrefused := by
  apply Decidable.byContradiction
  intro h
  have := ((malloc_refused_iff grow fresh s n m).1 h).2.2.2.2.2
  rw [ht] at this; cases this

/-- the constructor: `CC_ERR_ALLOC` iff the size is acceptable and one of its two allocator calls is
refused; then there is no pool and nothing leaked -/
theorem new_refused_iff (size ab fresh : Nat) (fixed packed : Bool) (t : Triple) (m : Mem) :
    (DynamicPool.new size fixed packed ab fresh t m).1 = .errAlloc ↔
      (size ≤ pageLimit ∧ ((m.allocT t).1 = false ∨ ((m.allocT t).2.allocT t).1 = false)) := by
  unfold DynamicPool.new; dsimp only
  rw [DynamicPool.pgLimit_eq]
  by_cases h0 : size > pageLimit
  · have : ¬ size ≤ pageLimit := by omega
    simp [h0, this]
  · have : size ≤ pageLimit := by omega
    simp only [h0, if_false, this, true_and]
    cases (m.allocT t).1 <;> cases ((m.allocT t).2.allocT t).1 <;> simp

theorem new_atomic (size ab fresh : Nat) (fixed packed : Bool) (t : Triple) (m : Mem)
    (h : (DynamicPool.new size fixed packed ab fresh t m).1 = .errAlloc) :
    (DynamicPool.new size fixed packed ab fresh t m).2.1 = none ∧
    (DynamicPool.new size fixed packed ab fresh t m).2.2.liveT t = m.liveT t ∧
    (DynamicPool.new size fixed packed ab fresh t m).2.2.fault = m.fault :=
  (C13.new_refused size ab fresh fixed packed t m (by rw [h]; simp)).2

/-! Non-vacuity: a refusing schedule on a pool that must grow -/
example :
    let s : DynamicPool := DynamicPool.mk .conf false true 4 1 [PPage.mk 4 [1, 1, 1, 238] [PBlk.mk 0 3 3]] 3 0 true
    let m : Mem := { sched := [true], live := 2 }
    s.Inv ∧ (DynamicPool.malloc (fun c => 2 * c) 238 s 3 m).1 = none ∧
    (DynamicPool.malloc (fun c => 2 * c) 238 s 3 m).2.1 = s ∧
    (DynamicPool.malloc (fun c => 2 * c) 238 s 3 m).2.2.nrefused = 1 ∧
    (DynamicPool.malloc (fun c => 2 * c) 238 s 3 {}).1 = some (1, 0) := by
  decide

end CC.Properties.C08DynamicPool
