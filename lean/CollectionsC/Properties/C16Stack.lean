import CollectionsC.Properties.C09Stack
import CollectionsC.Proofs.StackMem
/-! # C16 (stack part) — rejected stack operations are inert

Statements only.  The stack has no index arguments; its rejections are: pop/peek on the empty stack,
`filter`/`filter_mut` on the empty stack, `iter_replace` before the first yield, an invalid capacity
in the constructor.  Each reports an error status and leaves the **whole physical state** (inner
array: size, capacity, buffer, configuration), every iterator and the ledger unchanged. -/
namespace CC.Properties.C16Stack
open CC
open CC.Spec.Seq (SOp Out)

/-- any push/pop/peek/size call that reports an error returns the stack it was given -/
theorem error_is_inert (s : Stack) (op : SOp) (m : Mem) (hinv : s.Inv) (st : Stat)
    (h1 : (s.step op m).1.st = some st) (h2 : st ≠ .ok) :
    (s.step op m).2.1 = s ∧ (s.step op m).2.2.live = m.live ∧ (s.step op m).2.2.liveLibc = m.liveLibc ∧
    (s.step op m).2.2.fault = m.fault ∧ (st ≠ .errAlloc → (s.step op m).2.2.nrefused = m.nrefused) := by
  obtain ⟨_, _, _, _, s5, s6, s7⟩ := C09Stack.step_refines s op m hinv
  obtain ⟨l1, l2, l3, _⟩ := Stack.step_led s op m hinv
  refine ⟨Stack.ext_v (s7 st h1 h2) (Stack.step_inv s op m hinv).2.2, s5, ?_, s6, fun hne => ?_⟩
  · cases ht : s.v.triple with
    | conf => rw [ht] at l2; exact l2.1
    | libc => rw [ht] at l1; simpa [Arr.own] using l1
  · have : ¬ (s.step op m).1.st = some .errAlloc := by rw [h1]; simpa using hne
    simpa [this] using l3

/-- pop and peek succeed exactly on non-empty stacks; on the empty stack: error, nothing changed -/
theorem empty_rejected (s : Stack) (m : Mem) (hinv : s.Inv) :
    ((s.pop m).1 = .ok ↔ s.abs ≠ []) ∧ ((s.peek m).1 = .ok ↔ s.abs ≠ []) ∧
    (s.abs = [] → (s.pop m).2.2.1 = s ∧ (s.pop m).2.2.2 = m ∧ (s.pop m).2.1 = none ∧
      (s.peek m).2.1 = none ∧ (s.peek m).2.2 = m) := by
  obtain ⟨r1, r2, _, _, _, r6, r7, r8, _⟩ := Arr.removeLast_spec s.v m hinv
  obtain ⟨g1, g2, g3, g4⟩ := Arr.getLast_spec s.v m hinv
  have hne : s.abs ≠ [] ↔ 0 < s.v.size := by
    rw [Ne, show s.abs = s.v.abs from rfl, Arr.abs_eq_nil_iff]; omega
  refine ⟨by rw [hne]; exact r8, by rw [hne]; exact g4, fun h => ?_⟩
  have h0 : ¬ 0 < s.v.size := by rw [← hne]; simpa using h
  have hnok : (s.v.removeLast m).1 ≠ .ok := fun hk => h0 (r8.1 hk)
  have hs : s.v.abs = [] := h
  refine ⟨Stack.ext_v (r7 hnok) rfl, r6, ?_, ?_, g3⟩
  · show (s.v.removeLast m).2.1 = none
    rw [r2, hs]; simp [Spec.Seq.removeLast]
  · show (s.v.getLast m).2.1 = none
    rw [g2, hs]; simp [Spec.Seq.getLast]

/-- `filter_mut` and `filter` refuse the empty stack and change / build nothing -/
theorem filter_empty_rejected (p : Nat → Bool) (s : Stack) (dgrow : Nat → Nat) (dexGe : Nat → Bool) (m : Mem)
    (hinv : s.Inv) (h : s.abs = []) :
    (s.filterMut p m).1 = .errOutOfRange ∧ (s.filterMut p m).2.1 = s ∧ (s.filterMut p m).2.2.2 = m ∧
    (s.filter p dgrow dexGe m).1 = .errOutOfRange ∧ (s.filter p dgrow dexGe m).2.1 = none ∧
    (s.filter p dgrow dexGe m).2.2.2 = m := by
  obtain ⟨r1, _, _, _, r5, _, r7, r8⟩ := Arr.filterMut_spec p s.v m hinv
  have hs : s.v.abs = [] := h
  have hst : (s.v.filterMut p m).1 = .errOutOfRange := by rw [r1, hs]; simp [Spec.Seq.filterMut]
  have hnok : (s.v.filterMut p m).1 ≠ .ok := by rw [hst]; decide
  refine ⟨hst, Stack.ext_v (r7 hnok) rfl, r5, ?_⟩
  rcases Stack.filter_spec p s dgrow dexGe m hinv with ⟨f1, _, f2, f3⟩ | ⟨_, hne, _⟩ | ⟨_, hne, _⟩
  · exact ⟨f1, f2, f3⟩
  · exact absurd h hne
  · exact absurd h hne

/-- `iter_replace` before the first yield (the cursor's `index - 1` wraps): rejected, nothing changed -/
theorem iter_replace_inert (s : Stack) (it : ArrIter) (c : Spec.Seq.Cursor) (x : Nat) (m : Mem) (hinv : s.Inv)
    (hs : Arr.Sim s.v it c) (h : (s.iterReplace it x m).1 ≠ .ok) :
    (s.iterReplace it x m).2.2.1 = s ∧ (s.iterReplace it x m).2.2.2 = m := by
  obtain ⟨_, _, _, _, _, r6, r7⟩ := Arr.iterReplace_sim s.v it c x m hinv hs
  exact ⟨Stack.ext_v (r7 h) rfl, r6⟩

/-- an invalid capacity: no object, and the ledger is balanced again (the header that
`cc_stack_new_conf` allocates first is released) -/
theorem new_invalid (cap : Nat) (grow : Nat → Nat) (exGe : Nat → Bool) (m : Mem) (t : Triple)
    (h : (Stack.new cap grow exGe m t).1 = .errInvalidCapacity) :
    (Stack.new cap grow exGe m t).2.1 = none ∧ Arr.own t (Stack.new cap grow exGe m t).2.2 = Arr.own t m ∧
    (Stack.new cap grow exGe m t).2.2.fault = m.fault := by
  rcases Stack.new_spec cap grow exGe m t with ⟨_, s2, s3, s4⟩ | ⟨ok, _⟩
  · exact ⟨s2, s3, s4⟩
  · rw [ok] at h; simp at h

/-- zip replace before the first yield: rejected, both stacks unchanged -/
theorem zip_replace_inert (s t : Stack) (it : ArrIter) (z : Spec.Seq.ZipCursor) (x y : Nat) (m : Mem) (hs : s.Inv)
    (ht : t.Inv) (h : Arr.ZSim s.v t.v it z) (hne : (Stack.zipReplace s t it x y m).1 ≠ .ok) :
    (Stack.zipReplace s t it x y m).2.2.1 = s ∧ (Stack.zipReplace s t it x y m).2.2.2.1 = t ∧
    (Stack.zipReplace s t it x y m).2.2.2.2 = m := by
  obtain ⟨_, _, _, _, _, _, _, r8, r9⟩ := Arr.zipReplace_sim s.v t.v it z x y m hs ht h
  obtain ⟨e1, e2⟩ := r9 hne
  exact ⟨Stack.ext_v e1 rfl, Stack.ext_v e2 rfl, r8⟩

/-! Non-vacuity: the empty stack rejects pop, peek and both filters and stays what it was -/
example :
    let s : Stack := ⟨Arr.mk 0 2 [9, 9] (fun c => 2 * c) .conf, .conf⟩
    s.Inv ∧ (s.pop {}).1 = .errOutOfRange ∧ (s.peek {}).1 = .errValueNotFound ∧
    (s.filterMut (fun _ => true) {}).1 = .errOutOfRange ∧
    (s.filter (fun _ => true) (fun c => 2 * c) (fun _ => false) {}).1 = .errOutOfRange ∧
    (s.pop {}).2.2.1.v.buf = [9, 9] ∧ (s.pop {}).2.2.1.v.size = 0 := by decide

end CC.Properties.C16Stack
