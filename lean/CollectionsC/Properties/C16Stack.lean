import CollectionsC.Properties.C09Stack
import CollectionsC.Proofs.StackMem
/-! # C16 (stack part) — rejected stack operations are inert

Statements only.  The stack has no index arguments; its rejections are: pop/peek on the empty stack,
`filter`/`filter_mut` on the empty stack, `iter_replace` before the first yield, an invalid capacity
in the constructor.  Each reports an error status and leaves the **whole physical state** (inner
array: size, capacity, buffer, configuration), every iterator and the ledger unchanged. -/
namespace CC.Properties.C16Stack
open CC
open CC.Spec.Seq (SOp Out)

/-- any push/pop/peek/size call that reports an error returns the stack it was given -/
theorem error_is_inert (s : Stack) (op : SOp) (m : Mem) (hinv : s.Inv) (st : Stat)
    (h1 : (s.step op m).1.st = some st) (h2 : st ≠ .ok) : (s.step op m).2.1 = s :=
  Stack.ext_v ((C09Stack.step_refines s op m hinv).2.2.2.2.2.2 st h1 h2)

/-- pop and peek succeed exactly on non-empty stacks; on the empty stack: error, nothing changed -/
theorem empty_rejected (s : Stack) (m : Mem) (hinv : s.Inv) :
    ((s.pop m).1 = .ok ↔ s.abs ≠ []) ∧ ((s.peek m).1 = .ok ↔ s.abs ≠ []) ∧
    (s.abs = [] → (s.pop m).2.2.1 = s ∧ (s.pop m).2.2.2 = m ∧ (s.pop m).2.1 = none ∧
      (s.peek m).2.1 = none ∧ (s.peek m).2.2 = m) := by
  obtain ⟨r1, r2, _, _, _, r6, r7, r8, _⟩ := Arr.removeLast_spec s.v m hinv
  obtain ⟨g1, g2, g3, g4⟩ := Arr.getLast_spec s.v m hinv
  have hne : s.abs ≠ [] ↔ 0 < s.v.size := by
    rw [Ne, show s.abs = s.v.abs from rfl, Arr.abs_eq_nil_iff]; omega
  refine ⟨by rw [hne]; exact r8, by rw [hne]; exact g4, fun h => ?_⟩
  have h0 : ¬ 0 < s.v.size := by rw [← hne]; simpa using h
  have hnok : (s.v.removeLast m).1 ≠ .ok := fun hk => h0 (r8.1 hk)
  have hs : s.v.abs = [] := h
  refine ⟨Stack.ext_v (r7 hnok), r6, ?_, ?_, g3⟩
  · show (s.v.removeLast m).2.1 = none
    rw [r2, hs]; simp [Spec.Seq.removeLast]
  · show (s.v.getLast m).2.1 = none
    rw [g2, hs]; simp [Spec.Seq.getLast]

/-- `filter_mut` and `filter` refuse the empty stack and change / build nothing -/
theorem filter_empty_rejected (p : Nat → Bool) (s : Stack) (dgrow : Nat → Nat) (dexGe : Nat → Bool) (m : Mem)
    (hinv : s.Inv) (h : s.abs = []) :
    (s.filterMut p m).1 = .errOutOfRange ∧ (s.filterMut p m).2.1 = s ∧ (s.filterMut p m).2.2.2 = m ∧
    (s.filter p dgrow dexGe m).1 = .errOutOfRange ∧ (s.filter p dgrow dexGe m).2.1 = none ∧
    (s.filter p dgrow dexGe m).2.2.2 = m := by
  obtain ⟨r1, _, _, _, r5, _, r7, r8⟩ := Arr.filterMut_spec p s.v m hinv
  have hs : s.v.abs = [] := h
  have hst : (s.v.filterMut p m).1 = .errOutOfRange := by rw [r1, hs]; simp [Spec.Seq.filterMut]
  have hnok : (s.v.filterMut p m).1 ≠ .ok := by rw [hst]; decide
  refine ⟨hst, Stack.ext_v (r7 hnok), r5, ?_⟩
  rcases Stack.filter_spec p s dgrow dexGe m hinv with ⟨f1, _, f2, f3⟩ | ⟨_, hne, _⟩ | ⟨_, hne, _⟩
  · exact ⟨f1, f2, f3⟩
  · exact absurd h hne
  · exact absurd h hne

/-- `iter_replace` before the first yield (the cursor's `index - 1` wraps): rejected, nothing changed -/
theorem iter_replace_inert (s : Stack) (it : ArrIter) (c : Spec.Seq.Cursor) (x : Nat) (m : Mem) (hinv : s.Inv)
    (hs : Arr.Sim s.v it c) (h : (s.iterReplace it x m).1 ≠ .ok) :
    (s.iterReplace it x m).2.2.1 = s ∧ (s.iterReplace it x m).2.2.2 = m := by
  obtain ⟨_, _, _, _, _, r6, r7⟩ := Arr.iterReplace_sim s.v it c x m hinv hs
  exact ⟨Stack.ext_v (r7 h), r6⟩

/-- an invalid capacity: no object, and the ledger is balanced again (the header that
`cc_stack_new_conf` allocates first is released) -/
theorem new_invalid (cap : Nat) (grow : Nat → Nat) (exGe : Nat → Bool) (m : Mem)
    (h : (Stack.new cap grow exGe m).1 = .errInvalidCapacity) :
    (Stack.new cap grow exGe m).2.1 = none ∧ (Stack.new cap grow exGe m).2.2.live = m.live ∧
    (Stack.new cap grow exGe m).2.2.fault = m.fault := by
  rcases Stack.new_spec cap grow exGe m with ⟨_, s2, s3, s4⟩ | ⟨ok, _⟩
  · exact ⟨s2, s3, s4⟩
  · rw [ok] at h; simp at h

end CC.Properties.C16Stack
