import CollectionsC.Proofs.PSListHistory
import CollectionsC.Properties.C04
/-! # C04 (pointer level, singly linked) — the raw `next` links of CC_SList

The counterpart of `C04PList.lean` for `src/cc_slist.c`.  `Model/PSList.lean` is a **pointer-level** model on the same heap
of nodes (only the `next` field is used), list headers with `head`/`tail`/`size`, and the C helpers written as the pointer
surgery of the C text: `get_node_at` (which walks from `head` and hands back the node **and its predecessor**),
`get_node` (the same by value), the `prev`-less `unlinkn(list, node, prev)` (with its three cases head / tail / middle and
the `tail = prev` fix-up), `unlinkn_all`, `link_all_externally`, `splice_between`.  On top of them: `add`, `add_first`,
`add_last`, `add_at`, `add_all`, `add_all_at`, `splice`, `splice_at`, `remove`, `remove_at`, `remove_first`, `remove_last`
(the predecessor search of the C text), `remove_all(_cb)`, `replace_at`, `reverse` (the three-pointer in-place reversal),
`filter_mut` (with the trailing `prev` that advances only over kept nodes), `destroy(_cb)`.

Proved (helpers: `Proofs/PSList.lean`, `PSListOps.lean`, `PSListBulk.lean`, `PSListHistory.lean`):
* well-formedness `WF` (following `next` from `head` visits `size` distinct live nodes, the last of which is `tail` and has
  `next = NULL`; two lists on one heap share no node) is preserved by every operation;
* every operation **refines the sequence-level model**: status, out-value, callback log, ledger and the content along the
  `next` links are those of `SList.step` on the canonical chain of the contents — hence, by `C04`, of the ideal lists;
* node identity: an insertion allocates exactly one fresh node and leaves every other node in its place, a removal takes
  exactly the addressed node out, `reverse` keeps all nodes and reverses their order, `splice*` moves the nodes of the source
  (no copy), `add_all*` leaves the source nodes alone and allocates fresh ones (these are the `SKeeps`/`Copied`/cell-list
  statements of the helper files, re-exported below for removal, reversal and splice).

Tie to the code: the correspondence harness prints for every list, after every operation, each node as `id:data:next_id`
together with `head`/`tail` ids read from the C heap (`harness/shim_slist.c`, `links<k>=…`); the Lean driver runs
`Model/PSList.lean` alongside and prints the same from its heap, so layer L3 compares the link structure and the identity
of the nodes one by one on every run.

`history_refines`/`history_refines_ideal` quantify over `List POp` (16 operations incl. `filter_mut` and the exchange of roles).
Elsewhere at link level: `cc_slist_sort` in `C18PList.lean`, the derived-list builders in `C15PList.lean`.
**Not at pointer level** (they keep their sequence-level models and theorems, `C07List`): the iterator and the zip
iterator's `add`/`remove`/`replace` of the singly linked list (the cursor carries its own `prev`); after one of these the
driver rebuilds the pointer-level state from the sequence-level one and both sides renumber their nodes (links are still
compared, node identity across that call is not). -/
namespace CC.Properties.C04PSList
open CC CC.Chain CC.PSList
open CC.PList (Heap St Hdr Cell idsOf dataOf POp PS absPair lastOr)
open CC.Spec
open CC.Spec.LSeq (Op Out Params)

/-- the forward traversal of a represented list is its content; `size` is the number of nodes -/
theorem traversal (h : Heap) (l : Hdr) (cs : List Cell) (r : SRepr h l cs) :
    fwd h l = dataOf cs ∧ l.size = cs.length := ⟨r.fwd, r.size⟩

/-- in a well-formed list `tail` is the last node reached from `head`, and `head`/`tail` are `NULL` exactly when `size = 0` -/
theorem ends (h : Heap) (l : Hdr) (w : WF h l) :
    (l.size = 0 ↔ l.head = none) ∧ (l.size = 0 ↔ l.tail = none) := by
  obtain ⟨cs, r⟩ := w
  rw [r.size, r.head, r.tail]
  cases cs with
  | nil => exact ⟨⟨fun _ => rfl, fun _ => rfl⟩, ⟨fun _ => rfl, fun _ => rfl⟩⟩
  | cons c cs =>
    refine ⟨⟨fun e => by simp at e, fun e => by simp [PList.nxt] at e⟩, ⟨fun e => by simp at e, fun e => ?_⟩⟩
    obtain ⟨q, hq, _⟩ := PList.lastOr_some_of_ne (xs := c :: cs) (by simp) none
    rw [hq] at e; simp at e

/-- **one step**: every pointer-level operation keeps both lists well-formed and disjoint, and yields exactly the output,
the ledger and the contents of the sequence-level step (`Model/LinkedList.lean`) on the canonical chains -/
theorem step_refines (P : Params) (p : PS) (c1 c2 : List Cell) (op : POp) (m : Mem) (I : SInv2 p c1 c2) :
    ∃ c1' c2', SInv2 (sstep P p op m).2.1 c1' c2' ∧
      SList.step P (absPair p c1 c2) op.toOp m = ((sstep P p op m).1, absPair (sstep P p op m).2.1 c1' c2', (sstep P p op m).2.2) :=
  sstep_refines P p c1 c2 op m I

/-- two freshly constructed (empty) lists on the triples `t1`, `t2` -/
def fresh (t1 t2 : Triple) : PS := { st := {}, l1 := { triple := t1 }, l2 := { triple := t2 } }

theorem fresh_inv (t1 t2 : Triple) : SInv2 (fresh t1 t2) [] [] := by
  have r1 : SRepr (fresh t1 t2).st.heap (fresh t1 t2).l1 [] := ⟨by simp [idsOf], trivial, rfl, rfl, rfl⟩
  have r2 : SRepr (fresh t1 t2).st.heap (fresh t1 t2).l2 [] := ⟨by simp [idsOf], trivial, rfl, rfl, rfl⟩
  refine ⟨⟨r1, r2, ?_⟩, ?_, ?_⟩ <;> (intro x hx; simp [idsOf] at hx)

/-- **whole histories from `new`**: outputs and ledger of the pointer-level run are those of the sequence-level run; both
lists end well-formed; their `next`-contents are the contents of the sequence-level final states -/
theorem history_refines (P : Params) (t1 t2 : Triple) (ops : List POp) (m : Mem) :
    (srun P (fresh t1 t2) ops m).1 = (SList.run P (ofList t1 [], ofList t2 []) (ops.map POp.toOp) m).1 ∧
    (srun P (fresh t1 t2) ops m).2.2 = (SList.run P (ofList t1 [], ofList t2 []) (ops.map POp.toOp) m).2.2 ∧
    WF (srun P (fresh t1 t2) ops m).2.1.st.heap (srun P (fresh t1 t2) ops m).2.1.l1 ∧
    WF (srun P (fresh t1 t2) ops m).2.1.st.heap (srun P (fresh t1 t2) ops m).2.1.l2 ∧
    fwd (srun P (fresh t1 t2) ops m).2.1.st.heap (srun P (fresh t1 t2) ops m).2.1.l1 =
      (SList.run P (ofList t1 [], ofList t2 []) (ops.map POp.toOp) m).2.1.1.abs ∧
    fwd (srun P (fresh t1 t2) ops m).2.1.st.heap (srun P (fresh t1 t2) ops m).2.1.l2 =
      (SList.run P (ofList t1 [], ofList t2 []) (ops.map POp.toOp) m).2.1.2.abs := by
  obtain ⟨c1, c2, I, e⟩ := srun_refines P ops (fresh t1 t2) [] [] m (fresh_inv t1 t2)
  have e0 : absPair (fresh t1 t2) [] [] = (ofList t1 [], ofList t2 []) := rfl
  rw [e0] at e
  rw [e]
  have w1 : WF _ _ := ⟨c1, I.rep.r1⟩
  have w2 : WF _ _ := ⟨c2, I.rep.r2⟩
  exact ⟨rfl, rfl, w1, w2, by rw [I.rep.r1.fwd]; rfl, by rw [I.rep.r2.fwd]; rfl⟩

/-- … and therefore (with `C04.slist_history_content`) the pointer-level run yields the outputs and contents of the ideal lists on
which the refused operations did not happen — for **every** history over `POp`, `splice`/`splice_at` between lists on
different allocator triples included (the content statement does not depend on the ledger) -/
theorem history_refines_ideal (P : Params) (t1 t2 : Triple) (ops : List POp) (m : Mem) :
    (srun P (fresh t1 t2) ops m).1 =
      (LSeq.runSkipping false P ([], []) (ops.map POp.toOp) ((srun P (fresh t1 t2) ops m).1.map (·.st))).1 ∧
    (fwd (srun P (fresh t1 t2) ops m).2.1.st.heap (srun P (fresh t1 t2) ops m).2.1.l1,
     fwd (srun P (fresh t1 t2) ops m).2.1.st.heap (srun P (fresh t1 t2) ops m).2.1.l2) =
      (LSeq.runSkipping false P ([], []) (ops.map POp.toOp) ((srun P (fresh t1 t2) ops m).1.map (·.st))).2 := by
  obtain ⟨h1, _, _, _, h5, h6⟩ := history_refines P t1 t2 ops m
  have := C04.slist_history_content P (ops.map POp.toOp) (ofList t1 [], ofList t2 []) m (ofList_inv _) (ofList_inv _)
  rw [h1, h5, h6]
  exact ⟨this.1, this.2.1⟩

/-! ## node identity -/

/-- `unlinkn(list, node, prev)` with `prev` the predecessor of `node` (what `get_node_at`/`get_node` and the predecessor
search of `remove_last` hand over): exactly that node leaves the chain, every other node keeps its identity and place -/
theorem unlink_links (s : St) (l : Hdr) (pre post : List Cell) (a : Cell) (m : Mem)
    (r : SRepr s.heap l (pre ++ a :: post)) (hb : ∀ y, y ∈ idsOf (pre ++ a :: post) → y < s.fresh) :
    (unlinkn s l a.1 (lastOr pre none) m).1 = a.2 ∧
    SRepr (unlinkn s l a.1 (lastOr pre none) m).2.1.heap (unlinkn s l a.1 (lastOr pre none) m).2.2.1 (pre ++ post) :=
  ⟨(unlinkn_spec s l pre post a m r hb).1, (unlinkn_spec s l pre post a m r hb).2.2.repr⟩

/-- `cc_slist_reverse`: the same nodes, in reverse order (no node is created, freed or rewritten) -/
theorem reverse_links (s : St) (l : Hdr) (cs : List Cell) (r : SRepr s.heap l cs) :
    SRepr (reverse s l).1.heap (reverse s l).2 cs.reverse := (reverse_spec s l cs r).1

/-- `cc_slist_filter_mut` at the level of nodes: exactly the nodes whose element fails the predicate leave the chain — each
unlinked behind its **true** predecessor, the last node kept so far (one release each); the others keep identity and order;
the result is well-formed.  (A loop whose `prev` also advanced over an unlinked node does not satisfy this: after two
consecutive removals the predecessor's `next` would still point at a released node.) -/
theorem filter_mut_links (pr : Nat → Bool) (s : St) (l : Hdr) (cs : List Cell) (m : Mem) (r : SRepr s.heap l cs)
    (hb : ∀ y, y ∈ idsOf cs → y < s.fresh) (hne : cs ≠ []) :
    SRepr (filterMut pr s l m).2.1.heap (filterMut pr s l m).2.2.1 (cs.filter (fun c => pr c.2)) ∧
    (filterMut pr s l m).2.2.2 = Mem.freeN l.triple (cs.length - (cs.filter (fun c => pr c.2)).length) m :=
  ⟨((filterMut_spec pr s l cs m r hb).2 hne).2.2.repr, ((filterMut_spec pr s l cs m r hb).2 hne).2.1⟩

/-! ## Non-vacuity: a history with insertion in the middle, reversal, bulk copy, splice and removal, read along the links -/
example :
    (fwd (srun ⟨fun v => v % 2 == 0, LSeq.cmpNum⟩ (fresh .conf .conf) [.addLast 1, .addLast 3, .addLast 2, .addAt 4 1, .addLast 6, .filterMut, .reverse, .swapRoles, .addLast 9, .swapRoles, .addAllAt 1,
        .spliceAt 2, .removeAt 1, .removeLast] {}).2.1.st.heap
      (srun ⟨fun v => v % 2 == 0, LSeq.cmpNum⟩ (fresh .conf .conf) [.addLast 1, .addLast 3, .addLast 2, .addAt 4 1, .addLast 6, .filterMut, .reverse, .swapRoles, .addLast 9, .swapRoles, .addAllAt 1,
        .spliceAt 2, .removeAt 1, .removeLast] {}).2.1.l1) = [6, 9, 2] := by decide

end CC.Properties.C04PSList
