import CollectionsC.Proofs.PSListHistory
import CollectionsC.Proofs.PSListIter
import CollectionsC.Properties.C04
/-! # C04 (pointer level, singly linked) — the raw `next` links of CC_SList

The counterpart of `C04PList.lean` for `src/cc_slist.c`.  `Model/PSList.lean` is a **pointer-level** model on the same heap
of nodes (only the `next` field is used), list headers with `head`/`tail`/`size`, and the C helpers written as the pointer
surgery of the C text: `get_node_at` (which walks from `head` and hands back the node **and its predecessor**),
`get_node` (the same by value), the `prev`-less `unlinkn(list, node, prev)` (with its three cases head / tail / middle and
the `tail = prev` fix-up), `unlinkn_all`, `link_all_externally`, `splice_between`.  On top of them: `add`, `add_first`,
`add_last`, `add_at`, `add_all`, `add_all_at`, `splice`, `splice_at`, `remove`, `remove_at`, `remove_first`, `remove_last`
(the predecessor search of the C text), `remove_all(_cb)`, `replace_at`, `reverse` (the three-pointer in-place reversal),
`filter_mut` (with the trailing `prev` that advances only over kept nodes), `destroy(_cb)`.

Proved (helpers: `Proofs/PSList.lean`, `PSListOps.lean`, `PSListBulk.lean`, `PSListHistory.lean`):
* well-formedness `WF` (following `next` from `head` visits `size` distinct live nodes, the last of which is `tail` and has
  `next = NULL`; two lists on one heap share no node) is preserved by every operation;
* every operation **refines the sequence-level model**: status, out-value, callback log, ledger and the content along the
  `next` links are those of `SList.step` on the canonical chain of the contents — hence, by `C04`, of the ideal lists;
* node identity: an insertion allocates exactly one fresh node and leaves every other node in its place, a removal takes
  exactly the addressed node out, `reverse` keeps all nodes and reverses their order, `splice*` moves the nodes of the source
  (no copy), `add_all*` leaves the source nodes alone and allocates fresh ones (these are the `SKeeps`/`Copied`/cell-list
  statements of the helper files, re-exported below for removal, reversal and splice).

Tie to the code: the correspondence harness prints for every list, after every operation, each node as `id:data:next_id`
together with `head`/`tail` ids read from the C heap (`harness/shim_slist.c`, `links<k>=…`); the Lean driver runs
`Model/PSList.lean` alongside and prints the same from its heap, so layer L3 compares the link structure and the identity
of the nodes one by one on every run.

`history_refines`/`history_refines_ideal` quantify over `List POp` (16 operations incl. `filter_mut` and the exchange of roles).
Elsewhere at link level: `cc_slist_sort` in `C18PList.lean`, the derived-list builders in `C15PList.lean`.
The iterator (`CC_SListIter`) and the zip iterator (`CC_SListZipIter`) are modelled with their C fields as node ids
(`PIter`: `index/current/prev/next`, `PZip`); `SItRel` says where the fields point (`next` at the first node not yet passed,
`current` at the node last passed or NULL after a removal, `prev` at the predecessor `unlinkn` needs).  `iter_next_links`,
`iter_add_links`, `iter_remove_links`, `iter_replace_links` and the `zip_*_links` twins: from related states every call keeps the
list(s) represented (well-formed, disjoint), changes exactly the node(s) the API names (one fresh node per list / exactly the
current node released / one `data` field) and leaves the fields related again — so the relation, well-formedness and "no field
names a released node" hold along every iterator program.  The driver runs these models (no resynchronisation anywhere), so L3
compares node identity across every operation of the singly linked list. -/
namespace CC.Properties.C04PSList
open CC CC.Chain CC.PSList
open CC.PList (Heap St Hdr Cell idsOf dataOf POp PS absPair lastOr)
open CC.Spec
open CC.Spec.LSeq (Op Out Params)

/-- the forward traversal of a represented list is its content; `size` is the number of nodes -/
theorem traversal (h : Heap) (l : Hdr) (cs : List Cell) (r : SRepr h l cs) :
    fwd h l = dataOf cs ∧ l.size = cs.length := ⟨r.fwd, r.size⟩

/-- in a well-formed list `tail` is the last node reached from `head`, and `head`/`tail` are `NULL` exactly when `size = 0` -/
theorem ends (h : Heap) (l : Hdr) (w : WF h l) :
    (l.size = 0 ↔ l.head = none) ∧ (l.size = 0 ↔ l.tail = none) := by
  obtain ⟨cs, r⟩ := w
  rw [r.size, r.head, r.tail]
  cases cs with
  | nil => exact ⟨⟨fun _ => rfl, fun _ => rfl⟩, ⟨fun _ => rfl, fun _ => rfl⟩⟩
  | cons c cs =>
    refine ⟨⟨fun e => by simp at e, fun e => by simp [PList.nxt] at e⟩, ⟨fun e => by simp at e, fun e => ?_⟩⟩
    obtain ⟨q, hq, _⟩ := PList.lastOr_some_of_ne (xs := c :: cs) (by simp) none
    rw [hq] at e; simp at e

/-- **one step**: every pointer-level operation keeps both lists well-formed and disjoint, and yields exactly the output,
the ledger and the contents of the sequence-level step (`Model/LinkedList.lean`) on the canonical chains -/
theorem step_refines (P : Params) (p : PS) (c1 c2 : List Cell) (op : POp) (m : Mem) (I : SInv2 p c1 c2) :
    ∃ c1' c2', SInv2 (sstep P p op m).2.1 c1' c2' ∧
      SList.step P (absPair p c1 c2) op.toOp m = ((sstep P p op m).1, absPair (sstep P p op m).2.1 c1' c2', (sstep P p op m).2.2) :=
  sstep_refines P p c1 c2 op m I

/-- two freshly constructed (empty) lists on the triples `t1`, `t2` -/
def fresh (t1 t2 : Triple) : PS := { st := {}, l1 := { triple := t1 }, l2 := { triple := t2 } }

theorem fresh_inv (t1 t2 : Triple) : SInv2 (fresh t1 t2) [] [] := by
  have r1 : SRepr (fresh t1 t2).st.heap (fresh t1 t2).l1 [] := ⟨by simp [idsOf], trivial, rfl, rfl, rfl⟩
  have r2 : SRepr (fresh t1 t2).st.heap (fresh t1 t2).l2 [] := ⟨by simp [idsOf], trivial, rfl, rfl, rfl⟩
  refine ⟨⟨r1, r2, ?_⟩, ?_, ?_⟩ <;> (intro x hx; simp [idsOf] at hx)

/-- **whole histories from `new`**: outputs and ledger of the pointer-level run are those of the sequence-level run; both
lists end well-formed; their `next`-contents are the contents of the sequence-level final states -/
theorem history_refines (P : Params) (t1 t2 : Triple) (ops : List POp) (m : Mem) :
    (srun P (fresh t1 t2) ops m).1 = (SList.run P (ofList t1 [], ofList t2 []) (ops.map POp.toOp) m).1 ∧
    (srun P (fresh t1 t2) ops m).2.2 = (SList.run P (ofList t1 [], ofList t2 []) (ops.map POp.toOp) m).2.2 ∧
    WF (srun P (fresh t1 t2) ops m).2.1.st.heap (srun P (fresh t1 t2) ops m).2.1.l1 ∧
    WF (srun P (fresh t1 t2) ops m).2.1.st.heap (srun P (fresh t1 t2) ops m).2.1.l2 ∧
    fwd (srun P (fresh t1 t2) ops m).2.1.st.heap (srun P (fresh t1 t2) ops m).2.1.l1 =
      (SList.run P (ofList t1 [], ofList t2 []) (ops.map POp.toOp) m).2.1.1.abs ∧
    fwd (srun P (fresh t1 t2) ops m).2.1.st.heap (srun P (fresh t1 t2) ops m).2.1.l2 =
      (SList.run P (ofList t1 [], ofList t2 []) (ops.map POp.toOp) m).2.1.2.abs := by
  obtain ⟨c1, c2, I, e⟩ := srun_refines P ops (fresh t1 t2) [] [] m (fresh_inv t1 t2)
  have e0 : absPair (fresh t1 t2) [] [] = (ofList t1 [], ofList t2 []) := rfl
  rw [e0] at e
  rw [e]
  have w1 : WF _ _ := ⟨c1, I.rep.r1⟩
  have w2 : WF _ _ := ⟨c2, I.rep.r2⟩
  exact ⟨rfl, rfl, w1, w2, by rw [I.rep.r1.fwd]; rfl, by rw [I.rep.r2.fwd]; rfl⟩

/-- … and therefore (with `C04.slist_history_content`) the pointer-level run yields the outputs and contents of the ideal lists on
which the refused operations did not happen — for **every** history over `POp`, `splice`/`splice_at` between lists on
different allocator triples included (the content statement does not depend on the ledger) -/
theorem history_refines_ideal (P : Params) (t1 t2 : Triple) (ops : List POp) (m : Mem) :
    (srun P (fresh t1 t2) ops m).1 =
      (LSeq.runSkipping false P ([], []) (ops.map POp.toOp) ((srun P (fresh t1 t2) ops m).1.map (·.st))).1 ∧
    (fwd (srun P (fresh t1 t2) ops m).2.1.st.heap (srun P (fresh t1 t2) ops m).2.1.l1,
     fwd (srun P (fresh t1 t2) ops m).2.1.st.heap (srun P (fresh t1 t2) ops m).2.1.l2) =
      (LSeq.runSkipping false P ([], []) (ops.map POp.toOp) ((srun P (fresh t1 t2) ops m).1.map (·.st))).2 := by
  obtain ⟨h1, _, _, _, h5, h6⟩ := history_refines P t1 t2 ops m
  have := C04.slist_history_content P (ops.map POp.toOp) (ofList t1 [], ofList t2 []) m (ofList_inv _) (ofList_inv _)
  rw [h1, h5, h6]
  exact ⟨this.1, this.2.1⟩

/-! ## node identity -/

/-- `unlinkn(list, node, prev)` with `prev` the predecessor of `node` (what `get_node_at`/`get_node` and the predecessor
search of `remove_last` hand over): exactly that node leaves the chain, every other node keeps its identity and place -/
theorem unlink_links (s : St) (l : Hdr) (pre post : List Cell) (a : Cell) (m : Mem)
    (r : SRepr s.heap l (pre ++ a :: post)) (hb : ∀ y, y ∈ idsOf (pre ++ a :: post) → y < s.fresh) :
    (unlinkn s l a.1 (lastOr pre none) m).1 = a.2 ∧
    SRepr (unlinkn s l a.1 (lastOr pre none) m).2.1.heap (unlinkn s l a.1 (lastOr pre none) m).2.2.1 (pre ++ post) :=
  ⟨(unlinkn_spec s l pre post a m r hb).1, (unlinkn_spec s l pre post a m r hb).2.2.repr⟩

/-- `cc_slist_reverse`: the same nodes, in reverse order (no node is created, freed or rewritten) -/
theorem reverse_links (s : St) (l : Hdr) (cs : List Cell) (r : SRepr s.heap l cs) :
    SRepr (reverse s l).1.heap (reverse s l).2 cs.reverse := (reverse_spec s l cs r).1

/-- `cc_slist_filter_mut` at the level of nodes: exactly the nodes whose element fails the predicate leave the chain — each
unlinked behind its **true** predecessor, the last node kept so far (one release each); the others keep identity and order;
the result is well-formed.  (A loop whose `prev` also advanced over an unlinked node does not satisfy this: after two
consecutive removals the predecessor's `next` would still point at a released node.) -/
theorem filter_mut_links (pr : Nat → Bool) (s : St) (l : Hdr) (cs : List Cell) (m : Mem) (r : SRepr s.heap l cs)
    (hb : ∀ y, y ∈ idsOf cs → y < s.fresh) (hne : cs ≠ []) :
    SRepr (filterMut pr s l m).2.1.heap (filterMut pr s l m).2.2.1 (cs.filter (fun c => pr c.2)) ∧
    (filterMut pr s l m).2.2.2 = Mem.freeN l.triple (cs.length - (cs.filter (fun c => pr c.2)).length) m :=
  ⟨((filterMut_spec pr s l cs m r hb).2 hne).2.2.repr, ((filterMut_spec pr s l cs m r hb).2 hne).2.1⟩

/-! ## the iterator and the zip iterator on the raw links -/
open CC.PSList (PIter PZip SItRel)

theorem iter_init_links {h : Heap} {l : Hdr} {cs : List Cell} (r : SRepr h l cs) : SItRel cs [] cs (PSList.piterInit l) :=
  PSList.piterInit_rel r

/-- `cc_slist_iter_next`: end of list — nothing changes; otherwise the element of the node `next` points at is yielded and the
fields advance (`prev` follows `current` only when there is one) -/
theorem iter_next_links {h : Heap} {l : Hdr} {cs pre rest : List Cell} {it : PIter} (r : SRepr h l cs) (k : SItRel cs pre rest it) :
    (rest = [] → PSList.piterNext h it = (.iterEnd, none, it)) ∧
    (∀ a rest', rest = a :: rest' → (PSList.piterNext h it).1 = .ok ∧ (PSList.piterNext h it).2.1 = some a.2 ∧
      SItRel cs (pre ++ [a]) rest' (PSList.piterNext h it).2.2) := PSList.piterNext_links r k

/-- `cc_slist_iter_add` (granted): exactly one fresh node directly behind `current`; the list stays well-formed, its content
is the old one with `x` inserted behind the current element, the new node is `current`, the old one `prev` -/
theorem iter_add_links {s : St} {l : Hdr} {cs pre' rest : List Cell} {c : Cell} {it : PIter} (x : Nat) (m : Mem)
    (r : SRepr s.heap l cs) (hb : ∀ y, y ∈ idsOf cs → y < s.fresh) (k : SItRel cs (pre' ++ [c]) rest it) (hc : it.current = some c.1)
    (ha : (m.allocT l.triple).1 = true) :
    SRepr (PSList.piterAdd s l it x m).2.1.heap (PSList.piterAdd s l it x m).2.2.1 (pre' ++ c :: (s.fresh, x) :: rest) ∧
    fwd (PSList.piterAdd s l it x m).2.1.heap (PSList.piterAdd s l it x m).2.2.1 = dataOf pre' ++ c.2 :: x :: dataOf rest ∧
    SItRel (pre' ++ c :: (s.fresh, x) :: rest) (pre' ++ [c] ++ [(s.fresh, x)]) rest (PSList.piterAdd s l it x m).2.2.2.1 ∧
    (PSList.piterAdd s l it x m).2.2.2.2 = (m.allocT l.triple).2 := by
  obtain ⟨_, g2, gk, gr⟩ := (PSList.piterAdd_links x m r hb k hc).2 ha
  exact ⟨gk.repr, by rw [gk.repr.fwd]; simp, gr, g2⟩

/-- `cc_slist_iter_remove` with a current element: exactly that node is released (unlinked behind its true predecessor) -/
theorem iter_remove_links {s : St} {l : Hdr} {cs pre' rest : List Cell} {c : Cell} {it : PIter} (m : Mem)
    (r : SRepr s.heap l cs) (hb : ∀ y, y ∈ idsOf cs → y < s.fresh) (k : SItRel cs (pre' ++ [c]) rest it) (hc : it.current = some c.1) :
    (PSList.piterRemove s l it m).2.1 = some c.2 ∧
    SRepr (PSList.piterRemove s l it m).2.2.1.heap (PSList.piterRemove s l it m).2.2.2.1 (pre' ++ rest) ∧
    fwd (PSList.piterRemove s l it m).2.2.1.heap (PSList.piterRemove s l it m).2.2.2.1 = dataOf pre' ++ dataOf rest ∧
    SItRel (pre' ++ rest) pre' rest (PSList.piterRemove s l it m).2.2.2.2.1 ∧
    (PSList.piterRemove s l it m).2.2.2.2.2 = m.freeT l.triple := by
  obtain ⟨_, u1, u2, uk, ur⟩ := PSList.piterRemove_links m r hb k hc
  exact ⟨u1, uk.repr, by rw [uk.repr.fwd]; simp, ur, u2⟩

/-- `cc_slist_iter_replace` with a current element: one `data` field -/
theorem iter_replace_links {s : St} {l : Hdr} {cs pre' rest : List Cell} {c : Cell} {it : PIter} (x : Nat)
    (r : SRepr s.heap l cs) (k : SItRel cs (pre' ++ [c]) rest it) (hc : it.current = some c.1) :
    (PSList.piterReplace s it x).2.1 = some c.2 ∧
    SRepr (PSList.piterReplace s it x).2.2.heap l (pre' ++ (c.1, x) :: rest) ∧
    SItRel (pre' ++ (c.1, x) :: rest) (pre' ++ [(c.1, x)]) rest it :=
  ⟨(PSList.piterReplace_links x r k hc).2.1, (PSList.piterReplace_links x r k hc).2.2.1, (PSList.piterReplace_links x r k hc).2.2.2.1⟩

/-- everything `cc_slist_iter_add` / `cc_slist_iter_remove` guarantee (`SKeeps`: representation, triple, serial counter, bound,
frame, released nodes) — what is needed to continue with any other operation afterwards -/
theorem iter_add_keeps {s : St} {l : Hdr} {cs pre' rest : List Cell} {c : Cell} {it : PIter} (x : Nat) (m : Mem)
    (r : SRepr s.heap l cs) (hb : ∀ y, y ∈ idsOf cs → y < s.fresh) (k : SItRel cs (pre' ++ [c]) rest it) (hc : it.current = some c.1)
    (ha : (m.allocT l.triple).1 = true) :
    PSList.SKeeps s (PSList.piterAdd s l it x m).2.1 l (PSList.piterAdd s l it x m).2.2.1 cs (pre' ++ c :: (s.fresh, x) :: rest) :=
  ((PSList.piterAdd_links x m r hb k hc).2 ha).2.2.1

theorem iter_remove_keeps {s : St} {l : Hdr} {cs pre' rest : List Cell} {c : Cell} {it : PIter} (m : Mem)
    (r : SRepr s.heap l cs) (hb : ∀ y, y ∈ idsOf cs → y < s.fresh) (k : SItRel cs (pre' ++ [c]) rest it) (hc : it.current = some c.1) :
    PSList.SKeeps s (PSList.piterRemove s l it m).2.2.1 l (PSList.piterRemove s l it m).2.2.2.1 cs (pre' ++ rest) :=
  (PSList.piterRemove_links m r hb k hc).2.2.2.1

/-- `cc_slist_zip_iter_add` on two **distinct** lists (hypothesis `SRepr2`: node sets disjoint — over the same list both
`current->next = new` hit one node, a node is lost and `size` over-counted: known finding `KF-list-zip-same-list`, witness
`corpus/slist/defect_zip_same_list_add.ops`), both allocations granted: one fresh node per list directly behind its `current`; both lists
well-formed and disjoint; fields related again.  (Refusals: `PSList.pzipAdd_links`, first two conjuncts.) -/
theorem zip_add_links {s : St} {l1 l2 : Hdr} {cs1 cs2 p1 t1 p2 t2 : List Cell} {c1 c2 : Cell} {z : PZip} (x1 x2 : Nat) (m : Mem)
    (r : PSList.SRepr2 s.heap l1 l2 cs1 cs2) (hb1 : ∀ y, y ∈ idsOf cs1 → y < s.fresh) (hb2 : ∀ y, y ∈ idsOf cs2 → y < s.fresh)
    (k1 : SItRel cs1 (p1 ++ [c1]) t1 z.it1) (k2 : SItRel cs2 (p2 ++ [c2]) t2 z.it2) (h1 : z.cur1 = some c1.1) (h2 : z.cur2 = some c2.1)
    (a1 : (m.allocT l1.triple).1 = true) (a2 : ((m.allocT l1.triple).2.allocT l2.triple).1 = true) :
    PSList.SRepr2 (PSList.pzipAdd s l1 l2 z x1 x2 m).2.1.heap (PSList.pzipAdd s l1 l2 z x1 x2 m).2.2.1 (PSList.pzipAdd s l1 l2 z x1 x2 m).2.2.2.1
      (p1 ++ c1 :: (s.fresh, x1) :: t1) (p2 ++ c2 :: (s.fresh + 1, x2) :: t2) ∧
    SItRel (p1 ++ c1 :: (s.fresh, x1) :: t1) (p1 ++ [c1] ++ [(s.fresh, x1)]) t1 (PSList.pzipAdd s l1 l2 z x1 x2 m).2.2.2.2.1.it1 ∧
    SItRel (p2 ++ c2 :: (s.fresh + 1, x2) :: t2) (p2 ++ [c2] ++ [(s.fresh + 1, x2)]) t2 (PSList.pzipAdd s l1 l2 z x1 x2 m).2.2.2.2.1.it2 := by
  obtain ⟨_, _, g3, _, _, _, _, g8, g9⟩ := (PSList.pzipAdd_links x1 x2 m r hb1 hb2 k1 k2 h1 h2).2.2 a1 a2
  exact ⟨g3, g8, g9⟩

/-- `cc_slist_zip_iter_remove` on two **distinct** lists (`SRepr2`; over the same list the node is unlinked and freed twice:
`KF-list-zip-same-list`, witness `corpus/slist/defect_zip_same_list_remove.ops`) with current elements: exactly the two current
nodes are released, each through its own list's triple -/
theorem zip_remove_links {s : St} {l1 l2 : Hdr} {cs1 cs2 p1 t1 p2 t2 : List Cell} {c1 c2 : Cell} {z : PZip} (m : Mem)
    (r : PSList.SRepr2 s.heap l1 l2 cs1 cs2) (hb1 : ∀ y, y ∈ idsOf cs1 → y < s.fresh) (hb2 : ∀ y, y ∈ idsOf cs2 → y < s.fresh)
    (k1 : SItRel cs1 (p1 ++ [c1]) t1 z.it1) (k2 : SItRel cs2 (p2 ++ [c2]) t2 z.it2) (h1 : z.cur1 = some c1.1) (h2 : z.cur2 = some c2.1) :
    (PSList.pzipRemove s l1 l2 z m).2.1 = some (c1.2, c2.2) ∧
    (PSList.pzipRemove s l1 l2 z m).2.2.2.2.2.2 = (m.freeT l1.triple).freeT l2.triple ∧
    PSList.SRepr2 (PSList.pzipRemove s l1 l2 z m).2.2.1.heap (PSList.pzipRemove s l1 l2 z m).2.2.2.1 (PSList.pzipRemove s l1 l2 z m).2.2.2.2.1
      (p1 ++ t1) (p2 ++ t2) ∧
    SItRel (p1 ++ t1) p1 t1 (PSList.pzipRemove s l1 l2 z m).2.2.2.2.2.1.it1 ∧ SItRel (p2 ++ t2) p2 t2 (PSList.pzipRemove s l1 l2 z m).2.2.2.2.2.1.it2 := by
  obtain ⟨_, g2, g3, g4, _, g6, g7⟩ := PSList.pzipRemove_links m r hb1 hb2 k1 k2 h1 h2
  exact ⟨g2, g3, g4, g6, g7⟩

/-- `cc_slist_zip_iter_replace` with current elements: one `data` field per list -/
theorem zip_replace_links {s : St} {l1 l2 : Hdr} {cs1 cs2 p1 t1 p2 t2 : List Cell} {c1 c2 : Cell} {z : PZip} (x1 x2 : Nat)
    (r : PSList.SRepr2 s.heap l1 l2 cs1 cs2)
    (k1 : SItRel cs1 (p1 ++ [c1]) t1 z.it1) (k2 : SItRel cs2 (p2 ++ [c2]) t2 z.it2) (h1 : z.cur1 = some c1.1) (h2 : z.cur2 = some c2.1) :
    (PSList.pzipReplace s z x1 x2).2.1 = some (c1.2, c2.2) ∧
    PSList.SRepr2 (PSList.pzipReplace s z x1 x2).2.2.heap l1 l2 (p1 ++ (c1.1, x1) :: t1) (p2 ++ (c2.1, x2) :: t2) :=
  ⟨(PSList.pzipReplace_links x1 x2 r k1 k2 h1 h2).2.1, (PSList.pzipReplace_links x1 x2 r k1 k2 h1 h2).2.2.1⟩

/-! ## Non-vacuity: a history with insertion in the middle, reversal, bulk copy, splice and removal, read along the links -/
example :
    (fwd (srun ⟨fun v => v % 2 == 0, LSeq.cmpNum⟩ (fresh .conf .conf) [.addLast 1, .addLast 3, .addLast 2, .addAt 4 1, .addLast 6, .filterMut, .reverse, .swapRoles, .addLast 9, .swapRoles, .addAllAt 1,
        .spliceAt 2, .removeAt 1, .removeLast] {}).2.1.st.heap
      (srun ⟨fun v => v % 2 == 0, LSeq.cmpNum⟩ (fresh .conf .conf) [.addLast 1, .addLast 3, .addLast 2, .addAt 4 1, .addLast 6, .filterMut, .reverse, .swapRoles, .addLast 9, .swapRoles, .addAllAt 1,
        .spliceAt 2, .removeAt 1, .removeLast] {}).2.1.l1) = [6, 9, 2] := by decide

end CC.Properties.C04PSList
