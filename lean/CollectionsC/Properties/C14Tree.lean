import CollectionsC.Properties.C03
import CollectionsC.Proofs.TreeTableMem
/-! # C14 (tree table / tree set part): only the configured allocators

In the model every allocation is `Mem.alloc` and every release `Mem.free` on the configured triple;
`Mem.libc` counts events on the C library allocator.  `libc_invariant`: no call changes it.
`allocator_independent`: results depend on the ledger only through the allocator's answers
(`Mem.sched`) — a table on a pool behaves exactly like one on malloc as long as the pool does not
refuse.  No invariant and no hypothesis on the comparator is needed. -/
namespace CC.Properties.C14Tree
open CC CC.Spec CC.Spec.OrdMap
variable {cmp : Nat → Nat → Int}

theorem new_libc_invariant (m : Mem) : (TreeTable.new m).2.2.libc = m.libc := TreeTable.new_libc m
theorem destroy_libc_invariant (t : TreeTable) (m : Mem) : (t.destroy m).libc = m.libc := TreeTable.destroy_libc t m
/-- every call of the table API -/
theorem libc_invariant (t : TreeTable) (op : Op) (m : Mem) : (t.step cmp op m).2.2.1.libc = m.libc :=
  TreeTable.step_libc t op m
/-- every iterator call -/
theorem iter_libc_invariant (t : TreeTable) (it : TreeIter) (op : IterOp) (m : Mem) :
    (t.iterStep cmp it op m).2.2.2.libc = m.libc := (TreeTable.iterStep_mem t it op m).libc
/-- histories and iterator programs -/
theorem history_libc_invariant (ops : List (Op × List Bool)) (t : TreeTable) (m : Mem) :
    (t.run cmp ops m).2.2.2.libc = m.libc := TreeTable.run_libc ops t m
theorem iter_program_libc_invariant (prog : List IterOp) (t : TreeTable) (it : TreeIter) (m : Mem) :
    (t.iterRun cmp it prog m).2.2.2.libc = m.libc := TreeTable.iterRun_libc prog t it m

/-- two ledgers with the same schedule give the same status, out-value, callback sequence, table and
comparator count -/
theorem allocator_independent (t : TreeTable) (op : Op) (m m' : Mem) (h : m.sched = m'.sched) :
    (t.step cmp op m).1 = (t.step cmp op m').1 ∧ (t.step cmp op m).2.1 = (t.step cmp op m').2.1 ∧
    (t.step cmp op m).2.2.2 = (t.step cmp op m').2.2.2 := TreeTable.step_congr t op m m' h
theorem new_allocator_independent (m m' : Mem) (h : m.sched = m'.sched) :
    (TreeTable.new m).1 = (TreeTable.new m').1 ∧ (TreeTable.new m).2.1 = (TreeTable.new m').2.1 :=
  TreeTable.new_congr m m' h
/-- iterator calls do not depend on the ledger at all -/
theorem iter_allocator_independent (t : TreeTable) (it : TreeIter) (op : IterOp) (m m' : Mem) :
    (t.iterStep cmp it op m).1 = (t.iterStep cmp it op m').1 ∧
    (t.iterStep cmp it op m).2.1 = (t.iterStep cmp it op m').2.1 ∧
    (t.iterStep cmp it op m).2.2.1 = (t.iterStep cmp it op m').2.2.1 := TreeTable.iterStep_congr t it op m m'
/-- a whole history (every call with its own schedule) gives the same outputs, comparator counts and
final table from any two ledgers -/
theorem history_allocator_independent (ops : List (Op × List Bool)) (t : TreeTable) (m m' : Mem) :
    (t.run cmp ops m).1 = (t.run cmp ops m').1 ∧ (t.run cmp ops m).2.1 = (t.run cmp ops m').2.1 ∧
    (t.run cmp ops m).2.2.1 = (t.run cmp ops m').2.2.1 := TreeTable.run_congr ops t m m'

/-! ## tree set (the wrapped table is built and released through the same triple) -/

theorem set_new_libc_invariant (m : Mem) : (TreeSet.new m).2.2.libc = m.libc := TreeSet.new_libc m
theorem set_destroy_libc_invariant (s : TreeSet) (m : Mem) : (s.destroy m).libc = m.libc := TreeSet.destroy_libc s m
theorem set_libc_invariant (s : TreeSet) (op : OrdSet.Op) (m : Mem) : (s.step cmp op m).2.2.1.libc = m.libc :=
  TreeSet.step_libc s op m
theorem set_history_libc_invariant (ops : List (OrdSet.Op × List Bool)) (s : TreeSet) (m : Mem) :
    (s.run cmp ops m).2.2.2.libc = m.libc := TreeSet.run_libc ops s m
theorem set_iter_program_libc_invariant (prog : List IterOp) (s : TreeSet) (it : TreeIter) (m : Mem) :
    (s.iterRun cmp it prog m).2.2.2.libc = m.libc := by
  rw [(TreeSet.iterRun_eq_table (cmp := cmp) prog s it m).2.2]; exact TreeTable.iterRun_libc prog s.t it m
theorem set_allocator_independent (s : TreeSet) (op : OrdSet.Op) (m m' : Mem) (h : m.sched = m'.sched) :
    (s.step cmp op m).1 = (s.step cmp op m').1 ∧ (s.step cmp op m).2.1 = (s.step cmp op m').2.1 ∧
    (s.step cmp op m).2.2.2 = (s.step cmp op m').2.2.2 := TreeSet.step_congr s op m m' h
theorem set_history_allocator_independent (ops : List (OrdSet.Op × List Bool)) (s : TreeSet) (m m' : Mem) :
    (s.run cmp ops m).1 = (s.run cmp ops m').1 ∧ (s.run cmp ops m).2.1 = (s.run cmp ops m').2.1 ∧
    (s.run cmp ops m).2.2.1 = (s.run cmp ops m').2.2.1 := TreeSet.run_congr ops s m m'

end CC.Properties.C14Tree
