import CollectionsC.Properties.C03
/-! # C14 (tree table / tree set part): only the configured allocators

Every table carries the allocator triple it was constructed with (`TreeTable.triple`: `.conf` from
`cc_treetable_new_conf` with the caller's `mem_alloc/mem_calloc/mem_free`, `.libc` from the default
constructor `cc_treetable_new`), and every allocation and release of the model goes through
`Mem.allocT t.triple` / `Mem.freeT t.triple`, as the C code calls `table->mem_alloc` /
`table->mem_free`.  The ledger keeps the two allocators apart (`live/nalloc/nfree/nrefused/sched` for
the configured one, `libc/liveLibc/lalloc/lfree` for the C library), so the statements below are
falsifiable: a model function that allocated with `.libc` on a `.conf` table would violate
`conf_uses_only_conf`.  The set hands its triple to the table it wraps
(`cc_treeset_new_conf` passes the same conf on).

`TreeTable.LibcSame m m'` : nothing happened on the C library allocator between `m` and `m'`;
`TreeTable.ConfSame m m'` : nothing happened on the configured allocator, its schedule included.
No invariant and no hypothesis on the comparator is needed. -/
namespace CC.Properties.C14Tree
open CC CC.Spec CC.Spec.OrdMap
variable {cmp : Nat → Nat → Int}

/-- **conf_uses_only_conf**: on a table built with the configured triple no call touches the C library
allocator — no event, no live block -/
theorem conf_uses_only_conf (t : TreeTable) (ht : t.triple = .conf) (op : Op) (m : Mem) :
    TreeTable.LibcSame m (t.step cmp op m).2.2.1 := by
  have := TreeTable.step_mem (cmp := cmp) t op m
  rw [ht] at this; exact this.libcSame

/-- **default_uses_only_libc**: on a table built by the default constructor no call touches the
configured allocator (no event, no live block, schedule not consumed), and no refusal is possible -/
theorem default_uses_only_libc (t : TreeTable) (ht : t.triple = .libc) (op : Op) (m : Mem) :
    TreeTable.ConfSame m (t.step cmp op m).2.2.1 ∧ (t.step cmp op m).1.st ≠ some .errAlloc := by
  have s := TreeTable.step_mem (cmp := cmp) t op m
  rw [ht] at s
  refine ⟨s.confSame, ?_⟩
  rcases TreeTable.step_nrefused (cmp := cmp) t op m with ⟨_, b⟩ | ⟨a, _⟩
  · have := s.confSame.2.2.2.1; omega
  · exact a

/-- iterator calls (`iter_remove` releases a node) -/
theorem iter_conf_uses_only_conf (t : TreeTable) (ht : t.triple = .conf) (it : TreeIter) (op : IterOp) (m : Mem) :
    TreeTable.LibcSame m (t.iterStep cmp it op m).2.2.2 := by
  have := TreeTable.iterStep_mem (cmp := cmp) t it op m
  rw [ht] at this; exact this.libcSame
theorem iter_default_uses_only_libc (t : TreeTable) (ht : t.triple = .libc) (it : TreeIter) (op : IterOp) (m : Mem) :
    TreeTable.ConfSame m (t.iterStep cmp it op m).2.2.2 := by
  have := TreeTable.iterStep_mem (cmp := cmp) t it op m
  rw [ht] at this; exact this.confSame

/-- the constructors use the triple they are given for the header and the sentinel, and the new table
remembers it; the destructor releases everything through the table's triple -/
theorem new_conf_uses_only_conf (m : Mem) : TreeTable.LibcSame m (TreeTable.new m).2.2 :=
  TreeTable.newT_conf_libcSame m
theorem new_default_uses_only_libc (m : Mem) :
    TreeTable.ConfSame m (TreeTable.newT .libc m).2.2 ∧ (TreeTable.newT .libc m).1 = .ok := TreeTable.newT_libc m
theorem new_remembers_triple (tr : Triple) (m : Mem) (t : TreeTable) (m' : Mem)
    (h : TreeTable.newT tr m = (.ok, some t, m')) : t.triple = tr := TreeTable.newT_triple tr m t m' h
theorem destroy_uses_own_triple (t : TreeTable) (m : Mem) :
    (t.triple = .conf → TreeTable.LibcSame m (t.destroy m)) ∧
    (t.triple = .libc → TreeTable.ConfSame m (t.destroy m)) := TreeTable.destroy_mem t m

/-- the triple never changes during the life of a table -/
theorem triple_is_kept (t : TreeTable) (op : Op) (m : Mem) : (t.step cmp op m).2.1.triple = t.triple :=
  TreeTable.step_triple t op m
theorem history_triple_is_kept (ops : List (Op × List Bool)) (t : TreeTable) (m : Mem) :
    (t.run cmp ops m).2.2.1.triple = t.triple := TreeTable.run_triple ops t m

/-- histories: a table on the configured triple leaves the C library's counters alone, a table on the C
library's triple leaves the configured allocator's live count alone -/
theorem history_conf_uses_only_conf (ops : List (Op × List Bool)) (t : TreeTable) (m : Mem) (ht : t.triple = .conf) :
    (t.run cmp ops m).2.2.2.libc = m.libc ∧ (t.run cmp ops m).2.2.2.liveLibc = m.liveLibc :=
  TreeTable.run_conf ops t m ht
theorem history_default_uses_only_libc (ops : List (Op × List Bool)) (t : TreeTable) (m : Mem) (ht : t.triple = .libc) :
    (t.run cmp ops m).2.2.2.live = m.live := TreeTable.run_libc ops t m ht
/-- sessions (table calls interleaved with iterator sessions) stay on the table's triple -/
theorem session_uses_only_own_triple (segs : List Segment) (t : TreeTable) (m : Mem) :
    (t.triple = .conf → (t.runSession cmp segs m).2.2.libc = m.libc ∧ (t.runSession cmp segs m).2.2.liveLibc = m.liveLibc) ∧
    (t.triple = .libc → (t.runSession cmp segs m).2.2.live = m.live) ∧
    (t.runSession cmp segs m).2.1.triple = t.triple := by
  induction segs generalizing t m with
  | nil => exact ⟨fun _ => ⟨rfl, rfl⟩, fun _ => rfl, rfl⟩
  | cons seg rest ih =>
    cases seg with
    | calls ops =>
      have ht := TreeTable.run_triple (cmp := cmp) ops t m
      obtain ⟨a, b, c⟩ := ih (t.run cmp ops m).2.2.1 (t.run cmp ops m).2.2.2
      simp only [TreeTable.runSession]
      refine ⟨fun h => ?_, fun h => ?_, c.trans ht⟩
      · have k := TreeTable.run_conf (cmp := cmp) ops t m h
        have := a (ht.trans h)
        exact ⟨this.1.trans k.1, this.2.trans k.2⟩
      · exact (b (ht.trans h)).trans (TreeTable.run_libc ops t m h)
    | iterate prog =>
      have ht := TreeTable.iterRun_triple (cmp := cmp) prog t t.iterInit m
      obtain ⟨a, b, c⟩ := ih (t.iterRun cmp t.iterInit prog m).2.1 (t.iterRun cmp t.iterInit prog m).2.2.2
      simp only [TreeTable.runSession]
      refine ⟨fun h => ?_, fun h => ?_, c.trans ht⟩
      · have k := TreeTable.iterRun_conf (cmp := cmp) prog t t.iterInit m h
        have := a (ht.trans h)
        exact ⟨this.1.trans k.1, this.2.trans k.2.1⟩
      · exact (b (ht.trans h)).trans (TreeTable.iterRun_libc_live prog t t.iterInit m h)

/-- on the C library's triple every call of a history leaves all of the configured allocator's state
alone (live blocks, event counters, schedule) — the per-call statement `default_uses_only_libc` along the
run: after the run the configured live count is the initial one and the last call recorded no configured
event -/
theorem history_default_no_conf_events (ops : List (Op × List Bool)) (t : TreeTable) (m : Mem)
    (ht : t.triple = .libc) (hne : ops ≠ []) :
    (t.run cmp ops m).2.2.2.live = m.live ∧ (t.run cmp ops m).2.2.2.nalloc = 0 ∧
    (t.run cmp ops m).2.2.2.nfree = 0 ∧ (t.run cmp ops m).2.2.2.nrefused = 0 := by
  refine ⟨TreeTable.run_libc ops t m ht, ?_⟩
  induction ops generalizing t m with
  | nil => exact absurd rfl hne
  | cons x ops ih =>
    obtain ⟨op, sched⟩ := x
    simp only [TreeTable.run]
    cases ops with
    | nil =>
      have s := TreeTable.step_mem (cmp := cmp) t op (m.begin sched)
      rw [ht] at s
      have := s.confSame
      simp only [TreeTable.run]
      exact ⟨this.2.1, this.2.2.1, this.2.2.2.1⟩
    | cons y ys => exact ih _ _ (by rw [TreeTable.step_triple, ht]) (by simp)

theorem iter_program_conf_uses_only_conf (prog : List IterOp) (t : TreeTable) (it : TreeIter) (m : Mem)
    (ht : t.triple = .conf) : TreeTable.LibcSame m (t.iterRun cmp it prog m).2.2.2 :=
  TreeTable.iterRun_conf prog t it m ht

/-- **allocator_independent**: two ledgers with the same schedule give the same status, out-value,
callback sequence, table and comparator count — a table on a pool behaves exactly like one on malloc as
long as the pool does not refuse -/
theorem allocator_independent (t : TreeTable) (op : Op) (m m' : Mem) (h : m.sched = m'.sched) :
    (t.step cmp op m).1 = (t.step cmp op m').1 ∧ (t.step cmp op m).2.1 = (t.step cmp op m').2.1 ∧
    (t.step cmp op m).2.2.2 = (t.step cmp op m').2.2.2 := TreeTable.step_congr t op m m' h
theorem new_allocator_independent (tr : Triple) (m m' : Mem) (h : m.sched = m'.sched) :
    (TreeTable.newT tr m).1 = (TreeTable.newT tr m').1 ∧ (TreeTable.newT tr m).2.1 = (TreeTable.newT tr m').2.1 :=
  TreeTable.newT_congr tr m m' h
/-- iterator calls do not depend on the ledger at all -/
theorem iter_allocator_independent (t : TreeTable) (it : TreeIter) (op : IterOp) (m m' : Mem) :
    (t.iterStep cmp it op m).1 = (t.iterStep cmp it op m').1 ∧
    (t.iterStep cmp it op m).2.1 = (t.iterStep cmp it op m').2.1 ∧
    (t.iterStep cmp it op m).2.2.1 = (t.iterStep cmp it op m').2.2.1 := TreeTable.iterStep_congr t it op m m'
/-- a whole history gives the same outputs, comparator counts and final table from any two ledgers.
(No hypothesis on `m.sched`: every call of a history installs its own schedule with `Mem.begin`, the
incoming one is overwritten.) -/
theorem history_allocator_independent (ops : List (Op × List Bool)) (t : TreeTable) (m m' : Mem) :
    (t.run cmp ops m).1 = (t.run cmp ops m').1 ∧ (t.run cmp ops m).2.1 = (t.run cmp ops m').2.1 ∧
    (t.run cmp ops m).2.2.1 = (t.run cmp ops m').2.2.1 := TreeTable.run_congr ops t m m'

/-! ## tree set: the wrapped table inherits the set's triple -/

/-- **derived_inherits_triple**: `cc_treeset_new_conf` hands the conf it was given to
`cc_treetable_new_conf`: header of the set, header and sentinel of the table are on one triple, and
it stays that way -/
theorem set_inherits_triple (tr : Triple) (m : Mem) (s : TreeSet) (m' : Mem)
    (h : TreeSet.newT tr m = (.ok, some s, m')) : s.triple = tr ∧ s.t.triple = tr :=
  TreeSet.newT_triple tr m s m' h
theorem set_triple_is_kept (s : TreeSet) (op : OrdSet.Op) (m : Mem) :
    (s.step cmp op m).2.1.triple = s.triple ∧ (s.step cmp op m).2.1.t.triple = s.t.triple :=
  TreeSet.step_triple s op m
theorem set_new_conf_uses_only_conf (m : Mem) : TreeTable.LibcSame m (TreeSet.new m).2.2 :=
  TreeSet.newT_conf_libcSame m
theorem set_new_default_uses_only_libc (m : Mem) :
    TreeTable.ConfSame m (TreeSet.newT .libc m).2.2 ∧ (TreeSet.newT .libc m).1 = .ok := TreeSet.newT_libc m
theorem set_destroy_uses_own_triple (s : TreeSet) (m : Mem) (hs : s.t.triple = s.triple) :
    (s.triple = .conf → TreeTable.LibcSame m (s.destroy m)) ∧
    (s.triple = .libc → TreeTable.ConfSame m (s.destroy m)) := TreeSet.destroy_mem s m hs
theorem set_conf_uses_only_conf (s : TreeSet) (ht : s.t.triple = .conf) (op : OrdSet.Op) (m : Mem) :
    TreeTable.LibcSame m (s.step cmp op m).2.2.1 := by
  have := TreeSet.step_mem (cmp := cmp) s op m
  rw [ht] at this; exact this.libcSame
theorem set_default_uses_only_libc (s : TreeSet) (ht : s.t.triple = .libc) (op : OrdSet.Op) (m : Mem) :
    TreeTable.ConfSame m (s.step cmp op m).2.2.1 := by
  have := TreeSet.step_mem (cmp := cmp) s op m
  rw [ht] at this; exact this.confSame
theorem set_history_conf_uses_only_conf (ops : List (OrdSet.Op × List Bool)) (s : TreeSet) (m : Mem)
    (ht : s.t.triple = .conf) :
    (s.run cmp ops m).2.2.2.libc = m.libc ∧ (s.run cmp ops m).2.2.2.liveLibc = m.liveLibc :=
  TreeSet.run_conf ops s m ht
theorem set_history_default_uses_only_libc (ops : List (OrdSet.Op × List Bool)) (s : TreeSet) (m : Mem)
    (ht : s.t.triple = .libc) : (s.run cmp ops m).2.2.2.live = m.live := TreeSet.run_libc ops s m ht
theorem set_allocator_independent (s : TreeSet) (op : OrdSet.Op) (m m' : Mem) (h : m.sched = m'.sched) :
    (s.step cmp op m).1 = (s.step cmp op m').1 ∧ (s.step cmp op m).2.1 = (s.step cmp op m').2.1 ∧
    (s.step cmp op m).2.2.2 = (s.step cmp op m').2.2.2 := TreeSet.step_congr s op m m' h
theorem set_history_allocator_independent (ops : List (OrdSet.Op × List Bool)) (s : TreeSet) (m m' : Mem) :
    (s.run cmp ops m).1 = (s.run cmp ops m').1 ∧ (s.run cmp ops m).2.1 = (s.run cmp ops m').2.1 ∧
    (s.run cmp ops m).2.2.1 = (s.run cmp ops m').2.2.1 := TreeSet.run_congr ops s m m'

/-! ## Non-vacuity: the two halves of the ledger really move separately -/
open CC.Driver.TreeTableD (cmpOf) in
/-- a set on the configured triple: refusals are possible, only `live` moves -/
example :
    (match TreeSet.newT .conf { live := 4, liveLibc := 9 } with
     | (.ok, some a, ma) =>
       let ra := a.run (cmpOf 0) [(.add 5, []), (.add 6, [true]), (.remove 5, [])] ma
       (ra.1.map (·.st), ra.2.2.2.live, ra.2.2.2.liveLibc, (a.destroy ma).live)
     | _ => ([], 0, 0, 0)) = ([some .ok, some .errAlloc, some .ok], 7, 9, 4) := by decide
open CC.Driver.TreeTableD (cmpOf) in
/-- the same history on the C library's triple: no refusal, only `liveLibc` moves -/
example :
    (match TreeSet.newT .libc { live := 4, liveLibc := 9 } with
     | (.ok, some b, mb) =>
       let rb := b.run (cmpOf 0) [(.add 5, []), (.add 6, [true]), (.remove 5, [])] mb
       (rb.1.map (·.st), rb.2.2.2.live, rb.2.2.2.liveLibc, (b.destroy mb).liveLibc)
     | _ => ([], 0, 0, 0)) = ([some .ok, some .ok, some .ok], 4, 13, 9) := by decide

end CC.Properties.C14Tree
