import CollectionsC.Proofs.ArrayMem
import CollectionsC.Generated.FuncsArray
/-! # C01 — translation validation of the array model

`Generated/FuncsArray.lean` is re-translated from the current text of `src/cc_array.c` on every build
(`tools/gen_funcs.py`): `struct cc_array_s` and `struct cc_array_conf_s` as records with all their fields (the
allocator triple as `Option Triple`, `exp_factor` as `Float32`), the file's macros expanded textually, and
`cc_array_conf_init`, `cc_array_new_conf`, `cc_array_new`, `cc_array_destroy`, `cc_array_add`,
`cc_array_add_at`, `cc_array_replace_at`, `cc_array_swap_at`, `cc_array_remove_at`, `cc_array_remove_last`,
`cc_array_remove_all`, `cc_array_get_at`, `cc_array_get_last`, `cc_array_size`, `cc_array_capacity`,
`cc_array_trim_capacity`, `cc_array_reverse`, `cc_array_index_of`, `cc_array_contains`, `cc_array_remove` and
the static `expand_capacity`, statement by statement: `memmove`/`memcpy` on the pointer buffer as checked
`Buf.memmove`/`Buf.memcpy` (byte counts divided by the slot width 8), loops as fuel-bounded recursive
definitions, and a `fault` result that is true when the C execution would have had undefined behaviour (a
slot outside the block is touched, a NULL pointer is used, …) or the fuel ran out.

This file proves, for each translated function: on **every state that satisfies `Arr.Inv`** (for the
constructors: every configuration and ledger), with fuel `> size` where a loop runs, the translated function
is **fault-free** and returns what the hand-written model function of `Model/Array.lean` returns — same status
code, same out-value, same resulting state (`ofArr` maps a model state to the generated record), same ledger.
The model's growth law is the one the C text computes, `grow c = (size_t)((float) c * exp_factor)` as a
`Float32` expression (`growOf`; no property of floating point is used).  `out_nn` is the C argument
`out != NULL`; a `<f>_<x>_uninit` argument is the (arbitrary) value of an uninitialised local `x` of `f` that may be read
before it is assigned (`cc_array_remove`'s `index`, written by `cc_array_index_of` only when the element is found).
Block identity: the records carry ghost ids of their two allocator blocks (`id_`, `buffer_id`); allocations
take ids from the supply `nid`, `mem_free` consumes them, and touching or releasing a block that was already
released in the same call is a `fault`; the theorems about functions that allocate or release say which ids the
resulting object owns and which were released (the hand-written model counts blocks only).  Not translated (callbacks, `qsort`, derived containers, iterators): `destroy_cb`,
`remove_all_free`, `get_buffer`, `subarray`, the copies, the filters, `contains_value`, `sort`, `map`,
`reduce` and the iterator functions — the differential correspondence of C01/C07/C15/C18 covers them. -/
namespace CC.Properties.C01Gen
open CC

/-- `(size_t)((float) c * exp_factor)` -/
def growOf (f : Float32) (c : Nat) : Nat := (Float32.toUInt64 (Float32.ofNat c * f)).toNat
/-- the factor `cc_array_new_conf` stores: factors `<= 1` are replaced by the default -/
def effF (f : Float32) : Float32 := if f ≤ Float32.ofNat 1 then Float32.ofNat 2 else f
/-- `ex >= (float) q` -/
def exGeOf (f : Float32) (q : Nat) : Bool := decide (f ≥ Float32.ofNat q)

/-- model state ↦ generated record: the three allocator pointers denote the state's triple, the stored factor
is `f` (the state's growth law must be the one of that factor: `a.grow = growOf f`) -/
def ofArr (f : Float32) (a : Arr) (sid : Nat := 0) (bid : Nat := 0) : GenF.cc_array_s :=
  { size := a.size, capacity := a.capacity, exp_factor := f, buffer := a.buf,
    mem_alloc := some a.triple, mem_calloc := some a.triple, mem_free := some a.triple, id_ := sid, buffer_id := bid }

/-- generated record ↦ model state -/
def toArr (g : GenF.cc_array_s) : Arr :=
  { size := g.size, capacity := g.capacity, buf := g.buffer, grow := growOf g.exp_factor,
    triple := g.mem_free.getD .conf }

theorem toArr_ofArr (f : Float32) (a : Arr) (s b : Nat) (hg : a.grow = growOf f) : toArr (ofArr f a s b) = a := by
  cases a; simp_all [toArr, ofArr]

/-- the configuration record handed to `cc_array_new_conf` -/
def confOf (f : Float32) (t : Triple) (cap : Nat) : GenF.cc_array_conf_s :=
  { capacity := cap, exp_factor := f, mem_alloc := some t, mem_calloc := some t, mem_free := some t }

/-- the numeric status codes the translated text returns (re-checked against `Generated/Constants.lean`) -/
theorem codes : Stat.ok.code = 0 ∧ Stat.errAlloc.code = 1 ∧ Stat.errInvalidCapacity.code = 2 ∧
    Stat.errMaxCapacity.code = 4 ∧ Stat.errValueNotFound.code = 7 ∧ Stat.errOutOfRange.code = 8 := by decide

theorem wmul8 (n : Nat) (h : n ≤ Gen.CC_MAX_ELEMENTS / 8) : GenF.wmul n 8 / 8 = n := by
  unfold GenF.wmul
  simp only [Gen.CC_MAX_ELEMENTS] at h
  rw [Nat.mod_eq_of_lt (by omega)]
  omega

@[simp] theorem wmul8_mod (n : Nat) : GenF.wmul n 8 % 8 = 0 := by
  unfold GenF.wmul
  rw [Nat.mod_mod_of_dvd _ (by decide : 8 ∣ 2 ^ 64), Nat.mul_mod_left]

theorem wadd1 (n : Nat) (h : n ≤ Gen.CC_MAX_ELEMENTS / 8) : GenF.wadd n 1 = n + 1 := by
  unfold GenF.wadd
  simp only [Gen.CC_MAX_ELEMENTS] at h
  exact Nat.mod_eq_of_lt (by omega)

theorem wsub_le (a b : Nat) (h : b ≤ a) : GenF.wsub a b = a - b := by
  unfold GenF.wsub; simp [h]

/-! ## constructors and destructor -/

/-- `cc_array_conf_init` -/
theorem arr_conf_init_agrees (u : GenF.cc_array_conf_s) :
    GenF.cc_array_conf_init u = confOf (Float32.ofNat 2) .libc Gen.ARRAY_DEFAULT_CAPACITY := by
  unfold GenF.cc_array_conf_init confOf
  simp [Gen.ARRAY_DEFAULT_CAPACITY]

/-- `cc_array_new_conf`, for every factor, triple, capacity and ledger (rejected capacities and refused
allocations included): status code, the constructed object, the ledger; fault-free -/
theorem arr_new_conf_agrees (f : Float32) (t : Triple) (cap : Nat) (m : Mem) (nid : Nat) :
    GenF.cc_array_new_conf (confOf f t cap) m nid =
      ((Arr.new cap (growOf (effF f)) (exGeOf (effF f)) m t).1.code,
       (Arr.new cap (growOf (effF f)) (exGeOf (effF f)) m t).2.1.map (fun a => ofArr (effF f) a nid (nid + 1)),
       (Arr.new cap (growOf (effF f)) (exGeOf (effF f)) m t).2.2,
       (if cap = 0 ∨ exGeOf (effF f) (Gen.CC_MAX_ELEMENTS / cap) = true ∨ cap > Gen.CC_MAX_ELEMENTS / 8 then nid
        else if (m.allocT t).1 then (if ((m.allocT t).2.allocT t).1 then nid + 2 else nid + 1) else nid),
       (if ¬ (cap = 0 ∨ exGeOf (effF f) (Gen.CC_MAX_ELEMENTS / cap) = true ∨ cap > Gen.CC_MAX_ELEMENTS / 8) ∧
           (m.allocT t).1 = true ∧ ((m.allocT t).2.allocT t).1 = false then [nid] else []), false) := by
  unfold GenF.cc_array_new_conf Arr.new confOf
  have hex : (if decide (f ≤ Float32.ofNat 1) = true then Float32.ofNat 2 else f) = effF f := by
    unfold effF; by_cases c : f ≤ Float32.ofNat 1 <;> simp [c]
  simp only [hex]
  by_cases c0 : cap = 0
  · simp [c0, codes]
  by_cases c1 : exGeOf (effF f) (Gen.CC_MAX_ELEMENTS / cap) = true
  · have c1' : effF f ≥ Float32.ofNat (18446744073709551614 / cap) := by
      simpa [exGeOf, Gen.CC_MAX_ELEMENTS] using c1
    simp [c0, c1, c1', codes]
  have c1' : ¬ effF f ≥ Float32.ofNat (18446744073709551614 / cap) := by
    simpa [exGeOf, Gen.CC_MAX_ELEMENTS] using c1
  by_cases c2 : cap > Gen.CC_MAX_ELEMENTS / 8
  · have c2' : cap > 18446744073709551614 / 8 := by simpa [Gen.CC_MAX_ELEMENTS] using c2
    simp [c0, c1, c1', c2, c2', codes]
  have c2' : ¬ cap > 18446744073709551614 / 8 := by simpa [Gen.CC_MAX_ELEMENTS] using c2
  have hw : GenF.wmul cap 8 / 8 = cap := wmul8 cap (by omega)
  by_cases a1 : (m.allocT t).1 = true
  · by_cases a2 : ((m.allocT t).2.allocT t).1 = true
    · simp [c0, c1, c1', c2, c2', a1, a2, hw, ofArr, codes, GenF.cc_array_s.zero]
    · simp [c0, c1, c1', c2, c2', a1, a2, codes, GenF.cc_array_s.zero]
  · simp [c0, c1, c1', c2, c2', a1, codes]

/-- `cc_array_new`: `cc_array_new_conf` with the file's defaults on the C library's triple (never refused) -/
theorem arr_new_agrees (u : GenF.cc_array_conf_s) (m : Mem) (nid : Nat) :
    GenF.cc_array_new u m nid =
      ((Arr.new Gen.ARRAY_DEFAULT_CAPACITY (growOf (effF (Float32.ofNat 2))) (exGeOf (effF (Float32.ofNat 2))) m .libc).1.code,
       (Arr.new Gen.ARRAY_DEFAULT_CAPACITY (growOf (effF (Float32.ofNat 2))) (exGeOf (effF (Float32.ofNat 2))) m .libc).2.1.map
         (fun a => ofArr (effF (Float32.ofNat 2)) a nid (nid + 1)),
       (Arr.new Gen.ARRAY_DEFAULT_CAPACITY (growOf (effF (Float32.ofNat 2))) (exGeOf (effF (Float32.ofNat 2))) m .libc).2.2,
       (if exGeOf (effF (Float32.ofNat 2)) (Gen.CC_MAX_ELEMENTS / Gen.ARRAY_DEFAULT_CAPACITY) = true then nid else nid + 2),
       [], false) := by
  unfold GenF.cc_array_new
  simp only [arr_conf_init_agrees, arr_new_conf_agrees]
  simp [Mem.allocT, Gen.ARRAY_DEFAULT_CAPACITY, Gen.CC_MAX_ELEMENTS]
  rfl

/-- `cc_array_destroy`: first the buffer, then the struct; exactly the array's two blocks are released -/
theorem arr_destroy_agrees (f : Float32) (a : Arr) (m : Mem) (sid bid : Nat) (hd : sid ≠ bid) :
    GenF.cc_array_destroy (ofArr f a sid bid) m = (a.destroy m, [sid, bid], false) := by
  unfold GenF.cc_array_destroy Arr.destroy ofArr
  simp [GenF.isDead, hd]

/-! ## reads -/

/-- `cc_array_size`, `cc_array_capacity` -/
theorem arr_size_agrees (f : Float32) (a : Arr) : GenF.cc_array_size (ofArr f a) = a.size := rfl
theorem arr_capacity_agrees (f : Float32) (a : Arr) : GenF.cc_array_capacity (ofArr f a) = a.capacity := rfl

/-- `cc_array_get_at`, for every index -/
theorem arr_get_at_agrees (f : Float32) (a : Arr) (i : Nat) (m : Mem) (h : a.Inv) :
    GenF.cc_array_get_at (ofArr f a) i = ((a.getAt i m).1.code, (a.getAt i m).2.1, false) ∧ (a.getAt i m).2.2 = m := by
  have hl := Arr.Inv.size_le_len h
  unfold GenF.cc_array_get_at Arr.getAt ofArr
  by_cases c : i ≥ a.size
  · simp [c, codes]
  · have hb : i < a.buf.length := by omega
    simp [c, hb, codes]

/-- `cc_array_get_last` -/
theorem arr_get_last_agrees (f : Float32) (a : Arr) (m : Mem) (h : a.Inv) :
    GenF.cc_array_get_last (ofArr f a) = ((a.getLast m).1.code, (a.getLast m).2.1, false) ∧ (a.getLast m).2.2 = m := by
  have hl := Arr.Inv.size_le_len h
  unfold GenF.cc_array_get_last Arr.getLast
  by_cases c : a.size = 0
  · simp [c, ofArr, codes]
  · have hw : GenF.wsub a.size 1 = a.size - 1 := wsub_le _ _ (by omega)
    obtain ⟨g1, g2⟩ := arr_get_at_agrees f a (a.size - 1) m h
    simp [c, ofArr, hw] at g1 ⊢
    simp [g1, g2]

/-! ## in-place updates -/

/-- `cc_array_replace_at`: the model always reports the old element, the C function only when `out != NULL` -/
theorem arr_replace_at_agrees (f : Float32) (a : Arr) (x i : Nat) (outNN : Bool) (m : Mem) (h : a.Inv) :
    GenF.cc_array_replace_at (ofArr f a) x i outNN =
      ((a.replaceAt x i m).1.code, (if outNN then (a.replaceAt x i m).2.1 else none),
       ofArr f (a.replaceAt x i m).2.2.1, false) ∧ (a.replaceAt x i m).2.2.2 = m := by
  have hl := Arr.Inv.size_le_len h
  unfold GenF.cc_array_replace_at Arr.replaceAt ofArr
  by_cases c : i ≥ a.size
  · cases outNN <;> simp [c, codes]
  · have hb : i < a.buf.length := by omega
    cases outNN <;> simp [c, hb, codes]

/-- `cc_array_swap_at` -/
theorem arr_swap_at_agrees (f : Float32) (a : Arr) (i j : Nat) (m : Mem) (h : a.Inv) :
    GenF.cc_array_swap_at (ofArr f a) i j = ((a.swapAt i j m).1.code, ofArr f (a.swapAt i j m).2.1, false) ∧
    (a.swapAt i j m).2.2 = m := by
  have hl := Arr.Inv.size_le_len h
  unfold GenF.cc_array_swap_at Arr.swapAt ofArr
  by_cases c : i ≥ a.size ∨ j ≥ a.size
  · have c' : (decide (i ≥ a.size) || decide (j ≥ a.size)) = true := by simpa using c
    rcases c with c | c <;> simp [c, c', codes]
  · have c' : (decide (i ≥ a.size) || decide (j ≥ a.size)) = false := by simpa using c
    have hi : i < a.buf.length := by omega
    have hj : j < a.buf.length := by omega
    have hi' : ¬ a.size ≤ i := by omega
    have hj' : ¬ a.size ≤ j := by omega
    simp [c', hi, hj, hi', hj', codes]

/-- `cc_array_remove_all` -/
theorem arr_remove_all_agrees (f : Float32) (a : Arr) :
    GenF.cc_array_remove_all (ofArr f a) = ofArr f a.removeAll := rfl

/-- `cc_array_remove_at`, for every index (the model always reports the removed element, the C function only
when `out != NULL`) -/
theorem arr_remove_at_agrees (f : Float32) (a : Arr) (i : Nat) (outNN : Bool) (m : Mem) (h : a.Inv) :
    GenF.cc_array_remove_at (ofArr f a) i outNN =
      ((a.removeAt i m).1.code, (if outNN then (a.removeAt i m).2.1 else none),
       ofArr f (a.removeAt i m).2.2.1, false) ∧ (a.removeAt i m).2.2.2 = m := by
  have hl := Arr.Inv.size_le_len h
  obtain ⟨h1, h2, h3, h4⟩ := h
  unfold GenF.cc_array_remove_at Arr.removeAt Arr.closeGap ofArr
  by_cases c : i ≥ a.size
  · cases outNN <;> simp [c, codes]
  · have hb : i < a.buf.length := by omega
    have hw : GenF.wsub a.size 1 = a.size - 1 := wsub_le _ _ (by omega)
    have hw2 : GenF.wsub (a.size - 1) i = a.size - 1 - i := wsub_le _ _ (by omega)
    have hw3 : GenF.wmul (a.size - 1 - i) 8 / 8 = a.size - 1 - i := wmul8 _ (by omega)
    have hw4 : GenF.wadd i 1 = i + 1 := wadd1 _ (by omega)
    have hc : i + 1 + (a.size - 1 - i) ≤ a.buf.length := by omega
    have hc2 : i + (a.size - 1 - i) ≤ a.buf.length := by omega
    by_cases e : i = a.size - 1
    · have hs : ¬ a.size ≤ a.size - 1 := by omega
      have hb' : a.size - 1 < a.buf.length := by omega
      have hb2 : a.size - 1 + 1 ≤ a.buf.length := by omega
      subst e
      cases outNN <;> simp [hs, hb', hb2, hw, codes]
    · cases outNN <;> simp [c, hb, hw, hw2, hw3, hw4, hc, hc2, e, codes]

/-- `cc_array_remove_last` (`size - 1` wraps on the empty array and is then rejected by `remove_at`) -/
theorem arr_remove_last_agrees (f : Float32) (a : Arr) (outNN : Bool) (m : Mem) (h : a.Inv) :
    GenF.cc_array_remove_last (ofArr f a) outNN =
      ((a.removeLast m).1.code, (if outNN then (a.removeLast m).2.1 else none),
       ofArr f (a.removeLast m).2.2.1, false) ∧ (a.removeLast m).2.2.2 = m := by
  have hw : GenF.wsub a.size 1 = Spec.Seq.wdec a.size := by
    unfold GenF.wsub Spec.Seq.wdec
    by_cases c : a.size = 0
    · simp [c]
    · have : 1 ≤ a.size := by omega
      simp [c, this]
  obtain ⟨g1, g2⟩ := arr_remove_at_agrees f a (Spec.Seq.wdec a.size) outNN m h
  unfold GenF.cc_array_remove_last Arr.removeLast
  simp only [ofArr] at g1 ⊢
  simp only [hw]
  simp [g1, g2]

/-! ## growth, `add`, `add_at`, `trim_capacity` -/

theorem newcap_eq (f : Float32) (a : Arr) (hg : a.grow = growOf f) (h4 : a.capacity ≤ Gen.CC_MAX_ELEMENTS / 8) :
    (if (Float32.ofNat a.capacity * f).toUInt64.toNat ≤ a.capacity then
        (if a.capacity < 18446744073709551614 / 2 then GenF.wadd a.capacity 1 else 18446744073709551614)
      else (Float32.ofNat a.capacity * f).toUInt64.toNat) = a.newCapacity := by
  unfold Arr.newCapacity GenF.wadd
  rw [hg]
  unfold growOf
  simp only [Gen.CC_MAX_ELEMENTS] at *
  have : (a.capacity + 1) % 2 ^ 64 = a.capacity + 1 := Nat.mod_eq_of_lt (by omega)
  simp only [this]
  first | rfl | (split <;> rfl) | (split <;> split <;> rfl)

/-- the static `expand_capacity`: on success the buffer is a fresh block (id `nid`) and the old one (id `bid`) has
been released — after the copy —, otherwise nothing changes; fault-free -/
theorem expand_agrees (f : Float32) (a : Arr) (m : Mem) (sid bid nid : Nat) (hg : a.grow = growOf f) (h : a.Inv)
    (hs : sid ≠ bid) :
    GenF.cc_array_s__expand_capacity (ofArr f a sid bid) m nid =
      ((a.expandCapacity m).1.code,
       ofArr f (a.expandCapacity m).2.1 sid (if (a.expandCapacity m).1 = .ok then nid else bid),
       (a.expandCapacity m).2.2,
       (if (a.expandCapacity m).1 = .ok then nid + 1 else nid),
       (if (a.expandCapacity m).1 = .ok then [bid] else []), false) := by
  obtain ⟨h1, h2, h3, h4⟩ := h
  have hgt := Arr.newCapacity_gt a (by have := Arr.max8_lt; omega)
  have hn := newcap_eq f a hg h4
  unfold GenF.cc_array_s__expand_capacity Arr.expandCapacity ofArr
  simp only [decide_eq_true_eq]
  simp only [hn]
  generalize a.newCapacity = nc at *
  by_cases c0 : a.capacity = Gen.CC_MAX_ELEMENTS
  · exfalso
    simp only [Gen.CC_MAX_ELEMENTS] at c0 h4
    omega
  have c0' : ¬ a.capacity = 18446744073709551614 := by simpa [Gen.CC_MAX_ELEMENTS] using c0
  by_cases c1 : nc > Gen.CC_MAX_ELEMENTS / 8
  · have c1' : nc > 18446744073709551614 / 8 := by simpa [Gen.CC_MAX_ELEMENTS] using c1
    simp [c0, c0', c1, c1', codes]
  have c1' : ¬ nc > 18446744073709551614 / 8 := by simpa [Gen.CC_MAX_ELEMENTS] using c1
  have w1 : GenF.wmul nc 8 / 8 = nc := wmul8 nc (by omega)
  have w2 : GenF.wmul a.size 8 / 8 = a.size := wmul8 a.size (by omega)
  have s1 : a.size ≤ a.buf.length := by omega
  have s2 : a.size ≤ nc := by omega
  by_cases al : (m.allocT a.triple).1 = true
  · simp [c0, c0', c1, c1', al, w1, w2, s1, s2, codes, GenF.isDead, hs]
  · simp [c0, c0', c1, c1', al, codes]

/-- the part of `cc_array_add` behind the capacity test (`cc_array_add_k1`: store at `size`), on any state whose
block has room, for every set of released blocks that does not contain the array's two blocks -/
theorem add_tail (f : Float32) (a : Arr) (x : Nat) (m : Mem) (nid sid bid : Nat) (dead : List Nat)
    (hs : a.size < a.buf.length) (h64 : a.size ≤ Gen.CC_MAX_ELEMENTS / 8)
    (hl1 : GenF.isDead dead sid = false) (hl2 : GenF.isDead dead bid = false) :
    GenF.cc_array_add_k1 (ofArr f a sid bid) x m nid dead false =
      ((a.store x m).1.code, ofArr f (a.store x m).2.1 sid bid, (a.store x m).2.2, nid, dead, false) := by
  have hw : GenF.wadd a.size 1 = a.size + 1 := wadd1 _ h64
  unfold GenF.cc_array_add_k1 Arr.store ofArr
  simp [hs, hw, hl1, hl2, codes]

/-- `cc_array_add` (growth included): status code, state, ledger, block ids; fault-free -/
theorem arr_add_agrees (f : Float32) (a : Arr) (x : Nat) (m : Mem) (sid bid nid : Nat) (hg : a.grow = growOf f)
    (h : a.Inv) (hsb : sid ≠ bid) (hbn : bid ≠ nid) :
    GenF.cc_array_add (ofArr f a sid bid) x m nid =
      ((a.add x m).1.code,
       ofArr f (a.add x m).2.1 sid (if a.size ≥ a.capacity ∧ (a.expandCapacity m).1 = .ok then nid else bid),
       (a.add x m).2.2,
       (if a.size ≥ a.capacity ∧ (a.expandCapacity m).1 = .ok then nid + 1 else nid),
       (if a.size ≥ a.capacity ∧ (a.expandCapacity m).1 = .ok then [bid] else []), false) := by
  have hI := h
  obtain ⟨h1, h2, h3, h4⟩ := h
  unfold Arr.add GenF.cc_array_add
  by_cases hfull : a.size ≥ a.capacity
  · have hd : decide ((ofArr f a sid bid).size ≥ (ofArr f a sid bid).capacity) = true := by
      change decide (a.size ≥ a.capacity) = true
      simpa using hfull
    dsimp only
    rw [hd]
    simp only [hfull, if_true, true_and]
    rw [expand_agrees f a m sid bid nid hg hI hsb]
    dsimp only
    by_cases hok : (a.expandCapacity m).1 = .ok
    · obtain ⟨_, e2, e3, e4, e5, e6, e7, _⟩ := Arr.expandCapacity_ok a m hI hok
      simp only [hok, if_true, codes, ne_eq, not_true_eq_false, decide_false, if_false, Bool.false_eq_true,
        bne_self_eq_false, Bool.false_or, List.append_nil]
      exact add_tail f (a.expandCapacity m).2.1 x (a.expandCapacity m).2.2 (nid + 1) sid nid [bid] (by omega) (by omega)
        (by simp [GenF.isDead, hsb]) (by simp [GenF.isDead]; exact fun e => hbn e.symm)
    · have hne : (a.expandCapacity m).1.code ≠ 0 := by
        intro hc; apply hok; revert hc
        cases (a.expandCapacity m).1 <;> simp [Stat.code, Gen.CC_OK, Gen.CC_ERR_ALLOC,
          Gen.CC_ERR_INVALID_CAPACITY, Gen.CC_ERR_INVALID_RANGE, Gen.CC_ERR_MAX_CAPACITY, Gen.CC_ERR_KEY_NOT_FOUND,
          Gen.CC_ERR_VALUE_NOT_FOUND, Gen.CC_ERR_OUT_OF_RANGE, Gen.CC_ITER_END]
      simp [hok, hne]
  · have hd : decide ((ofArr f a sid bid).size ≥ (ofArr f a sid bid).capacity) = false := by
      change decide (a.size ≥ a.capacity) = false
      simpa using hfull
    dsimp only
    rw [hd]
    simp only [hfull, if_false, false_and, Bool.false_eq_true]
    exact add_tail f a x m nid sid bid [] (by omega) (by omega) (by simp [GenF.isDead]) (by simp [GenF.isDead])

/-- the part of `cc_array_add_at` behind the capacity test (`cc_array_add_at_k1`: shift the tail, store), strictly
inside an array whose block has room -/
theorem add_at_tail (f : Float32) (a : Arr) (x i : Nat) (m : Mem) (nid sid bid : Nat) (dead : List Nat)
    (hi : i < a.size) (hs : a.size < a.buf.length) (h4 : a.size < Gen.CC_MAX_ELEMENTS / 8)
    (hl1 : GenF.isDead dead sid = false) (hl2 : GenF.isDead dead bid = false) :
    GenF.cc_array_add_at_k1 (ofArr f a sid bid) x i m nid dead false =
      ((a.insertShift x i m).1.code, ofArr f (a.insertShift x i m).2.1 sid bid, (a.insertShift x i m).2.2, nid, dead, false) := by
  have hw : GenF.wadd a.size 1 = a.size + 1 := wadd1 _ (by omega)
  have hwi : GenF.wadd i 1 = i + 1 := wadd1 _ (by omega)
  have hws : GenF.wsub a.size i = a.size - i := wsub_le _ _ (by omega)
  have hw8 : GenF.wmul (a.size - i) 8 / 8 = a.size - i := wmul8 _ (by omega)
  have hb1 : i + 1 + (a.size - i) ≤ a.buf.length := by omega
  have hb2 : i + (a.size - i) ≤ a.buf.length := by omega
  have hb3 : i < a.buf.length := by omega
  have hb4 : a.size + 1 ≤ a.buf.length := by omega
  unfold GenF.cc_array_add_at_k1 Arr.insertShift ofArr
  simp [hw, hwi, hws, hw8, hb1, hb2, hb3, hb4, hl1, hl2, codes]

/-- `cc_array_add_at`, for every index (growth included): status code, state, ledger, block ids; fault-free -/
theorem arr_add_at_agrees (f : Float32) (a : Arr) (x i : Nat) (m : Mem) (sid bid nid : Nat) (hg : a.grow = growOf f)
    (h : a.Inv) (hsb : sid ≠ bid) (hbn : bid ≠ nid) :
    GenF.cc_array_add_at (ofArr f a sid bid) x i m nid =
      ((a.addAt x i m).1.code,
       ofArr f (a.addAt x i m).2.1 sid
         (if (a.addAt x i m).1 = .ok ∧ a.size ≥ a.capacity then nid else bid),
       (a.addAt x i m).2.2,
       (if (a.addAt x i m).1 = .ok ∧ a.size ≥ a.capacity then nid + 1 else nid),
       (if (a.addAt x i m).1 = .ok ∧ a.size ≥ a.capacity then [bid] else []), false) := by
  have hI := h
  obtain ⟨h1, h2, h3, h4⟩ := h
  have hwd : GenF.wsub a.size 1 = Spec.Seq.wdec a.size := by
    unfold GenF.wsub Spec.Seq.wdec
    by_cases c : a.size = 0
    · simp [c]
    · have : 1 ≤ a.size := by omega
      simp [c, this]
  have hcode : ∀ st : Stat, st.code = 0 ↔ st = .ok := by
    intro st; cases st <;> simp [Stat.code, Gen.CC_OK, Gen.CC_ERR_ALLOC,
      Gen.CC_ERR_INVALID_CAPACITY, Gen.CC_ERR_INVALID_RANGE, Gen.CC_ERR_MAX_CAPACITY, Gen.CC_ERR_KEY_NOT_FOUND,
      Gen.CC_ERR_VALUE_NOT_FOUND, Gen.CC_ERR_OUT_OF_RANGE, Gen.CC_ITER_END]
  unfold Arr.addAt GenF.cc_array_add_at
  dsimp only
  by_cases hend : i = a.size
  · -- the call is handed to `cc_array_add`
    have hd : decide (i = (ofArr f a sid bid).size) = true := by
      change decide (i = a.size) = true
      simpa using hend
    rw [hd]
    simp only [hend, if_true, arr_add_agrees f a x m sid bid nid hg hI hsb hbn]
    unfold Arr.add
    by_cases hfull : a.size ≥ a.capacity
    · by_cases hok : (a.expandCapacity m).1 = .ok
      · simp [hfull, hok, Arr.store]
      · simp [hfull, hok]
    · simp [hfull, Arr.store]
  have hd0 : decide (i = (ofArr f a sid bid).size) = false := by
    change decide (i = a.size) = false
    simpa using hend
  rw [hd0]
  simp only [hend, if_false, Bool.false_eq_true]
  by_cases hgd : ((a.size = 0 && i != 0) || decide (i > Spec.Seq.wdec a.size)) = true
  · have hgd' : ((decide ((ofArr f a sid bid).size = 0) && decide (i ≠ 0)) || decide (i > GenF.wsub (ofArr f a sid bid).size 1)) = true := by
      change ((decide (a.size = 0) && decide (i ≠ 0)) || decide (i > GenF.wsub a.size 1)) = true
      simp only [hwd]; simpa using hgd
    rw [hgd']
    simp only [hgd, if_true]
    simp [ofArr, codes]
  · have hgd' : ((decide ((ofArr f a sid bid).size = 0) && decide (i ≠ 0)) || decide (i > GenF.wsub (ofArr f a sid bid).size 1)) = false := by
      change ((decide (a.size = 0) && decide (i ≠ 0)) || decide (i > GenF.wsub a.size 1)) = false
      simp only [hwd]; simpa using hgd
    rw [hgd']
    simp only [hgd, if_false, Bool.false_eq_true]
    have hi : i < a.size := by
      have hP : ¬ ((a.size = 0 ∧ i ≠ 0) ∨ i > Spec.Seq.wdec a.size) := by simpa using hgd
      unfold Spec.Seq.wdec at hP
      by_cases c : a.size = 0
      · simp [c] at hP; omega
      · simp [c] at hP; omega
    by_cases hfull : a.size ≥ a.capacity
    · have hd : decide ((ofArr f a sid bid).size ≥ (ofArr f a sid bid).capacity) = true := by
        change decide (a.size ≥ a.capacity) = true
        simpa using hfull
      rw [hd]
      simp only [hfull, if_true, and_true]
      rw [expand_agrees f a m sid bid nid hg hI hsb]
      dsimp only
      by_cases hok : (a.expandCapacity m).1 = .ok
      · obtain ⟨_, e2, e3, e4, e5, e6, e7, _⟩ := Arr.expandCapacity_ok a m hI hok
        have T := add_at_tail f (a.expandCapacity m).2.1 x i (a.expandCapacity m).2.2 (nid + 1) sid nid [bid]
          (by omega) (by omega) (by omega) (by simp [GenF.isDead, hsb]) (by simp [GenF.isDead]; exact fun e => hbn e.symm)
        simp only [hok, if_true, codes, ne_eq, not_true_eq_false, decide_false, if_false, Bool.false_eq_true,
          bne_self_eq_false, Bool.false_or, List.append_nil]
        rw [T]
        simp [Arr.insertShift]
      · have hne : (a.expandCapacity m).1.code ≠ 0 := fun hc => hok ((hcode _).1 hc)
        simp [hok, hne]
    · have hd : decide ((ofArr f a sid bid).size ≥ (ofArr f a sid bid).capacity) = false := by
        change decide (a.size ≥ a.capacity) = false
        simpa using hfull
      rw [hd]
      simp only [hfull, if_false, and_false, Bool.false_eq_true]
      exact add_at_tail f a x i m nid sid bid [] hi (by omega) (by omega) (by simp [GenF.isDead]) (by simp [GenF.isDead])

/-- `cc_array_trim_capacity`: when it reallocates, the buffer is a fresh block (id `nid`) and the old one was released
after the copy -/
theorem arr_trim_capacity_agrees (f : Float32) (a : Arr) (m : Mem) (sid bid nid : Nat) (h : a.Inv) (hsb : sid ≠ bid) :
    GenF.cc_array_trim_capacity (ofArr f a sid bid) m nid =
      ((a.trimCapacity m).1.code,
       ofArr f (a.trimCapacity m).2.1 sid (if (a.trimCapacity m).2.1.capacity ≠ a.capacity then nid else bid),
       (a.trimCapacity m).2.2,
       (if (a.trimCapacity m).2.1.capacity ≠ a.capacity then nid + 1 else nid),
       (if (a.trimCapacity m).2.1.capacity ≠ a.capacity then [bid] else []), false) := by
  obtain ⟨h1, h2, h3, h4⟩ := h
  have w2 : GenF.wmul a.size 8 / 8 = a.size := wmul8 a.size (by omega)
  have s1 : a.size ≤ a.buf.length := by omega
  unfold GenF.cc_array_trim_capacity Arr.trimCapacity ofArr
  by_cases c0 : a.size = a.capacity
  · simp [c0, codes]
  by_cases c1 : a.size < 1
  · have hz : a.size = 0 := by omega
    by_cases c2 : 1 = a.capacity
    · have c2' : a.capacity = 1 := c2.symm
      simp [hz, c2', codes] at c0 ⊢
    · have c2' : ¬ a.capacity = 1 := fun e => c2 e.symm
      have c0' : ¬ 0 = a.capacity := by omega
      by_cases al : (m.allocT a.triple).1 = true
      · simp [hz, c0', c2, c2', al, GenF.wmul, codes, GenF.isDead, hsb]
      · simp [hz, c0', c2, c2', al, codes]
  · have c1' : ¬ a.size = 0 := by omega
    by_cases al : (m.allocT a.triple).1 = true
    · simp [c0, c1, c1', al, w2, s1, codes, GenF.isDead, hsb]
    · simp [c0, c1, c1', al, codes]

theorem wadd1b (n : Nat) (h : n + 1 < 2 ^ 64) : GenF.wadd n 1 = n + 1 := by
  unfold GenF.wadd; exact Nat.mod_eq_of_lt h

/-- the loop of `cc_array_reverse` from position `i` on -/
theorem reverse_loop : ∀ (fuel : Nat) (g : GenF.cc_array_s) (i : Nat),
    g.size ≤ g.buffer.length → g.size < 2 ^ 63 → i ≤ g.size / 2 → g.size / 2 - i < fuel →
    (GenF.cc_array_reverse_loop1 fuel g i (g.size - 1 - i) false).1 =
        { g with buffer := (List.range' i (g.size / 2 - i)).foldl (Arr.reverseStep g.size) g.buffer } ∧
    (GenF.cc_array_reverse_loop1 fuel g i (g.size - 1 - i) false).2.2.2 = false := by
  intro fuel
  induction fuel with
  | zero => intro g i _ _ _ h; omega
  | succ k ih =>
    intro g i hl h63 hi hf
    simp only [GenF.cc_array_reverse_loop1]
    by_cases c : i < g.size / 2
    · have hib : i < g.buffer.length := by omega
      have hjb : g.size - 1 - i < g.buffer.length := by omega
      have hw : GenF.wadd i 1 = i + 1 := wadd1b i (by omega)
      have hj : GenF.wsub (g.size - 1 - i) 1 = g.size - 1 - (i + 1) := by rw [wsub_le _ _ (by omega)]; omega
      have hr : List.range' i (g.size / 2 - i) = i :: List.range' (i + 1) (g.size / 2 - (i + 1)) := by
        have : g.size / 2 - i = (g.size / 2 - (i + 1)) + 1 := by omega
        rw [this, List.range'_succ]
      have := ih { g with buffer := Arr.reverseStep g.size g.buffer i } (i + 1)
        (by simp [Arr.reverseStep]; exact hl) h63 (by simp only []; omega) (by simp only []; omega)
      simp only [c, decide_true, if_true, hib, hjb, hw, hj, hr, List.foldl_cons, Bool.not_true, Bool.or_false,
        Bool.and_self, Bool.false_or, Buf.length_put]
      simpa [Arr.reverseStep] using this
    · have : g.size / 2 - i = 0 := by omega
      simp [c, this]

/-- `cc_array_reverse`: fault-free with `size ≤ fuel` -/
theorem arr_reverse_agrees (f : Float32) (a : Arr) (m : Mem) (fuel : Nat) (h : a.Inv) (hf : a.size ≤ fuel) :
    GenF.cc_array_reverse (ofArr f a) fuel = (ofArr f (a.reverse m).1, false) ∧ (a.reverse m).2 = m := by
  obtain ⟨h1, h2, h3, h4⟩ := h
  have hl : a.size ≤ a.buf.length := by omega
  unfold GenF.cc_array_reverse Arr.reverse
  by_cases c : a.size = 0
  · simp [c, ofArr]
  · have hw : GenF.wsub a.size 1 = a.size - 1 := wsub_le _ _ (by omega)
    have h63 : a.size < 2 ^ 63 := by simp only [Gen.CC_MAX_ELEMENTS] at h4; omega
    obtain ⟨L1, L2⟩ := reverse_loop fuel (ofArr f a) 0 hl h63 (by omega) (by simp only [ofArr]; omega)
    simp only [Nat.sub_zero] at L1 L2
    simp only [ofArr] at L1 L2 ⊢
    simp only [c, decide_false, if_false, hw, Bool.false_eq_true]
    rw [L1, L2]
    simp [List.range_eq_range', hl]

/-- the loop of `cc_array_contains` from position `i` on -/
theorem contains_loop (g : GenF.cc_array_s) (x : Nat) : ∀ (fuel o i : Nat),
    g.size ≤ g.buffer.length → g.size < 2 ^ 63 → o ≤ i → i ≤ g.size → g.size - i < fuel →
    GenF.cc_array_contains_loop1 g x fuel o i false =
      ((List.range' i (g.size - i)).foldl (fun o i => if Buf.get g.buffer i = x then o + 1 else o) o, g.size, false) := by
  intro fuel
  induction fuel with
  | zero => intro o i _ _ _ _ h; omega
  | succ k ih =>
    intro o i hl h63 ho hi hf
    simp only [GenF.cc_array_contains_loop1]
    by_cases c : i < g.size
    · have hib : i < g.buffer.length := by omega
      have hw : GenF.wadd i 1 = i + 1 := wadd1b i (by omega)
      have hwo : GenF.wadd o 1 = o + 1 := wadd1b o (by omega)
      have hr : List.range' i (g.size - i) = i :: List.range' (i + 1) (g.size - (i + 1)) := by
        have : g.size - i = (g.size - (i + 1)) + 1 := by omega
        rw [this, List.range'_succ]
      simp only [c, decide_true, if_true, hib, hw, hwo, hr, List.foldl_cons, Bool.not_true, Bool.or_false, decide_eq_true_eq]
      by_cases e : Buf.get g.buffer i = x
      · simp only [e, if_true]
        exact ih (o + 1) (i + 1) hl h63 (by omega) (by omega) (by omega)
      · simp only [e, if_false]
        exact ih o (i + 1) hl h63 (by omega) (by omega) (by omega)
    · have : g.size - i = 0 := by omega
      have : i = g.size := by omega
      simp [c, this]

/-- `cc_array_contains`: fault-free with `size < fuel` -/
theorem arr_contains_agrees (f : Float32) (a : Arr) (x : Nat) (m : Mem) (fuel : Nat) (h : a.Inv) (hf : a.size < fuel) :
    GenF.cc_array_contains (ofArr f a) x fuel = ((a.contains x m).1, false) ∧ (a.contains x m).2 = m := by
  obtain ⟨h1, h2, h3, h4⟩ := h
  have hl : a.size ≤ a.buf.length := by omega
  have h63 : a.size < 2 ^ 63 := by simp only [Gen.CC_MAX_ELEMENTS] at h4; omega
  have L := contains_loop (ofArr f a) x fuel 0 0 hl h63 (by omega) (by omega) (by simp only [ofArr]; omega)
  unfold GenF.cc_array_contains Arr.contains
  simp only [L]
  simp [ofArr, List.range_eq_range', hl]
  rfl

/-- the loop of `cc_array_index_of` from position `i` on -/
theorem index_of_loop (g : GenF.cc_array_s) (x : Nat) : ∀ (fuel i : Nat),
    g.size ≤ g.buffer.length → g.size < 2 ^ 63 → i ≤ g.size → g.size - i < fuel →
    GenF.cc_array_index_of_loop1 g x fuel none i none false =
      match Arr.indexOfFrom g.buffer x (g.size - i) i with
      | some k => (some k, k, some 0, false)
      | none => (none, g.size, none, false) := by
  intro fuel
  induction fuel with
  | zero => intro i _ _ _ h; omega
  | succ k ih =>
    intro i hl h63 hi hf
    simp only [GenF.cc_array_index_of_loop1]
    by_cases c : i < g.size
    · have hib : i < g.buffer.length := by omega
      have hw : GenF.wadd i 1 = i + 1 := wadd1b i (by omega)
      have hr : g.size - i = (g.size - (i + 1)) + 1 := by omega
      rw [hr, Arr.indexOfFrom]
      by_cases e : Buf.get g.buffer i = x
      · simp [c, hib, e]
      · simp only [c, decide_true, if_true, hib, hw, e, decide_false, if_false, Bool.not_true, Bool.or_false, Bool.false_eq_true]
        exact ih (i + 1) hl h63 (by omega) (by omega)
    · have h0 : g.size - i = 0 := by omega
      have : i = g.size := by omega
      simp [c, h0, this, Arr.indexOfFrom]

/-- `cc_array_index_of`: fault-free with `size < fuel`; status code and index -/
theorem arr_index_of_agrees (f : Float32) (a : Arr) (x : Nat) (m : Mem) (fuel : Nat) (h : a.Inv) (hf : a.size < fuel) :
    GenF.cc_array_index_of (ofArr f a) x fuel = ((a.indexOf x m).1.code, (a.indexOf x m).2.1, false) ∧
    (a.indexOf x m).2.2 = m := by
  obtain ⟨h1, h2, h3, h4⟩ := h
  have hl : a.size ≤ a.buf.length := by omega
  have h63 : a.size < 2 ^ 63 := by simp only [Gen.CC_MAX_ELEMENTS] at h4; omega
  have L := index_of_loop (ofArr f a) x fuel 0 hl h63 (by omega) (by simp only [ofArr]; omega)
  unfold GenF.cc_array_index_of Arr.indexOf
  simp only [L]
  simp only [ofArr, Nat.sub_zero, hl, decide_true, Mem.check_true]
  rcases Option.eq_none_or_eq_some (Arr.indexOfFrom a.buf x a.size 0) with hq | ⟨k, hq⟩ <;> simp [hq, codes]

theorem indexOfFrom_lt (b : Buf Nat) (x : Nat) : ∀ (n i k : Nat), Arr.indexOfFrom b x n i = some k → i ≤ k ∧ k < i + n := by
  intro n
  induction n with
  | zero => intro i k h; simp [Arr.indexOfFrom] at h
  | succ n ih =>
    intro i k h
    rw [Arr.indexOfFrom] at h
    by_cases e : Buf.get b i = x
    · simp [e] at h; omega
    · simp only [e, if_false] at h
      have := ih (i + 1) k h
      omega

/-- `cc_array_remove` (the first occurrence; the model always reports the element, the C function only when
`out != NULL`): fault-free with `size < fuel` -/
theorem arr_remove_agrees (f : Float32) (a : Arr) (x : Nat) (outNN : Bool) (m : Mem) (idx0 fuel : Nat) (h : a.Inv)
    (hf : a.size < fuel) :
    GenF.cc_array_remove (ofArr f a) x idx0 outNN fuel =
      ((a.remove x m).1.code, (if outNN then (a.remove x m).2.1 else none), ofArr f (a.remove x m).2.2.1, false) ∧
    (a.remove x m).2.2.2 = m := by
  obtain ⟨I1, I2⟩ := arr_index_of_agrees f a x m fuel h hf
  obtain ⟨h1, h2, h3, h4⟩ := h
  have hl : a.size ≤ a.buf.length := by omega
  unfold GenF.cc_array_remove Arr.remove Arr.closeGap
  simp only [I1, I2]
  unfold Arr.indexOf
  simp only [hl, decide_true, Mem.check_true]
  rcases Option.eq_none_or_eq_some (Arr.indexOfFrom a.buf x a.size 0) with hq | ⟨k, hq⟩
  · cases outNN <;> simp [hq, codes, ofArr]
  · have hk := indexOfFrom_lt a.buf x a.size 0 k hq
    have hw : GenF.wsub a.size 1 = a.size - 1 := wsub_le _ _ (by omega)
    have hw2 : GenF.wsub (a.size - 1) k = a.size - 1 - k := wsub_le _ _ (by omega)
    have hw3 : GenF.wmul (a.size - 1 - k) 8 / 8 = a.size - 1 - k := wmul8 _ (by omega)
    have hw4 : GenF.wadd k 1 = k + 1 := wadd1 _ (by omega)
    have hc : k + 1 + (a.size - 1 - k) ≤ a.buf.length := by omega
    have hc2 : k + (a.size - 1 - k) ≤ a.buf.length := by omega
    by_cases e : k = a.size - 1
    · have hc3 : a.size - 1 + 1 ≤ a.buf.length := by omega
      subst e
      cases outNN <;> simp [hq, codes, ofArr, hw, hc3]
    · cases outNN <;> simp [hq, codes, ofArr, hw, hw2, hw3, hw4, hc, hc2, e]

/-- the hypotheses are satisfiable by a non-trivial state, and the statements are not vacuous: a full
three-element array; the translated `reverse`, `index_of`, `remove_at` and `add_at` behave as expected and do
not fault with enough fuel, `contains` reports a fault when the fuel runs out, `destroy` of an array whose two
blocks carry the same id (a double free) reports a fault -/
example :
    let a : Arr := { size := 3, capacity := 4, buf := [7, 8, 9, 0], grow := growOf 2 }
    a.Inv ∧
    (GenF.cc_array_reverse (ofArr 2 a) 3).1.buffer = [9, 8, 7, 0] ∧ (GenF.cc_array_reverse (ofArr 2 a) 3).2 = false ∧
    GenF.cc_array_index_of (ofArr 2 a) 8 4 = (0, some 1, false) ∧
    (GenF.cc_array_remove_at (ofArr 2 a) 0 true).2.2.1.buffer = [8, 9, 9, 0] ∧
    (GenF.cc_array_add_at (ofArr 2 a 1 2) 5 1 {} 3).2.1.buffer = [7, 5, 8, 9] ∧
    (GenF.cc_array_contains (ofArr 2 a) 8 4) = (1, false) ∧ (GenF.cc_array_contains (ofArr 2 a) 8 2).2 = true ∧
    (GenF.cc_array_destroy (ofArr 2 a 1 2) {}).2.2 = false ∧ (GenF.cc_array_destroy (ofArr 2 a 1 1) {}).2.2 = true := by
  decide

end CC.Properties.C01Gen
