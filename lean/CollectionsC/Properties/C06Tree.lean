import CollectionsC.Properties.C03
/-! # C06 (tree table / tree set part): memory safety and leak freedom

`Mem.fault` is the model's memory-safety flag (a release with nothing live, a dereference through a
link that does not exist — here: `iter_remove` before any `iter_next`, the only documented
precondition).  The ledger counter that belongs to the container's allocator triple
(`TreeTable.liveOf m t.triple`: `live` for `new_conf`, `liveLibc` for the default constructor) counts
the blocks obtained through it.  The table owns `size + 2` blocks (nodes, sentinel, header), the set one
more; `TreeTable.Owns` / `TreeSet.Owns` say that the ledger holds at least those — established by the
constructors, preserved by everything.  Quantifiers: every total-order comparator, every state
satisfying the invariant, every call / history / session, every allocator schedule, both triples.
The functional tree cannot express dangling links inside the tree; those are the harness's (ASan,
parent-pointer walker). -/
namespace CC.Properties.C06Tree
open CC CC.Spec CC.Spec.OrdMap
variable {cmp : Nat → Nat → Int}

/-- (a) no call of the table API faults -/
theorem step_nofault (ho : TotalOrder cmp) (t : TreeTable) (h : t.Inv cmp) (op : Op) (m : Mem)
    (hm : TreeTable.Owns t m) : (t.step cmp op m).2.2.1.fault = m.fault :=
  (C03.step_refines ho t h op m hm).nofault

/-- (a) lifted to histories, for every refusal schedule -/
theorem history_nofault (ho : TotalOrder cmp) (ops : List (Op × List Bool)) (t : TreeTable) (h : t.Inv cmp)
    (m : Mem) (hm : TreeTable.Owns t m) : (t.run cmp ops m).2.2.2.fault = m.fault :=
  (C03.history_refines ho ops t h m hm).2.2.2.1

/-- (b) per call the number of live blocks of the table's triple moves exactly with the number of
entries, and ledger consistency is preserved -/
theorem step_ledger (ho : TotalOrder cmp) (t : TreeTable) (h : t.Inv cmp) (op : Op) (m : Mem)
    (hm : TreeTable.Owns t m) :
    TreeTable.liveOf (t.step cmp op m).2.2.1 t.triple + t.size =
      TreeTable.liveOf m t.triple + (t.step cmp op m).2.1.size ∧
    TreeTable.Owns (t.step cmp op m).2.1 (t.step cmp op m).2.2.1 :=
  ⟨(C03.step_refines ho t h op m hm).ledger, (C03.step_refines ho t h op m hm).owns⟩

theorem history_ledger (ho : TotalOrder cmp) (ops : List (Op × List Bool)) (t : TreeTable) (h : t.Inv cmp)
    (m : Mem) (hm : TreeTable.Owns t m) :
    TreeTable.liveOf (t.run cmp ops m).2.2.2 t.triple + t.size =
      TreeTable.liveOf m t.triple + (t.run cmp ops m).2.2.1.size ∧
    TreeTable.Owns (t.run cmp ops m).2.2.1 (t.run cmp ops m).2.2.2 :=
  ⟨(C03.history_refines ho ops t h m hm).2.2.2.2.1, (C03.history_refines ho ops t h m hm).2.2.2.2.2.1⟩

/-- `remove_all` releases one block per entry and nothing else -/
theorem remove_all_ledger (ho : TotalOrder cmp) (t : TreeTable) (h : t.Inv cmp) (m : Mem)
    (hm : TreeTable.Owns t m) :
    TreeTable.liveOf (t.removeAll m).2 t.triple + t.size = TreeTable.liveOf m t.triple ∧
    (t.removeAll m).2.fault = m.fault ∧ (t.removeAll m).1.size = 0 := by
  have s := C03.step_refines ho t h .removeAll m hm
  exact ⟨s.ledger, s.nofault, rfl⟩

/-- (a)/(b) for sessions — table calls interleaved with iterator sessions, removal through the
iterator included; the fault flag stays clear when `iter_remove` is only called after a successful
`iter_next` (`SessionValid`) -/
theorem session_nofault_ledger (ho : TotalOrder cmp) (segs : List Segment) (t : TreeTable) (h : t.Inv cmp)
    (m : Mem) (hm : TreeTable.Owns t m) :
    (TreeTable.SessionValid cmp t segs m → (t.runSession cmp segs m).2.2.fault = m.fault) ∧
    TreeTable.liveOf (t.runSession cmp segs m).2.2 t.triple + t.size =
      TreeTable.liveOf m t.triple + (t.runSession cmp segs m).2.1.size ∧
    TreeTable.Owns (t.runSession cmp segs m).2.1 (t.runSession cmp segs m).2.2 :=
  let k := (C03.session_refines ho segs t h m hm).2.2.2
  ⟨k.1, k.2.1, k.2.2.1⟩

/-- (b) **`new … any session … destroy` returns the ledger to where it started**, whatever the
allocator refuses on the way, on whichever triple the table was built, without a fault -/
theorem destroy_releases_all (ho : TotalOrder cmp) (tr : Triple) (m0 m1 : Mem) (t0 : TreeTable)
    (hnew : TreeTable.newT tr m0 = (.ok, some t0, m1)) (segs : List Segment)
    (hv : TreeTable.SessionValid cmp t0 segs m1) :
    TreeTable.liveOf ((t0.runSession cmp segs m1).2.1.destroy (t0.runSession cmp segs m1).2.2) tr =
      TreeTable.liveOf m0 tr ∧
    ((t0.runSession cmp segs m1).2.1.destroy (t0.runSession cmp segs m1).2.2).fault = m0.fault := by
  obtain ⟨hi, ha, ht, hl, hf, how⟩ := (C03.new_inv (cmp := cmp) tr m0).1 t0 m1 hnew
  have hs : t0.size = 0 := by rw [hi.size_eq, ha]; rfl
  obtain ⟨_, _, c, d, e, _, g⟩ := TreeTable.session_ok ho segs hi m1 how
  obtain ⟨_, _, _, _, _, f, _⟩ := TreeTable.session_ok ho segs hi m1 how
  have := C03.destroy_ledger (t0.runSession cmp segs m1).2.1 c (t0.runSession cmp segs m1).2.2 g
  rw [f, ht] at this
  rw [ht] at e
  exact ⟨by omega, by rw [this.2, d hv, hf]⟩

/-- a refused constructor leaves nothing behind -/
theorem new_refused_no_leak (tr : Triple) (m0 : Mem) (h : (TreeTable.newT tr m0).1 = .errAlloc) :
    (TreeTable.newT tr m0).2.1 = none ∧
    TreeTable.liveOf (TreeTable.newT tr m0).2.2 tr = TreeTable.liveOf m0 tr ∧
    (TreeTable.newT tr m0).2.2.fault = m0.fault :=
  (C03.new_inv (cmp := fun _ _ => 0) tr m0).2.2 h

/-- (c) the callback variants (`foreach_key`, `foreach_value`: the `tree_min` + `get_successor_node`
loop) hand every held key / value to the callback exactly once, in ascending key order, and change
nothing -/
theorem foreach_each_once (t : TreeTable) (m : Mem) :
    (t.step cmp .foreachKey m).1.log = keys t.abs ∧ (t.step cmp .foreachValue m).1.log = values t.abs ∧
    (t.step cmp .foreachKey m).2.1 = t ∧ (t.step cmp .foreachValue m).2.1 = t ∧
    (t.step cmp .foreachKey m).2.2.1 = m ∧ (t.step cmp .foreachValue m).2.2.1 = m :=
  ⟨TreeTable.foreachKey_spec t, TreeTable.foreachValue_spec t, rfl, rfl, rfl, rfl⟩

/-! ## tree set -/

theorem set_step_nofault (ho : TotalOrder cmp) (s : TreeSet) (h : s.Inv cmp) (op : OrdSet.Op) (m : Mem)
    (hm : TreeTable.Owns s.t m) : (s.step cmp op m).2.2.1.fault = m.fault :=
  (C03.set_step_refines ho s h op m hm).nofault

theorem set_step_ledger (ho : TotalOrder cmp) (s : TreeSet) (h : s.Inv cmp) (op : OrdSet.Op) (m : Mem)
    (hm : TreeTable.Owns s.t m) :
    TreeTable.liveOf (s.step cmp op m).2.2.1 s.triple + s.t.size =
      TreeTable.liveOf m s.triple + (s.step cmp op m).2.1.t.size :=
  (C03.set_step_refines ho s h op m hm).ledger

theorem set_history_nofault (ho : TotalOrder cmp) (ops : List (OrdSet.Op × List Bool)) (s : TreeSet)
    (h : s.Inv cmp) (m : Mem) (hm : TreeTable.Owns s.t m) : (s.run cmp ops m).2.2.2.fault = m.fault :=
  (C03.set_history_refines ho ops s h m hm).2.2.2.1

/-- `cc_treeset_destroy` releases the table's blocks and the set header -/
theorem set_destroy_ledger (s : TreeSet) (h : s.Inv cmp) (m : Mem) (hm : TreeSet.Owns s m) :
    TreeTable.liveOf (s.destroy m) s.triple + s.t.size + 3 = TreeTable.liveOf m s.triple ∧
    (s.destroy m).fault = m.fault :=
  TreeSet.destroy_spec h m hm

/-- **`new … any history … destroy` on a set returns the ledger to where it started** -/
theorem set_destroy_releases_all (ho : TotalOrder cmp) (tr : Triple) (m0 m1 : Mem) (s0 : TreeSet)
    (hnew : TreeSet.newT tr m0 = (.ok, some s0, m1)) (ops : List (OrdSet.Op × List Bool)) :
    TreeTable.liveOf ((s0.run cmp ops m1).2.2.1.destroy (s0.run cmp ops m1).2.2.2) tr = TreeTable.liveOf m0 tr ∧
    ((s0.run cmp ops m1).2.2.1.destroy (s0.run cmp ops m1).2.2.2).fault = m0.fault := by
  obtain ⟨hi, ha, ht, hl, hf, how⟩ := (C03.set_new_inv (cmp := cmp) tr m0).1 s0 m1 hnew
  have hs : s0.t.size = 0 := by rw [hi.1.size_eq, ha]; rfl
  have how' : TreeTable.Owns s0.t m1 := by
    unfold TreeSet.Owns at how; unfold TreeTable.Owns; rw [hi.2.2]; omega
  obtain ⟨_, _, c, d, e, f, _, _⟩ := TreeSet.run_ok ho ops hi m1 how'
  have := set_destroy_ledger (s0.run cmp ops m1).2.2.1 c (s0.run cmp ops m1).2.2.2
    (by unfold TreeSet.Owns; rw [f, ht]; rw [ht] at e; omega)
  rw [f, ht] at this
  rw [ht] at e
  exact ⟨by omega, by rw [this.2, d, hf]⟩

/-- (a)/(b) for sessions of a set (set calls interleaved with iterator sessions), and
**`new … any session … destroy` returns the ledger to where it started** -/
theorem set_session_destroy_releases_all (ho : TotalOrder cmp) (tr : Triple) (m0 m1 : Mem) (s0 : TreeSet)
    (hnew : TreeSet.newT tr m0 = (.ok, some s0, m1)) (segs : List OrdSet.Segment)
    (hv : TreeSet.SessionValid cmp s0 segs m1) :
    TreeTable.liveOf ((s0.runSession cmp segs m1).2.1.destroy (s0.runSession cmp segs m1).2.2) tr =
      TreeTable.liveOf m0 tr ∧
    ((s0.runSession cmp segs m1).2.1.destroy (s0.runSession cmp segs m1).2.2).fault = m0.fault := by
  obtain ⟨hi, ha, ht, hl, hf, how⟩ := (C03.set_new_inv (cmp := cmp) tr m0).1 s0 m1 hnew
  have hs : s0.t.size = 0 := by rw [hi.1.size_eq, ha]; rfl
  obtain ⟨_, _, c, d, e, f, _⟩ := TreeSet.session_ok ho segs hi m1 (TreeSet.owns_table hi how)
  have := set_destroy_ledger (s0.runSession cmp segs m1).2.1 c (s0.runSession cmp segs m1).2.2
    (by unfold TreeSet.Owns; rw [f, ht]; rw [ht] at e; omega)
  rw [f, ht] at this
  rw [ht] at e
  exact ⟨by omega, by rw [this.2, d hv, hf]⟩

theorem set_new_refused_no_leak (tr : Triple) (m0 : Mem) (h : (TreeSet.newT tr m0).1 = .errAlloc) :
    (TreeSet.newT tr m0).2.1 = none ∧
    TreeTable.liveOf (TreeSet.newT tr m0).2.2 tr = TreeTable.liveOf m0 tr ∧
    (TreeSet.newT tr m0).2.2.fault = m0.fault :=
  (C03.set_new_inv (cmp := fun _ _ => 0) tr m0).2.2 h

/-- set iterator programs run on the table iterator: same ledger, same fault flag -/
theorem set_iter_nofault_ledger (ho : TotalOrder cmp) (s : TreeSet) (h : s.Inv cmp) (prog : List IterOp) (m : Mem)
    (hm : TreeTable.Owns s.t m) :
    (TreeTable.IterValid cmp s.t s.iterInit prog m → (s.iterRun cmp s.iterInit prog m).2.2.2.fault = m.fault) ∧
    TreeTable.liveOf (s.iterRun cmp s.iterInit prog m).2.2.2 s.triple + s.t.size =
      TreeTable.liveOf m s.triple + (s.iterRun cmp s.iterInit prog m).2.1.t.size := by
  have k := (C03.iter_refines ho s.t h.1 prog m hm).2.2.2
  have e := TreeSet.iterRun_eq_table (cmp := cmp) prog s s.iterInit m
  rw [e.2.1, e.2.2.2, ← h.2.2]
  exact ⟨k.1, k.2.1⟩

/-! ## Non-vacuity -/
open CC.Driver.TreeTableD (cmpOf) in
/-- a whole life cycle on the C library's triple with an iterator session in the middle: the
hypotheses of `destroy_releases_all` hold and both ledgers end where they started -/
example :
    (match TreeTable.newT .libc { live := 7 } with
     | (.ok, some t, m) =>
       let r := t.runSession (cmpOf 0) [.calls [(.add 2 20, []), (.add 1 10, [true]), (.add 3 30, [])],
         .iterate [.next, .remove, .next], .calls [(.removeLast, [])]] m
       let m' := r.2.1.destroy r.2.2
       (r.2.1.abs, r.2.2.liveLibc, m'.liveLibc, m'.live, m'.fault)
     | _ => ([], 0, 0, 0, true)) = ([(2, 20)], 3, 0, 7, false) := by decide

end CC.Properties.C06Tree
