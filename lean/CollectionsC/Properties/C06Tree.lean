import CollectionsC.Properties.C03
import CollectionsC.Proofs.TreeTableMem
/-! # C06 (tree table / tree set part): memory safety and leak freedom

`Mem.fault` is the model's memory-safety flag (a release with nothing live, a dereference through a
link that does not exist — here: `iter_remove` before any `iter_next`, the only documented
precondition).  `Mem.live` counts the blocks obtained through the configured allocator.  The table
owns `size + 2` blocks (nodes, sentinel, header), the set one more.  Quantifiers: every total-order
comparator, every state satisfying the invariant, every call / history, every allocator schedule. -/
namespace CC.Properties.C06Tree
open CC CC.Spec CC.Spec.OrdMap
variable {cmp : Nat → Nat → Int}

/-- (a) no call of the table API faults -/
theorem step_nofault (ho : TotalOrder cmp) (t : TreeTable) (h : t.Inv cmp) (op : Op) (m : Mem)
    (hm : t.size + 2 ≤ m.live) : (t.step cmp op m).2.2.1.fault = m.fault :=
  (C03.step_refines ho t h op m hm).nofault

/-- (a) lifted to histories, for every refusal schedule -/
theorem history_nofault (ho : TotalOrder cmp) (ops : List (Op × List Bool)) (t : TreeTable) (h : t.Inv cmp)
    (m : Mem) (hm : t.size + 2 ≤ m.live) : (t.run cmp ops m).2.2.2.fault = m.fault :=
  (C03.history_refines ho ops t h m hm).2.2.2.1

/-- (b) per call the number of live blocks moves exactly with the number of entries -/
theorem step_ledger (ho : TotalOrder cmp) (t : TreeTable) (h : t.Inv cmp) (op : Op) (m : Mem)
    (hm : t.size + 2 ≤ m.live) :
    (t.step cmp op m).2.2.1.live + t.size = m.live + (t.step cmp op m).2.1.size :=
  (C03.step_refines ho t h op m hm).ledger

theorem history_ledger (ho : TotalOrder cmp) (ops : List (Op × List Bool)) (t : TreeTable) (h : t.Inv cmp)
    (m : Mem) (hm : t.size + 2 ≤ m.live) :
    (t.run cmp ops m).2.2.2.live + t.size = m.live + (t.run cmp ops m).2.2.1.size :=
  (C03.history_refines ho ops t h m hm).2.2.2.2.1

/-- `remove_all` releases one block per entry and nothing else -/
theorem remove_all_ledger (ho : TotalOrder cmp) (t : TreeTable) (h : t.Inv cmp) (m : Mem)
    (hm : t.size + 2 ≤ m.live) :
    (t.removeAll m).2.live + t.size = m.live ∧ (t.removeAll m).2.fault = m.fault ∧ (t.removeAll m).1.size = 0 := by
  have s := C03.step_refines ho t h .removeAll m hm
  exact ⟨s.ledger, s.nofault, rfl⟩

/-- (b) **`new … any history … destroy` returns the ledger to where it started**, whatever the
allocator refuses on the way, without a fault -/
theorem destroy_releases_all (ho : TotalOrder cmp) (m0 m1 : Mem) (t0 : TreeTable)
    (hnew : TreeTable.new m0 = (.ok, some t0, m1)) (ops : List (Op × List Bool)) :
    ((t0.run cmp ops m1).2.2.1.destroy (t0.run cmp ops m1).2.2.2).live = m0.live ∧
    ((t0.run cmp ops m1).2.2.1.destroy (t0.run cmp ops m1).2.2.2).fault = m0.fault := by
  obtain ⟨hi, ha, hl, hf⟩ := (C03.new_inv (cmp := cmp) m0).1 t0 m1 hnew
  have hs : t0.size = 0 := by rw [hi.size_eq, ha]; rfl
  obtain ⟨_, _, c, d, e, _⟩ := C03.history_refines ho ops t0 hi m1 (by omega)
  have := C03.destroy_ledger (t0.run cmp ops m1).2.2.1 c (t0.run cmp ops m1).2.2.2 (by omega)
  exact ⟨by omega, by rw [this.2, d, hf]⟩

/-- a refused constructor leaves nothing behind -/
theorem new_refused_no_leak (m0 : Mem) (h : (TreeTable.new m0).1 = .errAlloc) :
    (TreeTable.new m0).2.1 = none ∧ (TreeTable.new m0).2.2.live = m0.live ∧ (TreeTable.new m0).2.2.fault = m0.fault :=
  (C03.new_inv (cmp := fun _ _ => 0) m0).2.2 h

/-- (a)/(b) for iterator programs; the fault flag stays clear when `iter_remove` is only called after a
successful `iter_next` -/
theorem iter_nofault_ledger (ho : TotalOrder cmp) (t : TreeTable) (h : t.Inv cmp) (prog : List IterOp) (m : Mem)
    (hm : t.size + 2 ≤ m.live) :
    (TreeTable.IterValid cmp t t.iterInit prog m → (t.iterRun cmp t.iterInit prog m).2.2.2.fault = m.fault) ∧
    (t.iterRun cmp t.iterInit prog m).2.2.2.live + t.size = m.live + (t.iterRun cmp t.iterInit prog m).2.1.size :=
  (C03.iter_refines ho t h prog m hm).2.2.2

/-- (c) the callback variants (`foreach_key`, `foreach_value`) hand every held key / value to the
callback exactly once, in ascending key order, and change nothing -/
theorem foreach_each_once (t : TreeTable) (m : Mem) :
    (t.step cmp .foreachKey m).1.log = keys t.abs ∧ (t.step cmp .foreachValue m).1.log = values t.abs ∧
    (t.step cmp .foreachKey m).2.1 = t ∧ (t.step cmp .foreachValue m).2.1 = t ∧
    (t.step cmp .foreachKey m).2.2.1 = m ∧ (t.step cmp .foreachValue m).2.2.1 = m :=
  ⟨rfl, rfl, rfl, rfl, rfl, rfl⟩

/-! ## tree set -/

theorem set_step_nofault (ho : TotalOrder cmp) (s : TreeSet) (h : s.Inv cmp) (op : OrdSet.Op) (m : Mem)
    (hm : s.t.size + 2 ≤ m.live) : (s.step cmp op m).2.2.1.fault = m.fault :=
  (C03.set_step_refines ho s h op m hm).nofault

theorem set_step_ledger (ho : TotalOrder cmp) (s : TreeSet) (h : s.Inv cmp) (op : OrdSet.Op) (m : Mem)
    (hm : s.t.size + 2 ≤ m.live) :
    (s.step cmp op m).2.2.1.live + s.t.size = m.live + (s.step cmp op m).2.1.t.size :=
  (C03.set_step_refines ho s h op m hm).ledger

theorem set_history_nofault (ho : TotalOrder cmp) (ops : List (OrdSet.Op × List Bool)) (s : TreeSet)
    (h : s.Inv cmp) (m : Mem) (hm : s.t.size + 2 ≤ m.live) : (s.run cmp ops m).2.2.2.fault = m.fault :=
  (C03.set_history_refines ho ops s h m hm).2.2.2.1

/-- `cc_treeset_destroy` releases the table's blocks and the set header -/
theorem set_destroy_ledger (s : TreeSet) (h : s.Inv cmp) (m : Mem) (hm : s.t.size + 3 ≤ m.live) :
    (s.destroy m).live + s.t.size + 3 = m.live ∧ (s.destroy m).fault = m.fault := by
  have a := C03.destroy_ledger s.t h.1 m (by omega)
  have b := TreeTable.free_spec (s.t.destroy m) (by omega)
  unfold TreeSet.destroy
  rw [b.1, b.2]
  exact ⟨by omega, a.2⟩

/-- **`new … any history … destroy` on a set returns the ledger to where it started** -/
theorem set_destroy_releases_all (ho : TotalOrder cmp) (m0 m1 : Mem) (s0 : TreeSet)
    (hnew : TreeSet.new m0 = (.ok, some s0, m1)) (ops : List (OrdSet.Op × List Bool)) :
    ((s0.run cmp ops m1).2.2.1.destroy (s0.run cmp ops m1).2.2.2).live = m0.live ∧
    ((s0.run cmp ops m1).2.2.1.destroy (s0.run cmp ops m1).2.2.2).fault = m0.fault := by
  obtain ⟨hi, ha, hl, hf⟩ := (C03.set_new_inv (cmp := cmp) m0).1 s0 m1 hnew
  have hs : s0.t.size = 0 := by rw [hi.1.size_eq, ha]; rfl
  obtain ⟨_, _, c, d, e, _⟩ := C03.set_history_refines ho ops s0 hi m1 (by omega)
  have := set_destroy_ledger (s0.run cmp ops m1).2.2.1 c (s0.run cmp ops m1).2.2.2 (by omega)
  exact ⟨by omega, by rw [this.2, d, hf]⟩

theorem set_new_refused_no_leak (m0 : Mem) (h : (TreeSet.new m0).1 = .errAlloc) :
    (TreeSet.new m0).2.1 = none ∧ (TreeSet.new m0).2.2.live = m0.live ∧ (TreeSet.new m0).2.2.fault = m0.fault :=
  (C03.set_new_inv (cmp := fun _ _ => 0) m0).2.2 h

/-- set iterator programs run on the table iterator: same ledger, same fault flag -/
theorem set_iter_nofault_ledger (ho : TotalOrder cmp) (s : TreeSet) (h : s.Inv cmp) (prog : List IterOp) (m : Mem)
    (hm : s.t.size + 2 ≤ m.live) :
    (TreeTable.IterValid cmp s.t s.iterInit prog m → (s.iterRun cmp s.iterInit prog m).2.2.2.fault = m.fault) ∧
    (s.iterRun cmp s.iterInit prog m).2.2.2.live + s.t.size = m.live + (s.iterRun cmp s.iterInit prog m).2.1.t.size := by
  have k := iter_nofault_ledger ho s.t h.1 prog m hm
  have e := TreeSet.iterRun_eq_table (cmp := cmp) prog s s.iterInit m
  rw [e.2.1, e.2.2]
  exact k

end CC.Properties.C06Tree
