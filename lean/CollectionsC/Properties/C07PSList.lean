import CollectionsC.Proofs.PSListIterProg
import CollectionsC.Properties.C04PSList
/-! # C07 / C06 (pointer level, singly linked) — iterator programs of CC_SList keep the links intact and never hold a dangling node

The iterator `CC_SListIter` runs on the pointer-level model (`Model/PSList.lean`: `PIter` with the C fields `index`, `current`,
`prev`, `next` as node ids; `piterNext/Add/Remove/Replace` are the pointer surgery of the C text, the same functions the Lean
driver executes for the `it_*` operations).  For **every program** of `next`/`add`/`remove`/`replace` calls (`spRun`), every
refusal schedule, from `cc_slist_iter_init` on any represented list: the list stays represented (well-formed: the `next` chain
from `head` visits `size` distinct live nodes and ends in `tail`), and `iter->next`, `iter->current`, `iter->prev` are NULL or
name a live node of the list — never a released node (`prev` is exactly the predecessor `unlinkn` needs, so consecutive removals,
removals after additions, additions at the tail are all inside).  `cc_slist_iter_add` without a current element is outside the
documented contract and is not executed (as in the harness). -/
namespace CC.Properties.C07PSList
open CC CC.PSList
open CC.PList (St Hdr Cell idsOf PIOp)

theorem iter_init_inv (s : St) (l : Hdr) (cs : List Cell) (r : SRepr s.heap l cs) (hb : ∀ y, y ∈ idsOf cs → y < s.fresh) :
    SProgInv s l (piterInit l) cs := ⟨r, hb, [], cs, piterInit_rel r⟩

/-- **one call** keeps the invariant -/
theorem iter_step_inv (s : St) (l : Hdr) (it : PIter) (op : PIOp) (m : Mem) (cs : List Cell) (I : SProgInv s l it cs) :
    ∃ cs', SProgInv (spStep s l it op m).1 (spStep s l it op m).2.1 (spStep s l it op m).2.2.1 cs' := spStep_inv s l it op m cs I

/-- **whole programs**: after any program the list is well-formed and the iterator fields name live nodes of the list or are NULL -/
theorem iter_program_safe (ops : List PIOp) (s : St) (l : Hdr) (cs : List Cell) (m : Mem) (r : SRepr s.heap l cs)
    (hb : ∀ y, y ∈ idsOf cs → y < s.fresh) :
    WF (spRun s l (piterInit l) ops m).1.heap (spRun s l (piterInit l) ops m).2.1 ∧
    ∃ cs', SRepr (spRun s l (piterInit l) ops m).1.heap (spRun s l (piterInit l) ops m).2.1 cs' ∧
      (∀ n, (spRun s l (piterInit l) ops m).2.2.1.next = some n → n ∈ idsOf cs' ∧ ((spRun s l (piterInit l) ops m).1.heap n).isSome = true) ∧
      (∀ n, (spRun s l (piterInit l) ops m).2.2.1.current = some n → n ∈ idsOf cs' ∧ ((spRun s l (piterInit l) ops m).1.heap n).isSome = true) ∧
      (∀ n, (spRun s l (piterInit l) ops m).2.2.1.prev = some n → n ∈ idsOf cs' ∧ ((spRun s l (piterInit l) ops m).1.heap n).isSome = true) := by
  obtain ⟨cs', I⟩ := spRun_inv ops s l (piterInit l) m cs (iter_init_inv s l cs r hb)
  exact ⟨⟨cs', I.repr⟩, cs', I.repr, I.no_dangling⟩

/-! ## Non-vacuity: an addition, a removal in the middle, two additions at the tail, a replacement and the removal of the added node -/
example :
    (fwd (spRun (srun ⟨fun _ => true, Spec.LSeq.cmpNum⟩ (C04PSList.fresh .conf .conf) [.addLast 1, .addLast 5, .addLast 6] {}).2.1.st
        (srun ⟨fun _ => true, Spec.LSeq.cmpNum⟩ (C04PSList.fresh .conf .conf) [.addLast 1, .addLast 5, .addLast 6] {}).2.1.l1
        (piterInit (srun ⟨fun _ => true, Spec.LSeq.cmpNum⟩ (C04PSList.fresh .conf .conf) [.addLast 1, .addLast 5, .addLast 6] {}).2.1.l1)
        [.next, .add 2, .next, .remove, .next, .add 9, .add 8, .replace 7, .remove] {}).1.heap
      (spRun (srun ⟨fun _ => true, Spec.LSeq.cmpNum⟩ (C04PSList.fresh .conf .conf) [.addLast 1, .addLast 5, .addLast 6] {}).2.1.st
        (srun ⟨fun _ => true, Spec.LSeq.cmpNum⟩ (C04PSList.fresh .conf .conf) [.addLast 1, .addLast 5, .addLast 6] {}).2.1.l1
        (piterInit (srun ⟨fun _ => true, Spec.LSeq.cmpNum⟩ (C04PSList.fresh .conf .conf) [.addLast 1, .addLast 5, .addLast 6] {}).2.1.l1)
        [.next, .add 2, .next, .remove, .next, .add 9, .add 8, .replace 7, .remove] {}).2.1) = [1, 2, 6, 9] := by decide

end CC.Properties.C07PSList
