import CollectionsC.Proofs.ListAlloc
import CollectionsC.Properties.C07List
import CollectionsC.Properties.C15List
import CollectionsC.Properties.C18List
/-! # C14 (lists) — `cc_list.c` and `cc_slist.c` use only their configured allocators

Statements and closing proofs.

In the models every `mem_alloc`/`mem_calloc`/`mem_free` of the C text is an `m.alloc`/`m.free` on the
**configured** ledger; the counter `Mem.libc` counts calls that would go to the C library allocator
instead.  No model function touches it — that is what `libc_invariant` states, per operation, for
histories, for iterators, for the derived-list builders (`sublist`, `copy_shallow`, `copy_deep`,
`filter`: header and nodes come from the source's triple, fixes L4/S1) and for the array-based sorts.
That the *C code* behaves like the model in this respect is what the correspondence check
compares (`libc=a0 f0` in the `mem` section of every operation; the repaired defect L5 — `add_all`
built the copies with the source list's allocator — was found by that comparison).

`allocator_independent`: the ledger influences an operation only through the outcomes of its
allocator calls (`m.sched`): two ledgers with the same schedule give the same statuses, out-values
and list states.  Hence a list on a pool behaves exactly like the same list on `malloc` as long as the
pool does not refuse.

Quantifiers: all states satisfying the invariant, all operations and arguments, all histories, all
ledgers. -/
namespace CC.Properties.C14List
open CC CC.Chain CC.ListHistory
open CC.Spec
open CC.Spec.LSeq (Op Out Params)

/-! ## libc_invariant -/

theorem dlist_libc_invariant (P : Params) (s : Chain × Chain) (op : Op) (m : Mem) (h : PairOk s m) :
    (DList.step P s op m).2.2.libc = m.libc := (C04.dlist_step_refines P s op m h).2.2.2.2.1

theorem slist_libc_invariant (P : Params) (s : Chain × Chain) (op : Op) (m : Mem) (h : PairOk s m) :
    (SList.step P s op m).2.2.libc = m.libc := (C04.slist_step_refines P s op m h).2.2.2.2.1

theorem dlist_history_libc_invariant (P : Params) (ops : List Op) (s : Chain × Chain) (m : Mem) (h : PairOk s m) :
    (DList.run P s ops m).2.2.libc = m.libc := (C04.dlist_history_refines_skipping P ops s m h).2.2.2.2

theorem slist_history_libc_invariant (P : Params) (ops : List Op) (s : Chain × Chain) (m : Mem) (h : PairOk s m) :
    (SList.run P s ops m).2.2.libc = m.libc := (C04.slist_history_refines_skipping P ops s m h).2.2.2.2

/-- constructors, destructors and the callback variants -/
theorem new_destroy_libc_invariant (l : Chain) (h : l.Inv) (m : Mem) :
    (DList.new m).2.2.libc = m.libc ∧ (SList.new m).2.2.libc = m.libc ∧
    (DList.destroy l m).libc = m.libc ∧ (SList.destroy l m).libc = m.libc ∧
    (DList.destroyCb l m).2.libc = m.libc ∧ (SList.destroyCb l m).2.libc = m.libc := by
  have hf : ∀ n (m : Mem), (Mem.freeN n m).libc = m.libc := by
    intro n; induction n with
    | zero => intro m; rfl
    | succ k ih => intro m; simp only [Mem.freeN]; rw [ih, Mem.free_libc]
  rw [h.eq, DList.destroy_ofList, SList.destroy_ofList, DList.destroyCb_ofList, SList.destroyCb_ofList, DList.new_eq, SList.new_eq]
  refine ⟨?_, ?_, hf _ _, hf _ _, hf _ _, hf _ _⟩ <;> (split <;> exact Mem.alloc_libc m)

/-- derived lists are built on the source's (configured) triple, the array-based sorts obtain and
release their array through it -/
theorem derived_and_sort_libc_invariant (add : List Nat) (l : Chain) (h : l.Inv) (m : Mem)
    (sortFn : List Nat → List Nat) (hlen : ∀ x, (sortFn x).length = x.length) :
    (DList.builderResult add m).2.2.libc = m.libc ∧
    (DList.sort sortFn l m).2.2.libc = m.libc ∧ (SList.sort sortFn l m).2.2.libc = m.libc := by
  refine ⟨(C15List.builder_result add m).2.1, ?_, ?_⟩
  · rw [h.eq, DList.sort_ofList sortFn hlen]
    repeat' split
    all_goals simp [Mem.free_libc, Mem.alloc_libc]
  · rw [h.eq, SList.sort_ofList sortFn hlen]
    repeat' split
    all_goals simp [Mem.free_libc, Mem.alloc_libc]

/-- iterator mutators (the node of `add` comes from, the node of `remove` goes back to, the
configured triple) -/
theorem iter_libc_invariant (xs : List Nat) (c : LSeq.Cursor) (m : Mem) :
    (∀ it, DList.ItRel xs c it →
      (DList.iterRemove (ofList xs) it m).2.2.2.2.libc = m.libc ∧
      (∀ x k, c.cur = some k → c.pos = k + 1 → (DList.iterAdd (ofList xs) it x m).2.2.2.libc = m.libc)) ∧
    (∀ it, DList.DitRel xs c it →
      (DList.diterRemove (ofList xs) it m).2.2.2.2.libc = m.libc ∧
      (∀ x k, c.cur = some k → c.pos = k → (DList.diterAdd (ofList xs) it x m).2.2.2.libc = m.libc)) ∧
    (∀ it, SList.ItRel xs c it →
      (SList.iterRemove (ofList xs) it m).2.2.2.2.libc = m.libc ∧
      (∀ x k, c.cur = some k → (SList.iterAdd (ofList xs) it x m).2.2.2.libc = m.libc)) := by
  refine ⟨?_, ?_, ?_⟩
  · intro it h
    obtain ⟨it', e, _⟩ := DList.iterRemove_ofList xs c it m h
    refine ⟨by rw [e]; split <;> simp [Mem.free_libc], ?_⟩
    intro x k hc hp
    obtain ⟨it', e, _⟩ := DList.iterAdd_ofList xs c it x k m h hc hp
    rw [e]; split <;> exact Mem.alloc_libc m
  · intro it h
    obtain ⟨it', e, _⟩ := DList.diterRemove_ofList xs c it m h
    refine ⟨by rw [e]; split <;> simp [Mem.free_libc], ?_⟩
    intro x k hc hp
    obtain ⟨it', e, _⟩ := DList.diterAdd_ofList xs c it x k m h hc hp
    rw [e]; split <;> exact Mem.alloc_libc m
  · intro it h
    obtain ⟨it', e, _⟩ := SList.iterRemove_ofList xs c it m h
    refine ⟨by rw [e]; split <;> simp [Mem.free_libc], ?_⟩
    intro x k hc
    obtain ⟨it', e, _⟩ := SList.iterAdd_ofList xs c it x k m h hc
    rw [e]; split <;> exact Mem.alloc_libc m

/-! ## allocator_independent -/

/-- one step: statuses, out-values and both list states depend on the ledger only through the
schedule of allocator outcomes; the schedules left behind are equal again -/
theorem dlist_allocator_independent (P : Params) (s : Chain × Chain) (op : Op) (m1 m2 : Mem) (h : PairOk s m1)
    (hs : m1.sched = m2.sched) :
    (DList.step P s op m1).1 = (DList.step P s op m2).1 ∧ (DList.step P s op m1).2.1 = (DList.step P s op m2).2.1 ∧
    (DList.step P s op m1).2.2.sched = (DList.step P s op m2).2.2.sched := by
  have e : s = (ofList s.1.abs, ofList s.2.abs) := by rw [← h.1.eq, ← h.2.1.eq]
  rw [e]; exact DList.step_indep P _ _ op m1 m2 hs

theorem slist_allocator_independent (P : Params) (s : Chain × Chain) (op : Op) (m1 m2 : Mem) (h : PairOk s m1)
    (hs : m1.sched = m2.sched) :
    (SList.step P s op m1).1 = (SList.step P s op m2).1 ∧ (SList.step P s op m1).2.1 = (SList.step P s op m2).2.1 ∧
    (SList.step P s op m1).2.2.sched = (SList.step P s op m2).2.2.sched := by
  have e : s = (ofList s.1.abs, ofList s.2.abs) := by rw [← h.1.eq, ← h.2.1.eq]
  rw [e]; exact SList.step_indep P _ _ op m1 m2 hs

/-- whole histories: a list on one allocator behaves exactly like the same list on another one
that answers the allocator calls the same way -/
theorem dlist_history_allocator_independent (P : Params) (ops : List Op) (s : Chain × Chain) (m1 m2 : Mem)
    (h1 : PairOk s m1) (h2 : PairOk s m2) (hs : m1.sched = m2.sched) :
    (DList.run P s ops m1).1 = (DList.run P s ops m2).1 ∧ (DList.run P s ops m1).2.1 = (DList.run P s ops m2).2.1 := by
  rw [dlist_run_eq, dlist_run_eq]
  have := run_indep (C04.dlist_step_refines P) (DList.step_indep P) ops s m1 m2 h1 h2 hs
  exact ⟨this.1, this.2.1⟩

theorem slist_history_allocator_independent (P : Params) (ops : List Op) (s : Chain × Chain) (m1 m2 : Mem)
    (h1 : PairOk s m1) (h2 : PairOk s m2) (hs : m1.sched = m2.sched) :
    (SList.run P s ops m1).1 = (SList.run P s ops m2).1 ∧ (SList.run P s ops m1).2.1 = (SList.run P s ops m2).2.1 := by
  rw [slist_run_eq, slist_run_eq]
  have := run_indep (C04.slist_step_refines P) (SList.step_indep P) ops s m1 m2 h1 h2 hs
  exact ⟨this.1, this.2.1⟩

/-- in particular: on any allocator that never refuses (a large enough pool, `malloc`) every history
is exactly the ideal lists' history -/
theorem never_refusing_allocator (P : Params) (ops : List Op) (s : Chain × Chain) (m : Mem) (h : PairOk s m)
    (hs : m.sched = []) :
    (DList.run P s ops m).1 = (LSeq.run true P (s.1.abs, s.2.abs) ops).1 ∧
    (SList.run P s ops m).1 = (LSeq.run false P (s.1.abs, s.2.abs) ops).1 :=
  ⟨(C04.dlist_history_refines P ops s m h hs).1, (C04.slist_history_refines P ops s m h hs).1⟩

/-- builders depend on the ledger only through the schedule as well -/
theorem builder_allocator_independent (add : List Nat) (m1 m2 : Mem) (hs : m1.sched = m2.sched) :
    (DList.builderResult add m1).1 = (DList.builderResult add m2).1 ∧
    (DList.builderResult add m1).2.1 = (DList.builderResult add m2).2.1 :=
  ⟨(DList.builderResult_indep add m1 m2 hs).1, (DList.builderResult_indep add m1 m2 hs).2.1⟩

end CC.Properties.C14List
