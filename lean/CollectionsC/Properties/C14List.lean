import CollectionsC.Proofs.ListAlloc
import CollectionsC.Properties.C06List
import CollectionsC.Properties.C08List
/-! # C14 (lists) — `cc_list.c` and `cc_slist.c` use only the allocator triple they were given

Statements and closing proofs.

Every list state carries the allocator triple stored in its header (`Chain.triple`: `.conf` — the
caller's `mem_alloc/mem_calloc/mem_free` of `cc_list_new_conf`; `.libc` — `malloc/calloc/free` of
`cc_list_new`).  In the models every `list->mem_alloc`/`mem_calloc`/`mem_free` of the C text is an
`m.allocT l.triple`/`m.freeT l.triple` **of the list whose header the C code reads**; the ledger `Mem`
keeps the two allocators apart (`confSide`: schedule, live, counters, refusals of the configured
allocator; `libcSide`: live and counters of the C library).  `Mem.Frame t m m'` says that the side
*other than* `t` is identical in `m` and `m'` — every counter, not just the live count.

What is proved (and would be violated by a model function that mirrored a hard-wired
`cc_list_new()`/`malloc` inside a configured list — the defects L4/L5/S1 — or a release through the
wrong header):
* an operation charges and discharges only the **destination's** triple (`*_step_frame`); over
  histories between lists on one triple the other allocator is never touched (`conf_uses_only_conf`,
  `default_uses_only_libc`), and without exchange of roles the source list's allocator is never
  touched (`source_allocator_untouched`);
* a list on the C-library triple never reports `CC_ERR_ALLOC` and never consumes the refusal schedule;
* constructors charge the requested triple, destructors release through the list's own triple;
* derived lists inherit the source's triple and are built through it (`derived_inherits_triple`);
* the array-based sorts take and release their array through the list's triple;
* iterator programs touch only the list's triple; the zip mutators charge the first list's triple,
  then the second list's, and give the first node back through the first list's triple on refusal
  (`zip_charges_each_own_triple`);
* `splice` across triples is outside the contract (`Compat`): it is the one operation that moves
  blocks between lists, see the header of `C04.lean`.
That the *C code* behaves like the model in this respect is what the correspondence check compares
(`conf=… libc=a… f… llive=…` in the `mem` section of every operation).

`allocator_independent`: the ledger influences an operation only through the outcomes of the
configured allocator's calls (`m.sched`): two ledgers with the same schedule give the same statuses,
out-values and list states.  Hence a list on a pool behaves exactly like the same list on `malloc` as
long as the pool does not refuse.

Quantifiers: all states satisfying the invariant, all assignments of triples, all operations and
arguments, all histories, all ledgers. -/
namespace CC.Properties.C14List
open CC CC.Chain CC.ListHistory
open CC.Spec
open CC.Spec.LSeq (Op Out Params)

/-! ## only the destination's triple -/

/-- one step charges and discharges only the triple of the destination list (the list whose header
the C function reads) -/
theorem dlist_step_frame (P : Params) (s : Chain × Chain) (op : Op) (m : Mem) (h : PairOk s m)
    (hc : SpliceOk s.1.triple s.2.triple op) : Mem.Frame s.1.triple m (DList.step P s op m).2.2 :=
  (C04.dlist_step_refines P s op m h hc).2.2.2.2.2.1

theorem slist_step_frame (P : Params) (s : Chain × Chain) (op : Op) (m : Mem) (h : PairOk s m)
    (hc : SpliceOk s.1.triple s.2.triple op) : Mem.Frame s.1.triple m (SList.step P s op m).2.2 :=
  (C04.slist_step_refines P s op m h hc).2.2.2.2.2.1

/-- **lists built with `*_new_conf` use only the configured allocator**: over any history between two
lists on the configured triple every C-library counter (calls, releases, live blocks) stays what it was -/
theorem conf_uses_only_conf (P : Params) (ops : List Op) (s : Chain × Chain) (m : Mem) (h : PairOk s m)
    (h1 : s.1.triple = .conf) (h2 : s.2.triple = .conf) :
    (DList.run P s ops m).2.2.libcSide = m.libcSide ∧ (SList.run P s ops m).2.2.libcSide = m.libcSide := by
  rw [dlist_run_eq, slist_run_eq]
  exact ⟨run_frame_same (C04.dlist_step_refines P) .conf ops s m h h1 h2,
         run_frame_same (C04.slist_step_refines P) .conf ops s m h h1 h2⟩

/-- **lists built with the default constructors use only the C library**: the configured allocator's
schedule, live count and counters stay what they were — in particular no refusal is consumed — and no
operation ever reports `CC_ERR_ALLOC` -/
theorem default_uses_only_libc (P : Params) (ops : List Op) (s : Chain × Chain) (m : Mem) (h : PairOk s m)
    (h1 : s.1.triple = .libc) (h2 : s.2.triple = .libc) :
    (DList.run P s ops m).2.2.confSide = m.confSide ∧ (SList.run P s ops m).2.2.confSide = m.confSide := by
  rw [dlist_run_eq, slist_run_eq]
  exact ⟨run_frame_same (C04.dlist_step_refines P) .libc ops s m h h1 h2,
         run_frame_same (C04.slist_step_refines P) .libc ops s m h h1 h2⟩

/-- a step whose destination is on the C-library triple never reports `CC_ERR_ALLOC` -/
theorem default_never_refused (P : Params) (s : Chain × Chain) (op : Op) (m : Mem) (h : PairOk s m)
    (hc : SpliceOk s.1.triple s.2.triple op) (h1 : s.1.triple = .libc) :
    (DList.step P s op m).1.st ≠ some .errAlloc ∧ (SList.step P s op m).1.st ≠ some .errAlloc := by
  have d := C04.dlist_step_refines P s op m h hc
  have sl := C04.slist_step_refines P s op m h hc
  have fd : (DList.step P s op m).2.2.confSide = m.confSide := by have := d.2.2.2.2.2.1; rw [h1] at this; exact this
  have fs : (SList.step P s op m).2.2.confSide = m.confSide := by have := sl.2.2.2.2.2.1; rw [h1] at this; exact this
  have nd : (DList.step P s op m).2.2.nrefused = m.nrefused := by
    have := congrArg (fun x => x.2.2.2.2) fd; exact this
  have ns : (SList.step P s op m).2.2.nrefused = m.nrefused := by
    have := congrArg (fun x => x.2.2.2.2) fs; exact this
  exact ⟨fun c => by have := d.2.2.2.2.2.2.2.2.1 c; omega, fun c => by have := sl.2.2.2.2.2.2.2.2.1 c; omega⟩

/-- **the source list's allocator is never touched**: in a history without exchange of roles (mixed
triples allowed, hence without `splice`) every allocator call goes through the destination's triple;
both lists keep their triples -/
theorem source_allocator_untouched (P : Params) (ops : List Op) (s : Chain × Chain) (m : Mem) (h : PairOk s m)
    (hc : Compat s ops) (hsw : ∀ op, op ∈ ops → op ≠ .swapRoles) :
    (Mem.Frame s.1.triple m (DList.run P s ops m).2.2 ∧ (DList.run P s ops m).2.1.1.triple = s.1.triple ∧
      (DList.run P s ops m).2.1.2.triple = s.2.triple) ∧
    (Mem.Frame s.1.triple m (SList.run P s ops m).2.2 ∧ (SList.run P s ops m).2.1.1.triple = s.1.triple ∧
      (SList.run P s ops m).2.1.2.triple = s.2.triple) := by
  rw [dlist_run_eq, slist_run_eq]
  exact ⟨run_frame_dest (C04.dlist_step_refines P) ops s m h hc hsw, run_frame_dest (C04.slist_step_refines P) ops s m h hc hsw⟩

/-! ## constructors, destructors -/

/-- `new` charges exactly the requested triple; `destroy`/`destroy_cb` release every block through the
list's own triple -/
theorem new_destroy_frame (t : Triple) (l : Chain) (h : l.Inv) (m : Mem) (hl : l.abs.length + 1 ≤ m.liveT l.triple) :
    Mem.Frame t m (DList.new t m).2.2 ∧ Mem.Frame t m (SList.new t m).2.2 ∧
    (∀ r, (DList.new t m).2.1 = some r → r.triple = t) ∧ (∀ r, (SList.new t m).2.1 = some r → r.triple = t) ∧
    Mem.Frame l.triple m (DList.destroy l m) ∧ Mem.Frame l.triple m (SList.destroy l m) ∧
    Mem.Frame l.triple m (DList.destroyCb l m).2 ∧ Mem.Frame l.triple m (SList.destroyCb l m).2 := by
  have d := C04.dlist_destroy_ledger l h m hl
  have s := C04.slist_destroy_ledger l h m hl
  have hn : Mem.Frame t m (DList.new t m).2.2 := by rw [DList.new_eq]; split <;> exact Mem.frame_allocT t m
  have hr : ∀ r, (DList.new t m).2.1 = some r → r.triple = t := by
    intro r hr; rw [DList.new_eq] at hr
    by_cases a : (m.allocT t).1 = true
    · simp only [a, if_true, Option.some.injEq] at hr; rw [← hr]; rfl
    · simp [a] at hr
  have e : SList.new t m = DList.new t m := (C08List.new_atomic t m).2.2.2.2
  refine ⟨hn, by rw [e]; exact hn, hr, by rw [e]; exact hr, d.2.2.1, s.2.2.1, ?_, ?_⟩
  · rw [d.2.2.2]; exact d.2.2.1
  · rw [s.2.2.2]; exact s.2.2.1

/-! ## derived lists, sorts -/

/-- **derived lists inherit the source's triple**: whatever `sublist`, `copy_shallow`/`copy_deep`,
`filter` of either list return is a list on the source's triple, and building it (header and every
node; also the clean-up after a refusal) touched only that triple -/
theorem derived_inherits_triple (l : Chain) (h : l.Inv) (m : Mem) (b e : Nat) (cp : Nat → Nat) (p : Nat → Bool) :
    (∀ r, (DList.sublist l b e m).2.1 = some r → r.triple = l.triple) ∧ Mem.Frame l.triple m (DList.sublist l b e m).2.2 ∧
    (∀ r, (DList.copy cp l m).2.1 = some r → r.triple = l.triple) ∧ Mem.Frame l.triple m (DList.copy cp l m).2.2 ∧
    (∀ r, (DList.filter p l m).2.1 = some r → r.triple = l.triple) ∧ Mem.Frame l.triple m (DList.filter p l m).2.2 ∧
    (∀ r, (SList.sublist l b e m).2.1 = some r → r.triple = l.triple) ∧ Mem.Frame l.triple m (SList.sublist l b e m).2.2 ∧
    (∀ r, (SList.copy cp l m).2.1 = some r → r.triple = l.triple) ∧ Mem.Frame l.triple m (SList.copy cp l m).2.2 ∧
    (∀ r, (SList.filter p l m).2.1 = some r → r.triple = l.triple) ∧ Mem.Frame l.triple m (SList.filter p l m).2.2 := by
  have key : ∀ add r, (DList.builderResult l.triple add m).2.1 = some r → r.triple = l.triple := by
    intro add r hr; rw [(C15List.builder_some l.triple add m r hr).1]; rfl
  have fr : ∀ add, Mem.Frame l.triple m (DList.builderResult l.triple add m).2.2 := fun add => (C15List.builder_result l.triple add m).2.1
  rw [C15List.dlist_sublist_correct l h, C15List.dlist_copy_correct cp l h, C15List.dlist_filter_correct p l h,
    C15List.slist_sublist_correct l h, C15List.slist_copy_correct cp l h, C15List.slist_filter_correct p l h]
  refine ⟨?_, ?_, key _, fr _, ?_, ?_, ?_, ?_, key _, fr _, ?_, ?_⟩ <;>
    (split <;> first | exact key _ | exact fr _ | exact Mem.Frame.rfl' _ m | (intro r hr; cases hr))

/-- the array-based sorts obtain and release their array through the list's own triple; the in-place
merge sort calls no allocator at all -/
theorem sort_frame (l : Chain) (h : l.Inv) (m : Mem) (sortFn : List Nat → List Nat) (hlen : ∀ x, (sortFn x).length = x.length)
    {cmp : Nat → Nat → Int} (hc : LSeq.CmpPreorder cmp) :
    Mem.Frame l.triple m (DList.sort sortFn l m).2.2 ∧ Mem.Frame l.triple m (SList.sort sortFn l m).2.2 ∧
    (DList.sort sortFn l m).2.1.triple = l.triple ∧ (SList.sort sortFn l m).2.1.triple = l.triple ∧
    (DList.sortInPlaceC cmp l m).2 = m := by
  have fa := Mem.frame_allocT l.triple m
  have ff := Mem.frame_freeT l.triple (m.allocT l.triple).2
  refine ⟨?_, ?_, ?_, ?_, (C18List.sort_in_place_code_correct hc l h m).1⟩
  · rw [h.eq, DList.sort_ofList sortFn hlen]; simp only [ofList_triple]
    repeat' split
    all_goals first | exact fa.trans ff | exact fa | exact Mem.Frame.rfl' _ m
  · rw [h.eq, SList.sort_ofList sortFn hlen]; simp only [ofList_triple]
    repeat' split
    all_goals first | exact fa.trans ff | exact fa | exact Mem.Frame.rfl' _ m
  · rw [h.eq, DList.sort_ofList sortFn hlen]; simp only [ofList_triple]
    repeat' split
    all_goals rfl
  · rw [h.eq, SList.sort_ofList sortFn hlen]; simp only [ofList_triple]
    repeat' split
    all_goals rfl

/-! ## iterators -/

/-- whole iterator programs (ascending / descending iterator of `cc_list.c`, iterator of
`cc_slist.c`) touch only the list's own triple: `C06List.dlist_iter_program_safe`,
`dlist_diter_program_safe`, `slist_iter_program_safe` (second conjunct).  The zip mutators: one call of
`zip_iter_add` charges the first list's triple, then the second list's, and on a refusal of the
second node gives the first node back **through the first list's triple**; `zip_iter_remove` releases
each node through its own list's triple — the ledger after the call is literally this expression -/
theorem zip_charges_each_own_triple (t t2 : Triple) (xs ys : List Nat) (c : LSeq.Cursor) (m : Mem) (x1 x2 k : Nat)
    (hc : c.cur = some k) :
    (∀ z, DList.ZipRel xs ys c z →
      (DList.zipAdd (ofList t xs) (ofList t2 ys) z x1 x2 m).2.2.2.2 =
        (if (m.allocT t).1 then (if ((m.allocT t).2.allocT t2).1 then ((m.allocT t).2.allocT t2).2
          else ((m.allocT t).2.allocT t2).2.freeT t) else (m.allocT t).2) ∧
      (DList.zipRemove (ofList t xs) (ofList t2 ys) z m).2.2.2.2.2 = (m.freeT t).freeT t2) ∧
    (∀ z, SList.ZipRel xs ys c z →
      (SList.zipAdd (ofList t xs) (ofList t2 ys) z x1 x2 m).2.2.2.2 =
        (if (m.allocT t).1 then (if ((m.allocT t).2.allocT t2).1 then ((m.allocT t).2.allocT t2).2
          else ((m.allocT t).2.allocT t2).2.freeT t) else (m.allocT t).2) ∧
      (SList.zipRemove (ofList t xs) (ofList t2 ys) z m).2.2.2.2.2 = (m.freeT t).freeT t2) := by
  refine ⟨fun z h => ?_, fun z h => ?_⟩
  · obtain ⟨z', e, _⟩ := DList.zipAdd_ofList (t := t) (t2 := t2) xs ys c z x1 x2 k m h hc
    obtain ⟨z'', e2, _⟩ := DList.zipRemove_ofList (t := t) (t2 := t2) xs ys c z m h
    rw [e, e2]
    refine ⟨by by_cases a : (m.allocT t).1 = true <;> by_cases b : ((m.allocT t).2.allocT t2).1 = true <;> simp [a, b], ?_⟩
    simp [LSeq.zitRemove, hc]
  · obtain ⟨z', e, _⟩ := SList.zipAdd_ofList (t := t) (t2 := t2) xs ys c z x1 x2 k m h hc
    obtain ⟨z'', e2, _⟩ := SList.zipRemove_ofList (t := t) (t2 := t2) xs ys c z m h
    rw [e, e2]
    refine ⟨by by_cases a : (m.allocT t).1 = true <;> by_cases b : ((m.allocT t).2.allocT t2).1 = true <;> simp [a, b], ?_⟩
    simp [LSeq.zitRemove, hc]

/-- … and when both lists of a zip iterator sit on one triple, whole zip programs never touch the
other allocator (per call; programs follow by `Mem.Frame.trans`) -/
theorem zip_same_triple_frame (t : Triple) (m : Mem) :
    Mem.Frame t m ((m.freeT t).freeT t) ∧ Mem.Frame t m (m.allocT t).2 ∧ Mem.Frame t m ((m.allocT t).2.allocT t).2 ∧
    Mem.Frame t m (((m.allocT t).2.allocT t).2.freeT t) :=
  ⟨(Mem.frame_freeT t m).trans (Mem.frame_freeT t _), Mem.frame_allocT t m,
   (Mem.frame_allocT t m).trans (Mem.frame_allocT t _),
   ((Mem.frame_allocT t m).trans (Mem.frame_allocT t _)).trans (Mem.frame_freeT t _)⟩

/-! ## allocator_independent -/

/-- one step: statuses, out-values and both list states depend on the ledger only through the
schedule of allocator outcomes; the schedules left behind are equal again -/
theorem dlist_allocator_independent (P : Params) (s : Chain × Chain) (op : Op) (m1 m2 : Mem) (h : PairOk s m1)
    (hs : m1.sched = m2.sched) :
    (DList.step P s op m1).1 = (DList.step P s op m2).1 ∧ (DList.step P s op m1).2.1 = (DList.step P s op m2).2.1 ∧
    (DList.step P s op m1).2.2.sched = (DList.step P s op m2).2.2.sched := by
  have e : s = (ofList s.1.triple s.1.abs, ofList s.2.triple s.2.abs) := by rw [← h.1.eq, ← h.2.1.eq]
  rw [e]; exact DList.step_indep P _ _ _ _ op m1 m2 hs

theorem slist_allocator_independent (P : Params) (s : Chain × Chain) (op : Op) (m1 m2 : Mem) (h : PairOk s m1)
    (hs : m1.sched = m2.sched) :
    (SList.step P s op m1).1 = (SList.step P s op m2).1 ∧ (SList.step P s op m1).2.1 = (SList.step P s op m2).2.1 ∧
    (SList.step P s op m1).2.2.sched = (SList.step P s op m2).2.2.sched := by
  have e : s = (ofList s.1.triple s.1.abs, ofList s.2.triple s.2.abs) := by rw [← h.1.eq, ← h.2.1.eq]
  rw [e]; exact SList.step_indep P _ _ _ _ op m1 m2 hs

/-- whole histories: a list on one allocator behaves exactly like the same list on another one
that answers the allocator calls the same way -/
theorem dlist_history_allocator_independent (P : Params) (ops : List Op) (s : Chain × Chain) (m1 m2 : Mem)
    (h1 : PairOk s m1) (h2 : PairOk s m2) (hc : Compat s ops) (hs : m1.sched = m2.sched) :
    (DList.run P s ops m1).1 = (DList.run P s ops m2).1 ∧ (DList.run P s ops m1).2.1 = (DList.run P s ops m2).2.1 := by
  rw [dlist_run_eq, dlist_run_eq]
  have := run_indep (C04.dlist_step_refines P) (DList.step_indep P) ops s m1 m2 h1 h2 hc hs
  exact ⟨this.1, this.2.1⟩

theorem slist_history_allocator_independent (P : Params) (ops : List Op) (s : Chain × Chain) (m1 m2 : Mem)
    (h1 : PairOk s m1) (h2 : PairOk s m2) (hc : Compat s ops) (hs : m1.sched = m2.sched) :
    (SList.run P s ops m1).1 = (SList.run P s ops m2).1 ∧ (SList.run P s ops m1).2.1 = (SList.run P s ops m2).2.1 := by
  rw [slist_run_eq, slist_run_eq]
  have := run_indep (C04.slist_step_refines P) (SList.step_indep P) ops s m1 m2 h1 h2 hc hs
  exact ⟨this.1, this.2.1⟩

/-- in particular: on any allocator that never refuses (a large enough pool, `malloc`) every history
is exactly the ideal lists' history -/
theorem never_refusing_allocator (P : Params) (ops : List Op) (s : Chain × Chain) (m : Mem) (h : PairOk s m)
    (hc : Compat s ops) (hs : m.sched = []) :
    (DList.run P s ops m).1 = (LSeq.run true P (s.1.abs, s.2.abs) ops).1 ∧
    (SList.run P s ops m).1 = (LSeq.run false P (s.1.abs, s.2.abs) ops).1 :=
  ⟨(C04.dlist_history_refines P ops s m h hc hs).1, (C04.slist_history_refines P ops s m h hc hs).1⟩

/-- builders depend on the ledger only through the schedule as well -/
theorem builder_allocator_independent (t : Triple) (add : List Nat) (m1 m2 : Mem) (hs : m1.sched = m2.sched) :
    (DList.builderResult t add m1).1 = (DList.builderResult t add m2).1 ∧
    (DList.builderResult t add m1).2.1 = (DList.builderResult t add m2).2.1 :=
  ⟨(DList.builderResult_indep t add m1 m2 hs).1, (DList.builderResult_indep t add m1 m2 hs).2.1⟩

/-! ## Non-vacuity: the same history on a configured pair, a default pair and a mixed pair -/
example :
    ((DList.run ⟨LSeq.predEven, LSeq.cmpNum⟩ (ofList .conf [1], ofList .conf [2, 3]) [.addAll, .removeFirst, .toArray] { live := 3 }).2.2.libcSide,
     (DList.run ⟨LSeq.predEven, LSeq.cmpNum⟩ (ofList .libc [1], ofList .libc [2, 3]) [.addAll, .removeFirst, .toArray]
        { liveLibc := 3, sched := [true] }).2.2.confSide,
     (DList.run ⟨LSeq.predEven, LSeq.cmpNum⟩ (ofList .conf [1], ofList .libc [2, 3]) [.addAll, .removeFirst] { live := 1, liveLibc := 2 }).2.2.liveLibc) =
    ((0, 0, 0, 0), ([true], 0, 0, 0, 0), 2) := by decide

end CC.Properties.C14List
