import CollectionsC.Proofs.HashTable
import CollectionsC.Proofs.HashTableGrowth
import CollectionsC.Properties.C02
/-! # C20 (hash-table part) — capacity invariants and doubling growth

Statements and closing proofs only.  The threshold `(size_t)(capacity * load_factor)` is the
parameter `c.thr`; every statement holds for every `c.thr` (every load factor), every hash function
and every key. -/
namespace CC.Properties.C20Hash
open CC CC.HT CC.Spec

/-- at all times: the capacity is a power of two not above `MAX_POW_TWO = 2^31`, the bucket array
has exactly `capacity` slots, `size` is the number of chained entries, and the stored threshold is
the float product for the current capacity -/
theorem capacity_invariants (c : HCfg) (t : HashTable) (h : t.Inv c) :
    (∃ k, k < 32 ∧ t.capacity = 2 ^ k) ∧ t.buckets.length = t.capacity ∧
    t.size = t.buckets.flatten.length ∧ t.threshold = c.thr t.capacity :=
  ⟨h.1, h.2.1, h.2.2.1, h.2.2.2.2.2⟩

/-- the constructor rounds the configured capacity up to a power of two (0 becomes 1), never below
the request while the request is at most `MAX_POW_TWO` -/
theorem constructor_capacity (c : HCfg) (cap : Nat) (tr : Triple) (m : Mem) (t : HashTable)
    (h : (HashTable.new c cap tr m).2.1 = some t) :
    t.capacity = roundPowTwo cap ∧ (∃ k, k < 32 ∧ t.capacity = 2 ^ k) ∧
    (cap ≤ Gen.MAX_POW_TWO → cap ≤ t.capacity) ∧ t.Inv c := by
  obtain ⟨_, _, n3, _⟩ := HashTable.new_spec c cap tr m
  obtain ⟨_, q2, _, _, q5, _⟩ := n3 t h
  exact ⟨q5, q2.1, fun hc => by rw [q5]; exact roundPowTwo_ge cap hc, q2⟩

/-- **after every successful insertion the table holds at most `capacity × load_factor` entries**
(this is the `while` loop of `cc_hashtable_add`: one doubling is not always enough) -/
theorem load_bound_after_insert (c : HCfg) (t : HashTable) (k : Key) (v : Nat) (m : Mem) (h : t.Inv c)
    (hok : (t.add c k v m).1 = .ok) :
    (t.add c k v m).2.1.size ≤ c.thr (t.add c k v m).2.1.capacity := by
  obtain ⟨a1, a2, _⟩ := HashTable.add_spec c t k v m h
  rw [← a1.2.2.2.2.2]; exact (a2 hok).2.1

/-- growth doubles: an insertion leaves the capacity multiplied by a power of two (1 when no resize
was needed), and the result is again a power of two with as many bucket slots -/
theorem growth_doubles (c : HCfg) (t : HashTable) (k : Key) (v : Nat) (m : Mem) (h : t.Inv c) :
    (∃ j, (t.add c k v m).2.1.capacity = t.capacity * 2 ^ j) ∧
    (∃ k', k' < 32 ∧ (t.add c k v m).2.1.capacity = 2 ^ k') ∧
    (t.add c k v m).2.1.buckets.length = (t.add c k v m).2.1.capacity := by
  obtain ⟨a1, _, _, _, a5, _⟩ := HashTable.add_spec c t k v m h
  exact ⟨a5, a1.1, a1.2.1⟩

/-- one `resize` step is exactly a doubling -/
theorem resize_doubles (c : HCfg) (t : HashTable) (m : Mem) (h : t.Inv c)
    (hmax : t.capacity ≠ Gen.MAX_POW_TWO) (ha : (m.allocT t.triple).1 = true) :
    (t.resize c (t.capacity <<< 1) m).2.1.capacity = 2 * t.capacity :=
  ((HashTable.resize_spec c t m h hmax).2 ha).2.2.2.2.1

/-- removal and `remove_all` never change the capacity or the threshold -/
theorem removal_keeps_capacity (c : HCfg) (t : HashTable) (k : Key) (m : Mem) (h : t.Inv c) (hl : t.size + 2 ≤ liveOf m t.triple) :
    (t.remove c k m).2.2.1.capacity = t.capacity ∧ (t.removeAll m).1.capacity = t.capacity := by
  obtain ⟨_, _, _, _, _, _, _, p8, _⟩ := HashTable.remove_spec c t k m h (fun _ => by omega)
  obtain ⟨_, _, _, r4, _⟩ := HashTable.removeAll_spec c t m h (by omega)
  exact ⟨p8, r4⟩

/-- **only O(log n) reallocations.**  Inserting any list of pairs into a table of capacity `c₀`
(statuses ignored, refusals allowed) performs exactly `j` bucket-array allocations, where the final
capacity is `c₀ · 2^j`; all other allocations are one per new entry.  For a load factor of at least
0.25 (`2^k / 4 ≤ thr (2^k)` at the capacities `2^k`, `k < 32`, a table can have) the final capacity is below `8 · (size + 1)` whenever a reallocation
happened, hence `j ≤ log2 (8 · (size + 1))` with `size ≤ initial size + n`. -/
theorem reallocations_logarithmic (c : HCfg) (hthr : ∀ k, k < 32 → 2 ^ k / 4 ≤ c.thr (2 ^ k)) (t : HashTable)
    (kvs : List (Key × Nat)) (m : Mem) (h : t.Inv c) :
    ∃ j, (HashTable.addMany c t kvs m).1.capacity = t.capacity * 2 ^ j ∧
      allocsOf (HashTable.addMany c t kvs m).2 t.triple = allocsOf m t.triple + j + ((HashTable.addMany c t kvs m).1.size - t.size) ∧
      t.size ≤ (HashTable.addMany c t kvs m).1.size ∧
      (HashTable.addMany c t kvs m).1.size ≤ t.size + kvs.length ∧
      j ≤ Nat.log2 (8 * ((HashTable.addMany c t kvs m).1.size + 1)) := by
  obtain ⟨j, h1, h2, h3, h4, h5⟩ := HashTable.addMany_count c hthr t kvs m h
  refine ⟨j, h1, h2, h3, h4, ?_⟩
  rcases h5 with h5 | h5
  · omega
  · have hc : 0 < t.capacity := cap_pos t h.1
    have h2j : 2 ^ j ≤ t.capacity * 2 ^ j := Nat.le_mul_of_pos_left _ hc
    have hX : 2 ^ j < 8 * ((HashTable.addMany c t kvs m).1.size + 1) := by omega
    apply Classical.byContradiction
    intro hn
    have hlt : Nat.log2 (8 * ((HashTable.addMany c t kvs m).1.size + 1)) < j := by omega
    have := (Nat.log2_lt (by omega)).mp hlt
    omega

/-- `capacity_pow2`, for every reachable state -/
theorem capacity_pow2 (c : HCfg) (t : HashTable) (h : t.Inv c) : ∃ k, k < 32 ∧ t.capacity = 2 ^ k := h.1

/-- the bucket block has exactly `capacity` slots (a hash table has no `size ≤ capacity` invariant:
chains hold any number of entries; what bounds `size` is the load factor, next theorem) -/
theorem bucket_block_eq_capacity (c : HCfg) (t : HashTable) (h : t.Inv c) : t.buckets.length = t.capacity := h.2.1

/-- `load_factor_respected` after every successful insertion -/
theorem load_factor_respected (c : HCfg) (t : HashTable) (k : Key) (v : Nat) (m : Mem) (h : t.Inv c)
    (hok : (t.add c k v m).1 = .ok) : (t.add c k v m).2.1.size ≤ c.thr (t.add c k v m).2.1.capacity :=
  load_bound_after_insert c t k v m h hok

/-- `growth_strict`: every growth step strictly increases the capacity -/
theorem growth_strict (c : HCfg) (t : HashTable) (m : Mem) (h : t.Inv c)
    (hmax : t.capacity ≠ Gen.MAX_POW_TWO) (ha : (m.allocT t.triple).1 = true) :
    t.capacity < (t.resize c (t.capacity <<< 1) m).2.1.capacity := by
  rw [resize_doubles c t m h hmax ha]
  have := cap_pos t h.1
  omega

/-- capacity never shrinks during an insertion -/
theorem capacity_monotone (c : HCfg) (t : HashTable) (k : Key) (v : Nat) (m : Mem) (h : t.Inv c) :
    t.capacity ≤ (t.add c k v m).2.1.capacity := by
  obtain ⟨j, hj⟩ := (growth_doubles c t k v m h).1
  rw [hj]; exact Nat.le_mul_of_pos_right _ (Nat.two_pow_pos j)

/-- **`appends_realloc_log`**.  The hash table does not follow the abstract process
`CC.Growth.appends` (which grows when `size = capacity`): its trigger is `size ≥ thr capacity`, so
the bound is derived directly on the model.  `n` insertions into a table with `size` entries perform
`j` bucket-array allocations (every other allocation is a new entry) with
`j ≤ log2 (size + n + 1) + 3` for every load factor ≥ 0.25 — the `+ 3` is the factor 8 =
2 / 0.25 between the entry count and the capacity. -/
theorem appends_realloc_log (c : HCfg) (hthr : ∀ k, k < 32 → 2 ^ k / 4 ≤ c.thr (2 ^ k)) (t : HashTable)
    (kvs : List (Key × Nat)) (m : Mem) (h : t.Inv c) :
    ∃ j, (HashTable.addMany c t kvs m).1.capacity = t.capacity * 2 ^ j ∧
      allocsOf (HashTable.addMany c t kvs m).2 t.triple = allocsOf m t.triple + j + ((HashTable.addMany c t kvs m).1.size - t.size) ∧
      j ≤ Nat.log2 (t.size + kvs.length + 1) + 3 := by
  obtain ⟨j, h1, h2, h3, h4, h5⟩ := HashTable.addMany_count c hthr t kvs m h
  refine ⟨j, h1, h2, ?_⟩
  rcases h5 with h5 | h5
  · omega
  · have hc : 0 < t.capacity := cap_pos t h.1
    have h2j : 2 ^ j ≤ t.capacity * 2 ^ j := Nat.le_mul_of_pos_left _ hc
    have hX : 2 ^ j < 8 * (t.size + kvs.length + 1) := by omega
    apply Classical.byContradiction
    intro hn
    have hj4 : Nat.log2 (t.size + kvs.length + 1) < j - 3 := by omega
    have hlt := (Nat.log2_lt (by omega)).mp hj4
    have hpow : 2 ^ j = 2 ^ (j - 3) * 8 := by
      have : j = (j - 3) + 3 := by omega
      conv => lhs; rw [this, Nat.pow_add]
    omega

/-- the capacity invariants hold in every state a history reaches (C02's history theorem gives the
invariant; this is its C20 reading) -/
theorem history_capacity_invariants (c : HCfg) (ops : List Spec.Map.Op) (t : HashTable) (m : Mem) (h : t.Inv c)
    (hl : t.size + 2 ≤ liveOf m t.triple) :
    (∃ k, k < 32 ∧ (t.run c ops m).2.2.1.capacity = 2 ^ k) ∧
    (t.run c ops m).2.2.1.buckets.length = (t.run c ops m).2.2.1.capacity ∧
    (t.run c ops m).2.2.1.threshold = c.thr (t.run c ops m).2.2.1.capacity := by
  have hi := (C02.history_refines c ops t m t.abs h hl (List.Perm.refl _)).2.2.1
  exact ⟨hi.1, hi.2.1, hi.2.2.2.2.2⟩

/-- the hypothesis of the logarithmic bounds is satisfiable: it is asked only at the capacities a table
can have (powers of two, where the shipped float product `(size_t)(2^k * lf)` is exact for
`lf ∈ {0.25, 0.5, 0.75, 1}`), e.g. by the exact quarter and by three quarters -/
example : ∀ k, k < 32 → 2 ^ k / 4 ≤ (fun cap => cap / 4) (2 ^ k) := fun _ _ => Nat.le_refl _
example : ∀ k, k < 32 → 2 ^ k / 4 ≤ (fun cap => cap * 3 / 4) (2 ^ k) := fun k _ => by simp only; omega

/-- non-vacuity: capacity 1, load factor 0.25 (`thr 1 = thr 2 = 0`, `thr 4 = 1`): the first insertion
doubles twice -/
example : ((HashTable.mk 1 0 0 [[]] .conf).add ⟨fun k => k, fun cap => cap / 4, fun cap => cap * 2⟩ (some 5) 50 { live := 2 }).2.1.capacity = 4 := by
  decide

end CC.Properties.C20Hash
