import CollectionsC.Proofs.PListDerived
import CollectionsC.Proofs.PSListDerived
import CollectionsC.Properties.C15List
import CollectionsC.Properties.C04PList
import CollectionsC.Properties.C04PSList
/-! # C15 (pointer level) — derived lists of CC_List / CC_SList on the raw links

`C15List.lean` speaks about the derived-list builders (`sublist`, `copy_shallow`, `copy_deep`, `filter`) on the sequence-level
model.  Here they run on the pointer-level models (`Model/PList.lean`, `Model/PSList.lean`): source and result live on one
heap; the builder allocates a header, walks the source along `next` and appends one fresh node per selected element with
the list's own `add`; a refused `add` destroys the partial result.

For every represented source, every argument, every allocator state (`BuilderOk`):
* status and ledger are those of the sequence-level builder (hence everything `C15List`/`C06List`/`C14List` prove about them);
* the **source is untouched**: still represented by the same cells, and no heap cell that existed before the call is written
  (`frame`: the builder writes only nodes it allocated itself);
* a result exists exactly when the sequence-level one does; it is **well-formed** (represented), consists of **fresh nodes only**
  (serial numbers from the counter at the call on — so it shares no node with the source or any other list), carries the
  sequence-level content and sits on the source's allocator triple.

Tie to the code: the harness prints the nodes of the source and of the derived list after every `mk_*` operation and the
driver prints the same from these models: L3 compares node identity across the builders (the source keeps its ids, the
derived list gets new ones in order). -/
namespace CC.Properties.C15PList
open CC CC.Chain
open CC.PList (St Hdr Cell idsOf dataOf)
open CC.Spec

/-- doubly linked: `cc_list_copy_shallow` (`cp = id`) / `cc_list_copy_deep` -/
theorem dlist_copy_links (cp : Nat → Nat) (s : St) (l : Hdr) (cs : List Cell) (m : Mem) (r : PList.Repr s.heap l cs)
    (hb : ∀ y, y ∈ idsOf cs → y < s.fresh) :
    PList.BuilderOk s l cs (PList.copy cp s l m) (DList.copy cp (ofList l.triple (dataOf cs)) m) :=
  PList.copy_spec cp s l cs m r hb

/-- doubly linked: `cc_list_filter` -/
theorem dlist_filter_links (p : Nat → Bool) (s : St) (l : Hdr) (cs : List Cell) (m : Mem) (r : PList.Repr s.heap l cs)
    (hb : ∀ y, y ∈ idsOf cs → y < s.fresh) :
    PList.BuilderOk s l cs (PList.filter p s l m) (DList.filter p (ofList l.triple (dataOf cs)) m) :=
  PList.filter_spec p s l cs m r hb

/-- doubly linked: `cc_list_sublist` -/
theorem dlist_sublist_links (s : St) (l : Hdr) (cs : List Cell) (b e : Nat) (m : Mem) (r : PList.Repr s.heap l cs)
    (hb : ∀ y, y ∈ idsOf cs → y < s.fresh) :
    PList.BuilderOk s l cs (PList.sublist s l b e m) (DList.sublist (ofList l.triple (dataOf cs)) b e m) :=
  PList.sublist_spec s l cs b e m r hb

/-- singly linked: `cc_slist_copy_shallow` / `cc_slist_copy_deep` -/
theorem slist_copy_links (cp : Nat → Nat) (s : St) (l : Hdr) (cs : List Cell) (m : Mem) (r : PSList.SRepr s.heap l cs)
    (hb : ∀ y, y ∈ idsOf cs → y < s.fresh) :
    PSList.BuilderOk s l cs (PSList.copy cp s l m) (SList.copy cp (ofList l.triple (dataOf cs)) m) :=
  PSList.copy_spec cp s l cs m r hb

/-- singly linked: `cc_slist_filter` -/
theorem slist_filter_links (p : Nat → Bool) (s : St) (l : Hdr) (cs : List Cell) (m : Mem) (r : PSList.SRepr s.heap l cs)
    (hb : ∀ y, y ∈ idsOf cs → y < s.fresh) :
    PSList.BuilderOk s l cs (PSList.filter p s l m) (SList.filter p (ofList l.triple (dataOf cs)) m) :=
  PSList.filter_spec p s l cs m r hb

/-- singly linked: `cc_slist_sublist` -/
theorem slist_sublist_links (s : St) (l : Hdr) (cs : List Cell) (b e : Nat) (m : Mem) (r : PSList.SRepr s.heap l cs)
    (hb : ∀ y, y ∈ idsOf cs → y < s.fresh) :
    PSList.BuilderOk s l cs (PSList.sublist s l b e m) (SList.sublist (ofList l.triple (dataOf cs)) b e m) :=
  PSList.sublist_spec s l cs b e m r hb

/-- the result of a builder is well-formed and both of its traversal directions agree (doubly linked) -/
theorem dlist_derived_mirror {s : St} {l : Hdr} {cs : List Cell} {q : Stat × St × Option Hdr × Mem} {c : Stat × Option Chain × Mem}
    (k : PList.BuilderOk s l cs q c) (dd : Hdr) (hd : q.2.2.1 = some dd) :
    PList.WF q.2.1.heap dd ∧ PList.WF q.2.1.heap l ∧ PList.bwd q.2.1.heap dd = (PList.fwd q.2.1.heap dd).reverse := by
  obtain ⟨nc, r, _⟩ := k.res dd hd
  exact ⟨⟨nc, r⟩, ⟨cs, k.src⟩, PList.mirror ⟨nc, r⟩⟩

/-! ## "afterwards independent": source and derived list as a pair, any later history, destroying either one -/

/-- **source and result form a pair** (doubly linked): both represented on the one heap, disjoint, all nodes older than the
serial counter — the invariant from which every later history starts -/
theorem dlist_derived_inv2 {s : St} {l : Hdr} {cs : List Cell} {q : Stat × St × Option Hdr × Mem} {c : Stat × Option Chain × Mem}
    (k : PList.BuilderOk s l cs q c) (hb : ∀ y, y ∈ idsOf cs → y < s.fresh) (dd : Hdr) (hd : q.2.2.1 = some dd) :
    ∃ nc, PList.Inv2 { st := q.2.1, l1 := l, l2 := dd } cs nc ∧ c.2.1 = some (ofList l.triple (dataOf nc)) ∧ dd.triple = l.triple := by
  obtain ⟨nc, r, e, t, f⟩ := k.res dd hd
  exact ⟨nc, ⟨⟨k.src, r, fun x hx hx2 => Nat.lt_irrefl _ (Nat.lt_of_lt_of_le (hb x hx) (f x hx2).1)⟩,
    fun x hx => Nat.lt_of_lt_of_le (hb x hx) k.mono, fun x hx => (f x hx).2⟩, e, t⟩

/-- **any later history on the pair (source, result)** — operations on either list, bulk copies and splices between them, in
any order, any schedule — runs as the sequence-level history on the two canonical chains: the two lists behave as two
independent lists from then on -/
theorem dlist_derived_then_history (P : Spec.LSeq.Params) {s : St} {l : Hdr} {cs : List Cell} {q : Stat × St × Option Hdr × Mem}
    {c : Stat × Option Chain × Mem} (k : PList.BuilderOk s l cs q c) (hb : ∀ y, y ∈ idsOf cs → y < s.fresh) (dd : Hdr)
    (hd : q.2.2.1 = some dd) (ops : List PList.POp) (m : Mem) :
    ∃ nc c1' c2', PList.Inv2 (PList.prun P { st := q.2.1, l1 := l, l2 := dd } ops m).2.1 c1' c2' ∧
      DList.run P (ofList l.triple (dataOf cs), ofList dd.triple (dataOf nc)) (ops.map PList.POp.toOp) m =
        ((PList.prun P { st := q.2.1, l1 := l, l2 := dd } ops m).1,
         PList.absPair (PList.prun P { st := q.2.1, l1 := l, l2 := dd } ops m).2.1 c1' c2',
         (PList.prun P { st := q.2.1, l1 := l, l2 := dd } ops m).2.2) := by
  obtain ⟨nc, I, _, _⟩ := dlist_derived_inv2 k hb dd hd
  obtain ⟨c1', c2', I', e⟩ := PList.prun_refines P ops _ cs nc m I
  exact ⟨nc, c1', c2', I', e⟩

/-- **destroying either one** leaves the other represented (untouched cell by cell), releases exactly the destroyed list's
nodes (they are absent from the heap afterwards) and its header -/
theorem dlist_derived_destroy {s : St} {l : Hdr} {cs : List Cell} {q : Stat × St × Option Hdr × Mem} {c : Stat × Option Chain × Mem}
    (k : PList.BuilderOk s l cs q c) (hb : ∀ y, y ∈ idsOf cs → y < s.fresh) (dd : Hdr) (hd : q.2.2.1 = some dd) (m : Mem) :
    (∃ nc, PList.Repr (PList.destroy q.2.1 dd m).2.1.heap l cs ∧ (∀ a, a ∈ idsOf nc → (PList.destroy q.2.1 dd m).2.1.heap a = none) ∧
      (PList.destroy q.2.1 dd m).2.2 = Mem.freeN dd.triple (nc.length + 1) m ∧
      PList.Repr (PList.destroy q.2.1 l m).2.1.heap dd nc ∧ (∀ a, a ∈ idsOf cs → (PList.destroy q.2.1 l m).2.1.heap a = none) ∧
      (PList.destroy q.2.1 l m).2.2 = Mem.freeN l.triple (cs.length + 1) m) := by
  obtain ⟨nc, I, _, _⟩ := dlist_derived_inv2 k hb dd hd
  obtain ⟨_, a2, _, a4, a5⟩ := PList.destroy_spec q.2.1 dd nc m I.rep.r2 I.b2
  obtain ⟨_, b2, _, b4, b5⟩ := PList.destroy_spec q.2.1 l cs m I.rep.r1 I.b1
  exact ⟨nc, I.rep.r1.frame' (fun b hb' => a4 b (fun hm => I.rep.disj b hb' hm) (I.b1 b hb')), a5, a2,
    I.rep.r2.frame' (fun b hb' => b4 b (fun hm => I.rep.disj b hm hb') (I.b2 b hb')), b5, b2⟩

/-- singly linked: source and result form a pair -/
theorem slist_derived_inv2 {s : St} {l : Hdr} {cs : List Cell} {q : Stat × St × Option Hdr × Mem} {c : Stat × Option Chain × Mem}
    (k : PSList.BuilderOk s l cs q c) (hb : ∀ y, y ∈ idsOf cs → y < s.fresh) (dd : Hdr) (hd : q.2.2.1 = some dd) :
    ∃ nc, PSList.SInv2 { st := q.2.1, l1 := l, l2 := dd } cs nc ∧ c.2.1 = some (ofList l.triple (dataOf nc)) ∧ dd.triple = l.triple := by
  obtain ⟨nc, r, e, t, f⟩ := k.res dd hd
  exact ⟨nc, ⟨⟨k.src, r, fun x hx hx2 => Nat.lt_irrefl _ (Nat.lt_of_lt_of_le (hb x hx) (f x hx2).1)⟩,
    fun x hx => Nat.lt_of_lt_of_le (hb x hx) k.mono, fun x hx => (f x hx).2⟩, e, t⟩

/-- singly linked: any later history on the pair (source, result) -/
theorem slist_derived_then_history (P : Spec.LSeq.Params) {s : St} {l : Hdr} {cs : List Cell} {q : Stat × St × Option Hdr × Mem}
    {c : Stat × Option Chain × Mem} (k : PSList.BuilderOk s l cs q c) (hb : ∀ y, y ∈ idsOf cs → y < s.fresh) (dd : Hdr)
    (hd : q.2.2.1 = some dd) (ops : List PList.POp) (m : Mem) :
    ∃ nc c1' c2', PSList.SInv2 (PSList.srun P { st := q.2.1, l1 := l, l2 := dd } ops m).2.1 c1' c2' ∧
      SList.run P (ofList l.triple (dataOf cs), ofList dd.triple (dataOf nc)) (ops.map PList.POp.toOp) m =
        ((PSList.srun P { st := q.2.1, l1 := l, l2 := dd } ops m).1,
         PList.absPair (PSList.srun P { st := q.2.1, l1 := l, l2 := dd } ops m).2.1 c1' c2',
         (PSList.srun P { st := q.2.1, l1 := l, l2 := dd } ops m).2.2) := by
  obtain ⟨nc, I, _, _⟩ := slist_derived_inv2 k hb dd hd
  obtain ⟨c1', c2', I', e⟩ := PSList.srun_refines P ops _ cs nc m I
  exact ⟨nc, c1', c2', I', e⟩

/-- singly linked: destroying either one -/
theorem slist_derived_destroy {s : St} {l : Hdr} {cs : List Cell} {q : Stat × St × Option Hdr × Mem} {c : Stat × Option Chain × Mem}
    (k : PSList.BuilderOk s l cs q c) (hb : ∀ y, y ∈ idsOf cs → y < s.fresh) (dd : Hdr) (hd : q.2.2.1 = some dd) (m : Mem) :
    (∃ nc, PSList.SRepr (PSList.destroy q.2.1 dd m).2.1.heap l cs ∧ (∀ a, a ∈ idsOf nc → (PSList.destroy q.2.1 dd m).2.1.heap a = none) ∧
      PSList.SRepr (PSList.destroy q.2.1 l m).2.1.heap dd nc ∧ (∀ a, a ∈ idsOf cs → (PSList.destroy q.2.1 l m).2.1.heap a = none)) := by
  obtain ⟨nc, I, _, _⟩ := slist_derived_inv2 k hb dd hd
  obtain ⟨_, _, _, a4, a5⟩ := PSList.destroy_spec q.2.1 dd nc m I.rep.r2 I.b2
  obtain ⟨_, _, _, b4, b5⟩ := PSList.destroy_spec q.2.1 l cs m I.rep.r1 I.b1
  exact ⟨nc, I.rep.r1.frame' (fun b hb' => a4 b (fun hm => I.rep.disj b hb' hm) (I.b1 b hb')), a5,
    I.rep.r2.frame' (fun b hb' => b4 b (fun hm => I.rep.disj b hm hb') (I.b2 b hb')), b5⟩

/-! ## Non-vacuity: a sublist and a filtered copy, the allocator granting everything; then a refusal in the middle -/
example :
    ((PList.sublist (PList.prun ⟨fun _ => true, LSeq.cmpNum⟩ (C04PList.fresh .conf .conf) [.addLast 5, .addLast 6, .addLast 7, .addLast 8] {}).2.1.st
        (PList.prun ⟨fun _ => true, LSeq.cmpNum⟩ (C04PList.fresh .conf .conf) [.addLast 5, .addLast 6, .addLast 7, .addLast 8] {}).2.1.l1 1 2 {}).1,
     ((PList.sublist (PList.prun ⟨fun _ => true, LSeq.cmpNum⟩ (C04PList.fresh .conf .conf) [.addLast 5, .addLast 6, .addLast 7, .addLast 8] {}).2.1.st
        (PList.prun ⟨fun _ => true, LSeq.cmpNum⟩ (C04PList.fresh .conf .conf) [.addLast 5, .addLast 6, .addLast 7, .addLast 8] {}).2.1.l1 1 2 {}).2.2.1.map
       fun d => PList.fwd (PList.sublist (PList.prun ⟨fun _ => true, LSeq.cmpNum⟩ (C04PList.fresh .conf .conf) [.addLast 5, .addLast 6, .addLast 7, .addLast 8] {}).2.1.st
        (PList.prun ⟨fun _ => true, LSeq.cmpNum⟩ (C04PList.fresh .conf .conf) [.addLast 5, .addLast 6, .addLast 7, .addLast 8] {}).2.1.l1 1 2 {}).2.1.heap d),
     (PList.filter (fun v => v % 2 == 0) (PList.prun ⟨fun _ => true, LSeq.cmpNum⟩ (C04PList.fresh .conf .conf) [.addLast 5, .addLast 6, .addLast 7, .addLast 8] {}).2.1.st
        (PList.prun ⟨fun _ => true, LSeq.cmpNum⟩ (C04PList.fresh .conf .conf) [.addLast 5, .addLast 6, .addLast 7, .addLast 8] {}).2.1.l1
        { sched := [true, true, false] }).1) = (.ok, some [6, 7], .errAlloc) := by decide

end CC.Properties.C15PList
