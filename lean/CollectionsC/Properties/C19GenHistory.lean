import CollectionsC.Properties.C19Gen
import CollectionsC.Properties.C19Window
/-! # C19 — histories on the *translated text* of `src/cc_ring_buffer.c`

`C19Gen` proves, function by function, that the definitions regenerated from the C source on every
build agree with the hand-written model on every state satisfying `Rbuf.Inv`.  This file lifts that to
whole histories run **on the generated definitions themselves** (`GenF.cc_rbuf_enqueue`,
`GenF.cc_rbuf_dequeue` chained call after call, the `fault` results or-ed together): no call of the
history has undefined behaviour, statuses (numeric codes) and out-values are those of the ideal bounded
FIFO, and the final record is the image of the model's final state.  Together with `C19Window` this gives
the sliding-window closed form directly about the translated C text.
Preconditions as in `C19Gen`: `Rbuf.Inv` of the start state and `cap < 2^64` (`size_t`). -/
namespace CC.Properties.C19Gen
open CC
open CC.Spec.Fifo (Op Out)

/-- a history executed on the generated functions: per call the numeric status (none for the `void`
enqueue) and the out-value; the last component is true iff some call had undefined behaviour -/
def genRun : List Op → GenF.ring_buffer → List (Option Nat × Option Nat) × GenF.ring_buffer × Bool
  | [], g => ([], g, false)
  | .enqueue x :: ops, g =>
    let e := GenF.cc_rbuf_enqueue g x
    let rs := genRun ops e.1
    ((none, none) :: rs.1, rs.2.1, e.2 || rs.2.2)
  | .dequeue :: ops, g =>
    let d := GenF.cc_rbuf_dequeue g
    let rs := genRun ops d.2.2.1
    ((some d.1, d.2.1) :: rs.1, rs.2.1, d.2.2.2 || rs.2.2)

/-- the model's report of a call, with the status as its numeric code -/
def codeOut (o : Out) : Option Nat × Option Nat := (o.st.map Stat.code, o.val)

/-- **History agreement on the translated text.** Every enqueue/dequeue history run on the generated
functions from the image of a model state satisfying the invariant: no undefined behaviour in any
call, reports equal to the model's (status codes), final record = image of the model's final state. -/
theorem gen_history_agrees (ops : List Op) (r : Rbuf) (m : Mem) (h : r.Inv) (hc : r.cap < 2 ^ 64) :
    genRun ops (ofRbuf r) = ((r.run ops m).1.map codeOut, ofRbuf (r.run ops m).2.1, false) := by
  induction ops generalizing r m with
  | nil => rfl
  | cons op ops ih =>
    obtain ⟨_, _, hinv, hcap, _⟩ := C19.step_refines r op m h
    cases op with
    | enqueue x =>
      have a := (rbuf_enqueue_agrees r x m h hc).1
      have ih' := ih (r.enqueue x m).1 (r.enqueue x m).2 hinv (by
        have : (r.enqueue x m).1.cap = r.cap := hcap
        rw [this]; exact hc)
      simp only [genRun, Rbuf.run, Rbuf.step, a, ih', List.map_cons, Bool.false_or]
      rfl
    | dequeue =>
      have a := (rbuf_dequeue_agrees r m h hc).1
      have ih' := ih (r.dequeue m).2.2.1 (r.dequeue m).2.2.2 hinv (by
        have : (r.dequeue m).2.2.1.cap = r.cap := hcap
        rw [this]; exact hc)
      simp only [genRun, Rbuf.run, Rbuf.step, a, ih', List.map_cons, Bool.false_or]
      rfl

/-- **C19 on the translated text**: the generated functions, chained over any history, report what
the ideal bounded FIFO reports and hold what it holds, without undefined behaviour. -/
theorem gen_history_refines (ops : List Op) (r : Rbuf) (h : r.Inv) (hc : r.cap < 2 ^ 64) :
    (genRun ops (ofRbuf r)).1 = (((Spec.Fifo.mk r.cap r.abs).run ops).1.map codeOut) ∧
    (toRbuf (genRun ops (ofRbuf r)).2.1).abs = ((Spec.Fifo.mk r.cap r.abs).run ops).2.items ∧
    (genRun ops (ofRbuf r)).2.2 = false := by
  have g := gen_history_agrees ops r {} h hc
  obtain ⟨h1, h2, _, _⟩ := C19.history_refines ops r {} h
  rw [g]
  exact ⟨by rw [h1], by rw [toRbuf_ofRbuf, h2], rfl⟩

/-- **Sliding window on the translated text**: chaining the generated `cc_rbuf_enqueue` over `xs`
leaves exactly the last `capacity` items of (held ++ xs), and no call has undefined behaviour. -/
theorem gen_enqueue_burst_window (xs : List Nat) (r : Rbuf) (h : r.Inv) (hc : r.cap < 2 ^ 64) :
    (toRbuf (genRun (xs.map Op.enqueue) (ofRbuf r)).2.1).abs =
      (r.abs ++ xs).drop (r.size + xs.length - r.cap) ∧
    (genRun (xs.map Op.enqueue) (ofRbuf r)).2.2 = false := by
  rw [gen_history_agrees (xs.map Op.enqueue) r {} h hc]
  exact ⟨by rw [toRbuf_ofRbuf]; exact C19.enqueue_burst_window xs r {} h, rfl⟩

/-- **End to end on the translated text**: chain the generated `cc_rbuf_enqueue` over `xs`, then the
generated `cc_rbuf_dequeue` `k` times: the dequeues return status 0 (`CC_OK`) with the first `k` items of
the window in order, then status 8 (`CC_ERR_OUT_OF_RANGE`) with no value; no undefined behaviour. -/
theorem gen_burst_then_drain (xs : List Nat) (k : Nat) (r : Rbuf) (h : r.Inv) (hc : r.cap < 2 ^ 64) :
    (genRun (xs.map Op.enqueue ++ List.replicate k Op.dequeue) (ofRbuf r)).1 =
      xs.map (fun _ => ((none, none) : Option Nat × Option Nat)) ++
      ((((r.abs ++ xs).drop (r.size + xs.length - r.cap)).take k).map (fun x => (some 0, some x)) ++
        List.replicate (k - ((r.abs ++ xs).drop (r.size + xs.length - r.cap)).length) (some 8, none)) ∧
    (genRun (xs.map Op.enqueue ++ List.replicate k Op.dequeue) (ofRbuf r)).2.2 = false := by
  rw [gen_history_agrees _ r {} h hc]
  refine ⟨?_, rfl⟩
  show List.map codeOut _ = _
  rw [C19.burst_then_drain xs k r {} h]
  simp [codeOut, C19.okOut, C19.emptyOut, codes, Function.comp_def]

/-! ## Non-vacuity: a wrapped, exactly full buffer, evaluated on the generated functions -/
example : let g := genRun [.enqueue 1, .dequeue, .dequeue, .dequeue, .dequeue]
            (ofRbuf (Rbuf.mk 3 3 1 1 [8, 6, 7] .conf))
    g.1 = [(none, none), (some 0, some 7), (some 0, some 8), (some 0, some 1), (some 8, none)] ∧
    g.2.2 = false := by decide

end CC.Properties.C19Gen
