import CollectionsC.Properties.C13
/-! # C06 (dynamic pool part): no fault, no division by zero, every page released exactly once -/
namespace CC.Properties.C06DynamicPool
open CC CC.Spec
open CC.Spec.DPool (Op)
open CC.DynamicPool (OpOk RunOk)

/-- no operation faults (the `memset` of calloc and the user's writes stay inside the newest page,
`mem_free` is only called on blocks the pool owns), and the ledger moves exactly with the number of
blocks the pool owns (the struct plus one per page) -/
theorem nofault (grow : Nat → Nat) (fresh : Nat) (s : DynamicPool) (op : Op) (m : Mem)
    (h : s.Inv) (hop : OpOk s op) (hl : s.owned ≤ m.live) :
    (DynamicPool.step grow fresh s op m).2.2.fault = m.fault ∧
    (DynamicPool.step grow fresh s op m).2.2.live + s.owned = m.live + (DynamicPool.step grow fresh s op m).2.1.owned :=
  ⟨(C13.step_refines grow fresh s op m h hop hl).2.2.2.2, (C13.step_refines grow fresh s op m h hop hl).2.2.2.1⟩

theorem history_nofault (grow : Nat → Nat) (fresh : Nat) (ops : List Op) (s : DynamicPool) (m : Mem)
    (h : s.Inv) (hl : s.owned ≤ m.live) (hops : RunOk grow fresh s ops m) :
    (DynamicPool.run grow fresh s ops m).2.2.2.fault = m.fault ∧
    (DynamicPool.run grow fresh s ops m).2.2.2.live + s.owned = m.live + (DynamicPool.run grow fresh s ops m).2.2.1.owned :=
  ⟨(C13.history_refines grow fresh ops s m h hl hops).2.2.2.2, (C13.history_refines grow fresh ops s m h hl hops).2.2.2.1⟩

/-- **no division by zero in padded mode**: the remainder `size % alignment_boundary` is computed
only behind the guard `alignment_boundary > 1`; for boundaries 0 and 1 the padding is 0 and no
modulo is evaluated (M2: the boundary is stored by the constructor, see `new_stores_boundary`) -/
theorem padding_guard (packed : Bool) (ab n : Nat) (h : ab ≤ 1) : padOf packed ab n = 0 := by
  unfold padOf
  have : ¬ ab > 1 := by omega
  simp [this]

theorem new_stores_boundary (size ab fresh : Nat) (fixed packed : Bool) (m m' : Mem) (s : DynamicPool)
    (h : DynamicPool.new size fixed packed ab fresh m = (.ok, some s, m')) :
    s.ab = ab ∧ s.isPacked = packed ∧ s.isFixed = fixed ∧ s.topPageSize = size := by
  unfold DynamicPool.new at h; dsimp only at h
  cases h1 : m.alloc.1
  · simp [h1] at h
  · cases h2 : m.alloc.2.alloc.1
    · simp [h1, h2] at h
    · simp only [h1, h2, Bool.not_true, Bool.false_eq_true, if_false, Prod.mk.injEq, Option.some.injEq, true_and] at h
      rw [← h.1]; exact ⟨rfl, rfl, rfl, rfl⟩

/-- **reset** keeps exactly the oldest page and releases every other page exactly once: one
`mem_free` per released page, no fault (a second free of a page would raise it) -/
theorem reset_releases_pages (s : DynamicPool) (m : Mem) (h : s.Inv) (hl : s.owned ≤ m.live) :
    (s.reset m).1.pages.length = 1 ∧ (s.reset m).2.live + (s.pages.length - 1) = m.live ∧
    (s.reset m).2.fault = m.fault := by
  obtain ⟨e1, e2, e3⟩ := DynamicPool.reset_ledger s m h hl
  have hlen : (s.reset m).1.pages.length = 1 := by rw [e1]; rfl
  refine ⟨hlen, ?_, e3⟩
  simp only [DynamicPool.owned] at e2 hl
  rw [hlen] at e2
  obtain ⟨p, ps, hp, _⟩ := DynamicPool.inv_top s h
  have : 1 ≤ s.pages.length := by rw [hp]; simp
  omega

/-- **destroy** releases every page and the pool struct exactly once -/
theorem destroy_releases_pages (s : DynamicPool) (m : Mem) (h : s.Inv) (hl : s.owned ≤ m.live) :
    (s.destroy m).live + (s.pages.length + 1) = m.live ∧ (s.destroy m).fault = m.fault :=
  DynamicPool.destroy_ledger s m h hl

/-- `new … any history (mallocs, callocs, frees, resets, refused pages) … destroy` returns the
ledger to its initial value and nothing faults -/
theorem destroy_releases_all (grow : Nat → Nat) (fresh size ab : Nat) (fixed packed : Bool) (m0 m1 : Mem)
    (s0 : DynamicPool) (hnew : DynamicPool.new size fixed packed ab fresh m0 = (.ok, some s0, m1))
    (ops : List Op) (hops : RunOk grow fresh s0 ops m1) :
    ((DynamicPool.run grow fresh s0 ops m1).2.2.1.destroy (DynamicPool.run grow fresh s0 ops m1).2.2.2).live = m0.live ∧
    ((DynamicPool.run grow fresh s0 ops m1).2.2.1.destroy (DynamicPool.run grow fresh s0 ops m1).2.2.2).fault = m0.fault :=
  (C13.new_history_destroy grow fresh size ab fixed packed m0 m1 s0 hnew ops hops).2.2.2.2

/-- a constructor that fails leaves the ledger balanced -/
theorem new_failure_balanced (size ab fresh : Nat) (fixed packed : Bool) (m : Mem)
    (h : (DynamicPool.new size fixed packed ab fresh m).1 ≠ .ok) :
    (DynamicPool.new size fixed packed ab fresh m).2.2.live = m.live :=
  (C13.new_refused size ab fresh fixed packed m h).2.2

end CC.Properties.C06DynamicPool
