import CollectionsC.Properties.C13
/-! # C06 (dynamic pool part): no fault, no division by zero, every page released exactly once -/
namespace CC.Properties.C06DynamicPool
open CC CC.Spec
open CC.Spec.DPool (Op)
open CC.DynamicPool (OpOk RunOk)

/-- no operation faults (the `memset` of calloc and the user's writes stay inside the newest page,
`mem_free` is only called on blocks the pool owns), the ledger counter of the pool's allocator
triple moves exactly with the number of blocks the pool owns (the struct plus one per page), and the
other triple's counter never moves -/
theorem nofault (grow : Nat → Nat) (fresh : Nat) (s : DynamicPool) (op : Op) (m : Mem)
    (h : s.Inv) (hz : s.Sized) (hop : OpOk s op) (hl : s.owned ≤ m.liveT s.triple) :
    (DynamicPool.step grow fresh s op m).2.2.fault = m.fault ∧
    (DynamicPool.step grow fresh s op m).2.2.liveT s.triple + s.owned =
      m.liveT s.triple + (DynamicPool.step grow fresh s op m).2.1.owned ∧
    (DynamicPool.step grow fresh s op m).2.2.liveO s.triple = m.liveO s.triple := by
  obtain ⟨_, _, _, _, _, a, b, c⟩ := C13.step_refines grow fresh s op m h hz hop hl
  exact ⟨b, a, c⟩

theorem history_nofault (grow : Nat → Nat) (fresh : Nat) (ops : List Op) (s : DynamicPool) (m : Mem)
    (h : s.Inv) (hz : s.Sized) (hl : s.owned ≤ m.liveT s.triple) (hops : RunOk grow fresh s ops m) :
    (DynamicPool.run grow fresh s ops m).2.2.2.fault = m.fault ∧
    (DynamicPool.run grow fresh s ops m).2.2.2.liveT s.triple + s.owned =
      m.liveT s.triple + (DynamicPool.run grow fresh s ops m).2.2.1.owned ∧
    (DynamicPool.run grow fresh s ops m).2.2.2.liveO s.triple = m.liveO s.triple := by
  obtain ⟨_, _, _, _, _, a, b, c⟩ := C13.history_refines grow fresh ops s m h hz hl hops
  exact ⟨b, a, c⟩

/-- **no division by zero in padded mode**: the remainder `size % alignment_boundary` is computed
only behind the guard `alignment_boundary > 1`; for boundaries 0 and 1 the padding is 0 and no
modulo is evaluated (M2: the boundary is stored by the constructor, see `new_stores_boundary`) -/
theorem padding_guard (packed : Bool) (ab n : Nat) (h : ab ≤ 1) : padOf packed ab n = 0 := by
  unfold padOf
  have : ¬ ab > 1 := by omega
  simp [this]

theorem new_stores_boundary (size ab fresh : Nat) (fixed packed : Bool) (t : Triple) (m m' : Mem) (s : DynamicPool)
    (h : DynamicPool.new size fixed packed ab fresh t m = (.ok, some s, m')) :
    s.ab = ab ∧ s.isPacked = packed ∧ s.isFixed = fixed ∧ s.topPageSize = size ∧ s.triple = t := by
  unfold DynamicPool.new at h; dsimp only at h
  split at h
  · simp at h
  · cases h1 : (m.allocT t).1
    · simp [h1] at h
    · cases h2 : ((m.allocT t).2.allocT t).1
      · simp [h1, h2] at h
      · simp only [h1, h2, Bool.not_true, Bool.false_eq_true, if_false, Prod.mk.injEq, Option.some.injEq, true_and] at h
        rw [← h.1]; exact ⟨rfl, rfl, rfl, rfl, rfl⟩

/-- **reset** keeps exactly the oldest page and releases every other page exactly once: one
`mem_free` per released page through the pool's triple, no fault (a second free of a page would
raise it) -/
theorem reset_releases_pages (s : DynamicPool) (m : Mem) (h : s.Inv) (hl : s.owned ≤ m.liveT s.triple) :
    (s.reset m).1.pages.length = 1 ∧ (s.reset m).2.liveT s.triple + (s.pages.length - 1) = m.liveT s.triple ∧
    (s.reset m).2.fault = m.fault := by
  obtain ⟨e1, e2, e3, _⟩ := DynamicPool.reset_ledger s m h hl
  have hlen : (s.reset m).1.pages.length = 1 := by rw [e1]; rfl
  refine ⟨hlen, ?_, e3⟩
  simp only [DynamicPool.owned] at e2 hl
  rw [hlen] at e2
  obtain ⟨p, ps, hp, _⟩ := DynamicPool.inv_top s h
  have : 1 ≤ s.pages.length := by rw [hp]; simp
  omega

/-- **destroy** releases every page and the pool struct exactly once -/
theorem destroy_releases_pages (s : DynamicPool) (m : Mem) (h : s.Inv) (hl : s.owned ≤ m.liveT s.triple) :
    (s.destroy m).liveT s.triple + (s.pages.length + 1) = m.liveT s.triple ∧ (s.destroy m).fault = m.fault :=
  ⟨(DynamicPool.destroy_ledger s m h hl).1, (DynamicPool.destroy_ledger s m h hl).2.1⟩

/-- `new … any history (mallocs, callocs, frees, resets, refused pages) … destroy` returns the
ledger of the pool's triple to its initial value, never touches the other triple's, and nothing
faults — for the configured triple (`cc_dynamic_pool_new_conf`) and the C library
(`cc_dynamic_pool_new`) alike, for every initial size the constructor accepts -/
theorem destroy_releases_all (grow : Nat → Nat) (fresh size ab : Nat) (fixed packed : Bool) (t : Triple) (m0 m1 : Mem)
    (s0 : DynamicPool) (hnew : DynamicPool.new size fixed packed ab fresh t m0 = (.ok, some s0, m1))
    (ops : List Op) (hops : RunOk grow fresh s0 ops m1) :
    ((DynamicPool.run grow fresh s0 ops m1).2.2.1.destroy (DynamicPool.run grow fresh s0 ops m1).2.2.2).liveT t = m0.liveT t ∧
    ((DynamicPool.run grow fresh s0 ops m1).2.2.1.destroy (DynamicPool.run grow fresh s0 ops m1).2.2.2).fault = m0.fault ∧
    ((DynamicPool.run grow fresh s0 ops m1).2.2.1.destroy (DynamicPool.run grow fresh s0 ops m1).2.2.2).liveO t = m0.liveO t :=
  (C13.new_history_destroy grow fresh size ab fixed packed t m0 m1 s0 hnew ops hops).2.2.2.2

/-- a constructor that fails leaves the ledger balanced; sizes for which `size + sizeof(PageInfo)`
would wrap are rejected before anything is allocated (M9) -/
theorem new_failure_balanced (size ab fresh : Nat) (fixed packed : Bool) (t : Triple) (m : Mem)
    (h : (DynamicPool.new size fixed packed ab fresh t m).1 ≠ .ok) :
    (DynamicPool.new size fixed packed ab fresh t m).2.2.liveT t = m.liveT t ∧
    (DynamicPool.new size fixed packed ab fresh t m).2.2.fault = m.fault :=
  (C13.new_refused size ab fresh fixed packed t m h).2.2

theorem oversize_rejected (size ab fresh : Nat) (fixed packed : Bool) (t : Triple) (m : Mem) (h : pageLimit < size) :
    DynamicPool.new size fixed packed ab fresh t m = (.errInvalidCapacity, none, m) := by
  unfold DynamicPool.new
  rw [DynamicPool.pgLimit_eq]
  simp [h]

end CC.Properties.C06DynamicPool
