import CollectionsC.Properties.C02
import CollectionsC.Proofs.HashTableNamed
/-! # C06 (hash table / hash set part) — memory safety and leak freedom

`Mem.fault` is set by a bucket access outside the allocated slots, by following a dangling entry
pointer, or by a release with nothing owned.  `liveOf m tr` counts the blocks owned through the
allocator triple `tr`; a table owns `size + 2` blocks of its triple (header, bucket array, one per
entry), a set `size + 3`.  All statements hold for every hash function, threshold function, key,
allocator schedule and for both triples (configured allocator, C library).  The ledger precondition
`size + 2 ≤ liveOf m t.triple` is established by the constructor and re-established by every
operation (`owned_preserved`).  The hash API has no `destroy_cb`/`remove_all_cb`; its callbacks are
`foreach_key/value`. -/
set_option maxHeartbeats 800000
namespace CC.Properties.C06Hash
open CC CC.HT CC.Spec
open CC.Spec.Map (Op Out)

/-- (a) no call faults -/
theorem step_nofault (c : HCfg) (t : HashTable) (op : Op) (m : Mem) (h : t.Inv c) (hl : t.size + 2 ≤ liveOf m t.triple) :
    (t.step c op m).2.2.fault = m.fault :=
  (C02.step_refines c t op m t.abs h hl (List.Perm.refl _)).2.2.2.2

/-- … and no history does, from any state satisfying the invariant -/
theorem history_nofault (c : HCfg) (ops : List Op) (t : HashTable) (m : Mem) (h : t.Inv c) (hl : t.size + 2 ≤ liveOf m t.triple) :
    (t.run c ops m).2.2.2.fault = m.fault ∧ (t.run c ops m).2.2.1.Inv c :=
  ⟨(C02.history_refines c ops t m t.abs h hl (List.Perm.refl _)).2.2.2.2,
   (C02.history_refines c ops t m t.abs h hl (List.Perm.refl _)).2.2.1⟩

/-- (b) per call the change of the owned-block count is the change in the number of blocks the
table owns -/
theorem step_ledger (c : HCfg) (t : HashTable) (op : Op) (m : Mem) (h : t.Inv c) (hl : t.size + 2 ≤ liveOf m t.triple) :
    liveOf (t.step c op m).2.2 t.triple + (t.size + 2) = liveOf m t.triple + ((t.step c op m).2.1.size + 2) := by
  have := (C02.step_refines c t op m t.abs h hl (List.Perm.refl _)).2.2.2.1
  omega

theorem history_ledger (c : HCfg) (ops : List Op) (t : HashTable) (m : Mem) (h : t.Inv c) (hl : t.size + 2 ≤ liveOf m t.triple) :
    liveOf (t.run c ops m).2.2.2 t.triple + (t.size + 2) = liveOf m t.triple + ((t.run c ops m).2.2.1.size + 2) := by
  have := (C02.history_refines c ops t m t.abs h hl (List.Perm.refl _)).2.2.2.1
  omega

/-- the ledger precondition is an invariant of histories: it never has to be re-assumed -/
theorem owned_preserved (c : HCfg) (ops : List Op) (t : HashTable) (m : Mem) (h : t.Inv c) (hl : t.size + 2 ≤ liveOf m t.triple) :
    (t.run c ops m).2.2.1.size + 2 ≤ liveOf (t.run c ops m).2.2.2 (t.run c ops m).2.2.1.triple :=
  C02.history_keeps_owned c ops t m h hl

/-- `remove_all` releases exactly one block per entry and leaves an empty table of the same capacity -/
theorem remove_all_ledger (c : HCfg) (t : HashTable) (m : Mem) (h : t.Inv c) (hl : t.size ≤ liveOf m t.triple) :
    liveOf (t.removeAll m).2 t.triple = liveOf m t.triple - t.size ∧ (t.removeAll m).2.fault = m.fault ∧
    (t.removeAll m).1.abs = [] ∧ (t.removeAll m).1.size = 0 ∧ (t.removeAll m).1.Inv c := by
  obtain ⟨r1, r2, r3, _, _, r6, r7, _⟩ := HashTable.removeAll_spec c t m h hl
  exact ⟨r6, r7, r2, r3, r1⟩

/-- `destroy` releases every block the table owns -/
theorem destroy_ledger (c : HCfg) (t : HashTable) (m : Mem) (h : t.Inv c) (hl : t.size + 2 ≤ liveOf m t.triple) :
    liveOf (t.destroy m) t.triple = liveOf m t.triple - (t.size + 2) ∧ (t.destroy m).fault = m.fault :=
  HashTable.destroy_spec c t m h hl

/-- **`new … any history … destroy` returns the owned-block count to its initial value**, for every
refusal schedule and both triples, and nothing faults -/
theorem destroy_releases_all (c : HCfg) (cap : Nat) (tr : Triple) (m0 : Mem) (t0 : HashTable)
    (hnew : (HashTable.new c cap tr m0).2.1 = some t0) (ops : List Op) :
    liveOf ((t0.run c ops (HashTable.new c cap tr m0).2.2).2.2.1.destroy (t0.run c ops (HashTable.new c cap tr m0).2.2).2.2.2) tr = liveOf m0 tr ∧
    ((t0.run c ops (HashTable.new c cap tr m0).2.2).2.2.1.destroy (t0.run c ops (HashTable.new c cap tr m0).2.2).2.2.2).fault = m0.fault :=
  C02.lifecycle_leak_free c cap tr m0 t0 hnew ops

/-- … also with an iterator session (any program of `next`/`remove`) between two histories -/
theorem destroy_releases_all_mixed (c : HCfg) (cap : Nat) (tr : Triple) (m0 : Mem) (t0 : HashTable)
    (hnew : (HashTable.new c cap tr m0).2.1 = some t0) (ops₁ : List Op) (prog : List HashTable.IterOp) :
    let t₁ := (t0.run c ops₁ (HashTable.new c cap tr m0).2.2).2.2.1
    let m₁ := (t0.run c ops₁ (HashTable.new c cap tr m0).2.2).2.2.2
    let r := HashTable.iterRun c prog t₁ (t₁.iterInit m₁).1 m₁
    liveOf (r.2.1.destroy r.2.2.2) tr = liveOf m0 tr ∧ (r.2.1.destroy r.2.2.2).fault = m0.fault := by
  dsimp only
  obtain ⟨_, _, n3, n4, _⟩ := HashTable.new_spec c cap tr m0
  obtain ⟨_, q2, q3, q4, _, q6, q7⟩ := n3 t0 hnew
  have hl0 : t0.size + 2 ≤ liveOf (HashTable.new c cap tr m0).2.2 t0.triple := by rw [q7]; omega
  obtain ⟨_, _, a3, a4, a5⟩ := C02.history_refines c ops₁ t0 _ t0.abs q2 hl0 (List.Perm.refl _)
  have hl₁ := C02.history_keeps_owned c ops₁ t0 _ q2 hl0
  have hT₁ := HashTable.run_triple c ops₁ t0 (HashTable.new c cap tr m0).2.2
  obtain ⟨_, _, b3, _, b5, b6, b7⟩ := HashTable.iterRun_refines c prog _ _ _ _ a3
    (HashTable.iterInit_curRel c _ (t0.run c ops₁ (HashTable.new c cap tr m0).2.2).2.2.2 a3) hl₁
  obtain ⟨d1, d2⟩ := HashTable.destroy_spec c _
    (HashTable.iterRun c prog (t0.run c ops₁ (HashTable.new c cap tr m0).2.2).2.2.1
      ((t0.run c ops₁ (HashTable.new c cap tr m0).2.2).2.2.1.iterInit (t0.run c ops₁ (HashTable.new c cap tr m0).2.2).2.2.2).1
      (t0.run c ops₁ (HashTable.new c cap tr m0).2.2).2.2.2).2.2.2 b3 (by rw [b7]; omega)
  rw [b7] at d1
  have hTT := hT₁.trans q7
  rw [hTT] at d1 b6 hl₁
  rw [q7] at a4
  exact ⟨by omega, by rw [d2, b5, a5]; exact n4⟩

/-- a refused constructor leaks nothing -/
theorem new_refused_no_leak (c : HCfg) (cap : Nat) (tr : Triple) (m : Mem) (h : (HashTable.new c cap tr m).1 ≠ .ok) :
    (HashTable.new c cap tr m).2.1 = none ∧ liveOf (HashTable.new c cap tr m).2.2 tr = liveOf m tr ∧
    (HashTable.new c cap tr m).2.2.fault = m.fault :=
  ⟨((HashTable.new_spec c cap tr m).2.1 h).1, ((HashTable.new_spec c cap tr m).2.1 h).2, (HashTable.new_spec c cap tr m).2.2.2.1⟩

/-- `get_keys`/`get_values` on any table, empty or not: no fault; the ledger grows by the two blocks of
the returned array or not at all (an empty table is rejected before anything is allocated).  `hbig` is
`cc_array_new_conf`'s own byte-size guard, true in every address space. -/
theorem enumeration_nofault_ledger (c : HCfg) (t : HashTable) (m : Mem) (h : t.Inv c)
    (hbig : 8 * t.size ≤ Gen.CC_MAX_ELEMENTS) :
    (t.getKeys c m).2.2.fault = m.fault ∧ (t.getValues c m).2.2.fault = m.fault ∧
    ((t.getKeys c m).2.1 = none → liveOf (t.getKeys c m).2.2 t.triple = liveOf m t.triple) ∧
    (∀ a, (t.getKeys c m).2.1 = some a → liveOf (t.getKeys c m).2.2 t.triple = liveOf m t.triple + 2) ∧
    ((t.getValues c m).2.1 = none → liveOf (t.getValues c m).2.2 t.triple = liveOf m t.triple) ∧
    (∀ a, (t.getValues c m).2.1 = some a → liveOf (t.getValues c m).2.2 t.triple = liveOf m t.triple + 2) := by
  by_cases h0 : t.size = 0
  · obtain ⟨e1, e2⟩ := C02.enumeration_empty c t m h h0
    rw [e1, e2]
    refine ⟨rfl, rfl, fun _ => rfl, ?_, fun _ => rfl, ?_⟩ <;> intro a ha <;> simp at ha
  have hpos : 0 < t.size := by omega
  have hw := HashTable.walk_eq t h.2.1
  have hsz := h.2.2.1
  have k := (HashTable.collect_spec c t (t.walk.map (fun e => encKey e.key)) m h (by rw [hw, List.length_map]; omega) hbig).2 hpos
  have v := (HashTable.collect_spec c t (t.walk.map (·.value)) m h (by rw [hw, List.length_map]; omega) hbig).2 hpos
  refine ⟨k.2.2.2.1, v.2.2.2.1, ?_, fun a ha => (k.2.2.1 a ha).2.2.2.2.1, ?_, fun a ha => (v.2.2.1 a ha).2.2.2.2.1⟩
  · intro hn
    apply (k.2.1 ?_).2
    intro hok
    have := (HashTable.collect_ok_iff c t (t.walk.map (fun e => encKey e.key)) m).mp hok
    unfold HashTable.getKeys at hn
    rw [hn] at this; cases this
  · intro hn
    apply (v.2.1 ?_).2
    intro hok
    have := (HashTable.collect_ok_iff c t (t.walk.map (·.value)) m).mp hok
    unfold HashTable.getValues at hn
    rw [hn] at this; cases this

/-- iterator programs (any sequence of `next`/`remove`): no fault, and the ledger shrinks by
exactly the removed entries -/
theorem iter_nofault_ledger (c : HCfg) (t : HashTable) (m : Mem) (prog : List HashTable.IterOp) (h : t.Inv c)
    (hl : t.size + 2 ≤ liveOf m t.triple) :
    (HashTable.iterRun c prog t (t.iterInit m).1 m).2.2.2.fault = m.fault ∧
    liveOf (HashTable.iterRun c prog t (t.iterInit m).1 m).2.2.2 t.triple + t.size =
      liveOf m t.triple + (HashTable.iterRun c prog t (t.iterInit m).1 m).2.1.size ∧
    (t.iterInit m).2 = m := by
  obtain ⟨_, _, _, _, b5, b6, _⟩ := HashTable.iterRun_refines c prog t (t.iterInit m).1 m _ h (HashTable.iterInit_curRel c t m h) hl
  exact ⟨b5, b6, (HashTable.iterInit_spec c t m h).2.1⟩

/-- (c) the `foreach` callbacks receive every held key / value exactly once -/
theorem foreach_each_once (c : HCfg) (t : HashTable) (m : Mem) (h : t.Inv c) :
    (t.foreachKey m).1 = Map.keys t.abs ∧ (t.foreachValue m).1 = Map.vals t.abs ∧
    ((t.foreachKey m).1).Nodup ∧ (t.foreachKey m).2 = m ∧ (t.foreachValue m).2 = m := by
  obtain ⟨f1, f2, f3, f4⟩ := HashTable.foreach_refines c t m h
  exact ⟨f1, f3, by rw [f1]; exact C02.abs_wf c t h, f2, f4⟩

/-! ## hash set -/

theorem set_step_nofault (c : HCfg) (s : HashSet) (op : Set.Op) (m : Mem) (h : s.Inv c) (hl : s.size + 3 ≤ liveOf m s.triple) :
    (s.step c op m).2.2.fault = m.fault :=
  (C02.set_step_history c s op m s.abs h hl (List.Perm.refl _)).2.2.2.2

theorem set_step_ledger (c : HCfg) (s : HashSet) (op : Set.Op) (m : Mem) (h : s.Inv c) (hl : s.size + 3 ≤ liveOf m s.triple) :
    liveOf (s.step c op m).2.2 s.triple + (s.size + 3) = liveOf m s.triple + ((s.step c op m).2.1.size + 3) := by
  have := (C02.set_step_history c s op m s.abs h hl (List.Perm.refl _)).2.2.2.1
  omega

theorem set_history_nofault (c : HCfg) (ops : List Set.Op) (s : HashSet) (m : Mem) (h : s.Inv c) (hl : s.size + 3 ≤ liveOf m s.triple) :
    (s.run c ops m).2.2.2.fault = m.fault ∧
    liveOf (s.run c ops m).2.2.2 s.triple + (s.size + 3) = liveOf m s.triple + ((s.run c ops m).2.2.1.size + 3) := by
  obtain ⟨_, _, _, r4, r5⟩ := C02.set_history_refines c ops s m s.abs h hl (List.Perm.refl _)
  exact ⟨r5, by omega⟩

theorem set_destroy_ledger (c : HCfg) (s : HashSet) (m : Mem) (h : s.Inv c) (hl : s.size + 3 ≤ liveOf m s.triple) :
    liveOf (s.destroy m) s.triple = liveOf m s.triple - (s.size + 3) ∧ (s.destroy m).fault = m.fault :=
  HashSet.destroy_spec c s m h hl

/-- set life cycle: header, table header, bucket array and every entry are released exactly once -/
theorem set_destroy_releases_all (c : HCfg) (cap : Nat) (tr : Triple) (m0 : Mem) (s0 : HashSet)
    (hnew : (HashSet.new c cap tr m0).2.1 = some s0) (ops : List Set.Op) :
    liveOf ((s0.run c ops (HashSet.new c cap tr m0).2.2).2.2.1.destroy (s0.run c ops (HashSet.new c cap tr m0).2.2).2.2.2) tr = liveOf m0 tr ∧
    ((s0.run c ops (HashSet.new c cap tr m0).2.2).2.2.1.destroy (s0.run c ops (HashSet.new c cap tr m0).2.2).2.2.2).fault = m0.fault := by
  obtain ⟨_, _, n3, n4⟩ := HashSet.new_spec c cap tr m0
  obtain ⟨_, q2, q3, q4, q5⟩ := n3 s0 hnew
  have hsz : s0.size = 0 := by
    have := (C02.set_wf c s0 q2).2
    rw [q3] at this; simpa using this
  obtain ⟨_, _, r3, r4, r5⟩ := C02.set_history_refines c ops s0 (HashSet.new c cap tr m0).2.2 [] q2 (by rw [q5]; omega) (by rw [q3])
  have hT := (HashSet.run_triple c ops s0 (HashSet.new c cap tr m0).2.2).1
  rw [q5] at r4 hT
  obtain ⟨d1, d2⟩ := HashSet.destroy_spec c _ (s0.run c ops (HashSet.new c cap tr m0).2.2).2.2.2 r3 (by rw [hT]; omega)
  rw [hT] at d1
  exact ⟨by omega, by rw [d2, r5]; exact n4⟩

theorem set_new_refused_no_leak (c : HCfg) (cap : Nat) (tr : Triple) (m : Mem) (h : (HashSet.new c cap tr m).1 ≠ .ok) :
    (HashSet.new c cap tr m).2.1 = none ∧ liveOf (HashSet.new c cap tr m).2.2 tr = liveOf m tr ∧ (HashSet.new c cap tr m).2.2.fault = m.fault :=
  ⟨((HashSet.new_spec c cap tr m).2.1 h).1, ((HashSet.new_spec c cap tr m).2.1 h).2, (HashSet.new_spec c cap tr m).2.2.2⟩

/-- non-vacuity: a refused third allocation during the set constructor leaves `live` where it was;
a table on the C library owns its blocks there -/
example : (HashSet.new ⟨fun k => k, fun c => c, fun c => c * 2⟩ 4 .conf { live := 7, sched := [false, false, true] }).2.2.live = 7 := by decide
example : (HashTable.new ⟨fun k => k, fun c => c, fun c => c * 2⟩ 4 .libc { live := 7, sched := [true] }).2.2.liveLibc = 2 := by decide

end CC.Properties.C06Hash
