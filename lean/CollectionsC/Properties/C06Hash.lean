import CollectionsC.Properties.C02
import CollectionsC.Proofs.HashTableNamed
/-! # C06 (hash table / hash set part) — memory safety and leak freedom

`Mem.fault` is set by a bucket access outside the allocated slots, by following a dangling entry
pointer, or by a release with nothing live.  `Mem.live` counts the blocks owned through the
configured triple; a table owns `size + 2` blocks (header, bucket array, one per entry), a set
`size + 3`.  All statements hold for every hash function, threshold function, key and allocator
schedule.  The hash API has no `destroy_cb`/`remove_all_cb`; its callbacks are `foreach_key/value`. -/
set_option maxHeartbeats 800000
namespace CC.Properties.C06Hash
open CC CC.HT CC.Spec
open CC.Spec.Map (Op Out)

/-- (a) no call faults -/
theorem step_nofault (c : HCfg) (t : HashTable) (op : Op) (m : Mem) (h : t.Inv c) (hl : t.size + 2 ≤ m.live) :
    (t.step c op m).2.2.fault = m.fault :=
  (C02.step_refines c t op m t.abs h hl (List.Perm.refl _)).2.2.2.2

/-- … and no history does, from any state satisfying the invariant -/
theorem history_nofault (c : HCfg) (ops : List Op) (t : HashTable) (m : Mem) (h : t.Inv c) (hl : t.size + 2 ≤ m.live) :
    (t.run c ops m).2.2.2.fault = m.fault ∧ (t.run c ops m).2.2.1.Inv c :=
  ⟨(C02.history_refines c ops t m t.abs h hl (List.Perm.refl _)).2.2.2.2,
   (C02.history_refines c ops t m t.abs h hl (List.Perm.refl _)).2.2.1⟩

/-- (b) per call the change of `live` is the change in the number of blocks the table owns -/
theorem step_ledger (c : HCfg) (t : HashTable) (op : Op) (m : Mem) (h : t.Inv c) (hl : t.size + 2 ≤ m.live) :
    (t.step c op m).2.2.live + (t.size + 2) = m.live + ((t.step c op m).2.1.size + 2) := by
  have := (C02.step_refines c t op m t.abs h hl (List.Perm.refl _)).2.2.2.1
  omega

theorem history_ledger (c : HCfg) (ops : List Op) (t : HashTable) (m : Mem) (h : t.Inv c) (hl : t.size + 2 ≤ m.live) :
    (t.run c ops m).2.2.2.live + (t.size + 2) = m.live + ((t.run c ops m).2.2.1.size + 2) := by
  have := (C02.history_refines c ops t m t.abs h hl (List.Perm.refl _)).2.2.2.1
  omega

/-- `remove_all` releases exactly one block per entry and leaves an empty table of the same capacity -/
theorem remove_all_ledger (c : HCfg) (t : HashTable) (m : Mem) (h : t.Inv c) (hl : t.size ≤ m.live) :
    (t.removeAll m).2.live = m.live - t.size ∧ (t.removeAll m).2.fault = m.fault ∧
    (t.removeAll m).1.abs = [] ∧ (t.removeAll m).1.size = 0 ∧ (t.removeAll m).1.Inv c := by
  obtain ⟨r1, r2, r3, _, _, r6, r7⟩ := HashTable.removeAll_spec c t m h hl
  exact ⟨r6, r7, r2, r3, r1⟩

/-- `destroy` releases every block the table owns -/
theorem destroy_ledger (c : HCfg) (t : HashTable) (m : Mem) (h : t.Inv c) (hl : t.size + 2 ≤ m.live) :
    (t.destroy m).live = m.live - (t.size + 2) ∧ (t.destroy m).fault = m.fault :=
  HashTable.destroy_spec c t m h hl

/-- **`new … any history … destroy` returns `live` to its initial value**, for every refusal
schedule, and nothing faults -/
theorem destroy_releases_all (c : HCfg) (cap : Nat) (m0 : Mem) (t0 : HashTable)
    (hnew : (HashTable.new c cap m0).2.1 = some t0) (ops : List Op) :
    ((t0.run c ops (HashTable.new c cap m0).2.2).2.2.1.destroy (t0.run c ops (HashTable.new c cap m0).2.2).2.2.2).live = m0.live ∧
    ((t0.run c ops (HashTable.new c cap m0).2.2).2.2.1.destroy (t0.run c ops (HashTable.new c cap m0).2.2).2.2.2).fault = m0.fault :=
  C02.lifecycle_leak_free c cap m0 t0 hnew ops

/-- a refused constructor leaks nothing -/
theorem new_refused_no_leak (c : HCfg) (cap : Nat) (m : Mem) (h : (HashTable.new c cap m).1 ≠ .ok) :
    (HashTable.new c cap m).2.1 = none ∧ (HashTable.new c cap m).2.2.live = m.live ∧
    (HashTable.new c cap m).2.2.fault = m.fault :=
  ⟨((HashTable.new_spec c cap m).2.1 h).1, ((HashTable.new_spec c cap m).2.1 h).2, (HashTable.new_spec c cap m).2.2.2.1⟩

/-- `get_keys`/`get_values`: no fault; the ledger grows by the two blocks of the returned array or
not at all -/
theorem enumeration_nofault_ledger (c : HCfg) (t : HashTable) (m : Mem) (h : t.Inv c) (hpos : 0 < t.size)
    (hbig : 3 * t.size ≤ Gen.CC_MAX_ELEMENTS) :
    (t.getKeys c m).2.2.fault = m.fault ∧ (t.getValues c m).2.2.fault = m.fault ∧
    ((t.getKeys c m).2.1 = none → (t.getKeys c m).2.2.live = m.live) ∧
    (∀ a, (t.getKeys c m).2.1 = some a → (t.getKeys c m).2.2.live = m.live + 2) := by
  have hw := HashTable.walk_eq t h.2.1
  have hsz := h.2.2.1
  have k := (HashTable.collect_spec c t (t.walk.map (fun e => encKey e.key)) m h (by rw [hw, List.length_map]; omega) hbig).2 hpos
  have v := (HashTable.collect_spec c t (t.walk.map (·.value)) m h (by rw [hw, List.length_map]; omega) hbig).2 hpos
  refine ⟨k.2.2.2.1, v.2.2.2.1, ?_, fun a ha => (k.2.2.1 a ha).2.2.2.2⟩
  intro hn
  apply (k.2.1 ?_).2
  intro hok
  have := (HashTable.collect_ok_iff c t (t.walk.map (fun e => encKey e.key)) m).mp hok
  unfold HashTable.getKeys at hn
  rw [hn] at this; cases this

/-- iterator programs: no fault, and the ledger shrinks by exactly the removed entries -/
theorem iter_nofault_ledger (c : HCfg) (t : HashTable) (m : Mem) (bs : List Bool) (h : t.Inv c) (hl : t.size + 2 ≤ m.live) :
    (HashTable.drive c bs t (t.iterInit m).1 m).2.2.2.fault = m.fault ∧
    (HashTable.drive c bs t (t.iterInit m).1 m).2.2.2.live + (HashTable.removedKeys t.buckets.flatten bs).length = m.live ∧
    (HashTable.drive c bs t (t.iterInit m).1 m).2.1.size + (HashTable.removedKeys t.buckets.flatten bs).length = t.size ∧
    (t.iterInit m).2 = m := by
  obtain ⟨i1, i2, _⟩ := HashTable.iterInit_spec c t m h
  obtain ⟨_, _, _, _, d5, d6, d7⟩ := HashTable.drive_spec c bs t (t.iterInit m).1 m t.buckets.flatten h i1 h.2.2.2.2.1 hl
  exact ⟨d5, d6, d7, i2⟩

/-- (c) the `foreach` callbacks receive every held key / value exactly once -/
theorem foreach_each_once (c : HCfg) (t : HashTable) (m : Mem) (h : t.Inv c) :
    (t.foreachKey m).1 = Map.keys t.abs ∧ (t.foreachValue m).1 = Map.vals t.abs ∧
    ((t.foreachKey m).1).Nodup ∧ (t.foreachKey m).2 = m ∧ (t.foreachValue m).2 = m := by
  obtain ⟨f1, f2, f3, f4⟩ := HashTable.foreach_refines c t m h
  exact ⟨f1, f3, by rw [f1]; exact C02.abs_wf c t h, f2, f4⟩

/-! ## hash set -/

theorem set_step_nofault (c : HCfg) (s : HashSet) (op : Set.Op) (m : Mem) (h : s.Inv c) (hl : s.size + 3 ≤ m.live) :
    (s.step c op m).2.2.fault = m.fault :=
  (C02.set_step_history c s op m s.abs h hl (List.Perm.refl _)).2.2.2.2

theorem set_step_ledger (c : HCfg) (s : HashSet) (op : Set.Op) (m : Mem) (h : s.Inv c) (hl : s.size + 3 ≤ m.live) :
    (s.step c op m).2.2.live + (s.size + 3) = m.live + ((s.step c op m).2.1.size + 3) := by
  have := (C02.set_step_history c s op m s.abs h hl (List.Perm.refl _)).2.2.2.1
  omega

theorem set_history_nofault (c : HCfg) (ops : List Set.Op) (s : HashSet) (m : Mem) (h : s.Inv c) (hl : s.size + 3 ≤ m.live) :
    (s.run c ops m).2.2.2.fault = m.fault ∧
    (s.run c ops m).2.2.2.live + (s.size + 3) = m.live + ((s.run c ops m).2.2.1.size + 3) := by
  obtain ⟨_, _, _, r4, r5⟩ := C02.set_history_refines c ops s m s.abs h hl (List.Perm.refl _)
  exact ⟨r5, by omega⟩

theorem set_destroy_ledger (c : HCfg) (s : HashSet) (m : Mem) (h : s.Inv c) (hl : s.size + 3 ≤ m.live) :
    (s.destroy m).live = m.live - (s.size + 3) ∧ (s.destroy m).fault = m.fault :=
  HashSet.destroy_spec c s m h hl

/-- set life cycle: header, table header, bucket array and every entry are released exactly once -/
theorem set_destroy_releases_all (c : HCfg) (cap : Nat) (m0 : Mem) (s0 : HashSet)
    (hnew : (HashSet.new c cap m0).2.1 = some s0) (ops : List Set.Op) :
    ((s0.run c ops (HashSet.new c cap m0).2.2).2.2.1.destroy (s0.run c ops (HashSet.new c cap m0).2.2).2.2.2).live = m0.live ∧
    ((s0.run c ops (HashSet.new c cap m0).2.2).2.2.1.destroy (s0.run c ops (HashSet.new c cap m0).2.2).2.2.2).fault = m0.fault := by
  obtain ⟨_, _, n3, n4⟩ := HashSet.new_spec c cap m0
  obtain ⟨_, q2, q3, q4⟩ := n3 s0 hnew
  have hsz : s0.size = 0 := by
    have := (C02.set_wf c s0 q2).2
    rw [q3] at this; simpa using this
  obtain ⟨_, _, r3, r4, r5⟩ := C02.set_history_refines c ops s0 (HashSet.new c cap m0).2.2 [] q2 (by omega) (by rw [q3])
  obtain ⟨d1, d2⟩ := HashSet.destroy_spec c _ (s0.run c ops (HashSet.new c cap m0).2.2).2.2.2 r3 (by omega)
  exact ⟨by omega, by rw [d2, r5]; exact n4⟩

theorem set_new_refused_no_leak (c : HCfg) (cap : Nat) (m : Mem) (h : (HashSet.new c cap m).1 ≠ .ok) :
    (HashSet.new c cap m).2.1 = none ∧ (HashSet.new c cap m).2.2.live = m.live ∧ (HashSet.new c cap m).2.2.fault = m.fault :=
  ⟨((HashSet.new_spec c cap m).2.1 h).1, ((HashSet.new_spec c cap m).2.1 h).2, (HashSet.new_spec c cap m).2.2.2⟩

/-- non-vacuity: a refused third allocation during the set constructor leaves `live` where it was -/
example : (HashSet.new ⟨fun k => k, fun c => c, fun c => c * 2⟩ 4 { live := 7, sched := [false, false, true] }).2.2.live = 7 := by decide

end CC.Properties.C06Hash
