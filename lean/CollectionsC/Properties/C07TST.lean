import CollectionsC.Properties.C11
import CollectionsC.Proofs.TSTCross
/-! # C07 (TST table part): the iterator

The model iterator is the C pointer automaton (`Model/TST.lean`: `iterStep`, `iterLoop`, fields
`cur / next / adv / nextStat` = `current_node / next_node / advanced_on_remove / next_stat`, node
addresses as paths).  Enumeration order is the trie's first-arrival pre-order, i.e. a permutation of
the map's pairs.  Theorems that speak about *keys* need stored key = spelled key (`Good`, broken only
by the empty key, X5), hence `_partial`.  Since the repair X7 a repeated `iter_remove` is rejected, so
the program theorems quantify over **all** call sequences. -/
namespace CC.Properties.C07TST
open CC CC.TST
open CC.Spec (StrMap)
open CC.Spec.StrMap (IOp IOut Cursor)

variable {cmp : Cmp}

/-- **traversal_complete**: a fresh iterator and `size + 1` calls of `iter_next` yield exactly the stored
pairs, each once, then `CC_ITER_END`; the table and the ledger are untouched.  Holds for every tree
shape (single marked root, deep chains, after removals …). -/
theorem traversal_complete (t : Table) (mem : Mem) (hs : t.size = t.root.marked) :
    (t.iterRun cmp (iterInit t) (List.replicate (t.size + 1) .next) mem).1 =
      t.abs.items.map (fun e => ({ st := .ok, key := some e.1, val := some e.2 } : IOut)) ++ [{ st := .iterEnd }] ∧
    (t.iterRun cmp (iterInit t) (List.replicate (t.size + 1) .next) mem).2.1 = t ∧
    (t.iterRun cmp (iterInit t) (List.replicate (t.size + 1) .next) mem).2.2.2 = mem := by
  have h := iterRun_nexts (cmp := cmp) t mem t.root.entriesP (iterInit t) (Or.inl ⟨rfl, iterInit_at t⟩)
  rw [entriesP_length, ← hs] at h
  refine ⟨?_, h.2.1, h.2.2⟩
  rw [h.1]
  simp only [Table.abs, ← entriesP_map_snd, List.map_map]
  rfl

/-- the same from the invariant (`Good` contains `size = number of marked nodes`) -/
theorem traversal_complete_of_inv (t : Table) (mem : Mem) (hi : t.Inv cmp) :
    (t.iterRun cmp (iterInit t) (List.replicate (t.size + 1) .next) mem).1 =
      t.abs.items.map (fun e => ({ st := .ok, key := some e.1, val := some e.2 } : IOut)) ++ [{ st := .iterEnd }] :=
  (traversal_complete t mem hi.1).1

/-- the yielded pairs are a permutation of the ideal map's pairs, with pairwise distinct keys -/
theorem traversal_is_permutation_partial (hc : CmpLaw cmp) (t : Table) (s : StrMap) (hg : t.Good cmp)
    (hr : C11.Rel t s) : t.abs.items.Perm s.items ∧ (t.abs.items.map (·.1)).Nodup :=
  ⟨(C11.rel_perm hc t s hg hr).symm, abs_wf hc t hg.1.2.2 hg.2⟩

/-- after the end the iterator keeps reporting the end -/
theorem end_is_sticky (t : Table) (it : Iter) (mem : Mem) (h : IterOk t.root it []) :
    (iterNext t it mem).st = .iterEnd ∧ IterOk t.root (iterNext t it mem).it [] :=
  ⟨(iterNext_ok t it mem [] h).2.2.1, (iterNext_ok t it mem [] h).2.2.2.2.1⟩

/-- **`iter_remove` right after a yield affects exactly that element**: the yielded key is removed from
the map, no other key changes, and the following calls yield precisely the entries that were still
to come (`todo` is unchanged), although the node and its empty ancestors were freed. -/
theorem remove_affects_only_yielded_partial (hc : CmpLaw cmp) (t : Table) (it : Iter) (w : Bool) (mem : Mem)
    (todo : List (Path × Entry)) (p : Path) (e : Entry) (hg : t.Good cmp) (hl : t.Owns mem)
    (hat : IterAt t.root it todo) (hadv : it.adv = false) (hcur : it.cur = some p)
    (hd : (t.root.sub p).data? = some e) :
    (iterRemove t it w mem).1 = .ok ∧ (iterRemove t it w mem).2.1 = some e.2 ∧
    (∀ k, (iterRemove t it w mem).2.2.1.abs.get k = if k = e.1 then none else t.abs.get k) ∧
    IterOk (iterRemove t it w mem).2.2.1.root (iterRemove t it w mem).2.2.2.1 todo ∧
    (iterRemove t it w mem).2.2.1.Good cmp := by
  have h := Table.iterRemove_spec hc t it w mem todo p e hg hl hat hadv hcur hd
  refine ⟨h.1, h.2.1, ?_, h.2.2.2.2.2.2.2.1, h.2.2.1⟩
  intro k; rw [h.2.2.2.1 k, SpecLemmas.get_remove]

/-- **program_refines**: *every* sequence of `iter_next` / `iter_remove` / `get` / `contains_key` / `size`
calls after `iter_init` simulates the ideal cursor (same statuses and values, every yielded key was
still pending, final content = ideal map, END exactly when nothing is pending); the table keeps its
invariant and the exact ledger (`StructOK`), so the session can be followed by any history
(`C11.history_refines_partial` has `Op.iterate` for exactly that). -/
theorem program_refines_partial (hc : CmpLaw cmp) (ops : List IOp) (hk : ∀ op ∈ ops, [] ∉ op.keys)
    (t : Table) (s : StrMap) (mem : Mem) (hg : t.Good cmp) (hl : t.Owns mem) (hr : C11.Rel t s) :
    (t.iterRun cmp (iterInit t) ops mem).1 =
      (s.cursorRun (StrMap.cursorNew s) (C11.iterChoices cmp t (iterInit t) ops mem)).1.map (·.1) ∧
    (∀ x ∈ (s.cursorRun (StrMap.cursorNew s) (C11.iterChoices cmp t (iterInit t) ops mem)).1, x.2 = true) ∧
    C11.Rel (t.iterRun cmp (iterInit t) ops mem).2.1
      (s.cursorRun (StrMap.cursorNew s) (C11.iterChoices cmp t (iterInit t) ops mem)).2.1 ∧
    (t.iterRun cmp (iterInit t) ops mem).2.1.Good cmp ∧
    (t.iterRun cmp (iterInit t) ops mem).2.1.Owns (t.iterRun cmp (iterInit t) ops mem).2.2.2 ∧
    StructOK cmp t mem (t.iterRun cmp (iterInit t) ops mem).2.1 (t.iterRun cmp (iterInit t) ops mem).2.2.2 := by
  obtain ⟨h1, h2, h3, h4, h5⟩ := C11.iter_init_program_refines_partial hc ops hk t s mem hg hl hr
  exact ⟨h1, h2, h3, h4, h5.owns hl, h5⟩

/-- `iter_remove` with nothing yielded (before the first `iter_next`, after the end) or repeated for the
same yielded element (X7): not found, inert -/
theorem remove_without_yield_inert (t : Table) (it : Iter) (w : Bool) (mem : Mem)
    (h : it.cur = none ∨ it.adv = true) :
    iterRemove t it w mem = (.errKeyNotFound, none, t, it, mem) := iterRemove_inert t it w mem h

/-! non-vacuity: a session on the nested-prefix table — yield, remove, repeated remove (rejected),
query, two more yields, end -/
example :
    (C11.nestedTable.iterRun cmpSigned (iterInit C11.nestedTable)
        [.next, .remove true, .remove true, .get [97], .next, .next, .next] { live := 7 }).1 =
      [{ st := .ok, key := some [97], val := some 1 }, { st := .ok, val := some 1 }, { st := .errKeyNotFound },
       { st := .errKeyNotFound }, { st := .ok, key := some [128], val := some 3 },
       { st := .ok, key := some [97, 98], val := some 2 }, { st := .iterEnd }] := by
  decide

end CC.Properties.C07TST
