import CollectionsC.Proofs.StackMem
import CollectionsC.Properties.C01
/-! # C09 (stack half) — `CC_Stack` is LIFO

Statements only (helpers: `Proofs/Stack.lean`, `Proofs/Array*.lean`).  Concrete model `CC.Stack`
(`Model/Stack.lean`): a header block around the array model, every function forwarding exactly as
`src/cc_stack.c` does (`push = cc_array_add`, `pop = cc_array_remove_last`,
`peek = cc_array_get_last`).  Abstract spec: the ideal list with the top of the stack at its end.

Quantifiers: every stack state satisfying the invariant, every element, every push/pop/peek/size
interleaving of any length (hence across any number of growth steps), every initial capacity the
constructor accepts, every growth function, every allocator schedule, both allocator triples; no
hypothesis on the ledger.  Whole traversals (iterator, zip, map, filter) are `C07Stack`. -/
namespace CC.Properties.C09Stack
open CC
open CC.Spec.Seq (SOp Out)

/-- one push/pop/peek/size call refines the ideal stack (which is told whether a push was blocked);
an erroring call — pop/peek on the empty stack, a blocked push — leaves the whole state unchanged -/
theorem step_refines (s : Stack) (op : SOp) (m : Mem) (hinv : s.Inv) :
    (s.step op m).1 = (Spec.Seq.sstep s.abs op (s.step op m).1.blocked).1 ∧
    (s.step op m).2.1.abs = (Spec.Seq.sstep s.abs op (s.step op m).1.blocked).2 ∧
    (s.step op m).2.1.v.grow = s.v.grow ∧
    (s.step op m).2.1.Inv ∧
    (s.step op m).2.2.live = m.live ∧ (s.step op m).2.2.fault = m.fault ∧
    (∀ st, (s.step op m).1.st = some st → st ≠ .ok → (s.step op m).2.1.v = s.v) := by
  cases op with
  | push x =>
    obtain ⟨sp, sl, sf⟩ := Arr.add_spec s.v x m hinv
    simp only [Stack.step, Stack.push, Spec.Seq.sstep, Arr.blocked_mk, Stack.abs, Stack.Inv]
    rcases sp with ⟨ok, habs, hg⟩ | ⟨hb, hsame⟩
    · simp only [ok, Spec.Seq.push, Spec.Seq.add]
      refine ⟨by simp, by simpa using habs, hg.2.2.2.2, hg.inv hinv, sl, sf, fun st h1 h2 => ?_⟩
      simp at h1; exact absurd h1.symm h2
    · rcases hb.1 with ⟨h, _⟩ | ⟨h, _⟩ <;>
      · simp only [h, hsame]
        exact ⟨by simp, by simp, by triv, hinv, sl, sf, fun _ _ _ => by triv⟩
  | pop =>
    obtain ⟨r1, r2, r3, r4, r5, r6, r7, r8, r9⟩ := Arr.removeLast_spec s.v m hinv
    simp only [Stack.step, Stack.pop, Spec.Seq.sstep, Spec.Seq.pop, Stack.abs, Stack.Inv]
    refine ⟨by rw [r1, r2], r3, r4.2.2, r4.inv hinv r5, by rw [r6], by rw [r6], fun st h1 h2 => ?_⟩
    simp only [Option.some.injEq] at h1
    exact r7 (by rw [h1]; exact h2)
  | peek =>
    obtain ⟨r1, r2, r3, r4⟩ := Arr.getLast_spec s.v m hinv
    simp only [Stack.step, Stack.peek, Spec.Seq.sstep, Spec.Seq.peek, Stack.abs]
    exact ⟨by rw [r1, r2], by triv, by triv, hinv, by rw [r3], by rw [r3], fun _ _ _ => by triv⟩
  | size =>
    simp only [Stack.step, Spec.Seq.sstep, Stack.size, Stack.abs]
    exact ⟨by simp, by triv, by triv, hinv, by triv, by triv, fun _ _ _ => by triv⟩

/-- **C09, all interleavings**: any push/pop/peek/size history on the concrete stack reports exactly
what the ideal LIFO list reports and ends with the same content -/
theorem history_refines (ops : List SOp) (s : Stack) (m : Mem) (hinv : s.Inv) :
    (s.run ops m).1 = (Spec.Seq.srun s.abs ops ((s.run ops m).1.map Out.blocked)).1 ∧
    (s.run ops m).2.1.abs = (Spec.Seq.srun s.abs ops ((s.run ops m).1.map Out.blocked)).2 ∧
    (s.run ops m).2.1.Inv ∧ (s.run ops m).2.2.live = m.live ∧ (s.run ops m).2.2.fault = m.fault := by
  induction ops generalizing s m with
  | nil => exact ⟨rfl, rfl, hinv, rfl, rfl⟩
  | cons op ops ih =>
    obtain ⟨s1, s2, s3, s4, s5, s6, _⟩ := step_refines s op m hinv
    obtain ⟨i1, i2, i3, i5, i6⟩ := ih (s.step op m).2.1 (s.step op m).2.2 s4
    simp only [Stack.run, Spec.Seq.srun, List.map_cons, List.headD_cons, List.tail_cons]
    rw [← s2]
    exact ⟨by rw [← i1, ← s1], i2, i3, by rw [i5, s5], by rw [i6, s6]⟩

/-- a push succeeds whenever the allocator does not refuse and the array is not at its capacity limit
(`Arr.AtLimit`: the requested capacity would need more than `CC_MAX_ELEMENTS` bytes — reachable only
with a growth function that overshoots; `C01.not_atLimit` discharges it for ordinary factors) -/
theorem push_succeeds (s : Stack) (x : Nat) (m : Mem) (hinv : s.Inv)
    (halloc : s.v.size = s.v.capacity → (m.allocT s.v.triple).1 = true) (hmax : ¬ s.v.AtLimit) :
    (s.push x m).1 = .ok ∧ (s.push x m).2.1.abs = s.abs ++ [x] := by
  rcases (Arr.add_spec s.v x m hinv).1 with ⟨ok, habs, _⟩ | ⟨⟨hb, hfull⟩, _⟩
  · exact ⟨ok, habs⟩
  · rcases hb with ⟨_, h⟩ | ⟨_, h⟩
    · rw [halloc hfull] at h; simp at h
    · exact absurd h hmax

/-- the `blocked` oracle of the refinement theorems pinned down: a push fails only on a full stack,
with `CC_ERR_ALLOC` only when the allocator refused the request, with `CC_ERR_MAX_CAPACITY` only at
the capacity limit; pop, peek and size are never blocked -/
theorem push_blocked_only_if (s : Stack) (x : Nat) (m : Mem) (hinv : s.Inv) (h : (s.push x m).1 ≠ .ok) :
    s.v.size = s.v.capacity ∧
    (((s.push x m).1 = .errAlloc ∧ (m.allocT s.v.triple).1 = false) ∨
     ((s.push x m).1 = .errMaxCapacity ∧ s.v.AtLimit)) := by
  rcases (Arr.add_spec s.v x m hinv).1 with ⟨ok, _⟩ | ⟨⟨hb, hf⟩, _⟩
  · exact absurd ok h
  · exact ⟨hf, hb⟩

/-! ## LIFO in its own vocabulary (the ideal stack) -/

/-- pop returns the most recently pushed element and restores the stack before that push -/
theorem spec_pop_push (xs : List Nat) (x : Nat) :
    Spec.Seq.pop (Spec.Seq.push xs x).2 = (.ok, some x, xs) := by
  simp [Spec.Seq.pop, Spec.Seq.push, Spec.Seq.add, Spec.Seq.removeLast]

/-- peek returns that same element without removing it -/
theorem spec_peek_push (xs : List Nat) (x : Nat) :
    Spec.Seq.peek (Spec.Seq.push xs x).2 = (.ok, some x) := by
  simp [Spec.Seq.peek, Spec.Seq.push, Spec.Seq.add, Spec.Seq.getLast]

/-- peek and pop agree on the element, and peek changes nothing -/
theorem spec_peek_eq_pop (xs : List Nat) : (Spec.Seq.peek xs).2 = (Spec.Seq.pop xs).2.1 ∧
    ((Spec.Seq.peek xs).1 = .ok ↔ (Spec.Seq.pop xs).1 = .ok) := by
  unfold Spec.Seq.peek Spec.Seq.pop Spec.Seq.getLast Spec.Seq.removeLast
  by_cases h : xs = [] <;> simp [h]

/-- pop/peek on the empty stack report an error and change nothing -/
theorem spec_empty : (Spec.Seq.pop []).1 ≠ .ok ∧ (Spec.Seq.pop []).2.2 = [] ∧ (Spec.Seq.peek []).1 ≠ .ok := by
  simp [Spec.Seq.pop, Spec.Seq.removeLast, Spec.Seq.peek, Spec.Seq.getLast]

/-- in the concrete model the whole state is unchanged as well -/
theorem pop_empty_inert (s : Stack) (m : Mem) (hinv : s.Inv) (h : s.abs = []) :
    (s.pop m).1 ≠ .ok ∧ (s.pop m).2.2.1.v = s.v ∧ (s.pop m).2.2.2 = m := by
  obtain ⟨r1, r2, r3, r4, r5, r6, r7, r8, r9⟩ := Arr.removeLast_spec s.v m hinv
  have h0 : ¬ 0 < s.v.size := by rw [(Arr.abs_eq_nil_iff s.v).1 h]; omega
  have hne : (s.v.removeLast m).1 ≠ .ok := fun hk => h0 (r8.1 hk)
  exact ⟨hne, r7 hne, r6⟩

/-- size = pushes − successful pops: every step changes the length by exactly its effect -/
theorem spec_size (xs : List Nat) (op : SOp) :
    ((Spec.Seq.sstep xs op none).2.length : Int) = xs.length +
      (match op with
       | .push _ => 1
       | .pop => if (Spec.Seq.sstep xs op none).1.st = some .ok then -1 else 0
       | _ => 0) := by
  cases op with
  | push x => simp [Spec.Seq.sstep, Spec.Seq.push, Spec.Seq.add]
  | pop =>
    simp only [Spec.Seq.sstep, Spec.Seq.pop, Spec.Seq.removeLast]
    by_cases h : xs = []
    · simp [h]
    · have : 0 < xs.length := List.length_pos_iff.2 h
      simp [h]; omega
  | peek => simp [Spec.Seq.sstep]
  | size => simp [Spec.Seq.sstep]

/-! ## Iteration, zip iteration, map and filter observe exactly the live elements -/

/-- a fresh stack iterator is the ideal cursor with everything still to visit, and
`cc_stack_iter_next` yields the next unvisited element bottom-to-top, ending exactly when none is left -/
theorem iter_next_sim (s : Stack) (it : ArrIter) (c : Spec.Seq.Cursor) (m : Mem) (hinv : s.Inv)
    (hs : Arr.Sim s.v it c) :
    (s.iterNext it m).1 = c.next.1 ∧ (s.iterNext it m).2.1 = c.next.2.1 ∧
    Arr.Sim s.v (s.iterNext it m).2.2.1 c.next.2.2 ∧ (s.iterNext it m).2.2.2 = m :=
  Arr.iterNext_sim s.v it c m hinv hs

theorem iter_init (s : Stack) : Arr.Sim s.v {} { done := [], todo := s.abs, removed := false } := Arr.sim_init s.v

/-- `cc_stack_iter_replace` replaces exactly the element yielded last -/
theorem iter_replace_sim (s : Stack) (it : ArrIter) (c : Spec.Seq.Cursor) (x : Nat) (m : Mem) (hinv : s.Inv)
    (hs : Arr.Sim s.v it c) :
    (s.iterReplace it x m).1 = (c.replace x).1 ∧ (s.iterReplace it x m).2.1 = (c.replace x).2.1 ∧
    Arr.Sim (s.iterReplace it x m).2.2.1.v it (c.replace x).2.2 ∧ (s.iterReplace it x m).2.2.2 = m := by
  obtain ⟨r1, r2, r3, _, _, r6, _⟩ := Arr.iterReplace_sim s.v it c x m hinv hs
  exact ⟨r1, r2, r3, r6⟩

/-- zip iteration advances two stacks in lock-step and stops at the shorter one -/
theorem zip_next_sim (s1 s2 : Stack) (it : ArrIter) (z : Spec.Seq.ZipCursor) (m : Mem) (h1 : s1.Inv) (h2 : s2.Inv)
    (hs : Arr.ZSim s1.v s2.v it z) :
    (Stack.zipNext s1 s2 it m).1 = z.next.1 ∧ (Stack.zipNext s1 s2 it m).2.1 = z.next.2.1 ∧
    Arr.ZSim s1.v s2.v (Stack.zipNext s1 s2 it m).2.2.1 z.next.2.2 ∧ (Stack.zipNext s1 s2 it m).2.2.2 = m :=
  Arr.zipNext_sim s1.v s2.v it z m h1 h2 hs

theorem zip_replace_sim (s1 s2 : Stack) (it : ArrIter) (z : Spec.Seq.ZipCursor) (x y : Nat) (m : Mem)
    (h1 : s1.Inv) (h2 : s2.Inv) (hs : Arr.ZSim s1.v s2.v it z) :
    (Stack.zipReplace s1 s2 it x y m).1 = (z.replace x y).1 ∧
    (Stack.zipReplace s1 s2 it x y m).2.1 = (z.replace x y).2.1 ∧
    Arr.ZSim (Stack.zipReplace s1 s2 it x y m).2.2.1.v (Stack.zipReplace s1 s2 it x y m).2.2.2.1.v it (z.replace x y).2.2 ∧
    (Stack.zipReplace s1 s2 it x y m).2.2.2.2 = m := by
  obtain ⟨r1, r2, r3, _, _, _, _, r8, _⟩ := Arr.zipReplace_sim s1.v s2.v it z x y m h1 h2 hs
  exact ⟨r1, r2, r3, r8⟩

/-- `cc_stack_map` visits exactly the live elements, bottom to top -/
theorem map_visits_content (s : Stack) (m : Mem) (hinv : s.Inv) : (s.map m).1 = s.abs ∧ (s.map m).2 = m :=
  Arr.map_spec s.v m hinv

/-- `cc_stack_filter_mut` keeps exactly the live elements satisfying the predicate -/
theorem filter_mut_refines (p : Nat → Bool) (s : Stack) (m : Mem) (hinv : s.Inv) :
    (s.filterMut p m).1 = (Spec.Seq.filterMut p s.abs).1 ∧
    (s.filterMut p m).2.1.abs = (Spec.Seq.filterMut p s.abs).2 ∧ (s.filterMut p m).2.1.Inv ∧
    (s.filterMut p m).2.2.2 = m := by
  obtain ⟨r1, r2, r3, r4, r5, _⟩ := Arr.filterMut_spec p s.v m hinv
  exact ⟨r1, r2, r3.inv hinv r4, r5⟩

/-- `cc_stack_filter` builds a stack of exactly the live elements satisfying the predicate (same
order), or — empty source, or any refusal on the way — no object with a balanced ledger -/
theorem filter_refines (p : Nat → Bool) (s : Stack) (dgrow : Nat → Nat) (dexGe : Nat → Bool) (m : Mem)
    (hinv : s.Inv) :
    ((s.filter p dgrow dexGe m).1 = .errOutOfRange ∧ s.abs = [] ∧ (s.filter p dgrow dexGe m).2.1 = none ∧
      (s.filter p dgrow dexGe m).2.2.2 = m) ∨
    (((s.filter p dgrow dexGe m).1 = .errAlloc ∨ (s.filter p dgrow dexGe m).1 = .errMaxCapacity ∨
        (s.filter p dgrow dexGe m).1 = .errInvalidCapacity) ∧ s.abs ≠ [] ∧
      (s.filter p dgrow dexGe m).2.1 = none ∧
      Arr.own s.triple (s.filter p dgrow dexGe m).2.2.2 = Arr.own s.triple m ∧ (s.filter p dgrow dexGe m).2.2.2.fault = m.fault) ∨
    ((s.filter p dgrow dexGe m).1 = .ok ∧ s.abs ≠ [] ∧
      ∃ r, (s.filter p dgrow dexGe m).2.1 = some r ∧ r.abs = s.abs.filter p ∧ r.Inv ∧ r.v.grow = dgrow ∧
        (s.filter p dgrow dexGe m).2.2.1 = s.abs ∧
        Arr.own s.triple (s.filter p dgrow dexGe m).2.2.2 = Arr.own s.triple m + 3 ∧ (s.filter p dgrow dexGe m).2.2.2.fault = m.fault) :=
  Stack.filter_spec p s dgrow dexGe m hinv

/-! ## Constructor and destructor (wrapped construction: C08 part) -/

/-- `cc_stack_new_conf` / `cc_stack_new` (triple `t`): either an empty sound stack owning three blocks
of that triple, or no object with a balanced ledger (the header is released when the inner array
constructor fails) -/
theorem new_ledger (cap : Nat) (grow : Nat → Nat) (exGe : Nat → Bool) (m : Mem) (t : Triple) :
    (((Stack.new cap grow exGe m t).1 = .errAlloc ∨ (Stack.new cap grow exGe m t).1 = .errInvalidCapacity) ∧
      (Stack.new cap grow exGe m t).2.1 = none ∧
      Arr.own t (Stack.new cap grow exGe m t).2.2 = Arr.own t m ∧ (Stack.new cap grow exGe m t).2.2.fault = m.fault) ∨
    ((Stack.new cap grow exGe m t).1 = .ok ∧
      ∃ s, (Stack.new cap grow exGe m t).2.1 = some s ∧ s.abs = [] ∧ s.Inv ∧ s.v.capacity = cap ∧ s.v.grow = grow ∧
        Arr.own t (Stack.new cap grow exGe m t).2.2 = Arr.own t m + 3 ∧ (Stack.new cap grow exGe m t).2.2.fault = m.fault) :=
  Stack.new_spec cap grow exGe m t

theorem destroy_ledger (s : Stack) (m : Mem) (hc : s.Coh) (hlive : 3 ≤ Arr.own s.triple m) :
    Arr.own s.triple (s.destroy m) = Arr.own s.triple m - 3 ∧ (s.destroy m).fault = m.fault :=
  Stack.destroy_spec s m hc hlive

/-- **C09 from the constructor**: every interleaving on a freshly constructed stack of any accepted
capacity, any expansion factor and either allocator triple is LIFO; the stack keeps its three blocks -/
theorem new_history_refines (cap : Nat) (grow : Nat → Nat) (exGe : Nat → Bool) (m0 : Mem) (t : Triple) (s0 : Stack)
    (hnew : (Stack.new cap grow exGe m0 t).2.1 = some s0) (ops : List SOp) :
    let m1 := (Stack.new cap grow exGe m0 t).2.2
    (s0.run ops m1).1 = (Spec.Seq.srun [] ops ((s0.run ops m1).1.map Out.blocked)).1 ∧
    (s0.run ops m1).2.1.abs = (Spec.Seq.srun [] ops ((s0.run ops m1).1.map Out.blocked)).2 ∧
    (s0.run ops m1).2.1.Inv ∧ Arr.own t (s0.run ops m1).2.2 = Arr.own t m0 + 3 ∧
    (s0.run ops m1).2.2.fault = m0.fault ∧ (s0.run ops m1).2.1.Coh ∧ (s0.run ops m1).2.1.triple = t := by
  intro m1
  rcases Stack.new_spec cap grow exGe m0 t with ⟨_, h, _⟩ | ⟨_, r, h1, h2, h3, h4, h5, h6, h7⟩
  · rw [h] at hnew; simp at hnew
  · rw [h1] at hnew
    simp only [Option.some.injEq] at hnew
    subst hnew
    obtain ⟨ht, hvt⟩ := Stack.new_triple cap grow exGe m0 t r h1
    have := history_refines ops r m1 h3
    rw [h2] at this
    obtain ⟨t1, t2, t3, _, t6⟩ := this
    obtain ⟨o1, _, _, o4, o5⟩ := Stack.run_led ops r m1 h3
    rw [hvt] at o1
    exact ⟨t1, t2, t3, by rw [o1]; exact h6, by rw [t6]; exact h7, by unfold Stack.Coh; rw [o4, o5, hvt, ht],
      by rw [o5, ht]⟩

/-- **from the constructor under an arbitrary schedule** (refusing constructors included): either the
constructor fails — no object, the triple's live-block count where it was, no fault, `CC_ERR_ALLOC`
exactly when a refusal fired (never on the C library's triple) — or it yields a stack on which every
history is LIFO (`new_history_refines`) -/
theorem new_any_schedule (cap : Nat) (grow : Nat → Nat) (exGe : Nat → Bool) (m0 : Mem) (t : Triple) (ops : List SOp) :
    ((Stack.new cap grow exGe m0 t).2.1 = none ∧ (Stack.new cap grow exGe m0 t).1 ≠ .ok ∧
      Arr.own t (Stack.new cap grow exGe m0 t).2.2 = Arr.own t m0 ∧ (Stack.new cap grow exGe m0 t).2.2.fault = m0.fault ∧
      ((Stack.new cap grow exGe m0 t).1 = .errAlloc ↔ (Stack.new cap grow exGe m0 t).2.2.nrefused = m0.nrefused + 1) ∧
      (t = .libc → (Stack.new cap grow exGe m0 t).1 ≠ .errAlloc)) ∨
    (∃ s0, (Stack.new cap grow exGe m0 t).2.1 = some s0 ∧ (Stack.new cap grow exGe m0 t).1 = .ok ∧
      (s0.run ops (Stack.new cap grow exGe m0 t).2.2).1 =
        (Spec.Seq.srun [] ops ((s0.run ops (Stack.new cap grow exGe m0 t).2.2).1.map Out.blocked)).1 ∧
      (s0.run ops (Stack.new cap grow exGe m0 t).2.2).2.1.abs =
        (Spec.Seq.srun [] ops ((s0.run ops (Stack.new cap grow exGe m0 t).2.2).1.map Out.blocked)).2 ∧
      (s0.run ops (Stack.new cap grow exGe m0 t).2.2).2.1.Inv ∧
      Arr.own t (s0.run ops (Stack.new cap grow exGe m0 t).2.2).2.2 = Arr.own t m0 + 3 ∧
      (s0.run ops (Stack.new cap grow exGe m0 t).2.2).2.2.fault = m0.fault) := by
  have l := Stack.new_led cap grow exGe m0 t
  rcases Stack.new_spec cap grow exGe m0 t with ⟨e, h, ho, hf⟩ | ⟨ok, r, h1, _⟩
  · left
    refine ⟨h, by rcases e with e | e <;> rw [e] <;> simp, ho, hf, l.nrefused_iff.1, fun ht he => ?_⟩
    have := l.2.2.2 ht
    simp [he] at this
  · right
    obtain ⟨t1, t2, t3, t4, t5, _⟩ := new_history_refines cap grow exGe m0 t r h1 ops
    exact ⟨r, h1, ok, t1, t2, t3, t4, t5⟩

/-! ## History-level statements in the property's own vocabulary -/

/-- **size = insertions − successful removals**, over any history of the ideal stack (blocked
pushes — reported with an error status — count for nothing) -/
theorem spec_size_history (ops : List SOp) : ∀ (xs : List Nat) (blks : List (Option Stat)),
    (∀ b ∈ blks, b ≠ some .ok) →
    ((Spec.Seq.srun xs ops blks).2.length : Int) =
      xs.length + ((ops.zip (Spec.Seq.srun xs ops blks).1).map (fun p => Spec.Seq.sizeEffect p.1 p.2)).sum := by
  induction ops with
  | nil => intro xs blks _; simp [Spec.Seq.srun]
  | cons op ops ih =>
    intro xs blks hb
    have hstep : ((Spec.Seq.sstep xs op (blks.headD none)).2.length : Int) =
        xs.length + Spec.Seq.sizeEffect op (Spec.Seq.sstep xs op (blks.headD none)).1 := by
      have hh : blks.headD none ≠ some .ok := by
        cases blks with
        | nil => simp
        | cons b bs => exact hb b (by simp)
      cases op with
      | push x =>
        cases hbl : blks.headD none with
        | none => simp [Spec.Seq.sstep, Spec.Seq.push, Spec.Seq.add, Spec.Seq.sizeEffect]
        | some st =>
          have : st ≠ .ok := fun h => hh (by rw [hbl, h])
          simp [Spec.Seq.sstep, Spec.Seq.sizeEffect, this]
      | pop =>
        simp only [Spec.Seq.sstep, Spec.Seq.pop, Spec.Seq.removeLast, Spec.Seq.sizeEffect]
        by_cases h : xs = []
        · simp [h]
        · have : 0 < xs.length := List.length_pos_iff.2 h
          simp [h]; omega
      | peek => simp [Spec.Seq.sstep, Spec.Seq.sizeEffect]
      | size => simp [Spec.Seq.sstep, Spec.Seq.sizeEffect]
    have := ih (Spec.Seq.sstep xs op (blks.headD none)).2 blks.tail (fun b hb' => hb b (List.mem_of_mem_tail hb'))
    simp only [Spec.Seq.srun, List.zip_cons_cons, List.map_cons, List.sum_cons]
    rw [this, hstep]; omega

theorem srun_append (ops1 ops2 : List SOp) : ∀ xs : List Nat,
    (Spec.Seq.srun xs (ops1 ++ ops2) []).1 = (Spec.Seq.srun xs ops1 []).1 ++ (Spec.Seq.srun (Spec.Seq.srun xs ops1 []).2 ops2 []).1 ∧
    (Spec.Seq.srun xs (ops1 ++ ops2) []).2 = (Spec.Seq.srun (Spec.Seq.srun xs ops1 []).2 ops2 []).2 := by
  induction ops1 with
  | nil => intro xs; exact ⟨rfl, rfl⟩
  | cons op ops ih =>
    intro xs
    obtain ⟨i1, i2⟩ := ih (Spec.Seq.sstep xs op none).2
    simp only [List.cons_append, Spec.Seq.srun, List.headD_nil, List.tail_nil]
    exact ⟨by rw [i1], i2⟩

/-- a well-bracketed program returns the stack to exactly what it was, whatever was underneath -/
theorem spec_balanced_restores {ops : List SOp} (hb : Spec.Seq.Bal ops) : ∀ xs : List Nat,
    (Spec.Seq.srun xs ops []).2 = xs := by
  induction hb with
  | nil => intro xs; rfl
  | peek => intro xs; rfl
  | size => intro xs; rfl
  | @wrap y ops' _ ih =>
    intro xs
    have e : (SOp.push y :: ops') ++ [SOp.pop] = [SOp.push y] ++ (ops' ++ [SOp.pop]) := by simp
    rw [e, (srun_append [SOp.push y] (ops' ++ [SOp.pop]) xs).2, (srun_append ops' [SOp.pop] _).2, ih]
    simp [Spec.Seq.srun, Spec.Seq.sstep, Spec.Seq.push, Spec.Seq.add, Spec.Seq.pop, Spec.Seq.removeLast]
  | append _ _ ih1 ih2 =>
    intro xs
    rw [(srun_append _ _ xs).2, ih1, ih2]

/-- **LIFO over histories**: push `x`, run any well-bracketed program, pop — the pop reports exactly
`x` (the most recently pushed element not yet popped) and the stack is what it was before the push -/
theorem spec_lifo {ops : List SOp} (hb : Spec.Seq.Bal ops) (xs : List Nat) (x : Nat) :
    (Spec.Seq.srun xs (.push x :: ops ++ [.pop]) []).1.getLast? = some { st := some .ok, val := some x } ∧
    (Spec.Seq.srun xs (.push x :: ops ++ [.pop]) []).2 = xs := by
  refine ⟨?_, spec_balanced_restores (Spec.Seq.Bal.wrap x hb) xs⟩
  have e : (SOp.push x :: ops) ++ [SOp.pop] = [SOp.push x] ++ (ops ++ [SOp.pop]) := by simp
  rw [e, (srun_append [SOp.push x] (ops ++ [SOp.pop]) xs).1, (srun_append ops [SOp.pop] _).1, spec_balanced_restores hb]
  simp only [Spec.Seq.srun, Spec.Seq.sstep, Spec.Seq.push, Spec.Seq.add, Spec.Seq.pop, Spec.Seq.removeLast,
    List.headD_nil]
  rw [← List.append_assoc, List.getLast?_concat]
  simp

/-- **what lies below is untouched, under every block list**: as long as the ideal stack never becomes
shorter than a bottom part `p`, that part stays where it is — whatever is pushed (blocked or not),
popped, peeked above it -/
theorem spec_below_untouched (p : List Nat) : ∀ (ops : List SOp) (xs : List Nat) (blks : List (Option Stat)),
    (∀ k, k ≤ ops.length → p.length ≤ (Spec.Seq.srun (p ++ xs) (ops.take k) blks).2.length) →
    ∃ ys, (Spec.Seq.srun (p ++ xs) ops blks).2 = p ++ ys := by
  intro ops
  induction ops with
  | nil => intro xs blks _; exact ⟨xs, rfl⟩
  | cons op ops ih =>
    intro xs blks h
    have h1 := h 1 (by simp)
    simp only [List.take_succ_cons, List.take_zero, Spec.Seq.srun] at h1
    have hstep : ∃ xs', (Spec.Seq.sstep (p ++ xs) op (blks.headD none)).2 = p ++ xs' := by
      cases op with
      | push x =>
        simp only [Spec.Seq.sstep]
        split
        · exact ⟨xs, rfl⟩
        · exact ⟨xs ++ [x], by simp [Spec.Seq.push, Spec.Seq.add]⟩
      | pop =>
        simp only [Spec.Seq.sstep, Spec.Seq.pop, Spec.Seq.removeLast] at h1 ⊢
        by_cases hx : xs = []
        · subst hx
          by_cases hp : p = []
          · subst hp; exact ⟨[], by simp⟩
          · simp [hp] at h1
            have : 0 < p.length := List.length_pos_iff.2 hp
            omega
        · have hne : p ++ xs ≠ [] := by simp [hx]
          simp only [hne, if_false]
          exact ⟨xs.dropLast, by rw [List.dropLast_append_of_ne_nil hx]⟩
      | peek => exact ⟨xs, rfl⟩
      | size => exact ⟨xs, rfl⟩
    obtain ⟨xs', hx'⟩ := hstep
    simp only [Spec.Seq.srun]
    rw [hx']
    apply ih xs' blks.tail
    intro k hk
    have := h (k + 1) (by simp; omega)
    simp only [List.take_succ_cons, Spec.Seq.srun] at this
    rw [hx'] at this
    exact this

/-- **LIFO under every block list** (refused pushes anywhere): let `x` be on top of `xs`; after any
calls during which the stack never gets shorter than `xs ++ [x]`, once it is back to that length the
next pop reports exactly `x` and leaves `xs` -/
theorem spec_lifo_any_schedule (xs : List Nat) (x : Nat) (ops : List SOp) (blks : List (Option Stat))
    (hge : ∀ k, k ≤ ops.length → xs.length + 1 ≤ (Spec.Seq.srun (xs ++ [x]) (ops.take k) blks).2.length)
    (hback : (Spec.Seq.srun (xs ++ [x]) ops blks).2.length = xs.length + 1) :
    Spec.Seq.pop (Spec.Seq.srun (xs ++ [x]) ops blks).2 = (.ok, some x, xs) := by
  obtain ⟨ys, hy⟩ := spec_below_untouched (xs ++ [x]) ops [] blks (by
    intro k hk; simpa using hge k hk)
  simp only [List.append_nil] at hy
  have : ys = [] := by
    rw [hy] at hback
    simp at hback
    exact hback
  rw [hy, this]
  simp [Spec.Seq.pop, Spec.Seq.removeLast]

/-! ## The same clauses on the concrete stack model (`Stack.run`), for every refusal schedule -/

theorem blocked_ne_ok (o : Out) : o.blocked ≠ some .ok := by
  unfold Out.blocked
  split
  · rename_i h; rcases h with h | h <;> rw [h] <;> simp
  · simp

theorem srun_unblocked (ops : List SOp) : ∀ (xs : List Nat) (blks : List (Option Stat)),
    (∀ b ∈ blks, b = none) → Spec.Seq.srun xs ops blks = Spec.Seq.srun xs ops [] := by
  induction ops with
  | nil => intro xs blks _; rfl
  | cons op ops ih =>
    intro xs blks hb
    have hh : blks.headD none = none := by
      cases blks with
      | nil => rfl
      | cons b bs => exact hb b (by simp)
    simp only [Spec.Seq.srun, hh, List.headD_nil, List.tail_nil]
    rw [ih _ blks.tail (fun b hb' => hb b (List.mem_of_mem_tail hb'))]

/-- **size = successful pushes − successful pops, on the C model**: after any history, under any
refusal schedule, the number of elements is the initial number plus one for every push that reported
`CC_OK` minus one for every pop that reported `CC_OK` (blocked pushes and pops on the empty stack count
for nothing) -/
theorem size_history_model (ops : List SOp) (s : Stack) (m : Mem) (hinv : s.Inv) :
    ((s.run ops m).2.1.size : Int) =
      s.size + ((ops.zip (s.run ops m).1).map (fun p => Spec.Seq.sizeEffect p.1 p.2)).sum := by
  obtain ⟨h1, h2, _⟩ := history_refines ops s m hinv
  have hsz : ∀ t : Stack, t.size = t.abs.length := fun t => by simp [Stack.size, Stack.abs]
  have := spec_size_history ops s.abs ((s.run ops m).1.map Out.blocked) (by
    intro b hb
    simp only [List.mem_map] at hb
    obtain ⟨o, _, rfl⟩ := hb
    exact blocked_ne_ok o)
  rw [← h1, ← h2] at this
  rw [hsz, hsz]
  exact this

/-- **LIFO on the C model, every schedule**: push `x`, run any well-bracketed program, pop.  If no call
of the bracket was blocked (every push in it reported `CC_OK` — whatever the allocator refused before
or after), the final pop reports exactly `x` and the stack holds what it held before the push; the
invariant holds and the ledger is balanced -/
theorem lifo_model {ops : List SOp} (hb : Spec.Seq.Bal ops) (s : Stack) (m : Mem) (x : Nat) (hinv : s.Inv)
    (hnb : ∀ o ∈ (s.run (.push x :: ops ++ [.pop]) m).1, o.blocked = none) :
    (s.run (.push x :: ops ++ [.pop]) m).1.getLast? = some { st := some .ok, val := some x } ∧
    (s.run (.push x :: ops ++ [.pop]) m).2.1.abs = s.abs ∧ (s.run (.push x :: ops ++ [.pop]) m).2.1.Inv ∧
    (s.run (.push x :: ops ++ [.pop]) m).2.2.fault = m.fault := by
  obtain ⟨h1, h2, h3, _, h5⟩ := history_refines (.push x :: ops ++ [.pop]) s m hinv
  have hu := srun_unblocked (.push x :: ops ++ [.pop]) s.abs ((s.run (.push x :: ops ++ [.pop]) m).1.map Out.blocked) (by
    intro b hb'
    simp only [List.mem_map] at hb'
    obtain ⟨o, ho, rfl⟩ := hb'
    exact hnb o ho)
  rw [hu] at h1 h2
  obtain ⟨l1, l2⟩ := spec_lifo hb s.abs x
  exact ⟨by rw [h1]; exact l1, by rw [h2]; exact l2, h3, h5⟩

/-- a well-bracketed program in which no push was blocked returns the C stack to the content it had -/
theorem balanced_restores_model {ops : List SOp} (hb : Spec.Seq.Bal ops) (s : Stack) (m : Mem) (hinv : s.Inv)
    (hnb : ∀ o ∈ (s.run ops m).1, o.blocked = none) : (s.run ops m).2.1.abs = s.abs := by
  obtain ⟨_, h2, _⟩ := history_refines ops s m hinv
  rw [srun_unblocked ops s.abs _ (by
    intro b hb'
    simp only [List.mem_map] at hb'
    obtain ⟨o, ho, rfl⟩ := hb'
    exact hnb o ho)] at h2
  rw [h2]; exact spec_balanced_restores hb s.abs

/-- **no call of a stack history is blocked on an allocator that never refuses** (the C library's
triple — `cc_stack_new` —, or configured allocators with an empty refusal schedule), while the sizes
stay below the byte-size limit and the growth function does not overshoot it on the capacities below
`size + |ops|`: this pins the `blocked` oracle of `history_refines` down for such histories -/
theorem history_unblocked (ops : List SOp) (s : Stack) (m : Mem) (hinv : s.Inv)
    (hs : s.v.triple = .libc ∨ m.sched = [])
    (hB : s.size + ops.length ≤ Gen.CC_MAX_ELEMENTS / 8)
    (hg : ∀ c, c < s.size + ops.length → s.v.grow c ≤ Gen.CC_MAX_ELEMENTS / 8) :
    ∀ o ∈ (s.run ops m).1, o.blocked = none := by
  induction ops generalizing s m with
  | nil => intro o ho; simp [Stack.run] at ho
  | cons op ops ih =>
    obtain ⟨_, s2, s3, s4, _, _, _⟩ := step_refines s op m hinv
    obtain ⟨_, ht, _⟩ := Stack.step_inv s op m hinv
    simp only [List.length_cons] at hB hg
    have hsize : s.size = s.v.size := rfl
    have hnb : (s.step op m).1.blocked = none := by
      cases op with
      | push x =>
        simp only [Stack.step, Arr.blocked_mk]
        by_cases hok : (s.push x m).1 = .ok
        · rw [hok]; simp
        · obtain ⟨hfull, hc⟩ := push_blocked_only_if s x m hinv hok
          exfalso
          rcases hc with ⟨_, hr⟩ | ⟨_, hl⟩
          · rcases hs with hs | hs
            · rw [hs] at hr; simp [Mem.allocT] at hr
            · rw [(Arr.allocT_never_refuses m s.v.triple hs).1] at hr; simp at hr
          · exact C01.not_atLimit s.v (by omega) (hg s.v.capacity (by omega)) hl
      | pop =>
        obtain ⟨r1, _⟩ := Arr.removeLast_spec s.v m hinv
        simp only [Stack.step, Stack.pop, Out.blocked, r1]
        unfold Spec.Seq.removeLast
        split <;> simp
      | peek =>
        obtain ⟨r1, _⟩ := Arr.getLast_spec s.v m hinv
        simp only [Stack.step, Stack.peek, Out.blocked, r1]
        unfold Spec.Seq.getLast
        split <;> simp
      | size => simp [Stack.step, Out.blocked]
    have hsched : m.sched = [] → (s.step op m).2.2.sched = [] := by
      intro h
      cases op with
      | push x => exact Arr.add_sched_nil s.v x m h
      | pop => simp only [Stack.step, Stack.pop]; rw [(Arr.removeLast_spec s.v m hinv).2.2.2.2.2.1]; exact h
      | peek => simp only [Stack.step, Stack.peek]; rw [(Arr.getLast_spec s.v m hinv).2.2.1]; exact h
      | size => exact h
    have hsz : (s.step op m).2.1.size ≤ s.size + 1 := by
      have e : ∀ t : Stack, t.size = t.abs.length := fun t => by simp [Stack.size, Stack.abs]
      rw [e, e, s2]
      cases op with
      | push x =>
        simp only [Spec.Seq.sstep]
        split <;> simp [Spec.Seq.push, Spec.Seq.add]
      | pop =>
        simp only [Spec.Seq.sstep, Spec.Seq.pop, Spec.Seq.removeLast]
        split <;> simp <;> omega
      | peek => simp [Spec.Seq.sstep]
      | size => simp [Spec.Seq.sstep]
    intro o ho
    simp only [Stack.run, List.mem_cons] at ho
    rcases ho with ho | ho
    · rw [ho]; exact hnb
    · exact ih (s.step op m).2.1 (s.step op m).2.2 s4
        (hs.elim (fun h => Or.inl (by rw [ht, h])) (fun h => Or.inr (hsched h)))
        (by omega) (fun c hc => by rw [s3]; exact hg c (by omega)) o ho

/-- consequently LIFO holds outright for such histories: on an allocator that never refuses, push `x`,
any well-bracketed program, pop — the pop reports `x` and the content is what it was -/
theorem lifo_of_nonrefusing {ops : List SOp} (hb : Spec.Seq.Bal ops) (s : Stack) (m : Mem) (x : Nat) (hinv : s.Inv)
    (hs : s.v.triple = .libc ∨ m.sched = [])
    (hB : s.size + (ops.length + 2) ≤ Gen.CC_MAX_ELEMENTS / 8)
    (hg : ∀ c, c < s.size + (ops.length + 2) → s.v.grow c ≤ Gen.CC_MAX_ELEMENTS / 8) :
    (s.run (.push x :: ops ++ [.pop]) m).1.getLast? = some { st := some .ok, val := some x } ∧
    (s.run (.push x :: ops ++ [.pop]) m).2.1.abs = s.abs := by
  have hl : (SOp.push x :: ops ++ [SOp.pop]).length = ops.length + 2 := by simp
  have := lifo_model hb s m x hinv (history_unblocked _ s m hinv hs (by rw [hl]; exact hB) (by rw [hl]; exact hg))
  exact ⟨this.1, this.2.1⟩

/-- **the ledger of a stack history, for either allocator triple**: the live-block count of the stack's
own triple is what it was and the other allocator's counters are untouched, so both `live` and
`liveLibc` are balanced; the refusal counter counts exactly the pushes that reported `CC_ERR_ALLOC` -/
theorem history_ledger (ops : List SOp) (s : Stack) (m : Mem) (hinv : s.Inv) :
    Arr.own s.v.triple (s.run ops m).2.2 = Arr.own s.v.triple m ∧ Arr.Foreign s.v.triple m (s.run ops m).2.2 ∧
    (s.run ops m).2.2.live = m.live ∧ (s.run ops m).2.2.liveLibc = m.liveLibc ∧
    (s.run ops m).2.2.nrefused =
      m.nrefused + ((s.run ops m).1.filter (fun o => decide (o.st = some .errAlloc))).length := by
  obtain ⟨l1, l2, l3, _⟩ := Stack.run_led ops s m hinv
  obtain ⟨b1, b2⟩ := Arr.balanced_of_own_foreign l1 l2
  exact ⟨l1, l2, b1, b2, l3⟩

/-! Whole traversals and zip programs of the stack iterators: `C07Stack.traversal_complete`,
`C07Stack.program_refines`, `C07Stack.zip_next_sim`. -/

/-! ## Non-vacuity -/
example : (Stack.mk (Arr.mk 2 2 [5, 0] (fun c => 2 * c) .conf) .conf).Inv ∧
    (Stack.mk (Arr.mk 2 2 [5, 0] (fun c => 2 * c) .conf) .conf).abs = [5, 0] := by
  decide

/-- a stack of capacity 1 whose factor 1.5 makes no progress at small capacities (`c * 3 / 2`): 14 calls
across three growth steps, LIFO outputs, ledger balanced, no fault -/
example :
    let s : Stack := ⟨Arr.mk 0 1 [0] (fun c => c * 3 / 2) .conf, .conf⟩
    let r := s.run [.push 1, .push 2, .pop, .push 3, .push 4, .push 5, .peek, .pop, .pop, .size, .pop, .pop, .pop, .peek] { live := 3 }
    s.Inv ∧ r.1.map (·.val) = [none, none, some 2, none, none, none, some 5, some 5, some 4, some 2, some 3, some 1, none, none] ∧
    r.2.1.abs = [] ∧ r.2.2.live = 3 ∧ r.2.2.fault = false ∧ r.2.1.Inv := by decide

end CC.Properties.C09Stack
