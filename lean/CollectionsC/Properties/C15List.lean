import CollectionsC.Properties.C04
/-! # C15 / C08 (lists) — derived lists are exact, independent, and built atomically

Statements and closing proofs (helpers: `Proofs/DListDerived.lean`, `Proofs/SListMore.lean`).

`cc_list_sublist`, `cc_list_copy_shallow`, `cc_list_copy_deep`, `cc_list_filter` and the `cc_slist_*`
twins allocate a header with the **source's allocator triple** (fixes L4/S1), then append the selected
elements one node at a time; when any node is refused the partial result is destroyed and
`CC_ERR_ALLOC` is returned.  The model functions return the new list as a separate value and never
touch the source, so "the source is unchanged" and "the two lists are independent afterwards" hold by
construction in the model; that the C code does not alias nodes is what the harness checks (both
lists are observed after every later operation, one is destroyed while the other is used, ASan).

Quantifiers: every source state satisfying the invariant (empty included where the API allows it),
every range `b e` in `Nat`, every predicate, every copy function, every allocator state / refusal
schedule. -/
namespace CC.Properties.C15List
open CC CC.Chain
open CC.Spec
open CC.DList (builderResult Mem.buildChain)

/-- **What a builder call yields** (`builderResult add m`: header, then one node per element of
`add`): either a list in canonical state holding exactly `add` — it satisfies the invariant, so it is
a fully usable list of its own, e.g. it can grow — that owns `1 + add.length` fresh blocks; or
`CC_ERR_ALLOC`, no object, and **every block obtained on the way released again** (`live` unchanged).
No checked access faults, the C library allocator is never used. -/
theorem builder_result (add : List Nat) (m : Mem) :
    (builderResult add m).2.2.fault = m.fault ∧ (builderResult add m).2.2.libc = m.libc ∧
    ((builderResult add m).1 = .ok ∨ (builderResult add m).1 = .errAlloc) ∧
    ((builderResult add m).1 = .ok →
      ∃ r, (builderResult add m).2.1 = some r ∧ r.Inv ∧ r.abs = add ∧ (builderResult add m).2.2.live = m.live + 1 + add.length) ∧
    ((builderResult add m).1 = .errAlloc → (builderResult add m).2.1 = none ∧ (builderResult add m).2.2.live = m.live) := by
  by_cases ha : m.alloc.1 = true
  · have e1 := Mem.alloc_fst_true m ha
    have bc := DList.Mem.buildChain_spec add.length 0 m.alloc.2 (by omega)
    by_cases hb : (Mem.buildChain add.length 0 m.alloc.2).1 = true
    · have hv : builderResult add m = (.ok, some (ofList add), (Mem.buildChain add.length 0 m.alloc.2).2) := by
        simp [builderResult, ha, hb]
      rw [hv]
      refine ⟨by rw [bc.2.2.1, e1.2.1], by rw [bc.2.2.2, e1.2.2], Or.inl rfl, ?_, ?_⟩
      · intro _; exact ⟨ofList add, rfl, ofList_inv _, rfl, by rw [bc.1 hb, e1.1]⟩
      · intro c; cases c
    · have hb' : (Mem.buildChain add.length 0 m.alloc.2).1 = false := by simpa using hb
      have hv : builderResult add m = (.errAlloc, none, (Mem.buildChain add.length 0 m.alloc.2).2) := by
        simp [builderResult, ha, hb']
      rw [hv]
      refine ⟨by rw [bc.2.2.1, e1.2.1], by rw [bc.2.2.2, e1.2.2], Or.inr rfl, ?_, ?_⟩
      · intro c; cases c
      · intro _; exact ⟨rfl, by simp only []; rw [bc.2.1 hb', e1.1]; omega⟩
  · have ha' : m.alloc.1 = false := by simpa using ha
    have e1 := Mem.alloc_fst_false m ha'
    have hv : builderResult add m = (.errAlloc, none, m.alloc.2) := by simp [builderResult, ha']
    rw [hv]
    exact ⟨e1.2.1, e1.2.2, Or.inr rfl, (by intro c; cases c), fun _ => ⟨rfl, e1.1⟩⟩

/-- **`cc_list_sublist`**: an invalid range (`b > e` or `e ≥ size`, every value of `b`, `e`) is rejected
with nothing allocated; a valid range builds exactly the elements `b … e` in source order. -/
theorem dlist_sublist_correct (l : Chain) (h : l.Inv) (b e : Nat) (m : Mem) :
    DList.sublist l b e m =
      if b > e ∨ e ≥ l.abs.length then (.errInvalidRange, none, m)
      else builderResult ((l.abs.drop b).take (e - b + 1)) m := by
  rw [h.eq, DList.sublist_ofList]
  simp only [ofList_abs, LSeq.sublist]
  by_cases hr : b > e ∨ e ≥ l.abs.length <;> simp [hr]

/-- **`cc_list_copy_shallow`** (`cp = id`) and **`cc_list_copy_deep`**: the copy holds the copy
function's images in source order. -/
theorem dlist_copy_correct (cp : Nat → Nat) (l : Chain) (h : l.Inv) (m : Mem) :
    DList.copy cp l m = builderResult (l.abs.map cp) m := by
  rw [h.eq, DList.copy_ofList]; rfl

/-- **`cc_list_filter`**: an empty source is rejected (`CC_ERR_OUT_OF_RANGE`, nothing allocated);
otherwise exactly the elements satisfying the predicate, in source order. -/
theorem dlist_filter_correct (p : Nat → Bool) (l : Chain) (h : l.Inv) (m : Mem) :
    DList.filter p l m = if l.abs = [] then (.errOutOfRange, none, m) else builderResult (l.abs.filter p) m := by
  rw [h.eq, DList.filter_ofList]
  simp only [ofList_abs, LSeq.filter]
  by_cases hx : l.abs = [] <;> simp [hx]

/-- **`cc_slist_sublist`** -/
theorem slist_sublist_correct (l : Chain) (h : l.Inv) (b e : Nat) (m : Mem) :
    SList.sublist l b e m =
      if b > e ∨ e ≥ l.abs.length then (.errInvalidRange, none, m)
      else builderResult ((l.abs.drop b).take (e - b + 1)) m := by
  rw [h.eq, SList.sublist_ofList]
  simp only [ofList_abs, LSeq.sublist]
  by_cases hr : b > e ∨ e ≥ l.abs.length <;> simp [hr]

/-- **`cc_slist_copy_shallow`** / **`cc_slist_copy_deep`** -/
theorem slist_copy_correct (cp : Nat → Nat) (l : Chain) (h : l.Inv) (m : Mem) :
    SList.copy cp l m = builderResult (l.abs.map cp) m := by
  rw [h.eq, SList.copy_ofList]; rfl

/-- **`cc_slist_filter`** -/
theorem slist_filter_correct (p : Nat → Bool) (l : Chain) (h : l.Inv) (m : Mem) :
    SList.filter p l m = if l.abs = [] then (.errOutOfRange, none, m) else builderResult (l.abs.filter p) m := by
  rw [h.eq, SList.filter_ofList]
  simp only [ofList_abs, LSeq.filter]
  by_cases hx : l.abs = [] <;> simp [hx]

/-- **The result can grow** (it inherits a working allocator configuration): appending to a freshly
built list behaves like appending to the ideal list, for every content. -/
theorem derived_can_grow (add : List Nat) (m : Mem) (r : Chain) (h : (builderResult add m).2.1 = some r) (x : Nat) (m' : Mem)
    (ha : m'.alloc.1 = true) :
    DList.addLast r x m' = (.ok, ofList (add ++ [x]), m'.alloc.2) ∧ SList.addLast r x m' = (.ok, ofList (add ++ [x]), m'.alloc.2) := by
  have hr : r = ofList add := by
    unfold builderResult at h
    by_cases h1 : m.alloc.1 = true
    · simp only [h1, Bool.not_true, Bool.false_eq_true, if_false] at h
      by_cases h2 : (Mem.buildChain add.length 0 m.alloc.2).1 = true
      · simp only [h2, if_true, Option.some.injEq] at h; exact h.symm
      · simp [h2] at h
    · simp [h1] at h
  subst hr
  rw [DList.addLast_ofList, SList.addLast_ofList]
  simp [ha, LSeq.addLast]

/-! ## Non-vacuity -/
example : (DList.sublist (ofList [4, 5, 6, 7]) 1 2 {}).2.1 = some (ofList [5, 6]) := by decide
example : (DList.filter (fun v => v % 2 == 0) (ofList [4, 5, 6, 7]) { sched := [false, false, true] }).1 = .errAlloc ∧
    (DList.filter (fun v => v % 2 == 0) (ofList [4, 5, 6, 7]) { sched := [false, false, true] }).2.2.live = 0 := by decide

end CC.Properties.C15List
