import CollectionsC.Properties.C04
/-! # C15 / C08 (lists) — derived lists are exact, independent, and built atomically

Statements and closing proofs (helpers: `Proofs/DListDerived.lean`, `Proofs/SListMore.lean`).

`cc_list_sublist`, `cc_list_copy_shallow`, `cc_list_copy_deep`, `cc_list_filter` and the `cc_slist_*`
twins allocate a header with the **source's allocator triple** (fixes L4/S1), then append the selected
elements one node at a time; when any node is refused the partial result is destroyed and
`CC_ERR_ALLOC` is returned.  The model functions return the new list as a separate value and never
touch the source, so "the source is unchanged" and "the two lists share no node" hold by
construction in the model (value semantics — no theorem is claimed for them); that the C code does
not alias nodes is what the harness checks (both lists are observed after every later operation, one
is destroyed while the other is used, ASan).  What *is* proved about independence is the ledger side
(`*_model` theorems below): the result's blocks are obtained in addition to the source's, through the
source's triple; source and result together form a pair on which every later history behaves like
the ideal pair; destroying either releases exactly its own blocks and leaves the other's covered.

Quantifiers: every source state satisfying the invariant (empty included where the API allows it),
every range `b e` in `Nat`, every predicate, every copy function, every allocator state / refusal
schedule. -/
namespace CC.Properties.C15List
open CC CC.Chain
open CC.Spec
open CC.Spec.LSeq (Op Out Params)
open CC.DList (builderResult Mem.buildChain)
open CC.ListHistory

/-- **What a builder call yields** (`builderResult t add m`: header, then one node per element of
`add`, all through the source's triple `t`): either a list in canonical state holding exactly `add`,
on the triple `t` — it satisfies the invariant, so it is a fully usable list of its own, e.g. it
can grow — that owns `1 + add.length` fresh blocks of `t`; or `CC_ERR_ALLOC`, no object, and **every
block obtained on the way released again** (`liveT t` unchanged).  No checked access faults, the
other allocator is never touched. -/
theorem builder_result (t : Triple) (add : List Nat) (m : Mem) :
    (builderResult t add m).2.2.fault = m.fault ∧ Mem.Frame t m (builderResult t add m).2.2 ∧
    ((builderResult t add m).1 = .ok ∨ (builderResult t add m).1 = .errAlloc) ∧
    ((builderResult t add m).1 = .ok →
      ∃ r, (builderResult t add m).2.1 = some r ∧ r.Inv ∧ r.abs = add ∧ r.triple = t ∧
        (builderResult t add m).2.2.liveT t = m.liveT t + 1 + add.length) ∧
    ((builderResult t add m).1 = .errAlloc → (builderResult t add m).2.1 = none ∧ (builderResult t add m).2.2.liveT t = m.liveT t) := by
  by_cases ha : (m.allocT t).1 = true
  · have e1 := Mem.allocT_fst_true m t ha
    have f1 := Mem.frame_allocT t m
    have bc := DList.Mem.buildChain_spec t add.length 0 (m.allocT t).2 (by omega)
    by_cases hb : (Mem.buildChain t add.length 0 (m.allocT t).2).1 = true
    · have hv : builderResult t add m = (.ok, some (ofList t add), (Mem.buildChain t add.length 0 (m.allocT t).2).2) := by
        simp [builderResult, ha, hb]
      rw [hv]
      refine ⟨by rw [bc.2.2.1, e1.2], f1.trans bc.2.2.2, Or.inl rfl, ?_, ?_⟩
      · intro _; exact ⟨ofList t add, rfl, ofList_inv _, rfl, rfl, by simp only []; rw [bc.1 hb, e1.1]⟩
      · intro c; cases c
    · have hb' : (Mem.buildChain t add.length 0 (m.allocT t).2).1 = false := by simpa using hb
      have hv : builderResult t add m = (.errAlloc, none, (Mem.buildChain t add.length 0 (m.allocT t).2).2) := by
        simp [builderResult, ha, hb']
      rw [hv]
      refine ⟨by rw [bc.2.2.1, e1.2], f1.trans bc.2.2.2, Or.inr rfl, ?_, ?_⟩
      · intro c; cases c
      · intro _; exact ⟨rfl, by simp only []; rw [bc.2.1 hb', e1.1]; omega⟩
  · have ha' : (m.allocT t).1 = false := by simpa using ha
    have e1 := Mem.allocT_fst_false m t ha'
    have hv : builderResult t add m = (.errAlloc, none, (m.allocT t).2) := by simp [builderResult, ha']
    rw [hv]
    exact ⟨e1.2.1, Mem.frame_allocT t m, Or.inr rfl, (by intro c; cases c), fun _ => ⟨rfl, e1.1⟩⟩

/-- an object is returned exactly with status `CC_OK`, and it is the canonical list of `add` on `t` -/
theorem builder_some (t : Triple) (add : List Nat) (m : Mem) (r : Chain) (h : (builderResult t add m).2.1 = some r) :
    r = ofList t add ∧ (builderResult t add m).1 = .ok := by
  unfold builderResult at h ⊢
  by_cases h1 : (m.allocT t).1 = true
  · simp only [h1, Bool.not_true, Bool.false_eq_true, if_false] at h ⊢
    by_cases h2 : (Mem.buildChain t add.length 0 (m.allocT t).2).1 = true
    · simp only [h2, if_true, Option.some.injEq] at h ⊢; exact ⟨h.symm, trivial⟩
    · simp [h2] at h
  · simp [h1] at h

/-- **`cc_list_sublist`**: an invalid range (`b > e` or `e ≥ size`, every value of `b`, `e`) is rejected
with nothing allocated; a valid range builds exactly the elements `b … e` in source order, through
the source's triple. -/
theorem dlist_sublist_correct (l : Chain) (h : l.Inv) (b e : Nat) (m : Mem) :
    DList.sublist l b e m =
      if b > e ∨ e ≥ l.abs.length then (.errInvalidRange, none, m)
      else builderResult l.triple ((l.abs.drop b).take (e - b + 1)) m := by
  rw [h.eq, DList.sublist_ofList]
  simp only [ofList_abs, ofList_triple, LSeq.sublist]
  by_cases hr : b > e ∨ e ≥ l.abs.length <;> simp [hr]

/-- **`cc_list_copy_shallow`** (`cp = id`) and **`cc_list_copy_deep`**: the copy holds the copy
function's images in source order. -/
theorem dlist_copy_correct (cp : Nat → Nat) (l : Chain) (h : l.Inv) (m : Mem) :
    DList.copy cp l m = builderResult l.triple (l.abs.map cp) m := by
  rw [h.eq, DList.copy_ofList]; rfl

/-- **`cc_list_filter`**: an empty source is rejected (`CC_ERR_OUT_OF_RANGE`, nothing allocated);
otherwise exactly the elements satisfying the predicate, in source order. -/
theorem dlist_filter_correct (p : Nat → Bool) (l : Chain) (h : l.Inv) (m : Mem) :
    DList.filter p l m = if l.abs = [] then (.errOutOfRange, none, m) else builderResult l.triple (l.abs.filter p) m := by
  rw [h.eq, DList.filter_ofList]
  simp only [ofList_abs, ofList_triple, LSeq.filter]
  by_cases hx : l.abs = [] <;> simp [hx]

/-- **`cc_slist_sublist`** -/
theorem slist_sublist_correct (l : Chain) (h : l.Inv) (b e : Nat) (m : Mem) :
    SList.sublist l b e m =
      if b > e ∨ e ≥ l.abs.length then (.errInvalidRange, none, m)
      else builderResult l.triple ((l.abs.drop b).take (e - b + 1)) m := by
  rw [h.eq, SList.sublist_ofList]
  simp only [ofList_abs, ofList_triple, LSeq.sublist]
  by_cases hr : b > e ∨ e ≥ l.abs.length <;> simp [hr]

/-- **`cc_slist_copy_shallow`** / **`cc_slist_copy_deep`** -/
theorem slist_copy_correct (cp : Nat → Nat) (l : Chain) (h : l.Inv) (m : Mem) :
    SList.copy cp l m = builderResult l.triple (l.abs.map cp) m := by
  rw [h.eq, SList.copy_ofList]; rfl

/-- **`cc_slist_filter`** -/
theorem slist_filter_correct (p : Nat → Bool) (l : Chain) (h : l.Inv) (m : Mem) :
    SList.filter p l m = if l.abs = [] then (.errOutOfRange, none, m) else builderResult l.triple (l.abs.filter p) m := by
  rw [h.eq, SList.filter_ofList]
  simp only [ofList_abs, ofList_triple, LSeq.filter]
  by_cases hx : l.abs = [] <;> simp [hx]

/-- **The result can grow** (it inherits a working allocator configuration — the source's triple):
appending to a freshly built list behaves like appending to the ideal list, for every content. -/
theorem derived_can_grow (t : Triple) (add : List Nat) (m : Mem) (r : Chain) (h : (builderResult t add m).2.1 = some r) (x : Nat) (m' : Mem)
    (ha : (m'.allocT t).1 = true) :
    DList.addLast r x m' = (.ok, ofList t (add ++ [x]), (m'.allocT t).2) ∧
    SList.addLast r x m' = (.ok, ofList t (add ++ [x]), (m'.allocT t).2) := by
  obtain ⟨hr, _⟩ := builder_some t add m r h
  subst hr
  rw [DList.addLast_ofList, SList.addLast_ofList]
  simp [ha, LSeq.addLast]

/-! ## Independence — the part that is expressible in the model (ledger separation) -/

/-- **source and result form a usable pair** (`_model`: that they share no node holds by value
semantics; proved here is that the builder's blocks come on top of the source's, so that both
lists' node blocks are simultaneously live — in either order of roles — and they sit on the same
triple, so every operation including `splice` is admissible between them) -/
theorem derived_pair_model (l : Chain) (hl : l.Inv) (add : List Nat) (m : Mem) (r : Chain)
    (h : (builderResult l.triple add m).2.1 = some r) (hlive : l.abs.length ≤ m.liveT l.triple) :
    PairOk (l, r) (builderResult l.triple add m).2.2 ∧ PairOk (r, l) (builderResult l.triple add m).2.2 ∧
    (∀ ops, Compat (l, r) ops ∧ Compat (r, l) ops) := by
  obtain ⟨hr, hok⟩ := builder_some l.triple add m r h
  obtain ⟨_, hfr, _, hk, _⟩ := builder_result l.triple add m
  obtain ⟨r', e', _, _, _, hlv⟩ := hk hok
  subst hr
  have key : ∀ t, ownedBy l.triple l.triple l.abs add t ≤ (builderResult l.triple add m).2.2.liveT t := by
    intro t
    by_cases ht : l.triple = t
    · subst ht; simp only [ownedBy, if_true]; omega
    · simp [ownedBy, ht]
  refine ⟨⟨hl, ofList_inv _, ?_⟩, ⟨ofList_inv _, hl, ?_⟩, fun ops => ⟨Or.inl rfl, Or.inl rfl⟩⟩
  · intro t; simpa [owned] using key t
  · intro t; have := key t; simp only [owned, ownedBy, ofList_abs, ofList_triple] at this ⊢
    by_cases ht : l.triple = t <;> simp only [ht, if_true, if_false] at this ⊢ <;> omega

/-- **hence every later history on (source, result) behaves like the ideal pair** — whatever is done
to one list affects the other only through the explicit bulk operations — under any refusal
schedule (doubly linked; the singly linked twin follows) -/
theorem dlist_derived_history_model (P : Params) (l : Chain) (hl : l.Inv) (add : List Nat) (m : Mem) (r : Chain)
    (h : (builderResult l.triple add m).2.1 = some r) (hlive : l.abs.length ≤ m.liveT l.triple) (ops : List Op) :
    (DList.run P (l, r) ops (builderResult l.triple add m).2.2).1 =
      (LSeq.runSkipping true P (l.abs, add) ops ((DList.run P (l, r) ops (builderResult l.triple add m).2.2).1.map (·.st))).1 ∧
    ((DList.run P (l, r) ops (builderResult l.triple add m).2.2).2.1.1.abs,
     (DList.run P (l, r) ops (builderResult l.triple add m).2.2).2.1.2.abs) =
      (LSeq.runSkipping true P (l.abs, add) ops ((DList.run P (l, r) ops (builderResult l.triple add m).2.2).1.map (·.st))).2 ∧
    (DList.run P (l, r) ops (builderResult l.triple add m).2.2).2.2.fault = m.fault := by
  obtain ⟨hp, _, hc⟩ := derived_pair_model l hl add m r h hlive
  have hr := (builder_some l.triple add m r h).1
  have := C04.dlist_history_refines_skipping P ops (l, r) _ hp (hc ops).1
  have ea : (l, r).2.abs = add := by rw [hr]; rfl
  rw [ea] at this
  exact ⟨this.1, this.2.1, by rw [this.2.2.2, (builder_result l.triple add m).1]⟩

theorem slist_derived_history_model (P : Params) (l : Chain) (hl : l.Inv) (add : List Nat) (m : Mem) (r : Chain)
    (h : (builderResult l.triple add m).2.1 = some r) (hlive : l.abs.length ≤ m.liveT l.triple) (ops : List Op) :
    (SList.run P (l, r) ops (builderResult l.triple add m).2.2).1 =
      (LSeq.runSkipping false P (l.abs, add) ops ((SList.run P (l, r) ops (builderResult l.triple add m).2.2).1.map (·.st))).1 ∧
    ((SList.run P (l, r) ops (builderResult l.triple add m).2.2).2.1.1.abs,
     (SList.run P (l, r) ops (builderResult l.triple add m).2.2).2.1.2.abs) =
      (LSeq.runSkipping false P (l.abs, add) ops ((SList.run P (l, r) ops (builderResult l.triple add m).2.2).1.map (·.st))).2 ∧
    (SList.run P (l, r) ops (builderResult l.triple add m).2.2).2.2.fault = m.fault := by
  obtain ⟨hp, _, hc⟩ := derived_pair_model l hl add m r h hlive
  have hr := (builder_some l.triple add m r h).1
  have := C04.slist_history_refines_skipping P ops (l, r) _ hp (hc ops).1
  have ea : (l, r).2.abs = add := by rw [hr]; rfl
  rw [ea] at this
  exact ⟨this.1, this.2.1, by rw [this.2.2.2, (builder_result l.triple add m).1]⟩

/-- **destroying the result** releases exactly the blocks the builder obtained (the ledger of the
triple is back where it was before the builder ran, so the source's blocks are still covered), with
no fault; **destroying the source instead** releases exactly the source's blocks and leaves the
result's covered -/
theorem derived_destroy_model (l : Chain) (hl : l.Inv) (add : List Nat) (m : Mem) (r : Chain)
    (h : (builderResult l.triple add m).2.1 = some r) (hlive : l.abs.length + 1 ≤ m.liveT l.triple) :
    (DList.destroy r (builderResult l.triple add m).2.2).liveT l.triple = m.liveT l.triple ∧
    (DList.destroy r (builderResult l.triple add m).2.2).fault = m.fault ∧
    (SList.destroy r (builderResult l.triple add m).2.2).liveT l.triple = m.liveT l.triple ∧
    (SList.destroy r (builderResult l.triple add m).2.2).fault = m.fault ∧
    (DList.destroy l (builderResult l.triple add m).2.2).liveT l.triple + (l.abs.length + 1) = m.liveT l.triple + 1 + add.length ∧
    (DList.destroy l (builderResult l.triple add m).2.2).fault = m.fault ∧
    add.length + 1 ≤ (DList.destroy l (builderResult l.triple add m).2.2).liveT l.triple := by
  obtain ⟨hr, hok⟩ := builder_some l.triple add m r h
  obtain ⟨hf, _, _, hk, _⟩ := builder_result l.triple add m
  obtain ⟨r', e', _, _, _, hlv⟩ := hk hok
  subst hr
  have d1 := C04.dlist_destroy_ledger (ofList l.triple add) (ofList_inv _) (builderResult l.triple add m).2.2
    (by simp only [ofList_abs, ofList_triple]; omega)
  have d2 := C04.slist_destroy_ledger (ofList l.triple add) (ofList_inv _) (builderResult l.triple add m).2.2
    (by simp only [ofList_abs, ofList_triple]; omega)
  have d3 := C04.dlist_destroy_ledger l hl (builderResult l.triple add m).2.2 (by omega)
  simp only [ofList_abs, ofList_triple] at d1 d2
  refine ⟨by omega, by rw [d1.2.1, hf], by omega, by rw [d2.2.1, hf], by omega, by rw [d3.2.1, hf], by omega⟩

/-! ## Non-vacuity -/
example : (DList.sublist (ofList .conf [4, 5, 6, 7]) 1 2 {}).2.1 = some (ofList .conf [5, 6]) := by decide
example : (DList.sublist (ofList .libc [4, 5, 6, 7]) 1 2 {}).2.1 = some (ofList .libc [5, 6]) ∧
    (DList.sublist (ofList .libc [4, 5, 6, 7]) 1 2 {}).2.2.liveLibc = 3 ∧
    (DList.sublist (ofList .libc [4, 5, 6, 7]) 1 2 {}).2.2.live = 0 := by decide
example : (DList.filter (fun v => v % 2 == 0) (ofList .conf [4, 5, 6, 7]) { sched := [false, false, true] }).1 = .errAlloc ∧
    (DList.filter (fun v => v % 2 == 0) (ofList .conf [4, 5, 6, 7]) { sched := [false, false, true] }).2.2.live = 0 := by decide

end CC.Properties.C15List
