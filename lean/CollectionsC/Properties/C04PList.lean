import CollectionsC.Proofs.PListHistory
import CollectionsC.Proofs.PListZip
import CollectionsC.Properties.C04
/-! # C04 (pointer level) — the raw `next`/`prev` links of CC_List

`Properties/C04.lean` works on the sequence-level model `Chain`, in which the successor of node `j` is node `j+1` by
construction; its `mirror_model` is therefore true by the shape of the state.  This file closes that gap for the core of
`src/cc_list.c`: `Model/PList.lean` is a **pointer-level** model — a heap of nodes with raw `next`/`prev` fields, list
headers with `head`/`tail`/`size`, and the C helpers `link_behind`, `unlinkn`, `unlinkn_all`, `swap`, `swap_adjacent`,
`splice_between`, `link_all_externally`, `get_node_at` written as the pointer surgery of the C text, assignment by
assignment.  On top of them: `add`, `add_first`, `add_last`, `add_at`, `add_all`, `add_all_at`, `splice`, `splice_at`,
`remove`, `remove_at`, `remove_first`, `remove_last`, `remove_all(_cb)`, `replace_at`, `reverse`, `destroy(_cb)`.

Proved (helpers: `Proofs/PList.lean`, `PListOps.lean`, `PListBulk.lean`, `PListReverse.lean`, `PListHistory.lean`):
* well-formedness `WF` (following `next` from `head` visits `size` distinct live nodes and ends in `tail`; `prev` of every
  node is its predecessor; two lists on one heap share no node) is preserved by every operation;
* every operation **refines the sequence-level model**: status, out-value, callback log, ledger and the content along the
  `next` links are those of `DList.step` on the canonical chain of the contents — hence, by `C04`, of the ideal lists;
* **`mirror`**: in every well-formed state the content read along the raw `prev` links from `tail` is the exact reverse of the
  content read along the raw `next` links from `head` — now a theorem about the links, for every state reachable from
  `cc_list_new` by any history of the operations above, under any refusal schedule, for any assignment of allocator triples.

Tie to the code: the correspondence harness prints for every list, after every operation, each node as
`id:data:prev_id:next_id` together with `head`/`tail` ids read from the C heap (`harness/shim_list.c`, `links<k>=…`); the Lean
driver runs `Model/PList.lean` alongside and prints the same from its heap, so layer L3 compares the link structure and
the identity of the nodes one by one on every run.

The iterator mutators (`cc_list_iter_add/remove/replace`, the descending and the zip variants) are pointer surgery on the
node `iter->last`; the cursor arithmetic stays with the sequence-level iterator models (`C07List`), the surgery is modelled
here (`iterAddAt`, `diterAddAt`, `iterRemoveAt`, `iterReplaceAt`, `zipAddAt`), run by the driver on the node at the cursor's
position (so L3 compares node identity across iterator programs too) and proved for the single iterators
(`iter_add_links`, `diter_add_links`, `iter_remove_links`) and for the zip iterator (`zip_add_links`, `zip_remove_links`).

**Scope of "always".**  `history_refines`/`history_refines_ideal`/`mirror` along histories quantify over `List POp`: the 16
operations above (insertions, bulk copies, splices, removals, `replace_at`, `reverse`, `filter_mut`, exchange of roles), any
refusal schedule, any triples.  The iterator mutators have the one-call theorems below (`iter_add_links`, `diter_add_links`,
`iter_remove_links`, and `iter_mutators_mirror`: the result is well-formed, hence mirrored), from any represented state —
which covers every state reachable by `POp` histories and iterator calls in any interleaving, but they are not constructors
of `POp`; the zip mutators have `zip_add_links` / `zip_remove_links` (two lists on one heap).  Elsewhere at link level:
`cc_list_sort_in_place` and `cc_list_sort` in `C18PList.lean` (`sort_in_place_mirror`: both traversal directions after the
in-place sort), the derived-list builders in `C15PList.lean`.  Every list operation the harness can issue now has a
pointer-level model that the driver runs alongside, so L3 compares node identity across all of them (no resynchronisation). -/
namespace CC.Properties.C04PList
open CC CC.Chain CC.PList
open CC.Spec
open CC.Spec.LSeq (Op Out Params)

/-- **mirror** (raw links): backward traversal along `prev` from `tail` = reverse of forward traversal along `next` from `head` -/
theorem mirror (h : Heap) (l : Hdr) (w : WF h l) : bwd h l = (fwd h l).reverse := PList.mirror w

/-- the forward traversal of a represented list is its content, the backward traversal the reversed content -/
theorem traversals (h : Heap) (l : Hdr) (cs : List Cell) (r : PList.Repr h l cs) :
    fwd h l = dataOf cs ∧ bwd h l = (dataOf cs).reverse ∧ l.size = cs.length := ⟨r.fwd, r.bwd, r.size⟩

/-- **one step**: every pointer-level operation keeps both lists well-formed and disjoint, and yields exactly the output,
the ledger and the contents of the sequence-level step (`Model/LinkedList.lean`) on the canonical chains -/
theorem step_refines (P : Params) (p : PS) (c1 c2 : List Cell) (op : POp) (m : Mem) (I : Inv2 p c1 c2) :
    ∃ c1' c2', Inv2 (pstep P p op m).2.1 c1' c2' ∧
      DList.step P (absPair p c1 c2) op.toOp m = ((pstep P p op m).1, absPair (pstep P p op m).2.1 c1' c2', (pstep P p op m).2.2) :=
  pstep_refines P p c1 c2 op m I

/-- two freshly constructed (empty) lists on the triples `t1`, `t2` -/
def fresh (t1 t2 : Triple) : PS := { st := {}, l1 := { triple := t1 }, l2 := { triple := t2 } }

theorem fresh_inv (t1 t2 : Triple) : Inv2 (fresh t1 t2) [] [] := by
  have r1 : PList.Repr (fresh t1 t2).st.heap (fresh t1 t2).l1 [] := ⟨by simp [idsOf], trivial, rfl, rfl, rfl⟩
  have r2 : PList.Repr (fresh t1 t2).st.heap (fresh t1 t2).l2 [] := ⟨by simp [idsOf], trivial, rfl, rfl, rfl⟩
  refine ⟨⟨r1, r2, ?_⟩, ?_, ?_⟩ <;> (intro x hx; simp [idsOf] at hx)

/-- **whole histories from `new`**: outputs and ledger of the pointer-level run are those of the sequence-level run; both
lists end well-formed; their `next`-contents are the contents of the sequence-level final states; and the `prev`-contents
are the exact mirrors -/
theorem history_refines (P : Params) (t1 t2 : Triple) (ops : List POp) (m : Mem) :
    (prun P (fresh t1 t2) ops m).1 = (DList.run P (ofList t1 [], ofList t2 []) (ops.map POp.toOp) m).1 ∧
    (prun P (fresh t1 t2) ops m).2.2 = (DList.run P (ofList t1 [], ofList t2 []) (ops.map POp.toOp) m).2.2 ∧
    WF (prun P (fresh t1 t2) ops m).2.1.st.heap (prun P (fresh t1 t2) ops m).2.1.l1 ∧
    WF (prun P (fresh t1 t2) ops m).2.1.st.heap (prun P (fresh t1 t2) ops m).2.1.l2 ∧
    fwd (prun P (fresh t1 t2) ops m).2.1.st.heap (prun P (fresh t1 t2) ops m).2.1.l1 =
      (DList.run P (ofList t1 [], ofList t2 []) (ops.map POp.toOp) m).2.1.1.abs ∧
    fwd (prun P (fresh t1 t2) ops m).2.1.st.heap (prun P (fresh t1 t2) ops m).2.1.l2 =
      (DList.run P (ofList t1 [], ofList t2 []) (ops.map POp.toOp) m).2.1.2.abs ∧
    bwd (prun P (fresh t1 t2) ops m).2.1.st.heap (prun P (fresh t1 t2) ops m).2.1.l1 =
      (fwd (prun P (fresh t1 t2) ops m).2.1.st.heap (prun P (fresh t1 t2) ops m).2.1.l1).reverse ∧
    bwd (prun P (fresh t1 t2) ops m).2.1.st.heap (prun P (fresh t1 t2) ops m).2.1.l2 =
      (fwd (prun P (fresh t1 t2) ops m).2.1.st.heap (prun P (fresh t1 t2) ops m).2.1.l2).reverse := by
  obtain ⟨c1, c2, I, e⟩ := prun_refines P ops (fresh t1 t2) [] [] m (fresh_inv t1 t2)
  have e0 : absPair (fresh t1 t2) [] [] = (ofList t1 [], ofList t2 []) := rfl
  rw [e0] at e
  rw [e]
  have w1 : WF _ _ := ⟨c1, I.rep.r1⟩
  have w2 : WF _ _ := ⟨c2, I.rep.r2⟩
  exact ⟨rfl, rfl, w1, w2, by rw [I.rep.r1.fwd]; rfl, by rw [I.rep.r2.fwd]; rfl, PList.mirror w1, PList.mirror w2⟩

/-- … and therefore (with `C04.dlist_history_content`) the pointer-level run yields the outputs and contents of the ideal lists on
which the refused operations did not happen — for **every** history over `POp`, `splice`/`splice_at` between lists on
different allocator triples included (the content statement does not depend on the ledger) -/
theorem history_refines_ideal (P : Params) (t1 t2 : Triple) (ops : List POp) (m : Mem) :
    (prun P (fresh t1 t2) ops m).1 =
      (LSeq.runSkipping true P ([], []) (ops.map POp.toOp) ((prun P (fresh t1 t2) ops m).1.map (·.st))).1 ∧
    (fwd (prun P (fresh t1 t2) ops m).2.1.st.heap (prun P (fresh t1 t2) ops m).2.1.l1,
     fwd (prun P (fresh t1 t2) ops m).2.1.st.heap (prun P (fresh t1 t2) ops m).2.1.l2) =
      (LSeq.runSkipping true P ([], []) (ops.map POp.toOp) ((prun P (fresh t1 t2) ops m).1.map (·.st))).2 := by
  obtain ⟨h1, _, _, _, h5, h6, _, _⟩ := history_refines P t1 t2 ops m
  have := C04.dlist_history_content P (ops.map POp.toOp) (ofList t1 [], ofList t2 []) m (ofList_inv _) (ofList_inv _)
  rw [h1, h5, h6]
  exact ⟨this.1, this.2.1⟩

/-! ## iterator mutators on the node `iter->last` -/

/-- `cc_list_iter_add` with `last` any node of the list (whatever `iter->index` says — in particular for the second and
every further `add` behind the same yielded element, defect L6): the list stays well-formed (`tail` moves exactly when the new
node has no successor), the new node sits directly behind `last`, every other node keeps its identity and its place -/
theorem iter_add_links (s : St) (l : Hdr) (pre post : List Cell) (a : Cell) (x : Nat) (m : Mem)
    (r : PList.Repr s.heap l (pre ++ a :: post)) (hb : ∀ y, y ∈ idsOf (pre ++ a :: post) → y < s.fresh)
    (ha : (m.allocT l.triple).1 = true) :
    PList.Repr (iterAddAt s l a.1 x m).2.1.heap (iterAddAt s l a.1 x m).2.2.1
      (pre ++ a :: (s.fresh, x) :: post) ∧
    fwd (iterAddAt s l a.1 x m).2.1.heap (iterAddAt s l a.1 x m).2.2.1 =
      (dataOf (pre ++ a :: post)).insertIdx (pre.length + 1) x := by
  obtain ⟨_, _, k⟩ := (iterAddAt_spec s l pre post a x m r hb).2 ha
  refine ⟨k.repr, ?_⟩
  rw [k.repr.fwd]
  have : (dataOf (pre ++ a :: post)).insertIdx (pre.length + 1) x = dataOf pre ++ a.2 :: x :: dataOf post := by
    have h := insertIdx_mid (dataOf pre ++ [a.2]) (dataOf post) x
    simp only [List.length_append, dataOf_length, List.length_cons, List.length_nil, List.append_assoc, List.singleton_append] at h
    simpa using h
  rw [this]; simp

/-- `cc_list_diter_add` with `last` the node at position `k`: the new node sits directly in front of `last` -/
theorem diter_add_links (s : St) (l : Hdr) (pre post : List Cell) (a : Cell) (x : Nat) (m : Mem)
    (r : PList.Repr s.heap l (pre ++ a :: post)) (hb : ∀ y, y ∈ idsOf (pre ++ a :: post) → y < s.fresh)
    (ha : (m.allocT l.triple).1 = true) :
    PList.Repr (diterAddAt s l a.1 pre.length x m).2.1.heap (diterAddAt s l a.1 pre.length x m).2.2.1
      (pre ++ (s.fresh, x) :: a :: post) :=
  ((diterAddAt_spec s l pre post a x m r hb).2 ha).2.2.repr

/-- `cc_list_iter_remove` / `cc_list_diter_remove`: exactly the node `last` leaves the chain -/
theorem iter_remove_links (s : St) (l : Hdr) (pre post : List Cell) (a : Cell) (m : Mem)
    (r : PList.Repr s.heap l (pre ++ a :: post)) (hb : ∀ y, y ∈ idsOf (pre ++ a :: post) → y < s.fresh) :
    (iterRemoveAt s l a.1 m).1 = a.2 ∧
    PList.Repr (iterRemoveAt s l a.1 m).2.1.heap (iterRemoveAt s l a.1 m).2.2.1 (pre ++ post) :=
  ⟨(unlinkn_spec s l pre post a m r hb).1, (unlinkn_spec s l pre post a m r hb).2.2.repr⟩

/-- after any of the single-iterator mutators the list is well-formed again, so the content along `prev` from `tail` is the
exact reverse of the content along `next` from `head` (`add` with the allocation granted; a refused `add` changes nothing) -/
theorem iter_mutators_mirror (s : St) (l : Hdr) (pre post : List Cell) (a : Cell) (x : Nat) (m : Mem)
    (r : PList.Repr s.heap l (pre ++ a :: post)) (hb : ∀ y, y ∈ idsOf (pre ++ a :: post) → y < s.fresh) :
    ((m.allocT l.triple).1 = true →
      bwd (iterAddAt s l a.1 x m).2.1.heap (iterAddAt s l a.1 x m).2.2.1 =
        (fwd (iterAddAt s l a.1 x m).2.1.heap (iterAddAt s l a.1 x m).2.2.1).reverse ∧
      bwd (diterAddAt s l a.1 pre.length x m).2.1.heap (diterAddAt s l a.1 pre.length x m).2.2.1 =
        (fwd (diterAddAt s l a.1 pre.length x m).2.1.heap (diterAddAt s l a.1 pre.length x m).2.2.1).reverse) ∧
    bwd (iterRemoveAt s l a.1 m).2.1.heap (iterRemoveAt s l a.1 m).2.2.1 =
      (fwd (iterRemoveAt s l a.1 m).2.1.heap (iterRemoveAt s l a.1 m).2.2.1).reverse :=
  ⟨fun ha => ⟨PList.mirror ⟨_, (iter_add_links s l pre post a x m r hb ha).1⟩,
              PList.mirror ⟨_, diter_add_links s l pre post a x m r hb ha⟩⟩,
   PList.mirror ⟨_, (iter_remove_links s l pre post a m r hb).2⟩⟩

/-- **`cc_list_zip_iter_add`** on two lists sharing the heap, `l1_last`/`l2_last` any nodes `a1`/`a2` of theirs: refused at the
first node — nothing happened; refused at the second — only the first block went back through the first list's triple;
granted — each list gets its own fresh node directly behind its `last`, both stay represented (well-formed) and disjoint -/
theorem zip_add_links (s : St) (l1 l2 : Hdr) (pre1 post1 pre2 post2 : List Cell) (a1 a2 : Cell) (x1 x2 : Nat) (m : Mem)
    (r : Repr2 s.heap l1 l2 (pre1 ++ a1 :: post1) (pre2 ++ a2 :: post2))
    (hb1 : ∀ y, y ∈ idsOf (pre1 ++ a1 :: post1) → y < s.fresh) (hb2 : ∀ y, y ∈ idsOf (pre2 ++ a2 :: post2) → y < s.fresh) :
    ((m.allocT l1.triple).1 = false → zipAddAt s l1 l2 a1.1 a2.1 x1 x2 m = (.errAlloc, s, l1, l2, (m.allocT l1.triple).2)) ∧
    ((m.allocT l1.triple).1 = true → ((m.allocT l1.triple).2.allocT l2.triple).1 = false →
      zipAddAt s l1 l2 a1.1 a2.1 x1 x2 m = (.errAlloc, s, l1, l2, ((m.allocT l1.triple).2.allocT l2.triple).2.freeT l1.triple)) ∧
    ((m.allocT l1.triple).1 = true → ((m.allocT l1.triple).2.allocT l2.triple).1 = true →
      (zipAddAt s l1 l2 a1.1 a2.1 x1 x2 m).1 = .ok ∧
      Repr2 (zipAddAt s l1 l2 a1.1 a2.1 x1 x2 m).2.1.heap (zipAddAt s l1 l2 a1.1 a2.1 x1 x2 m).2.2.1
        (zipAddAt s l1 l2 a1.1 a2.1 x1 x2 m).2.2.2.1
        (pre1 ++ a1 :: (s.fresh, x1) :: post1) (pre2 ++ a2 :: (s.fresh + 1, x2) :: post2)) :=
  ⟨(zipAddAt_spec s l1 l2 pre1 post1 pre2 post2 a1 a2 x1 x2 m r hb1 hb2).1,
   (zipAddAt_spec s l1 l2 pre1 post1 pre2 post2 a1 a2 x1 x2 m r hb1 hb2).2.1,
   fun h1 h2 => ⟨((zipAddAt_spec s l1 l2 pre1 post1 pre2 post2 a1 a2 x1 x2 m r hb1 hb2).2.2 h1 h2).1,
                 ((zipAddAt_spec s l1 l2 pre1 post1 pre2 post2 a1 a2 x1 x2 m r hb1 hb2).2.2 h1 h2).2.2.1⟩⟩

/-- **`cc_list_zip_iter_remove`**: exactly the two nodes `l1_last`, `l2_last` leave their chains (each released through its own
list's triple), both lists stay represented and disjoint -/
theorem zip_remove_links (s : St) (l1 l2 : Hdr) (pre1 post1 pre2 post2 : List Cell) (a1 a2 : Cell) (m : Mem)
    (r : Repr2 s.heap l1 l2 (pre1 ++ a1 :: post1) (pre2 ++ a2 :: post2))
    (hb1 : ∀ y, y ∈ idsOf (pre1 ++ a1 :: post1) → y < s.fresh) (hb2 : ∀ y, y ∈ idsOf (pre2 ++ a2 :: post2) → y < s.fresh) :
    (iterRemoveAt (iterRemoveAt s l1 a1.1 m).2.1 l2 a2.1 (iterRemoveAt s l1 a1.1 m).2.2.2).2.2.2 = (m.freeT l1.triple).freeT l2.triple ∧
    Repr2 (iterRemoveAt (iterRemoveAt s l1 a1.1 m).2.1 l2 a2.1 (iterRemoveAt s l1 a1.1 m).2.2.2).2.1.heap (iterRemoveAt s l1 a1.1 m).2.2.1
      (iterRemoveAt (iterRemoveAt s l1 a1.1 m).2.1 l2 a2.1 (iterRemoveAt s l1 a1.1 m).2.2.2).2.2.1 (pre1 ++ post1) (pre2 ++ post2) :=
  ⟨(zipRemove_spec s l1 l2 pre1 post1 pre2 post2 a1 a2 m r hb1 hb2).2.2.1, (zipRemove_spec s l1 l2 pre1 post1 pre2 post2 a1 a2 m r hb1 hb2).2.2.2⟩

/-- `cc_list_filter_mut` at the level of nodes: exactly the nodes whose element fails the predicate leave the chain (one
release each), the others keep identity and order; the result is well-formed -/
theorem filter_mut_links (pr : Nat → Bool) (s : St) (l : Hdr) (cs : List Cell) (m : Mem) (r : PList.Repr s.heap l cs)
    (hb : ∀ y, y ∈ idsOf cs → y < s.fresh) (hne : cs ≠ []) :
    PList.Repr (filterMut pr s l m).2.1.heap (filterMut pr s l m).2.2.1 (cs.filter (fun c => pr c.2)) ∧
    (filterMut pr s l m).2.2.2 = Mem.freeN l.triple (cs.length - (cs.filter (fun c => pr c.2)).length) m :=
  ⟨((filterMut_spec pr s l cs m r hb).2 hne).2.2.repr, ((filterMut_spec pr s l cs m r hb).2 hne).2.1⟩

/-! ## Non-vacuity: a history with insertion in the middle, `filter_mut`, reversal, bulk copy and splice, read along both link directions -/
example :
    (fwd (prun ⟨fun v => v % 2 == 0, LSeq.cmpNum⟩ (fresh .conf .conf) [.addLast 1, .addLast 2, .addAt 4 1, .addLast 6, .filterMut, .reverse, .swapRoles, .addLast 9, .swapRoles, .addAllAt 1,
        .spliceAt 2, .removeAt 1] {}).2.1.st.heap
      (prun ⟨fun v => v % 2 == 0, LSeq.cmpNum⟩ (fresh .conf .conf) [.addLast 1, .addLast 2, .addAt 4 1, .addLast 6, .filterMut, .reverse, .swapRoles, .addLast 9, .swapRoles, .addAllAt 1,
        .spliceAt 2, .removeAt 1] {}).2.1.l1,
     bwd (prun ⟨fun v => v % 2 == 0, LSeq.cmpNum⟩ (fresh .conf .conf) [.addLast 1, .addLast 2, .addAt 4 1, .addLast 6, .filterMut, .reverse, .swapRoles, .addLast 9, .swapRoles, .addAllAt 1,
        .spliceAt 2, .removeAt 1] {}).2.1.st.heap
      (prun ⟨fun v => v % 2 == 0, LSeq.cmpNum⟩ (fresh .conf .conf) [.addLast 1, .addLast 2, .addAt 4 1, .addLast 6, .filterMut, .reverse, .swapRoles, .addLast 9, .swapRoles, .addAllAt 1,
        .spliceAt 2, .removeAt 1] {}).2.1.l1) = ([6, 9, 2, 4], [4, 2, 9, 6]) := by decide

end CC.Properties.C04PList
