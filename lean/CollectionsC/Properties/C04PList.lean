import CollectionsC.Proofs.PListHistory
import CollectionsC.Proofs.PListZip
import CollectionsC.Proofs.PListXHistory
import CollectionsC.Proofs.PListObs
import CollectionsC.Properties.C04
/-! # C04 (pointer level) — the raw `next`/`prev` links of CC_List

`Properties/C04.lean` works on the sequence-level model `Chain`, in which the successor of node `j` is node `j+1` by
construction; its `mirror_model` is therefore true by the shape of the state.  This file closes that gap for the core of
`src/cc_list.c`: `Model/PList.lean` is a **pointer-level** model — a heap of nodes with raw `next`/`prev` fields, list
headers with `head`/`tail`/`size`, and the C helpers `link_behind`, `unlinkn`, `unlinkn_all`, `swap`, `swap_adjacent`,
`splice_between`, `link_all_externally`, `get_node_at` written as the pointer surgery of the C text, assignment by
assignment.  On top of them: `add`, `add_first`, `add_last`, `add_at`, `add_all`, `add_all_at`, `splice`, `splice_at`,
`remove`, `remove_at`, `remove_first`, `remove_last`, `remove_all(_cb)`, `replace_at`, `reverse`, `destroy(_cb)`.

Proved (helpers: `Proofs/PList.lean`, `PListOps.lean`, `PListBulk.lean`, `PListReverse.lean`, `PListHistory.lean`):
* well-formedness `WF` (following `next` from `head` visits `size` distinct live nodes and ends in `tail`; `prev` of every
  node is its predecessor; two lists on one heap share no node) is preserved by every operation;
* every operation **refines the sequence-level model**: status, out-value, callback log, ledger and the content along the
  `next` links are those of `DList.step` on the canonical chain of the contents — hence, by `C04`, of the ideal lists;
* **`mirror`**: in every well-formed state the content read along the raw `prev` links from `tail` is the exact reverse of the
  content read along the raw `next` links from `head` — now a theorem about the links, for every state reachable from
  `cc_list_new` by any history of the operations above, under any refusal schedule, for any assignment of allocator triples.

Tie to the code: the correspondence harness prints for every list, after every operation, each node as
`id:data:prev_id:next_id` together with `head`/`tail` ids read from the C heap (`harness/shim_list.c`, `links<k>=…`); the Lean
driver runs `Model/PList.lean` alongside and prints the same from its heap, so layer L3 compares the link structure and
the identity of the nodes one by one on every run.

The iterator mutators (`cc_list_iter_add/remove/replace`, the descending and the zip variants) are pointer surgery on the
node `iter->last`; the cursor arithmetic stays with the sequence-level iterator models (`C07List`), the surgery is modelled
here (`iterAddAt`, `diterAddAt`, `iterRemoveAt`, `iterReplaceAt`, `zipAddAt`), run by the driver on the node at the cursor's
position (so L3 compares node identity across iterator programs too) and proved for the single iterators
(`iter_add_links`, `diter_add_links`, `iter_remove_links`) and for the zip iterator (`zip_add_links`, `zip_remove_links`).

**Scope of "always".**  `history_refines`/`history_refines_ideal`/`mirror` along histories quantify over `List POp`: the 16
operations above (insertions, bulk copies, splices, removals, `replace_at`, `reverse`, `filter_mut`, exchange of roles), any
refusal schedule, any triples.  The iterator mutators have the one-call theorems below (`iter_add_links`, `diter_add_links`,
`iter_remove_links`, and `iter_mutators_mirror`: the result is well-formed, hence mirrored), from any represented state —
together with `iter_add_inv2`, `diter_add_inv2`, `iter_remove_inv2` (the pair invariant `Inv2` — the hypothesis of
`step_refines`/`prun_refines` — is re-established after the call, `history_after_iter_add`) this covers alternations of `POp`
histories and iterator calls; they are not constructors of `POp`; the zip mutators have `zip_add_links` / `zip_remove_links` — for two **distinct** lists on one heap (`Repr2.disj`;
zip over the same list: known finding `KF-list-zip-same-list`, kept out of the generators by `gens_list.zip_same_list_excluded`).  Elsewhere at link level:
`cc_list_sort_in_place` and `cc_list_sort` in `C18PList.lean` (`sort_in_place_mirror`: both traversal directions after the
in-place sort), the derived-list builders in `C15PList.lean`.  Every list operation the harness can issue now has a
pointer-level model that the driver runs alongside, so L3 compares node identity across all of them (no resynchronisation).

**Extended histories** (`extended_history_wf`, `Proofs/PListXHistory.lean`): histories over `XOp` = the 16 operations of `POp`
plus `sort_in_place`, `sort`, and the zip iterator's `add` / `remove` on the nodes at a position `i` of the two lists — from
`cc_list_new`, any schedule, any triples, every total-preorder comparator and every length-preserving `qsort` stand-in: both
lists stay represented (well-formed), disjoint, and mirrored.  IN the history theorems: `POp` with full content refinement
(`history_refines`); the four extras with the invariant (their content: `C18PList`, `zip_add_links`/`zip_remove_links`).  NOT in
a history theorem: the derived-list builders (they create a third list; one-call theorems `C15PList`), the single iterators
(whole-program theorem of their own: `C07PList.iter_program_safe`; descending: `diter_add_links`), `zip replace` (data only). -/
namespace CC.Properties.C04PList
open CC CC.Chain CC.PList
open CC.Spec
open CC.Spec.LSeq (Op Out Params)

/-- **mirror** (raw links): backward traversal along `prev` from `tail` = reverse of forward traversal along `next` from `head` -/
theorem mirror (h : Heap) (l : Hdr) (w : WF h l) : bwd h l = (fwd h l).reverse := PList.mirror w

/-- the forward traversal of a represented list is its content, the backward traversal the reversed content -/
theorem traversals (h : Heap) (l : Hdr) (cs : List Cell) (r : PList.Repr h l cs) :
    fwd h l = dataOf cs ∧ bwd h l = (dataOf cs).reverse ∧ l.size = cs.length := ⟨r.fwd, r.bwd, r.size⟩

/-- the read-only observers on the raw links return what the ideal list returns: `cc_list_get_first`, `cc_list_get_last`,
`cc_list_get_at` (every index; out of range: `CC_ERR_OUT_OF_RANGE`) -/
theorem observers_links (h : Heap) (l : Hdr) (cs : List Cell) (r : PList.Repr h l cs) :
    getFirst h l = LSeq.getFirst (dataOf cs) ∧ getLast h l = LSeq.getLast (dataOf cs) ∧ ∀ i, getAt h l i = LSeq.getAt (dataOf cs) i :=
  ⟨getFirst_repr r, getLast_repr r, getAt_repr r⟩

/-- the two traversals of `mirror` are the complete, **NULL-terminated** traversals of the C iterators: following `next` from
`head` (`cc_list_iter_next`) and `prev` from `tail` (`cc_list_diter_next`) ends at NULL after exactly `size` nodes -/
theorem traversals_null_terminated (h : Heap) (l : Hdr) (w : WF h l) :
    walkNext h l.size l.head = none ∧ walkPrev h l.size l.tail = none ∧ bwd h l = (fwd h l).reverse := by
  obtain ⟨cs, r⟩ := w
  exact ⟨(walks_end r).1, (walks_end r).2, PList.mirror ⟨cs, r⟩⟩

/-- **one step**: every pointer-level operation keeps both lists well-formed and disjoint, and yields exactly the output,
the ledger and the contents of the sequence-level step (`Model/LinkedList.lean`) on the canonical chains -/
theorem step_refines (P : Params) (p : PS) (c1 c2 : List Cell) (op : POp) (m : Mem) (I : Inv2 p c1 c2) :
    ∃ c1' c2', Inv2 (pstep P p op m).2.1 c1' c2' ∧
      DList.step P (absPair p c1 c2) op.toOp m = ((pstep P p op m).1, absPair (pstep P p op m).2.1 c1' c2', (pstep P p op m).2.2) :=
  pstep_refines P p c1 c2 op m I

/-- two freshly constructed (empty) lists on the triples `t1`, `t2` -/
def fresh (t1 t2 : Triple) : PS := { st := {}, l1 := { triple := t1 }, l2 := { triple := t2 } }

theorem fresh_inv (t1 t2 : Triple) : Inv2 (fresh t1 t2) [] [] := by
  have r1 : PList.Repr (fresh t1 t2).st.heap (fresh t1 t2).l1 [] := ⟨by simp [idsOf], trivial, rfl, rfl, rfl⟩
  have r2 : PList.Repr (fresh t1 t2).st.heap (fresh t1 t2).l2 [] := ⟨by simp [idsOf], trivial, rfl, rfl, rfl⟩
  refine ⟨⟨r1, r2, ?_⟩, ?_, ?_⟩ <;> (intro x hx; simp [idsOf] at hx)

/-- **whole histories from `new`**: outputs and ledger of the pointer-level run are those of the sequence-level run; both
lists end well-formed; their `next`-contents are the contents of the sequence-level final states; and the `prev`-contents
are the exact mirrors -/
theorem history_refines (P : Params) (t1 t2 : Triple) (ops : List POp) (m : Mem) :
    (prun P (fresh t1 t2) ops m).1 = (DList.run P (ofList t1 [], ofList t2 []) (ops.map POp.toOp) m).1 ∧
    (prun P (fresh t1 t2) ops m).2.2 = (DList.run P (ofList t1 [], ofList t2 []) (ops.map POp.toOp) m).2.2 ∧
    WF (prun P (fresh t1 t2) ops m).2.1.st.heap (prun P (fresh t1 t2) ops m).2.1.l1 ∧
    WF (prun P (fresh t1 t2) ops m).2.1.st.heap (prun P (fresh t1 t2) ops m).2.1.l2 ∧
    fwd (prun P (fresh t1 t2) ops m).2.1.st.heap (prun P (fresh t1 t2) ops m).2.1.l1 =
      (DList.run P (ofList t1 [], ofList t2 []) (ops.map POp.toOp) m).2.1.1.abs ∧
    fwd (prun P (fresh t1 t2) ops m).2.1.st.heap (prun P (fresh t1 t2) ops m).2.1.l2 =
      (DList.run P (ofList t1 [], ofList t2 []) (ops.map POp.toOp) m).2.1.2.abs ∧
    bwd (prun P (fresh t1 t2) ops m).2.1.st.heap (prun P (fresh t1 t2) ops m).2.1.l1 =
      (fwd (prun P (fresh t1 t2) ops m).2.1.st.heap (prun P (fresh t1 t2) ops m).2.1.l1).reverse ∧
    bwd (prun P (fresh t1 t2) ops m).2.1.st.heap (prun P (fresh t1 t2) ops m).2.1.l2 =
      (fwd (prun P (fresh t1 t2) ops m).2.1.st.heap (prun P (fresh t1 t2) ops m).2.1.l2).reverse := by
  obtain ⟨c1, c2, I, e⟩ := prun_refines P ops (fresh t1 t2) [] [] m (fresh_inv t1 t2)
  have e0 : absPair (fresh t1 t2) [] [] = (ofList t1 [], ofList t2 []) := rfl
  rw [e0] at e
  rw [e]
  have w1 : WF _ _ := ⟨c1, I.rep.r1⟩
  have w2 : WF _ _ := ⟨c2, I.rep.r2⟩
  exact ⟨rfl, rfl, w1, w2, by rw [I.rep.r1.fwd]; rfl, by rw [I.rep.r2.fwd]; rfl, PList.mirror w1, PList.mirror w2⟩

/-- … and therefore (with `C04.dlist_history_content`) the pointer-level run yields the outputs and contents of the ideal lists on
which the refused operations did not happen — for **every** history over `POp`, `splice`/`splice_at` between lists on
different allocator triples included (the content statement does not depend on the ledger) -/
theorem history_refines_ideal (P : Params) (t1 t2 : Triple) (ops : List POp) (m : Mem) :
    (prun P (fresh t1 t2) ops m).1 =
      (LSeq.runSkipping true P ([], []) (ops.map POp.toOp) ((prun P (fresh t1 t2) ops m).1.map (·.st))).1 ∧
    (fwd (prun P (fresh t1 t2) ops m).2.1.st.heap (prun P (fresh t1 t2) ops m).2.1.l1,
     fwd (prun P (fresh t1 t2) ops m).2.1.st.heap (prun P (fresh t1 t2) ops m).2.1.l2) =
      (LSeq.runSkipping true P ([], []) (ops.map POp.toOp) ((prun P (fresh t1 t2) ops m).1.map (·.st))).2 := by
  obtain ⟨h1, _, _, _, h5, h6, _, _⟩ := history_refines P t1 t2 ops m
  have := C04.dlist_history_content P (ops.map POp.toOp) (ofList t1 [], ofList t2 []) m (ofList_inv _) (ofList_inv _)
  rw [h1, h5, h6]
  exact ⟨this.1, this.2.1⟩

/-- **extended histories from `new`**: `POp` plus `sort_in_place`, `sort`, zip `add`/`remove` at a position — both lists end
well-formed and mirrored (and disjoint: `Inv2`) -/
theorem extended_history_wf (P : Params) (hc : LSeq.CmpPreorder P.cmp) (sortFn : List Nat → List Nat)
    (hlen : ∀ xs, (sortFn xs).length = xs.length) (t1 t2 : Triple) (ops : List XOp) (m : Mem) :
    WF (xrun P sortFn (fresh t1 t2) ops m).1.st.heap (xrun P sortFn (fresh t1 t2) ops m).1.l1 ∧
    WF (xrun P sortFn (fresh t1 t2) ops m).1.st.heap (xrun P sortFn (fresh t1 t2) ops m).1.l2 ∧
    bwd (xrun P sortFn (fresh t1 t2) ops m).1.st.heap (xrun P sortFn (fresh t1 t2) ops m).1.l1 =
      (fwd (xrun P sortFn (fresh t1 t2) ops m).1.st.heap (xrun P sortFn (fresh t1 t2) ops m).1.l1).reverse ∧
    bwd (xrun P sortFn (fresh t1 t2) ops m).1.st.heap (xrun P sortFn (fresh t1 t2) ops m).1.l2 =
      (fwd (xrun P sortFn (fresh t1 t2) ops m).1.st.heap (xrun P sortFn (fresh t1 t2) ops m).1.l2).reverse ∧
    ∃ c1 c2, Inv2 (xrun P sortFn (fresh t1 t2) ops m).1 c1 c2 := by
  obtain ⟨c1, c2, I⟩ := xrun_inv P hc sortFn hlen ops (fresh t1 t2) [] [] m (fresh_inv t1 t2)
  exact ⟨⟨c1, I.rep.r1⟩, ⟨c2, I.rep.r2⟩, PList.mirror ⟨c1, I.rep.r1⟩, PList.mirror ⟨c2, I.rep.r2⟩, c1, c2, I⟩

/-! ## iterator mutators on the node `iter->last` -/

/-- `cc_list_iter_add` with `last` any node of the list (whatever `iter->index` says — in particular for the second and
every further `add` behind the same yielded element, defect L6): the list stays well-formed (`tail` moves exactly when the new
node has no successor), the new node sits directly behind `last`, every other node keeps its identity and its place -/
theorem iter_add_links (s : St) (l : Hdr) (pre post : List Cell) (a : Cell) (x : Nat) (m : Mem)
    (r : PList.Repr s.heap l (pre ++ a :: post)) (hb : ∀ y, y ∈ idsOf (pre ++ a :: post) → y < s.fresh)
    (ha : (m.allocT l.triple).1 = true) :
    PList.Repr (iterAddAt s l a.1 x m).2.1.heap (iterAddAt s l a.1 x m).2.2.1
      (pre ++ a :: (s.fresh, x) :: post) ∧
    fwd (iterAddAt s l a.1 x m).2.1.heap (iterAddAt s l a.1 x m).2.2.1 =
      (dataOf (pre ++ a :: post)).insertIdx (pre.length + 1) x := by
  obtain ⟨_, _, k⟩ := (iterAddAt_spec s l pre post a x m r hb).2 ha
  refine ⟨k.repr, ?_⟩
  rw [k.repr.fwd]
  have : (dataOf (pre ++ a :: post)).insertIdx (pre.length + 1) x = dataOf pre ++ a.2 :: x :: dataOf post := by
    have h := insertIdx_mid (dataOf pre ++ [a.2]) (dataOf post) x
    simp only [List.length_append, dataOf_length, List.length_cons, List.length_nil, List.append_assoc, List.singleton_append] at h
    simpa using h
  rw [this]; simp

/-- `cc_list_diter_add` with `last` the node at position `k`: the new node sits directly in front of `last` -/
theorem diter_add_links (s : St) (l : Hdr) (pre post : List Cell) (a : Cell) (x : Nat) (m : Mem)
    (r : PList.Repr s.heap l (pre ++ a :: post)) (hb : ∀ y, y ∈ idsOf (pre ++ a :: post) → y < s.fresh)
    (ha : (m.allocT l.triple).1 = true) :
    PList.Repr (diterAddAt s l a.1 pre.length x m).2.1.heap (diterAddAt s l a.1 pre.length x m).2.2.1
      (pre ++ (s.fresh, x) :: a :: post) :=
  ((diterAddAt_spec s l pre post a x m r hb).2 ha).2.2.repr

/-- `cc_list_iter_remove` / `cc_list_diter_remove`: exactly the node `last` leaves the chain -/
theorem iter_remove_links (s : St) (l : Hdr) (pre post : List Cell) (a : Cell) (m : Mem)
    (r : PList.Repr s.heap l (pre ++ a :: post)) (hb : ∀ y, y ∈ idsOf (pre ++ a :: post) → y < s.fresh) :
    (iterRemoveAt s l a.1 m).1 = a.2 ∧
    PList.Repr (iterRemoveAt s l a.1 m).2.1.heap (iterRemoveAt s l a.1 m).2.2.1 (pre ++ post) :=
  ⟨(unlinkn_spec s l pre post a m r hb).1, (unlinkn_spec s l pre post a m r hb).2.2.repr⟩

/-- after any of the single-iterator mutators the list is well-formed again, so the content along `prev` from `tail` is the
exact reverse of the content along `next` from `head` (`add` with the allocation granted; a refused `add` changes nothing) -/
theorem iter_mutators_mirror (s : St) (l : Hdr) (pre post : List Cell) (a : Cell) (x : Nat) (m : Mem)
    (r : PList.Repr s.heap l (pre ++ a :: post)) (hb : ∀ y, y ∈ idsOf (pre ++ a :: post) → y < s.fresh) :
    ((m.allocT l.triple).1 = true →
      bwd (iterAddAt s l a.1 x m).2.1.heap (iterAddAt s l a.1 x m).2.2.1 =
        (fwd (iterAddAt s l a.1 x m).2.1.heap (iterAddAt s l a.1 x m).2.2.1).reverse ∧
      bwd (diterAddAt s l a.1 pre.length x m).2.1.heap (diterAddAt s l a.1 pre.length x m).2.2.1 =
        (fwd (diterAddAt s l a.1 pre.length x m).2.1.heap (diterAddAt s l a.1 pre.length x m).2.2.1).reverse) ∧
    bwd (iterRemoveAt s l a.1 m).2.1.heap (iterRemoveAt s l a.1 m).2.2.1 =
      (fwd (iterRemoveAt s l a.1 m).2.1.heap (iterRemoveAt s l a.1 m).2.2.1).reverse :=
  ⟨fun ha => ⟨PList.mirror ⟨_, (iter_add_links s l pre post a x m r hb ha).1⟩,
              PList.mirror ⟨_, diter_add_links s l pre post a x m r hb ha⟩⟩,
   PList.mirror ⟨_, (iter_remove_links s l pre post a m r hb).2⟩⟩

/-! ## the iterator mutators inside histories

The `*_links` theorems above state what happens to the list; the corollaries below re-establish the **pair invariant** `Inv2`
(both lists represented and disjoint, all nodes older than the serial counter — the hypothesis of `step_refines` and
`prun_refines`), so iterator calls can be interleaved with the operations of `POp` at any point of a history. -/

/-- everything `cc_list_iter_add` guarantees (`Keeps`: representation, triple, serial counter, bound, frame, released nodes) -/
theorem iter_add_keeps (s : St) (l : Hdr) (pre post : List Cell) (a : Cell) (x : Nat) (m : Mem)
    (r : PList.Repr s.heap l (pre ++ a :: post)) (hb : ∀ y, y ∈ idsOf (pre ++ a :: post) → y < s.fresh)
    (ha : (m.allocT l.triple).1 = true) :
    (iterAddAt s l a.1 x m).1 = .ok ∧ (iterAddAt s l a.1 x m).2.2.2 = (m.allocT l.triple).2 ∧
    Keeps s (iterAddAt s l a.1 x m).2.1 l (iterAddAt s l a.1 x m).2.2.1 (pre ++ a :: post) (pre ++ a :: (s.fresh, x) :: post) :=
  (iterAddAt_spec s l pre post a x m r hb).2 ha

theorem diter_add_keeps (s : St) (l : Hdr) (pre post : List Cell) (a : Cell) (x : Nat) (m : Mem)
    (r : PList.Repr s.heap l (pre ++ a :: post)) (hb : ∀ y, y ∈ idsOf (pre ++ a :: post) → y < s.fresh)
    (ha : (m.allocT l.triple).1 = true) :
    (diterAddAt s l a.1 pre.length x m).1 = .ok ∧ (diterAddAt s l a.1 pre.length x m).2.2.2 = (m.allocT l.triple).2 ∧
    Keeps s (diterAddAt s l a.1 pre.length x m).2.1 l (diterAddAt s l a.1 pre.length x m).2.2.1
      (pre ++ a :: post) (pre ++ (s.fresh, x) :: a :: post) :=
  (diterAddAt_spec s l pre post a x m r hb).2 ha

theorem iter_remove_keeps (s : St) (l : Hdr) (pre post : List Cell) (a : Cell) (m : Mem)
    (r : PList.Repr s.heap l (pre ++ a :: post)) (hb : ∀ y, y ∈ idsOf (pre ++ a :: post) → y < s.fresh) :
    (iterRemoveAt s l a.1 m).1 = a.2 ∧ (iterRemoveAt s l a.1 m).2.2.2 = m.freeT l.triple ∧
    Keeps s (iterRemoveAt s l a.1 m).2.1 l (iterRemoveAt s l a.1 m).2.2.1 (pre ++ a :: post) (pre ++ post) :=
  unlinkn_spec s l pre post a m r hb

/-- `cc_list_iter_add` on the first list of a pair keeps the pair invariant -/
theorem iter_add_inv2 (p : PS) (pre post c2 : List Cell) (a : Cell) (x : Nat) (m : Mem) (I : Inv2 p (pre ++ a :: post) c2)
    (ha : (m.allocT p.l1.triple).1 = true) :
    Inv2 { p with st := (iterAddAt p.st p.l1 a.1 x m).2.1, l1 := (iterAddAt p.st p.l1 a.1 x m).2.2.1 }
      (pre ++ a :: (p.st.fresh, x) :: post) c2 :=
  Inv2.of_keeps I ((iterAddAt_spec p.st p.l1 pre post a x m I.rep.r1 I.b1).2 ha).2.2 (fun y hy => by
    rcases mem_ins hy with h | h
    · exact Or.inl h
    · exact Or.inr (Nat.le_of_eq h.symm))

/-- `cc_list_diter_add` keeps the pair invariant -/
theorem diter_add_inv2 (p : PS) (pre post c2 : List Cell) (a : Cell) (x : Nat) (m : Mem) (I : Inv2 p (pre ++ a :: post) c2)
    (ha : (m.allocT p.l1.triple).1 = true) :
    Inv2 { p with st := (diterAddAt p.st p.l1 a.1 pre.length x m).2.1, l1 := (diterAddAt p.st p.l1 a.1 pre.length x m).2.2.1 }
      (pre ++ (p.st.fresh, x) :: a :: post) c2 :=
  Inv2.of_keeps I ((diterAddAt_spec p.st p.l1 pre post a x m I.rep.r1 I.b1).2 ha).2.2 (fun y hy => by
    simp only [idsOf_append, idsOf_cons, List.mem_append, List.mem_cons] at hy ⊢
    rcases hy with h | h | h | h
    · exact Or.inl (Or.inl h)
    · exact Or.inr (Nat.le_of_eq h.symm)
    · exact Or.inl (Or.inr (Or.inl h))
    · exact Or.inl (Or.inr (Or.inr h)))

/-- `cc_list_iter_remove` / `cc_list_diter_remove` keep the pair invariant -/
theorem iter_remove_inv2 (p : PS) (pre post c2 : List Cell) (a : Cell) (m : Mem) (I : Inv2 p (pre ++ a :: post) c2) :
    Inv2 { p with st := (iterRemoveAt p.st p.l1 a.1 m).2.1, l1 := (iterRemoveAt p.st p.l1 a.1 m).2.2.1 } (pre ++ post) c2 :=
  Inv2.of_keeps I (unlinkn_spec p.st p.l1 pre post a m I.rep.r1 I.b1).2.2 (fun y hy => Or.inl (by
    simp only [idsOf_append, idsOf_cons, List.mem_append, List.mem_cons] at hy ⊢
    rcases hy with h | h
    · exact Or.inl h
    · exact Or.inr (Or.inr h)))

/-- … and therefore a history of list operations may follow an iterator call (and so on, alternately): from the state after an
`iter_add` the pointer-level run again refines the sequence-level run on the canonical chains of the contents -/
theorem history_after_iter_add (P : Params) (p : PS) (pre post c2 : List Cell) (a : Cell) (x : Nat) (m m' : Mem)
    (I : Inv2 p (pre ++ a :: post) c2) (ha : (m.allocT p.l1.triple).1 = true) (ops : List POp) :
    ∃ c1' c2', Inv2 (prun P { p with st := (iterAddAt p.st p.l1 a.1 x m).2.1, l1 := (iterAddAt p.st p.l1 a.1 x m).2.2.1 } ops m').2.1 c1' c2' :=
  (prun_refines P ops _ _ _ m' (iter_add_inv2 p pre post c2 a x m I ha)).elim fun c1' h => h.elim fun c2' h2 => ⟨c1', c2', h2.1⟩

/-- **`cc_list_zip_iter_add`** on two **distinct** lists sharing the heap (hypothesis `Repr2`: both represented, node sets
disjoint — a zip iterator over the same list is outside these theorems and misbehaves in the library: known finding
`KF-list-zip-same-list`, witness `corpus/list/defect_zip_same_list_remove.ops`), `l1_last`/`l2_last` any nodes `a1`/`a2` of theirs: refused at the
first node — nothing happened; refused at the second — only the first block went back through the first list's triple;
granted — each list gets its own fresh node directly behind its `last`, both stay represented (well-formed) and disjoint -/
theorem zip_add_links (s : St) (l1 l2 : Hdr) (pre1 post1 pre2 post2 : List Cell) (a1 a2 : Cell) (x1 x2 : Nat) (m : Mem)
    (r : Repr2 s.heap l1 l2 (pre1 ++ a1 :: post1) (pre2 ++ a2 :: post2))
    (hb1 : ∀ y, y ∈ idsOf (pre1 ++ a1 :: post1) → y < s.fresh) (hb2 : ∀ y, y ∈ idsOf (pre2 ++ a2 :: post2) → y < s.fresh) :
    ((m.allocT l1.triple).1 = false → zipAddAt s l1 l2 a1.1 a2.1 x1 x2 m = (.errAlloc, s, l1, l2, (m.allocT l1.triple).2)) ∧
    ((m.allocT l1.triple).1 = true → ((m.allocT l1.triple).2.allocT l2.triple).1 = false →
      zipAddAt s l1 l2 a1.1 a2.1 x1 x2 m = (.errAlloc, s, l1, l2, ((m.allocT l1.triple).2.allocT l2.triple).2.freeT l1.triple)) ∧
    ((m.allocT l1.triple).1 = true → ((m.allocT l1.triple).2.allocT l2.triple).1 = true →
      (zipAddAt s l1 l2 a1.1 a2.1 x1 x2 m).1 = .ok ∧
      Repr2 (zipAddAt s l1 l2 a1.1 a2.1 x1 x2 m).2.1.heap (zipAddAt s l1 l2 a1.1 a2.1 x1 x2 m).2.2.1
        (zipAddAt s l1 l2 a1.1 a2.1 x1 x2 m).2.2.2.1
        (pre1 ++ a1 :: (s.fresh, x1) :: post1) (pre2 ++ a2 :: (s.fresh + 1, x2) :: post2)) :=
  ⟨(zipAddAt_spec s l1 l2 pre1 post1 pre2 post2 a1 a2 x1 x2 m r hb1 hb2).1,
   (zipAddAt_spec s l1 l2 pre1 post1 pre2 post2 a1 a2 x1 x2 m r hb1 hb2).2.1,
   fun h1 h2 => ⟨((zipAddAt_spec s l1 l2 pre1 post1 pre2 post2 a1 a2 x1 x2 m r hb1 hb2).2.2 h1 h2).1,
                 ((zipAddAt_spec s l1 l2 pre1 post1 pre2 post2 a1 a2 x1 x2 m r hb1 hb2).2.2 h1 h2).2.2.1⟩⟩

/-- **`cc_list_zip_iter_remove`** on two **distinct** lists (`Repr2`; over the same list the library unlinks and frees the one
node twice — `KF-list-zip-same-list`): exactly the two nodes `l1_last`, `l2_last` leave their chains (each released through
its own list's triple), both lists stay represented and disjoint -/
theorem zip_remove_links (s : St) (l1 l2 : Hdr) (pre1 post1 pre2 post2 : List Cell) (a1 a2 : Cell) (m : Mem)
    (r : Repr2 s.heap l1 l2 (pre1 ++ a1 :: post1) (pre2 ++ a2 :: post2))
    (hb1 : ∀ y, y ∈ idsOf (pre1 ++ a1 :: post1) → y < s.fresh) (hb2 : ∀ y, y ∈ idsOf (pre2 ++ a2 :: post2) → y < s.fresh) :
    (iterRemoveAt (iterRemoveAt s l1 a1.1 m).2.1 l2 a2.1 (iterRemoveAt s l1 a1.1 m).2.2.2).2.2.2 = (m.freeT l1.triple).freeT l2.triple ∧
    Repr2 (iterRemoveAt (iterRemoveAt s l1 a1.1 m).2.1 l2 a2.1 (iterRemoveAt s l1 a1.1 m).2.2.2).2.1.heap (iterRemoveAt s l1 a1.1 m).2.2.1
      (iterRemoveAt (iterRemoveAt s l1 a1.1 m).2.1 l2 a2.1 (iterRemoveAt s l1 a1.1 m).2.2.2).2.2.1 (pre1 ++ post1) (pre2 ++ post2) :=
  ⟨(zipRemove_spec s l1 l2 pre1 post1 pre2 post2 a1 a2 m r hb1 hb2).2.2.1, (zipRemove_spec s l1 l2 pre1 post1 pre2 post2 a1 a2 m r hb1 hb2).2.2.2⟩

/-- the complete statement for `cc_list_zip_iter_add` (status, ledger, `Repr2`, triples, serial counter `+2`, frame) -/
theorem zip_add_full (s : St) (l1 l2 : Hdr) (pre1 post1 pre2 post2 : List Cell) (a1 a2 : Cell) (x1 x2 : Nat) (m : Mem)
    (r : Repr2 s.heap l1 l2 (pre1 ++ a1 :: post1) (pre2 ++ a2 :: post2))
    (hb1 : ∀ y, y ∈ idsOf (pre1 ++ a1 :: post1) → y < s.fresh) (hb2 : ∀ y, y ∈ idsOf (pre2 ++ a2 :: post2) → y < s.fresh)
    (h1 : (m.allocT l1.triple).1 = true) (h2 : ((m.allocT l1.triple).2.allocT l2.triple).1 = true) :
    (zipAddAt s l1 l2 a1.1 a2.1 x1 x2 m).1 = .ok ∧
    (zipAddAt s l1 l2 a1.1 a2.1 x1 x2 m).2.2.2.2 = ((m.allocT l1.triple).2.allocT l2.triple).2 ∧
    Repr2 (zipAddAt s l1 l2 a1.1 a2.1 x1 x2 m).2.1.heap (zipAddAt s l1 l2 a1.1 a2.1 x1 x2 m).2.2.1 (zipAddAt s l1 l2 a1.1 a2.1 x1 x2 m).2.2.2.1
      (pre1 ++ a1 :: (s.fresh, x1) :: post1) (pre2 ++ a2 :: (s.fresh + 1, x2) :: post2) ∧
    (zipAddAt s l1 l2 a1.1 a2.1 x1 x2 m).2.2.1.triple = l1.triple ∧ (zipAddAt s l1 l2 a1.1 a2.1 x1 x2 m).2.2.2.1.triple = l2.triple ∧
    (zipAddAt s l1 l2 a1.1 a2.1 x1 x2 m).2.1.fresh = s.fresh + 2 ∧
    (∀ b, b ∉ idsOf (pre1 ++ a1 :: post1) → b ∉ idsOf (pre2 ++ a2 :: post2) → b < s.fresh →
      (zipAddAt s l1 l2 a1.1 a2.1 x1 x2 m).2.1.heap b = s.heap b) :=
  (zipAddAt_spec s l1 l2 pre1 post1 pre2 post2 a1 a2 x1 x2 m r hb1 hb2).2.2 h1 h2

/-- everything `cc_list_filter_mut` guarantees (`Keeps`, incl. "the dropped nodes are released") -/
theorem filter_mut_keeps (pr : Nat → Bool) (s : St) (l : Hdr) (cs : List Cell) (m : Mem) (r : PList.Repr s.heap l cs)
    (hb : ∀ y, y ∈ idsOf cs → y < s.fresh) (hne : cs ≠ []) :
    Keeps s (filterMut pr s l m).2.1 l (filterMut pr s l m).2.2.1 cs (cs.filter (fun c => pr c.2)) :=
  ((filterMut_spec pr s l cs m r hb).2 hne).2.2

/-- `cc_list_filter_mut` at the level of nodes: exactly the nodes whose element fails the predicate leave the chain (one
release each), the others keep identity and order; the result is well-formed -/
theorem filter_mut_links (pr : Nat → Bool) (s : St) (l : Hdr) (cs : List Cell) (m : Mem) (r : PList.Repr s.heap l cs)
    (hb : ∀ y, y ∈ idsOf cs → y < s.fresh) (hne : cs ≠ []) :
    PList.Repr (filterMut pr s l m).2.1.heap (filterMut pr s l m).2.2.1 (cs.filter (fun c => pr c.2)) ∧
    (filterMut pr s l m).2.2.2 = Mem.freeN l.triple (cs.length - (cs.filter (fun c => pr c.2)).length) m :=
  ⟨((filterMut_spec pr s l cs m r hb).2 hne).2.2.repr, ((filterMut_spec pr s l cs m r hb).2 hne).2.1⟩

/-! ## Non-vacuity: a history with insertion in the middle, `filter_mut`, reversal, bulk copy and splice, read along both link directions -/
example :
    (fwd (prun ⟨fun v => v % 2 == 0, LSeq.cmpNum⟩ (fresh .conf .conf) [.addLast 1, .addLast 2, .addAt 4 1, .addLast 6, .filterMut, .reverse, .swapRoles, .addLast 9, .swapRoles, .addAllAt 1,
        .spliceAt 2, .removeAt 1] {}).2.1.st.heap
      (prun ⟨fun v => v % 2 == 0, LSeq.cmpNum⟩ (fresh .conf .conf) [.addLast 1, .addLast 2, .addAt 4 1, .addLast 6, .filterMut, .reverse, .swapRoles, .addLast 9, .swapRoles, .addAllAt 1,
        .spliceAt 2, .removeAt 1] {}).2.1.l1,
     bwd (prun ⟨fun v => v % 2 == 0, LSeq.cmpNum⟩ (fresh .conf .conf) [.addLast 1, .addLast 2, .addAt 4 1, .addLast 6, .filterMut, .reverse, .swapRoles, .addLast 9, .swapRoles, .addAllAt 1,
        .spliceAt 2, .removeAt 1] {}).2.1.st.heap
      (prun ⟨fun v => v % 2 == 0, LSeq.cmpNum⟩ (fresh .conf .conf) [.addLast 1, .addLast 2, .addAt 4 1, .addLast 6, .filterMut, .reverse, .swapRoles, .addLast 9, .swapRoles, .addAllAt 1,
        .spliceAt 2, .removeAt 1] {}).2.1.l1) = ([6, 9, 2, 4], [4, 2, 9, 6]) := by decide

end CC.Properties.C04PList
